(* LegacyLoad.v — the 0.0.39 loader rebuilds the model through the same API calls as the native one
   (translators/updater.py: add_asset with the stored id, add_association on the assets found by id, add_attacker),
   so the rebuild theorem of ModelLoadThm.v applies to what decode39 reads. (C18) *)
From MT Require Import Prelude Codec ModelIO Model ModelOps ModelInv ModelLoad ModelLoadThm Legacy.

Section LegacyLoad.
Variable defaults : string -> list (string * Z).

Theorem legacy39_rebuild c : no_extras c = true -> loadable defaults c = true ->
  exists c' s, decode39 (encode39 c) = Some c' /\ load defaults c' = (s, MOk) /\ MI s /\ content_of defaults (c_name c) s = c.
Proof.
  intros NE OK. exists c. destruct (load_loadable defaults c OK) as (s & E & I & C). exists s.
  split; [apply decode39_encode39; auto|auto].
Qed.

(* the model built from the legacy file is the model built from the native file of the same content *)
Theorem legacy39_same_model c : no_extras c = true -> wf_content c = true ->
  option_map (load defaults) (decode39 (encode39 c)) = option_map (load defaults) (decode (encode c)).
Proof. intros NE W. rewrite (legacy39_agrees_with_native c NE W). reflexivity. Qed.
End LegacyLoad.
