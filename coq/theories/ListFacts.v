(* ListFacts.v — counting lemmas for Python's list.remove applied repeatedly, and folds of heap updates. *)
From MT Require Import Prelude.
From Coq Require Import Arith.

Notation cnt := (count_occ Nat.eq_dec).

Lemma cnt_remove1_same x l : cnt (remove1 x l) x = pred (cnt l x).
Proof.
  induction l as [|a r IH]; cbn; auto.
  destruct (Nat.eqb_spec x a) as [->|N].
  - destruct (Nat.eq_dec a a); [auto|congruence].
  - cbn. destruct (Nat.eq_dec a x); [congruence|auto].
Qed.
Lemma cnt_remove1_other x y l : x <> y -> cnt (remove1 x l) y = cnt l y.
Proof.
  intros N. induction l as [|a r IH]; cbn; auto.
  destruct (Nat.eqb_spec x a) as [->|N2].
  - destruct (Nat.eq_dec a y); [congruence|auto].
  - cbn. destruct (Nat.eq_dec a y); auto.
Qed.

Fixpoint iter_remove (k : nat) (x : nat) (l : list nat) : list nat :=
  match k with O => l | S k' => iter_remove k' x (remove1 x l) end.
Lemma cnt_iter_remove_same k x l : cnt (iter_remove k x l) x = cnt l x - k.
Proof.
  revert l; induction k as [|k IH]; intros l; cbn; [lia|].
  rewrite IH, cnt_remove1_same. lia.
Qed.
Lemma cnt_iter_remove_other k x y l : x <> y -> cnt (iter_remove k x l) y = cnt l y.
Proof.
  intros N. revert l; induction k as [|k IH]; intros l; cbn; auto.
  rewrite IH, cnt_remove1_other; auto.
Qed.
Lemma In_iter_remove k x y l : In y (iter_remove k x l) -> In y l.
Proof.
  revert l; induction k as [|k IH]; intros l; cbn; auto.
  intros H. apply IH in H. eapply remove1_In; eauto.
Qed.
Lemma In_cnt x l : In x l <-> cnt l x > 0.
Proof. apply count_occ_In. Qed.
Lemma notIn_cnt x l : ~ In x l <-> cnt l x = 0.
Proof. apply count_occ_not_In. Qed.

Lemma cnt_app l1 l2 x : cnt (l1 ++ l2) x = cnt l1 x + cnt l2 x.
Proof. apply count_occ_app. Qed.
Lemma cnt_single a x : cnt [a] x = if Nat.eqb a x then 1 else 0.
Proof. cbn. destruct (Nat.eq_dec a x), (Nat.eqb_spec a x); congruence. Qed.

(* a fold that applies, for every element c of l, the update u to the heap cell c *)
Section FoldUpd.
Context {T : Type} (u : T -> T).
Definition hupd (h : nat -> T) (o : nat) : nat -> T := fun x => if Nat.eqb x o then u (h x) else h x.
Fixpoint iter_u (k : nat) (t : T) : T := match k with O => t | S k' => iter_u k' (u t) end.
Lemma fold_hupd l : forall h x, fold_left hupd l h x = iter_u (cnt l x) (h x).
Proof.
  induction l as [|c r IH]; intros h x; cbn; auto.
  rewrite IH. destruct (Nat.eq_dec c x) as [->|N].
  - unfold hupd. rewrite Nat.eqb_refl. reflexivity.
  - unfold hupd. destruct (Nat.eqb_spec x c); [congruence|reflexivity].
Qed.
End FoldUpd.

Lemma NoDup_cnt_le1 l x : NoDup l -> cnt l x <= 1.
Proof. intros H. rewrite (NoDup_count_occ Nat.eq_dec) in H. apply H. Qed.

Lemma NoDup_app_single {A} (l : list A) x : NoDup l -> ~ In x l -> NoDup (l ++ [x]).
Proof.
  induction l as [|a r IH]; cbn; intros H N.
  - repeat constructor; auto.
  - inversion H; subst. constructor.
    + rewrite in_app_iff. cbn. intros [B|[B|[]]]; subst; auto.
    + apply IH; auto.
Qed.
Lemma In_app_single {A} (l : list A) x y : In y (l ++ [x]) <-> In y l \/ y = x.
Proof. rewrite in_app_iff. cbn. intuition. Qed.

Lemma filter_all_true {A} (f : A -> bool) (l : list A) : (forall x, In x l -> f x = true) -> filter f l = l.
Proof.
  induction l as [|a r IH]; cbn; auto. intros H. rewrite (H a) by auto. f_equal. apply IH. auto.
Qed.
Lemma filter_filter {A} (f g : A -> bool) (l : list A) : filter f (filter g l) = filter (fun x => f x && g x) l.
Proof.
  induction l as [|a r IH]; cbn; auto. destruct (g a); cbn; rewrite ?andb_true_r, ?andb_false_r.
  - destruct (f a); rewrite IH; auto.
  - auto.
Qed.

Lemma nth_error_Some_lt {A} (l : list A) k x : nth_error l k = Some x -> k < List.length l.
Proof. intros H. apply nth_error_Some. congruence. Qed.
Lemma fold_left_ext_in {A B} (f g : A -> B -> A) (l : list B) : forall a,
  (forall a b, In b l -> f a b = g a b) -> fold_left f l a = fold_left g l a.
Proof.
  induction l as [|b r IH]; intros a H; cbn; auto. rewrite H by (left; auto). apply IH.
  intros a' b' Hb. apply H. right; auto.
Qed.
