(* GenObs.v — observation of a generated attack graph compared with the implementation (C01, C02, C16). *)
From MT Require Import Prelude Lang Eval Graph GraphOps Gen.

Definition obs_gen_node (n : node) : jv :=
  JList [ jopt JInt (n_id n); JStr (n_type n); JStr (n_name n); jopt JStr (n_asset n);
          jopt JInt (n_def n); jopt JBool (n_exist n); jopt JStr (n_mitre n); n_ttc n; jstrs (n_tags n);
          jnats (sort_nats (n_children n)); jnats (sort_nats (n_parents n));   (* with multiplicity: one entry per edge *)
          JBool (n_viable n); JBool (n_necessary n) ].
Definition gerr_code (e : gerr) : Z :=
  match e with GFuel => 1 | GLookup => 2 | GNonUniform => 3 | GNoTarget => 4 | GBadSpec => 5 end.
Definition obs_generate (L : lang) (M : imodel) : jv :=
  match generate L M with
  | GErr e => JList [JStr "error"; JInt (gerr_code e)]
  | GOk s =>
    JList [ JStr "ok";
            JList (map (fun o => obs_gen_node (s_nh s o)) (g_nodes (s_g s)));
            JList (map (fun kv => JList [JInt (fst kv); jnat (snd kv)]) (sort_zkeys (g_id2node (s_g s))));
            JList (map (fun kv => JList [JStr (fst kv); jnat (snd kv)]) (sort_skeys (g_name2node (s_g s))));
            JInt (g_next_node (s_g s)) ]
  end.
(* premise of the property: the model could be generated and no variable was resolved non-uniformly *)
Definition gen_premise (L : lang) (M : imodel) : bool :=
  match generate L M with GErr GNonUniform | GErr GFuel => false | _ => true end.
Definition gen_check (c : lang * imodel * jv) : bool :=
  let '(L, M, o) := c in negb (gen_premise L M) || jv_eqb (obs_generate L M) o.
