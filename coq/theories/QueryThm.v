(* QueryThm.v — query.py follows its definitions; the incremental attack surface equals the recomputed one (C12). *)
From MT Require Import Prelude ListFacts Graph Apriori GraphAn GraphOps GraphInv GraphThm.
From Coq Require Import Arith.

Lemma traversable_iff nh a o :
  traversable nh a o = true <->
  n_viable (nh o) = true /\
  (n_type (nh o) = "or" \/
   (n_type (nh o) = "and" /\ forall p, In p (n_parents (nh o)) -> n_necessary (nh p) = true -> In a (n_comp (nh p)))).
Proof.
  unfold traversable, is_or, is_and. destruct (n_viable (nh o)); cbn; [|split; [discriminate|intros [? _]; discriminate]].
  destruct (seqb (n_type (nh o)) "or") eqn:E1.
  { apply seqb_spec in E1. split; auto. }
  assert (N1 : n_type (nh o) <> "or") by (intros H; apply seqb_spec in H; congruence).
  destruct (seqb (n_type (nh o)) "and") eqn:E2.
  - apply seqb_spec in E2. rewrite forallb_forall. split.
    + intros H. split; auto. right. split; auto. intros p Hp Hn. specialize (H p Hp). rewrite Hn in H. cbn in H.
      apply memn_In; auto.
    + intros [_ [H|[_ H]]]; [congruence|]. intros p Hp. destruct (n_necessary (nh p)) eqn:En; cbn; auto.
      apply memn_In. auto.
  - assert (N2 : n_type (nh o) <> "and") by (intros H; apply seqb_spec in H; congruence).
    split; [discriminate|]. intros [_ [H|[H _]]]; congruence.
Qed.

(* the accumulation loop shared by get_attack_surface and update_attack_surface_add_nodes *)
Lemma surface_inner nh a : forall cs acc n,
  In n (fold_left (fun acc c => if traversable nh a c && negb (memn c acc) then acc ++ [c] else acc) cs acc) <->
  In n acc \/ (In n cs /\ traversable nh a n = true).
Proof.
  induction cs as [|c r IH]; intros acc n; cbn [fold_left].
  - split; auto. intros [H|[[] _]]; auto.
  - rewrite IH. destruct (traversable nh a c) eqn:Tc; cbn [andb].
    + destruct (memn c acc) eqn:M; cbn [negb].
      * apply memn_In in M. split.
        -- intros [H|[H1 H2]]; auto. right. split; auto. right; auto.
        -- intros [H|[[<-|H1] H2]]; auto.
      * rewrite In_app_single. split.
        -- intros [[H| ->]|[H1 H2]]; auto. right; split; auto. left; auto. right; split; auto. right; auto.
        -- intros [H|[[<-|H1] H2]]; auto.
    + split.
      * intros [H|[H1 H2]]; auto. right; split; auto. right; auto.
      * intros [H|[[<-|H1] H2]]; auto. congruence.
Qed.
Lemma surface_inner_NoDup nh a : forall cs acc, NoDup acc ->
  NoDup (fold_left (fun acc c => if traversable nh a c && negb (memn c acc) then acc ++ [c] else acc) cs acc).
Proof.
  induction cs as [|c r IH]; intros acc H; cbn [fold_left]; auto. apply IH.
  destruct (traversable nh a c && negb (memn c acc)) eqn:E; auto.
  apply andb_true_iff in E. destruct E as [_ E]. apply negb_true_iff, memn_nIn in E.
  apply NoDup_app_single; auto.
Qed.

Lemma surface_add_spec nh a : forall from acc n,
  In n (surface_add nh a acc from) <->
  In n acc \/ exists r, In r from /\ In n (n_children (nh r)) /\ traversable nh a n = true.
Proof.
  unfold surface_add. induction from as [|r0 rs IH]; intros acc n; cbn [fold_left].
  - split; auto. intros [H|(r & [] & _)]; auto.
  - rewrite IH, surface_inner. split.
    + intros [[H|[H1 H2]]|(r & Hr & H1 & H2)]; auto.
      * right. exists r0. split; [left|]; auto.
      * right. exists r. split; [right|]; auto.
    + intros [H|(r & [<-|Hr] & H1 & H2)]; auto. right. exists r. auto.
Qed.
Lemma surface_add_NoDup nh a : forall from acc, NoDup acc -> NoDup (surface_add nh a acc from).
Proof.
  unfold surface_add. induction from as [|r0 rs IH]; intros acc H; cbn [fold_left]; auto.
  apply IH. apply surface_inner_NoDup; auto.
Qed.

Theorem attack_surface_spec nh ah a n :
  In n (attack_surface nh ah a) <->
  exists r, In r (a_reached (ah a)) /\ In n (n_children (nh r)) /\ traversable nh a n = true.
Proof. unfold attack_surface. rewrite surface_add_spec. split; [intros [[]|H]; auto | auto]. Qed.
Theorem attack_surface_NoDup nh ah a : NoDup (attack_surface nh ah a).
Proof. apply surface_add_NoDup. constructor. Qed.

(* compromising a list of nodes *)
Definition compromise_all (nh : nheap) (ah : aheap) (a : nat) (ns : list nat) : nheap * aheap :=
  fold_left (fun '(h, ah) o => compromise h ah a o) ns (nh, ah).

Lemma compromise_comp nh ah a o nh' ah' : compromise nh ah a o = (nh', ah') ->
  forall x b, In b (n_comp (nh' x)) <-> In b (n_comp (nh x)) \/ (b = a /\ x = o).
Proof.
  unfold compromise. destruct (memn a (n_comp (nh o))) eqn:M; intros E x b; inversion E; subst.
  - apply memn_In in M. split; auto. intros [H|[-> ->]]; auto.
  - unfold updn. destruct (Nat.eqb_spec x o); subst; cbn.
    + rewrite In_app_single. intuition.
    + intuition.
Qed.

Lemma compromise_all_spec nodes atts a : In a atts -> forall ns nh ah nh' ah',
  compromise_all nh ah a ns = (nh', ah') -> (forall o, In o ns -> In o nodes) ->
  AttI nodes atts (fun x => n_comp (nh x)) (fun b => a_reached (ah b)) (fun b => a_entry (ah b)) ->
  AttI nodes atts (fun x => n_comp (nh' x)) (fun b => a_reached (ah' b)) (fun b => a_entry (ah' b)) /\
  NFrame nh nh' /\ (forall x, Lab (nh' x) = Lab (nh x)) /\
  (forall x b, In b (n_comp (nh' x)) <-> In b (n_comp (nh x)) \/ (b = a /\ In x ns)).
Proof.
  intros Ha. unfold compromise_all. induction ns as [|o r IH]; intros nh ah nh' ah' E Hns T; cbn in E.
  - inversion E; subst. split; [auto|]. split; [apply NFrame_refl|]. split; [auto|].
    intros x b. split; auto. intros [H|[_ []]]; auto.
  - destruct (compromise nh ah a o) as [nh1 ah1] eqn:Ec.
    assert (Ho : In o nodes) by (apply Hns; left; auto).
    destruct (compromise_AttI nodes atts _ _ _ _ _ _ Ec Ha Ho T) as [T1 _].
    destruct (compromise_frames _ _ _ _ _ _ Ec) as [F1 _].
    destruct (IH _ _ _ _ E (fun x Hx => Hns x (or_intror Hx)) T1) as (T2 & F2 & L2 & C2).
    split; [auto|]. split; [eapply NFrame_trans; eauto|]. split.
    + intros x. rewrite L2. eapply compromise_lab; eauto.
    + intros x b. rewrite C2, (compromise_comp _ _ _ _ _ _ Ec). cbn. intuition (subst; auto).
Qed.

Lemma Lab_proj n m : Lab n = Lab m ->
  n_viable n = n_viable m /\ n_necessary n = n_necessary m /\ n_type n = n_type m.
Proof. unfold Lab. intros E. inversion E. auto. Qed.

Lemma traversable_ext nh nh' a o :
  (forall x, Lab (nh' x) = Lab (nh x)) -> n_parents (nh' o) = n_parents (nh o) ->
  (forall p, In a (n_comp (nh p)) -> In a (n_comp (nh' p))) ->
  traversable nh a o = true -> traversable nh' a o = true.
Proof.
  intros L P Cc. rewrite !traversable_iff. destruct (Lab_proj _ _ (L o)) as (V & N & Ty).
  intros [Hv H]. rewrite V, Ty, P. split; auto. destruct H as [H|[H1 H2]]; auto. right. split; auto.
  intros p Hp Hn. apply Cc. apply H2; auto. destruct (Lab_proj _ _ (L p)) as (_ & Np & _). congruence.
Qed.

(* C12: extending a previously computed surface with the newly compromised nodes = recomputing it *)
Theorem update_surface_complete s a ns :
  WF s -> In a (g_atts (s_g s)) -> (forall o, In o ns -> In o (g_nodes (s_g s))) ->
  let cur := attack_surface (s_nh s) (s_ah s) a in
  let '(nh', ah') := compromise_all (s_nh s) (s_ah s) a ns in
  forall n, In n (update_surface nh' a cur ns) <-> In n (attack_surface nh' ah' a).
Proof.
  intros W Ha Hns cur. destruct (compromise_all (s_nh s) (s_ah s) a ns) as [nh' ah'] eqn:E.
  destruct (compromise_all_spec _ _ a Ha _ _ _ _ _ E Hns (wf_att s W)) as (T' & F & L & Cc).
  pose proof (wf_att s W) as T. destruct T as (_ & Tr & _ & Tm & _). destruct T' as (_ & Tr' & _ & Tm' & _).
  destruct (wf_struct s W) as (S1 & S2 & S3). unfold ch_of, pa_of, comp_of, reached_of in *.
  assert (CH : forall x, n_children (nh' x) = n_children (s_nh s x)) by (intros x; apply F).
  assert (PA : forall x, n_parents (nh' x) = n_parents (s_nh s x)) by (intros x; apply F).
  assert (MONO : forall o, traversable (s_nh s) a o = true -> traversable nh' a o = true).
  { intros o. apply traversable_ext; auto. intros p Hp. apply Cc. auto. }
  assert (REACH : forall o, In o (g_nodes (s_g s)) -> (In o (a_reached (ah' a)) <-> In o (a_reached (s_ah s a)) \/ In o ns)).
  { intros o Ho. rewrite <- (Tm' a o Ha Ho), <- (Tm a o Ha Ho), Cc. intuition. }
  intros n. unfold update_surface. rewrite surface_add_spec, attack_surface_spec. unfold cur. rewrite attack_surface_spec.
  split.
  - intros [(r & Hr & Hc & Ht)|(r & Hr & Hc & Ht)].
    + exists r. split; [|split; [rewrite CH; auto | auto]].
      apply REACH; auto. eapply Tr; eauto.
    + exists r. split; [|split; auto]. apply REACH; auto.
  - intros (r & Hr & Hc & Ht).
    assert (Hrn : In r (g_nodes (s_g s))) by (eapply Tr'; eauto).
    apply REACH in Hr; auto. destruct Hr as [Hr|Hr]; [|right; exists r; auto].
    rewrite CH in Hc.
    destruct (traversable (s_nh s) a n) eqn:Told; [left; exists r; auto|].
    (* n became traversable: some necessary parent was compromised just now, and n is a child of it *)
    right. assert (Hn : In n (g_nodes (s_g s))) by (eapply S1; eauto).
    apply traversable_iff in Ht. destruct Ht as [Hv Ht].
    destruct (Lab_proj _ _ (L n)) as (V & N & Ty).
    destruct Ht as [Ht|[Ht1 Ht2]].
    { exfalso. assert (traversable (s_nh s) a n = true); [|congruence].
      apply traversable_iff. rewrite <- V, <- Ty. auto. }
    assert (EX : exists p, In p (n_parents (s_nh s n)) /\ n_necessary (s_nh s p) = true /\ ~ In a (n_comp (s_nh s p))).
    { destruct (existsb (fun p => n_necessary (s_nh s p) && negb (memn a (n_comp (s_nh s p)))) (n_parents (s_nh s n))) eqn:Ex.
      - apply existsb_exists in Ex. destruct Ex as (p & Hp & Hb). apply andb_true_iff in Hb. destruct Hb as [Hb1 Hb2].
        exists p. split; auto. split; auto. apply negb_true_iff, memn_nIn in Hb2. auto.
      - exfalso. assert (traversable (s_nh s) a n = true); [|congruence].
        apply traversable_iff. rewrite <- V, <- Ty. split; auto. right. split; auto.
        intros p Hp Hnec. destruct (in_dec Nat.eq_dec a (n_comp (s_nh s p))) as [i|ni]; auto. exfalso.
        assert (existsb (fun p => n_necessary (s_nh s p) && negb (memn a (n_comp (s_nh s p)))) (n_parents (s_nh s n)) = true); [|congruence].
        apply existsb_exists. exists p. split; auto. rewrite Hnec. cbn. apply negb_true_iff, memn_nIn. auto. }
    destruct EX as (p & Hp & Hnec & Hnc).
    assert (Hpn : In p (g_nodes (s_g s))) by (eapply S2; eauto).
    assert (Hnew : In a (n_comp (nh' p))).
    { apply Ht2. rewrite PA; auto. destruct (Lab_proj _ _ (L p)) as (_ & Np & _). congruence. }
    apply Cc in Hnew. destruct Hnew as [Hnew|[_ Hnew]]; [contradiction|].
    exists p. split; auto. split.
    + rewrite CH. apply In_cnt. rewrite (S3 p n Hpn Hn). apply In_cnt. auto.
    + apply traversable_iff. split; auto.
Qed.

Lemma defense_surface_spec s o :
  In o (defense_surface s) <-> In o (g_nodes (s_g s)) /\ is_available_defense (s_nh s o) = true.
Proof. unfold defense_surface. apply filter_In. Qed.
Lemma enabled_defenses_spec s o :
  In o (enabled_defenses s) <-> In o (g_nodes (s_g s)) /\ is_enabled_defense (s_nh s o) = true.
Proof. unfold enabled_defenses. apply filter_In. Qed.
Lemma defense_kinds n :
  (is_available_defense n = true <-> n_type n = "defense" /\ ~ In "suppress" (n_tags n) /\ n_def n <> Some 1024%Z) /\
  (is_enabled_defense n = true <-> n_type n = "defense" /\ ~ In "suppress" (n_tags n) /\ n_def n = Some 1024%Z).
Proof.
  unfold is_available_defense, is_enabled_defense, suppressed, def_is.
  assert (S : existsb (seqb "suppress") (n_tags n) = true <-> In "suppress" (n_tags n)).
  { rewrite existsb_exists. split; [intros (x & Hx & E); apply seqb_spec in E; subst; auto|].
    intros H. exists "suppress". split; auto; apply seqb_spec; auto. }
  split.
  - rewrite !andb_true_iff, !negb_true_iff, seqb_spec. split.
    + intros [[H1 H2] H3]. split; auto. split.
      * intros H. apply S in H. congruence.
      * intros H. rewrite H in H3. rewrite Z.eqb_refl in H3. discriminate.
    + intros [H1 [H2 H3]]. split; [split; auto|].
      * destruct (existsb (seqb "suppress") (n_tags n)) eqn:E; auto. exfalso. apply H2, S; auto.
      * destruct (n_def n) as [d|]; auto. destruct (Z.eqb_spec d 1024); auto. subst. congruence.
  - rewrite !andb_true_iff, !negb_true_iff, seqb_spec. split.
    + intros [[H1 H2] H3]. split; auto. split.
      * intros H. apply S in H. congruence.
      * destruct (n_def n) as [d|]; [|discriminate]. apply Z.eqb_eq in H3. congruence.
    + intros [H1 [H2 H3]]. split; [split; auto|].
      * destruct (existsb (seqb "suppress") (n_tags n)) eqn:E; auto. exfalso. apply H2, S; auto.
      * rewrite H3. apply Z.eqb_refl.
Qed.

(* queries return the state they were given *)
Lemma queries_pure s o : match o with OQTrav _ _ | OQSurface _ | OQUpdate _ _ _ | OQDefSurface | OQEnabled => fst (fst (step s o)) = s | _ => True end.
Proof. destruct o; auto; unfold step; destruct (guard s _); reflexivity. Qed.
