(* NeoThm.v — theorems about the reading side of get_model (Neo.rows, Neo.import_links), C19.
   rows_spec: the second query returns exactly the pairs of two different relationships a -lf-> b, b -rf-> a.
   import_links_sound: whatever order the database answers in, every link get_model adds comes from such a pair that the
     language knows as an association (class_of), is oriented with the class's first field on the left, and
   import_links_nodup: no (class, left asset, right asset) is added twice. *)
From MT Require Import Prelude ListFacts Codec ModelIO Lang LangGraph Classes Legacy Neo.

Lemma rows_spec rels a lf rf b :
  In (a, lf, rf, b) (rows rels) <->
  exists i j, i < List.length rels /\ j < List.length rels /\ i <> j /\
              nth i rels ("", "", "")%string = (a, lf, b) /\ nth j rels ("", "", "")%string = (b, rf, a).
Proof.
  unfold rows. rewrite in_flat_map. split.
  - intros [i [Hi H]]. apply in_seq in Hi. apply in_flat_map in H. destruct H as [j [Hj H]]. apply in_seq in Hj.
    destruct (nth i rels ("", "", "")%string) as [[x1 f1] y1] eqn:E1.
    destruct (nth j rels ("", "", "")%string) as [[x2 f2] y2] eqn:E2. cbn [fst snd] in H.
    destruct (negb (Nat.eqb i j)) eqn:Hij; cbn [andb] in H; [|destruct H].
    destruct (seqb x2 y1) eqn:Ha; cbn [andb] in H; [|destruct H].
    destruct (seqb y2 x1) eqn:Hb; [|destruct H].
    destruct H as [H|[]]. injection H as <- <- <- <-.
    apply seqb_spec in Ha, Hb. subst x2 y2.
    exists i, j. repeat split; try lia.
    + intros ->. rewrite Nat.eqb_refl in Hij. discriminate.
    + exact E1.
    + exact E2.
  - intros [i [j [Hi [Hj [Hne [E1 E2]]]]]]. exists i. split; [apply in_seq; lia|].
    apply in_flat_map. exists j. split; [apply in_seq; lia|].
    rewrite E1, E2. cbn [fst snd].
    assert (Hij : negb (Nat.eqb i j) = true) by (apply Bool.negb_true_iff, Nat.eqb_neq; exact Hne).
    rewrite Hij. assert (Hs : forall s, seqb s s = true) by (intros s; apply seqb_spec; reflexivity).
    rewrite !Hs. cbn [andb]. left. reflexivity.
Qed.

Section Import.
Variable class_of : string -> string -> string -> string -> option string.
Variable first_field : string -> string.

Notation link := (string * string * string * string * string)%type (only parsing).

(* one step of the fold of import_links *)
Definition istep (nodes : list (string * string * string)) (acc : option (list link)) (row : string * string * string * string)
  : option (list link) :=
  match acc with
  | None => None
  | Some links =>
    let '(a, lf, rf, b) := row in
    match type_of_node nodes a, type_of_node nodes b with
    | Some ta, Some tb =>
      match class_of lf rf ta tb with
      | None => Some links
      | Some cls =>
        let ff := first_field cls in
        let '(fa, fb, f1, f2) := if seqb lf ff then (a, b, lf, rf) else (b, a, rf, lf) in
        if link_exists links cls fa fb then Some links else Some (links ++ [(cls, f1, fa, f2, fb)])
      end
    | _, _ => None
    end
  end.

Lemma import_links_fold nodes rels :
  import_links class_of first_field nodes rels = fold_left (istep nodes) (rows rels) (Some []).
Proof. reflexivity. Qed.

(* where a link comes from: a row the language knows as an association of class cls, the side with the first field left *)
Definition from_row (nodes : list (string * string * string)) (rws : list (string * string * string * string)) (l : link) : Prop :=
  let '(cls, f1, x, f2, y) := l in
  exists a lf rf b ta tb, In (a, lf, rf, b) rws /\ type_of_node nodes a = Some ta /\ type_of_node nodes b = Some tb /\
    class_of lf rf ta tb = Some cls /\
    ((seqb lf (first_field cls) = true /\ x = a /\ y = b /\ f1 = lf /\ f2 = rf) \/
     (seqb lf (first_field cls) = false /\ x = b /\ y = a /\ f1 = rf /\ f2 = lf)).

Definition key3 (l : link) : string * string * string := let '(cls, _, x, _, y) := l in (cls, x, y).

Lemma link_exists_false links cls x y :
  link_exists links cls x y = false -> ~ In (cls, x, y) (map key3 links).
Proof.
  unfold link_exists. intros H Hin. apply in_map_iff in Hin. destruct Hin as [[[[[c f1] x'] f2] y'] [Hk Hin]].
  cbn [key3] in Hk. injection Hk as -> -> ->.
  assert (Ht : existsb (fun p : link => let '(c, _, x0, _, y0) := p in seqb c cls && seqb x0 x && seqb y0 y) links = true).
  { apply existsb_exists. exists (cls, f1, x, f2, y). split; [exact Hin|].
    assert (Hs : forall s, seqb s s = true) by (intros s; apply seqb_spec; reflexivity). rewrite !Hs. reflexivity. }
  rewrite Ht in H. discriminate.
Qed.

Lemma istep_inv nodes seen row links links' :
  (forall l, In l links -> from_row nodes seen l) -> NoDup (map key3 links) ->
  istep nodes (Some links) row = Some links' ->
  (forall l, In l links' -> from_row nodes (seen ++ [row]) l) /\ NoDup (map key3 links').
Proof.
  intros Hfrom Hnd Hstep.
  assert (Hmono : forall l, from_row nodes seen l -> from_row nodes (seen ++ [row]) l).
  { intros [[[[cls f1] x] f2] y] [a [lf [rf [b [ta [tb [Hin Hrest]]]]]]].
    exists a, lf, rf, b, ta, tb. split; [apply in_or_app; left; exact Hin | exact Hrest]. }
  unfold istep in Hstep. destruct row as [[[a lf] rf] b].
  destruct (type_of_node nodes a) as [ta|] eqn:Eta; [|discriminate].
  destruct (type_of_node nodes b) as [tb|] eqn:Etb; [|discriminate].
  destruct (class_of lf rf ta tb) as [cls|] eqn:Ecls.
  2:{ injection Hstep as <-. split; [intros l Hl; apply Hmono, Hfrom, Hl | exact Hnd]. }
  destruct (seqb lf (first_field cls)) eqn:Eff.
  - destruct (link_exists links cls a b) eqn:Ele.
    + injection Hstep as <-. split; [intros l Hl; apply Hmono, Hfrom, Hl | exact Hnd].
    + injection Hstep as <-. split.
      * intros l Hl. apply in_app_or in Hl. destruct Hl as [Hl|[<-|[]]]; [apply Hmono, Hfrom, Hl|].
        exists a, lf, rf, b, ta, tb. split; [apply in_or_app; right; left; reflexivity|].
        repeat split; try assumption. left. repeat split; assumption.
      * rewrite map_app. cbn [map key3]. apply NoDup_app_single; [exact Hnd | apply link_exists_false; exact Ele].
  - destruct (link_exists links cls b a) eqn:Ele.
    + injection Hstep as <-. split; [intros l Hl; apply Hmono, Hfrom, Hl | exact Hnd].
    + injection Hstep as <-. split.
      * intros l Hl. apply in_app_or in Hl. destruct Hl as [Hl|[<-|[]]]; [apply Hmono, Hfrom, Hl|].
        exists a, lf, rf, b, ta, tb. split; [apply in_or_app; right; left; reflexivity|].
        repeat split; try assumption. right. repeat split; assumption.
      * rewrite map_app. cbn [map key3]. apply NoDup_app_single; [exact Hnd | apply link_exists_false; exact Ele].
Qed.

Lemma istep_none nodes rws : fold_left (istep nodes) rws None = None.
Proof. induction rws as [|r rws IH]; [reflexivity | exact IH]. Qed.

Lemma fold_inv nodes : forall rws seen links links',
  (forall l, In l links -> from_row nodes seen l) -> NoDup (map key3 links) ->
  fold_left (istep nodes) rws (Some links) = Some links' ->
  (forall l, In l links' -> from_row nodes (seen ++ rws) l) /\ NoDup (map key3 links').
Proof.
  induction rws as [|row rws IH]; intros seen links links' Hfrom Hnd Hfold.
  - cbn [fold_left] in Hfold. injection Hfold as <-. rewrite app_nil_r. split; assumption.
  - cbn [fold_left] in Hfold. destruct (istep nodes (Some links) row) as [links1|] eqn:E1.
    2:{ rewrite istep_none in Hfold. discriminate. }
    destruct (istep_inv nodes seen row links links1 Hfrom Hnd E1) as [Hfrom1 Hnd1].
    specialize (IH (seen ++ [row]) links1 links' Hfrom1 Hnd1 Hfold).
    rewrite <- app_assoc in IH. exact IH.
Qed.

(* every link get_model adds is one the query results justify, and none is added twice *)
Theorem import_links_sound nodes rels links :
  import_links class_of first_field nodes rels = Some links ->
  (forall cls f1 x f2 y, In (cls, f1, x, f2, y) links ->
     exists i j a lf rf b ta tb, i <> j /\ i < List.length rels /\ j < List.length rels /\
       nth i rels ("", "", "")%string = (a, lf, b) /\ nth j rels ("", "", "")%string = (b, rf, a) /\
       type_of_node nodes a = Some ta /\ type_of_node nodes b = Some tb /\ class_of lf rf ta tb = Some cls /\
       ((seqb lf (first_field cls) = true /\ x = a /\ y = b /\ f1 = lf /\ f2 = rf) \/
        (seqb lf (first_field cls) = false /\ x = b /\ y = a /\ f1 = rf /\ f2 = lf))) /\
  NoDup (map key3 links).
Proof.
  intros H. rewrite import_links_fold in H.
  destruct (fold_inv nodes (rows rels) [] [] links) as [Hfrom Hnd]; [intros l [] | constructor | exact H |].
  split; [|exact Hnd]. intros cls f1 x f2 y Hin. specialize (Hfrom _ Hin). cbn [app] in Hfrom.
  destruct Hfrom as [a [lf [rf [b [ta [tb [Hrow [Hta [Htb [Hc Hor]]]]]]]]]].
  apply rows_spec in Hrow. destruct Hrow as [i [j [Hi [Hj [Hne [E1 E2]]]]]].
  exists i, j, a, lf, rf, b, ta, tb. repeat split; assumption.
Qed.

(* completeness of the reading with respect to the rows: every row the language knows as an association is represented *)
Definition oriented (cls a lf b : string) : string * string * string :=
  if seqb lf (first_field cls) then (cls, a, b) else (cls, b, a).

Lemma link_exists_true links cls x y :
  link_exists links cls x y = true -> In (cls, x, y) (map key3 links).
Proof.
  unfold link_exists. intros H. apply existsb_exists in H. destruct H as [[[[[c f1] x'] f2] y'] [Hin H]].
  apply Bool.andb_true_iff in H. destruct H as [H Hy]. apply Bool.andb_true_iff in H. destruct H as [Hc Hx].
  apply seqb_spec in Hc, Hx, Hy. subst. apply in_map_iff. exists (cls, f1, x, f2, y). split; [reflexivity | exact Hin].
Qed.

Lemma istep_grows nodes row links links' :
  istep nodes (Some links) row = Some links' -> incl links links'.
Proof.
  unfold istep. destruct row as [[[a lf] rf] b].
  destruct (type_of_node nodes a) as [ta|]; [|discriminate]. destruct (type_of_node nodes b) as [tb|]; [|discriminate].
  destruct (class_of lf rf ta tb) as [cls|]; [|intros H; injection H as <-; apply incl_refl].
  destruct (seqb lf (first_field cls)).
  - destruct (link_exists links cls a b); intros H; injection H as <-; [apply incl_refl | apply incl_appl, incl_refl].
  - destruct (link_exists links cls b a); intros H; injection H as <-; [apply incl_refl | apply incl_appl, incl_refl].
Qed.

Lemma istep_adds nodes a lf rf b ta tb cls links links' :
  istep nodes (Some links) (a, lf, rf, b) = Some links' ->
  type_of_node nodes a = Some ta -> type_of_node nodes b = Some tb -> class_of lf rf ta tb = Some cls ->
  In (oriented cls a lf b) (map key3 links').
Proof.
  unfold istep, oriented. intros H Ha Hb Hc. rewrite Ha, Hb, Hc in H.
  destruct (seqb lf (first_field cls)).
  - destruct (link_exists links cls a b) eqn:E; injection H as <-.
    + apply link_exists_true. exact E.
    + rewrite map_app. apply in_or_app. right. left. reflexivity.
  - destruct (link_exists links cls b a) eqn:E; injection H as <-.
    + apply link_exists_true. exact E.
    + rewrite map_app. apply in_or_app. right. left. reflexivity.
Qed.

Lemma fold_complete nodes : forall rws links links',
  fold_left (istep nodes) rws (Some links) = Some links' ->
  incl links links' /\
  (forall a lf rf b ta tb cls, In (a, lf, rf, b) rws ->
     type_of_node nodes a = Some ta -> type_of_node nodes b = Some tb -> class_of lf rf ta tb = Some cls ->
     In (oriented cls a lf b) (map key3 links')).
Proof.
  induction rws as [|row rws IH]; intros links links' Hfold.
  - cbn [fold_left] in Hfold. injection Hfold as <-. split; [apply incl_refl | intros ? ? ? ? ? ? ? []].
  - cbn [fold_left] in Hfold. destruct (istep nodes (Some links) row) as [links1|] eqn:E1.
    2:{ rewrite istep_none in Hfold. discriminate. }
    destruct (IH links1 links' Hfold) as [Hinc Hall]. split.
    + eapply incl_tran; [eapply istep_grows; exact E1 | exact Hinc].
    + intros a lf rf b ta tb cls [Heq|Hin] Ha Hb Hc.
      * subst row. apply (incl_map key3 Hinc). eapply istep_adds; eassumption.
      * eapply Hall; eassumption.
Qed.

(* every pair of two different relationships a -lf-> b, b -rf-> a that the language knows as an association of class cls
   is represented among the links, with the side of the class's first field on the left *)
Theorem import_links_complete nodes rels links :
  import_links class_of first_field nodes rels = Some links ->
  forall i j a lf rf b ta tb cls, i <> j -> i < List.length rels -> j < List.length rels ->
    nth i rels ("", "", "")%string = (a, lf, b) -> nth j rels ("", "", "")%string = (b, rf, a) ->
    type_of_node nodes a = Some ta -> type_of_node nodes b = Some tb -> class_of lf rf ta tb = Some cls ->
    In (oriented cls a lf b) (map key3 links).
Proof.
  intros H i j a lf rf b ta tb cls Hne Hi Hj E1 E2 Ha Hb Hc. rewrite import_links_fold in H.
  destruct (fold_complete nodes (rows rels) [] links H) as [_ Hall].
  eapply Hall; try eassumption. apply rows_spec. exists i, j. repeat split; assumption.
Qed.

(* the reading fails (get_model raises) only when a row names a node the first query did not return *)
Theorem import_links_total nodes rels :
  (forall a lf rf b, In (a, lf, rf, b) (rows rels) -> type_of_node nodes a <> None /\ type_of_node nodes b <> None) ->
  import_links class_of first_field nodes rels <> None.
Proof.
  rewrite import_links_fold. generalize (@nil link) as links. induction (rows rels) as [|row rws IH]; intros links Hall.
  - discriminate.
  - cbn [fold_left]. destruct row as [[[a lf] rf] b].
    destruct (Hall a lf rf b (or_introl eq_refl)) as [Ha Hb].
    assert (Hstep : exists l1, istep nodes (Some links) (a, lf, rf, b) = Some l1).
    { unfold istep. destruct (type_of_node nodes a) as [ta|]; [|contradiction]. destruct (type_of_node nodes b) as [tb|]; [|contradiction].
      destruct (class_of lf rf ta tb) as [cls|]; [|eexists; reflexivity].
      destruct (seqb lf (first_field cls)); [destruct (link_exists links cls a b) | destruct (link_exists links cls b a)]; eexists; reflexivity. }
    destruct Hstep as [l1 ->]. apply IH. intros a' lf' rf' b' Hin. apply (Hall a' lf' rf' b'). right. exact Hin.
Qed.

(* both directions together: the (class, left, right) triples of the links are exactly the oriented known pairs *)
Theorem import_links_exact nodes rels links :
  import_links class_of first_field nodes rels = Some links ->
  forall k, In k (map key3 links) <->
    exists i j a lf rf b ta tb cls, i <> j /\ i < List.length rels /\ j < List.length rels /\
      nth i rels ("", "", "")%string = (a, lf, b) /\ nth j rels ("", "", "")%string = (b, rf, a) /\
      type_of_node nodes a = Some ta /\ type_of_node nodes b = Some tb /\ class_of lf rf ta tb = Some cls /\
      k = oriented cls a lf b.
Proof.
  intros H k. split.
  - intros Hin. apply in_map_iff in Hin. destruct Hin as [[[[[cls f1] x] f2] y] [Hk Hin]]. cbn [key3] in Hk. subst k.
    destruct (import_links_sound nodes rels links H) as [Hs _].
    destruct (Hs cls f1 x f2 y Hin) as (i & j & a & lf & rf & b & ta & tb & Hne & Hi & Hj & E1 & E2 & Ha & Hb & Hc & Hor).
    exists i, j, a, lf, rf, b, ta, tb, cls. repeat split; try assumption.
    unfold oriented. destruct Hor as [(Hff & -> & -> & _) | (Hff & -> & -> & _)]; rewrite Hff; reflexivity.
  - intros (i & j & a & lf & rf & b & ta & tb & cls & Hne & Hi & Hj & E1 & E2 & Ha & Hb & Hc & ->).
    eapply import_links_complete; eassumption.
Qed.
End Import.
