(* GraphLoadThm.v — the rebuild of AttackGraph._from_dict (GraphLoad.gload) reproduces every loadable content:
   the graph it builds is coherent (WF, being a history of the machine) and denotes the nodes with their attributes and
   child lists, the parents up to order, and the attackers with their entry points and reached steps. (C10) *)
From MT Require Import Prelude ListFacts Graph Apriori GraphAn GraphOps GraphInv Codec ModelIO GraphIO GraphLoad.
From Coq Require Import Arith Permutation.

(* ---- histories whose every call succeeds ---- *)
Fixpoint exec (s : st) (ops : list op) : option st :=
  match ops with
  | [] => Some s
  | o :: r => match step s o with (s', Ok, _) => exec s' r | _ => None end
  end.
Lemma exec_app : forall a b s, exec s (a ++ b) = match exec s a with Some s' => exec s' b | None => None end.
Proof.
  induction a as [|o a IH]; intros b s; cbn [exec app]; auto.
  destruct (step s o) as [[s' oc] rt]. destruct oc; auto.
Qed.
Lemma exec_steps : forall ops s s', exec s ops = Some s' -> s' = steps s ops.
Proof.
  induction ops as [|o r IH]; intros s s' H; cbn [exec] in H; [inversion H; reflexivity|].
  destruct (step s o) as [[s1 oc] rt] eqn:E. destruct oc; try discriminate.
  rewrite (IH _ _ H). unfold steps. cbn [fold_left]. rewrite E. reflexivity.
Qed.
Lemma exec_WF ops s s' : WF s -> exec s ops = Some s' -> WF s'.
Proof. intros W H. rewrite (exec_steps _ _ _ H). apply steps_WF; auto. Qed.

(* run reports only successes exactly when exec succeeds, with the same final state *)
Lemma run_exec_gen : forall ops s outs,
  forallb (fun p => outcome_eqb (fst p) Ok) outs = true ->
  let r := fold_left (fun '(s, outs) o => let '(s', oc, rt) := step s o in (s', outs ++ [(oc, rt)])) ops (s, outs) in
  match exec s ops with
  | Some s' => fst r = s' /\ all_ok (snd r) = true
  | None => all_ok (snd r) = false
  end.
Proof.
  induction ops as [|o ops IH]; intros s outs Hok; cbn [fold_left exec]; [split; auto|].
  destruct (step s o) as [[s1 oc] rt] eqn:E.
  destruct (outcome_eqb oc Ok) eqn:Eoc.
  - assert (oc = Ok) by (destruct oc; try discriminate; auto). subst oc.
    apply IH. unfold all_ok. rewrite forallb_app. cbn. rewrite Hok. reflexivity.
  - assert (exec_none : match oc with Ok => exec s1 ops | _ => None end = None) by (destruct oc; try discriminate; auto).
    rewrite exec_none.
    (* once a failure is recorded it stays *)
    assert (G : forall l s0 (o0 : list (outcome * ret)), all_ok o0 = false ->
              all_ok (snd (fold_left (fun '(s, outs) o => let '(s', oc, rt) := step s o in (s', outs ++ [(oc, rt)])) l (s0, o0))) = false).
    { induction l as [|x l IHl]; intros s0 o0 H0; cbn [fold_left snd]; auto.
      destruct (step s0 x) as [[s2 oc2] rt2]. apply IHl. unfold all_ok in *. rewrite forallb_app, H0. reflexivity. }
    apply G. unfold all_ok. rewrite forallb_app. cbn. rewrite Eoc. rewrite andb_false_r. reflexivity.
Qed.
Lemma gload_exec wm c : gload wm c = match gload_ops wm c with Some ops => exec init ops | None => None end.
Proof.
  unfold gload. destruct (gload_ops wm c) as [ops|]; auto.
  pose proof (run_exec_gen ops init [] eq_refl) as H. cbv zeta in H. unfold run.
  destruct (fold_left _ ops (init, [])) as [s outs]. cbn [fst snd] in H.
  destruct (exec init ops) as [s'|].
  - destruct H as [-> ->]. reflexivity.
  - rewrite H. reflexivity.
Qed.

(* ---- a batch of links between nodes of the graph ---- *)
Definition link_all (s : st) (ls : list (nat * nat)) : st := fold_left (fun s pc => link s (fst pc) (snd pc)) ls s.
Lemma link_graph s p c : s_g (link s p c) = s_g s /\ s_ah (link s p c) = s_ah s /\ s_nn (link s p c) = s_nn s /\ s_na (link s p c) = s_na s.
Proof. repeat split. Qed.
Lemma exec_links : forall ls s, (forall pc, In pc ls -> In (fst pc) (g_nodes (s_g s)) /\ In (snd pc) (g_nodes (s_g s))) ->
  exec s (map (fun pc => OLink (fst pc) (snd pc)) ls) = Some (link_all s ls).
Proof.
  induction ls as [|[p c] ls IH]; intros s H; cbn [map exec link_all fold_left]; auto.
  destruct (H (p, c) (or_introl eq_refl)) as [Hp Hc]. cbn [fst snd] in *.
  unfold step. cbn [guard]. unfold in_graph. rewrite (proj2 (memn_In _ _) Hp), (proj2 (memn_In _ _) Hc). cbn [andb negb].
  apply IH. intros pc Hpc. destruct (link_graph s p c) as (-> & _). apply H. right; auto.
Qed.
Definition same_but_links (n m : node) : Prop :=
  n_type m = n_type n /\ n_name m = n_name n /\ n_id m = n_id n /\ n_asset m = n_asset n /\ n_comp m = n_comp n /\
  n_def m = n_def n /\ n_exist m = n_exist n /\ n_viable m = n_viable n /\ n_necessary m = n_necessary n /\
  n_mitre m = n_mitre n /\ n_ttc m = n_ttc n /\ n_tags m = n_tags n /\ n_extras m = n_extras n.
Lemma link_children s p c x : n_children (s_nh (link s p c) x) = n_children (s_nh s x) ++ (if Nat.eqb p x then [c] else []).
Proof.
  unfold link. cbn [s_nh]. unfold updn. rewrite (Nat.eqb_sym p x).
  destruct (Nat.eqb x c), (Nat.eqb x p); cbn; rewrite ?app_nil_r; reflexivity.
Qed.
Lemma link_parents s p c x : n_parents (s_nh (link s p c) x) = n_parents (s_nh s x) ++ (if Nat.eqb c x then [p] else []).
Proof.
  unfold link. cbn [s_nh]. unfold updn. rewrite (Nat.eqb_sym c x).
  destruct (Nat.eqb x c), (Nat.eqb x p); cbn; rewrite ?app_nil_r; reflexivity.
Qed.
Lemma link_same s p c x : same_but_links (s_nh s x) (s_nh (link s p c) x).
Proof. unfold link. cbn [s_nh]. unfold updn. destruct (Nat.eqb x c), (Nat.eqb x p); repeat split. Qed.
Lemma same_but_links_trans a b c : same_but_links a b -> same_but_links b c -> same_but_links a c.
Proof.
  intros (A1&A2&A3&A4&A5&A6&A7&A8&A9&A10&A11&A12&A13) (B1&B2&B3&B4&B5&B6&B7&B8&B9&B10&B11&B12&B13).
  repeat split; congruence.
Qed.
Lemma link_all_spec : forall ls s,
  let s' := link_all s ls in
  s_g s' = s_g s /\ s_ah s' = s_ah s /\ s_nn s' = s_nn s /\ s_na s' = s_na s /\
  forall x, n_children (s_nh s' x) = n_children (s_nh s x) ++ map snd (filter (fun pc => Nat.eqb (fst pc) x) ls) /\
            n_parents (s_nh s' x) = n_parents (s_nh s x) ++ map fst (filter (fun pc => Nat.eqb (snd pc) x) ls) /\
            same_but_links (s_nh s x) (s_nh s' x).
Proof.
  induction ls as [|[p c] ls IH]; intros s; cbv zeta.
  - cbn [link_all fold_left]. split; [reflexivity|]. split; [reflexivity|]. split; [reflexivity|]. split; [reflexivity|].
    intros x. cbn. rewrite !app_nil_r. repeat split.
  - change (link_all s ((p, c) :: ls)) with (link_all (link s p c) ls).
    cbv zeta in IH. destruct (IH (link s p c)) as (E1 & E2 & E3 & E4 & E5).
    rewrite E1, E2, E3, E4. split; [reflexivity|]. split; [reflexivity|]. split; [reflexivity|]. split; [reflexivity|].
    intros x. destruct (E5 x) as (C & P & S). cbn [filter fst snd]. split; [|split].
    + rewrite C, link_children. rewrite <- app_assoc. destruct (Nat.eqb p x); reflexivity.
    + rewrite P, link_parents. rewrite <- app_assoc. destruct (Nat.eqb c x); reflexivity.
    + eapply same_but_links_trans; [apply link_same|exact S].
Qed.

(* ---- phase 1: the nodes ---- *)
Section Thm.
Variable wm : bool.
Notation node_of := (node_of wm).

Definition gfull (n : gnode) : string := full_name (set_id (node_of n) (Some (gn_id n))).

Record P1 (pre : list gnode) (s : st) : Prop := mkP1 {
  p1_nn : s_nn s = List.length pre;
  p1_na : s_na s = 0;
  p1_nodes : g_nodes (s_g s) = seq 0 (List.length pre);
  p1_atts : g_atts (s_g s) = [];
  p1_heap : forall j n, nth_error pre j = Some n -> s_nh s j = set_id (node_of n) (Some (gn_id n));
  p1_idx : forall i, dget Z.eqb (g_id2node (s_g s)) i = pos_of i pre;
  p1_names : forall fn, dhas seqb (g_name2node (s_g s)) fn = existsb (fun n => seqb (gfull n) fn) pre;
  p1_id2att : g_id2att (s_g s) = [] }.

Lemma P1_init : P1 [] init.
Proof. constructor; cbn; auto. intros j n H. destruct j; discriminate. Qed.

Lemma pos_of_app i pre n : pos_of i (pre ++ [n]) =
  match pos_of i pre with Some p => Some p | None => if Z.eqb (gn_id n) i then Some (List.length pre) else None end.
Proof.
  induction pre as [|m r IH]; cbn [pos_of app List.length]; [destruct (Z.eqb (gn_id n) i); reflexivity|].
  destruct (Z.eqb (gn_id m) i); auto. rewrite IH. destruct (pos_of i r); cbn; auto. destruct (Z.eqb (gn_id n) i); reflexivity.
Qed.
Lemma dhas_dset_s (d : list (string * nat)) k v x : dhas seqb (dset seqb d k v) x = seqb x k || dhas seqb d x.
Proof.
  unfold dhas. destruct (seqb x k) eqn:E.
  - apply seqb_spec in E. subst. rewrite (dget_dset_same seqb seqb_spec). reflexivity.
  - rewrite (dget_dset_other seqb seqb_spec); auto. intros ->. rewrite (keqb_refl seqb seqb_spec) in E. discriminate.
Qed.
Lemma dget_dset_z (d : list (Z * nat)) k v x : dget Z.eqb (dset Z.eqb d k v) x = if Z.eqb x k then Some v else dget Z.eqb d x.
Proof.
  destruct (Z.eqb x k) eqn:E.
  - apply Z.eqb_eq in E. subst. apply (dget_dset_same Z.eqb Zeqb_spec).
  - apply (dget_dset_other Z.eqb Zeqb_spec). intros ->. rewrite Z.eqb_refl in E. discriminate.
Qed.
Lemma full_name_set_id_asset (m : node) i : n_asset m <> None -> full_name (set_id m i) = full_name m.
Proof. unfold full_name. cbn. destruct (n_asset m); [reflexivity|congruence]. Qed.

Lemma P1_step pre s n : P1 pre s -> pos_of (gn_id n) pre = None -> existsb (fun m => seqb (gfull m) (gfull n)) pre = false ->
  exists s', exec s [ONew (node_of n); OAddNode (List.length pre) (Some (gn_id n))] = Some s' /\ P1 (pre ++ [n]) s'.
Proof.
  intros P Hid Hnm. set (k := List.length pre).
  cbn [exec]. unfold step at 1. cbn [guard node_of GraphLoad.node_of n_id n_children n_parents n_comp negb].
  set (s1 := new_node s (node_of n)).
  assert (E1 : s_nh s1 k = node_of n) by (unfold s1, new_node; cbn [s_nh]; rewrite (p1_nn _ _ P); apply updn_same).
  assert (O1 : forall j, j <> k -> s_nh s1 j = s_nh s j) by (intros j Hj; unfold s1, new_node; cbn [s_nh]; rewrite (p1_nn _ _ P); apply updn_other; auto).
  assert (G1 : s_g s1 = s_g s) by reflexivity.
  assert (N1 : s_nn s1 = S k) by (unfold s1, new_node; cbn [s_nn]; rewrite (p1_nn _ _ P); reflexivity).
  assert (NG : memn k (g_nodes (s_g s)) = false).
  { apply memn_nIn. rewrite (p1_nodes _ _ P). intros A0. apply in_seq in A0. unfold k in A0. lia. }
  assert (FN : full_name (set_id (s_nh s1 k) (Some (gn_id n))) = gfull n) by (rewrite E1; reflexivity).
  assert (GD : guard s1 (OAddNode k (Some (gn_id n))) = true).
  { cbn [guard]. rewrite N1. replace (Nat.ltb k (S k)) with true by (symmetry; apply Nat.ltb_lt; lia). cbn [andb].
    unfold in_graph. rewrite G1, NG. cbn [orb]. rewrite E1. cbn [n_children n_parents n_comp GraphLoad.node_of andb].
    assert (HN : dhas seqb (g_name2node (s_g s)) (gfull n) = false) by (rewrite (p1_names _ _ P); exact Hnm).
    assert (FNA : n_asset (node_of n) <> None -> full_name (node_of n) = gfull n).
    { intros H. unfold gfull. symmetry. apply full_name_set_id_asset. exact H. }
    destruct (n_asset (node_of n)) eqn:Ea.
    - rewrite FNA by discriminate. rewrite HN. reflexivity.
    - fold (gfull n). rewrite HN. reflexivity. }
  unfold step. rewrite GD. cbn [negb].
  assert (EA : add_node s1 k (Some (gn_id n)) =
     (mkSt (updn (s_nh s1) k (fun m => set_id m (Some (gn_id n)))) (s_ah s) (S k) (s_na s)
           (mkGraph (g_nodes (s_g s) ++ [k]) (g_atts (s_g s)) (dset Z.eqb (g_id2node (s_g s)) (gn_id n) k)
                    (dset seqb (g_name2node (s_g s)) (gfull n) k) (g_id2att (s_g s))
                    (Z.max (gn_id n + 1) (g_next_node (s_g s))) (g_next_att (s_g s))), Ok)).
  { unfold add_node. rewrite G1, E1. cbn [n_id GraphLoad.node_of orb]. unfold dhas. rewrite (p1_idx _ _ P), Hid.
    rewrite updn_same, E1. fold (node_of n). fold (gfull n). rewrite N1. reflexivity. }
  rewrite EA. eexists. split; [reflexivity|].
  constructor; cbn [s_nn s_na s_g s_nh g_nodes g_atts g_id2node g_name2node g_id2att].
  - rewrite app_length. cbn. fold k. lia.
  - apply (p1_na _ _ P).
  - rewrite (p1_nodes _ _ P), app_length. cbn. fold k. rewrite Nat.add_1_r, seq_S. reflexivity.
  - apply (p1_atts _ _ P).
  - intros j m Hj. destruct (Nat.eq_dec j k) as [->|Nj].
    + rewrite updn_same, E1. unfold k in Hj. rewrite nth_error_app2 in Hj by lia. rewrite Nat.sub_diag in Hj. cbn in Hj. inversion Hj; subst. reflexivity.
    + rewrite updn_other by auto. rewrite O1 by auto. apply (p1_heap _ _ P).
      assert (j < List.length (pre ++ [n])) by (apply nth_error_Some; congruence). rewrite app_length in H. cbn in H.
      rewrite nth_error_app1 in Hj by (fold k; lia). exact Hj.
  - intros i. rewrite dget_dset_z, pos_of_app, (p1_idx _ _ P). fold k.
    destruct (pos_of i pre) eqn:Ep.
    + destruct (Z.eqb i (gn_id n)) eqn:E; auto. apply Z.eqb_eq in E. subst. congruence.
    + rewrite (Z.eqb_sym (gn_id n) i). reflexivity.
  - intros fn. rewrite dhas_dset_s, (p1_names _ _ P), existsb_app. cbn. rewrite orb_false_r. rewrite orb_comm. f_equal.
    unfold seqb. apply String.eqb_sym.
  - apply (p1_id2att _ _ P).
Qed.

Lemma P1_all : forall l pre s, P1 pre s ->
  (forall n, In n l -> pos_of (gn_id n) pre = None /\ existsb (fun m => seqb (gfull m) (gfull n)) pre = false) ->
  NoDup (map gn_id l) -> NoDup (map gfull l) ->
  exists s', exec s (node_ops wm (List.length pre) l) = Some s' /\ P1 (pre ++ l) s'.
Proof.
  induction l as [|n r IH]; intros pre s P F Ni Nn; cbn [node_ops].
  - exists s. rewrite app_nil_r. auto.
  - destruct (F n (or_introl eq_refl)) as [F1 F2]. destruct (P1_step pre s n P F1 F2) as (s1 & E1 & P').
    cbn [map] in Ni, Nn. inversion Ni as [|? ? Ni1 Ni2]; subst. inversion Nn as [|? ? Nn1 Nn2]; subst.
    destruct (IH (pre ++ [n]) s1 P') as (s2 & E2 & P2); auto.
    + intros m Hm. destruct (F m (or_intror Hm)) as [G1 G2]. split.
      * rewrite pos_of_app, G1. destruct (Z.eqb (gn_id n) (gn_id m)) eqn:E; auto. apply Z.eqb_eq in E. exfalso. apply Ni1. rewrite E. apply in_map; auto.
      * rewrite existsb_app, G2. cbn. rewrite orb_false_r. destruct (seqb (gfull n) (gfull m)) eqn:E; auto. apply seqb_spec in E.
        exfalso. apply Nn1. rewrite E. apply in_map; auto.
    + exists s2. split; [|rewrite <- app_assoc in P2; exact P2].
      change (ONew (node_of n) :: OAddNode (List.length pre) (Some (gn_id n)) :: node_ops wm (S (List.length pre)) r)
        with ([ONew (node_of n); OAddNode (List.length pre) (Some (gn_id n))] ++ node_ops wm (S (List.length pre)) r).
      rewrite exec_app, E1. rewrite app_length in E2. cbn in E2. rewrite Nat.add_1_r in E2. exact E2.
Qed.

(* ---- phase 2: the child links ---- *)
Section Links.
Variable all : list gnode.
Definition posd (i : Z) : nat := match pos_of i all with Some p => p | None => 0 end.
Fixpoint blocks (k : nat) (l : list gnode) : list (nat * nat) :=
  match l with
  | [] => []
  | n :: r => map (fun i => (k, posd i)) (gn_children n) ++ blocks (S k) r
  end.
Lemma omap_posd : forall ids, (forall i, In i ids -> pos_of i all <> None) -> omap (fun i => pos_of i all) ids = Some (map posd ids).
Proof.
  induction ids as [|i r IH]; intros H; cbn [omap map]; auto. rewrite IH by (intros j Hj; apply H; right; auto).
  destruct (pos_of i all) as [p|] eqn:E; [|exfalso; apply (H i); [left; auto|exact E]].
  f_equal. f_equal. unfold posd. rewrite E. reflexivity.
Qed.
Lemma link_ops_blocks : forall l k, (forall n i, In n l -> In i (gn_children n) -> pos_of i all <> None) ->
  link_ops all k l = Some (map (fun pc => OLink (fst pc) (snd pc)) (blocks k l)).
Proof.
  induction l as [|n r IH]; intros k H; cbn [link_ops blocks map]; auto.
  unfold link_ops_of. rewrite omap_posd by (intros i Hi; apply (H n i); [left; auto|auto]). cbn [option_map].
  rewrite IH by (intros m i Hm Hi; apply (H m i); [right; auto|auto]).
  rewrite map_app, !map_map. cbn [fst snd]. reflexivity.
Qed.
Lemma blocks_fst_ge : forall l k pc, In pc (blocks k l) -> k <= fst pc.
Proof.
  induction l as [|n r IH]; intros k pc H; cbn [blocks] in H; [destruct H|].
  apply in_app_or in H. destruct H as [H|H].
  - apply in_map_iff in H. destruct H as (i & <- & _). cbn. lia.
  - apply IH in H. lia.
Qed.
Lemma filter_none {A} (f : A -> bool) l : (forall x, In x l -> f x = false) -> filter f l = [].
Proof. induction l as [|a r IH]; cbn; auto. intros H. rewrite (H a) by auto. apply IH. intros x Hx. apply H. auto. Qed.
Lemma blocks_filter_fst : forall l k x,
  filter (fun pc => Nat.eqb (fst pc) x) (blocks k l) =
  match nth_error l (x - k) with
  | Some n => if Nat.leb k x then map (fun i => (x, posd i)) (gn_children n) else []
  | None => []
  end.
Proof.
  induction l as [|n r IH]; intros k x; cbn [blocks].
  - destruct (x - k); reflexivity.
  - rewrite filter_app. rewrite IH.
    destruct (Nat.eq_dec x k) as [->|N].
    + rewrite Nat.sub_diag. cbn [nth_error]. rewrite Nat.leb_refl.
      rewrite filter_all_true by (intros pc Hpc; apply in_map_iff in Hpc; destruct Hpc as (i & <- & _); cbn; apply Nat.eqb_refl).
      replace (k - S k) with 0 by lia. destruct (nth_error r 0); [|rewrite app_nil_r; reflexivity].
      replace (Nat.leb (S k) k) with false by (symmetry; apply Nat.leb_gt; lia). rewrite app_nil_r. reflexivity.
    + rewrite filter_none by (intros pc Hpc; apply in_map_iff in Hpc; destruct Hpc as (i & <- & _); cbn; apply Nat.eqb_neq; auto).
      cbn [app]. destruct (Nat.leb k x) eqn:Ek.
      * apply Nat.leb_le in Ek. assert (x - k = S (x - S k)) as -> by lia. cbn [nth_error].
        replace (Nat.leb (S k) x) with true by (symmetry; apply Nat.leb_le; lia). reflexivity.
      * apply Nat.leb_gt in Ek. replace (x - k) with 0 by lia. replace (x - S k) with 0 by lia. cbn [nth_error].
        replace (Nat.leb (S k) x) with false by (symmetry; apply Nat.leb_gt; lia). destruct r; reflexivity.
Qed.
Lemma blocks_In : forall l k p c, In (p, c) (blocks k l) <->
  exists n i, nth_error l (p - k) = Some n /\ k <= p /\ In i (gn_children n) /\ c = posd i.
Proof.
  induction l as [|n r IH]; intros k p c; cbn [blocks].
  - split; [intros []|]. intros (n & i & H & _). destruct (p - k); discriminate.
  - rewrite in_app_iff, in_map_iff, IH. split.
    + intros [(i & E & Hi)|(m & i & Hm & Hk & Hi & Ec)].
      * inversion E; subst. exists n, i. rewrite Nat.sub_diag. cbn. auto.
      * exists m, i. assert (p - k = S (p - S k)) as -> by lia. cbn [nth_error]. repeat split; auto; lia.
    + intros (m & i & Hm & Hk & Hi & Ec). destruct (Nat.eq_dec p k) as [->|N].
      * rewrite Nat.sub_diag in Hm. cbn in Hm. inversion Hm; subst m. left. exists i. subst c. auto.
      * right. exists m, i. assert (p - k = S (p - S k)) as E by lia. rewrite E in Hm. cbn [nth_error] in Hm. repeat split; auto; lia.
Qed.
End Links.

(* ---- phase 3: the attackers ---- *)
Definition same_but_comp (n m : node) : Prop :=
  n_type m = n_type n /\ n_name m = n_name n /\ n_id m = n_id n /\ n_asset m = n_asset n /\ n_children m = n_children n /\
  n_parents m = n_parents n /\ n_def m = n_def n /\ n_exist m = n_exist n /\ n_viable m = n_viable n /\ n_necessary m = n_necessary n /\
  n_mitre m = n_mitre n /\ n_ttc m = n_ttc n /\ n_tags m = n_tags n /\ n_extras m = n_extras n.
Lemma same_but_comp_refl n : same_but_comp n n. Proof. repeat split. Qed.
Lemma same_but_comp_trans a b c : same_but_comp a b -> same_but_comp b c -> same_but_comp a c.
Proof.
  intros (A1&A2&A3&A4&A5&A6&A7&A8&A9&A10&A11&A12&A13&A14) (B1&B2&B3&B4&B5&B6&B7&B8&B9&B10&B11&B12&B13&B14).
  repeat split; congruence.
Qed.
Lemma set_comp_same n l : same_but_comp n (set_comp n l). Proof. repeat split. Qed.

Section Reach.
Variable g : graph.
Variable h : Z -> nat.
Variable a : nat.
Lemma reach_ids_exact : forall ids nh ah,
  NoDup (map h ids) -> (forall i, In i ids -> dget Z.eqb (g_id2node g) i = Some (h i)) ->
  (forall i, In i ids -> ~ In a (n_comp (nh (h i)))) ->
  exists nh' ah', reach_ids g nh ah a ids = (nh', ah', true) /\
    a_reached (ah' a) = a_reached (ah a) ++ map h ids /\ a_entry (ah' a) = a_entry (ah a) /\ a_id (ah' a) = a_id (ah a) /\
    a_name (ah' a) = a_name (ah a) /\ (forall x, x <> a -> ah' x = ah x) /\ (forall o, same_but_comp (nh o) (nh' o)).
Proof.
  induction ids as [|i r IH]; intros nh ah N R F; cbn [reach_ids map].
  - exists nh, ah. rewrite app_nil_r. refine (conj eq_refl (conj eq_refl (conj eq_refl (conj eq_refl (conj eq_refl (conj _ _)))))); auto.
    intros o. apply same_but_comp_refl.
  - rewrite (R i (or_introl eq_refl)). unfold compromise.
    replace (memn a (n_comp (nh (h i)))) with false by (symmetry; apply memn_nIn; apply F; left; auto).
    cbn [map] in N. inversion N as [|? ? N1 N2]; subst.
    set (nh1 := updn nh (h i) (fun n => set_comp n (n_comp n ++ [a]))).
    set (ah1 := upda ah a (fun x => set_reached x (a_reached x ++ [h i]))).
    destruct (IH nh1 ah1 N2) as (nh' & ah' & E & A1 & A2 & A3 & A4 & A5 & A6).
    + intros j Hj. apply R. right; auto.
    + intros j Hj. unfold nh1. rewrite updn_other; [apply F; right; auto|]. intros E. apply N1. rewrite <- E. apply in_map; auto.
    + exists nh', ah'. rewrite E. split; [reflexivity|].
      unfold ah1 in A1, A2, A3, A4. rewrite upda_same in A1, A2, A3, A4. cbn in A1, A2, A3, A4.
      rewrite A1, A2, A3, A4, <- app_assoc. refine (conj eq_refl (conj eq_refl (conj eq_refl (conj eq_refl (conj _ _))))).
      * intros x Hx. rewrite A5 by auto. unfold ah1. apply upda_other; auto.
      * intros o. eapply same_but_comp_trans; [|apply A6]. unfold nh1, updn. destruct (Nat.eqb o (h i)); [apply set_comp_same|apply same_but_comp_refl].
Qed.
Lemma entry_ids_exact : forall ids ah,
  (forall i, In i ids -> dget Z.eqb (g_id2node g) i = Some (h i)) ->
  exists ah', entry_ids g ah a ids = (ah', true) /\
    a_entry (ah' a) = a_entry (ah a) ++ map h ids /\ a_reached (ah' a) = a_reached (ah a) /\ a_id (ah' a) = a_id (ah a) /\
    a_name (ah' a) = a_name (ah a) /\ (forall x, x <> a -> ah' x = ah x).
Proof.
  induction ids as [|i r IH]; intros ah R; cbn [entry_ids map].
  - exists ah. rewrite app_nil_r. repeat split; auto.
  - rewrite (R i (or_introl eq_refl)).
    destruct (IH (upda ah a (fun x => set_entry x (a_entry x ++ [h i])))) as (ah' & E & A1 & A2 & A3 & A4 & A5).
    + intros j Hj. apply R. right; auto.
    + exists ah'. rewrite E. split; [reflexivity|]. rewrite upda_same in A1, A2, A3, A4. cbn in A1, A2, A3, A4.
      rewrite A1, A2, A3, A4, <- app_assoc. repeat split; auto. intros x Hx. rewrite A5 by auto. apply upda_other; auto.
Qed.
End Reach.

(* ---- positions and ids ---- *)
Lemma pos_of_nth : forall all i j, pos_of i all = Some j -> exists n, nth_error all j = Some n /\ gn_id n = i.
Proof.
  induction all as [|m r IH]; intros i j H; cbn [pos_of] in H; [discriminate|].
  destruct (Z.eqb (gn_id m) i) eqn:E.
  - inversion H; subst. exists m. split; [reflexivity|apply Z.eqb_eq; auto].
  - destruct (pos_of i r) as [p|] eqn:Ep; [|discriminate]. inversion H; subst. destruct (IH i p Ep) as (n & Hn & Hi). exists n. auto.
Qed.
Lemma nth_pos_of : forall all j n, NoDup (map gn_id all) -> nth_error all j = Some n -> pos_of (gn_id n) all = Some j.
Proof.
  induction all as [|m r IH]; intros j n N H; [destruct j; discriminate|]. cbn [map] in N. inversion N as [|? ? N1 N2]; subst.
  destruct j as [|j]; cbn [nth_error] in H; cbn [pos_of].
  - inversion H; subst. rewrite Z.eqb_refl. reflexivity.
  - destruct (Z.eqb (gn_id m) (gn_id n)) eqn:E.
    + apply Z.eqb_eq in E. exfalso. apply N1. rewrite E. apply in_map. eapply nth_error_In; eauto.
    + rewrite (IH j n N2 H). reflexivity.
Qed.

(* ---- de-duplication of a duplicate-free list ---- *)
Lemma dedup_z_In : forall l seen i, In i (dedup_z l seen) <-> In i l /\ ~ In i seen.
Proof.
  induction l as [|x r IH]; intros seen i; cbn [dedup_z]; [tauto|].
  destruct (existsb (Z.eqb x) seen) eqn:E.
  - rewrite IH. assert (In x seen). { apply existsb_exists in E. destruct E as (y & Hy & Ey). apply Z.eqb_eq in Ey. subst; auto. }
    split; [intros [A B]; split; auto; right; auto|]. intros [[->|A] B]; [contradiction|auto].
  - assert (~ In x seen). { intros A. assert (existsb (Z.eqb x) seen = true); [|congruence]. apply existsb_exists. exists x. split; auto. apply Z.eqb_refl. }
    cbn [In]. rewrite IH. cbn [In]. split.
    + intros [E0|[A B]].
      * subst. split; [left; auto|auto].
      * split; [right; auto|]. intros C. apply B. right. exact C.
    + intros [[E0|A] B].
      * left; auto.
      * destruct (Z.eq_dec x i) as [E1|Nx]; [left; auto|]. right. split; auto. intros [C|C]; [apply Nx; auto|apply B; auto].
Qed.
Lemma dedup_z_NoDup : forall l seen, NoDup (dedup_z l seen).
Proof.
  induction l as [|x r IH]; intros seen; cbn [dedup_z]; [constructor|].
  destruct (existsb (Z.eqb x) seen); auto. constructor; auto. intros A. apply dedup_z_In in A. destruct A as [_ B]. apply B. left; auto.
Qed.
Lemma dedup_z_id : forall l seen, NoDup l -> (forall i, In i l -> ~ In i seen) -> dedup_z l seen = l.
Proof.
  induction l as [|x r IH]; intros seen N D; cbn [dedup_z]; auto. inversion N; subst.
  replace (existsb (Z.eqb x) seen) with false.
  - f_equal. apply IH; auto. intros i Hi [A|A]; [subst; auto|]. apply (D i); [right; auto|auto].
  - symmetry. apply Bool.not_true_iff_false. intros A. apply existsb_exists in A. destruct A as (y & Hy & Ey). apply Z.eqb_eq in Ey. subst.
    apply (D y); [left; auto|auto].
Qed.

(* ---- which contents the loader reproduces ---- *)
Definition ids_of_nodes (c : gcontent) : list Z := map gn_id (gc_nodes c).
Record GLoadable (c : gcontent) : Prop := mkGL {
  gl_ids : NoDup (ids_of_nodes c);
  gl_names : NoDup (map gfull (gc_nodes c));
  gl_children : forall n, In n (gc_nodes c) -> NoDup (gn_children n) /\ forall i, In i (gn_children n) -> In i (ids_of_nodes c);
  gl_parents : forall n, In n (gc_nodes c) -> NoDup (gn_parents n);
  gl_mirror : forall n m, In n (gc_nodes c) -> In m (gc_nodes c) -> (In (gn_id m) (gn_children n) <-> In (gn_id n) (gn_parents m));
  gl_parents_known : forall m i, In m (gc_nodes c) -> In i (gn_parents m) -> In i (ids_of_nodes c);
  gl_att_ids : NoDup (map ga_id (gc_atts c));
  gl_atts : forall a, In a (gc_atts c) -> NoDup (ga_reached a) /\ NoDup (ga_entry a) /\
                        forall i, In i (ga_reached a ++ ga_entry a) -> In i (ids_of_nodes c) }.

Definition gn_equiv (a b : gnode) : Prop :=
  gn_id a = gn_id b /\ gn_type a = gn_type b /\ gn_name a = gn_name b /\ gn_asset a = gn_asset b /\ gn_ttc a = gn_ttc b /\
  gn_children a = gn_children b /\ Permutation (gn_parents a) (gn_parents b) /\ gn_def a = gn_def b /\ gn_exist a = gn_exist b /\
  gn_viable a = gn_viable b /\ gn_necessary a = gn_necessary b /\ gn_mitre a = gn_mitre b /\ gn_tags a = gn_tags b /\
  gn_extras a = gn_extras b.
Definition expected (c : gcontent) : gcontent := if wm then c else strip_assets c.

(* ---- phase 3, one attacker ---- *)
Fixpoint apos_of (i : Z) (l : list gattacker) : option nat :=
  match l with [] => None | a :: r => if Z.eqb (ga_id a) i then Some 0 else option_map S (apos_of i r) end.

Section Attackers.
Variable all : list gnode.
Variable nh2 : nheap.                 (* the node heap after the links *)
Notation pd := (posd all).

Record P3 (pa : list gattacker) (s : st) : Prop := mkP3 {
  p3_wf : WF s;
  p3_nn : s_nn s = List.length all;
  p3_na : s_na s = List.length pa;
  p3_nodes : g_nodes (s_g s) = seq 0 (List.length all);
  p3_atts : g_atts (s_g s) = seq 0 (List.length pa);
  p3_idx : forall i, dget Z.eqb (g_id2node (s_g s)) i = pos_of i all;
  p3_heap : forall x, same_but_comp (nh2 x) (s_nh s x);
  p3_aheap : forall j a, nth_error pa j = Some a ->
               s_ah s j = mkAtt (ga_name a) (Some (ga_id a)) (map pd (ga_entry a)) (map pd (ga_reached a));
  p3_aidx : forall i, dget Z.eqb (g_id2att (s_g s)) i = apos_of i pa }.

Lemma apos_of_app i pa a : apos_of i (pa ++ [a]) =
  match apos_of i pa with Some p => Some p | None => if Z.eqb (ga_id a) i then Some (List.length pa) else None end.
Proof.
  induction pa as [|m r IH]; cbn [apos_of app List.length]; [destruct (Z.eqb (ga_id a) i); reflexivity|].
  destruct (Z.eqb (ga_id m) i); auto. rewrite IH. destruct (apos_of i r); cbn; auto. destruct (Z.eqb (ga_id a) i); reflexivity.
Qed.
Lemma posd_pos i : pos_of i all <> None -> pos_of i all = Some (pd i).
Proof. unfold posd. destruct (pos_of i all); [reflexivity|congruence]. Qed.
Lemma posd_inj i j : pos_of i all <> None -> pos_of j all <> None -> pd i = pd j -> i = j.
Proof.
  intros Hi Hj E. pose proof (posd_pos i Hi) as Pi. pose proof (posd_pos j Hj) as Pj. rewrite E in Pi.
  destruct (pos_of_nth all i _ Pi) as (n & Hn & <-). destruct (pos_of_nth all j _ Pj) as (m & Hm & <-). congruence.
Qed.
Lemma NoDup_map_posd l : NoDup l -> (forall i, In i l -> pos_of i all <> None) -> NoDup (map pd l).
Proof.
  induction 1 as [|x r Hx N IH]; intros R; cbn; constructor.
  - intros A. apply in_map_iff in A. destruct A as (y & E & Hy). assert (y = x); [|subst; auto].
    apply posd_inj; auto; apply R; [right; auto|left; auto].
  - apply IH. intros i Hi. apply R. right; auto.
Qed.

Lemma P3_step pa s a : P3 pa s -> apos_of (ga_id a) pa = None ->
  NoDup (ga_reached a) -> (forall i, In i (ga_reached a ++ ga_entry a) -> pos_of i all <> None) ->
  exists s', exec s [ONewAtt (ga_name a); OAddAtt (List.length pa) (Some (ga_id a)) (ga_reached a) (ga_entry a)] = Some s' /\ P3 (pa ++ [a]) s'.
Proof.
  intros P Hid Nr R. set (k := List.length pa). pose proof (p3_wf _ _ P) as W.
  cbn [exec]. unfold step at 1. cbn [guard negb].
  set (s1 := new_att s (ga_name a)).
  assert (A1 : s_ah s1 k = mkAtt (ga_name a) None [] []) by (unfold s1, new_att; cbn [s_ah]; rewrite (p3_na _ _ P); apply upda_same).
  assert (AO : forall j, j <> k -> s_ah s1 j = s_ah s j) by (intros j Hj; unfold s1, new_att; cbn [s_ah]; rewrite (p3_na _ _ P); apply upda_other; auto).
  assert (G1 : s_g s1 = s_g s) by reflexivity. assert (H1 : s_nh s1 = s_nh s) by reflexivity.
  assert (N1 : s_na s1 = S k) by (unfold s1, new_att; cbn [s_na]; rewrite (p3_na _ _ P); reflexivity).
  assert (NK : ~ In k (g_atts (s_g s))) by (rewrite (p3_atts _ _ P); intros A0; apply in_seq in A0; unfold k in A0; lia).
  assert (RES : forall i, In i (ga_reached a ++ ga_entry a) -> dget Z.eqb (g_id2node (s_g s)) i = Some (pd i)).
  { intros i Hi. rewrite (p3_idx _ _ P). apply posd_pos. apply R; auto. }
  assert (GD : guard s1 (OAddAtt k (Some (ga_id a)) (ga_reached a) (ga_entry a)) = true).
  { cbn [guard]. rewrite N1. replace (Nat.ltb k (S k)) with true by (symmetry; apply Nat.ltb_lt; lia).
    unfold att_in_graph. rewrite G1. replace (memn k (g_atts (s_g s))) with false by (symmetry; apply memn_nIn; auto).
    rewrite A1. cbn [a_entry a_reached negb andb]. apply forallb_forall. intros i Hi. unfold dhas. rewrite (RES i Hi). reflexivity. }
  unfold step. rewrite GD. cbn [negb].
  (* add_attacker *)
  set (g1 := mkGraph (g_nodes (s_g s)) (g_atts (s_g s)) (g_id2node (s_g s)) (g_name2node (s_g s)) (g_id2att (s_g s))
                     (g_next_node (s_g s)) (Z.max (ga_id a + 1) (g_next_att (s_g s)))).
  set (ah0 := upda (s_ah s1) k (fun x => set_a_id x (Some (ga_id a)))).
  assert (NOC : forall i, In i (ga_reached a) -> ~ In k (n_comp (s_nh s (pd i)))).
  { intros i Hi A0. destruct (wf_att s W) as (T1 & _). apply NK. apply (T1 (pd i) k); auto.
    rewrite (p3_nodes _ _ P). apply in_seq. pose proof (posd_pos i (R i (in_or_app _ _ _ (or_introl Hi)))) as Pi.
    destruct (pos_of_nth all i _ Pi) as (n & Hn & _). assert (pd i < List.length all) by (apply nth_error_Some; congruence). lia. }
  destruct (reach_ids_exact g1 pd k (ga_reached a) (s_nh s) ah0) as (nh' & ah' & ER & B1 & B2 & B3 & B4 & B5 & B6).
  { apply NoDup_map_posd; auto. intros i Hi. apply R. apply in_or_app; auto. }
  { intros i Hi. cbn [g1 g_id2node]. apply RES. apply in_or_app; auto. }
  { exact NOC. }
  destruct (entry_ids_exact g1 pd k (ga_entry a) ah') as (ah'' & EE & C1 & C2 & C3 & C4 & C5).
  { intros i Hi. cbn [g1 g_id2node]. apply RES. apply in_or_app; auto. }
  assert (EA : add_attacker s1 k (Some (ga_id a)) (ga_reached a) (ga_entry a) =
     (mkSt nh' ah'' (s_nn s) (S k)
           (mkGraph (g_nodes (s_g s)) (g_atts (s_g s) ++ [k]) (g_id2node (s_g s)) (g_name2node (s_g s))
                    (dset Z.eqb (g_id2att (s_g s)) (ga_id a) k) (g_next_node (s_g s)) (Z.max (ga_id a + 1) (g_next_att (s_g s)))), Ok)).
  { unfold add_attacker. rewrite G1, H1. unfold dhas. rewrite (p3_aidx _ _ P), Hid. fold ah0. fold g1.
    rewrite ER. cbn [negb]. rewrite EE. cbn [negb]. rewrite N1. reflexivity. }
  rewrite EA. eexists. split; [reflexivity|].
  assert (AK : ah'' k = mkAtt (ga_name a) (Some (ga_id a)) (map pd (ga_entry a)) (map pd (ga_reached a))).
  { destruct (ah'' k) as [nm idk en re] eqn:Ek. cbn in C1, C2, C3, C4. rewrite C1, C2, C3, C4, B1, B2, B3, B4.
    unfold ah0. rewrite upda_same, A1. reflexivity. }
  assert (AOT : forall j, j <> k -> ah'' j = s_ah s j).
  { intros j Hj. rewrite C5, B5 by auto. unfold ah0. rewrite upda_other by auto. apply AO; auto. }
  constructor; cbn [s_nn s_na s_g s_nh s_ah g_nodes g_atts g_id2node g_id2att].
  - (* WF: the state is reached by a history *)
    assert (EX : exec s [ONewAtt (ga_name a); OAddAtt k (Some (ga_id a)) (ga_reached a) (ga_entry a)] =
                 Some (mkSt nh' ah'' (s_nn s) (S k)
                        (mkGraph (g_nodes (s_g s)) (g_atts (s_g s) ++ [k]) (g_id2node (s_g s)) (g_name2node (s_g s))
                                 (dset Z.eqb (g_id2att (s_g s)) (ga_id a) k) (g_next_node (s_g s)) (Z.max (ga_id a + 1) (g_next_att (s_g s)))))).
    { cbn [exec]. unfold step at 1. cbn [guard negb]. fold s1. unfold step. rewrite GD. cbn [negb]. rewrite EA. reflexivity. }
    apply (exec_WF _ _ _ W EX).
  - apply (p3_nn _ _ P).
  - rewrite app_length. cbn. fold k. lia.
  - apply (p3_nodes _ _ P).
  - rewrite (p3_atts _ _ P), app_length. cbn. fold k. rewrite Nat.add_1_r, seq_S. reflexivity.
  - apply (p3_idx _ _ P).
  - intros x. eapply same_but_comp_trans; [apply (p3_heap _ _ P)|apply B6].
  - intros j b Hj. destruct (Nat.eq_dec j k) as [->|Nj].
    + unfold k in Hj. rewrite nth_error_app2 in Hj by lia. rewrite Nat.sub_diag in Hj. cbn in Hj. inversion Hj; subst. exact AK.
    + rewrite AOT by auto. apply (p3_aheap _ _ P).
      assert (j < List.length (pa ++ [a])) by (apply nth_error_Some; congruence). rewrite app_length in H. cbn in H.
      rewrite nth_error_app1 in Hj by (fold k; lia). exact Hj.
  - intros i. rewrite dget_dset_z, apos_of_app, (p3_aidx _ _ P). fold k.
    destruct (apos_of i pa) eqn:Ep.
    + destruct (Z.eqb i (ga_id a)) eqn:E; auto. apply Z.eqb_eq in E. subst. congruence.
    + rewrite (Z.eqb_sym (ga_id a) i). reflexivity.
Qed.

Lemma P3_all : forall l pa s, P3 pa s ->
  (forall a, In a l -> apos_of (ga_id a) pa = None) -> NoDup (map ga_id l) ->
  (forall a, In a l -> NoDup (ga_reached a) /\ forall i, In i (ga_reached a ++ ga_entry a) -> pos_of i all <> None) ->
  exists s', exec s (att_ops (List.length pa) l) = Some s' /\ P3 (pa ++ l) s'.
Proof.
  induction l as [|a r IH]; intros pa s P F Ni R; cbn [att_ops].
  - exists s. rewrite app_nil_r. auto.
  - destruct (R a (or_introl eq_refl)) as [R1 R2].
    destruct (P3_step pa s a P (F a (or_introl eq_refl)) R1 R2) as (s1 & E1 & P').
    cbn [map] in Ni. inversion Ni as [|? ? Ni1 Ni2]; subst.
    destruct (IH (pa ++ [a]) s1 P') as (s2 & E2 & P2); auto.
    + intros b Hb. rewrite apos_of_app, (F b (or_intror Hb)). destruct (Z.eqb (ga_id a) (ga_id b)) eqn:E; auto.
      apply Z.eqb_eq in E. exfalso. apply Ni1. rewrite E. apply in_map; auto.
    + intros b Hb. apply R. right; auto.
    + exists s2. split; [|rewrite <- app_assoc in P2; exact P2].
      change (ONewAtt (ga_name a) :: OAddAtt (List.length pa) (Some (ga_id a)) (ga_reached a) (ga_entry a) :: att_ops (S (List.length pa)) r)
        with ([ONewAtt (ga_name a); OAddAtt (List.length pa) (Some (ga_id a)) (ga_reached a) (ga_entry a)] ++ att_ops (S (List.length pa)) r).
      rewrite exec_app, E1. rewrite app_length in E2. cbn in E2. rewrite Nat.add_1_r in E2. exact E2.
Qed.
End Attackers.
End Thm.

(* ---- assembling the three phases ---- *)
Lemma Forall2_seq_nth {A B} (R : A -> B -> Prop) (f : nat -> A) : forall (l : list B) k,
  (forall x b, nth_error l x = Some b -> R (f (k + x)) b) -> Forall2 R (map f (seq k (List.length l))) l.
Proof.
  induction l as [|b r IH]; intros k H; cbn; constructor.
  - specialize (H 0 b eq_refl). rewrite Nat.add_0_r in H. exact H.
  - apply IH. intros x c Hx. specialize (H (S x) c Hx). rewrite Nat.add_succ_r in H. exact H.
Qed.
Lemma map_seq_nth {B} (f : nat -> B) : forall (l : list B) k,
  (forall x b, nth_error l x = Some b -> f (k + x) = b) -> map f (seq k (List.length l)) = l.
Proof.
  induction l as [|b r IH]; intros k H; cbn; auto. f_equal.
  - specialize (H 0 b eq_refl). rewrite Nat.add_0_r in H. exact H.
  - apply IH. intros x c Hx. specialize (H (S x) c Hx). rewrite Nat.add_succ_r in H. exact H.
Qed.
Lemma pos_of_known : forall all i, In i (map gn_id all) -> pos_of i all <> None.
Proof.
  induction all as [|m r IH]; cbn; [tauto|]. intros i [E|H].
  - subst. rewrite Z.eqb_refl. discriminate.
  - destruct (Z.eqb (gn_id m) i); [discriminate|]. specialize (IH i H). destruct (pos_of i r); [discriminate|congruence].
Qed.

Definition exp_node (wm : bool) (nd : gnode) : gnode :=
  if wm then nd else mkGN (gn_id nd) (gn_type nd) (gn_name nd) None (gn_ttc nd) (gn_children nd) (gn_parents nd) (gn_comp nd)
                          (gn_def nd) (gn_exist nd) (gn_viable nd) (gn_necessary nd) (gn_mitre nd) (gn_tags nd) (gn_extras nd).
Lemma expected_nodes wm c : gc_nodes (expected wm c) = map (exp_node wm) (gc_nodes c).
Proof. unfold expected, exp_node. destruct wm; cbn; [rewrite map_id; reflexivity|reflexivity]. Qed.

Theorem gload_spec wm c : GLoadable wm c ->
  exists s, gload wm c = Some s /\ WF s /\
            Forall2 gn_equiv (gc_nodes (gcontent_of s)) (gc_nodes (expected wm c)) /\ gc_atts (gcontent_of s) = gc_atts c.
Proof.
  intros GL. set (all := gc_nodes c). set (n := List.length all).
  assert (KN : forall i, In i (map gn_id all) -> pos_of i all <> None) by (apply pos_of_known).
  (* phase 1 *)
  destruct (P1_all wm all [] init (P1_init wm)) as (s1 & E1 & P1a).
  { intros m Hm. split; reflexivity. } { apply (gl_ids _ _ GL). } { apply (gl_names _ _ GL). }
  cbn [List.length app] in E1, P1a.
  (* phase 2 *)
  assert (CH : forall m i, In m all -> In i (gn_children m) -> pos_of i all <> None).
  { intros m i Hm Hi. apply KN. apply (gl_children _ _ GL m Hm); auto. }
  pose proof (link_ops_blocks all all 0 CH) as EL.
  assert (PLT : forall i, pos_of i all <> None -> posd all i < n).
  { intros i Hi. pose proof (posd_pos all i Hi) as Pi. destruct (pos_of_nth all i _ Pi) as (m & Hm & _).
    apply nth_error_Some. congruence. }
  assert (E2 : exec s1 (map (fun pc => OLink (fst pc) (snd pc)) (blocks all 0 all)) = Some (link_all s1 (blocks all 0 all))).
  { apply exec_links. intros [p q] Hpq. rewrite (p1_nodes _ _ _ P1a). cbn [fst snd].
    apply (blocks_In all all 0 p q) in Hpq. destruct Hpq as (m & i & Hm & _ & Hi & ->). rewrite Nat.sub_0_r in Hm. split; apply in_seq.
    - assert (p < n) by (apply nth_error_Some; congruence). fold n. lia.
    - pose proof (PLT i (CH m i (nth_error_In _ _ Hm) Hi)). fold n. lia. }
  set (s2 := link_all s1 (blocks all 0 all)) in *.
  destruct (link_all_spec (blocks all 0 all) s1) as (L1 & L2 & L3 & L4 & L5). fold s2 in L1, L2, L3, L4, L5.
  assert (EX2 : exec init (node_ops wm 0 all ++ map (fun pc => OLink (fst pc) (snd pc)) (blocks all 0 all)) = Some s2)
    by (rewrite exec_app, E1; exact E2).
  (* phase 3 *)
  assert (P3a : P3 all (s_nh s2) [] s2).
  { constructor.
    - apply (exec_WF _ _ _ WF_init EX2).
    - rewrite L3. apply (p1_nn _ _ _ P1a).
    - rewrite L4. apply (p1_na _ _ _ P1a).
    - rewrite L1. apply (p1_nodes _ _ _ P1a).
    - rewrite L1. apply (p1_atts _ _ _ P1a).
    - intros i. rewrite L1. apply (p1_idx _ _ _ P1a).
    - intros x. apply same_but_comp_refl.
    - intros j a Hj. destruct j; discriminate.
    - intros i. rewrite L1, (p1_id2att _ _ _ P1a). reflexivity. }
  destruct (P3_all all (s_nh s2) (gc_atts c) [] s2 P3a) as (s3 & E3 & P3b).
  { intros a Ha. reflexivity. } { apply (gl_att_ids _ _ GL). }
  { intros a Ha. destruct (gl_atts _ _ GL a Ha) as (A1 & A2 & A3). split; auto. }
  cbn [List.length app] in E3, P3b.
  exists s3. split.
  { rewrite gload_exec. unfold gload_ops. fold all. rewrite EL. rewrite app_assoc, exec_app, EX2. exact E3. }
  split; [apply (p3_wf _ _ _ _ P3b)|].
  (* the heap of the final state, node by node *)
  assert (HP : forall x nd, nth_error all x = Some nd ->
     let m := s_nh s3 x in
     n_type m = gn_type nd /\ n_name m = gn_name nd /\ n_id m = Some (gn_id nd) /\ n_asset m = (if wm then gn_asset nd else None) /\
     n_children m = map (posd all) (gn_children nd) /\
     n_parents m = map fst (filter (fun pc => Nat.eqb (snd pc) x) (blocks all 0 all)) /\
     n_def m = gn_def nd /\ n_exist m = gn_exist nd /\ n_viable m = gn_viable nd /\ n_necessary m = gn_necessary nd /\
     n_mitre m = gn_mitre nd /\ n_ttc m = gn_ttc nd /\ n_tags m = gn_tags nd /\ n_extras m = JDict (gn_extras nd)).
  { intros x nd Hx. cbv zeta.
    destruct (p3_heap _ _ _ _ P3b x) as (C1&C2&C3&C4&C5&C6&C7&C8&C9&C10&C11&C12&C13&C14).
    destruct (L5 x) as (LC & LP & (S1&S2&S3&S4&S5&S6&S7&S8&S9&S10&S11&S12&S13)).
    pose proof (p1_heap _ _ _ P1a x nd Hx) as H1.
    rewrite C1, C2, C3, C4, C5, C6, C7, C8, C9, C10, C11, C12, C13, C14.
    rewrite S1, S2, S3, S4, S6, S7, S8, S9, S10, S11, S12, S13, LC, LP, H1. cbn.
    rewrite (blocks_filter_fst all all 0 x). rewrite Nat.sub_0_r, Hx. cbn [Nat.leb]. rewrite map_map. cbn [snd].
    repeat split; reflexivity. }
  assert (NID : forall i, In i (map gn_id all) -> nidz s3 (posd all i) = i).
  { intros i Hi. pose proof (posd_pos all i (KN i Hi)) as Pi. destruct (pos_of_nth all i _ Pi) as (m & Hm & Em).
    unfold nidz. destruct (HP _ _ Hm) as (_ & _ & -> & _). exact Em. }
  assert (NIDX : forall x nd, nth_error all x = Some nd -> nidz s3 x = gn_id nd).
  { intros x nd Hx. unfold nidz. destruct (HP _ _ Hx) as (_ & _ & -> & _). reflexivity. }
  assert (DED : forall l, NoDup l -> (forall i, In i l -> In i (map gn_id all)) -> dedup_z (map (nidz s3) (map (posd all) l)) [] = l).
  { intros l Nl Hl. rewrite map_map. rewrite (map_ext_in _ (fun i => i)) by (intros i Hi; apply NID; auto). rewrite map_id.
    apply dedup_z_id; auto. }
  split.
  - (* nodes *)
    unfold gcontent_of. cbn [gc_nodes]. rewrite (p3_nodes _ _ _ _ P3b), expected_nodes. fold all.
    rewrite <- (map_length (exp_node wm) all). apply Forall2_seq_nth. cbn [Nat.add].
    intros x b Hb. rewrite nth_error_map in Hb. destruct (nth_error all x) as [nd|] eqn:Hx; [|discriminate]. cbn in Hb. inversion Hb; subst b. clear Hb.
    destruct (HP x nd Hx) as (H1&H2&H3&H4&H5&H6&H7&H8&H9&H10&H11&H12&H13&H14).
    assert (Hnd : In nd all) by (eapply nth_error_In; eauto).
    unfold gn_equiv, gnode_of. cbn [gn_id gn_type gn_name gn_asset gn_ttc gn_children gn_parents gn_def gn_exist gn_viable gn_necessary gn_mitre gn_tags gn_extras].
    rewrite H1, H2, H4, H5, H6, H7, H8, H9, H10, H11, H12, H13, H14. rewrite (NIDX x nd Hx).
    destruct (gl_children _ _ GL nd Hnd) as [Nc Kc].
    rewrite (DED (gn_children nd) Nc Kc).
    assert (PERM : Permutation (dedup_z (map (nidz s3) (map fst (filter (fun pc => Nat.eqb (snd pc) x) (blocks all 0 all)))) []) (gn_parents nd)).
    { apply NoDup_Permutation; [apply dedup_z_NoDup | apply (gl_parents _ _ GL nd Hnd) |]. intros i. rewrite dedup_z_In. split.
      - intros [Hi _]. apply in_map_iff in Hi. destruct Hi as (p & Ep & Hp). apply in_map_iff in Hp. destruct Hp as ([p' q] & Ep' & Hpq).
        cbn in Ep'. subst p'. apply filter_In in Hpq. destruct Hpq as [Hpq Eq]. cbn in Eq. apply Nat.eqb_eq in Eq. subst q.
        apply (blocks_In all all 0 p x) in Hpq. destruct Hpq as (m & j & Hm & _ & Hj & Ex). rewrite Nat.sub_0_r in Hm.
        rewrite (NIDX p m Hm) in Ep. subst i.
        assert (Hmall : In m all) by (eapply nth_error_In; eauto).
        assert (Kj : In j (map gn_id all)) by (apply (gl_children _ _ GL m Hmall); auto).
        pose proof (posd_pos all j (KN j Kj)) as Pj. rewrite <- Ex in Pj. destruct (pos_of_nth all j _ Pj) as (nd' & Hnd' & Ej).
        assert (nd' = nd) by congruence. subst nd'. rewrite <- Ej in Hj.
        apply (gl_mirror _ _ GL m nd Hmall Hnd). exact Hj.
      - intros Hi. split; [|intros []].
        pose proof (gl_parents_known _ _ GL nd i Hnd Hi) as Ki. pose proof (posd_pos all i (KN i Ki)) as Pi.
        destruct (pos_of_nth all i _ Pi) as (m & Hm & Em). assert (Hmall : In m all) by (eapply nth_error_In; eauto).
        apply in_map_iff. exists (posd all i). split; [apply NID; auto|].
        apply in_map_iff. exists (posd all i, x). split; [reflexivity|]. apply filter_In. split; [|cbn; apply Nat.eqb_refl].
        apply (blocks_In all all 0). exists m, (gn_id nd). rewrite Nat.sub_0_r. split; [exact Hm|]. split; [lia|]. split.
        + apply (gl_mirror _ _ GL m nd Hmall Hnd). rewrite Em. exact Hi.
        + unfold posd. rewrite (nth_pos_of all x nd (gl_ids _ _ GL) Hx). reflexivity. }
    unfold exp_node. destruct wm; cbn [gn_id gn_type gn_name gn_asset gn_ttc gn_children gn_parents gn_def gn_exist gn_viable gn_necessary gn_mitre gn_tags gn_extras jextras];
      repeat split; auto.
  - (* attackers *)
    unfold gcontent_of. cbn [gc_atts]. rewrite (p3_atts _ _ _ _ P3b). apply map_seq_nth. cbn [Nat.add].
    intros j a Hj. unfold gatt_of. rewrite (p3_aheap _ _ _ _ P3b j a Hj). cbn [a_id a_name a_entry a_reached].
    destruct (gl_atts _ _ GL a (nth_error_In _ _ Hj)) as (A1 & A2 & A3).
    rewrite (DED (ga_entry a) A2) by (intros i Hi; apply A3; apply in_or_app; auto).
    rewrite (DED (ga_reached a) A1) by (intros i Hi; apply A3; apply in_or_app; auto).
    destruct a; reflexivity.
Qed.

(* ---- a decidable sufficient condition ---- *)
Fixpoint znodupb (l : list Z) : bool :=
  match l with [] => true | x :: r => negb (existsb (Z.eqb x) r) && znodupb r end.
Fixpoint snodupb' (l : list string) : bool :=
  match l with [] => true | x :: r => negb (existsb (seqb x) r) && snodupb' r end.
Lemma znodupb_NoDup l : znodupb l = true -> NoDup l.
Proof.
  induction l as [|x r IH]; cbn; intros E; constructor; apply andb_true_iff in E; destruct E as [E1 E2]; auto.
  intros A. apply negb_true_iff in E1. assert (existsb (Z.eqb x) r = true); [|congruence].
  apply existsb_exists. exists x. split; auto. apply Z.eqb_refl.
Qed.
Lemma snodupb'_NoDup l : snodupb' l = true -> NoDup l.
Proof.
  induction l as [|x r IH]; cbn; intros E; constructor; apply andb_true_iff in E; destruct E as [E1 E2]; auto.
  intros A. apply negb_true_iff in E1. assert (existsb (seqb x) r = true); [|congruence].
  apply existsb_exists. exists x. split; auto. apply seqb_spec; auto.
Qed.
Definition zmem (i : Z) (l : list Z) : bool := existsb (Z.eqb i) l.
Lemma zmem_In i l : zmem i l = true <-> In i l.
Proof.
  unfold zmem. rewrite existsb_exists. split.
  - intros (y & Hy & E). apply Z.eqb_eq in E. subst; auto.
  - intros H. exists i. split; auto. apply Z.eqb_refl.
Qed.
Definition gloadableb (wm : bool) (c : gcontent) : bool :=
  let ids := map gn_id (gc_nodes c) in
  znodupb ids && snodupb' (map (gfull wm) (gc_nodes c)) &&
  forallb (fun n => znodupb (gn_children n) && forallb (fun i => zmem i ids) (gn_children n) &&
                    znodupb (gn_parents n) && forallb (fun i => zmem i ids) (gn_parents n)) (gc_nodes c) &&
  forallb (fun n => forallb (fun m => Bool.eqb (zmem (gn_id m) (gn_children n)) (zmem (gn_id n) (gn_parents m))) (gc_nodes c)) (gc_nodes c) &&
  znodupb (map ga_id (gc_atts c)) &&
  forallb (fun a => znodupb (ga_reached a) && znodupb (ga_entry a) && forallb (fun i => zmem i ids) (ga_reached a ++ ga_entry a)) (gc_atts c).
Theorem gloadableb_ok wm c : gloadableb wm c = true -> GLoadable wm c.
Proof.
  unfold gloadableb. intros H.
  apply andb_true_iff in H. destruct H as [H H6]. apply andb_true_iff in H. destruct H as [H H5].
  apply andb_true_iff in H. destruct H as [H H4]. apply andb_true_iff in H. destruct H as [H H3].
  apply andb_true_iff in H. destruct H as [H1 H2].
  rewrite forallb_forall in H3, H4, H6.
  constructor.
  - apply znodupb_NoDup. exact H1.
  - apply snodupb'_NoDup. exact H2.
  - intros n Hn. specialize (H3 n Hn). apply andb_true_iff in H3. destruct H3 as [H3 _]. apply andb_true_iff in H3. destruct H3 as [H3 _].
    apply andb_true_iff in H3. destruct H3 as [Ha Hb].
    split; [apply znodupb_NoDup; auto|]. rewrite forallb_forall in Hb. intros i Hi. apply zmem_In. apply Hb; auto.
  - intros n Hn. specialize (H3 n Hn). apply andb_true_iff in H3. destruct H3 as [H3 _]. apply andb_true_iff in H3. destruct H3 as [_ Hc].
    apply znodupb_NoDup; auto.
  - intros n m Hn Hm. specialize (H4 n Hn). rewrite forallb_forall in H4. specialize (H4 m Hm). apply Bool.eqb_prop in H4.
    rewrite <- !zmem_In. rewrite H4. tauto.
  - intros m i Hm Hi. specialize (H3 m Hm). apply andb_true_iff in H3. destruct H3 as [_ Hd].
    rewrite forallb_forall in Hd. apply zmem_In. apply Hd; auto.
  - apply znodupb_NoDup. exact H5.
  - intros a Ha. specialize (H6 a Ha). apply andb_true_iff in H6. destruct H6 as [H6 Hc]. apply andb_true_iff in H6. destruct H6 as [Hx Hy].
    split; [apply znodupb_NoDup; auto|]. split; [apply znodupb_NoDup; auto|]. rewrite forallb_forall in Hc. intros i Hi. apply zmem_In. apply Hc; auto.
Qed.

(* correspondence helper: does the decoded document meet the premise of gload_spec *)
Definition gloadable_doc (c : jv * bool * bool * gcontent * jv) : bool :=
  let '(doc, with_model, _, _, _) := c in
  match gdecode fparse_tab doc with Some dc => gloadableb with_model dc | None => false end.

(* save, then load: codec and rebuild composed *)
Theorem save_then_gload fstr fparse name_of_id wm c :
  (forall c0 n d, In n (gc_nodes c0) -> gn_def n = Some d -> fparse (fstr d) = Some d) -> GLoadable wm c ->
  exists c' s, gdecode fparse (gencode fstr name_of_id c) = Some c' /\ gload wm c' = Some s /\ WF s /\
               Forall2 gn_equiv (gc_nodes (gcontent_of s)) (gc_nodes (expected wm c)) /\ gc_atts (gcontent_of s) = gc_atts c.
Proof.
  intros Hf GL. exists c. destruct (gload_spec wm c GL) as (s & E & W & N & A). exists s.
  split; [apply (gdecode_gencode fstr fparse name_of_id Hf)|auto].
Qed.
