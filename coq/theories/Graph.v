(* Graph.v — the attack-graph object world as coded in
   maltoolbox/attackgraph/{attackgraph,node,attacker}.py (after the fix: commits recorded in
   known_findings.jsonl): node and attacker objects live in a heap indexed by allocation order,
   a graph is the record of lists / dictionaries / counters the AttackGraph class keeps.
   Only definitions here (so the model still runs when a proof breaks); proofs are in GraphInv.v. *)
From MT Require Import Prelude.

Record node := mkNode {
  n_type : string; n_name : string; n_id : option Z; n_asset : option string;
  n_children : list nat; n_parents : list nat; n_comp : list nat;
  n_def : option Z;            (* defense_status * 1024 *)
  n_exist : option bool; n_viable : bool; n_necessary : bool;
  n_mitre : option string; n_ttc : jv; n_tags : list string; n_extras : jv }.

Record attacker := mkAtt { a_name : string; a_id : option Z; a_entry : list nat; a_reached : list nat }.

Record graph := mkGraph {
  g_nodes : list nat; g_atts : list nat;
  g_id2node : list (Z * nat); g_name2node : list (string * nat); g_id2att : list (Z * nat);
  g_next_node : Z; g_next_att : Z }.

Definition nheap := nat -> node.
Definition aheap := nat -> attacker.
Record st := mkSt { s_nh : nheap; s_ah : aheap; s_nn : nat; s_na : nat; s_g : graph }.

Definition dummy_node : node :=
  mkNode "" "" None None [] [] [] None None true true None JNull [] (JDict []).
Definition dummy_att : attacker := mkAtt "" None [] [].
Definition empty_graph : graph := mkGraph [] [] [] [] [] 0 0.
Definition init : st := mkSt (fun _ => dummy_node) (fun _ => dummy_att) 0 0 empty_graph.

(* ---- field setters ---- *)
Definition set_id (n : node) (i : option Z) : node :=
  mkNode (n_type n) (n_name n) i (n_asset n) (n_children n) (n_parents n) (n_comp n) (n_def n)
         (n_exist n) (n_viable n) (n_necessary n) (n_mitre n) (n_ttc n) (n_tags n) (n_extras n).
Definition set_children (n : node) (l : list nat) : node :=
  mkNode (n_type n) (n_name n) (n_id n) (n_asset n) l (n_parents n) (n_comp n) (n_def n)
         (n_exist n) (n_viable n) (n_necessary n) (n_mitre n) (n_ttc n) (n_tags n) (n_extras n).
Definition set_parents (n : node) (l : list nat) : node :=
  mkNode (n_type n) (n_name n) (n_id n) (n_asset n) (n_children n) l (n_comp n) (n_def n)
         (n_exist n) (n_viable n) (n_necessary n) (n_mitre n) (n_ttc n) (n_tags n) (n_extras n).
Definition set_comp (n : node) (l : list nat) : node :=
  mkNode (n_type n) (n_name n) (n_id n) (n_asset n) (n_children n) (n_parents n) l (n_def n)
         (n_exist n) (n_viable n) (n_necessary n) (n_mitre n) (n_ttc n) (n_tags n) (n_extras n).
Definition set_viable (n : node) (b : bool) : node :=
  mkNode (n_type n) (n_name n) (n_id n) (n_asset n) (n_children n) (n_parents n) (n_comp n) (n_def n)
         (n_exist n) b (n_necessary n) (n_mitre n) (n_ttc n) (n_tags n) (n_extras n).
Definition set_necessary (n : node) (b : bool) : node :=
  mkNode (n_type n) (n_name n) (n_id n) (n_asset n) (n_children n) (n_parents n) (n_comp n) (n_def n)
         (n_exist n) (n_viable n) b (n_mitre n) (n_ttc n) (n_tags n) (n_extras n).
Definition set_ttc (n : node) (v : jv) : node :=
  mkNode (n_type n) (n_name n) (n_id n) (n_asset n) (n_children n) (n_parents n) (n_comp n) (n_def n)
         (n_exist n) (n_viable n) (n_necessary n) (n_mitre n) v (n_tags n) (n_extras n).
Definition set_tags (n : node) (v : list string) : node :=
  mkNode (n_type n) (n_name n) (n_id n) (n_asset n) (n_children n) (n_parents n) (n_comp n) (n_def n)
         (n_exist n) (n_viable n) (n_necessary n) (n_mitre n) (n_ttc n) v (n_extras n).
Definition set_extras (n : node) (v : jv) : node :=
  mkNode (n_type n) (n_name n) (n_id n) (n_asset n) (n_children n) (n_parents n) (n_comp n) (n_def n)
         (n_exist n) (n_viable n) (n_necessary n) (n_mitre n) (n_ttc n) (n_tags n) v.

Definition set_a_id (a : attacker) (i : option Z) : attacker := mkAtt (a_name a) i (a_entry a) (a_reached a).
Definition set_entry (a : attacker) (l : list nat) : attacker := mkAtt (a_name a) (a_id a) l (a_reached a).
Definition set_reached (a : attacker) (l : list nat) : attacker := mkAtt (a_name a) (a_id a) (a_entry a) l.

Definition updn (h : nheap) (o : nat) (f : node -> node) : nheap :=
  fun x => if Nat.eqb x o then f (h x) else h x.
Definition upda (h : aheap) (o : nat) (f : attacker -> attacker) : aheap :=
  fun x => if Nat.eqb x o then f (h x) else h x.

(* AttackGraphNode.full_name *)
Definition full_name (n : node) : string :=
  match n_asset n with
  | Some a => a ++ ":" ++ n_name n
  | None => string_of_optZ (n_id n) ++ ":" ++ n_name n
  end.

(* ---- outcomes ---- *)
Inductive outcome := Ok | RValueError | RGraphException | RLookupError | RKeyError | RBadOp | ROutOfFuel.
Definition outcome_eqb (a b : outcome) : bool :=
  match a, b with
  | Ok, Ok | RValueError, RValueError | RGraphException, RGraphException | RLookupError, RLookupError
  | RKeyError, RKeyError | RBadOp, RBadOp | ROutOfFuel, ROutOfFuel => true
  | _, _ => false
  end.

(* ---- Attacker.compromise / undo_compromise (either entry point delegates to these) ---- *)
Definition compromise (nh : nheap) (ah : aheap) (a o : nat) : nheap * aheap :=
  if memn a (n_comp (nh o)) then (nh, ah)
  else (updn nh o (fun n => set_comp n (n_comp n ++ [a])),
        upda ah a (fun x => set_reached x (a_reached x ++ [o]))).
Definition undo_compromise (nh : nheap) (ah : aheap) (a o : nat) : nheap * aheap :=
  if memn a (n_comp (nh o)) then
    (updn nh o (fun n => set_comp n (remove1 a (n_comp n))),
     upda ah a (fun x => set_reached x (remove1 o (a_reached x))))
  else (nh, ah).

(* ---- graph record setters ---- *)
Definition g_set_nodes (g : graph) l := mkGraph l (g_atts g) (g_id2node g) (g_name2node g) (g_id2att g) (g_next_node g) (g_next_att g).
Definition g_set_atts (g : graph) l := mkGraph (g_nodes g) l (g_id2node g) (g_name2node g) (g_id2att g) (g_next_node g) (g_next_att g).

(* ---- AttackGraph.add_node ---- *)
Definition add_node (s : st) (o : nat) (idopt : option Z) : st * outcome :=
  let g := s_g s in
  let n := s_nh s o in
  let used (i : option Z) := match i with Some i => dhas Z.eqb (g_id2node g) i | None => false end in
  if used (n_id n) || used idopt then (s, RValueError)
  else
    let i := match idopt with Some i => i | None => g_next_node g end in
    let nh := updn (s_nh s) o (fun n => set_id n (Some i)) in
    let g' := mkGraph (g_nodes g ++ [o]) (g_atts g)
                      (dset Z.eqb (g_id2node g) i o)
                      (dset seqb (g_name2node g) (full_name (nh o)) o)
                      (g_id2att g) (Z.max (i + 1) (g_next_node g)) (g_next_att g) in
    (mkSt nh (s_ah s) (s_nn s) (s_na s) g', Ok).

(* ---- AttackGraph.remove_node (with the detachment from attackers) ---- *)
Definition remove_node (s : st) (o : nat) : st * outcome :=
  let g := s_g s in
  let n := s_nh s o in
  (* for child in node.children: child.parents.remove(node) *)
  let nh1 := fold_left (fun h c => updn h c (fun m => set_parents m (remove1 o (n_parents m)))) (n_children n) (s_nh s) in
  (* for parent in node.parents: parent.children.remove(node)   -- node.parents is read afresh *)
  let nh2 := fold_left (fun h p => updn h p (fun m => set_children m (remove1 o (n_children m)))) (n_parents (nh1 o)) nh1 in
  (* for attacker in list(node.compromised_by): attacker.undo_compromise(node) *)
  let '(nh3, ah3) := fold_left (fun '(h, ah) a => undo_compromise h ah a o) (n_comp (nh2 o)) (nh2, s_ah s) in
  (* for attacker in self.attackers: drop the node from the entry points *)
  let ah4 := fold_left (fun ah a => upda ah a (fun x => set_entry x (remove_all o (a_entry x)))) (g_atts g) ah3 in
  match n_id (nh3 o) with
  | None => (mkSt nh3 ah4 (s_nn s) (s_na s) (g_set_nodes g (remove1 o (g_nodes g))), RValueError)
  | Some i =>
    let g' := mkGraph (remove1 o (g_nodes g)) (g_atts g)
                      (ddel Z.eqb (g_id2node g) i)
                      (ddel seqb (g_name2node g) (full_name (nh3 o)))
                      (g_id2att g) (g_next_node g) (g_next_att g) in
    (mkSt nh3 ah4 (s_nn s) (s_na s) g', Ok)
  end.

(* ---- AttackGraph.add_attacker ---- *)
Fixpoint reach_ids (g : graph) (nh : nheap) (ah : aheap) (a : nat) (ids : list Z) : nheap * aheap * bool :=
  match ids with
  | [] => (nh, ah, true)
  | i :: r => match dget Z.eqb (g_id2node g) i with
              | Some o => let '(nh', ah') := compromise nh ah a o in reach_ids g nh' ah' a r
              | None => (nh, ah, false)
              end
  end.
Fixpoint entry_ids (g : graph) (ah : aheap) (a : nat) (ids : list Z) : aheap * bool :=
  match ids with
  | [] => (ah, true)
  | i :: r => match dget Z.eqb (g_id2node g) i with
              | Some o => entry_ids g (upda ah a (fun x => set_entry x (a_entry x ++ [o]))) a r
              | None => (ah, false)
              end
  end.
Definition add_attacker (s : st) (a : nat) (idopt : option Z) (reached entry : list Z) : st * outcome :=
  let g := s_g s in
  let i := match idopt with Some i => i | None => g_next_att g end in
  let ah0 := upda (s_ah s) a (fun x => set_a_id x (Some i)) in
  if dhas Z.eqb (g_id2att g) i then (mkSt (s_nh s) ah0 (s_nn s) (s_na s) g, RValueError)
  else
    let g1 := mkGraph (g_nodes g) (g_atts g) (g_id2node g) (g_name2node g) (g_id2att g)
                      (g_next_node g) (Z.max (i + 1) (g_next_att g)) in
    let '(nh1, ah1, ok1) := reach_ids g1 (s_nh s) ah0 a reached in
    if negb ok1 then (mkSt nh1 ah1 (s_nn s) (s_na s) g1, RGraphException)
    else
      let '(ah2, ok2) := entry_ids g1 ah1 a entry in
      if negb ok2 then (mkSt nh1 ah2 (s_nn s) (s_na s) g1, RGraphException)
      else
        let g2 := mkGraph (g_nodes g1) (g_atts g1 ++ [a]) (g_id2node g1) (g_name2node g1)
                          (dset Z.eqb (g_id2att g1) i a) (g_next_node g1) (g_next_att g1) in
        (mkSt nh1 ah2 (s_nn s) (s_na s) g2, Ok).

(* ---- AttackGraph.remove_attacker ---- *)
Definition remove_attacker (s : st) (a : nat) : st * outcome :=
  let g := s_g s in
  let '(nh1, ah1) := fold_left (fun '(h, ah) o => undo_compromise h ah a o) (a_reached (s_ah s a)) (s_nh s, s_ah s) in
  match a_id (ah1 a) with
  | None => (mkSt nh1 ah1 (s_nn s) (s_na s) (g_set_atts g (remove1 a (g_atts g))), RValueError)
  | Some i =>
    let g' := mkGraph (g_nodes g) (remove1 a (g_atts g)) (g_id2node g) (g_name2node g)
                      (ddel Z.eqb (g_id2att g) i) (g_next_node g) (g_next_att g) in
    (mkSt nh1 ah1 (s_nn s) (s_na s) g', Ok)
  end.

(* ---- AttackGraph.attach_attackers, the model's attackers abstracted to (name, entry-point full names) ---- *)
Fixpoint attach_entries (g : graph) (nh : nheap) (ah : aheap) (a : nat) (names : list string) : nheap * aheap :=
  match names with
  | [] => (nh, ah)
  | fn :: r => match dget seqb (g_name2node g) fn with
               | Some o => let '(nh', ah') := compromise nh ah a o in attach_entries g nh' ah' a r
               | None => attach_entries g nh ah a r
               end
  end.
Definition attach_one (s : st) (name : string) (eps : list string) : st * outcome :=
  let a := s_na s in
  let s0 := mkSt (s_nh s) (upda (s_ah s) a (fun _ => mkAtt name None [] [])) (s_nn s) (S (s_na s)) (s_g s) in
  let '(s1, oc) := add_attacker s0 a None [] [] in
  match oc with
  | Ok =>
    let '(nh2, ah2) := attach_entries (s_g s1) (s_nh s1) (s_ah s1) a eps in
    let ah3 := upda ah2 a (fun x => set_entry x (a_reached x)) in
    (mkSt nh2 ah3 (s_nn s1) (s_na s1) (s_g s1), Ok)
  | _ => (s1, oc)
  end.
Fixpoint attach_attackers (s : st) (infos : list (string * list string)) : st * outcome :=
  match infos with
  | [] => (s, Ok)
  | (name, eps) :: r =>
    if seqb name "" then (s, RGraphException)
    else
      let '(s1, oc) := attach_one s name eps in
      match oc with
      | Ok => attach_attackers s1 r
      | _ => (s1, oc)
      end
  end.

(* ---- direct user-level structure edits the class does not wrap ---- *)
Definition link (s : st) (p c : nat) : st :=
  let nh1 := updn (s_nh s) p (fun n => set_children n (n_children n ++ [c])) in
  let nh2 := updn nh1 c (fun n => set_parents n (n_parents n ++ [p])) in
  mkSt nh2 (s_ah s) (s_nn s) (s_na s) (s_g s).
Definition new_node (s : st) (n : node) : st :=
  mkSt (updn (s_nh s) (s_nn s) (fun _ => n)) (s_ah s) (S (s_nn s)) (s_na s) (s_g s).
Definition new_att (s : st) (name : string) : st :=
  mkSt (s_nh s) (upda (s_ah s) (s_na s) (fun _ => mkAtt name None [] [])) (s_nn s) (S (s_na s)) (s_g s).

(* ---- lookups ---- *)
Definition get_node_by_id (g : graph) (i : Z) : option nat := dget Z.eqb (g_id2node g) i.
Definition get_node_by_full_name (g : graph) (fn : string) : option nat := dget seqb (g_name2node g) fn.
Definition get_attacker_by_id (g : graph) (i : Z) : option nat := dget Z.eqb (g_id2att g) i.
