(* LangGraphThm.v — static typing of step expressions is sound for the relational denotation: on a valid model,
   everything an expression reaches from an asset of (a subtype of) the static start type is of (a subtype of) the
   static result type. Hence every attack-graph edge is predicted by a language-graph link (C15). *)
From MT Require Import Prelude Lang LangThm SubThm Eval EvalThm LangGraph Gen.
From Coq Require Import Relations.

(* ---- boolean premises, evaluated by the correspondence check on every generated case ---- *)
Fixpoint snodupb (l : list string) : bool :=
  match l with [] => true | x :: r => negb (existsb (seqb x) r) && snodupb r end.
Lemma snodupb_NoDup l : snodupb l = true -> NoDup l.
Proof.
  induction l as [|x r IH]; cbn; [constructor|]. intros H. apply andb_true_iff in H. destruct H as [H1 H2].
  constructor; auto. intros Hin. apply negb_true_iff in H1.
  assert (existsb (seqb x) r = true); [|congruence]. apply existsb_exists. exists x. split; auto. apply seqb_spec; auto.
Qed.
Definition end_fields (created : list assocdecl) : list string := flat_map (fun c => [ac_lfield c; ac_rfield c]) created.
Definition fields_uniqueb (created : list assocdecl) : bool := snodupb (end_fields created).

Definition all_vars (L : lang) : list string := map fst (flat_map ad_vars (l_assets L)).
Definition vres_eqb (a b : vres) : bool :=
  match a, b with VOk x, VOk y => sexpr_eqb x y | VFail, VFail => true | VFuel, VFuel => true | _, _ => false end.
Definition no_shadowb (L : lang) : bool :=
  forallb (fun T => forallb (fun t' =>
     if is_subasset_of L t' T then
       forallb (fun v => match lookup_var (lang_fuel L) L T v with
                         | VOk e => vres_eqb (lookup_var (lang_fuel L) L t' v) (VOk e)
                         | _ => true
                         end) (all_vars L)
     else true) (asset_names L)) (asset_names L).

Definition members_typed (L : lang) (M : imodel) (ids : list Z) (t : string) : bool :=
  forallb (fun x => match itype M x with Some tx => is_subasset_of L tx t | None => false end) ids.
Definition valid_viewb (L : lang) (created : list assocdecl) (M : imodel) : bool :=
  forallb (fun ic => existsb (fun c => seqb (ac_lfield c) (ic_lfield ic) && seqb (ac_rfield c) (ic_rfield ic)
                                       && members_typed L M (ic_left ic) (ac_lasset c)
                                       && members_typed L M (ic_right ic) (ac_rasset c)) created) (im_assocs M)
  && forallb (fun a => has_asset L (ia_type a)) (im_assets M).

Section Soundness.
Variable L : lang.
Variable created : list assocdecl.
Variable M : imodel.
Hypothesis Hwf : wf_inherit L = true.
Hypothesis Hfields : fields_uniqueb created = true.
Hypothesis Hshadow : no_shadowb L = true.
Hypothesis Hvalid : valid_viewb L created M = true.

Notation "t <=: u" := (is_subasset_of L t u = true) (at level 70).

Lemma field_unique c1 c2 f : In c1 created -> In c2 created ->
  In f [ac_lfield c1; ac_rfield c1] -> In f [ac_lfield c2; ac_rfield c2] ->
  c1 = c2 /\ ac_lfield c1 <> ac_rfield c1.
Proof.
  pose proof (snodupb_NoDup _ Hfields) as N. unfold end_fields in N. clear Hfields Hvalid.
  induction created as [|c r IH]; [intros []|]. cbn [flat_map] in N.
  assert (Nc : NoDup [ac_lfield c; ac_rfield c] /\ NoDup (flat_map (fun c => [ac_lfield c; ac_rfield c]) r) /\
               forall x, In x [ac_lfield c; ac_rfield c] -> ~ In x (flat_map (fun c => [ac_lfield c; ac_rfield c]) r)).
  { revert N. generalize (flat_map (fun c => [ac_lfield c; ac_rfield c]) r) as tl. intros tl N.
    inversion N as [|? ? N1 N2]; subst. inversion N2 as [|? ? N3 N4]; subst.
    split; [|split; [exact N4|]].
    - constructor; [|constructor; [intros []|constructor]]. intros [E|[]]. apply N1. left. auto.
    - intros x [<-|[<-|[]]] Hx; [apply N1; right; auto | apply N3; auto]. }
  destruct Nc as (N0 & Nr & Nd).
  assert (Hlr : ac_lfield c <> ac_rfield c).
  { inversion N0 as [|? ? A B]; subst. intros E. apply A. left. auto. }
  intros [<-|H1] [<-|H2] F1 F2.
  - auto.
  - exfalso. apply (Nd f F1). apply in_flat_map. exists c2. auto.
  - exfalso. apply (Nd f F2). apply in_flat_map. exists c1. auto.
  - apply IH; auto.
Qed.

Lemma field_target_spec T f U : field_target L created T f = Some U ->
  exists c, In c created /\
    ((ac_rfield c = f /\ T <=: ac_lasset c /\ U = ac_rasset c) \/ (ac_lfield c = f /\ T <=: ac_rasset c /\ U = ac_lasset c)).
Proof.
  unfold field_target, asset_assocs.
  assert (G : forall l, (forall c, In c l -> In c created) ->
     (fix go (l : list assocdecl) : option string :=
        match l with
        | [] => None
        | c :: r =>
          let t1 := if seqb (ac_lfield c) f && is_subasset_of L T (ac_rasset c) then Some (ac_lasset c) else None in
          let t2 := if seqb (ac_rfield c) f && is_subasset_of L T (ac_lasset c) then Some (ac_rasset c) else t1 in
          match t2 with Some u => Some u | None => go r end
        end) l = Some U ->
     exists c, In c created /\
       ((ac_rfield c = f /\ T <=: ac_lasset c /\ U = ac_rasset c) \/ (ac_lfield c = f /\ T <=: ac_rasset c /\ U = ac_lasset c))).
  { induction l as [|c r IH]; intros Hl H; [discriminate|]. cbv zeta in H.
    destruct (seqb (ac_rfield c) f && is_subasset_of L T (ac_lasset c)) eqn:E2.
    - inversion H; subst. apply andb_true_iff in E2. destruct E2 as [E2a E2b]. apply seqb_spec in E2a.
      exists c. split; [apply Hl; left; auto|]. left. auto.
    - destruct (seqb (ac_lfield c) f && is_subasset_of L T (ac_rasset c)) eqn:E1.
      + inversion H; subst. apply andb_true_iff in E1. destruct E1 as [E1a E1b]. apply seqb_spec in E1a.
        exists c. split; [apply Hl; left; auto|]. right. auto.
      + apply IH; auto. intros c' Hc'. apply Hl. right; auto. }
  apply G. intros c Hc. apply filter_In in Hc. tauto.
Qed.

Lemma valid_nbrs x tx f y : itype M x = Some tx -> In y (nbrs M x f) ->
  exists c ty, In c created /\ itype M y = Some ty /\
    ((ac_rfield c = f /\ tx <=: ac_lasset c /\ ty <=: ac_rasset c) \/ (ac_lfield c = f /\ tx <=: ac_rasset c /\ ty <=: ac_lasset c)).
Proof.
  intros Hx Hy. unfold nbrs in Hy. destruct (find_iasset M x) as [a|]; [|destruct Hy].
  apply in_flat_map in Hy. destruct Hy as (i & _ & Hy).
  destruct (nth_error (im_assocs M) i) as [ic|] eqn:Ei; [|destruct Hy].
  apply nth_error_In in Ei. unfold valid_viewb in Hvalid. apply andb_true_iff in Hvalid. destruct Hvalid as [Hv _].
  rewrite forallb_forall in Hv. specialize (Hv ic Ei). apply existsb_exists in Hv. destruct Hv as (c & Hc & Hm).
  repeat (apply andb_true_iff in Hm; destruct Hm as [Hm ?]). apply seqb_spec in Hm. apply seqb_spec in H1.
  unfold members_typed in H, H0. rewrite forallb_forall in H, H0.
  assert (TY : forall ids t z, (forall x0, In x0 ids -> match itype M x0 with Some tx0 => is_subasset_of L tx0 t | None => false end = true) ->
                 In z ids -> exists tz, itype M z = Some tz /\ tz <=: t).
  { intros ids t z Hall Hz. specialize (Hall z Hz). destruct (itype M z) as [tz|]; [eauto|discriminate]. }
  unfold nbrs_via in Hy. apply in_app_or in Hy. destruct Hy as [Hy|Hy].
  - destruct (seqb (ic_rfield ic) f && memz x (ic_left ic)) eqn:E; [|destruct Hy].
    apply andb_true_iff in E. destruct E as [E1 E2]. apply seqb_spec in E1. apply memz_In in E2.
    destruct (TY _ _ _ H0 E2) as (tx' & Ex' & Sx). destruct (TY _ _ _ H Hy) as (ty & Ey & Sy).
    exists c, ty. split; auto. split; auto. left. rewrite Hx in Ex'. inversion Ex'; subst. split; [congruence|auto].
  - destruct (seqb (ic_lfield ic) f && memz x (ic_right ic)) eqn:E; [|destruct Hy].
    apply andb_true_iff in E. destruct E as [E1 E2]. apply seqb_spec in E1. apply memz_In in E2.
    destruct (TY _ _ _ H E2) as (tx' & Ex' & Sx). destruct (TY _ _ _ H0 Hy) as (ty & Ey & Sy).
    exists c, ty. split; auto. split; auto. right. rewrite Hx in Ex'. inversion Ex'; subst. split; [congruence|auto].
Qed.

Lemma itype_has_asset x tx : itype M x = Some tx -> has_asset L tx = true.
Proof.
  unfold itype. destruct (find_iasset M x) as [a|] eqn:E; [|discriminate]. cbn. intros H; inversion H; subst.
  unfold find_iasset in E. apply find_some in E. destruct E as [E _].
  unfold valid_viewb in Hvalid. apply andb_true_iff in Hvalid. destruct Hvalid as [_ Hv].
  rewrite forallb_forall in Hv. auto.
Qed.


Lemma lca_up_spec : forall fuel a b U, lca_up L fuel a b = Some U -> a <=: U /\ b <=: U.
Proof.
  induction fuel as [|f IH]; intros a b U H; [discriminate|]. cbn [lca_up] in H.
  destruct (is_subasset_of L b a) eqn:E.
  - inversion H; subst. split; [apply sub_refl | auto].
  - unfold super_assets in H. destruct (find_asset L a) as [d|] eqn:Ea; [|discriminate].
    destruct (ad_super d) as [s|] eqn:Es; [|discriminate]. destruct (IH _ _ _ H) as [H1 H2]. split; auto.
    apply (sub_trans L Hwf a s U); auto.
    apply (subasset_closure L Hwf). apply rt_step. exists d. auto.
Qed.

Lemma no_shadow T t' v e : lookup_var (lang_fuel L) L T v = VOk e -> t' <=: T -> has_asset L t' = true ->
  lookup_var (lang_fuel L) L t' v = VOk e.
Proof.
  intros Hl Hs Ht'. unfold no_shadowb in Hshadow. rewrite forallb_forall in Hshadow.
  assert (HT : In T (asset_names L)).
  { unfold lang_fuel in Hl. cbn in Hl. destruct (find_asset L T) as [a|] eqn:Ea; [|discriminate].
    destruct (find_asset_In _ _ _ Ea) as [Hin <-]. apply in_map. auto. }
  assert (Ht : In t' (asset_names L)).
  { unfold has_asset in Ht'. apply existsb_exists in Ht'. destruct Ht' as (x & Hx & E). apply seqb_spec in E. subst. auto. }
  specialize (Hshadow T HT). rewrite forallb_forall in Hshadow. specialize (Hshadow t' Ht). rewrite Hs in Hshadow.
  rewrite forallb_forall in Hshadow.
  assert (Hv : In v (all_vars L)).
  { (* the variable is declared somewhere, since its lookup succeeded *)
    clear -Hl. revert T Hl. generalize (lang_fuel L). induction n as [|n IH]; intros T Hl; [discriminate|]. cbn in Hl.
    destruct (find_asset L T) as [a|] eqn:Ea; [|discriminate].
    destruct (dget seqb (ad_vars a) v) as [e0|] eqn:Ed.
    - unfold all_vars. apply in_map_iff. destruct (find_asset_In _ _ _ Ea) as [Hin _].
      assert (G : forall l, dget seqb l v = Some e0 -> In (v, e0) l).
      { induction l as [|[k x] r IHl]; cbn; [discriminate|]. destruct (seqb v k) eqn:E.
        - apply seqb_spec in E. subst. intros H; inversion H; auto.
        - intros H. right. auto. }
      exists (v, e0). split; auto. apply in_flat_map. exists a. split; auto.
    - destruct (ad_super a) as [s|]; [|discriminate]. eapply IH; eauto. }
  specialize (Hshadow v Hv). rewrite Hl in Hshadow.
  destruct (lookup_var (lang_fuel L) L t' v) as [e2| |]; cbn in Hshadow; try discriminate.
  apply sexpr_eqb_spec in Hshadow. subst. reflexivity.
Qed.

(* transitive sub-expressions are endo-typed (what malc requires of `e*`) *)
Fixpoint tok (n : nat) (t : option string) (e : sexpr) {struct n} : bool :=
  match n with
  | O => false
  | S n' =>
    match e with
    | SStep _ | SField _ => true
    | SVar v => match t with
                | Some tn => match lookup_var (lang_fuel L) L tn v with VOk e' => tok n' t e' | _ => true end
                | None => true
                end
    | SCollect l r => tok n' t l && match styp L created n' t l with TOk u _ => tok n' u r | TErr _ => true end
    | SUnion l r | SInter l r | SDiff l r => tok n' t l && tok n' t r
    | STrans e' =>
        tok n' t e' &&
        match styp L created n' t e' with
        | TOk (Some u) _ => tok n' (Some u) e' &&
                            match styp L created n' (Some u) e' with
                            | TOk (Some u') _ => is_subasset_of L u' u
                            | _ => false
                            end
        | _ => true
        end
    | SSub _ e' => tok n' t e'
    end
  end.

Definition typed_le (y : Z) (U : string) : Prop := exists ty, itype M y = Some ty /\ ty <=: U.

Lemma den_var_S m v x y : den L M (S m) (SVar v) x y =
  match itype M x with
  | Some tx => match lookup_var (lang_fuel L) L tx v with VOk e' => den L M m e' x y | _ => False end
  | None => False
  end.
Proof. reflexivity. Qed.
Lemma den_var_0 v x y : den L M 0 (SVar v) x y = False.
Proof. reflexivity. Qed.

Lemma styp_none : forall n e U sn, styp L created n None e <> TOk (Some U) sn.
Proof.
  induction n as [|n IH]; intros e U sn H; [discriminate|].
  destruct e as [s|f|v|l r|l r|l r|l r|e'|sub e']; cbn [styp] in H; try discriminate.
  - destruct (styp L created n None l) as [[u1|] s1|] eqn:El; try discriminate.
    + eapply IH; eauto.
    + eapply IH; eauto.
  - destruct (styp L created n None l) as [[a|] s1|] eqn:El; try discriminate; try (eapply IH; eauto; fail);
      destruct (styp L created n None r) as [[b|] s2|] eqn:Er; try discriminate; eapply IH; eauto.
  - destruct (styp L created n None l) as [[a|] s1|] eqn:El; try discriminate; try (eapply IH; eauto; fail);
      destruct (styp L created n None r) as [[b|] s2|] eqn:Er; try discriminate; eapply IH; eauto.
  - destruct (styp L created n None l) as [[a|] s1|] eqn:El; try discriminate; try (eapply IH; eauto; fail);
      destruct (styp L created n None r) as [[b|] s2|] eqn:Er; try discriminate; eapply IH; eauto.
  - eapply IH; eauto.
  - destruct (styp L created n None e') as [[u|] s1|] eqn:El; try discriminate.
    + eapply IH; eauto.
    + destruct (negb (has_asset L sub)); discriminate.
Qed.

Theorem styp_sound : forall n m e T U sn x y,
  styp L created n (Some T) e = TOk (Some U) sn -> tok n (Some T) e = true ->
  typed_le x T -> den L M m e x y -> typed_le y U.
Proof.
  induction n as [|n IH]; intros m e T U sn x y Hs Ht Hx Hd; [discriminate|].
  destruct e as [s|f|v|l r|l r|l r|l r|e'|sub e']; cbn [styp] in Hs; cbn [tok] in Ht.
  - (* SStep *) inversion Hs; subst. destruct m; cbn in Hd; subst; auto.
  - (* SField *)
    destruct (field_target L created T f) as [u|] eqn:Ef; inversion Hs; subst.
    assert (Hd' : In y (nbrs M x f)) by (destruct m; exact Hd).
    destruct Hx as (tx & Etx & Stx).
    destruct (valid_nbrs _ _ _ _ Etx Hd') as (c' & ty & Hc' & Ety & Hside).
    destruct (field_target_spec _ _ _ Ef) as (c & Hc & Hside2).
    exists ty. split; auto.
    destruct Hside as [(F1 & S1 & S2)|(F1 & S1 & S2)], Hside2 as [(G1 & G2 & G3)|(G1 & G2 & G3)].
    + destruct (field_unique c' c f Hc' Hc) as [-> _]; [right; left; auto | right; left; auto|]. subst. auto.
    + exfalso. destruct (field_unique c' c f Hc' Hc) as [-> N]; [right; left; auto | left; auto|]. congruence.
    + exfalso. destruct (field_unique c' c f Hc' Hc) as [-> N]; [left; auto | right; left; auto|]. congruence.
    + destruct (field_unique c' c f Hc' Hc) as [-> _]; [left; auto | left; auto|]. subst. auto.
  - (* SVar *)
    destruct (lookup_var (lang_fuel L) L T v) as [e'| |] eqn:El; try discriminate.
    destruct m as [|m']; [rewrite den_var_0 in Hd; destruct Hd|]. rewrite den_var_S in Hd.
    destruct Hx as (tx & Etx & Stx). rewrite Etx in Hd.
    rewrite (no_shadow T tx v e' El Stx (itype_has_asset _ _ Etx)) in Hd.
    eapply (IH m' e' T U sn x y); eauto. exists tx. auto.
  - (* SCollect *)
    apply andb_true_iff in Ht. destruct Ht as [Ht1 Ht2].
    destruct (styp L created n (Some T) l) as [u1 s1|] eqn:El; [|discriminate].
    assert (Hd' : exists z, den L M m l x z /\ den L M m r z y) by (destruct m; exact Hd).
    destruct Hd' as (z & D1 & D2).
    destruct u1 as [U1|].
    + eapply (IH m r U1 U sn z y); eauto; eapply (IH m l T U1 s1 x z); eauto.
    + exfalso. eapply styp_none; eauto.
  - (* SUnion *)
    apply andb_true_iff in Ht. destruct Ht as [Ht1 Ht2].
    destruct (styp L created n (Some T) l) as [[a|] s1|] eqn:El; try discriminate;
      destruct (styp L created n (Some T) r) as [[b|] s2|] eqn:Er; try discriminate.
    destruct (common_super L a b); [|discriminate].
    assert (Hl : lca_up L (lang_fuel L) a b = Some U) by congruence.
    destruct (lca_up_spec _ _ _ _ Hl) as [La Lb].
    assert (Hd' : den L M m l x y \/ den L M m r x y) by (destruct m; exact Hd).
    destruct Hd' as [D|D].
    + destruct (IH m l T a s1 x y El Ht1 Hx D) as (ty & E1 & E2). exists ty. split; auto. eapply (sub_trans L Hwf); eauto.
    + destruct (IH m r T b s2 x y Er Ht2 Hx D) as (ty & E1 & E2). exists ty. split; auto. eapply (sub_trans L Hwf); eauto.
  - (* SInter *)
    apply andb_true_iff in Ht. destruct Ht as [Ht1 Ht2].
    destruct (styp L created n (Some T) l) as [[a|] s1|] eqn:El; try discriminate;
      destruct (styp L created n (Some T) r) as [[b|] s2|] eqn:Er; try discriminate.
    destruct (common_super L a b); [|discriminate]. inversion Hs; subst.
    assert (Hd' : den L M m l x y /\ den L M m r x y) by (destruct m; exact Hd).
    eapply (IH m l T U s1 x y); eauto. tauto.
  - (* SDiff *)
    apply andb_true_iff in Ht. destruct Ht as [Ht1 Ht2].
    destruct (styp L created n (Some T) l) as [[a|] s1|] eqn:El; try discriminate;
      destruct (styp L created n (Some T) r) as [[b|] s2|] eqn:Er; try discriminate.
    destruct (common_super L a b); [|discriminate]. inversion Hs; subst.
    assert (Hd' : den L M m l x y /\ ~ den L M m r x y) by (destruct m; exact Hd).
    eapply (IH m l T U s1 x y); eauto. tauto.
  - (* STrans *)
    apply andb_true_iff in Ht. destruct Ht as [Ht1 Ht2]. rewrite Hs in Ht2.
    apply andb_true_iff in Ht2. destruct Ht2 as [Ht2 Ht3].
    destruct (styp L created n (Some U) e') as [[U'|] s2|] eqn:E2; try discriminate.
    assert (Hd' : clos_trans Z (den L M m e') x y) by (destruct m; exact Hd).
    apply clos_trans_t1n in Hd'.
    assert (G : forall a b, clos_trans_1n Z (den L M m e') a b -> typed_le a U -> typed_le b U).
    { intros a b Hab. induction Hab as [a b D|a b c D Hbc IHc]; intros Ha.
      - destruct (IH m e' U U' s2 a b E2 Ht2 Ha D) as (tb & E & S). exists tb. split; auto. eapply (sub_trans L Hwf); eauto.
      - apply IHc. destruct (IH m e' U U' s2 a b E2 Ht2 Ha D) as (tb & E & S). exists tb. split; auto. eapply (sub_trans L Hwf); eauto. }
    destruct Hd' as [y0 D|z y0 D Hrest].
    + eapply (IH m e' T U sn x y0); eauto.
    + apply (G z y0 Hrest). eapply (IH m e' T U sn x z); eauto.
  - (* SSub *)
    destruct (styp L created n (Some T) e') as [[u|] s1|] eqn:El; try discriminate;
      destruct (negb (has_asset L sub)); try discriminate.
    destruct (is_subasset_of L sub u); inversion Hs; subst.
    assert (Hd' : den L M m e' x y /\ sub_ok L M y U) by (destruct m; exact Hd).
    destruct Hd' as [_ (ty & E & S)]. exists ty. auto.
Qed.
End Soundness.

(* ---- every resolved reaches expression of every asset type has produced a link ---- *)
Section Links.
Variable L : lang.
Variable created : list assocdecl.

Definition link_fuel (e : sexpr) : nat := styp_fuel L e * S (List.length (flat_map ad_vars (l_assets L))).

Lemma links_of_step_err t d e0 : links_of_step L created t d (LErr e0) = LErr e0.
Proof. unfold links_of_step. destruct (sd_reaches d) as [[ov es]|]; auto. induction es; cbn; auto. Qed.

Lemma links_of_step_spec t d : forall ls ls',
  links_of_step L created t d (LOk ls) = LOk ls' ->
  incl ls ls' /\
  forall ov es e, sd_reaches d = Some (ov, es) -> In e es ->
    exists U sn, styp L created (link_fuel e) (Some t) e = TOk (Some U) (Some sn) /\ In (t, sd_name d, (U, sn)) ls'.
Proof.
  unfold links_of_step. destruct (sd_reaches d) as [[ov es]|].
  2:{ intros ls ls' H; inversion H; subst. split; [apply incl_refl|]. intros; discriminate. }
  set (step := fun (acc : lres (list link)) e => lbind acc (fun ls =>
      match styp L created (styp_fuel L e * S (List.length (flat_map ad_vars (l_assets L)))) (Some t) e with
      | TErr x => LErr x
      | TOk None _ => LErr LStepExpr
      | TOk (Some u) sn =>
          match sn, steps_of L u with
          | Some sname, Some st => if dhas seqb st sname then LOk (ls ++ [(t, sd_name d, (u, sname))]) else LErr LStepExpr
          | None, Some _ => LErr LStepExpr
          | _, None => LErr LFuel
          end
      end)).
  assert (ERR : forall l e0, fold_left step l (LErr e0) = LErr e0) by (induction l; cbn; auto).
  assert (G : forall l ls ls', fold_left step l (LOk ls) = LOk ls' ->
     incl ls ls' /\ forall e, In e l -> exists U sn, styp L created (link_fuel e) (Some t) e = TOk (Some U) (Some sn) /\ In (t, sd_name d, (U, sn)) ls').
  { induction l as [|e r IH]; intros ls ls' H; cbn [fold_left] in H.
    - inversion H; subst. split; [apply incl_refl|intros ? []].
    - unfold step at 2 in H. cbn [lbind] in H. fold (link_fuel e) in H.
      destruct (styp L created (link_fuel e) (Some t) e) as [[u|] sn|x] eqn:Es; try (rewrite ERR in H; discriminate).
      destruct sn as [sname|]; [|destruct (steps_of L u); rewrite ERR in H; discriminate].
      destruct (steps_of L u) as [st|]; [|rewrite ERR in H; discriminate].
      destruct (dhas seqb st sname); [|rewrite ERR in H; discriminate].
      destruct (IH _ _ H) as [I1 I2]. split.
      + intros x Hx. apply I1. apply in_or_app. auto.
      + intros e' [<-|He'].
        * exists u, sname. split; auto. apply I1. apply in_or_app. right. left. auto.
        * apply I2; auto. }
  intros ls ls' H. destruct (G es ls ls' H) as [I1 I2]. split; auto.
  intros ov' es' e E He. inversion E; subst. auto.
Qed.

Lemma lg_links_spec ls : lg_links L created = LOk ls ->
  forall t st k d ov es e, In t (asset_names L) -> steps_of L t = Some st -> In (k, d) st ->
    sd_reaches d = Some (ov, es) -> In e es ->
    exists U sn, styp L created (link_fuel e) (Some t) e = TOk (Some U) (Some sn) /\ In (t, sd_name d, (U, sn)) ls.
Proof.
  unfold lg_links.
  set (astep := fun (acc : lres (list link)) t =>
     match steps_of L t with
     | None => LErr LFuel
     | Some st => fold_left (fun acc kv => links_of_step L created t (snd kv) acc) st acc
     end).
  assert (SERR : forall t (st : list (string * stepdecl)) e0,
            fold_left (fun acc kv => links_of_step L created t (snd kv) acc) st (LErr e0) = LErr e0).
  { induction st; cbn; auto. intros. rewrite links_of_step_err. auto. }
  assert (AERR : forall l e0, exists e1, fold_left astep l (LErr e0) = LErr e1).
  { induction l as [|t r IH]; intros e0; cbn [fold_left]; eauto.
    assert (E : exists e1, astep (LErr e0) t = LErr e1) by (unfold astep; destruct (steps_of L t); eauto; rewrite SERR; eauto).
    destruct E as (e1 & ->). apply IH. }
  assert (SG : forall t (st : list (string * stepdecl)) ls0 ls1,
     fold_left (fun acc kv => links_of_step L created t (snd kv) acc) st (LOk ls0) = LOk ls1 ->
     incl ls0 ls1 /\ forall k d ov es e, In (k, d) st -> sd_reaches d = Some (ov, es) -> In e es ->
       exists U sn, styp L created (link_fuel e) (Some t) e = TOk (Some U) (Some sn) /\ In (t, sd_name d, (U, sn)) ls1).
  { induction st as [|[k0 d0] r IH]; intros ls0 ls1 H; cbn [fold_left snd] in H.
    - inversion H; subst. split; [apply incl_refl|]. intros ? ? ? ? ? [].
    - destruct (links_of_step L created t d0 (LOk ls0)) as [lsm|x] eqn:E0; [|rewrite SERR in H; discriminate].
      destruct (links_of_step_spec t d0 _ _ E0) as [I1 I2]. destruct (IH _ _ H) as [J1 J2]. split.
      + intros x Hx. auto.
      + intros k d ov es e [E|Hin] Hr He.
        * inversion E; subst. destruct (I2 _ _ _ Hr He) as (U & sn & A & B). exists U, sn. split; auto.
        * eapply J2; eauto. }
  assert (AG : forall l ls0 ls1, fold_left astep l (LOk ls0) = LOk ls1 ->
     incl ls0 ls1 /\ forall t st k d ov es e, In t l -> steps_of L t = Some st -> In (k, d) st ->
       sd_reaches d = Some (ov, es) -> In e es ->
       exists U sn, styp L created (link_fuel e) (Some t) e = TOk (Some U) (Some sn) /\ In (t, sd_name d, (U, sn)) ls1).
  { induction l as [|t0 r IH]; intros ls0 ls1 H; cbn [fold_left] in H.
    - inversion H; subst. split; [apply incl_refl|]. intros ? ? ? ? ? ? ? [].
    - unfold astep at 2 in H. destruct (steps_of L t0) as [st0|] eqn:Es0; [|destruct (AERR r LFuel) as (e1 & E1); rewrite E1 in H; discriminate].
      destruct (fold_left (fun acc kv => links_of_step L created t0 (snd kv) acc) st0 (LOk ls0)) as [lsm|x] eqn:E0;
        [|destruct (AERR r x) as (e1 & E1); rewrite E1 in H; discriminate].
      destruct (SG _ _ _ _ E0) as [I1 I2]. destruct (IH _ _ H) as [J1 J2]. split.
      + intros x Hx. auto.
      + intros t st k d ov es e [<-|Hin] Hst Hk Hr He.
        * rewrite Es0 in Hst. inversion Hst; subst. destruct (I2 _ _ _ _ _ Hk Hr He) as (U & sn & A & B). exists U, sn. split; auto.
        * eapply J2; eauto. }
  intros H. destruct (AG _ _ _ H) as [_ G]. exact G.
Qed.

Lemma styp_last_step : forall n t e u sn s0, last_step e = Some s0 -> styp L created n t e = TOk u sn -> sn = Some s0.
Proof.
  induction n as [|n IH]; intros t e u sn s0 Hl Hs; [discriminate|].
  destruct e; cbn in Hl; try discriminate; cbn [styp] in Hs.
  - inversion Hl; inversion Hs; subst. auto.
  - destruct (styp L created n t e1) as [u1 s1|]; [|discriminate]. eapply IH; eauto.
Qed.
End Links.
