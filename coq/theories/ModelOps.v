(* ModelOps.v — operation alphabet of instance-model histories, step function, observation (C05, C07). *)
From MT Require Import Prelude Model.

Inductive mop :=
| MNewAsset (type : string) (name : option string) (defs : list (string * Z)) (extras : jv)
| MAddAsset (h : nat) (i : option Z) (allow_dup : bool)
| MRemoveAsset (h : nat)
| MNewAssoc (cls lf : string) (left : list nat) (rf : string) (right : list nat)
| MAddAssoc (c : nat)
| MRemoveAssoc (c : nat)
| MRemoveFromAssoc (h c : nat)
| MSetAssocExtras (c : nat) (v : jv)
| MNewAtt (name : option string)
| MAddAtt (t : nat) (i : option Z)
| MRemoveAtt (t : nat)
| MAddEntry (t h : nat) (step : string)
| MRemoveEntry (t h : nat) (step : string)
| MQById (i : Z)
| MQByName (n : string)
| MQAssociated (h : nat) (f : string).

Inductive mret := MRNone | MROpt (o : option nat) | MRList (l : list nat).

Definition live_asset (s : mstate) (h : nat) : bool := memn h (m_assets s).
Definition live_assoc (s : mstate) (c : nat) : bool := memn c (m_assocs s).
Definition live_att (s : mstate) (t : nat) : bool := memn t (m_attackers s).

(* the API used as intended *)
Definition mguard (s : mstate) (o : mop) : bool :=
  match o with
  | MNewAsset _ _ _ _ => true
  | MAddAsset h _ _ => Nat.ltb h (m_na s) && negb (live_asset s h)
  | MRemoveAsset h => Nat.ltb h (m_na s)
  | MNewAssoc _ _ l _ r => forallb (live_asset s) l && forallb (live_asset s) r
                           && match l, r with [], _ | _, [] => false | _, _ => true end
  | MAddAssoc c => Nat.ltb c (m_nc s) && negb (live_assoc s c)
                   && forallb (live_asset s) (mc_left (m_ch s c)) && forallb (live_asset s) (mc_right (m_ch s c))
  | MRemoveAssoc c => Nat.ltb c (m_nc s)
  | MRemoveFromAssoc h c => Nat.ltb h (m_na s) && Nat.ltb c (m_nc s)
  | MSetAssocExtras c _ => live_assoc s c
  | MNewAtt _ => true
  | MAddAtt t _ => Nat.ltb t (m_nt s) && negb (live_att s t) && forallb (fun e => live_asset s (fst e)) (mt_entry (m_th s t))
  | MRemoveAtt t => Nat.ltb t (m_nt s)
  | MAddEntry t h _ | MRemoveEntry t h _ => Nat.ltb t (m_nt s) && live_asset s h
  | MQById _ | MQByName _ => true
  | MQAssociated h _ => live_asset s h
  end.

Definition mstep (s : mstate) (o : mop) : mstate * mout * mret :=
  if negb (mguard s o) then (s, MBadOp, MRNone) else
  match o with
  | MNewAsset ty nm defs ex =>
      (mkM (upd_a (m_ah s) (m_na s) (fun _ => mkMAsset None nm ty defs ex [])) (m_ch s) (m_th s)
           (S (m_na s)) (m_nc s) (m_nt s) (m_assets s) (m_assocs s) (m_attackers s) (m_ids s) (m_names s)
           (m_type2assoc s) (m_next s), MOk, MRNone)
  | MAddAsset h i allow => let '(s', oc) := add_asset s h i allow in (s', oc, MRNone)
  | MRemoveAsset h => let '(s', oc) := remove_asset s h in (s', oc, MRNone)
  | MNewAssoc cls lf l rf r =>
      (mkM (m_ah s) (upd_c (m_ch s) (m_nc s) (fun _ => mkMAssoc cls lf l rf r JNull)) (m_th s)
           (m_na s) (S (m_nc s)) (m_nt s) (m_assets s) (m_assocs s) (m_attackers s) (m_ids s) (m_names s)
           (m_type2assoc s) (m_next s), MOk, MRNone)
  | MAddAssoc c => let '(s', oc) := add_association s c in (s', oc, MRNone)
  | MRemoveAssoc c => let '(s', oc) := remove_association s c in (s', oc, MRNone)
  | MRemoveFromAssoc h c => let '(s', oc) := remove_asset_from_association s h c in (s', oc, MRNone)
  | MSetAssocExtras c v => (with_heaps s (m_ah s) (upd_c (m_ch s) c (fun x => c_set_extras x v)) (m_th s), MOk, MRNone)
  | MNewAtt nm =>
      (mkM (m_ah s) (m_ch s) (upd_t (m_th s) (m_nt s) (fun _ => mkMAtt None nm [])) (m_na s) (m_nc s) (S (m_nt s))
           (m_assets s) (m_assocs s) (m_attackers s) (m_ids s) (m_names s) (m_type2assoc s) (m_next s), MOk, MRNone)
  | MAddAtt t i => (add_attacker s t i, MOk, MRNone)
  | MRemoveAtt t => let '(s', oc) := remove_attacker s t in (s', oc, MRNone)
  | MAddEntry t h st => (add_entry_point s t h st, MOk, MRNone)
  | MRemoveEntry t h st => (remove_entry_point s t h st, MOk, MRNone)
  | MQById i => (s, MOk, MROpt (get_asset_by_id s i))
  | MQByName n => (s, MOk, MROpt (get_asset_by_name s n))
  | MQAssociated h f => (s, MOk, MRList (associated s h f))
  end.

Definition mrun (ops : list mop) : mstate * list (mout * mret) :=
  fold_left (fun '(s, outs) o => let '(s', oc, r) := mstep s o in (s', outs ++ [(oc, r)])) ops (minit, []).
Definition mfinal (ops : list mop) : mstate := fst (mrun ops).

(* ---- observation ---- *)
Definition mout_code (o : mout) : Z :=
  match o with MOk => 0 | MValueError => 1 | MLookupError => 2 | MDuplicateAssoc => 3 | MAssocException => 4 | MBadOp => 5 end.
Definition obs_mret (r : mret) : jv :=
  match r with MRNone => JNull | MROpt o => JList [jopt jnat o] | MRList l => jnats l end.
Definition sort_zs (l : list Z) : list Z := isort Z.leb l.
Definition obs_masset (a : masset) : jv :=
  JList [jopt JInt (ma_id a); jopt JStr (ma_name a); JStr (ma_type a);
         JList (map (fun kv => JList [JStr (fst kv); JInt (snd kv)]) (ma_defs a)); ma_extras a; jnats (ma_assocs a)].
Definition obs_massoc (c : massoc) : jv :=
  JList [JStr (mc_class c); JStr (mc_lfield c); jnats (mc_left c); JStr (mc_rfield c); jnats (mc_right c); mc_extras c].
Definition obs_matt (t : mattacker) : jv :=
  JList [jopt JInt (mt_id t); jopt JStr (mt_name t);
         JList (map (fun e => JList [jnat (fst e); jstrs (snd e)]) (mt_entry t))].
Definition obs_mstate (s : mstate) : jv :=
  JList [ jnats (m_assets s); jnats (m_assocs s); jnats (m_attackers s);
          JList (map JInt (sort_zs (m_ids s))); jstrs (isort String.leb (m_names s));
          JList (map (fun kv => JList [JStr (fst kv); jnats (snd kv)]) (sort_skeys (m_type2assoc s)));
          JInt (m_next s);
          JList (map (fun h => obs_masset (m_ah s h)) (seq 0 (m_na s)));
          JList (map (fun c => obs_massoc (m_ch s c)) (seq 0 (m_nc s)));
          JList (map (fun t => obs_matt (m_th s t)) (seq 0 (m_nt s))) ].
Definition obs_mrun (ops : list mop) : jv :=
  let '(s, outs) := mrun ops in
  JList [JList (map (fun p => JList [JInt (mout_code (fst p)); obs_mret (snd p)]) outs); obs_mstate s].
Definition mguards_met (ops : list mop) : bool :=
  forallb (fun p => match fst p with MBadOp => false | _ => true end) (snd (mrun ops)).
Definition model_check (c : list mop * jv) : bool := jv_eqb (obs_mrun (fst c)) (snd c).
