(* SubThm.v — is_subasset_of is the reflexive-transitive closure of `extends` on acyclic inheritance (C15). *)
From MT Require Import Prelude Lang LangThm.
From Coq Require Import Relations.

Section Sub.
Variable L : lang.
Definition extends (t u : string) : Prop := exists a, find_asset L t = Some a /\ ad_super a = Some u.

Lemma chain_up_sound : forall fuel t u, In u (chain_up fuel L t) -> clos_refl_trans string extends t u.
Proof.
  induction fuel as [|f IH]; intros t u H; cbn in H; [destruct H|].
  destruct H as [<-|H]; [apply rt_refl|].
  destruct (find_asset L t) as [a|] eqn:Ea; [|destruct H].
  destruct (ad_super a) as [s|] eqn:Es; [|destruct H].
  eapply rt_trans; [apply rt_step; exists a; eauto | apply IH; auto].
Qed.

Lemma chain_up_complete : forall fuel t u, chain_ok fuel L t = true -> clos_refl_trans string extends t u -> In u (chain_up fuel L t).
Proof.
  intros fuel t u Hok H. apply clos_rt_rt1n in H. revert fuel Hok.
  induction H as [t|t s u (a & Ea & Es) Hsu IH]; intros fuel Hok.
  - destruct fuel; [discriminate|]. cbn. auto.
  - destruct fuel; [discriminate|]. cbn in *. rewrite Ea, Es in *. right. apply IH. auto.
Qed.

(* with acyclic inheritance the chain does not depend on extra fuel *)
Lemma chain_up_more : forall f t, chain_ok f L t = true -> forall g, f <= g -> chain_up g L t = chain_up f L t.
Proof.
  induction f as [|f IH]; intros t Hok g Hg; [discriminate|]. destruct g as [|g]; [lia|]. cbn in *.
  destruct (find_asset L t) as [a|]; auto. destruct (ad_super a) as [s|]; auto. f_equal. apply IH; auto. lia.
Qed.
Lemma chain_ok_more : forall f t, chain_ok f L t = true -> forall g, f <= g -> chain_ok g L t = true.
Proof.
  induction f as [|f IH]; intros t Hok g Hg; [discriminate|]. destruct g as [|g]; [lia|]. cbn in *.
  destruct (find_asset L t) as [a|]; auto. destruct (ad_super a) as [s|]; auto. apply IH; auto. lia.
Qed.
Lemma chain_ok_super : forall f t a s, chain_ok f L t = true -> find_asset L t = Some a -> ad_super a = Some s ->
  chain_ok f L s = true.
Proof.
  intros f t a s Hok Ea Es. destruct f; [discriminate|]. cbn in Hok. rewrite Ea, Es in Hok.
  apply (chain_ok_more f); auto.
Qed.

Definition wf_chain (t : string) : Prop := chain_ok (lang_fuel L) L t = true.
Lemma wf_chain_all : wf_inherit L = true -> forall t, wf_chain t.
Proof.
  intros W t. unfold wf_chain. destruct (find_asset L t) as [a|] eqn:Ea.
  - destruct (find_asset_In _ _ _ Ea) as [Hin <-]. unfold wf_inherit in W. rewrite forallb_forall in W. auto.
  - unfold lang_fuel. cbn. rewrite Ea. auto.
Qed.

Theorem subasset_closure : wf_inherit L = true -> forall t u,
  is_subasset_of L t u = true <-> clos_refl_trans string extends t u.
Proof.
  intros W t u. unfold is_subasset_of, ancestors_or_self. rewrite existsb_exists. split.
  - intros (x & Hx & E). apply seqb_spec in E. subst. eapply chain_up_sound; eauto.
  - intros H. exists u. split; [|apply seqb_spec; auto]. apply chain_up_complete; auto. apply wf_chain_all; auto.
Qed.

Lemma sub_refl t : is_subasset_of L t t = true.
Proof. unfold is_subasset_of, ancestors_or_self, lang_fuel. cbn. rewrite (proj2 (seqb_spec t t) eq_refl). auto. Qed.
Lemma sub_trans : wf_inherit L = true -> forall t u w,
  is_subasset_of L t u = true -> is_subasset_of L u w = true -> is_subasset_of L t w = true.
Proof.
  intros W t u w H1 H2. rewrite subasset_closure in * by auto. eapply rt_trans; eauto.
Qed.
End Sub.
