(* MalPrint.v — printing a language specification as MAL: spec -> concrete syntax tree (minimal parentheses), whose
   yield (Mal.fmal) is the token list; mirrored by harness/malsyntax.py, cross-checked through the real lexer. *)
From MT Require Import Prelude Codec Lang Mal.

(* ---------- expressions ---------- *)
Fixpoint dsnoc (t : dtail) (p : cpart) : dtail := match t with DNil => DCons p DNil | DCons q tl => DCons q (dsnoc tl p) end.
Fixpoint esnoc (t : etail) (o : sop) (p : cparts) : etail :=
  match t with ENil => ECons o p ENil | ECons o' q tl => ECons o' q (esnoc tl o p) end.
Definition ps_snoc (ps : cparts) (p : cpart) : cparts := match ps with CP q tl => CP q (dsnoc tl p) end.
Definition e_snoc (e : cexpr) (o : sop) (p : cparts) : cexpr := match e with CE q tl => CE q (esnoc tl o p) end.

Definition paren_part (c : cexpr) : cpart := CPart (CParen c) false [].
Definition to_parts (c : cexpr) : cparts := match c with CE p ENil => p | _ => CP (paren_part c) DNil end.
Definition to_part (c : cexpr) : cpart := match c with CE (CP p DNil) ENil => p | _ => paren_part c end.
Definition to_atom (c : cexpr) : catom := match c with CE (CP (CPart a false []) DNil) ENil => a | _ => CParen c end.
Definition of_part (p : cpart) : cexpr := CE (CP p DNil) ENil.

Fixpoint u_e (e : sexpr) : cexpr :=
  match e with
  | SStep n | SField n => of_part (CPart (CId n) false [])
  | SVar v => of_part (CPart (CVar v) false [])
  | SCollect l r => CE (ps_snoc (to_parts (u_e l)) (to_part (u_e r))) ENil
  | SUnion l r => e_snoc (u_e l) OUnion (to_parts (u_e r))
  | SInter l r => e_snoc (u_e l) OInter (to_parts (u_e r))
  | SDiff l r => e_snoc (u_e l) ODiff (to_parts (u_e r))
  | STrans x => of_part (CPart (to_atom (u_e x)) true [])
  | SSub t x => match u_e x with
                | CE (CP (CPart a st tys) DNil) ENil => of_part (CPart a st (tys ++ [t]))
                | c => of_part (CPart (CParen c) false [t])
                end
  end.

(* ---------- TTC ---------- *)
Fixpoint tesnoc (t : tetail) (pl : bool) (x : cttcterm) : tetail :=
  match t with TENil => TECons pl x TENil | TECons b y tl => TECons b y (tesnoc tl pl x) end.
Fixpoint ttsnoc (t : tttail) (st : bool) (x : cttcfact) : tttail :=
  match t with TTNil => TTCons st x TTNil | TTCons b y tl => TTCons b y (ttsnoc tl st x) end.
Definition te_snoc (e : cttcexpr) (pl : bool) (x : cttcterm) : cttcexpr := match e with TE t tl => TE t (tesnoc tl pl x) end.
Definition tt_snoc (t : cttcterm) (st : bool) (x : cttcfact) : cttcterm := match t with TT f tl => TT f (ttsnoc tl st x) end.
Definition of_tatom (a : cttcatom) : cttcexpr := TE (TT (TF1 a) TTNil) TENil.
Definition to_tterm (c : cttcexpr) : cttcterm := match c with TE t TENil => t | _ => TT (TF1 (TAParen c)) TTNil end.
Definition to_tfact (c : cttcexpr) : cttcfact := match c with TE (TT f TTNil) TENil => f | _ => TF1 (TAParen c) end.
Definition to_tatom (c : cttcexpr) : cttcatom := match c with TE (TT (TF1 a) TTNil) TENil => a | _ => TAParen c end.

Fixpoint u_t (t : ttc) : cttcexpr :=
  match t with
  | TtcNum s => of_tatom (TANum (CFloat s))
  | TtcFun n [] => of_tatom (TADist n None)
  | TtcFun n args => of_tatom (TADist n (Some (map CFloat args)))
  | TtcBin o l r =>
      if seqb o "addition" then te_snoc (u_t l) true (to_tterm (u_t r))
      else if seqb o "subtraction" then te_snoc (u_t l) false (to_tterm (u_t r))
      else if seqb o "multiplication" then TE (tt_snoc (to_tterm (u_t l)) true (to_tfact (u_t r))) TENil
      else if seqb o "division" then TE (tt_snoc (to_tterm (u_t l)) false (to_tfact (u_t r))) TENil
      else TE (TT (TF2 (to_tatom (u_t l)) (to_tatom (u_t r))) TTNil) TENil
  end.

(* ---------- declarations ---------- *)
Definition u_metas (m : list (string * string)) : list cmeta := map (fun kv => mkCMeta (fst kv) (snd kv)) m.
Definition u_steptype (t : string) : csteptype :=
  if seqb t "or" then StOr else if seqb t "and" then StAnd else if seqb t "defense" then StHash
  else if seqb t "exist" then StExists else StNotExists.
Definition u_cias (r : risk) : option (ccia * list ccia) :=
  match (if r_conf r then [CiaC] else []) ++ (if r_integ r then [CiaI] else []) ++ (if r_avail r then [CiaA] else []) with
  | [] => None
  | c :: cs => Some (c, cs)
  end.
Definition u_exprs (l : list sexpr) : option (cexpr * list cexpr) :=
  match l with [] => None | e :: r => Some (u_e e, map u_e r) end.
Definition u_step (s : fstep_) : cstep :=
  mkCStep (u_steptype (fs_type_ s)) (fs_name_ s) (fs_tags s)
          (match fs_risk s with Some r => u_cias r | None => None end)
          (option_map u_t (fs_ttc s)) (u_metas (fs_meta s))
          (match fs_requires s with Some l => u_exprs l | None => None end)
          (match fs_reaches s with
           | Some (ov, l) => match u_exprs l with Some es => Some (negb ov, es) | None => None end
           | None => None end).
Definition u_asset (a : fasset_) : casset :=
  mkCAsset (fa_abstract a) (fa_name a) (fa_super a) (u_metas (fa_meta a))
           (map (fun v => MVar (mkCVar (fst v) (u_e (snd v)))) (fa_vars a) ++ map (fun s => MStep (u_step s)) (fa_steps a)).
Definition u_bound (z : Z) : cmultatom := MInt (string_of_Z z).
Definition u_mult (lo hi : mval) : cmult :=
  match lo, hi with
  | MvInt l, MvNone => if Z.eqb l 0 then mkCMult MStar None else mkCMult (u_bound l) (Some MStar)
  | MvInt l, MvInt h => if Z.eqb l h then mkCMult (u_bound l) None else mkCMult (u_bound l) (Some (u_bound h))
  | _, _ => mkCMult MStar None                       (* not printable: excluded by wf_spec *)
  end.
Definition u_assoc (a : fassoc_) : cassociation :=
  mkCAssoc (fas_left a) (fas_lfield a) (u_mult (fas_lmin a) (fas_lmax a)) (fas_name a)
           (u_mult (fas_rmin a) (fas_rmax a)) (fas_rfield a) (fas_right a) (u_metas (fas_meta a)).
Definition cat_meta (s : fspec) (name : string) : list (string * string) :=
  match find (fun c => seqb (fc_name c) name) (sp_categories s) with Some c => fc_meta c | None => [] end.
(* canonical layout: defines, one empty block per category, one block per asset, one associations block *)
Definition u_mal (s : fspec) : cmal :=
  map (fun kv => DDefine (fst kv) (snd kv)) (sp_defines s) ++
  map (fun c => DCategory (mkCCat (fc_name c) (u_metas (fc_meta c)) [])) (sp_categories s) ++
  map (fun a => DCategory (mkCCat (fa_category a) (u_metas (cat_meta s (fa_category a))) [u_asset a])) (sp_assets s) ++
  match sp_assocs s with [] => [] | l => [DAssociations (map u_assoc l)] end.
Definition print_spec (s : fspec) : list tok := fmal (u_mal s).
