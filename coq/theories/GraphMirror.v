(* GraphMirror.v — add_attacker keeps attackers and nodes in agreement WHATEVER its outcome (C11): a call that is rejected
   half-way (an id that no node has, after some of the reached steps were compromised already) leaves every pair
   (attacker, node) that agreed before in agreement, the rejected attacker included — it lists exactly the nodes that list
   it. Pointwise, so no invariant of the whole heap is needed; and the run that the correspondence evaluates: a guarded
   history followed by add_attacker calls taken as they are (unknown ids, attackers that were rejected or removed before). *)
From MT Require Import Prelude ListFacts Graph Apriori GraphAn GraphOps GraphInv GraphThm.

Definition agree (nh : nheap) (ah : aheap) (a o : nat) : Prop := In o (a_reached (ah a)) <-> In a (n_comp (nh o)).

Lemma compromise_agree nh ah a o nh' ah' a' o' :
  compromise nh ah a o = (nh', ah') -> agree nh ah a' o' -> agree nh' ah' a' o'.
Proof.
  unfold compromise, agree. destruct (memn a (n_comp (nh o))) eqn:M; intros E H; inversion E; subst; clear E; [exact H|].
  destruct (Nat.eq_dec a' a) as [->|Na], (Nat.eq_dec o' o) as [->|No].
  - rewrite upda_same, updn_same. cbn. rewrite !in_app_iff. cbn. tauto.
  - rewrite upda_same, updn_other by auto. cbn. rewrite in_app_iff. cbn. split.
    + intros [I|[I|[]]]; [apply H; exact I|congruence].
    + intros I. left. apply H. exact I.
  - rewrite upda_other, updn_same by auto. cbn. rewrite in_app_iff. cbn. split.
    + intros I. left. apply H. exact I.
    + intros [I|[I|[]]]; [apply H; exact I|congruence].
  - rewrite upda_other, updn_other by auto. exact H.
Qed.
Lemma reach_ids_agree g a a' o' : forall ids nh ah nh' ah' ok,
  reach_ids g nh ah a ids = (nh', ah', ok) -> agree nh ah a' o' -> agree nh' ah' a' o'.
Proof.
  induction ids as [|i r IH]; intros nh ah nh' ah' ok E H; cbn [reach_ids] in E; [inversion E; subst; exact H|].
  destruct (dget Z.eqb (g_id2node g) i) as [o|]; [|inversion E; subst; exact H].
  destruct (compromise nh ah a o) as [nh1 ah1] eqn:Ec. eapply IH; [exact E|]. eapply compromise_agree; eauto.
Qed.
Lemma entry_ids_reached g a : forall ids ah ah' ok, entry_ids g ah a ids = (ah', ok) -> forall x, a_reached (ah' x) = a_reached (ah x).
Proof.
  induction ids as [|i r IH]; intros ah ah' ok E x; cbn [entry_ids] in E; [inversion E; reflexivity|].
  destruct (dget Z.eqb (g_id2node g) i) as [o|]; [|inversion E; reflexivity].
  rewrite (IH _ _ _ E x). destruct (Nat.eq_dec x a) as [->|N]; [rewrite upda_same; reflexivity|rewrite upda_other by auto; reflexivity].
Qed.

(* whatever the arguments and whatever the outcome *)
Theorem add_attacker_agree s a i reached entry a' o' :
  agree (s_nh s) (s_ah s) a' o' ->
  agree (s_nh (fst (add_attacker s a i reached entry))) (s_ah (fst (add_attacker s a i reached entry))) a' o'.
Proof.
  intros H. unfold add_attacker.
  set (ii := match i with Some i0 => i0 | None => g_next_att (s_g s) end).
  set (ah0 := upda (s_ah s) a (fun x => set_a_id x (Some ii))).
  assert (H0 : agree (s_nh s) ah0 a' o').
  { unfold agree, ah0. destruct (Nat.eq_dec a' a) as [->|N]; [rewrite upda_same|rewrite upda_other by auto]; exact H. }
  destruct (dhas Z.eqb (g_id2att (s_g s)) ii); [exact H0|].
  set (g1 := mkGraph _ _ _ _ _ _ _).
  destruct (reach_ids g1 (s_nh s) ah0 a reached) as [[nh1 ah1] ok1] eqn:E1.
  pose proof (reach_ids_agree g1 a a' o' reached _ _ _ _ _ E1 H0) as H1.
  destruct ok1; cbn [negb]; [|exact H1].
  destruct (entry_ids g1 ah1 a entry) as [ah2 ok2] eqn:E2.
  assert (H2 : agree nh1 ah2 a' o') by (unfold agree; rewrite (entry_ids_reached g1 a entry _ _ _ E2 a'); exact H1).
  destruct ok2; cbn [negb fst s_nh s_ah]; exact H2.
Qed.

(* for the states the machine reaches: after add_attacker — accepted or rejected — of an attacker that is not in the graph and
   has reached nothing, that attacker and every attacker of the graph agree with every node of the graph *)
Theorem add_attacker_mirror ops a i reached entry :
  let s := final ops in
  ~ In a (g_atts (s_g s)) -> a_reached (s_ah s a) = [] ->
  let s' := fst (add_attacker s a i reached entry) in
  forall a' o, In a' (g_atts (s_g s)) \/ a' = a -> In o (g_nodes (s_g s)) ->
    (In o (a_reached (s_ah s' a')) <-> In a' (n_comp (s_nh s' o))).
Proof.
  intros s Na Hr s' a' o Ha Ho. apply add_attacker_agree. unfold agree.
  pose proof (reachable_WF ops) as W. fold s in W.
  destruct Ha as [Ha| ->].
  - apply (wf_compromise_mirror s W); auto.
  - rewrite Hr. split; [intros []|]. intros I. exfalso. apply Na.
    destruct (wf_att s W) as (A & _). exact (A o a Ho I).
Qed.

(* ---- the run the correspondence evaluates ---- *)
Definition add_call := (nat * option Z * list Z * list Z)%type.
Definition run_then_adds (ops : list op) (adds : list add_call) : st * list (outcome * ret) * list outcome :=
  let '(s, outs) := run ops in
  let '(s', ocs) := fold_left (fun '(s0, ocs) '(a, i, r, e) =>
                                 if Nat.ltb a (s_na s0) && negb (att_in_graph s0 a)
                                 then let '(s1, oc) := add_attacker s0 a i r e in (s1, ocs ++ [oc])
                                 else (s0, ocs ++ [RBadOp])) adds (s, []) in
  (s', outs, ocs).
Definition obs_run_then_adds (ops : list op) (adds : list add_call) : jv :=
  let '(s, outs, ocs) := run_then_adds ops adds in
  JList [obs_outs outs; JList (map (fun oc => JInt (outcome_code oc)) ocs); obs_st s].

(* ---- why C09's theorems carry the guard of OAddAtt (ids of nodes of the graph): outside it, add_attacker rejected half-way
   leaves a node of the graph listing an attacker that is not in the graph ---- *)
Definition gm_node (nm : string) : node := mkNode "or" nm None (Some "a") [] [] [] None None true true None JNull [] (JDict []).
Definition gm_ops : list op := [ONew (gm_node "s0"); OAddNode 0 None; ONew (gm_node "s1"); OAddNode 1 (Some 7%Z); ONewAtt "eve"].
Lemma rejected_add_leaves_foreign :
  let '(s, outs, ocs) := run_then_adds gm_ops [(0, None, [7%Z; 99%Z], [])] in
  forallb (fun p => outcome_eqb (fst p) Ok) outs = true /\ ocs = [RGraphException] /\
  In 1 (g_nodes (s_g s)) /\ In 0 (n_comp (s_nh s 1)) /\ ~ In 0 (g_atts (s_g s)).
Proof. vm_compute. intuition congruence. Qed.
Lemma add_attacker_guard_needed : exists ops adds,
  let '(s, outs, ocs) := run_then_adds ops adds in
  forallb (fun p => outcome_eqb (fst p) Ok) outs = true /\ ocs = [RGraphException] /\
  exists o a, In o (g_nodes (s_g s)) /\ In a (n_comp (s_nh s o)) /\ ~ In a (g_atts (s_g s)).
Proof.
  exists gm_ops, [(0, None, [7%Z; 99%Z], [])]. pose proof rejected_add_leaves_foreign as H.
  destruct (run_then_adds gm_ops [(0, None, [7%Z; 99%Z], [])]) as [[s outs] ocs]. destruct H as (A & B & C & D & E).
  split; [exact A|]. split; [exact B|]. exists 1, 0. auto.
Qed.
