(* EvalTotal.v — the transitive loop of the evaluator terminates within its fuel on every finite universe of assets,
   whatever the cycles and self-links: the set of seen assets grows strictly with every round that finds something
   new. (C01: generation terminates) *)
From MT Require Import Prelude Lang Eval EvalThm.
From Coq Require Import Arith.

Section Total.
Variable succ : Z -> eres.
Variable U : list Z.                       (* the assets of the model *)
(* the body of the closure evaluates on every asset and stays inside the model *)
Hypothesis succ_total : forall a, In a U -> exists r, succ a = EOk r /\ incl r U.

Lemma efm_total : forall l, incl l U -> exists r, efm succ l = EOk r /\ incl r U.
Proof.
  induction l as [|a t IH]; intros Hl; cbn [efm].
  - exists []. split; [reflexivity|]. intros x [].
  - destruct (succ_total a (Hl a (or_introl eq_refl))) as (r & Er & Hr).
    destruct (IH (fun x Hx => Hl x (or_intror Hx))) as (rs & Ers & Hrs).
    rewrite Er. cbn [ebind]. rewrite Ers. cbn [ebind]. exists (r ++ rs). split; auto.
    intros x Hx. apply in_app_or in Hx. destruct Hx; auto.
Qed.

Lemma NoDup_app_disjoint (a b : list Z) : NoDup a -> NoDup b -> (forall y, In y b -> ~ In y a) -> NoDup (a ++ b).
Proof.
  intros Na Nb D. induction Na as [|x t Hx Nt IH]; cbn; auto. constructor.
  - intros A. apply in_app_or in A. destruct A as [A|A]; auto. apply (D x A). left; auto.
  - apply IH. intros y Hy A. apply (D y Hy). right; auto.
Qed.
Lemma NoDup_app_fresh seen l : NoDup seen -> NoDup (seen ++ fresh seen l).
Proof.
  intros N. apply NoDup_app_disjoint; auto; [apply fresh_NoDup|]. intros y Hy. apply fresh_spec in Hy. tauto.
Qed.

Theorem bfs_total : forall fuel frontier seen,
  NoDup seen -> incl seen U -> incl frontier U -> List.length U - List.length seen + 2 <= fuel ->
  exists out, bfs succ fuel frontier seen = EOk out.
Proof.
  induction fuel as [|f IH]; intros frontier seen Ns Is If Hf; [lia|].
  cbn [bfs]. destruct frontier as [|a0 fr]; [eauto|].
  destruct (efm_total (a0 :: fr) If) as (reached & Er & Hr). rewrite Er. cbn [ebind].
  set (new := fresh seen reached).
  assert (Nn : NoDup (seen ++ new)) by (apply NoDup_app_fresh; auto).
  assert (In_new : incl new U) by (intros x Hx; apply fresh_spec in Hx; apply Hr; tauto).
  assert (Iall : incl (seen ++ new) U) by (intros x Hx; apply in_app_or in Hx; destruct Hx; auto).
  pose proof (NoDup_incl_length Nn Iall) as Len. rewrite app_length in Len.
  destruct new as [|n0 nr] eqn:En.
  - (* nothing new: the next round returns *)
    rewrite app_nil_r. destruct f as [|f']; [lia|]. cbn [bfs]. eauto.
  - apply IH; auto. rewrite app_length. cbn [List.length] in *. lia.
Qed.

(* from the start: the fuel the evaluator gives the loop (number of assets + 2) always suffices *)
Corollary bfs_terminates xs : incl xs U -> exists out, bfs succ (List.length U + 2) xs [] = EOk out.
Proof. intros H. apply bfs_total; auto; [constructor | intros x [] | cbn; lia]. Qed.
End Total.

(* the `*` operator of a step expression: if its body evaluates on every asset of the model and stays inside the
   model, the closure is computed — no cycle or self-link can exhaust the loop *)
Theorem trans_terminates L M venvE e' xs :
  let U := map ia_id (im_assets M) in
  (forall a, In a U -> exists r, ev1 L M venvE e' [a] = EOk r /\ incl r U) -> incl xs U ->
  exists out, ev1 L M venvE (STrans e') xs = EOk out.
Proof.
  intros U T I. cbn [ev1]. replace (List.length (im_assets M)) with (List.length U) by (unfold U; apply map_length).
  apply (bfs_terminates (fun x => ev1 L M venvE e' [x]) U T xs I).
Qed.
