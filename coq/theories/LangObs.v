(* LangObs.v — canonical JSON view of expressions and resolved steps (mirrors harness/langgen.py j_sexpr / j_step). *)
From MT Require Import Prelude Lang.

Fixpoint jv_of_sexpr (e : sexpr) : jv :=
  match e with
  | SStep n => JList [JStr "attackStep"; JStr n]
  | SField f => JList [JStr "field"; JStr f]
  | SVar v => JList [JStr "variable"; JStr v]
  | SCollect l r => JList [JStr "collect"; jv_of_sexpr l; jv_of_sexpr r]
  | SUnion l r => JList [JStr "union"; jv_of_sexpr l; jv_of_sexpr r]
  | SInter l r => JList [JStr "intersection"; jv_of_sexpr l; jv_of_sexpr r]
  | SDiff l r => JList [JStr "difference"; jv_of_sexpr l; jv_of_sexpr r]
  | STrans x => JList [JStr "transitive"; jv_of_sexpr x]
  | SSub t x => JList [JStr "subType"; JStr t; jv_of_sexpr x]
  end.
Definition jv_of_step (d : stepdecl) : jv :=
  JList [ JStr (sd_name d); JStr (sd_type d); sd_ttc d; jstrs (sd_tags d); sd_meta d;
          jopt (fun l => JList (map jv_of_sexpr l)) (sd_requires d);
          jopt (fun p => JList [JBool (fst p); JList (map jv_of_sexpr (snd p))]) (sd_reaches d) ].
Definition jv_of_steps (r : option (list (string * stepdecl))) : jv :=
  match r with
  | Some l => JList (map (fun kv => jv_of_step (snd kv)) l)
  | None => JStr "OutOfFuel"
  end.

(* C03 case: a language and the answers the implementation gave to a sequence of step lookups *)
Definition c03_check (c : lang * list (string * jv) * bool) : bool :=
  let '(L, queries, spec_unchanged) := c in
  spec_unchanged && forallb (fun q => jv_eqb (jv_of_steps (steps_of L (fst q))) (snd q)) queries.
