(* AprioriThm.v — the labels computed by calculate_viability_and_necessity on a structurally consistent graph
   are the greatest solution of the viability / necessity equations, whatever the node order (C08). *)
From MT Require Import Prelude ListFacts Graph Apriori GraphAn GraphOps GraphInv GraphThm.
From Coq Require Import Arith.

Section OneAnalysis.
Variable s : st.
Hypothesis W : WF s.
Variable kf : node -> kind.          (* vkind or nkind *)
Variable cf : node -> bool.          (* "counts as true for its children": false, or has_ttc_distribution *)
Variable ff : node -> bool.          (* fixed_viable or fixed_necessary *)

Let nh := s_nh s.
Let nodes := g_nodes (s_g s).
Let knd := fun o => kf (nh o).
Let parents := fun o => n_parents (nh o).
Let children := fun o => n_children (nh o).
Let const := fun o => cf (nh o).
Let fixedval := fun o => ff (nh o).
Let D := fun o => In o nodes.

(* the same structure with everything outside the graph cut off *)
Let rin := fun o => memn o nodes.
Let knd' := fun o => if rin o then knd o else KAny.
Let parents' := fun o => if rin o then parents o else [].
Let children' := fun o => if rin o then children o else [].
Let const' := fun o => if rin o then const o else false.

Lemma rin_D o : rin o = true <-> D o. Proof. apply memn_In. Qed.

Lemma mirror' : forall p c, In c (children' p) <-> In p (parents' c).
Proof.
  intros p c. unfold children', parents'. split.
  - destruct (rin p) eqn:Rp; [|intros []]. apply rin_D in Rp. intros Hc.
    destruct (wf_children_closed s W p c Rp Hc) as [Hcn Hpc].
    apply rin_D in Hcn. rewrite Hcn. exact Hpc.
  - destruct (rin c) eqn:Rc; [|intros []]. apply rin_D in Rc. intros Hp.
    destruct (wf_parents_closed s W c p Rc Hp) as [Hpn Hcp].
    apply rin_D in Hpn. rewrite Hpn. exact Hcp.
Qed.

Lemma agree_D : forall y, D y ->
  knd y = knd' y /\ parents y = parents' y /\ children y = children' y /\ const y = const' y /\ fixedval y = fixedval y.
Proof. intros y Hy. apply rin_D in Hy. unfold knd', parents', children', const'. rewrite Hy. auto 6. Qed.
Lemma closed_ch_D : forall y c, D y -> In c (children y) -> D c.
Proof. intros y c Hy Hc. apply (wf_children_closed s W y c Hy Hc). Qed.
Lemma closed_pa_D : forall y p, D y -> In p (parents y) -> D p.
Proof. intros y p Hy Hp. apply (wf_parents_closed s W y p Hy Hp). Qed.

Definition Feq (lab : nat -> bool) (o : nat) : bool := F knd parents const fixedval lab o.

Lemma F_transfer t t' c : D c -> agree_on D t t' -> F knd parents const fixedval t c = F knd' parents' const' fixedval t' c.
Proof.
  intros Hc H. unfold F. destruct (agree_D c Hc) as (Ek & Ep & _ & _ & _). rewrite <- Ek, <- Ep.
  assert (Hp : forall p, In p (parents c) -> D p) by (intros p; apply closed_pa_D; auto).
  destruct (knd c); auto.
  - destruct (parents c) eqn:E; auto. rewrite <- E in *.
    apply (existsb_g_agree knd knd' parents parents' children children' const const' fixedval fixedval D agree_D); auto.
  - apply (forallb_g_agree knd knd' parents parents' children children' const const' fixedval fixedval D agree_D); auto.
Qed.

Theorem run_gfp fuel l s0 sv :
  NoDup l -> (forall x, In x l <-> In x nodes) -> (forall x, In x nodes -> s0 x = true) ->
  calculate_from knd parents children const fixedval fuel l s0 = Some sv ->
  (forall c, In c nodes -> sv c = Feq sv c) /\
  (forall u, (forall c, In c nodes -> u c = Feq u c) -> forall c, In c nodes -> u c = true -> sv c = true).
Proof.
  intros Nd Hl H0 Hrun.
  assert (HlD : forall d, In d l -> D d) by (intros d Hd; apply Hl; auto).
  assert (A0 : agree_on D s0 top) by (intros y Hy; unfold top; apply H0; auto).
  pose proof (calculate_ext knd knd' parents parents' children children' const const' fixedval fixedval D
                agree_D closed_ch_D closed_pa_D fuel l s0 top HlD A0) as R.
  rewrite Hrun in R. unfold orel in R.
  destruct (calculate_from knd' parents' children' const' fixedval fuel l top) as [t|] eqn:Et; [|contradiction].
  assert (Hfix : forall d, knd' d = KFixed -> In d l).
  { intros d Hd. unfold knd' in Hd. destruct (rin d) eqn:Rd; [|discriminate]. apply Hl. apply rin_D; auto. }
  destruct (calculate_gfp knd' parents' children' const' fixedval mirror' fuel l t Et Nd Hfix) as [Sol Gr].
  split.
  - intros c Hc. unfold Feq. rewrite (F_transfer sv t c Hc R). rewrite (R c Hc). apply Sol.
  - intros u Hu c Hc Huc. rewrite (R c Hc).
    set (u' := fun y => if rin y then u y else true).
    assert (Au : agree_on D u u') by (intros y Hy; unfold u'; apply rin_D in Hy; rewrite Hy; auto).
    assert (Su : Solution knd' parents' const' fixedval u').
    { intros y. destruct (rin y) eqn:Ry.
      - assert (Hy : D y) by (apply rin_D; auto). rewrite <- (Au y Hy). rewrite (Hu y Hy). apply F_transfer; auto.
      - unfold u' at 1. rewrite Ry. unfold F, knd', parents'. rewrite Ry. reflexivity. }
    apply (Gr u' Su c). rewrite <- (Au c Hc). exact Huc.
Qed.

(* with more fuel than nodes the calculation returns *)
Theorem run_total fuel l s0 :
  NoDup l -> (forall x, In x l <-> In x nodes) -> (forall x, In x nodes -> s0 x = true) -> List.length nodes < fuel ->
  exists sv, calculate_from knd parents children const fixedval fuel l s0 = Some sv.
Proof.
  intros Nd Hl H0 Hf.
  assert (HlD : forall d, In d l -> D d) by (intros d Hd; apply Hl; auto).
  assert (A0 : agree_on D s0 top) by (intros y Hy; unfold top; apply H0; auto).
  pose proof (calculate_ext knd knd' parents parents' children children' const const' fixedval fixedval D
                agree_D closed_ch_D closed_pa_D fuel l s0 top HlD A0) as R.
  assert (Hnd : NoDup nodes) by (destruct (wf_alloc s W) as (A & _); exact A).
  assert (Hcl : forall y c, In y nodes -> In c (children' y) -> In c nodes).
  { intros y c Hy Hc. unfold children' in Hc. destruct (rin y); [|destruct Hc]. apply (closed_ch_D y c Hy Hc). }
  assert (P1 : NoDup ([] ++ l)) by exact Nd.
  assert (P2 : Inv knd' parents' const' fixedval [] l top) by apply top_inv.
  assert (P3 : forall d, In d l -> In d nodes) by (intros d Hd; apply Hl; auto).
  destruct (calculate_total knd' parents' children' const' fixedval mirror' nodes Hnd Hcl fuel l [] top P1 P2 P3 Hf) as (t & Et).
  unfold calculate_from in R. rewrite Et in R.
  assert (G : forall a, orel D a (Some t) -> exists sv, a = Some sv) by (intros [sv|] Hq; [eauto|destruct Hq]).
  apply G. exact R.
Qed.
End OneAnalysis.

(* ---- the two instances, on the labels stored in the nodes after calc ---- *)
Definition viab_eq (nh : nheap) (lab : nat -> bool) (o : nat) : bool :=
  F (fun o => vkind (nh o)) (fun o => n_parents (nh o)) (fun _ => false) (fun o => fixed_viable (nh o)) lab o.
Definition nec_eq (nh : nheap) (lab : nat -> bool) (o : nat) : bool :=
  F (fun o => nkind (nh o)) (fun o => n_parents (nh o)) (fun o => has_ttc_distribution (nh o)) (fun o => fixed_necessary (nh o)) lab o.

Definition fresh_labels (s : st) : Prop :=
  forall o, In o (g_nodes (s_g s)) -> n_viable (s_nh s o) = true /\ n_necessary (s_nh s o) = true.

Lemma calc_ok_shape s s' : calc s = (s', Ok) ->
  exists sv sn, viability_of s = Some sv /\ necessity_of s = Some sn /\
    s' = mkSt (fun o => set_necessary (set_viable (s_nh s o) (sv o)) (sn o)) (s_ah s) (s_nn s) (s_na s) (s_g s).
Proof.
  unfold calc. destruct (negb (calc_guard s)); [intros E; inversion E|].
  destruct (viability_of s) as [sv|], (necessity_of s) as [sn|]; intros E; inversion E. eauto.
Qed.

Theorem calc_gfp s s' : WF s -> fresh_labels s -> calc s = (s', Ok) ->
  let nh := s_nh s in
  let v := fun o => n_viable (s_nh s' o) in
  let n := fun o => n_necessary (s_nh s' o) in
  (forall c, In c (g_nodes (s_g s)) -> v c = viab_eq nh v c /\ n c = nec_eq nh n c) /\
  (forall u, (forall c, In c (g_nodes (s_g s)) -> u c = viab_eq nh u c) ->
             forall c, In c (g_nodes (s_g s)) -> u c = true -> v c = true) /\
  (forall u, (forall c, In c (g_nodes (s_g s)) -> u c = nec_eq nh u c) ->
             forall c, In c (g_nodes (s_g s)) -> u c = true -> n c = true).
Proof.
  intros W Fr E nh v n. destruct (calc_ok_shape s s' E) as (sv & sn & Ev & En & ->).
  assert (Nd : NoDup (g_nodes (s_g s))) by apply W.
  unfold viability_of in Ev. unfold necessity_of in En.
  destruct (run_gfp s W vkind (fun _ => false) fixed_viable _ _ _ sv Nd (fun x => iff_refl _) (fun x Hx => proj1 (Fr x Hx)) Ev) as [V1 V2].
  destruct (run_gfp s W nkind has_ttc_distribution fixed_necessary _ _ _ sn Nd (fun x => iff_refl _) (fun x Hx => proj2 (Fr x Hx)) En) as [N1 N2].
  assert (Ev' : forall o, v o = sv o) by reflexivity.
  assert (En' : forall o, n o = sn o) by reflexivity.
  split; [|split].
  - intros c Hc. split.
    + change (sv c = viab_eq nh sv c). apply V1; auto.
    + change (sn c = nec_eq nh sn c). apply N1; auto.
  - intros u Hu c Hc Huc. change (sv c = true). apply (V2 u); auto.
  - intros u Hu c Hc Huc. change (sn c = true). apply (N2 u); auto.
Qed.

(* order independence: the analysis run over any duplicate-free enumeration of the same nodes gives the same labels *)
Definition with_order (s : st) (l : list nat) : st := mkSt (s_nh s) (s_ah s) (s_nn s) (s_na s) (g_set_nodes (s_g s) l).

Theorem calc_order_independent s l1 l2 s1 s2 :
  WF s -> fresh_labels s ->
  NoDup l1 -> NoDup l2 -> (forall x, In x l1 <-> In x (g_nodes (s_g s))) -> (forall x, In x l2 <-> In x (g_nodes (s_g s))) ->
  calc (with_order s l1) = (s1, Ok) -> calc (with_order s l2) = (s2, Ok) ->
  forall c, In c (g_nodes (s_g s)) ->
    n_viable (s_nh s1 c) = n_viable (s_nh s2 c) /\ n_necessary (s_nh s1 c) = n_necessary (s_nh s2 c).
Proof.
  intros W Fr Nd1 Nd2 H1 H2 E1 E2 c Hc.
  destruct (calc_ok_shape _ _ E1) as (sv1 & sn1 & Ev1 & En1 & ->).
  destruct (calc_ok_shape _ _ E2) as (sv2 & sn2 & Ev2 & En2 & ->).
  unfold viability_of in Ev1, Ev2. unfold necessity_of in En1, En2. cbn in Ev1, Ev2, En1, En2.
  destruct (run_gfp s W vkind (fun _ => false) fixed_viable _ _ _ sv1 Nd1 H1 (fun x Hx => proj1 (Fr x Hx)) Ev1) as [V1 G1].
  destruct (run_gfp s W vkind (fun _ => false) fixed_viable _ _ _ sv2 Nd2 H2 (fun x Hx => proj1 (Fr x Hx)) Ev2) as [V2 G2].
  destruct (run_gfp s W nkind has_ttc_distribution fixed_necessary _ _ _ sn1 Nd1 H1 (fun x Hx => proj2 (Fr x Hx)) En1) as [N1 K1].
  destruct (run_gfp s W nkind has_ttc_distribution fixed_necessary _ _ _ sn2 Nd2 H2 (fun x Hx => proj2 (Fr x Hx)) En2) as [N2 K2].
  cbn. split.
  - destruct (sv1 c) eqn:A, (sv2 c) eqn:B; auto.
    + rewrite <- B. symmetry. apply (G2 sv1 V1 c Hc A).
    + rewrite <- A. apply (G1 sv2 V2 c Hc B).
  - destruct (sn1 c) eqn:A, (sn2 c) eqn:B; auto.
    + rewrite <- B. symmetry. apply (K2 sn1 N1 c Hc A).
    + rewrite <- A. apply (K1 sn2 N2 c Hc B).
Qed.

(* the equations, spelled out per step type *)
Lemma existsb_orf (lab : nat -> bool) l : existsb (fun p => lab p || false) l = existsb lab l.
Proof. induction l as [|a r IH]; cbn; auto. rewrite IH, orb_false_r. reflexivity. Qed.
Lemma forallb_orf (lab : nat -> bool) l : forallb (fun p => lab p || false) l = forallb lab l.
Proof. induction l as [|a r IH]; cbn; auto. rewrite IH, orb_false_r. reflexivity. Qed.
Lemma viab_eq_cases nh lab o :
  viab_eq nh lab o =
  if is_or (nh o) then match n_parents (nh o) with [] => true | _ => existsb lab (n_parents (nh o)) end
  else if is_and (nh o) then forallb lab (n_parents (nh o))
  else fixed_viable (nh o).
Proof.
  unfold viab_eq, F, vkind, g. destruct (is_or (nh o)); [|destruct (is_and (nh o)); auto].
  - destruct (n_parents (nh o)); auto. apply existsb_orf.
  - apply forallb_orf.
Qed.
Lemma nec_eq_cases nh lab o :
  nec_eq nh lab o =
  let counts p := lab p || has_ttc_distribution (nh p) in
  if is_or (nh o) then forallb counts (n_parents (nh o))
  else if is_and (nh o) then match n_parents (nh o) with [] => true | _ => existsb counts (n_parents (nh o)) end
  else fixed_necessary (nh o).
Proof. unfold nec_eq, F, nkind, g. destruct (is_or (nh o)); [|destruct (is_and (nh o))]; auto. Qed.


(* the analysis always terminates within its fuel on a consistent graph with default labels *)
Theorem calc_total s : WF s -> fresh_labels s -> calc_guard s = true -> exists s', calc s = (s', Ok).
Proof.
  intros W Hfresh G. unfold calc. rewrite G. cbn [negb].
  assert (Hn : NoDup (g_nodes (s_g s))) by (destruct (wf_alloc s W) as (A & _); exact A).
  assert (Hf : List.length (g_nodes (s_g s)) < calc_fuel s) by (unfold calc_fuel; lia).
  destruct (run_total s W vkind (fun _ => false) fixed_viable (calc_fuel s) (g_nodes (s_g s)) (fun o => n_viable (s_nh s o)))
    as (sv & Ev); auto; [intros x; tauto|intros x Hx; apply (Hfresh x Hx)|].
  destruct (run_total s W nkind has_ttc_distribution fixed_necessary (calc_fuel s) (g_nodes (s_g s)) (fun o => n_necessary (s_nh s o)))
    as (sn & En); auto; [intros x; tauto|intros x Hx; apply (Hfresh x Hx)|].
  unfold viability_of, necessity_of. rewrite Ev, En. eauto.
Qed.
