(* GenThm.v — what AttackGraph._generate_graph builds (Gen.generate), characterised exactly:
   one node per (asset, resolved step) in order, with the step's attributes; the children of every node are,
   in order, the nodes found by full name for the assets its reaches expressions evaluate to; parents mirror
   children. (C01, C02) *)
From MT Require Import Prelude ListFacts Lang Eval Graph GraphInv Gen.
From Coq Require Import Arith.

Section GenThm.
Variable L : lang.
Variable M : imodel.

Notation info_t := (list (nat * iasset * stepdecl)).

(* the invariant of the first loop *)
Record GI (s : st) (info : info_t) : Prop := mkGI {
  gi_nn : s_nn s = List.length info;
  gi_nodes : g_nodes (s_g s) = seq 0 (List.length info);
  gi_next : g_next_node (s_g s) = Z.of_nat (List.length info);
  gi_info : forall k o a d, nth_error info k = Some (o, a, d) ->
              o = k /\ exists n, node_for L M a d = GOk n /\ s_nh s k = set_id n (Some (Z.of_nat k));
  gi_id2node : g_id2node (s_g s) = map (fun k => (Z.of_nat k, k)) (seq 0 (List.length info));
  gi_name2node : g_name2node (s_g s) =
                 fold_left (fun d k => dset seqb d (full_name (s_nh s k)) k) (seq 0 (List.length info)) [];
  gi_atts : g_atts (s_g s) = [] /\ s_na s = 0;
  gi_rest : forall k, List.length info <= k -> s_nh s k = dummy_node;
  gi_norel : forall k, n_children (s_nh s k) = [] /\ n_parents (s_nh s k) = [] /\ n_comp (s_nh s k) = [] }.

Lemma GI_init : GI init [].
Proof. constructor; cbn; auto. intros k o a d H. destruct k; discriminate. Qed.

Lemma node_for_shape a d n : node_for L M a d = GOk n ->
  n_id n = None /\ n_children n = [] /\ n_parents n = [] /\ n_comp n = [] /\
  n_type n = sd_type d /\ n_name n = sd_name d /\ n_asset n = Some (ia_name a) /\
  n_ttc n = sd_ttc d /\ n_tags n = sd_tags d /\ n_mitre n = mitre_of (sd_meta d) /\
  n_viable n = true /\ n_necessary n = true.
Proof.
  unfold node_for. intros H.
  destruct (if seqb (sd_type d) "exist" || seqb (sd_type d) "notExist" then _ else _) as [ex|]; cbn in H; [|discriminate].
  destruct (seqb (sd_type d) "defense" && _); [discriminate|]. inversion H; subst; cbn. auto 15.
Qed.

Lemma dget_map_idx n k : k < n -> dget Z.eqb (map (fun k => (Z.of_nat k, k)) (seq 0 n)) (Z.of_nat k) = Some k.
Proof.
  intros H. assert (G : forall m b, b <= k < b + m -> dget Z.eqb (map (fun k => (Z.of_nat k, k)) (seq b m)) (Z.of_nat k) = Some k).
  { induction m as [|m IH]; intros b Hb; [lia|]. cbn. destruct (Z.eqb_spec (Z.of_nat k) (Z.of_nat b)).
    - f_equal. lia.
    - apply IH. lia. }
  apply G. lia.
Qed.
Lemma dget_map_idx_none n i : (forall k, k < n -> i <> Z.of_nat k) ->
  dget Z.eqb (map (fun k => (Z.of_nat k, k)) (seq 0 n)) i = None.
Proof.
  intros H. assert (G : forall m b, b + m <= n -> dget Z.eqb (map (fun k => (Z.of_nat k, k)) (seq b m)) i = None).
  { induction m as [|m IH]; intros b Hb; cbn; auto. destruct (Z.eqb_spec i (Z.of_nat b)).
    - exfalso. apply (H b); [lia|auto].
    - apply IH. lia. }
  apply (G n 0). lia.
Qed.
Lemma dset_map_idx n : dset Z.eqb (map (fun k => (Z.of_nat k, k)) (seq 0 n)) (Z.of_nat n) n =
                       map (fun k => (Z.of_nat k, k)) (seq 0 (S n)).
Proof.
  rewrite seq_S, map_app. cbn.
  assert (G : forall m b, b + m <= n -> dset Z.eqb (map (fun k => (Z.of_nat k, k)) (seq b m)) (Z.of_nat n) n =
                                       map (fun k => (Z.of_nat k, k)) (seq b m) ++ [(Z.of_nat n, n)]).
  { induction m as [|m IH]; intros b Hb; cbn; auto. destruct (Z.eqb_spec (Z.of_nat n) (Z.of_nat b)); [lia|].
    f_equal. apply IH. lia. }
  apply (G n 0). lia.
Qed.

(* one node *)
Lemma add_step_node_GI s info a d s' info' :
  GI s info -> add_step_node L M (GOk (s, info)) a d = GOk (s', info') ->
  GI s' info' /\ info' = info ++ [(List.length info, a, d)].
Proof.
  intros G H. unfold add_step_node in H. cbn [gbind] in H.
  destruct (node_for L M a d) as [n|] eqn:En; cbn [gbind] in H; [|discriminate].
  destruct (node_for_shape _ _ _ En) as (Nid & Nch & Npa & Nco & _).
  pose proof (gi_nn _ _ G) as Hnn.
  unfold add_node in H. cbn [new_node s_g s_nh s_nn] in H.
  rewrite updn_same in H. rewrite Nid in H. cbn [orb] in H.
  inversion H; subst s' info'; clear H. split; [|rewrite Hnn; reflexivity].
  set (o := s_nn s) in *. rewrite (gi_next _ _ G), <- Hnn.
  assert (Hlen : List.length (info ++ [(o, a, d)]) = S o) by (rewrite app_length; cbn; lia).
  set (nh' := updn (updn (s_nh s) o (fun _ => n)) o (fun n0 => set_id n0 (Some (Z.of_nat o)))).
  assert (Hold : forall k, k <> o -> nh' k = s_nh s k) by (intros k Hk; unfold nh'; rewrite !updn_other; auto).
  assert (Hnew : nh' o = set_id n (Some (Z.of_nat o))) by (unfold nh'; rewrite !updn_same; auto).
  constructor; cbn [s_nn s_g s_nh g_nodes g_next_node g_id2node g_name2node g_atts s_na]; rewrite ?Hlen.
  - reflexivity.
  - rewrite (gi_nodes _ _ G), <- Hnn. rewrite seq_S. reflexivity.
  - lia.
  - intros k o' a' d' Hk. destruct (Nat.eq_dec k o) as [->|Nk].
    + rewrite nth_error_app2 in Hk by lia. replace (o - List.length info) with 0 in Hk by lia. cbn in Hk.
      inversion Hk; subst. split; auto. exists n. split; auto.
    + assert (k < o). { apply nth_error_Some_lt in Hk. rewrite Hlen in Hk. lia. }
      rewrite nth_error_app1 in Hk by lia. destruct (gi_info _ _ G _ _ _ _ Hk) as (E1 & n' & E2 & E3).
      split; auto. exists n'. split; auto. fold nh'. rewrite Hold; auto.
  - rewrite (gi_id2node _ _ G), <- Hnn. apply dset_map_idx.
  - fold nh'. rewrite (gi_name2node _ _ G), <- Hnn. rewrite seq_S, fold_left_app. cbn [fold_left]. f_equal.
    apply fold_left_ext_in. intros dd k Hk. apply in_seq in Hk. rewrite Hold by lia. reflexivity.
  - apply (gi_atts _ _ G).
  - intros k Hk. fold nh'. rewrite Hold by lia. apply (gi_rest _ _ G). lia.
  - intros k. fold nh'. destruct (Nat.eq_dec k o) as [->|Nk].
    + rewrite Hnew. cbn. auto.
    + rewrite Hold by auto. apply (gi_norel _ _ G).
Qed.

(* errors are absorbing *)
Lemma fold_steps_err a e : forall steps,
  fold_left (fun acc (kv : string * stepdecl) => add_step_node L M acc a (snd kv)) steps (GErr e) = GErr e.
Proof. induction steps as [|kv r IH]; cbn; auto. Qed.
Lemma fold_assets_err e : forall assets, fold_left (add_asset_nodes L M) assets (GErr e) = GErr e.
Proof. induction assets as [|a r IH]; cbn; auto. Qed.

(* all steps of one asset *)
Lemma fold_steps_GI a : forall (steps : list (string * stepdecl)) s info s' info',
  GI s info ->
  fold_left (fun acc kv => add_step_node L M acc a (snd kv)) steps (GOk (s, info)) = GOk (s', info') ->
  GI s' info' /\
  map (fun x => (snd (fst x), snd x)) info' = map (fun x => (snd (fst x), snd x)) info ++ map (fun kv => (a, snd kv)) steps.
Proof.
  induction steps as [|kv r IH]; intros s info s' info' G H; cbn [fold_left] in H.
  - inversion H; subst. split; auto. cbn. rewrite app_nil_r. auto.
  - destruct (add_step_node L M (GOk (s, info)) a (snd kv)) as [[s1 info1]|e] eqn:E1.
    + destruct (add_step_node_GI _ _ _ _ _ _ G E1) as [G1 ->].
      destruct (IH _ _ _ _ G1 H) as [G' E']. split; auto.
      rewrite E', map_app. cbn. rewrite <- app_assoc. reflexivity.
    + rewrite fold_steps_err in H. discriminate.
Qed.

Definition enum_asset (a : iasset) : list (iasset * stepdecl) :=
  match steps_of L (ia_type a) with Some st => map (fun kv => (a, snd kv)) st | None => [] end.
Definition enum_model : list (iasset * stepdecl) := flat_map enum_asset (im_assets M).

Lemma add_asset_nodes_ok p a : add_asset_nodes L M (GOk p) a =
  match steps_of L (ia_type a) with
  | None => GErr GFuel
  | Some steps => fold_left (fun acc kv => add_step_node L M acc a (snd kv)) steps (GOk p)
  end.
Proof. reflexivity. Qed.

Lemma fold_assets_GI : forall assets s info s' info',
  GI s info -> fold_left (add_asset_nodes L M) assets (GOk (s, info)) = GOk (s', info') ->
  GI s' info' /\
  map (fun x => (snd (fst x), snd x)) info' = map (fun x => (snd (fst x), snd x)) info ++ flat_map enum_asset assets.
Proof.
  induction assets as [|a r IH]; intros s info s' info' G H; cbn [fold_left] in H.
  - inversion H; subst. split; auto. cbn. rewrite app_nil_r. auto.
  - rewrite add_asset_nodes_ok in H. cbn [flat_map]. unfold enum_asset at 1.
    destruct (steps_of L (ia_type a)) as [steps|] eqn:Es.
    + destruct (fold_left (fun acc kv => add_step_node L M acc a (snd kv)) steps (GOk (s, info))) as [[s1 info1]|e] eqn:E1.
      * destruct (fold_steps_GI a _ _ _ _ _ G E1) as [G1 M1].
        destruct (IH _ _ _ _ G1 H) as [G' E']. split; auto. rewrite E', M1.
        rewrite <- app_assoc. reflexivity.
      * rewrite fold_assets_err in H. discriminate.
    + rewrite fold_assets_err in H. discriminate.
Qed.

(* ---- second loop ---- *)
Definition name_lookup (g : graph) (y : Z) (t : option string) : option nat :=
  match find_iasset M y, t with
  | Some ya, Some t => get_node_by_full_name g (ia_name ya ++ ":" ++ t)
  | _, _ => None
  end.

(* the list of children a node gets from one expression: the nodes found by name for the reached assets, in order *)
Fixpoint lookup_all (g : graph) (t : option string) (ys : list Z) : option (list nat) :=
  match ys with
  | [] => Some []
  | y :: r => match name_lookup g y t, lookup_all g t r with
              | Some c, Some cs => Some (c :: cs)
              | _, _ => None
              end
  end.

Definition same_graph (s s' : st) : Prop := s_g s' = s_g s /\ s_nn s' = s_nn s /\ s_ah s' = s_ah s.
Definition nodes_static (s s' : st) : Prop := forall k, Lab (s_nh s' k) = Lab (s_nh s k) /\ n_id (s_nh s' k) = n_id (s_nh s k) /\ n_comp (s_nh s' k) = n_comp (s_nh s k).

Lemma link_effect s p c k :
  n_children (s_nh (link s p c) k) = (if Nat.eqb k p then n_children (s_nh s k) ++ [c] else n_children (s_nh s k)) /\
  n_parents (s_nh (link s p c) k) = (if Nat.eqb k c then n_parents (s_nh s k) ++ [p] else n_parents (s_nh s k)) /\
  Lab (s_nh (link s p c) k) = Lab (s_nh s k) /\ n_id (s_nh (link s p c) k) = n_id (s_nh s k) /\
  n_comp (s_nh (link s p c) k) = n_comp (s_nh s k).
Proof. unfold link; cbn. unfold updn. destruct (Nat.eqb k c), (Nat.eqb k p); cbn; auto. Qed.

Definition mirror_cnt (s : st) : Prop := forall p c, cnt (n_children (s_nh s p)) c = cnt (n_parents (s_nh s c)) p.

Lemma link_mirror s p c : mirror_cnt s -> mirror_cnt (link s p c).
Proof.
  intros H x y. destruct (link_effect s p c x) as (-> & _). destruct (link_effect s p c y) as (_ & -> & _).
  specialize (H x y).
  destruct (Nat.eqb_spec x p), (Nat.eqb_spec y c); subst; rewrite ?cnt_app, ?cnt_single;
    repeat match goal with |- context [Nat.eqb ?a ?b] => destruct (Nat.eqb_spec a b) end; try congruence; lia.
Qed.

Lemma link_targets_spec o t : forall ys s s',
  link_targets M s o t ys = GOk s' ->
  exists cs, lookup_all (s_g s) t ys = Some cs /\
    same_graph s s' /\ nodes_static s s' /\
    (forall k, n_children (s_nh s' k) = if Nat.eqb k o then n_children (s_nh s k) ++ cs else n_children (s_nh s k)) /\
    (mirror_cnt s -> mirror_cnt s').
Proof.
  unfold link_targets.
  assert (ERR : forall ys e, fold_left (fun acc y => gbind acc (fun s =>
     match find_iasset M y, t with
     | Some ya, Some t => match get_node_by_full_name (s_g s) (ia_name ya ++ ":" ++ t) with
                          | Some c => GOk (link s o c) | None => GErr GNoTarget end
     | _, _ => GErr GBadSpec end)) ys (GErr e) = GErr e).
  { induction ys; cbn; auto. }
  induction ys as [|y r IH]; intros s s' H; cbn [fold_left] in H.
  - inversion H; subst. exists []. cbn. split; auto. split; [repeat split; auto|]. split; [intros k; auto|].
    split; auto. intros k. destruct (Nat.eqb k o); auto. rewrite app_nil_r. auto.
  - cbn [gbind] in H. cbn [lookup_all]. unfold name_lookup at 1.
    destruct (find_iasset M y) as [ya|]; [|rewrite ERR in H; discriminate].
    destruct t as [t|]; [|rewrite ERR in H; discriminate].
    destruct (get_node_by_full_name (s_g s) (ia_name ya ++ ":" ++ t)) as [c|] eqn:Ec; [|rewrite ERR in H; discriminate].
    destruct (IH _ _ H) as (cs & Hcs & (G1 & G2 & G3) & St & Ch & Mi).
    exists (c :: cs). cbn [link s_g] in Hcs. rewrite Hcs. split; auto.
    split; [repeat split; auto|]. split.
    + intros k. destruct (St k) as (a1 & a2 & a3). destruct (link_effect s o c k) as (_ & _ & b1 & b2 & b3).
      repeat split; congruence.
    + split.
      * intros k. rewrite Ch. destruct (link_effect s o c k) as (-> & _).
        destruct (Nat.eqb k o); auto. rewrite <- app_assoc. reflexivity.
      * intros Hm. apply Mi. apply link_mirror; auto.
Qed.

(* children contributed by the expressions of one resolved step, given the name index g *)
Fixpoint children_of_exprs (g : graph) (x : Z) (es : list sexpr) : option (list nat) :=
  match es with
  | [] => Some []
  | e :: r =>
    match eval L M e x with
    | GOk ys => match lookup_all g (last_step e) ys, children_of_exprs g x r with
                | Some cs, Some rest => Some (cs ++ rest)
                | _, _ => None
                end
    | GErr _ => None
    end
  end.
Definition expected_children (g : graph) (a : iasset) (d : stepdecl) : option (list nat) :=
  match sd_reaches d with
  | None => Some []
  | Some (_, es) => children_of_exprs g (ia_id a) es
  end.

Definition Frame2 (o : nat) (cs : list nat) (s s' : st) : Prop :=
  same_graph s s' /\ nodes_static s s' /\
  (forall k, n_children (s_nh s' k) = if Nat.eqb k o then n_children (s_nh s k) ++ cs else n_children (s_nh s k)) /\
  (mirror_cnt s -> mirror_cnt s').

Lemma Frame2_nil o s : Frame2 o [] s s.
Proof.
  split; [repeat split; auto|]. split; [intros k; auto|]. split; auto.
  intros k. destruct (Nat.eqb k o); auto. rewrite app_nil_r; auto.
Qed.
Lemma Frame2_trans o cs1 cs2 s1 s2 s3 : Frame2 o cs1 s1 s2 -> Frame2 o cs2 s2 s3 -> Frame2 o (cs1 ++ cs2) s1 s3.
Proof.
  intros ((a1 & a2 & a3) & St1 & Ch1 & M1) ((b1 & b2 & b3) & St2 & Ch2 & M2).
  split; [repeat split; congruence|]. split.
  - intros k. destruct (St1 k) as (x1 & x2 & x3), (St2 k) as (y1 & y2 & y3). repeat split; congruence.
  - split; [|auto]. intros k. rewrite Ch2, Ch1. destruct (Nat.eqb k o); auto. rewrite app_assoc. auto.
Qed.

Lemma link_exprs_spec o x : forall es s s',
  fold_left (fun acc e => gbind acc (fun s =>
       gbind (eval L M e x) (fun targets => link_targets M s o (last_step e) targets))) es (GOk s) = GOk s' ->
  exists cs, children_of_exprs (s_g s) x es = Some cs /\ Frame2 o cs s s'.
Proof.
  assert (ERR : forall es e0, fold_left (fun acc e => gbind acc (fun s =>
       gbind (eval L M e x) (fun targets => link_targets M s o (last_step e) targets))) es (GErr e0) = GErr e0).
  { induction es; cbn; auto. }
  induction es as [|e r IH]; intros s s' H; cbn [fold_left] in H.
  - inversion H; subst. exists []. split; auto. apply Frame2_nil.
  - cbn [gbind] in H. cbn [children_of_exprs].
    destruct (eval L M e x) as [ys|err] eqn:Ev; cbn [gbind] in H; [|rewrite ERR in H; discriminate].
    destruct (link_targets M s o (last_step e) ys) as [s1|err] eqn:El; [|rewrite ERR in H; discriminate].
    destruct (link_targets_spec o (last_step e) ys s s1 El) as (cs & Hcs & F1).
    destruct (IH _ _ H) as (rest & Hrest & F2).
    destruct F1 as ((g1 & g2 & g3) & F1'). rewrite g1 in Hrest.
    exists (cs ++ rest). rewrite Hcs, Hrest. split; auto.
    eapply Frame2_trans; [|exact F2]. split; [repeat split; auto|exact F1'].
Qed.

Lemma link_node_spec o a d s s' : link_node L M (GOk s) (o, a, d) = GOk s' ->
  exists cs, expected_children (s_g s) a d = Some cs /\ Frame2 o cs s s'.
Proof.
  unfold link_node, expected_children. destruct (sd_reaches d) as [[ov es]|].
  - apply link_exprs_spec.
  - intros H; inversion H; subst. exists []. split; auto. apply Frame2_nil.
Qed.

Lemma link_node_err e x : link_node L M (GErr e) x = GErr e.
Proof.
  destruct x as [[o a] d]. unfold link_node. destruct (sd_reaches d) as [[ov es]|]; auto.
  induction es; cbn; auto.
Qed.
Lemma fold_link_err e : forall info, fold_left (link_node L M) info (GErr e) = GErr e.
Proof. induction info as [|x r IH]; cbn; auto. rewrite link_node_err. auto. Qed.

(* the whole second loop, over handles that are exactly 0 .. n-1 in order *)
Lemma fold_link_spec : forall (info : info_t) base s s',
  (forall k o a d, nth_error info k = Some (o, a, d) -> o = base + k) ->
  fold_left (link_node L M) info (GOk s) = GOk s' ->
  same_graph s s' /\ nodes_static s s' /\ (mirror_cnt s -> mirror_cnt s') /\
  (forall k, k < base \/ base + List.length info <= k -> n_children (s_nh s' k) = n_children (s_nh s k)) /\
  (forall k o a d, nth_error info k = Some (o, a, d) ->
     exists cs, expected_children (s_g s) a d = Some cs /\ n_children (s_nh s' (base + k)) = n_children (s_nh s (base + k)) ++ cs).
Proof.
  induction info as [|[[o a] d] r IH]; intros base s s' Hidx H; cbn [fold_left] in H.
  - inversion H; subst. split; [repeat split; auto|]. split; [intros k; auto|]. split; auto. split; auto.
    intros k o a d Hk. destruct k; discriminate.
  - destruct (link_node L M (GOk s) (o, a, d)) as [s1|err] eqn:E1; [|rewrite fold_link_err in H; discriminate].
    assert (Ho : o = base) by (rewrite (Hidx 0 o a d eq_refl); lia). subst o.
    destruct (link_node_spec _ _ _ _ _ E1) as (cs & Hcs & (g1 & g2 & g3) & St1 & Ch1 & M1).
    assert (Hidx' : forall k o a d, nth_error r k = Some (o, a, d) -> o = S base + k).
    { intros k o' a' d' Hk. rewrite (Hidx (S k) o' a' d' Hk). lia. }
    destruct (IH (S base) s1 s' Hidx' H) as ((h1 & h2 & h3) & St2 & M2 & Out2 & In2).
    split; [repeat split; congruence|]. split.
    { intros k. destruct (St1 k) as (x1 & x2 & x3), (St2 k) as (y1 & y2 & y3). repeat split; congruence. }
    split; [auto|]. split.
    + intros k Hk. rewrite Out2 by (cbn [List.length] in Hk; lia). rewrite Ch1.
      destruct (Nat.eqb_spec k base); auto. cbn [List.length] in Hk. lia.
    + intros k o' a' d' Hk. destruct k as [|k].
      * cbn in Hk. inversion Hk; subst. exists cs. split; auto. rewrite Nat.add_0_r.
        rewrite Out2 by lia. rewrite Ch1, Nat.eqb_refl. auto.
      * cbn in Hk. destruct (In2 k o' a' d' Hk) as (cs' & Hcs' & Hch'). exists cs'. rewrite g1 in Hcs'. split; auto.
        replace (base + S k) with (S base + k) by lia. rewrite Hch'. rewrite Ch1.
        destruct (Nat.eqb_spec (S base + k) base); [lia|auto].
Qed.

(* ---- the generated graph, characterised ---- *)
Theorem generate_spec s : generate L M = GOk s ->
  exists info : info_t,
    map (fun x => (snd (fst x), snd x)) info = enum_model /\
    g_nodes (s_g s) = seq 0 (List.length info) /\ s_nn s = List.length info /\
    g_next_node (s_g s) = Z.of_nat (List.length info) /\
    g_id2node (s_g s) = map (fun k => (Z.of_nat k, k)) (seq 0 (List.length info)) /\
    g_name2node (s_g s) = fold_left (fun d k => dset seqb d (full_name (s_nh s k)) k) (seq 0 (List.length info)) [] /\
    mirror_cnt s /\
    (forall k o a d, nth_error info k = Some (o, a, d) ->
       o = k /\ exists n cs, node_for L M a d = GOk n /\ expected_children (s_g s) a d = Some cs /\
         Lab (s_nh s k) = Lab n /\ n_id (s_nh s k) = Some (Z.of_nat k) /\
         n_children (s_nh s k) = cs /\ n_comp (s_nh s k) = []).
Proof.
  unfold generate, generate_from. intros H.
  destruct (fold_left (add_asset_nodes L M) (im_assets M) (GOk (init, []))) as [[s1 info]|e] eqn:E1; cbn [gbind] in H; [|discriminate].
  destruct (fold_assets_GI _ _ _ _ _ GI_init E1) as [G Henum]. cbn in Henum.
  assert (Hidx : forall k o a d, nth_error info k = Some (o, a, d) -> o = 0 + k).
  { intros k o a d Hk. destruct (gi_info _ _ G _ _ _ _ Hk). auto. }
  destruct (fold_link_spec info 0 s1 s Hidx H) as ((g1 & g2 & g3) & St & Mi & Out & In2).
  assert (FN : forall k, full_name (s_nh s k) = full_name (s_nh s1 k)).
  { intros k. destruct (St k) as (L1 & I1 & _). unfold full_name. unfold Lab in L1. inversion L1. rewrite I1. congruence. }
  exists info. split; [exact Henum|]. rewrite g1. split; [apply G|]. split; [rewrite g2; apply G|]. split; [apply G|].
  split; [apply G|]. split.
  { rewrite (gi_name2node _ _ G). apply fold_left_ext_in. intros dd k Hk. rewrite FN. reflexivity. }
  split.
  { apply Mi. intros p c. destruct (gi_norel _ _ G p) as (-> & _). destruct (gi_norel _ _ G c) as (_ & -> & _). reflexivity. }
  intros k o a d Hk. destruct (gi_info _ _ G _ _ _ _ Hk) as (-> & n & Hn & Hnh). split; auto.
  destruct (In2 k k a d Hk) as (cs & Hcs & Hch). exists n, cs. split; auto. split; [first [exact Hcs | rewrite g1; exact Hcs]|].
  destruct (St k) as (L1 & I1 & C1). cbn [Nat.add] in Hch.
  destruct (gi_norel _ _ G k) as (Ch0 & _ & Co0).
  split; [rewrite L1, Hnh; reflexivity|]. split; [rewrite I1, Hnh; reflexivity|].
  split; [rewrite Hch, Ch0; reflexivity|]. rewrite C1. exact Co0.
Qed.
End GenThm.
