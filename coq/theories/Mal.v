(* Mal.v — the MAL compiler (maltoolbox/language/compiler): tokens of mal.g4, concrete syntax trees (= ANTLR parse
   trees, one type per grammar rule), their yield, the language specification the visitor builds (typed), and
   mal_visitor.py as coded: left folds for expr / parts / ttcexpr / ttcterm, field-vs-attackStep classification by
   scanning the tokens to the right of a part inside the enclosing reaches clause, multiplicity normalisation,
   merge of included files and de-duplication. *)
From MT Require Import Prelude Codec Lang.

(* ---------- tokens ---------- *)
Inductive tok :=
| KAbstract | KAsset | KAssociations | KExtends | KInclude | KCategory | KInfo | KLet
| TString (s : string)          (* content without the quotes *)
| TInt (s : string) | TFloat (s : string)
| KE | KC | KI | KA
| TId (s : string)
| LPar | RPar | LCur | RCur | Hash | Colon | LArrow | RArrow | LSq | RSq | Star | Assign | Minus
| Intersect | Union | Range | Dot | And | Or | NotExists | At | Requires | Inherits | LeadsTo | Comma | Plus | Divide | Power.

(* ---------- concrete syntax ---------- *)
Inductive sop := OUnion | OInter | ODiff.
Inductive cexpr := CE (p : cparts) (tl : etail)
with etail := ENil | ECons (o : sop) (p : cparts) (tl : etail)
with cparts := CP (p : cpart) (tl : dtail)
with dtail := DNil | DCons (p : cpart) (tl : dtail)
with cpart := CPart (a : catom) (star : bool) (tys : list string)
with catom := CParen (e : cexpr) | CVar (v : string) | CId (x : string).

Inductive cnumber := CInt (s : string) | CFloat (s : string).
Inductive cttcexpr := TE (t : cttcterm) (tl : tetail)
with tetail := TENil | TECons (plus : bool) (t : cttcterm) (tl : tetail)
with cttcterm := TT (f : cttcfact) (tl : tttail)
with tttail := TTNil | TTCons (star : bool) (f : cttcfact) (tl : tttail)
with cttcfact := TF1 (a : cttcatom) | TF2 (a b : cttcatom)
with cttcatom := TADist (name : string) (args : option (list cnumber)) | TAParen (e : cttcexpr) | TANum (n : cnumber).

Record cmeta := mkCMeta { cm_key : string; cm_val : string }.
Inductive csteptype := StAnd | StOr | StHash | StExists | StNotExists.
Inductive ccia := CiaC | CiaI | CiaA.
Record cstep := mkCStep {
  cs_type : csteptype; cs_name : string; cs_tags : list string; cs_cias : option (ccia * list ccia);
  cs_ttc : option cttcexpr; cs_meta : list cmeta; cs_pre : option (cexpr * list cexpr);
  cs_reaches : option (bool * (cexpr * list cexpr)) }.                (* true = INHERITS '+>' *)
Record cvariable := mkCVar { cv_name : string; cv_expr : cexpr }.
Inductive cmember := MStep (s : cstep) | MVar (v : cvariable).
Record casset := mkCAsset { ca_abstract : bool; ca_name : string; ca_extends : option string; ca_meta : list cmeta;
                            ca_members : list cmember }.
Record ccategory := mkCCat { cc_name : string; cc_meta : list cmeta; cc_assets : list casset }.
Inductive cmultatom := MInt (s : string) | MStar.
Record cmult := mkCMult { cmu_lo : cmultatom; cmu_hi : option cmultatom }.
Record cassociation := mkCAssoc {
  cas_left : string; cas_lfield : string; cas_lmult : cmult; cas_name : string;
  cas_rmult : cmult; cas_rfield : string; cas_right : string; cas_meta : list cmeta }.
Inductive cdecl := DInclude (file : string) | DDefine (k v : string) | DCategory (c : ccategory) | DAssociations (l : list cassociation).
Definition cmal := list cdecl.                (* (declaration)+ | EOF : the empty list is the EOF alternative *)

(* ---------- yield ---------- *)
Definition tok_of_sop (o : sop) : tok := match o with OUnion => Union | OInter => Intersect | ODiff => Minus end.
Fixpoint ftys (l : list string) : list tok := match l with [] => [] | t :: r => LSq :: TId t :: RSq :: ftys r end.
Fixpoint fe (e : cexpr) : list tok := match e with CE p tl => fps p ++ fet tl end
with fet (t : etail) : list tok := match t with ENil => [] | ECons o p tl => tok_of_sop o :: fps p ++ fet tl end
with fps (p : cparts) : list tok := match p with CP p tl => fp p ++ fdt tl end
with fdt (t : dtail) : list tok := match t with DNil => [] | DCons p tl => Dot :: fp p ++ fdt tl end
with fp (p : cpart) : list tok := match p with CPart a st tys => fa a ++ (if st then [Star] else []) ++ ftys tys end
with fa (a : catom) : list tok :=
  match a with CParen e => LPar :: fe e ++ [RPar] | CVar v => [TId v; LPar; RPar] | CId x => [TId x] end.

Definition fnum (n : cnumber) : tok := match n with CInt s => TInt s | CFloat s => TFloat s end.
Fixpoint fnums (l : list cnumber) : list tok :=
  match l with [] => [] | [n] => [fnum n] | n :: r => fnum n :: Comma :: fnums r end.
Fixpoint fte (e : cttcexpr) : list tok := match e with TE t tl => ftt t ++ ftet tl end
with ftet (t : tetail) : list tok := match t with TENil => [] | TECons pl t tl => (if pl then Plus else Minus) :: ftt t ++ ftet tl end
with ftt (t : cttcterm) : list tok := match t with TT f tl => ftf f ++ fttt tl end
with fttt (t : tttail) : list tok := match t with TTNil => [] | TTCons st f tl => (if st then Star else Divide) :: ftf f ++ fttt tl end
with ftf (f : cttcfact) : list tok := match f with TF1 a => fta a | TF2 a b => fta a ++ Power :: fta b end
with fta (a : cttcatom) : list tok :=
  match a with
  | TADist n None => [TId n]
  | TADist n (Some args) => TId n :: LPar :: fnums args ++ [RPar]
  | TAParen e => LPar :: fte e ++ [RPar]
  | TANum n => [fnum n]
  end.

Definition fmeta (m : cmeta) : list tok := [TId (cm_key m); KInfo; Colon; TString (cm_val m)].
Definition fmetas (l : list cmeta) : list tok := flat_map fmeta l.
Definition fsteptype (t : csteptype) : tok :=
  match t with StAnd => And | StOr => Or | StHash => Hash | StExists => KE | StNotExists => NotExists end.
Definition fcia (c : ccia) : tok := match c with CiaC => KC | CiaI => KI | CiaA => KA end.
Fixpoint fexprs (e : cexpr) (l : list cexpr) : list tok :=
  match l with [] => fe e | e2 :: r => fe e ++ Comma :: fexprs e2 r end.
Definition freaches (r : bool * (cexpr * list cexpr)) : list tok :=
  (if fst r then Inherits else LeadsTo) :: fexprs (fst (snd r)) (snd (snd r)).
Definition fstep (s : cstep) : list tok :=
  fsteptype (cs_type s) :: TId (cs_name s) :: flat_map (fun t => [At; TId t]) (cs_tags s) ++
  (match cs_cias s with
   | Some (c, cs) => LCur :: fcia c :: flat_map (fun c => [Comma; fcia c]) cs ++ [RCur]
   | None => [] end) ++
  (match cs_ttc s with Some e => LSq :: fte e ++ [RSq] | None => [] end) ++
  fmetas (cs_meta s) ++
  (match cs_pre s with Some (e, l) => Requires :: fexprs e l | None => [] end) ++
  (match cs_reaches s with Some r => freaches r | None => [] end).
Definition fvariable (v : cvariable) : list tok := KLet :: TId (cv_name v) :: Assign :: fe (cv_expr v).
Definition fmember (m : cmember) : list tok := match m with MStep s => fstep s | MVar v => fvariable v end.
Definition fasset (a : casset) : list tok :=
  (if ca_abstract a then [KAbstract] else []) ++ KAsset :: TId (ca_name a) ::
  (match ca_extends a with Some p => [KExtends; TId p] | None => [] end) ++ fmetas (ca_meta a) ++
  LCur :: flat_map fmember (ca_members a) ++ [RCur].
Definition fcategory (c : ccategory) : list tok :=
  KCategory :: TId (cc_name c) :: fmetas (cc_meta c) ++ LCur :: flat_map fasset (cc_assets c) ++ [RCur].
Definition fmultatom (m : cmultatom) : tok := match m with MInt s => TInt s | MStar => Star end.
Definition fmult (m : cmult) : list tok :=
  fmultatom (cmu_lo m) :: match cmu_hi m with Some h => [Range; fmultatom h] | None => [] end.
Definition fassociation (a : cassociation) : list tok :=
  TId (cas_left a) :: LSq :: TId (cas_lfield a) :: RSq :: fmult (cas_lmult a) ++ LArrow :: TId (cas_name a) :: RArrow ::
  fmult (cas_rmult a) ++ LSq :: TId (cas_rfield a) :: RSq :: TId (cas_right a) :: fmetas (cas_meta a).
Definition fdecl (d : cdecl) : list tok :=
  match d with
  | DInclude f => [KInclude; TString f]
  | DDefine k v => [Hash; TId k; Colon; TString v]
  | DCategory c => fcategory c
  | DAssociations l => KAssociations :: LCur :: flat_map fassociation l ++ [RCur]
  end.
Definition fmal (m : cmal) : list tok := flat_map fdecl m.

(* ---------- the specification the visitor builds ---------- *)
Inductive ttc :=
| TtcNum (text : string)                                   (* value = float(text) *)
| TtcFun (name : string) (args : list string)              (* arguments = [float(text) ...] *)
| TtcBin (op : string) (l r : ttc).                        (* addition subtraction multiplication division exponentiation *)
Record risk := mkRisk { r_conf : bool; r_integ : bool; r_avail : bool }.
Record fstep_ := mkFStep {
  fs_name_ : string; fs_meta : list (string * string); fs_type_ : string; fs_tags : list string;
  fs_risk : option risk; fs_ttc : option ttc;
  fs_requires : option (list sexpr);                       (* overrides is always True *)
  fs_reaches : option (bool * list sexpr) }.               (* (overrides, stepExpressions) *)
Record fasset_ := mkFAsset {
  fa_name : string; fa_meta : list (string * string); fa_category : string; fa_abstract : bool;
  fa_super : option string; fa_vars : list (string * sexpr); fa_steps : list fstep_ }.
Record fcategory_ := mkFCat { fc_name : string; fc_meta : list (string * string) }.
Inductive mval := MvInt (z : Z) | MvNone | MvRaw (s : string).       (* a multiplicity bound after post-processing *)
Record fassoc_ := mkFAssoc {
  fas_name : string; fas_meta : list (string * string); fas_left : string; fas_lfield : string; fas_lmin : mval; fas_lmax : mval;
  fas_right : string; fas_rfield : string; fas_rmin : mval; fas_rmax : mval }.
Record fspec := mkFSpec {
  sp_defines : list (string * string); sp_categories : list fcategory_; sp_assets : list fasset_; sp_assocs : list fassoc_ }.

(* ---------- the visitor ---------- *)
(* {k: v for meta in ctx.meta() ...}: a dict comprehension, later keys replace earlier values in place *)
Definition v_metas (l : list cmeta) : list (string * string) :=
  fold_left (fun d m => dset seqb d (cm_key m) (cm_val m)) l [].

(* _resolve_part_ID_type: None = not inside a reaches clause; Some rest = the tokens to the right, up to the end of
   the reaches clause *)
Fixpoint scan (rest : list tok) : bool :=       (* true = "field" *)
  match rest with
  | [] => false
  | Dot :: _ => true
  | Comma :: _ => false
  | _ :: r => scan r
  end.
Definition classify (ctx : option (list tok)) (x : string) : sexpr :=
  match ctx with None => SField x | Some rest => if scan rest then SField x else SStep x end.
Definition sx_of_sop (o : sop) : sexpr -> sexpr -> sexpr :=
  match o with OUnion => SUnion | OInter => SInter | ODiff => SDiff end.
Definition after (ctx : option (list tok)) (toks : list tok) : option (list tok) :=
  match ctx with None => None | Some rest => Some (toks ++ rest) end.

Fixpoint v_e (e : cexpr) (ctx : option (list tok)) : sexpr :=
  match e with CE p tl => v_et tl (v_ps p (after ctx (fet tl))) ctx end
with v_et (t : etail) (lhs : sexpr) (ctx : option (list tok)) : sexpr :=
  match t with
  | ENil => lhs
  | ECons o p tl => v_et tl (sx_of_sop o lhs (v_ps p (after ctx (fet tl)))) ctx
  end
with v_ps (p : cparts) (ctx : option (list tok)) : sexpr :=
  match p with CP p tl => v_dt tl (v_p p (after ctx (fdt tl))) ctx end
with v_dt (t : dtail) (lhs : sexpr) (ctx : option (list tok)) : sexpr :=
  match t with
  | DNil => lhs
  | DCons p tl => v_dt tl (SCollect lhs (v_p p (after ctx (fdt tl)))) ctx
  end
with v_p (p : cpart) (ctx : option (list tok)) : sexpr :=
  match p with
  | CPart a st tys =>
      let suffix := (if st then [Star] else []) ++ ftys tys in
      let base := v_a a (after ctx suffix) in
      let base := if st then STrans base else base in
      fold_left (fun acc t => SSub t acc) tys base
  end
with v_a (a : catom) (ctx : option (list tok)) : sexpr :=
  match a with
  | CParen e => v_e e (after ctx [RPar])
  | CVar v => SVar v
  | CId x => classify ctx x
  end.

Definition num_text (n : cnumber) : string := match n with CInt s => s | CFloat s => s end.
Fixpoint v_te (e : cttcexpr) : ttc := match e with TE t tl => v_tet tl (v_tt t) end
with v_tet (t : tetail) (lhs : ttc) : ttc :=
  match t with TENil => lhs | TECons pl t tl => v_tet tl (TtcBin (if pl then "addition" else "subtraction") lhs (v_tt t)) end
with v_tt (t : cttcterm) : ttc := match t with TT f tl => v_ttt tl (v_tf f) end
with v_ttt (t : tttail) (lhs : ttc) : ttc :=
  match t with TTNil => lhs | TTCons st f tl => v_ttt tl (TtcBin (if st then "multiplication" else "division") lhs (v_tf f)) end
with v_tf (f : cttcfact) : ttc :=
  match f with TF1 a => v_ta a | TF2 a b => TtcBin "exponentiation" (v_ta a) (v_ta b) end
with v_ta (a : cttcatom) : ttc :=
  match a with
  | TADist n None => TtcFun n []
  | TADist n (Some args) => TtcFun n (map num_text args)
  | TAParen e => v_te e
  | TANum n => TtcNum (num_text n)
  end.

Definition v_steptype (t : csteptype) : string :=
  match t with StOr => "or" | StAnd => "and" | StHash => "defense" | StExists => "exist" | StNotExists => "notExist" end.
Definition v_cias (c : ccia) (cs : list ccia) : risk :=
  fold_left (fun r c => match c with
                        | CiaC => mkRisk true (r_integ r) (r_avail r)
                        | CiaI => mkRisk (r_conf r) true (r_avail r)
                        | CiaA => mkRisk (r_conf r) (r_integ r) true
                        end) (c :: cs) (mkRisk false false false).
(* the expressions of a reaches clause; each sees the tokens to its right up to the end of the clause *)
Fixpoint v_reach_exprs (e : cexpr) (l : list cexpr) : list sexpr :=
  match l with
  | [] => [v_e e (Some [])]
  | e2 :: r => v_e e (Some (Comma :: fexprs e2 r)) :: v_reach_exprs e2 r
  end.
Definition v_step (s : cstep) : fstep_ :=
  mkFStep (cs_name s) (v_metas (cs_meta s)) (v_steptype (cs_type s)) (cs_tags s)
          (match cs_cias s with Some (c, cs) => Some (v_cias c cs) | None => None end)
          (match cs_ttc s with Some e => Some (v_te e) | None => None end)
          (match cs_pre s with Some (e, l) => Some (map (fun e => v_e e None) (e :: l)) | None => None end)
          (match cs_reaches s with Some (inh, (e, l)) => Some (negb inh, v_reach_exprs e l) | None => None end).
Definition v_asset (cat : string) (a : casset) : fasset_ :=
  mkFAsset (ca_name a) (v_metas (ca_meta a)) cat (ca_abstract a) (ca_extends a)
           (flat_map (fun m => match m with MVar v => [(cv_name v, v_e (cv_expr v) None)] | MStep _ => [] end) (ca_members a))
           (flat_map (fun m => match m with MStep s => [v_step s] | MVar _ => [] end) (ca_members a)).

(* _post_process_multitudes *)
Definition v_bound_text (m : cmultatom) : string := match m with MInt s => s | MStar => "*" end.
(* INT lexemes are digit strings ([0-9]+), for which str.isdigit() holds and int() is Z_of_string *)
Definition cast_bound (s : string) : mval := match Z_of_string s with Some z => MvInt z | None => MvRaw s end.
Definition v_mult (m : cmult) : mval * mval :=
  let lo := v_bound_text (cmu_lo m) in
  let hi := match cmu_hi m with Some h => v_bound_text h | None => lo end in
  (if seqb lo "*" then MvInt 0 else cast_bound lo, if seqb hi "*" then MvNone else cast_bound hi).
Definition v_assoc (a : cassociation) : fassoc_ :=
  let '(lmin, lmax) := v_mult (cas_lmult a) in
  let '(rmin, rmax) := v_mult (cas_rmult a) in
  mkFAssoc (cas_name a) (v_metas (cas_meta a)) (cas_left a) (cas_lfield a) lmin lmax (cas_right a) (cas_rfield a) rmin rmax.

(* structural equality used by `item not in unique` *)
Fixpoint ttc_eqb (a b : ttc) : bool :=
  match a, b with
  | TtcNum x, TtcNum y => seqb x y
  | TtcFun n xs, TtcFun m ys => seqb n m && list_eqb seqb xs ys
  | TtcBin o l r, TtcBin o2 l2 r2 => seqb o o2 && ttc_eqb l l2 && ttc_eqb r r2
  | _, _ => false
  end.
Definition meta_eqb := list_eqb (pair_eqb seqb seqb).
Definition risk_eqb (a b : risk) : bool :=
  Bool.eqb (r_conf a) (r_conf b) && Bool.eqb (r_integ a) (r_integ b) && Bool.eqb (r_avail a) (r_avail b).
Definition fstep_eqb (a b : fstep_) : bool :=
  seqb (fs_name_ a) (fs_name_ b) && meta_eqb (fs_meta a) (fs_meta b) && seqb (fs_type_ a) (fs_type_ b) &&
  list_eqb seqb (fs_tags a) (fs_tags b) && opt_eqb risk_eqb (fs_risk a) (fs_risk b) && opt_eqb ttc_eqb (fs_ttc a) (fs_ttc b) &&
  opt_eqb (list_eqb sexpr_eqb) (fs_requires a) (fs_requires b) &&
  opt_eqb (pair_eqb Bool.eqb (list_eqb sexpr_eqb)) (fs_reaches a) (fs_reaches b).
Definition fasset_eqb (a b : fasset_) : bool :=
  seqb (fa_name a) (fa_name b) && meta_eqb (fa_meta a) (fa_meta b) && seqb (fa_category a) (fa_category b) &&
  Bool.eqb (fa_abstract a) (fa_abstract b) && opt_eqb seqb (fa_super a) (fa_super b) &&
  list_eqb (pair_eqb seqb sexpr_eqb) (fa_vars a) (fa_vars b) && list_eqb fstep_eqb (fa_steps a) (fa_steps b).
Definition fcat_eqb (a b : fcategory_) : bool := seqb (fc_name a) (fc_name b) && meta_eqb (fc_meta a) (fc_meta b).
Definition mval_eqb (a b : mval) : bool :=
  match a, b with MvInt x, MvInt y => Z.eqb x y | MvNone, MvNone => true | MvRaw x, MvRaw y => seqb x y | _, _ => false end.
Definition fassoc_eqb (a b : fassoc_) : bool :=
  seqb (fas_name a) (fas_name b) && meta_eqb (fas_meta a) (fas_meta b) && seqb (fas_left a) (fas_left b) &&
  seqb (fas_lfield a) (fas_lfield b) && mval_eqb (fas_lmin a) (fas_lmin b) && mval_eqb (fas_lmax a) (fas_lmax b) &&
  seqb (fas_right a) (fas_right b) && seqb (fas_rfield a) (fas_rfield b) && mval_eqb (fas_rmin a) (fas_rmin b) &&
  mval_eqb (fas_rmax a) (fas_rmax b).

Section Dedupe.
Context {A : Type} (eqb : A -> A -> bool).
Definition dedupe (l : list A) : list A :=
  fold_left (fun unique x => if existsb (eqb x) unique then unique else unique ++ [x]) l [].
End Dedupe.

(* visitMal. `files` resolves an include to the parse tree of the included file (None = the file cannot be compiled);
   fuel bounds the include depth (a file including itself never terminates in the implementation). *)
Definition spec_empty : fspec := mkFSpec [] [] [] [].
Definition dict_update (d u : list (string * string)) : list (string * string) :=
  fold_left (fun d kv => dset seqb d (fst kv) (snd kv)) u d.
Definition spec_dedupe (s : fspec) : fspec :=
  mkFSpec (sp_defines s) (dedupe fcat_eqb (sp_categories s)) (dedupe fasset_eqb (sp_assets s)) (dedupe fassoc_eqb (sp_assocs s)).

Section Files.
Variable files : string -> option cmal.
Fixpoint v_mal (fuel : nat) (m : cmal) : option fspec :=
  match fuel with
  | O => None
  | S f =>
    option_map spec_dedupe
      (fold_left (fun acc d =>
         match acc with
         | None => None
         | Some s =>
           match d with
           | DCategory c =>
               Some (mkFSpec (sp_defines s) (sp_categories s ++ [mkFCat (cc_name c) (v_metas (cc_meta c))])
                             (sp_assets s ++ map (v_asset (cc_name c)) (cc_assets c)) (sp_assocs s))
           | DDefine k v => Some (mkFSpec (dset seqb (sp_defines s) k v) (sp_categories s) (sp_assets s) (sp_assocs s))
           | DAssociations l => Some (mkFSpec (sp_defines s) (sp_categories s) (sp_assets s) (sp_assocs s ++ map v_assoc l))
           | DInclude file =>
               match files file with
               | None => None
               | Some m' =>
                 match v_mal f m' with
                 | None => None
                 | Some inc => Some (mkFSpec (dict_update (sp_defines s) (sp_defines inc)) (sp_categories s ++ sp_categories inc)
                                             (sp_assets s ++ sp_assets inc) (sp_assocs s ++ sp_assocs inc))
                 end
               end
           end
         end) m (Some spec_empty))
  end.
End Files.

(* ---------- the specification as the JSON value the implementation returns ---------- *)
Section Json.
Variable numval : string -> jv.              (* float(text) as a value tree *)
Fixpoint jv_of_ttc (t : ttc) : jv :=
  match t with
  | TtcNum s => JDict [("type", JStr "number"); ("value", numval s)]
  | TtcFun n args => JDict [("type", JStr "function"); ("name", JStr n); ("arguments", JList (map numval args))]
  | TtcBin o l r => JDict [("type", JStr o); ("lhs", jv_of_ttc l); ("rhs", jv_of_ttc r)]
  end.
Fixpoint jv_of_sexpr (e : sexpr) : jv :=
  match e with
  | SStep n => JDict [("type", JStr "attackStep"); ("name", JStr n)]
  | SField n => JDict [("type", JStr "field"); ("name", JStr n)]
  | SVar n => JDict [("type", JStr "variable"); ("name", JStr n)]
  | SCollect l r => JDict [("type", JStr "collect"); ("lhs", jv_of_sexpr l); ("rhs", jv_of_sexpr r)]
  | SUnion l r => JDict [("type", JStr "union"); ("lhs", jv_of_sexpr l); ("rhs", jv_of_sexpr r)]
  | SInter l r => JDict [("type", JStr "intersection"); ("lhs", jv_of_sexpr l); ("rhs", jv_of_sexpr r)]
  | SDiff l r => JDict [("type", JStr "difference"); ("lhs", jv_of_sexpr l); ("rhs", jv_of_sexpr r)]
  | STrans e => JDict [("type", JStr "transitive"); ("stepExpression", jv_of_sexpr e)]
  | SSub t e => JDict [("type", JStr "subType"); ("subType", JStr t); ("stepExpression", jv_of_sexpr e)]
  end.
Definition jv_of_meta (m : list (string * string)) : jv := JDict (map (fun kv => (fst kv, JStr (snd kv))) m).
Definition jv_of_step (s : fstep_) : jv :=
  JDict [("name", JStr (fs_name_ s)); ("meta", jv_of_meta (fs_meta s)); ("type", JStr (fs_type_ s)); ("tags", jstrs (fs_tags s));
         ("risk", match fs_risk s with
                  | Some r => JDict [("isConfidentiality", JBool (r_conf r)); ("isIntegrity", JBool (r_integ r)); ("isAvailability", JBool (r_avail r))]
                  | None => JNull end);
         ("ttc", jopt jv_of_ttc (fs_ttc s));
         ("requires", match fs_requires s with
                      | Some l => JDict [("overrides", JBool true); ("stepExpressions", JList (map jv_of_sexpr l))] | None => JNull end);
         ("reaches", match fs_reaches s with
                     | Some (ov, l) => JDict [("overrides", JBool ov); ("stepExpressions", JList (map jv_of_sexpr l))] | None => JNull end)].
Definition jv_of_asset (a : fasset_) : jv :=
  JDict [("name", JStr (fa_name a)); ("meta", jv_of_meta (fa_meta a)); ("category", JStr (fa_category a));
         ("isAbstract", JBool (fa_abstract a)); ("superAsset", jopt JStr (fa_super a));
         ("variables", JList (map (fun v => JDict [("name", JStr (fst v)); ("stepExpression", jv_of_sexpr (snd v))]) (fa_vars a)));
         ("attackSteps", JList (map jv_of_step (fa_steps a)))].
Definition jv_of_mval (m : mval) : jv := match m with MvInt z => JInt z | MvNone => JNull | MvRaw s => JStr s end.
Definition jv_of_assoc (a : fassoc_) : jv :=
  JDict [("name", JStr (fas_name a)); ("meta", jv_of_meta (fas_meta a)); ("leftAsset", JStr (fas_left a)); ("leftField", JStr (fas_lfield a));
         ("leftMultiplicity", JDict [("min", jv_of_mval (fas_lmin a)); ("max", jv_of_mval (fas_lmax a))]);
         ("rightAsset", JStr (fas_right a)); ("rightField", JStr (fas_rfield a));
         ("rightMultiplicity", JDict [("min", jv_of_mval (fas_rmin a)); ("max", jv_of_mval (fas_rmax a))])].
Definition jv_of_spec (s : fspec) : jv :=
  JDict [("formatVersion", JStr "1.0.0"); ("defines", jv_of_meta (sp_defines s));
         ("categories", JList (map (fun c => JDict [("name", JStr (fc_name c)); ("meta", jv_of_meta (fc_meta c))]) (sp_categories s)));
         ("assets", JList (map jv_of_asset (sp_assets s))); ("associations", JList (map jv_of_assoc (sp_assocs s)))].
End Json.

(* float(text) for the lexemes INT / FLOAT, as the value tree the harness prints for a Python float: an integer number
   of 1/1024ths when exact, else the text (used by the correspondence only; the theorems never look at number values) *)
Fixpoint split_dot (s : string) : string * option string :=
  match s with
  | EmptyString => (EmptyString, None)
  | String c r => if Ascii.eqb c "."%char then (EmptyString, Some r)
                  else let '(a, b) := split_dot r in (String c a, b)
  end.
Definition digits_val (s : string) : Z :=
  (fix go (s : string) (acc : Z) : Z :=
     match s with EmptyString => acc | String c r => go r (acc * 10 + (Z.of_nat (Ascii.nat_of_ascii c) - 48))%Z end) s 0%Z.
Definition numval (s : string) : jv :=
  let '(ip, fp) := split_dot s in
  let fp := match fp with Some f => f | None => EmptyString end in
  let n := (digits_val ip * 10 ^ Z.of_nat (String.length fp) + digits_val fp)%Z in
  let d := (10 ^ Z.of_nat (String.length fp))%Z in
  if Z.eqb ((n * 1024) mod d) 0 then JFlt (n * 1024 / d) else JStr ("float:" ++ s).

(* ---------- induction principles for the mutually defined trees; decidable equality of tokens ---------- *)
Scheme cexpr_mind := Induction for cexpr Sort Prop
with etail_mind := Induction for etail Sort Prop
with cparts_mind := Induction for cparts Sort Prop
with dtail_mind := Induction for dtail Sort Prop
with cpart_mind := Induction for cpart Sort Prop
with catom_mind := Induction for catom Sort Prop.
Combined Scheme cst_mutind from cexpr_mind, etail_mind, cparts_mind, dtail_mind, cpart_mind, catom_mind.
Scheme cttcexpr_mind := Induction for cttcexpr Sort Prop
with tetail_mind := Induction for tetail Sort Prop
with cttcterm_mind := Induction for cttcterm Sort Prop
with tttail_mind := Induction for tttail Sort Prop
with cttcfact_mind := Induction for cttcfact Sort Prop
with cttcatom_mind := Induction for cttcatom Sort Prop.
Combined Scheme ttc_mutind from cttcexpr_mind, tetail_mind, cttcterm_mind, tttail_mind, cttcfact_mind, cttcatom_mind.
Scheme Equality for tok.
