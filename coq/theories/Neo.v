(* Neo.v — what ingestors/neo4j.py sends for a model (one node per asset, two relationships per linked pair), and the
   reconstruction get_model performs from the two query results (C19). Document level: nodes and relationships are
   triples of strings as py2neo receives them. *)
From MT Require Import Prelude ListFacts Codec ModelIO Lang LangGraph Classes Legacy.

Notation neo_node := (string * string * string)%type (only parsing).          (* asset_id, name, type (also the label) *)
Notation neo_rel := (string * string * string)%type (only parsing).           (* start asset_id, relationship type, end asset_id *)
Definition export_nodes (c : content) : list neo_node :=
  map (fun a => (string_of_Z (ca_id a), ca_name a, ca_type a)) (c_assets c).
Definition export_rels (c : content) : list neo_rel :=
  flat_map (fun a => flat_map (fun l => flat_map (fun r =>
     [(string_of_Z l, cc_lfield a, string_of_Z r); (string_of_Z r, cc_rfield a, string_of_Z l)]) (cc_right a)) (cc_left a)) (c_assocs c).

Theorem export_nodes_spec c n : In n (export_nodes c) <-> exists a, In a (c_assets c) /\ n = (string_of_Z (ca_id a), ca_name a, ca_type a).
Proof. unfold export_nodes. rewrite in_map_iff. split; intros (a & H1 & H2); exists a; auto. Qed.
Theorem export_nodes_count c : List.length (export_nodes c) = List.length (c_assets c).
Proof. apply map_length. Qed.
Theorem export_rels_spec c x f y : In (x, f, y) (export_rels c) <->
  exists a l r, In a (c_assocs c) /\ In l (cc_left a) /\ In r (cc_right a) /\
    ((x = string_of_Z l /\ f = cc_lfield a /\ y = string_of_Z r) \/ (x = string_of_Z r /\ f = cc_rfield a /\ y = string_of_Z l)).
Proof.
  unfold export_rels. rewrite in_flat_map. split.
  - intros (a & Ha & H). apply in_flat_map in H. destruct H as (l & Hl & H). apply in_flat_map in H. destruct H as (r & Hr & H).
    exists a, l, r. repeat split; auto. destruct H as [H|[H|[]]]; inversion H; auto.
  - intros (a & l & r & Ha & Hl & Hr & H). exists a. split; auto. apply in_flat_map. exists l. split; auto. apply in_flat_map. exists r. split; auto.
    destruct H as [(-> & -> & ->)|(-> & -> & ->)]; cbn; auto.
Qed.
Lemma rels_count_assoc a : forall ls,
  List.length (flat_map (fun l => flat_map (fun r0 => [(string_of_Z l, cc_lfield a, string_of_Z r0); (string_of_Z r0, cc_rfield a, string_of_Z l)]) (cc_right a)) ls)
  = 2 * List.length (flat_map (fun l => map (fun r0 => (cc_class a, cc_lfield a, l, cc_rfield a, r0)) (cc_right a)) ls).
Proof.
  induction ls as [|l ls IHl]; cbn [flat_map]; auto. rewrite !app_length, IHl, map_length.
  assert (F : forall rs, List.length (flat_map (fun r0 => [(string_of_Z l, cc_lfield a, string_of_Z r0); (string_of_Z r0, cc_rfield a, string_of_Z l)]) rs) = 2 * List.length rs)
    by (induction rs; cbn in *; lia).
  rewrite F. lia.
Qed.
Theorem export_rels_count c : List.length (export_rels c) = 2 * List.length (pairs_of c).
Proof.
  assert (FC : forall {A B} (f : A -> list B) x l, flat_map f (x :: l) = f x ++ flat_map f l) by reflexivity.
  unfold export_rels, pairs_of. generalize (c_assocs c) as assocs. induction assocs as [|a assocs IH]; [reflexivity|].
  rewrite !FC, !app_length, IH, rels_count_assoc. lia.
Qed.

(* ---- get_model: rows of the second query, then the reconstruction ---- *)
Section Import.
Variable class_of : string -> string -> string -> string -> option string.
Variable first_field : string -> string.                      (* class name -> its first field *)
Definition type_of_node (nodes : list neo_node) (i : string) : option string :=
  option_map (fun n => snd n) (find (fun n => seqb (fst (fst n)) i) nodes).
(* every relationship a -> b paired with every other relationship b -> a *)
Definition rows (rels : list neo_rel) : list (string * string * string * string) :=
  flat_map (fun i => let r1 := nth i rels ("", "", "") in
     flat_map (fun j => let r2 := nth j rels ("", "", "") in
        if negb (Nat.eqb i j) && seqb (fst (fst r2)) (snd r1) && seqb (snd r2) (fst (fst r1))
        then [(fst (fst r1), snd (fst r1), snd (fst r2), snd r1)] else [])
     (seq 0 (List.length rels))) (seq 0 (List.length rels)).
Definition link_exists (links : list (string * string * string * string * string)) (cls fa fb : string) : bool :=
  existsb (fun p => let '(c, _, x, _, y) := p in seqb c cls && seqb x fa && seqb y fb) links.
Definition import_links (nodes : list neo_node) (rels : list neo_rel) : option (list (string * string * string * string * string)) :=
  fold_left (fun acc row =>
    match acc with
    | None => None
    | Some links =>
      let '(a, lf, rf, b) := row in
      match type_of_node nodes a, type_of_node nodes b with
      | Some ta, Some tb =>
        match class_of lf rf ta tb with
        | None => Some links                                  (* a pair of relationships that is not a link *)
        | Some cls =>
          let ff := first_field cls in
          let '(fa, fb, f1, f2) := if seqb lf ff then (a, b, lf, rf) else (b, a, rf, lf) in
          if link_exists links cls fa fb then Some links else Some (links ++ [(cls, f1, fa, f2, fb)])
        end
      | _, _ => None
      end
    end) (rows rels) (Some []).
End Import.

Definition triple_key (t : string * string * string) : string := (fst (fst t) ++ "/" ++ snd (fst t) ++ "/" ++ snd t)%string.
Definition neo_check (x : content * list neo_node * list neo_rel) : bool :=
  let '(c, nodes, rels) := x in
  list_eqb seqb (isort String.leb (map triple_key (export_nodes c))) (isort String.leb (map triple_key nodes)) &&
  list_eqb seqb (isort String.leb (map triple_key (export_rels c))) (isort String.leb (map triple_key rels)).
(* the reconstruction from what was exported gives back the linked pairs (evaluated per case; no theorem) *)
Definition neo_import_check (x : lang * content) : bool :=
  let '(L, c) := x in
  match lg_assocs L with
  | LOk created =>
    let first_field cls := match dget seqb (assoc_classes created) cls with Some k => fs_name (k_l k) | None => "" end in
    match import_links (scad_class_of L created) first_field (export_nodes c) (export_rels c) with
    | Some links =>
        list_eqb seqb (norm_links (pairs_of c))
                 (isort String.leb (map (fun p => let '(cls, f1, x, f2, y) := p in (cls ++ "/" ++ f1 ++ "/" ++ x ++ "/" ++ f2 ++ "/" ++ y)%string) links))
    | None => false
    end
  | LErr _ => false
  end.

(* the whole of get_model: the reading of the query results (import_links) followed by the rebuild through the Model
   API (ModelLoad.load on the assets and one association per imported link), against the model the implementation
   built (observed like a history of API calls) *)
From MT Require Import Model ModelOps ModelLoad.
Definition assoc_key (a : cassoc) : string :=
  (cc_class a ++ "/" ++ cc_lfield a ++ "/" ++ String.concat "," (map string_of_Z (cc_left a)) ++ "/" ++ cc_rfield a ++ "/"
   ++ String.concat "," (map string_of_Z (cc_right a)))%string.
(* the database returns nodes and rows in no particular order: assets and associations are compared as multisets *)
Definition neo_load_check (x : lang * content * content) : bool :=
  let '(L, c, back) := x in
  match lg_assocs L with
  | LOk created =>
    let first_field cls := match dget seqb (assoc_classes created) cls with Some k => fs_name (k_l k) | None => "" end in
    match import_links (scad_class_of L created) first_field (export_nodes c) (export_rels c) with
    | Some links =>
      match omap (fun p => let '(cls, f1, x, f2, y) := p in
                           match Z_of_string x, Z_of_string y with
                           | Some xi, Some yi => Some (mkCC cls f1 [xi] f2 [yi] [])
                           | _, _ => None
                           end) links with
      | Some assocs =>
        let c' := mkC (c_name c) (map (fun a => mkCA (ca_id a) (ca_name a) (ca_type a) [] []) (c_assets c)) assocs [] in
        match load (class_defenses L) c' with
        | (s, MOk) =>
          let got := content_of (class_defenses L) (c_name c) s in
          list_eqb casset_eqb (isort (fun a b => Z.leb (ca_id a) (ca_id b)) (c_assets got))
                              (isort (fun a b => Z.leb (ca_id a) (ca_id b)) (c_assets back)) &&
          list_eqb seqb (isort String.leb (map assoc_key (c_assocs got))) (isort String.leb (map assoc_key (c_assocs back)))
        | _ => false
        end
      | None => false
      end
    | None => false
    end
  | LErr _ => false
  end.
