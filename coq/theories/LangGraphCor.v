(* LangGraphCor.v — the association nodes of the language graph and the association lookup (C15). *)
From MT Require Import Prelude Lang LangThm SubThm LangGraph.

Section Cor.
Variable L : lang.

Lemma assoc_same_spec a b : assoc_same a b = true <->
  ac_name a = ac_name b /\ ac_lasset a = ac_lasset b /\ ac_rasset a = ac_rasset b /\
  ac_lfield a = ac_lfield b /\ ac_rfield a = ac_rfield b.
Proof. unfold assoc_same. rewrite !andb_true_iff, !seqb_spec. tauto. Qed.

Lemma assocs_for_sound : forall fuel t c, In c (assocs_for L fuel t) -> In c (l_assocs L).
Proof.
  induction fuel as [|f IH]; intros t c H; cbn in H; [destruct H|].
  destruct (find_asset L t) as [a|]; [|destruct H]. apply in_app_or in H. destruct H as [H|H].
  - destruct (ad_super a); [eapply IH; eauto|destruct H].
  - apply filter_In in H. tauto.
Qed.
Lemma assocs_for_own fuel t a c : find_asset L t = Some a -> In c (l_assocs L) ->
  (ac_lasset c = t \/ ac_rasset c = t) -> In c (assocs_for L (S fuel) t).
Proof.
  intros Ea Hc He. cbn. rewrite Ea. apply in_or_app. right. apply filter_In. split; auto.
  apply orb_true_iff. destruct He as [<-|<-]; [left|right]; apply seqb_spec; auto.
Qed.

Definition Created (created : list assocdecl) : Prop :=
  (forall c, In c created -> In c (l_assocs L) /\ has_asset L (ac_lasset c) = true /\ has_asset L (ac_rasset c) = true).

Lemma add_assoc_fold : forall l acc created,
  fold_left (add_assoc L) l (LOk acc) = LOk created ->
  (forall c, In c l -> In c (l_assocs L)) -> Created acc ->
  Created created /\ incl acc created /\ (forall c, In c l -> exists c', In c' created /\ assoc_same c c' = true).
Proof.
  assert (ERR : forall l e, fold_left (add_assoc L) l (LErr e) = LErr e) by (induction l; cbn; auto).
  induction l as [|c r IH]; intros acc created H Hl Ha; cbn [fold_left] in H.
  - inversion H; subst. split; auto. split; [apply incl_refl|intros ? []].
  - unfold add_assoc at 2 in H. cbn [lbind] in H.
    destruct (negb (has_asset L (ac_lasset c)) || negb (has_asset L (ac_rasset c))) eqn:Eends; [rewrite ERR in H; discriminate|].
    apply orb_false_iff in Eends. destruct Eends as [E1 E2]. apply negb_false_iff in E1, E2.
    destruct (existsb (assoc_same c) acc) eqn:Ex.
    + destruct (IH _ _ H (fun x Hx => Hl x (or_intror Hx)) Ha) as (A & B & Cc). split; auto. split; auto.
      intros c0 [E0|Hc0]; [subst c0|auto]. apply existsb_exists in Ex. destruct Ex as (c' & Hc' & Es). exists c'. split; auto.
    + assert (Ha' : Created (acc ++ [c])).
      { intros x Hx. apply in_app_or in Hx. destruct Hx as [Hx|[<-|[]]]; auto. split; [apply Hl; left; auto|auto]. }
      destruct (IH _ _ H (fun x Hx => Hl x (or_intror Hx)) Ha') as (A & B & Cc). split; auto. split.
      * intros x Hx. apply B. apply in_or_app. auto.
      * intros c0 [E0|Hc0]; [subst c0|auto]. exists c. split; [apply B; apply in_or_app; right; left; auto|].
        apply assoc_same_spec. auto 6.
Qed.

Theorem created_spec created : lg_assocs L = LOk created ->
  Created created /\
  (forall c t a, In c (l_assocs L) -> find_asset L t = Some a -> (ac_lasset c = t \/ ac_rasset c = t) ->
     exists c', In c' created /\ assoc_same c c' = true).
Proof.
  unfold lg_assocs.
  assert (ERR : forall l e, fold_left (fun acc t => fold_left (add_assoc L) (assocs_for L (lang_fuel L) t) acc) l (LErr e) = LErr e).
  { assert (E : forall l e, fold_left (add_assoc L) l (LErr e) = LErr e) by (induction l; cbn; auto).
    induction l as [|t r IH]; intros e; cbn [fold_left]; auto. rewrite E. auto. }
  assert (G : forall l acc cr,
     fold_left (fun acc t => fold_left (add_assoc L) (assocs_for L (lang_fuel L) t) acc) l (LOk acc) = LOk cr ->
     Created acc -> Created cr /\ incl acc cr /\
     forall t c, In t l -> In c (assocs_for L (lang_fuel L) t) -> exists c', In c' cr /\ assoc_same c c' = true).
  { induction l as [|t r IH]; intros acc cr H Ha; cbn [fold_left] in H.
    - inversion H; subst. split; auto. split; [apply incl_refl|intros ? ? []].
    - destruct (fold_left (add_assoc L) (assocs_for L (lang_fuel L) t) (LOk acc)) as [mid|e] eqn:Em; [|rewrite ERR in H; discriminate].
      destruct (add_assoc_fold _ _ _ Em (fun c Hc => assocs_for_sound _ _ _ Hc) Ha) as (A1 & B1 & C1).
      destruct (IH _ _ H A1) as (A2 & B2 & C2). split; auto. split; [intros x Hx; auto|].
      intros t0 c [E0|Ht0] Hc; [subst t0|eauto]. destruct (C1 c Hc) as (c' & Hc' & Es). exists c'. split; auto. }
  intros H. destruct (G _ _ _ H) as (A & _ & Cc); [intros ? []|]. split; auto.
  intros c t a Hc Ea He. apply (Cc t c).
  - destruct (find_asset_In _ _ _ Ea) as [Hin <-]. apply in_map. auto.
  - unfold lang_fuel. eapply assocs_for_own; eauto.
Qed.

(* asset.associations: exactly the association nodes in which the asset or an ancestor takes part *)
Theorem asset_assocs_spec created t c :
  In c (asset_assocs L created t) <->
  In c created /\ (is_subasset_of L t (ac_lasset c) = true \/ is_subasset_of L t (ac_rasset c) = true).
Proof. unfold asset_assocs, takes_part. rewrite filter_In, orb_true_iff. tauto. Qed.

(* get_association_by_fields_and_assets answers correctly in both orientations *)
Definition lookup_matches (c : assocdecl) (f1 f2 t1 t2 : string) : Prop :=
  (ac_lfield c = f1 /\ ac_rfield c = f2 /\ is_subasset_of L t1 (ac_lasset c) = true /\ is_subasset_of L t2 (ac_rasset c) = true) \/
  (ac_lfield c = f2 /\ ac_rfield c = f1 /\ is_subasset_of L t2 (ac_lasset c) = true /\ is_subasset_of L t1 (ac_rasset c) = true).
Theorem assoc_lookup_spec created f1 f2 t1 t2 :
  (forall c, assoc_lookup L created f1 f2 t1 t2 = Some c -> In c created /\ lookup_matches c f1 f2 t1 t2) /\
  (assoc_lookup L created f1 f2 t1 t2 = None -> forall c, In c created -> ~ lookup_matches c f1 f2 t1 t2) /\
  (assoc_lookup L created f1 f2 t1 t2 = assoc_lookup L created f2 f1 t2 t1).
Proof.
  unfold assoc_lookup, lookup_matches. split; [|split].
  - intros c H. apply find_some in H. destruct H as [H1 H2]. split; auto.
    rewrite orb_true_iff, !andb_true_iff, !seqb_spec in H2. tauto.
  - intros H c Hc Hm. pose proof (find_none _ _ H c Hc) as Hn. cbv beta in Hn.
    rewrite orb_false_iff in Hn. destruct Hn as [N1 N2].
    destruct Hm as [(A & B & Cc & D)|(A & B & Cc & D)].
    + rewrite (proj2 (seqb_spec _ _) A), (proj2 (seqb_spec _ _) B), Cc, D in N1. discriminate.
    + rewrite (proj2 (seqb_spec _ _) A), (proj2 (seqb_spec _ _) B), Cc, D in N2. discriminate.
  - induction created as [|c r IH]; cbn [find]; auto. rewrite IH.
    rewrite (orb_comm (seqb (ac_lfield c) f1 && seqb (ac_rfield c) f2 && is_subasset_of L t1 (ac_lasset c) && is_subasset_of L t2 (ac_rasset c))).
    reflexivity.
Qed.

(* errors *)
Theorem unknown_super_rejected : supers_ok L = false -> lang_graph L = LErr LSuperNotFound.
Proof. intros H. unfold lang_graph. rewrite H. reflexivity. Qed.
Theorem accepted_has_supers g : lang_graph L = LOk g ->
  forall a s, In a (l_assets L) -> ad_super a = Some s -> has_asset L s = true.
Proof.
  unfold lang_graph. destruct (supers_ok L) eqn:E; [|discriminate]. intros _ a s Ha Hs.
  unfold supers_ok in E. rewrite forallb_forall in E. specialize (E a Ha). rewrite Hs in E. exact E.
Qed.
Theorem accepted_assoc_ends g : lang_graph L = LOk g ->
  forall c, In c (lg_created g) -> has_asset L (ac_lasset c) = true /\ has_asset L (ac_rasset c) = true.
Proof.
  unfold lang_graph. destruct (negb (supers_ok L)); [discriminate|].
  destruct (lg_assocs L) as [created|] eqn:Ec; cbn [lbind]; [|discriminate].
  destruct (lg_links L created) as [ls|]; cbn [lbind]; [|discriminate]. intros H; inversion H; subst; cbn.
  intros c Hc. destruct (created_spec _ Ec) as [A _]. apply (A c Hc).
Qed.
End Cor.
