(* ModelLoad.v — the second half of Model._from_dict: the rebuild of a model from what was read, through the API
   (add_asset with the stored id, add_association on the assets found by id, add_attacker with the stored id), and
   the first half of Model._to_dict: the content a model state denotes. (C07, also used by C18 / C19) *)
From MT Require Import Prelude ListFacts Model ModelOps ModelInv Codec ModelIO.

Section Load.
(* per asset type: its defenses with their default value (times 1024), in the order of the generated class *)
Variable defaults : string -> list (string * Z).

(* a new asset object has every defense at its default; the loader then sets the stored ones *)
Definition fill (dflt given : list (string * Z)) : list (string * Z) :=
  map (fun kv => (fst kv, match dget seqb given (fst kv) with Some v => v | None => snd kv end)) dflt.
(* get_asset_defenses: the defenses whose value is not the default one *)
Definition nondefault (dflt full : list (string * Z)) : list (string * Z) :=
  filter (fun kv => negb (opt_eqb Z.eqb (dget seqb dflt (fst kv)) (Some (snd kv)))) full.

(* ---- the content of a state (what _to_dict reads) ---- *)
Definition idz (s : mstate) (h : nat) : Z := match ma_id (m_ah s h) with Some i => i | None => 0%Z end.
Definition extras_list (v : jv) : list (string * jv) := match v with JDict d => d | _ => [] end.
Definition casset_of (s : mstate) (h : nat) : casset :=
  let a := m_ah s h in
  mkCA (idz s h) (match ma_name a with Some n => n | None => "" end) (ma_type a)
       (nondefault (defaults (ma_type a)) (ma_defs a)) (extras_list (ma_extras a)).
Definition cassoc_of (s : mstate) (c : nat) : cassoc :=
  let o := m_ch s c in
  mkCC (mc_class o) (mc_lfield o) (map (idz s) (mc_left o)) (mc_rfield o) (map (idz s) (mc_right o)) (extras_list (mc_extras o)).
Definition catt_of (s : mstate) (t : nat) : cattacker :=
  let o := m_th s t in
  mkCT (match mt_id o with Some i => i | None => 0%Z end) (match mt_name o with Some n => n | None => "" end)
       (map (fun e => (idz s (fst e), snd e)) (mt_entry o)).
Definition cA (s : mstate) := map (casset_of s) (m_assets s).
Definition cC (s : mstate) := map (cassoc_of s) (m_assocs s).
Definition cT (s : mstate) := map (catt_of s) (m_attackers s).
Definition content_of (n : string) (s : mstate) : content := mkC n (cA s) (cC s) (cT s).

(* ---- the rebuild ---- *)
Definition step_state (s : mstate) (o : mop) : mstate := fst (fst (mstep s o)).
Definition step_out (s : mstate) (o : mop) : mout := snd (fst (mstep s o)).

Definition load_asset (s : mstate) (a : casset) : mstate * mout :=
  let h := m_na s in
  let s1 := step_state s (MNewAsset (ca_type a) (Some (ca_name a)) (fill (defaults (ca_type a)) (ca_defs a)) (JDict (ca_extras a))) in
  (step_state s1 (MAddAsset h (Some (ca_id a)) true), step_out s1 (MAddAsset h (Some (ca_id a)) true)).

Definition resolve (s : mstate) (ids : list Z) : option (list nat) := omap (get_asset_by_id s) ids.
Definition load_assoc (s : mstate) (c : cassoc) : mstate * mout :=
  match resolve s (cc_left c), resolve s (cc_right c) with
  | Some l, Some r =>
    let h := m_nc s in
    let s1 := step_state s (MNewAssoc (cc_class c) (cc_lfield c) l (cc_rfield c) r) in
    let s2 := step_state s1 (MAddAssoc h) in
    match step_out s1 (MAddAssoc h) with
    | MOk => (match cc_extras c with [] => s2 | e => step_state s2 (MSetAssocExtras h (JDict e)) end, MOk)
    | oc => (s2, oc)
    end
  | _, _ => (s, MLookupError)
  end.

(* attacker.entry_points is assigned directly, not through add_entry_point *)
Definition set_entries (s : mstate) (t : nat) (es : list (nat * list string)) : mstate :=
  with_heaps s (m_ah s) (m_ch s) (upd_t (m_th s) t (fun x => t_set_entry x es)).
Definition resolve_entries (s : mstate) (es : list (Z * list string)) : option (list (nat * list string)) :=
  omap (fun e => option_map (fun h => (h, snd e)) (get_asset_by_id s (fst e))) es.
Definition load_attacker (s : mstate) (t : cattacker) : mstate * mout :=
  match resolve_entries s (ct_entry t) with
  | Some es =>
    let h := m_nt s in
    let s1 := step_state s (MNewAtt (Some (ct_name t))) in
    let s2 := set_entries s1 h es in
    (step_state s2 (MAddAtt h (Some (ct_id t))), step_out s2 (MAddAtt h (Some (ct_id t))))
  | None => (s, MLookupError)
  end.

Fixpoint load_list {A} (f : mstate -> A -> mstate * mout) (l : list A) (s : mstate) : mstate * mout :=
  match l with
  | [] => (s, MOk)
  | x :: r => match f s x with (s', MOk) => load_list f r s' | (s', oc) => (s', oc) end
  end.
Definition load_from (s : mstate) (c : content) : mstate * mout :=
  match load_list load_asset (c_assets c) s with
  | (s1, MOk) => match load_list load_assoc (c_assocs c) s1 with
                 | (s2, MOk) => load_list load_attacker (c_attackers c) s2
                 | r => r
                 end
  | r => r
  end.
Definition load (c : content) : mstate * mout := load_from minit c.

(* ---- which contents the loader accepts and reproduces ---- *)
Fixpoint nodupb {A} (eqb : A -> A -> bool) (l : list A) : bool :=
  match l with [] => true | x :: r => negb (existsb (eqb x) r) && nodupb eqb r end.
Definition links_clash (a b : cassoc) : bool :=
  seqb (cc_class a) (cc_class b) && existsb (fun l => memzl l (cc_left b)) (cc_left a)
  && existsb (fun r => memzl r (cc_right b)) (cc_right a).
Fixpoint no_clash (done : list cassoc) (l : list cassoc) : bool :=
  match l with
  | [] => true
  | c :: r => forallb (fun old => negb (links_clash c old)) done && no_clash (done ++ [c]) r
  end.
Definition asset_ok (a : casset) : bool :=
  list_eqb (pair_eqb seqb Z.eqb) (nondefault (defaults (ca_type a)) (fill (defaults (ca_type a)) (ca_defs a))) (ca_defs a).
Definition assoc_ok (ids : list Z) (c : cassoc) : bool :=
  match cc_left c, cc_right c with [], _ | _, [] => false | _, _ => true end
  && nodupb Z.eqb (cc_left c) && nodupb Z.eqb (cc_right c)
  && forallb (fun i => memzl i ids) (cc_left c) && forallb (fun i => memzl i ids) (cc_right c).
Definition attacker_ok (ids : list Z) (t : cattacker) : bool :=
  negb (seqb (ct_name t) "") && nodupb Z.eqb (map fst (ct_entry t)) && forallb (fun i => memzl i ids) (map fst (ct_entry t)).
Definition loadable (c : content) : bool :=
  let ids := map ca_id (c_assets c) in
  nodupb Z.eqb ids && nodupb seqb (map ca_name (c_assets c)) && forallb asset_ok (c_assets c)
  && forallb (assoc_ok ids) (c_assocs c) && no_clash [] (c_assocs c)
  && forallb (attacker_ok ids) (c_attackers c).

End Load.

(* ---- correspondence ---- *)
Definition defaults_of (tbl : list (string * list (string * Z))) (t : string) : list (string * Z) :=
  match dget seqb tbl t with Some d => d | None => [] end.
Definition casset_eqb (a b : casset) : bool :=
  Z.eqb (ca_id a) (ca_id b) && seqb (ca_name a) (ca_name b) && seqb (ca_type a) (ca_type b)
  && list_eqb (pair_eqb seqb Z.eqb) (ca_defs a) (ca_defs b) && jv_eqb (JDict (ca_extras a)) (JDict (ca_extras b)).
Definition cassoc_eqb (a b : cassoc) : bool :=
  seqb (cc_class a) (cc_class b) && seqb (cc_lfield a) (cc_lfield b) && list_eqb Z.eqb (cc_left a) (cc_left b)
  && seqb (cc_rfield a) (cc_rfield b) && list_eqb Z.eqb (cc_right a) (cc_right b) && jv_eqb (JDict (cc_extras a)) (JDict (cc_extras b)).
Definition catt_eqb (a b : cattacker) : bool :=
  Z.eqb (ct_id a) (ct_id b) && seqb (ct_name a) (ct_name b)
  && list_eqb (pair_eqb Z.eqb (list_eqb seqb)) (ct_entry a) (ct_entry b).
Definition content_eqb (a b : content) : bool :=
  seqb (c_name a) (c_name b) && list_eqb casset_eqb (c_assets a) (c_assets b)
  && list_eqb cassoc_eqb (c_assocs a) (c_assocs b) && list_eqb catt_eqb (c_attackers a) (c_attackers b).

(* a case: defaults table, the content of the saved model, whether the implementation loaded the document, and the
   observation of the model it built (handles = positions in the lists of the model) *)
Definition load_check_with (d : string -> list (string * Z)) (cont : content) (impl_ok : bool) (obs : jv) : bool :=
  match load d cont with
  | (s, MOk) => impl_ok && jv_eqb (obs_mstate s) obs
                && (if loadable d cont then content_eqb (content_of d (c_name cont) s) cont else true)
  | (_, _) => negb impl_ok && negb (loadable d cont)
  end.
Definition load_check (c : list (string * list (string * Z)) * content * bool * jv) : bool :=
  let '(tbl, cont, impl_ok, obs) := c in load_check_with (defaults_of tbl) cont impl_ok obs.
