(* ModelLoadThm.v — loading a document entry onto a coherent model appends exactly that entry to the content of the
   model; hence loading a loadable content from the empty model succeeds and yields a coherent model with that
   content (C07: the rebuild through the API). *)
From MT Require Import Prelude ListFacts Model ModelOps ModelInv Codec ModelIO ModelLoad.
From Coq Require Import Arith.

Section LoadThm.
Variable defaults : string -> list (string * Z).
Notation casset_of := (casset_of defaults).
Notation cA := (cA defaults).
Notation content_of := (content_of defaults).
Notation load_asset := (load_asset defaults).
Notation load_from := (load_from defaults).
Notation load := (load defaults).
Notation asset_ok := (asset_ok defaults).
Notation loadable := (loadable defaults).

(* ---- the invariant carried through a load: coherence + the per-class index + allocation of attackers ---- *)
Definition t2l (s : mstate) (cls : string) : list nat :=
  match dget seqb (m_type2assoc s) cls with Some l => l | None => [] end.
Record LI (s : mstate) : Prop := mkLI {
  li_mi : MI s;
  li_t2a : forall cls, t2l s cls = filter (fun c => seqb (mc_class (m_ch s c)) cls) (m_assocs s);
  li_alloc_t : forall t, In t (m_attackers s) -> t < m_nt s }.

Lemma LI_init : LI minit.
Proof. constructor; [apply MI_init | intros cls; reflexivity | intros t []]. Qed.

(* ---- boolean duplicate-freeness ---- *)
Lemma nodupb_NoDup {A} (eqb : A -> A -> bool) (l : list A) :
  (forall x y, eqb x y = true <-> x = y) -> nodupb eqb l = true -> NoDup l.
Proof.
  intros H. induction l as [|x r IH]; cbn; intros E; constructor; apply andb_true_iff in E; destruct E as [E1 E2]; auto.
  intros A0. apply negb_true_iff in E1. assert (existsb (eqb x) r = true); [|congruence].
  apply existsb_exists. exists x. split; auto. apply H; auto.
Qed.

(* ---- lookups by id ---- *)
Lemma get_by_id_spec s i h : get_asset_by_id s i = Some h -> In h (m_assets s) /\ ma_id (m_ah s h) = Some i.
Proof.
  unfold get_asset_by_id. intros H. apply find_some in H. destruct H as [H1 H2]. split; auto.
  destruct (ma_id (m_ah s h)) as [j|]; cbn in H2; [|discriminate]. apply Z.eqb_eq in H2. congruence.
Qed.
Lemma get_by_id_total s i : MI s -> In i (m_ids s) -> exists h, get_asset_by_id s i = Some h.
Proof.
  intros I Hi. destruct (proj1 (MI_reserved_exact s I)) with (i := i) as [P _]. destruct (P Hi) as (h & Hh & E).
  unfold get_asset_by_id. destruct (find _ (m_assets s)) as [x|] eqn:F; [eauto|].
  exfalso. pose proof (find_none _ _ F h Hh) as N. cbn beta in N. unfold id_of in E. rewrite E in N. cbn in N. rewrite Z.eqb_refl in N. discriminate.
Qed.
Lemma idz_of_get s i h : get_asset_by_id s i = Some h -> idz s h = i.
Proof. intros H. apply get_by_id_spec in H. unfold idz. destruct H as [_ ->]. reflexivity. Qed.

Lemma resolve_spec s : MI s -> forall ids, (forall i, In i ids -> In i (m_ids s)) ->
  exists l, resolve s ids = Some l /\ map (idz s) l = ids /\ (forall h, In h l -> In h (m_assets s)).
Proof.
  intros I. induction ids as [|i r IH]; intros H.
  - exists []. repeat split; auto. intros h [].
  - destruct (get_by_id_total s i I (H i (or_introl eq_refl))) as (h & Eh).
    destruct (IH (fun j Hj => H j (or_intror Hj))) as (l & El & Em & Hl).
    exists (h :: l). unfold resolve in *. cbn. rewrite Eh, El. repeat split.
    + cbn. rewrite Em. f_equal. apply idz_of_get; auto.
    + intros x [<-|Hx]; auto. apply (get_by_id_spec s i); auto.
Qed.
Lemma NoDup_of_map {A B} (f : A -> B) (l : list A) : NoDup (map f l) -> NoDup l.
Proof.
  induction l as [|a r IH]; cbn; intros N; constructor; inversion N; subst; auto.
  intros Ha. apply H1. apply in_map; auto.
Qed.

(* ---- one asset ---- *)
Lemma load_asset_spec s a : LI s -> ~ In (ca_id a) (m_ids s) -> ~ In (ca_name a) (m_names s) ->
  exists s', load_asset s a = (s', MOk) /\ LI s' /\
    cA s' = cA s ++ [mkCA (ca_id a) (ca_name a) (ca_type a)
                          (nondefault (defaults (ca_type a)) (fill (defaults (ca_type a)) (ca_defs a))) (ca_extras a)] /\
    cC s' = cC s /\ cT s' = cT s /\ m_ids s' = m_ids s ++ [ca_id a] /\ m_names s' = m_names s ++ [ca_name a].
Proof.
  intros L Hid Hnm. pose proof (li_mi s L) as I.
  set (h := m_na s).
  assert (Hfresh : ~ In h (m_assets s)) by (intros A0; pose proof (mi_alloc_a s I h A0); unfold h in *; lia).
  unfold load_asset. fold h.
  set (o1 := MNewAsset (ca_type a) (Some (ca_name a)) (fill (defaults (ca_type a)) (ca_defs a)) (JDict (ca_extras a))).
  set (s1 := step_state s o1).
  assert (I1 : MI s1) by (apply mstep_MI; auto).
  assert (E1 : s1 = mkM (upd_a (m_ah s) h (fun _ => mkMAsset None (Some (ca_name a)) (ca_type a)
                                 (fill (defaults (ca_type a)) (ca_defs a)) (JDict (ca_extras a)) []))
                        (m_ch s) (m_th s) (S h) (m_nc s) (m_nt s) (m_assets s) (m_assocs s) (m_attackers s)
                        (m_ids s) (m_names s) (m_type2assoc s) (m_next s)) by reflexivity.
  set (o2 := MAddAsset h (Some (ca_id a)) true).
  assert (G2 : mguard s1 o2 = true).
  { rewrite E1. cbn. unfold live_asset; cbn. rewrite Nat.leb_refl. cbn.
    apply negb_true_iff. apply memn_nIn. auto. }
  assert (I2 : MI (step_state s1 o2)) by (apply mstep_MI; auto).
  unfold step_state, step_out in *. unfold mstep in I2 |- *. rewrite G2 in I2 |- *. cbn [negb] in I2 |- *.
  unfold o2 in I2 |- *. cbv iota beta in I2 |- *.
  assert (EA : add_asset s1 h (Some (ca_id a)) true =
     (mkM (upd_a (upd_a (upd_a (m_ah s1) h (fun x => a_set_id x (Some (ca_id a)))) h (fun x => a_set_assocs x [])) h
                 (fun x => a_set_name x (Some (ca_name a))))
          (m_ch s) (m_th s) (S h) (m_nc s) (m_nt s) (m_assets s ++ [h]) (m_assocs s) (m_attackers s)
          (m_ids s ++ [ca_id a]) (m_names s ++ [ca_name a]) (m_type2assoc s) (Z.max (ca_id a + 1) (m_next s)), MOk)).
  { unfold add_asset. rewrite E1 at 1. cbn [m_ids m_names m_ah m_ch m_th m_na m_nc m_nt m_assets m_assocs m_attackers m_type2assoc m_next].
    replace (memzl (ca_id a) (m_ids s)) with false by (symmetry; apply Bool.not_true_iff_false; rewrite memzl_In; auto).
    rewrite E1. cbn [m_ids m_names m_ah m_ch m_th m_na m_nc m_nt m_assets m_assocs m_attackers m_type2assoc m_next].
    rewrite !upd_a_same. cbn [ma_name a_set_assocs a_set_id].
    replace (mems (ca_name a) (m_names s)) with false by (symmetry; apply Bool.not_true_iff_false; rewrite mems_In; auto).
    reflexivity. }
  rewrite EA in I2 |- *. cbn [fst snd] in I2 |- *.
  match goal with |- exists s', (?S, MOk) = (s', MOk) /\ _ => set (s2 := S) in * end.
  exists s2. split; [reflexivity|].
  assert (AH : m_ah s2 h = mkMAsset (Some (ca_id a)) (Some (ca_name a)) (ca_type a)
                            (fill (defaults (ca_type a)) (ca_defs a)) (JDict (ca_extras a)) []).
  { unfold s2. cbn [m_ah]. rewrite !upd_a_same. rewrite E1. cbn [m_ah]. rewrite upd_a_same. reflexivity. }
  assert (AO : forall x, x <> h -> m_ah s2 x = m_ah s x).
  { intros x Hx. unfold s2. cbn [m_ah]. rewrite !upd_a_other by auto. rewrite E1. cbn [m_ah]. rewrite upd_a_other; auto. }
  assert (LIVE : forall x, In x (m_assets s) -> x <> h) by (intros x Hx ->; auto).
  assert (IDZ : forall x, In x (m_assets s) -> idz s2 x = idz s x).
  { intros x Hx. unfold idz. rewrite AO; auto. }
  split; [|split; [|split; [|split; [|split]]]].
  - constructor; auto.
    + intros cls. unfold t2l, s2; cbn. apply (li_t2a s L cls).
    + intros t Ht. unfold s2 in *; cbn in *. apply (li_alloc_t s L); auto.
  - unfold cA, ModelLoad.cA. unfold s2 at 2. cbn [m_assets]. rewrite map_app. f_equal.
    + apply map_ext_in. intros x Hx. unfold casset_of, ModelLoad.casset_of. rewrite IDZ by auto. rewrite AO; auto.
    + cbn. unfold casset_of, ModelLoad.casset_of, idz. rewrite AH. reflexivity.
  - unfold cC. unfold s2 at 2. cbn [m_assocs]. apply map_ext_in. intros c Hc. unfold cassoc_of.
    assert (M : forall x, In x (members s c) -> idz s2 x = idz s x).
    { intros x Hx. apply IDZ. eapply (mi_members_live s I); eauto. }
    unfold s2 at 1 3 4 6 7. cbn [m_ch]. f_equal; apply map_ext_in; intros x Hx; apply M; unfold members; apply in_or_app; auto.
  - unfold cT. unfold s2 at 2. cbn [m_attackers]. apply map_ext_in. intros t Ht. unfold catt_of.
    unfold s2 at 1 2 4. cbn [m_th]. f_equal. apply map_ext_in. intros e He. f_equal. apply IDZ.
    eapply (mi_entries_live s I); eauto. apply in_map; auto.
  - reflexivity.
  - reflexivity.
Qed.

(* ---- one association ---- *)
Lemma field_names_unique_true s : MI s -> forall l, NoDup l -> (forall x, In x l -> In x (m_assets s)) ->
  field_names_unique s l = true.
Proof.
  intros I. unfold field_names_unique.
  assert (G : forall l seen, NoDup l -> (forall x, In x l -> In x (m_assets s)) ->
     (forall x n, In x l -> name_of s x = Some n -> ~ In n seen) ->
     (fix go (l : list nat) (seen : list string) : bool :=
        match l with
        | [] => true
        | a :: r => match ma_name (m_ah s a) with
                    | Some n => if mems n seen then false else go r (n :: seen)
                    | None => go r seen
                    end
        end) l seen = true).
  { induction l as [|a r IH]; intros seen N Hl Hs; auto. inversion N; subst.
    destruct (MI_has_id s I a (Hl a (or_introl eq_refl))) as (i & n & _ & _ & En & _).
    pose proof En as En'. unfold name_of in En'. rewrite En'.
    replace (mems n seen) with false by (symmetry; apply Bool.not_true_iff_false; rewrite mems_In; apply (Hs a n); [left; auto|auto]).
    apply IH; auto.
    - intros x Hx. apply Hl. right; auto.
    - intros x m Hx Em [<-|A0].
      + assert (x = a); [|subst; auto]. apply (MI_names_unique s I); auto; [apply Hl; right; auto | apply Hl; left; auto | congruence].
      + apply (Hs x m); auto. right; auto. }
  intros l N Hl. apply G; auto.
Qed.

Lemma t2l_add s' s cls c :
  m_type2assoc s' = t2a_add (m_type2assoc s) cls c ->
  forall cls', t2l s' cls' = if seqb cls' cls then t2l s cls ++ [c] else t2l s cls'.
Proof.
  intros E cls'. unfold t2l. rewrite E. unfold t2a_add.
  destruct (seqb cls' cls) eqn:Ec.
  - apply seqb_spec in Ec. subst cls'.
    destruct (dget seqb (m_type2assoc s) cls) as [l|]; rewrite (dget_dset_same seqb seqb_spec); reflexivity.
  - assert (N : cls' <> cls) by (intros ->; rewrite (keqb_refl seqb seqb_spec) in Ec; discriminate).
    destruct (dget seqb (m_type2assoc s) cls) as [l|]; rewrite (dget_dset_other seqb seqb_spec) by auto; reflexivity.
Qed.

Lemma filter_app_single {A} (f : A -> bool) l x : filter f (l ++ [x]) = filter f l ++ (if f x then [x] else []).
Proof. induction l as [|a r IH]; cbn; [destruct (f x); auto|]. rewrite IH. destruct (f a); auto. Qed.

Lemma memzl_map_idz s i l : memzl i (map (idz s) l) = true -> exists h, In h l /\ idz s h = i.
Proof. intros H. apply memzl_In in H. apply in_map_iff in H. destruct H as (h & E & Hh). eauto. Qed.

Lemma load_assoc_spec s cc : LI s -> assoc_ok (m_ids s) cc = true ->
  forallb (fun old => negb (links_clash cc old)) (cC s) = true ->
  exists s', load_assoc s cc = (s', MOk) /\ LI s' /\ cA s' = cA s /\ cC s' = cC s ++ [cc] /\ cT s' = cT s /\
             m_ids s' = m_ids s /\ m_names s' = m_names s.
Proof.
  intros L OK NC. pose proof (li_mi s L) as I.
  unfold assoc_ok in OK. repeat (apply andb_true_iff in OK; destruct OK as [OK ?]).
  rename H into IR, H0 into IL, H1 into NR, H2 into NL.
  apply (nodupb_NoDup Z.eqb _ Z.eqb_eq) in NL. apply (nodupb_NoDup Z.eqb _ Z.eqb_eq) in NR.
  rewrite forallb_forall in IL, IR.
  destruct (resolve_spec s I (cc_left cc) (fun i Hi => proj1 (memzl_In _ _) (IL i Hi))) as (l & El & Ml & Ll).
  destruct (resolve_spec s I (cc_right cc) (fun i Hi => proj1 (memzl_In _ _) (IR i Hi))) as (r & Er & Mr & Lr).
  assert (NDl : NoDup l) by (apply (NoDup_of_map (idz s)); rewrite Ml; auto).
  assert (NDr : NoDup r) by (apply (NoDup_of_map (idz s)); rewrite Mr; auto).
  assert (NEl : l <> []) by (intros ->; cbn in Ml; rewrite <- Ml in OK; discriminate).
  assert (NEr : r <> []).
  { intros ->. cbn in Mr. rewrite <- Mr in OK. destruct (cc_left cc); discriminate. }
  unfold load_assoc. rewrite El, Er.
  set (h := m_nc s).
  assert (Hfresh : ~ In h (m_assocs s)) by (intros A0; pose proof (mi_alloc_c s I h A0); unfold h in *; lia).
  set (o1 := MNewAssoc (cc_class cc) (cc_lfield cc) l (cc_rfield cc) r).
  assert (G1 : mguard s o1 = true).
  { cbn. apply andb_true_iff. split; [apply andb_true_iff; split|].
    - apply forallb_forall. intros x Hx. apply memn_In. auto.
    - apply forallb_forall. intros x Hx. apply memn_In. auto.
    - destruct l; [congruence|]. destruct r; [congruence|]. reflexivity. }
  set (s1 := step_state s o1).
  assert (I1 : MI s1) by (apply mstep_MI; auto).
  assert (E1 : s1 = mkM (m_ah s) (upd_c (m_ch s) h (fun _ => mkMAssoc (cc_class cc) (cc_lfield cc) l (cc_rfield cc) r JNull)) (m_th s)
                        (m_na s) (S h) (m_nt s) (m_assets s) (m_assocs s) (m_attackers s) (m_ids s) (m_names s)
                        (m_type2assoc s) (m_next s)).
  { unfold s1, step_state, mstep. rewrite G1. reflexivity. }
  assert (CH : m_ch s1 h = mkMAssoc (cc_class cc) (cc_lfield cc) l (cc_rfield cc) r JNull).
  { rewrite E1. cbn [m_ch]. rewrite upd_c_same. reflexivity. }
  assert (CO : forall c, c <> h -> m_ch s1 c = m_ch s c).
  { intros c Hc. rewrite E1. cbn [m_ch]. rewrite upd_c_other; auto. }
  assert (S1a : m_assets s1 = m_assets s) by (rewrite E1; reflexivity).
  assert (S1c : m_assocs s1 = m_assocs s) by (rewrite E1; reflexivity).
  assert (S1h : m_ah s1 = m_ah s) by (rewrite E1; reflexivity).
  assert (S1t : m_type2assoc s1 = m_type2assoc s) by (rewrite E1; reflexivity).
  assert (S1n : m_nc s1 = S h) by (rewrite E1; reflexivity).
  set (o2 := MAddAssoc h).
  assert (G2 : mguard s1 o2 = true).
  { cbn. rewrite S1n, CH. cbn [mc_left mc_right]. unfold live_assoc, live_asset. rewrite S1c, S1a.
    rewrite Nat.leb_refl. cbn [andb].
    replace (memn h (m_assocs s)) with false by (symmetry; apply memn_nIn; auto). cbn [negb andb].
    apply andb_true_iff. split; apply forallb_forall; intros x Hx; apply memn_In; auto. }
  assert (I2 : MI (step_state s1 o2)) by (apply mstep_MI; auto).
  (* the validation passes *)
  assert (T2 : forall cls, t2l s1 cls = filter (fun c => seqb (mc_class (m_ch s c)) cls) (m_assocs s)).
  { intros cls. unfold t2l. rewrite S1t. apply (li_t2a s L). }
  assert (V1 : memn h (t2l s1 (cc_class cc)) = false).
  { apply memn_nIn. rewrite T2. intros A0. apply filter_In in A0. tauto. }
  assert (V2 : field_names_unique s1 l = true /\ field_names_unique s1 r = true).
  { split; apply field_names_unique_true; auto; rewrite S1a; auto. }
  assert (V3 : existsb (fun x => existsb (fun y => assoc_exists_between s1 (cc_class cc) x y) r) l = false).
  { apply Bool.not_true_iff_false. intros A0. apply existsb_exists in A0. destruct A0 as (x & Hx & A0).
    apply existsb_exists in A0. destruct A0 as (y & Hy & A0). unfold assoc_exists_between in A0.
    fold (t2l s1 (cc_class cc)) in A0.
    assert (A1 : existsb (fun c => existsb (opt_eqb Z.eqb (ma_id (m_ah s1 x))) (ids_of s1 (mc_left (m_ch s1 c)))
                                   && existsb (opt_eqb Z.eqb (ma_id (m_ah s1 y))) (ids_of s1 (mc_right (m_ch s1 c))))
                         (t2l s1 (cc_class cc)) = true).
    { unfold t2l. destruct (dget seqb (m_type2assoc s1) (cc_class cc)); auto. }
    clear A0. apply existsb_exists in A1. destruct A1 as (c & Hc & A1). rewrite T2 in Hc. apply filter_In in Hc.
    destruct Hc as [Hc Ecl]. apply seqb_spec in Ecl.
    assert (c <> h) by (intros ->; auto). rewrite CO in A1 by auto. rewrite S1h in A1. unfold ids_of in A1. rewrite S1h in A1.
    apply andb_true_iff in A1. destruct A1 as [A1 A2].
    assert (SAME : forall a ms, In a (m_assets s) -> (forall m, In m ms -> In m (m_assets s)) ->
               existsb (opt_eqb Z.eqb (ma_id (m_ah s a))) (map (fun m => ma_id (m_ah s m)) ms) = true -> In a ms).
    { intros a ms Ha Hms E0. apply existsb_exists in E0. destruct E0 as (o & Ho & E0). apply in_map_iff in Ho.
      destruct Ho as (m & <- & Hm).
      destruct (MI_has_id s I a Ha) as (ia & _ & Eia & _). destruct (MI_has_id s I m (Hms m Hm)) as (im & _ & Eim & _).
      unfold id_of in *. rewrite Eia, Eim in E0. cbn in E0. apply Z.eqb_eq in E0. subst im.
      assert (a = m); [|subst; auto]. apply (MI_ids_unique s I); auto. unfold id_of. congruence. }
    assert (Xl : In x (mc_left (m_ch s c))).
    { apply SAME; auto. intros m Hm. apply (mi_members_live s I c); auto. unfold members. apply in_or_app; auto. }
    assert (Yr : In y (mc_right (m_ch s c))).
    { apply SAME; auto. intros m Hm. apply (mi_members_live s I c); auto. unfold members. apply in_or_app; auto. }
    (* so cc clashes with the content of c *)
    rewrite forallb_forall in NC. specialize (NC (cassoc_of s c)).
    assert (Hin : In (cassoc_of s c) (cC s)) by (unfold cC; apply in_map; auto).
    specialize (NC Hin). apply negb_true_iff in NC.
    assert (links_clash cc (cassoc_of s c) = true); [|congruence].
    unfold links_clash, cassoc_of. cbn [cc_class cc_left cc_right]. rewrite Ecl.
    rewrite (proj2 (seqb_spec _ _) eq_refl). cbn [andb].
    apply andb_true_iff. split; apply existsb_exists.
    - exists (idz s x). split; [rewrite <- Ml; apply in_map; auto | apply memzl_In; apply in_map; auto].
    - exists (idz s y). split; [rewrite <- Mr; apply in_map; auto | apply memzl_In; apply in_map; auto]. }
  set (u := fun x : masset => a_set_assocs x (ma_assocs x ++ [h])).
  set (addref := fun (ah : nat -> masset) a => if memn h (ma_assocs (ah a)) then ah else upd_a ah a u).
  set (ah2 := fold_left addref r (fold_left addref l (m_ah s))).
  assert (EA : add_association s1 h =
     (mkM ah2 (upd_c (m_ch s1) h (fun x => c_set_extras x (JDict []))) (m_th s) (m_na s) (S h) (m_nt s)
          (m_assets s) (m_assocs s ++ [h]) (m_attackers s) (m_ids s) (m_names s)
          (t2a_add (m_type2assoc s) (cc_class cc) h) (m_next s), MOk)).
  { unfold add_association. rewrite CH. cbn [mc_class mc_left mc_right]. fold (t2l s1 (cc_class cc)). rewrite V1.
    destruct V2 as [-> ->]. cbn [andb negb]. rewrite V3. rewrite E1 at 1. cbn [m_ah m_ch m_th m_na m_nc m_nt m_assets m_assocs m_attackers m_ids m_names m_type2assoc m_next].
    rewrite E1. cbn [m_ah m_ch m_th m_na m_nc m_nt m_assets m_assocs m_attackers m_ids m_names m_type2assoc m_next]. reflexivity. }
  unfold step_state, step_out in I2 |- *. unfold mstep in I2 |- *. rewrite G2 in I2 |- *. cbn [negb] in I2 |- *.
  unfold o2 in I2 |- *. cbv iota beta in I2 |- *. rewrite EA in I2 |- *. cbn [fst snd] in I2 |- *.
  match type of I2 with MI ?S => set (s2 := S) in * end.
  (* facts about s2 *)
  assert (NOC : forall x, In x (m_assets s) -> memn h (ma_assocs (m_ah s x)) = false).
  { intros x Hx. apply memn_nIn. intros A0. apply (mi_backrefs s I x h Hx) in A0. tauto. }
  assert (AH2 : forall x, ah2 x = m_ah s x \/ ah2 x = u (m_ah s x)).
  { intros x. unfold ah2, addref.
    rewrite (fold_cond_upd_a_each' (fun a => memn h (ma_assocs a)) u) by auto.
    rewrite (fold_cond_upd_a_each' (fun a => memn h (ma_assocs a)) u) by auto.
    assert (P1 : forall a, memn h (ma_assocs (u a)) = true).
    { intros a. unfold u. cbn [ma_assocs a_set_assocs]. apply memn_In. apply In_app_single. auto. }
    destruct (memn x r), (memn x l); auto;
      destruct (memn h (ma_assocs (m_ah s x))) eqn:P0; rewrite ?P0, ?P1; auto. }
  assert (IDZ : forall x, idz s2 x = idz s x).
  { intros x. unfold idz, s2. cbn [m_ah]. destruct (AH2 x) as [-> | ->]; reflexivity. }
  assert (CA : forall x, casset_of s2 x = casset_of s x).
  { intros x. unfold casset_of, ModelLoad.casset_of. rewrite IDZ. unfold s2. cbn [m_ah]. destruct (AH2 x) as [-> | ->]; reflexivity. }
  assert (L2 : LI s2).
  { constructor; auto.
    - intros cls. rewrite (t2l_add s2 s (cc_class cc) h) by reflexivity.
      unfold s2 at 2. cbn [m_assocs]. rewrite filter_app_single.
      unfold s2 at 2. cbn [m_ch]. rewrite upd_c_same. rewrite CH. cbn [mc_class c_set_extras].
      assert (F : filter (fun c => seqb (mc_class (m_ch s2 c)) cls) (m_assocs s) = filter (fun c => seqb (mc_class (m_ch s c)) cls) (m_assocs s)).
      { apply filter_ext_in. intros c Hc. unfold s2. cbn [m_ch]. rewrite upd_c_other by (intros ->; auto). rewrite CO by (intros ->; auto). reflexivity. }
      rewrite F. rewrite <- (li_t2a s L).
      destruct (seqb cls (cc_class cc)) eqn:Ec.
      + apply seqb_spec in Ec. subst cls. rewrite (proj2 (seqb_spec _ _) eq_refl). reflexivity.
      + replace (seqb (cc_class cc) cls) with false; [rewrite app_nil_r; auto|].
        symmetry. apply Bool.not_true_iff_false. intros A0. apply seqb_spec in A0. subst cls. rewrite (proj2 (seqb_spec _ _) eq_refl) in Ec. discriminate.
    - intros t Ht. apply (li_alloc_t s L); auto. }
  assert (CH2o : forall c, c <> h -> m_ch s2 c = m_ch s c).
  { intros c Hc. unfold s2. cbn [m_ch]. rewrite upd_c_other by auto. apply CO; auto. }
  assert (CH2h : m_ch s2 h = mkMAssoc (cc_class cc) (cc_lfield cc) l (cc_rfield cc) r (JDict [])).
  { unfold s2. cbn [m_ch]. rewrite upd_c_same, CH. reflexivity. }
  assert (CC2 : cC s2 = cC s ++ [mkCC (cc_class cc) (cc_lfield cc) (cc_left cc) (cc_rfield cc) (cc_right cc) []]).
  { unfold cC. replace (m_assocs s2) with (m_assocs s ++ [h]) by reflexivity. rewrite map_app. f_equal.
    - apply map_ext_in. intros c Hc. unfold cassoc_of. rewrite CH2o by (intros ->; auto).
      f_equal; apply map_ext; intros; apply IDZ.
    - cbn [map]. unfold cassoc_of. rewrite CH2h. cbn [mc_class mc_lfield mc_left mc_rfield mc_right mc_extras extras_list].
      rewrite <- Ml, <- Mr. f_equal; f_equal; apply map_ext; intros; apply IDZ. }
  assert (CT2 : cT s2 = cT s).
  { unfold cT. replace (m_attackers s2) with (m_attackers s) by reflexivity. apply map_ext. intros t. unfold catt_of.
    replace (m_th s2) with (m_th s) by reflexivity. f_equal. apply map_ext. intros e. f_equal. apply IDZ. }
  assert (CA2 : cA s2 = cA s) by (unfold cA, ModelLoad.cA; replace (m_assets s2) with (m_assets s) by reflexivity; apply map_ext; auto).
  destruct (cc_extras cc) as [|e0 er] eqn:EX.
  - exists s2. split; [reflexivity|]. split; [exact L2|]. split; [exact CA2|]. split; [|split; [exact CT2|split; reflexivity]].
    rewrite CC2. destruct cc; cbn in *. subst. reflexivity.
  - set (o3 := MSetAssocExtras h (JDict (e0 :: er))).
    assert (G3 : mguard s2 o3 = true).
    { cbn. unfold live_assoc, s2. cbn [m_assocs]. apply memn_In. apply In_app_single. auto. }
    assert (I3 : MI (fst (fst (mstep s2 o3)))) by (apply mstep_MI; auto).
    unfold mstep in I3 |- *. rewrite G3 in I3 |- *. cbn [negb fst snd] in I3 |- *. unfold o3 in I3 |- *. cbv iota beta in I3 |- *.
    cbn [fst] in I3 |- *.
    match type of I3 with MI ?S => set (s3 := S) in * end.
    exists s3. split; [reflexivity|].
    assert (IDZ3 : forall x, idz s3 x = idz s2 x) by reflexivity.
    split; [|split; [|split; [|split; [|split]]]].
    + constructor; auto.
      * intros cls. unfold t2l, s3. cbn [m_type2assoc with_heaps m_assocs m_ch].
        fold (t2l s2 cls). rewrite (li_t2a s2 L2). apply filter_ext. intros c. unfold upd_c. destruct (Nat.eqb c h); reflexivity.
      * intros t Ht. apply (li_alloc_t s2 L2); auto.
    + rewrite <- CA2. reflexivity.
    + assert (CH3o : forall c, c <> h -> m_ch s3 c = m_ch s2 c).
      { intros c Hc. unfold s3. cbn [with_heaps m_ch]. rewrite upd_c_other; auto. }
      assert (CH3h : m_ch s3 h = mkMAssoc (cc_class cc) (cc_lfield cc) l (cc_rfield cc) r (JDict (e0 :: er))).
      { unfold s3. cbn [with_heaps m_ch]. rewrite upd_c_same, CH2h. reflexivity. }
      unfold cC. replace (m_assocs s3) with (m_assocs s ++ [h]) by reflexivity. rewrite map_app. f_equal.
      * apply map_ext_in. intros c Hc. unfold cassoc_of. rewrite CH3o by (intros ->; auto). rewrite CH2o by (intros ->; auto).
        f_equal; apply map_ext; intros; rewrite IDZ3; apply IDZ.
      * cbn [map]. unfold cassoc_of. rewrite CH3h. cbn [mc_class mc_lfield mc_left mc_rfield mc_right mc_extras extras_list].
        destruct cc; cbn in *. subst. f_equal; f_equal; apply map_ext; intros; rewrite IDZ3; apply IDZ.
    + rewrite <- CT2. reflexivity.
    + reflexivity.
    + reflexivity.
Qed.

(* ---- one attacker ---- *)
Lemma resolve_entries_spec s : MI s -> forall es, (forall i, In i (map fst es) -> In i (m_ids s)) ->
  exists l, resolve_entries s es = Some l /\ map (fun e => (idz s (fst e), snd e)) l = es /\
            (forall h, In h (map fst l) -> In h (m_assets s)).
Proof.
  intros I. induction es as [|[i st] r IH]; intros H.
  - exists []. repeat split; auto. intros h [].
  - destruct (get_by_id_total s i I (H i (or_introl eq_refl))) as (h & Eh).
    destruct (IH (fun j Hj => H j (or_intror Hj))) as (l & El & Em & Hl).
    exists ((h, st) :: l). unfold resolve_entries in *. cbn [omap fst snd]. rewrite Eh. cbn [option_map]. rewrite El. repeat split.
    + cbn [map fst snd]. rewrite Em. f_equal. f_equal. apply idz_of_get; auto.
    + intros x [<-|Hx]; auto. apply (get_by_id_spec s i); auto.
Qed.

Lemma load_attacker_spec s t : LI s -> attacker_ok (m_ids s) t = true ->
  exists s', load_attacker s t = (s', MOk) /\ LI s' /\ cA s' = cA s /\ cC s' = cC s /\ cT s' = cT s ++ [t] /\
             m_ids s' = m_ids s /\ m_names s' = m_names s.
Proof.
  intros L OK. pose proof (li_mi s L) as I.
  unfold attacker_ok in OK. apply andb_true_iff in OK. destruct OK as [OK IE]. apply andb_true_iff in OK. destruct OK as [NM ND].
  apply negb_true_iff in NM. apply (nodupb_NoDup Z.eqb _ Z.eqb_eq) in ND. rewrite forallb_forall in IE.
  destruct (resolve_entries_spec s I (ct_entry t) (fun i Hi => proj1 (memzl_In _ _) (IE i Hi))) as (es & Ee & Me & Le).
  assert (NDe : NoDup (map fst es)).
  { apply (NoDup_of_map (idz s)). rewrite map_map. rewrite <- Me in ND. rewrite map_map in ND. exact ND. }
  unfold load_attacker. rewrite Ee.
  set (h := m_nt s).
  assert (Hfresh : ~ In h (m_attackers s)) by (intros A0; pose proof (li_alloc_t s L h A0); unfold h in *; lia).
  set (th2 := upd_t (upd_t (m_th s) h (fun _ => mkMAtt None (Some (ct_name t)) [])) h (fun x => t_set_entry x es)).
  set (s2 := set_entries (step_state s (MNewAtt (Some (ct_name t)))) h es).
  assert (E2 : s2 = mkM (m_ah s) (m_ch s) th2 (m_na s) (m_nc s) (S h) (m_assets s) (m_assocs s) (m_attackers s)
                        (m_ids s) (m_names s) (m_type2assoc s) (m_next s)) by reflexivity.
  assert (TH2h : th2 h = mkMAtt None (Some (ct_name t)) es) by (unfold th2; rewrite !upd_t_same; reflexivity).
  assert (TH2o : forall x, x <> h -> th2 x = m_th s x) by (intros x Hx; unfold th2; rewrite !upd_t_other; auto).
  assert (I2 : MI s2).
  { rewrite E2. apply (MI_attackers_change s); auto; [lia| |].
    - intros x. destruct (Nat.eq_dec x h) as [->|N]; [rewrite TH2h; exact NDe | rewrite TH2o by auto; apply I].
    - intros x a Hx Ha. rewrite TH2o in Ha by (intros ->; auto). eapply (mi_entries_live s I); eauto. }
  set (o3 := MAddAtt h (Some (ct_id t))).
  assert (G3 : mguard s2 o3 = true).
  { unfold o3. cbn [mguard]. rewrite E2. cbn [m_nt m_th]. rewrite TH2h. cbn [mt_entry]. unfold live_att, live_asset. cbn [m_attackers m_assets].
    replace (Nat.ltb h (S h)) with true by (symmetry; apply Nat.ltb_lt; lia).
    replace (memn h (m_attackers s)) with false by (symmetry; apply memn_nIn; auto). cbn [negb andb].
    apply forallb_forall. intros e He. apply memn_In. apply Le. apply in_map; auto. }
  assert (I3 : MI (step_state s2 o3)) by (apply mstep_MI; auto).
  unfold step_state, step_out in I3 |- *. unfold mstep in I3 |- *. rewrite G3 in I3 |- *. cbn [negb] in I3 |- *.
  unfold o3 in I3 |- *. cbv iota beta in I3 |- *. cbn [fst snd] in I3 |- *.
  match type of I3 with MI ?S => set (s3 := S) in * end.
  exists s3. split; [reflexivity|].
  assert (TH3h : m_th s3 h = mkMAtt (Some (ct_id t)) (Some (ct_name t)) es).
  { unfold s3, add_attacker. cbn [m_th]. rewrite upd_t_same. rewrite E2. cbn [m_th]. rewrite TH2h. cbn [mt_name mt_entry].
    rewrite NM. reflexivity. }
  assert (TH3o : forall x, x <> h -> m_th s3 x = m_th s x).
  { intros x Hx. unfold s3, add_attacker. cbn [m_th]. rewrite upd_t_other by auto. rewrite E2. cbn [m_th]. apply TH2o; auto. }
  assert (IDZ : forall x, idz s3 x = idz s x) by reflexivity.
  split; [|split; [|split; [|split; [|split]]]].
  - constructor; auto.
    + intros cls. apply (li_t2a s L cls).
    + intros x Hx. replace (m_attackers s3) with (m_attackers s ++ [h]) in Hx by reflexivity.
      replace (m_nt s3) with (S h) by reflexivity. apply In_app_single in Hx. destruct Hx as [Hx| ->]; [|lia].
      pose proof (li_alloc_t s L x Hx). unfold h. lia.
  - reflexivity.
  - reflexivity.
  - unfold cT. replace (m_attackers s3) with (m_attackers s ++ [h]) by reflexivity. rewrite map_app. f_equal.
    + apply map_ext_in. intros x Hx. unfold catt_of. rewrite TH3o by (intros ->; auto). reflexivity.
    + cbn [map]. unfold catt_of. rewrite TH3h. cbn [mt_id mt_name mt_entry]. destruct t as [ti tn te]. cbn in *. rewrite <- Me.
      f_equal.
  - reflexivity.
  - reflexivity.
Qed.

(* ---- lists of entries ---- *)
Lemma pair_eqb_sz_spec (p q : string * Z) : pair_eqb seqb Z.eqb p q = true <-> p = q.
Proof.
  destruct p as [a b], q as [c d]. unfold pair_eqb. cbn. rewrite andb_true_iff, seqb_spec, Z.eqb_eq.
  split; [intros [-> ->]; auto | intros E; inversion E; auto].
Qed.

Lemma load_assets_spec : forall l s, LI s -> NoDup (map ca_id l) -> NoDup (map ca_name l) ->
  (forall a, In a l -> ~ In (ca_id a) (m_ids s) /\ ~ In (ca_name a) (m_names s)) -> forallb asset_ok l = true ->
  exists s', load_list load_asset l s = (s', MOk) /\ LI s' /\ cA s' = cA s ++ l /\ cC s' = cC s /\ cT s' = cT s /\
             m_ids s' = m_ids s ++ map ca_id l /\ m_names s' = m_names s ++ map ca_name l.
Proof.
  induction l as [|a r IH]; intros s L Ni Nn Hf OK.
  - exists s. cbn. rewrite !app_nil_r. auto 10.
  - cbn in Ni, Nn, OK. inversion Ni as [|? ? Ni1 Ni2]; subst. inversion Nn as [|? ? Nn1 Nn2]; subst.
    apply andb_true_iff in OK. destruct OK as [OKa OKr].
    destruct (Hf a (or_introl eq_refl)) as [Fa1 Fa2].
    destruct (load_asset_spec s a L Fa1 Fa2) as (s1 & E1 & L1 & A1 & C1 & T1 & D1 & M1).
    assert (Ea : mkCA (ca_id a) (ca_name a) (ca_type a)
                   (nondefault (defaults (ca_type a)) (fill (defaults (ca_type a)) (ca_defs a))) (ca_extras a) = a).
    { unfold asset_ok, ModelLoad.asset_ok in OKa. apply (list_eqb_spec _ pair_eqb_sz_spec) in OKa. rewrite OKa. destruct a; reflexivity. }
    rewrite Ea in A1.
    destruct (IH s1 L1 Ni2 Nn2) as (s2 & E2 & L2 & A2 & C2 & T2 & D2 & M2); auto.
    { intros b Hb. destruct (Hf b (or_intror Hb)) as [Fb1 Fb2]. rewrite D1, M1. split; intros A0; apply In_app_single in A0.
      - destruct A0 as [A0|A0]; auto. apply Ni1. rewrite <- A0. apply in_map; auto.
      - destruct A0 as [A0|A0]; auto. apply Nn1. rewrite <- A0. apply in_map; auto. }
    exists s2. cbn [load_list]. rewrite E1. split; [exact E2|]. split; auto.
    rewrite A2, A1, C2, C1, T2, T1, D2, D1, M2, M1. cbn [map]. rewrite <- !app_assoc. cbn [app]. auto 10.
Qed.

Lemma load_assocs_spec : forall l s, LI s -> forallb (assoc_ok (m_ids s)) l = true -> no_clash (cC s) l = true ->
  exists s', load_list load_assoc l s = (s', MOk) /\ LI s' /\ cA s' = cA s /\ cC s' = cC s ++ l /\ cT s' = cT s /\
             m_ids s' = m_ids s /\ m_names s' = m_names s.
Proof.
  induction l as [|c r IH]; intros s L OK NC.
  - exists s. cbn. rewrite app_nil_r. auto 10.
  - cbn in OK, NC. apply andb_true_iff in OK. destruct OK as [OKc OKr]. apply andb_true_iff in NC. destruct NC as [NCc NCr].
    destruct (load_assoc_spec s c L OKc NCc) as (s1 & E1 & L1 & A1 & C1 & T1 & D1 & M1).
    destruct (IH s1 L1) as (s2 & E2 & L2 & A2 & C2 & T2 & D2 & M2).
    { rewrite D1. exact OKr. }
    { rewrite C1. exact NCr. }
    exists s2. cbn [load_list]. rewrite E1. split; [exact E2|]. split; auto.
    rewrite A2, A1, C2, C1, T2, T1, D2, D1, M2, M1. rewrite <- app_assoc. cbn [app]. auto 10.
Qed.

Lemma load_attackers_spec : forall l s, LI s -> forallb (attacker_ok (m_ids s)) l = true ->
  exists s', load_list load_attacker l s = (s', MOk) /\ LI s' /\ cA s' = cA s /\ cC s' = cC s /\ cT s' = cT s ++ l /\
             m_ids s' = m_ids s /\ m_names s' = m_names s.
Proof.
  induction l as [|t r IH]; intros s L OK.
  - exists s. cbn. rewrite app_nil_r. auto 10.
  - cbn in OK. apply andb_true_iff in OK. destruct OK as [OKt OKr].
    destruct (load_attacker_spec s t L OKt) as (s1 & E1 & L1 & A1 & C1 & T1 & D1 & M1).
    destruct (IH s1 L1) as (s2 & E2 & L2 & A2 & C2 & T2 & D2 & M2).
    { rewrite D1. exact OKr. }
    exists s2. cbn [load_list]. rewrite E1. split; [exact E2|]. split; auto.
    rewrite A2, A1, C2, C1, T2, T1, D2, D1, M2, M1. rewrite <- app_assoc. cbn [app]. auto 10.
Qed.

(* ---- the whole document ---- *)
Theorem load_loadable c : loadable c = true ->
  exists s, load c = (s, MOk) /\ MI s /\ content_of (c_name c) s = c.
Proof.
  intros OK. unfold loadable, ModelLoad.loadable in OK.
  repeat (apply andb_true_iff in OK; destruct OK as [OK ?]).
  rename H into OKt, H0 into NCl, H1 into OKc, H2 into OKa, H3 into Nn, OK into Ni.
  apply (nodupb_NoDup Z.eqb _ Z.eqb_eq) in Ni. apply (nodupb_NoDup seqb _ seqb_spec) in Nn.
  destruct (load_assets_spec (c_assets c) minit LI_init Ni Nn) as (s1 & E1 & L1 & A1 & C1 & T1 & D1 & M1); auto.
  destruct (load_assocs_spec (c_assocs c) s1 L1) as (s2 & E2 & L2 & A2 & C2 & T2 & D2 & M2).
  { rewrite D1. exact OKc. }
  { rewrite C1. exact NCl. }
  destruct (load_attackers_spec (c_attackers c) s2 L2) as (s3 & E3 & L3 & A3 & C3 & T3 & D3 & M3).
  { rewrite D2, D1. exact OKt. }
  exists s3. unfold load, ModelLoad.load, load_from, ModelLoad.load_from. rewrite E1, E2. split; [exact E3|]. split; [apply L3|].
  unfold content_of, ModelLoad.content_of. rewrite A3, A2, A1, C3, C2, C1, T3, T2, T1. destruct c; reflexivity.
Qed.

(* saving a content and loading the document again: through the codec of ModelIO and the rebuild *)
Theorem save_then_load c : loadable c = true -> wf_content c = true ->
  exists c' s, decode (encode c) = Some c' /\ load c' = (s, MOk) /\ MI s /\ content_of (c_name c) s = c.
Proof.
  intros OK W. exists c. destruct (load_loadable c OK) as (s & E & I & C). exists s. split; [apply decode_encode; auto|auto].
Qed.

(* in terms of model states: whenever the content of a model (any state) is loadable, saving the model and loading the
   file gives a coherent model with the same content *)
Theorem state_save_load n s : loadable (content_of n s) = true -> wf_content (content_of n s) = true ->
  exists c' s', decode (encode (content_of n s)) = Some c' /\ load c' = (s', MOk) /\ MI s' /\ content_of n s' = content_of n s.
Proof. intros OK W. exact (save_then_load (content_of n s) OK W). Qed.

End LoadThm.
