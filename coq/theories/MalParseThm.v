(* MalParseThm.v — the parser rebuilds every parse tree from its yield (completeness), and whatever it returns is a
   parse tree whose yield is the consumed prefix (soundness). *)
From MT Require Import Prelude Lang Mal MalParse.

Definition hd_is (P : tok -> bool) (l : list tok) : bool := match l with t :: _ => P t | [] => false end.
Definition is_op t := match sop_of_tok t with Some _ => true | None => false end.
Definition is_dot t := match t with Dot => true | _ => false end.
Definition is_star t := match t with Star => true | _ => false end.
Definition is_lsq t := match t with LSq => true | _ => false end.
Definition is_lp t := match t with LPar => true | _ => false end.
(* what may not follow an expression *)
Definition estop (l : list tok) : Prop :=
  hd_is is_op l = false /\ hd_is is_dot l = false /\ hd_is is_star l = false /\ hd_is is_lsq l = false /\ hd_is is_lp l = false.

(* ---------- weights (enough fuel) ---------- *)
Fixpoint we (e : cexpr) : nat := match e with CE p tl => 1 + wps p + wet tl end
with wet (t : etail) : nat := match t with ENil => 1 | ECons _ p tl => 1 + wps p + wet tl end
with wps (p : cparts) : nat := match p with CP p tl => 1 + wp p + wdt tl end
with wdt (t : dtail) : nat := match t with DNil => 1 | DCons p tl => 1 + wp p + wdt tl end
with wp (p : cpart) : nat := match p with CPart a _ _ => 1 + wa a end
with wa (a : catom) : nat := match a with CParen e => 1 + we e | _ => 1 end.
Fixpoint wte (e : cttcexpr) : nat := match e with TE t tl => 1 + wtt t + wtet tl end
with wtet (t : tetail) : nat := match t with TENil => 1 | TECons _ t tl => 1 + wtt t + wtet tl end
with wtt (t : cttcterm) : nat := match t with TT f tl => 1 + wtf f + wttt tl end
with wttt (t : tttail) : nat := match t with TTNil => 1 | TTCons _ f tl => 1 + wtf f + wttt tl end
with wtf (f : cttcfact) : nat := match f with TF1 a => 1 + wta a | TF2 a b => 1 + wta a + wta b end
with wta (a : cttcatom) : nat :=
  match a with TADist _ (Some args) => 2 + List.length args | TADist _ None => 1 | TAParen e => 1 + wte e | TANum _ => 1 end.

Lemma sop_of_tok_of o : sop_of_tok (tok_of_sop o) = Some o. Proof. destruct o; reflexivity. Qed.
Lemma ptys_ftys tys rest : hd_is is_lsq rest = false -> ptys (ftys tys ++ rest) = (tys, rest).
Proof.
  intros H. induction tys as [|t r IH]; cbn.
  - destruct rest as [|t rest]; [reflexivity|]. destruct t; cbn in *; try reflexivity; discriminate.
  - rewrite IH. reflexivity.
Qed.
Lemma hd_fet P tl rest : (forall o, P (tok_of_sop o) = false) -> hd_is P rest = false -> hd_is P (fet tl ++ rest) = false.
Proof. intros A B. destruct tl; cbn; auto. Qed.
Lemma hd_fdt P tl rest : P Dot = false -> hd_is P rest = false -> hd_is P (fdt tl ++ rest) = false.
Proof. intros A B. destruct tl; cbn; auto. Qed.

Theorem expr_parse_yield :
  (forall e n rest, we e <= n -> estop rest -> pe n (fe e ++ rest) = Some (e, rest)) /\
  (forall t n rest, wet t <= n -> estop rest -> pet n (fet t ++ rest) = Some (t, rest)) /\
  (forall p n rest, wps p <= n -> hd_is is_dot rest = false -> hd_is is_star rest = false -> hd_is is_lsq rest = false ->
       hd_is is_lp rest = false -> pps n (fps p ++ rest) = Some (p, rest)) /\
  (forall t n rest, wdt t <= n -> hd_is is_dot rest = false -> hd_is is_star rest = false -> hd_is is_lsq rest = false ->
       hd_is is_lp rest = false -> pdt n (fdt t ++ rest) = Some (t, rest)) /\
  (forall p n rest, wp p <= n -> hd_is is_star rest = false -> hd_is is_lsq rest = false -> hd_is is_lp rest = false ->
       pp n (fp p ++ rest) = Some (p, rest)) /\
  (forall a n rest, wa a <= n -> hd_is is_lp rest = false -> pa n (fa a ++ rest) = Some (a, rest)).
Proof.
  apply cst_mutind.
  - (* CE *) intros p IHp tl IHtl n rest Hn (H1 & H2 & H3 & H4 & H5). cbn [we fe] in *.
    destruct n as [|n]; [lia|]. cbn [pe]. rewrite <- app_assoc.
    rewrite IHp; try lia; try (apply hd_fet; auto; intros o; destruct o; reflexivity).
    rewrite IHtl; auto; [lia|repeat split; auto].
  - (* ENil *) intros n rest Hn (H1 & _). destruct n; [cbn in Hn; lia|]. cbn.
    destruct rest as [|t r]; [reflexivity|]. cbn in H1. unfold is_op in H1. destruct (sop_of_tok t); [discriminate|reflexivity].
  - (* ECons *) intros o p IHp tl IHtl n rest Hn (H1 & H2 & H3 & H4 & H5). cbn [wet fet] in *.
    destruct n as [|n]; [lia|]. cbn [pet app]. rewrite sop_of_tok_of. rewrite <- app_assoc.
    rewrite IHp; try lia; try (apply hd_fet; auto; intros o'; destruct o'; reflexivity).
    rewrite IHtl; auto; [lia|repeat split; auto].
  - (* CP *) intros p IHp tl IHtl n rest Hn H2 H3 H4 H5. cbn [wps fps] in *.
    destruct n as [|n]; [lia|]. cbn [pps]. rewrite <- app_assoc.
    rewrite IHp; try lia; try (apply hd_fdt; auto).
    rewrite IHtl; auto; lia.
  - (* DNil *) intros n rest Hn H2 _ _ _. destruct n; [cbn in Hn; lia|]. cbn.
    destruct rest as [|t r]; [reflexivity|]. destruct t; cbn in H2; try reflexivity; discriminate.
  - (* DCons *) intros p IHp tl IHtl n rest Hn H2 H3 H4 H5. cbn [wdt fdt] in *.
    destruct n as [|n]; [lia|]. cbn [pdt app]. rewrite <- app_assoc.
    rewrite IHp; try lia; try (apply hd_fdt; auto).
    rewrite IHtl; auto; lia.
  - (* CPart *) intros a IHa st tys n rest Hn H3 H4 H5. cbn [wp fp] in *.
    destruct n as [|n]; [lia|]. cbn [pp]. rewrite <- !app_assoc.
    destruct st.
    + rewrite IHa by (cbn; auto; lia). cbn [app]. rewrite ptys_ftys by auto. reflexivity.
    + cbn [app]. destruct tys as [|t tys'].
      * cbn [ftys app]. rewrite IHa by (auto; lia).
        destruct rest as [|t0 r]; [reflexivity|]. destruct t0; cbn in H3, H4 |- *; try reflexivity; try discriminate.
      * rewrite IHa by (cbn; auto; lia).
        change (ftys (t :: tys') ++ rest) with (LSq :: TId t :: RSq :: (ftys tys' ++ rest)).
        cbn [ptys]. rewrite ptys_ftys by auto. reflexivity.
  - (* CParen *) intros e IHe n rest Hn H5. cbn [wa fa] in *.
    destruct n as [|n]; [lia|]. cbn [pa app]. rewrite <- app_assoc. cbn [app].
    rewrite IHe by (try lia; repeat split; reflexivity). reflexivity.
  - (* CVar *) intros v n rest Hn H5. destruct n; [cbn in Hn; lia|]. reflexivity.
  - (* CId *) intros x n rest Hn H5. destruct n; [cbn in Hn; lia|]. cbn.
    destruct rest as [|t r]; [reflexivity|]. destruct t; try reflexivity. cbn in H5. discriminate.
Qed.
Definition pe_yield := proj1 expr_parse_yield.

(* ---------- TTC ---------- *)
Definition is_pm t := match t with Plus | Minus => true | _ => false end.
Definition is_sd t := match t with Star | Divide => true | _ => false end.
Definition is_pow t := match t with Power => true | _ => false end.
Definition tstop (l : list tok) : Prop :=
  hd_is is_pm l = false /\ hd_is is_sd l = false /\ hd_is is_pow l = false /\ hd_is is_lp l = false.
Lemma pnumber_fnum x rest : pnumber (fnum x :: rest) = Some (x, rest).
Proof. destruct x; reflexivity. Qed.
Lemma pnums_tail_yield : forall l n rest, List.length l < n ->
  pnums_tail n (flat_map (fun x => [Comma; fnum x]) l ++ RPar :: rest) = Some (l, rest).
Proof.
  induction l as [|x l IH]; intros n rest Hn; (destruct n as [|n]; [cbn in Hn; lia|]); cbn [flat_map app pnums_tail]; auto.
  rewrite pnumber_fnum. rewrite IH by (cbn in Hn; lia). reflexivity.
Qed.
Lemma fnums_shape x l : fnums (x :: l) = fnum x :: flat_map (fun y => [Comma; fnum y]) l.
Proof.
  revert x. induction l as [|y l IH]; intros x; [reflexivity|].
  change (fnums (x :: y :: l)) with (fnum x :: Comma :: fnums (y :: l)). rewrite IH. reflexivity.
Qed.
Lemma pargs_yield args n rest : List.length args <= n -> pargs n (fnums args ++ RPar :: rest) = Some (args, rest).
Proof.
  intros Hn. destruct args as [|x l]; [reflexivity|]. rewrite fnums_shape. unfold pargs. cbn [app].
  destruct x; cbn [fnum pnumber]; rewrite pnums_tail_yield by (cbn in Hn; lia); reflexivity.
Qed.
Lemma hd_ftet P tl rest : P Plus = false -> P Minus = false -> hd_is P rest = false -> hd_is P (ftet tl ++ rest) = false.
Proof. intros A B Cc. destruct tl as [|[] ? ?]; cbn; auto. Qed.
Lemma hd_fttt P tl rest : P Star = false -> P Divide = false -> hd_is P rest = false -> hd_is P (fttt tl ++ rest) = false.
Proof. intros A B Cc. destruct tl as [|[] ? ?]; cbn; auto. Qed.

Theorem ttc_parse_yield :
  (forall e n rest, wte e <= n -> tstop rest -> pte n (fte e ++ rest) = Some (e, rest)) /\
  (forall t n rest, wtet t <= n -> tstop rest -> ptet n (ftet t ++ rest) = Some (t, rest)) /\
  (forall t n rest, wtt t <= n -> hd_is is_sd rest = false -> hd_is is_pow rest = false -> hd_is is_lp rest = false ->
       ptt n (ftt t ++ rest) = Some (t, rest)) /\
  (forall t n rest, wttt t <= n -> hd_is is_sd rest = false -> hd_is is_pow rest = false -> hd_is is_lp rest = false ->
       pttt n (fttt t ++ rest) = Some (t, rest)) /\
  (forall f n rest, wtf f <= n -> hd_is is_pow rest = false -> hd_is is_lp rest = false -> ptf n (ftf f ++ rest) = Some (f, rest)) /\
  (forall a n rest, wta a <= n -> hd_is is_lp rest = false -> pta n (fta a ++ rest) = Some (a, rest)).
Proof.
  apply ttc_mutind.
  - intros t IHt tl IHtl n rest Hn (H1 & H2 & H3 & H4). cbn [wte fte] in *.
    destruct n as [|n]; [lia|]. cbn [pte]. rewrite <- app_assoc.
    rewrite IHt; try lia; try (apply hd_ftet; auto).
    rewrite IHtl; auto; [lia|repeat split; auto].
  - intros n rest Hn (H1 & _). destruct n; [cbn in Hn; lia|]. cbn.
    destruct rest as [|t r]; [reflexivity|]. destruct t; cbn in H1; try reflexivity; discriminate.
  - intros pl t IHt tl IHtl n rest Hn (H1 & H2 & H3 & H4). cbn [wtet ftet] in *.
    destruct n as [|n]; [lia|]. destruct pl; cbn [ptet app]; rewrite <- app_assoc;
      (rewrite IHt; try lia; try (apply hd_ftet; auto)); (rewrite IHtl; auto; [lia|repeat split; auto]).
  - intros f IHf tl IHtl n rest Hn H2 H3 H4. cbn [wtt ftt] in *.
    destruct n as [|n]; [lia|]. cbn [ptt]. rewrite <- app_assoc.
    rewrite IHf; try lia; try (apply hd_fttt; auto).
    rewrite IHtl; auto; lia.
  - intros n rest Hn H2 _ _. destruct n; [cbn in Hn; lia|]. cbn.
    destruct rest as [|t r]; [reflexivity|]. destruct t; cbn in H2; try reflexivity; discriminate.
  - intros st f IHf tl IHtl n rest Hn H2 H3 H4. cbn [wttt fttt] in *.
    destruct n as [|n]; [lia|]. destruct st; cbn [pttt app]; rewrite <- app_assoc;
      (rewrite IHf; try lia; try (apply hd_fttt; auto)); (rewrite IHtl; auto; lia).
  - (* TF1 *) intros a IHa n rest Hn H3 H4. cbn [wtf ftf] in *. destruct n as [|n]; [lia|]. cbn [ptf].
    rewrite IHa by (auto; lia). destruct rest as [|t r]; [reflexivity|]. destruct t; try reflexivity. cbn in H3. discriminate.
  - (* TF2 *) intros a IHa b IHb n rest Hn H3 H4. cbn [wtf ftf] in *. destruct n as [|n]; [lia|]. cbn [ptf].
    rewrite <- app_assoc. cbn [app]. rewrite IHa by (try reflexivity; lia). rewrite IHb by (auto; lia). reflexivity.
  - (* TADist *) intros name args n rest Hn H4. destruct n as [|n]; [cbn in Hn; destruct args; lia|].
    destruct args as [l|]; cbn [fta app pta].
    + rewrite <- app_assoc. cbn [app]. rewrite pargs_yield by (cbn in Hn; lia). reflexivity.
    + destruct rest as [|t r]; [reflexivity|]. destruct t; try reflexivity. cbn in H4. discriminate.
  - (* TAParen *) intros e IHe n rest Hn H4. cbn [wta fta] in *. destruct n as [|n]; [lia|]. cbn [pta app].
    rewrite <- app_assoc. cbn [app]. rewrite IHe by (try lia; repeat split; reflexivity). reflexivity.
  - (* TANum *) intros x n rest Hn H4. destruct n as [|n]; [cbn in Hn; lia|]. destruct x; reflexivity.
Qed.
Definition pte_yield := proj1 ttc_parse_yield.

(* ---------- repetition ---------- *)
Section StarYield.
Context {A : Type} (start : list tok -> bool) (p : nat -> list tok -> option (A * list tok)) (f : A -> list tok) (w : A -> nat).
Variable follow : list tok -> Prop.
Hypothesis p_yield : forall a n rest, w a <= n -> follow rest -> p n (f a ++ rest) = Some (a, rest).
Hypothesis start_elem : forall a rest, start (f a ++ rest) = true.
Hypothesis follow_elem : forall a rest, follow (f a ++ rest).
Fixpoint wlist (l : list A) : nat := match l with [] => 1 | a :: r => 1 + w a + wlist r end.
Lemma pstar_yield : forall l n rest, wlist l <= n -> follow rest -> start rest = false ->
  pstar start p n (flat_map f l ++ rest) = Some (l, rest).
Proof.
  induction l as [|a l IH]; intros n rest Hn Hf Hs; (destruct n as [|n]; [cbn in Hn; lia|]); cbn [flat_map app pstar].
  - rewrite Hs. reflexivity.
  - rewrite <- app_assoc. rewrite start_elem. cbn [wlist] in Hn.
    rewrite p_yield; [|lia|destruct l; cbn [flat_map app]; [exact Hf|rewrite <- app_assoc; apply follow_elem]].
    rewrite IH; auto. lia.
Qed.
End StarYield.

(* ---------- steps ---------- *)
Definition mfollow (rest : list tok) : bool :=
  match rest with [] => true | t :: _ => match t with And | Or | Hash | KE | NotExists | KLet | RCur => true | _ => false end end.
Lemma mfollow_estop rest : mfollow rest = true -> estop rest /\ s_comma rest = false.
Proof. destruct rest as [|t r]; [repeat split|]. destruct t; cbn; intros H; try discriminate; repeat split. Qed.

Lemma fexprs_shape e l : fexprs e l = fe e ++ flat_map (fun e2 => Comma :: fe e2) l.
Proof.
  revert e. induction l as [|e2 l IH]; intros e; cbn [fexprs flat_map]; [rewrite app_nil_r; reflexivity|].
  rewrite IH. cbn. reflexivity.
Qed.
Definition wexprs (x : cexpr * list cexpr) : nat := we (fst x) + wlist we (snd x).
Lemma estop_comma r : estop (Comma :: r). Proof. repeat split. Qed.
Lemma pexprs_yield e l n rest : wexprs (e, l) <= n -> estop rest -> s_comma rest = false ->
  pexprs n (fexprs e l ++ rest) = Some ((e, l), rest).
Proof.
  unfold wexprs. cbn [fst snd]. intros Hn Hs Hc. unfold pexprs. rewrite fexprs_shape, <- app_assoc.
  rewrite pe_yield; [|lia|destruct l; cbn [flat_map app]; [exact Hs|apply estop_comma]].
  rewrite (pstar_yield s_comma pcomma_expr (fun e2 => Comma :: fe e2) we estop); auto; try lia.
  - intros a n0 r0 Ha Hr. cbn [pcomma_expr app]. apply pe_yield; auto.
  - intros a r0. apply estop_comma.
Qed.

Definition ftags (l : list string) : list tok := flat_map (fun t => [At; TId t]) l.
Definition fcias_opt (c : option (ccia * list ccia)) : list tok :=
  match c with Some (c, cs) => LCur :: fcia c :: flat_map (fun c => [Comma; fcia c]) cs ++ [RCur] | None => [] end.
Definition fttc_opt (t : option cttcexpr) : list tok := match t with Some e => LSq :: fte e ++ [RSq] | None => [] end.
Definition fpre_opt (p : option (cexpr * list cexpr)) : list tok := match p with Some (e, l) => Requires :: fexprs e l | None => [] end.
Definition frea_opt (r : option (bool * (cexpr * list cexpr))) : list tok := match r with Some r => freaches r | None => [] end.
Lemma fstep_shape s : fstep s = fsteptype (cs_type s) :: TId (cs_name s) :: ftags (cs_tags s) ++ fcias_opt (cs_cias s) ++
  fttc_opt (cs_ttc s) ++ fmetas (cs_meta s) ++ fpre_opt (cs_pre s) ++ frea_opt (cs_reaches s).
Proof. reflexivity. Qed.

Lemma wlist_const {A} (l : list A) : wlist (fun _ => 1) l = S (2 * List.length l).
Proof. induction l as [|a l IH]; cbn [wlist List.length]; [reflexivity|]. rewrite IH. lia. Qed.
Lemma ptags_yield l n rest : S (2 * List.length l) <= n -> s_tag rest = false -> pstar s_tag ptag n (ftags l ++ rest) = Some (l, rest).
Proof.
  intros Hn Hs. unfold ftags.
  apply (pstar_yield s_tag ptag (fun t => [At; TId t]) (fun _ => 1) (fun _ => True)); auto.
  - rewrite wlist_const. lia.
Qed.
Lemma pmetas_yield l n rest : S (2 * List.length l) <= n -> s_meta rest = false -> pmetas n (fmetas l ++ rest) = Some (l, rest).
Proof.
  intros Hn Hs. unfold pmetas, fmetas.
  apply (pstar_yield s_meta pmeta fmeta (fun _ => 1) (fun _ => True)); auto.
  - intros [k v] n0 r0 _ _. reflexivity.
  - rewrite wlist_const. lia.
Qed.
Lemma pcia_fcia c rest : pcia (fcia c :: rest) = Some (c, rest). Proof. destruct c; reflexivity. Qed.
Lemma pcias_yield c n rest : (match c with Some (_, cs) => S (2 * List.length cs) | None => 0 end) <= n ->
  (c = None -> hd_is (fun t => match t with LCur => true | _ => false end) rest = false) ->
  pcias n (fcias_opt c ++ rest) = Some (c, rest).
Proof.
  intros Hn Hs. destruct c as [[c cs]|]; cbn [fcias_opt app].
  - unfold pcias. rewrite pcia_fcia. rewrite <- app_assoc.
    rewrite (pstar_yield s_comma pcomma_cia (fun c => [Comma; fcia c]) (fun _ => 1) (fun _ => True)); auto.
    + intros a n0 r0 _ _. cbn. apply pcia_fcia.
    + rewrite wlist_const. lia.
  - specialize (Hs eq_refl). unfold pcias. destruct rest as [|t r]; auto. destruct t; auto. cbn in Hs. discriminate.
Qed.
Lemma tstop_rsq r : tstop (RSq :: r). Proof. repeat split. Qed.
Lemma pttc_yield t n rest : (match t with Some e => wte e | None => 0 end) <= n ->
  (t = None -> hd_is is_lsq rest = false) -> pttc n (fttc_opt t ++ rest) = Some (t, rest).
Proof.
  intros Hn Hs. destruct t as [e|]; cbn [fttc_opt app].
  - unfold pttc. rewrite <- app_assoc. cbn [app]. rewrite pte_yield; auto. apply tstop_rsq.
  - specialize (Hs eq_refl). unfold pttc. destruct rest as [|t r]; auto. destruct t; auto. cbn in Hs. discriminate.
Qed.
Lemma ppre_yield p n rest : (match p with Some x => wexprs x | None => 0 end) <= n ->
  (p = None -> hd_is (fun t => match t with Requires => true | _ => false end) rest = false) ->
  (p <> None -> estop rest /\ s_comma rest = false) -> ppre n (fpre_opt p ++ rest) = Some (p, rest).
Proof.
  intros Hn Hs Hf. destruct p as [[e l]|]; cbn [fpre_opt app].
  - unfold ppre. destruct Hf as [F1 F2]; [discriminate|]. rewrite pexprs_yield; auto.
  - specialize (Hs eq_refl). unfold ppre. destruct rest as [|t r]; auto. destruct t; auto. cbn in Hs. discriminate.
Qed.
Lemma preaches_yield p n rest : (match p with Some (_, x) => wexprs x | None => 0 end) <= n ->
  (p = None -> hd_is (fun t => match t with Inherits | LeadsTo => true | _ => false end) rest = false) ->
  (p <> None -> estop rest /\ s_comma rest = false) -> preaches n (frea_opt p ++ rest) = Some (p, rest).
Proof.
  intros Hn Hs Hf. destruct p as [[inh [e l]]|]; cbn [frea_opt freaches fst snd app].
  - destruct Hf as [F1 F2]; [discriminate|]. destruct inh; unfold preaches; rewrite pexprs_yield; auto.
  - specialize (Hs eq_refl). unfold preaches. destruct rest as [|t r]; auto. destruct t; auto; cbn in Hs; discriminate.
Qed.

Definition wstep (s : cstep) : nat :=
  2 * List.length (cs_tags s) + (match cs_cias s with Some (_, cs) => 2 * List.length cs | None => 0 end) +
  (match cs_ttc s with Some e => wte e | None => 0 end) + 2 * List.length (cs_meta s) +
  (match cs_pre s with Some x => wexprs x | None => 0 end) + (match cs_reaches s with Some (_, x) => wexprs x | None => 0 end) + 2.
Lemma psteptype_f t : psteptype (fsteptype t) = Some t. Proof. destruct t; reflexivity. Qed.

Ltac hd_solve Hm :=
  repeat match goal with
         | |- context [match ?x with _ => _ end] => is_var x; destruct x
         | x : (_ * _)%type |- _ => destruct x
         end; cbn; try reflexivity; try (intros; discriminate); try (intros; congruence);
  try (destruct (mfollow_estop _ Hm) as [? ?]; auto).

Theorem pstep_yield s n rest : wstep s <= n -> mfollow rest = true -> pstep n (fstep s ++ rest) = Some (s, rest).
Proof.
  destruct s as [ty name tags cias ttc metas pre rea]. unfold wstep. cbn [cs_tags cs_cias cs_ttc cs_meta cs_pre cs_reaches].
  intros Hn Hm. rewrite fstep_shape. cbn [cs_type cs_name cs_tags cs_cias cs_ttc cs_meta cs_pre cs_reaches app].
  unfold pstep. rewrite psteptype_f. rewrite <- !app_assoc.
  destruct (mfollow_estop _ Hm) as [Fe Fc].
  assert (HR : forall P : tok -> bool, (forall t, mfollow (t :: nil) = true -> P t = false) -> hd_is P rest = false).
  { intros P HP. destruct rest as [|t r]; auto. cbn. apply HP. cbn. cbn in Hm. exact Hm. }
  (* tags *)
  rewrite ptags_yield; [|lia|].
  2:{ destruct cias as [[c cs]|]; [reflexivity|]. destruct ttc; [reflexivity|]. destruct metas as [|[k v] ms]; [|reflexivity].
      destruct pre as [[e l]|]; [reflexivity|]. destruct rea as [[[] [e l]]|]; try reflexivity. cbn.
      destruct rest as [|t r]; auto. destruct t; auto; try discriminate. }
  (* cias *)
  rewrite pcias_yield; [|destruct cias as [[c cs]|]; lia|].
  2:{ intros ->. destruct ttc; [reflexivity|]. destruct metas as [|[k v] ms]; [|reflexivity].
      destruct pre as [[e l]|]; [reflexivity|]. destruct rea as [[[] [e l]]|]; try reflexivity. cbn.
      destruct rest as [|t r]; auto. destruct t; auto; try discriminate. }
  (* ttc *)
  rewrite pttc_yield; [|destruct ttc; lia|].
  2:{ intros ->. destruct metas as [|[k v] ms]; [|reflexivity].
      destruct pre as [[e l]|]; [reflexivity|]. destruct rea as [[[] [e l]]|]; try reflexivity. cbn. apply Fe. }
  (* metas *)
  rewrite pmetas_yield; [|lia|].
  2:{ destruct pre as [[e l]|]; [reflexivity|]. destruct rea as [[[] [e l]]|]; try reflexivity. cbn.
      destruct rest as [|t r]; auto. destruct t; auto; try discriminate. }
  (* precondition *)
  rewrite ppre_yield; [|destruct pre; lia| |].
  2:{ intros ->. destruct rea as [[[] [e l]]|]; try reflexivity. cbn. destruct rest as [|t r]; auto. destruct t; auto; try discriminate. }
  2:{ intros _. destruct rea as [[[] [e l]]|]; [split; [repeat split|reflexivity]..|]. cbn. split; auto. }
  (* reaches *)
  rewrite preaches_yield; [reflexivity|destruct rea as [[? ?]|]; lia| |].
  - intros ->. destruct rest as [|t r]; auto. destruct t; auto; try discriminate.
  - intros _. split; auto.
Qed.

(* ---------- members, assets, associations, declarations ---------- *)
Definition wmember (m : cmember) : nat := match m with MStep s => S (wstep s) | MVar v => S (we (cv_expr v)) end.
Theorem pmember_yield m n rest : wmember m <= n -> mfollow rest = true -> pmember n (fmember m ++ rest) = Some (m, rest).
Proof.
  intros Hn Hm. destruct m as [s|[x e]]; cbn [wmember fmember] in *.
  - unfold pmember. rewrite pstep_yield by (auto; lia).
    rewrite fstep_shape. destruct (cs_type s); reflexivity.
  - cbn [fvariable cv_name cv_expr app pmember] in *. destruct (mfollow_estop _ Hm). rewrite pe_yield by (auto; lia). reflexivity.
Qed.
Lemma s_member_fmember m r : s_member (fmember m ++ r) = true.
Proof. destruct m as [s|v]; cbn [fmember]; [rewrite fstep_shape; destruct (cs_type s); reflexivity|reflexivity]. Qed.
Lemma mfollow_fmember m r : mfollow (fmember m ++ r) = true.
Proof. destruct m as [s|v]; cbn [fmember]; [rewrite fstep_shape; destruct (cs_type s); reflexivity|reflexivity]. Qed.

Definition wasset (a : casset) : nat := 2 * List.length (ca_meta a) + wlist wmember (ca_members a) + 3.
Lemma pextends_none metas X : pextends (fmetas metas ++ LCur :: X) = (Some None, fmetas metas ++ LCur :: X).
Proof. destruct metas as [|[k v] r]; reflexivity. Qed.
Theorem passet_yield a n rest : wasset a <= n -> passet n (fasset a ++ rest) = Some (a, rest).
Proof.
  destruct a as [abs name ext metas ms]. unfold wasset. cbn [ca_meta ca_members]. intros Hn.
  assert (Em : forall X, pmetas n (fmetas metas ++ LCur :: X) = Some (metas, LCur :: X)) by (intros; apply pmetas_yield; [lia|reflexivity]).
  assert (Es : forall R, pstar s_member pmember n (flat_map fmember ms ++ RCur :: R) = Some (ms, RCur :: R)).
  { intros R. apply (pstar_yield s_member pmember fmember wmember (fun r => mfollow r = true)); auto; try lia.
    - intros; apply pmember_yield; auto.
    - apply s_member_fmember.
    - apply mfollow_fmember. }
  unfold fasset, passet. cbn [ca_abstract ca_name ca_extends ca_meta ca_members].
  destruct abs, ext as [p|]; cbn [app pabstract]; repeat (rewrite <- app_assoc; cbn [app]); cbv iota beta zeta;
    rewrite ?pextends_none; cbn [pextends]; cbv iota beta zeta; rewrite Em, Es; reflexivity.
Qed.

Lemma pmult_yield m rest : hd_is (fun t => match t with Range => true | _ => false end) rest = false ->
  pmult (fmult m ++ rest) = Some (m, rest).
Proof.
  intros H. destruct m as [lo hi]. unfold fmult, pmult. cbn [cmu_lo cmu_hi].
  destruct lo, hi as [[|]|]; cbn; try reflexivity; destruct rest as [|t r]; try reflexivity; destruct t; try reflexivity; cbn in H; discriminate.
Qed.
Definition wassoc (a : cassociation) : nat := 2 * List.length (cas_meta a) + 2.
Theorem passoc_yield a n rest : wassoc a <= n -> s_meta rest = false -> passoc n (fassociation a ++ rest) = Some (a, rest).
Proof.
  destruct a as [la lf lm name rm rf ra metas]. unfold wassoc. cbn [cas_meta]. intros Hn Hs.
  unfold fassociation, passoc. cbn [cas_left cas_lfield cas_lmult cas_name cas_rmult cas_rfield cas_right cas_meta app].
  repeat (rewrite <- app_assoc; cbn [app]). rewrite pmult_yield by reflexivity.
  rewrite pmult_yield by reflexivity. rewrite pmetas_yield by (auto; lia). reflexivity.
Qed.

Definition wdecl (d : cdecl) : nat :=
  match d with
  | DInclude _ | DDefine _ _ => 1
  | DCategory c => 2 * List.length (cc_meta c) + wlist wasset (cc_assets c) + 3
  | DAssociations l => wlist wassoc l + 2
  end.
Lemma s_asset_fasset a r : s_asset (fasset a ++ r) = true.
Proof. unfold fasset. destruct (ca_abstract a); reflexivity. Qed.
Theorem pdecl_yield d n rest : wdecl d <= n -> pdecl n (fdecl d ++ rest) = Some (d, rest).
Proof.
  destruct d as [f|k v|[name metas assets]|l]; cbn [wdecl fdecl cc_meta cc_assets]; intros Hn; try reflexivity.
  - unfold fcategory. cbn [cc_name cc_meta cc_assets app pdecl]. repeat (rewrite <- app_assoc; cbn [app]).
    rewrite pmetas_yield by (try reflexivity; lia).
    rewrite (pstar_yield s_asset passet fasset wasset (fun _ => True)); auto; try lia.
    + intros; apply passet_yield; auto.
    + apply s_asset_fasset.
  - cbn [app pdecl]. rewrite <- app_assoc. cbn [app].
    rewrite (pstar_yield s_assoc passoc fassociation wassoc (fun r => s_meta r = false)); auto; try lia.
    + intros; apply passoc_yield; auto.
Qed.
Lemma s_decl_fdecl d r : s_decl (fdecl d ++ r) = true.
Proof. destruct d as [f|k v|c|l]; reflexivity. Qed.

Definition wmal (m : cmal) : nat := wlist wdecl m.
(* completeness: a parse tree is rebuilt from its yield, whatever follows as long as it cannot start a declaration *)
Theorem parse_mal_yield m n rest : wmal m <= n -> s_decl rest = false -> (m = [] -> rest = []) ->
  parse_mal n (fmal m ++ rest) = Some (m, rest).
Proof.
  intros Hn Hs He. unfold parse_mal, fmal.
  assert (E : pstar s_decl pdecl n (flat_map fdecl m ++ rest) = Some (m, rest)).
  { apply (pstar_yield s_decl pdecl fdecl wdecl (fun _ => True)); auto.
    - intros; apply pdecl_yield; auto.
    - apply s_decl_fdecl. }
  destruct m as [|d m']; [rewrite (He eq_refl); reflexivity|].
  cbn [flat_map]. rewrite <- app_assoc. rewrite s_decl_fdecl.
  destruct (fdecl d ++ flat_map fdecl m' ++ rest) eqn:Ed.
  - destruct d as [f|k v|c|l]; discriminate.
  - rewrite <- Ed. cbn [flat_map] in E. rewrite <- app_assoc in E. exact E.
Qed.

(* ================= soundness: what the parser returns is a parse tree of the consumed prefix ================= *)
Ltac inv_opt H :=
  repeat match type of H with
         | match ?x with _ => _ end = Some _ => let E := fresh "E" in destruct x eqn:E; try discriminate H
         end.
Ltac finish := subst; cbn; repeat rewrite <- app_assoc; cbn; reflexivity.

Lemma ptys_sound : forall k toks l r, List.length toks <= k -> ptys toks = (l, r) -> toks = ftys l ++ r.
Proof.
  induction k as [|k IH]; intros toks l r Hk H.
  - destruct toks; [|cbn in Hk; lia]. cbn in H. inversion H; reflexivity.
  - destruct toks as [|t1 toks]; [cbn in H; inversion H; reflexivity|].
    destruct t1; try (cbn in H; inversion H; reflexivity).
    destruct toks as [|t2 toks]; [cbn in H; inversion H; reflexivity|].
    destruct t2; try (cbn in H; inversion H; reflexivity).
    destruct toks as [|t3 toks]; [cbn in H; inversion H; reflexivity|].
    destruct t3; try (cbn in H; inversion H; reflexivity).
    cbn [ptys] in H. destruct (ptys toks) as [l' r'] eqn:E. inversion H; subst.
    rewrite (IH toks l' r); auto. cbn in Hk. lia.
Qed.

Theorem expr_parse_sound : forall n,
  (forall toks e r, pe n toks = Some (e, r) -> toks = fe e ++ r) /\
  (forall toks t r, pet n toks = Some (t, r) -> toks = fet t ++ r) /\
  (forall toks p r, pps n toks = Some (p, r) -> toks = fps p ++ r) /\
  (forall toks t r, pdt n toks = Some (t, r) -> toks = fdt t ++ r) /\
  (forall toks p r, pp n toks = Some (p, r) -> toks = fp p ++ r) /\
  (forall toks a r, pa n toks = Some (a, r) -> toks = fa a ++ r).
Proof.
  induction n as [|n (IHe & IHet & IHps & IHdt & IHp & IHa)]; [repeat split; intros; discriminate|].
  repeat split; intros toks x r H; cbn in H.
  - inv_opt H. inversion H; subst. apply IHps in E. apply IHet in E1. finish.
  - destruct toks as [|t toks]; [inversion H; reflexivity|].
    destruct (sop_of_tok t) as [o|] eqn:Eo; [|inversion H; reflexivity].
    inv_opt H. inversion H; subst. apply IHps in E. apply IHet in E1. subst.
    assert (t = tok_of_sop o) by (destruct t; cbn in Eo; inversion Eo; reflexivity). finish.
  - inv_opt H. inversion H; subst. apply IHp in E. apply IHdt in E1. finish.
  - destruct toks as [|t toks]; [inversion H; reflexivity|].
    destruct t; try (inversion H; reflexivity).
    inv_opt H. inversion H; subst. apply IHp in E. apply IHdt in E1. finish.
  - destruct (pa n toks) as [[a r0]|] eqn:Ea; [|discriminate]. apply IHa in Ea. subst toks.
    assert (G : forall st r1, (st = true /\ r0 = Star :: r1 \/ st = false /\ r0 = r1) ->
                (let (tys, r2) := ptys r1 in Some (CPart a st tys, r2)) = Some (x, r) -> fa a ++ r0 = fp x ++ r).
    { intros st r1 Hst G. destruct (ptys r1) as [tys r2] eqn:Et. inversion G; subst.
      apply (ptys_sound (List.length r1)) in Et; auto. subst r1. cbn [fp].
      destruct Hst as [[-> ->]|[-> ->]]; repeat rewrite <- app_assoc; reflexivity. }
    destruct r0 as [|t0 r0']; [apply (G false []); auto|].
    destruct t0; try (apply (G false _ (or_intror (conj eq_refl eq_refl)) H)).
    apply (G true r0'); auto.
  - destruct toks as [|t toks]; [discriminate|].
    destruct t; try discriminate.
    + (* TId *) destruct toks as [|t2 toks]; [inversion H; reflexivity|].
      destruct t2; try (inversion H; reflexivity).
      destruct toks as [|t3 toks]; [discriminate|]. destruct t3; try discriminate. inversion H; reflexivity.
    + (* LPar *) inv_opt H. inversion H; subst. apply IHe in E. finish.
Qed.
Definition pe_sound n := proj1 (expr_parse_sound n).

Lemma pnumber_sound toks x r : pnumber toks = Some (x, r) -> toks = fnum x :: r.
Proof. destruct toks as [|t toks]; [discriminate|]. destruct t; cbn; intros H; inversion H; reflexivity. Qed.
Lemma pnums_tail_sound : forall n toks l r, pnums_tail n toks = Some (l, r) ->
  toks = flat_map (fun x => [Comma; fnum x]) l ++ RPar :: r.
Proof.
  induction n as [|n IH]; intros toks l r H; [discriminate|]. cbn in H.
  destruct toks as [|t toks]; [discriminate|]. destruct t; try discriminate.
  - inversion H; reflexivity.
  - destruct (pnumber toks) as [[x r1]|] eqn:E; [|discriminate]. destruct (pnums_tail n r1) as [[l' r2]|] eqn:E2; [|discriminate].
    inversion H; subst. apply pnumber_sound in E. apply IH in E2. subst. reflexivity.
Qed.
Lemma pargs_sound n toks l r : pargs n toks = Some (l, r) -> toks = fnums l ++ RPar :: r.
Proof.
  unfold pargs. intros H.
  assert (G : (match pnumber toks with
               | Some (x, r1) => match pnums_tail n r1 with Some (l, r2) => Some (x :: l, r2) | None => None end
               | None => None end) = Some (l, r) -> toks = fnums l ++ RPar :: r).
  { intros G. destruct (pnumber toks) as [[x r1]|] eqn:E; [|discriminate]. destruct (pnums_tail n r1) as [[l' r2]|] eqn:E2; [|discriminate].
    inversion G; subst. apply pnumber_sound in E. apply pnums_tail_sound in E2. subst. rewrite fnums_shape. reflexivity. }
  destruct toks as [|t toks]; [apply G; exact H|]. destruct t; try (apply G; exact H). inversion H; reflexivity.
Qed.

Theorem ttc_parse_sound : forall n,
  (forall toks e r, pte n toks = Some (e, r) -> toks = fte e ++ r) /\
  (forall toks t r, ptet n toks = Some (t, r) -> toks = ftet t ++ r) /\
  (forall toks t r, ptt n toks = Some (t, r) -> toks = ftt t ++ r) /\
  (forall toks t r, pttt n toks = Some (t, r) -> toks = fttt t ++ r) /\
  (forall toks f r, ptf n toks = Some (f, r) -> toks = ftf f ++ r) /\
  (forall toks a r, pta n toks = Some (a, r) -> toks = fta a ++ r).
Proof.
  induction n as [|n (IHe & IHet & IHt & IHtt & IHf & IHa)]; [repeat split; intros; discriminate|].
  repeat split; intros toks x r H; cbn in H.
  - inv_opt H. inversion H; subst. apply IHt in E. apply IHet in E1. finish.
  - destruct toks as [|t toks]; [inversion H; reflexivity|].
    destruct t; try (inversion H; reflexivity); inv_opt H; inversion H; subst; apply IHt in E; apply IHet in E1; finish.
  - inv_opt H. inversion H; subst. apply IHf in E. apply IHtt in E1. finish.
  - destruct toks as [|t toks]; [inversion H; reflexivity|].
    destruct t; try (inversion H; reflexivity); inv_opt H; inversion H; subst; apply IHf in E; apply IHtt in E1; finish.
  - destruct (pta n toks) as [[a r0]|] eqn:Ea; [|discriminate]. apply IHa in Ea. subst toks.
    destruct r0 as [|t0 r0']; [inversion H; subst; cbn; reflexivity|].
    destruct t0; try (inversion H; subst; cbn; reflexivity).
    destruct (pta n r0') as [[b r1]|] eqn:Eb; [|discriminate]. inversion H; subst. apply IHa in Eb. finish.
  - destruct toks as [|t toks]; [discriminate|].
    destruct t; try discriminate.
    + inversion H; reflexivity.
    + inversion H; reflexivity.
    + (* TId *) destruct toks as [|t2 toks]; [inversion H; reflexivity|].
      destruct t2; try (inversion H; reflexivity).
      destruct (pargs n toks) as [[l r']|] eqn:E; [|discriminate]. inversion H; subst. apply pargs_sound in E. finish.
    + (* LPar *) inv_opt H. inversion H; subst. apply IHe in E. finish.
Qed.
Definition pte_sound n := proj1 (ttc_parse_sound n).

Section StarSound.
Context {A : Type} (start : list tok -> bool) (p : nat -> list tok -> option (A * list tok)) (f : A -> list tok).
Hypothesis p_sound : forall n toks a r, p n toks = Some (a, r) -> toks = f a ++ r.
Lemma pstar_sound : forall n toks l r, pstar start p n toks = Some (l, r) -> toks = flat_map f l ++ r.
Proof.
  induction n as [|n IH]; intros toks l r H; [discriminate|]. cbn in H.
  destruct (start toks); [|inversion H; reflexivity].
  destruct (p n toks) as [[a r1]|] eqn:E; [|discriminate]. destruct (pstar start p n r1) as [[l' r2]|] eqn:E2; [|discriminate].
  inversion H; subst. apply p_sound in E. apply IH in E2. subst. cbn. rewrite <- app_assoc. reflexivity.
Qed.
(* the loop stops only where the next token cannot start an element *)
Lemma pstar_stops : forall n toks l r, pstar start p n toks = Some (l, r) -> start r = false.
Proof.
  induction n as [|n IH]; intros toks l r H; [discriminate|]. cbn in H.
  destruct (start toks) eqn:Es; [|inversion H; subst; auto].
  destruct (p n toks) as [[a r1]|]; [|discriminate]. destruct (pstar start p n r1) as [[l' r2]|] eqn:E2; [|discriminate].
  inversion H; subst. eapply IH; eauto.
Qed.
End StarSound.

Ltac eat H := match type of H with
  | context [match ?l with [] => _ | _ :: _ => _ end] => is_var l; let t := fresh "t" in destruct l as [|t l]; [try discriminate H|destruct t; try discriminate H]
  end.
Lemma pmeta_sound n toks m r : pmeta n toks = Some (m, r) -> toks = fmeta m ++ r.
Proof.
  unfold pmeta. intros H. do 4 eat H. inversion H; reflexivity.
Qed.
Lemma pmetas_sound n toks l r : pmetas n toks = Some (l, r) -> toks = fmetas l ++ r.
Proof. apply (pstar_sound s_meta pmeta fmeta pmeta_sound). Qed.
Lemma ptag_sound n toks t r : ptag n toks = Some (t, r) -> toks = [At; TId t] ++ r.
Proof. unfold ptag. intros H. do 2 eat H. inversion H; reflexivity. Qed.
Lemma pcia_sound toks c r : pcia toks = Some (c, r) -> toks = fcia c :: r.
Proof. destruct toks as [|t toks]; [discriminate|]. destruct t; cbn; intros H; inversion H; reflexivity. Qed.
Lemma pcomma_cia_sound n toks c r : pcomma_cia n toks = Some (c, r) -> toks = [Comma; fcia c] ++ r.
Proof. unfold pcomma_cia. intros H. destruct toks as [|[] toks]; try discriminate. apply pcia_sound in H. subst. reflexivity. Qed.
Lemma pcias_sound n toks c r : pcias n toks = Some (c, r) -> toks = fcias_opt c ++ r.
Proof.
  unfold pcias. intros H. destruct toks as [|t toks]; [inversion H; reflexivity|].
  destruct t; try (inversion H; reflexivity).
  destruct (pcia toks) as [[c0 r1]|] eqn:E; [|discriminate]. apply pcia_sound in E. subst.
  destruct (pstar s_comma pcomma_cia n r1) as [[cs r2]|] eqn:E2; [|discriminate].
  apply (pstar_sound s_comma pcomma_cia (fun c => [Comma; fcia c]) pcomma_cia_sound) in E2. subst.
  destruct r2 as [|t2 r2]; [discriminate|]. destruct t2; try discriminate. inversion H; subst. cbn. rewrite <- app_assoc. reflexivity.
Qed.
Lemma pttc_sound n toks t r : pttc n toks = Some (t, r) -> toks = fttc_opt t ++ r.
Proof.
  unfold pttc. intros H. destruct toks as [|t0 toks]; [inversion H; reflexivity|].
  destruct t0; try (inversion H; reflexivity).
  destruct (pte n toks) as [[e r1]|] eqn:E; [|discriminate]. apply pte_sound in E. subst.
  destruct r1 as [|t2 r2]; [discriminate|]. destruct t2; try discriminate. inversion H; subst. cbn. rewrite <- app_assoc. reflexivity.
Qed.
Lemma pcomma_expr_sound n toks e r : pcomma_expr n toks = Some (e, r) -> toks = (Comma :: fe e) ++ r.
Proof. unfold pcomma_expr. intros H. destruct toks as [|[] toks]; try discriminate. apply pe_sound in H. subst. reflexivity. Qed.
Lemma pexprs_sound n toks x r : pexprs n toks = Some (x, r) -> toks = fexprs (fst x) (snd x) ++ r.
Proof.
  unfold pexprs. intros H. destruct (pe n toks) as [[e r1]|] eqn:E; [|discriminate]. apply pe_sound in E. subst.
  destruct (pstar s_comma pcomma_expr n r1) as [[l r2]|] eqn:E2; [|discriminate].
  apply (pstar_sound s_comma pcomma_expr (fun e => Comma :: fe e) pcomma_expr_sound) in E2. subst.
  inversion H; subst. cbn [fst snd]. rewrite fexprs_shape, <- app_assoc. reflexivity.
Qed.
Lemma ppre_sound n toks p r : ppre n toks = Some (p, r) -> toks = fpre_opt p ++ r.
Proof.
  unfold ppre. intros H. destruct toks as [|t0 toks]; [inversion H; reflexivity|].
  destruct t0; try (inversion H; reflexivity).
  destruct (pexprs n toks) as [[[e l] r1]|] eqn:E; [|discriminate]. apply pexprs_sound in E. inversion H; subst. reflexivity.
Qed.
Lemma preaches_sound n toks p r : preaches n toks = Some (p, r) -> toks = frea_opt p ++ r.
Proof.
  unfold preaches. intros H. destruct toks as [|t0 toks]; [inversion H; reflexivity|].
  destruct t0; try (inversion H; reflexivity);
    (destruct (pexprs n toks) as [[[e l] r1]|] eqn:E; [|discriminate]); apply pexprs_sound in E; inversion H; subst; reflexivity.
Qed.
Lemma psteptype_sound t ty : psteptype t = Some ty -> t = fsteptype ty.
Proof. destruct t; cbn; intros H; inversion H; reflexivity. Qed.
Theorem pstep_sound n toks s r : pstep n toks = Some (s, r) -> toks = fstep s ++ r.
Proof.
  unfold pstep. intros H. destruct toks as [|t [|t2 r0]]; try discriminate. destruct t2; try discriminate.
  destruct (psteptype t) as [ty|] eqn:Et; [|discriminate]. apply psteptype_sound in Et. subst t.
  destruct (pstar s_tag ptag n r0) as [[tags r1]|] eqn:E1; [|discriminate].
  destruct (pcias n r1) as [[cias r2]|] eqn:E2; [|discriminate].
  destruct (pttc n r2) as [[ttc r3]|] eqn:E3; [|discriminate].
  destruct (pmetas n r3) as [[metas r4]|] eqn:E4; [|discriminate].
  destruct (ppre n r4) as [[pre r5]|] eqn:E5; [|discriminate].
  destruct (preaches n r5) as [[rea r6]|] eqn:E6; [|discriminate].
  inversion H; subst. rewrite fstep_shape. cbn [cs_type cs_name cs_tags cs_cias cs_ttc cs_meta cs_pre cs_reaches].
  apply (pstar_sound s_tag ptag (fun t => [At; TId t]) ptag_sound) in E1. apply pcias_sound in E2. apply pttc_sound in E3.
  apply pmetas_sound in E4. apply ppre_sound in E5. apply preaches_sound in E6. subst.
  unfold ftags. cbn [app]. repeat rewrite <- app_assoc. reflexivity.
Qed.
Theorem pmember_sound n toks m r : pmember n toks = Some (m, r) -> toks = fmember m ++ r.
Proof.
  unfold pmember. intros H.
  assert (G : (match pstep n toks with Some (s, r0) => Some (MStep s, r0) | None => None end) = Some (m, r) -> toks = fmember m ++ r).
  { intros G. destruct (pstep n toks) as [[s r0]|] eqn:E; [|discriminate]. inversion G; subst. apply pstep_sound in E. exact E. }
  destruct toks as [|t toks]; [apply G; exact H|]. destruct t; try (apply G; exact H).
  destruct toks as [|t2 toks]; [discriminate|]. destruct t2; try discriminate.
  destruct toks as [|t3 toks]; [discriminate|]. destruct t3; try discriminate.
  destruct (pe n toks) as [[e r1]|] eqn:E; [|discriminate]. inversion H; subst. apply pe_sound in E. subst. reflexivity.
Qed.
Theorem passet_sound n toks a r : passet n toks = Some (a, r) -> toks = fasset a ++ r.
Proof.
  unfold passet. intros H. destruct (pabstract toks) as [abs r0] eqn:Ea.
  assert (Et : toks = (if abs then [KAbstract] else []) ++ r0).
  { unfold pabstract in Ea. destruct toks as [|t toks]; [inversion Ea; reflexivity|]. destruct t; inversion Ea; reflexivity. }
  destruct r0 as [|t1 r0]; [discriminate H|]. destruct t1; try discriminate H.
  destruct r0 as [|t2 r1]; [discriminate H|]. destruct t2; try discriminate H.
  destruct (pextends r1) as [ext r2] eqn:Ee. destruct ext as [ext|]; [|discriminate].
  assert (Er : r1 = (match ext with Some p => [KExtends; TId p] | None => [] end) ++ r2).
  { unfold pextends in Ee. destruct r1 as [|t r1]; [inversion Ee; reflexivity|]. destruct t; try (inversion Ee; reflexivity).
    destruct r1 as [|t r1]; [inversion Ee|]. destruct t; inversion Ee; reflexivity. }
  destruct (pmetas n r2) as [[metas r3]|] eqn:Em; [|discriminate]. apply pmetas_sound in Em.
  destruct r3 as [|t3 r3]; [discriminate|]. destruct t3; try discriminate.
  destruct (pstar s_member pmember n r3) as [[ms r4]|] eqn:Es; [|discriminate].
  apply (pstar_sound s_member pmember fmember pmember_sound) in Es.
  destruct r4 as [|t4 r4]; [discriminate|]. destruct t4; try discriminate. inversion H; subst.
  unfold fasset. cbn [ca_abstract ca_name ca_extends ca_meta ca_members]. repeat (rewrite <- app_assoc; cbn [app]). reflexivity.
Qed.
Lemma pmultatom_sound toks m r : pmultatom toks = Some (m, r) -> toks = fmultatom m :: r.
Proof. destruct toks as [|t toks]; [discriminate|]. destruct t; cbn; intros H; inversion H; reflexivity. Qed.
Lemma pmult_sound toks m r : pmult toks = Some (m, r) -> toks = fmult m ++ r.
Proof.
  unfold pmult. intros H. destruct (pmultatom toks) as [[lo r0]|] eqn:E; [|discriminate]. apply pmultatom_sound in E. subst.
  destruct r0 as [|t r0]; [inversion H; reflexivity|].
  destruct t; try (inversion H; reflexivity).
  destruct (pmultatom r0) as [[hi r1]|] eqn:E2; [|discriminate]. apply pmultatom_sound in E2. inversion H; subst. reflexivity.
Qed.
Theorem passoc_sound n toks a r : passoc n toks = Some (a, r) -> toks = fassociation a ++ r.
Proof.
  unfold passoc. intros H. do 4 eat H.
  destruct (pmult toks) as [[lm r1]|] eqn:E1; [|discriminate]. apply pmult_sound in E1.
  do 3 eat H.
  destruct (pmult r1) as [[rm r2]|] eqn:E2; [|discriminate]. apply pmult_sound in E2.
  do 4 eat H.
  destruct (pmetas n r2) as [[metas r3]|] eqn:E3; [|discriminate]. apply pmetas_sound in E3. inversion H; subst.
  unfold fassociation. cbn [cas_left cas_lfield cas_lmult cas_name cas_rmult cas_rfield cas_right cas_meta].
  cbn [app]. repeat (rewrite <- app_assoc; cbn [app]). reflexivity.
Qed.
Theorem pdecl_sound n toks d r : pdecl n toks = Some (d, r) -> toks = fdecl d ++ r.
Proof.
  unfold pdecl. intros H. destruct toks as [|t toks]; [discriminate|]. destruct t; try discriminate.
  - (* associations *) destruct toks as [|[] toks]; try discriminate.
    destruct (pstar s_assoc passoc n toks) as [[l r1]|] eqn:E; [|discriminate].
    apply (pstar_sound s_assoc passoc fassociation passoc_sound) in E.
    destruct r1 as [|[] r1]; try discriminate. inversion H; subst. cbn. rewrite <- app_assoc. reflexivity.
  - (* include *) destruct toks as [|[] toks]; try discriminate. inversion H; reflexivity.
  - (* category *) destruct toks as [|[] toks]; try discriminate.
    destruct (pmetas n toks) as [[metas r1]|] eqn:E; [|discriminate]. apply pmetas_sound in E.
    destruct r1 as [|[] r1]; try discriminate.
    destruct (pstar s_asset passet n r1) as [[assets r2]|] eqn:E2; [|discriminate].
    apply (pstar_sound s_asset passet fasset passet_sound) in E2.
    destruct r2 as [|[] r2]; try discriminate. inversion H; subst. unfold fdecl, fcategory. cbn [cc_name cc_meta cc_assets].
    cbn [app]. repeat (rewrite <- app_assoc; cbn [app]). reflexivity.
  - (* define *) do 3 eat H. inversion H; reflexivity.
Qed.

(* soundness of the start rule: the accepted prefix is the yield of the returned tree, the tree is empty only for the
   empty input, and what is left cannot start a declaration *)
Theorem parse_mal_sound n toks m rest : parse_mal n toks = Some (m, rest) ->
  toks = fmal m ++ rest /\ s_decl rest = false /\ (m = [] -> toks = []).
Proof.
  unfold parse_mal. intros H. destruct toks as [|t toks]; [inversion H; subst; repeat split; auto|].
  destruct (s_decl (t :: toks)) eqn:Es; [|discriminate].
  pose proof (pstar_sound s_decl pdecl fdecl pdecl_sound _ _ _ _ H) as E.
  pose proof (pstar_stops s_decl pdecl _ _ _ _ H) as Es2. split; [exact E|split; [exact Es2|]].
  intros ->. cbn in E. rewrite E in Es. congruence.
Qed.
