(* GraphSaveNoModel.v — the other configuration of AttackGraph.load_from_file: the saved graph is loaded WITHOUT its model.
   Nodes then have no asset and are named <id>:<name>; these names are pairwise different because the ids are (a decimal
   numeral contains no colon), so the content of every coherent graph is loadable in this configuration too, and the
   rebuilt graph is the saved one with the assets dropped. (C10) *)
From MT Require Import Prelude ListFacts Graph Apriori GraphAn GraphOps GraphInv Codec ModelIO GraphIO GraphLoad GraphLoadThm GraphSaveThm.
From Coq Require Import Arith Permutation Ascii String Decimal DecimalString.
Local Open Scope string_scope.

(* ---- a decimal numeral contains no colon ---- *)
Fixpoint has_colon (s : string) : bool :=
  match s with EmptyString => false | String c r => Ascii.eqb c ":"%char || has_colon r end.
Lemma uint_no_colon d : has_colon (NilEmpty.string_of_uint d) = false.
Proof. induction d; cbn; auto. Qed.
Lemma string_of_Z_no_colon z : has_colon (string_of_Z z) = false.
Proof.
  unfold string_of_Z, NilZero.string_of_int. destruct (Z.to_int z) as [d|d]; unfold NilZero.string_of_uint.
  - destruct d; try apply uint_no_colon; reflexivity.
  - cbn. destruct d; try apply uint_no_colon; reflexivity.
Qed.
Lemma colon_prefix_inj : forall a1 a2 n1 n2, has_colon a1 = false -> has_colon a2 = false ->
  a1 ++ ":" ++ n1 = a2 ++ ":" ++ n2 -> a1 = a2.
Proof.
  induction a1 as [|c1 r1 IH]; intros [|c2 r2] n1 n2 H1 H2 E; cbn in *.
  - reflexivity.
  - inversion E; subst. rewrite Ascii.eqb_refl in H2. discriminate.
  - inversion E; subst. rewrite Ascii.eqb_refl in H1. discriminate.
  - inversion E; subst. apply orb_false_iff in H1. apply orb_false_iff in H2. f_equal. eapply IH; [tauto|tauto|eauto].
Qed.

Lemma gfull_nomodel n : gfull false n = string_of_Z (gn_id n) ++ ":" ++ gn_name n.
Proof. reflexivity. Qed.

Section SaveNoModel.
Variable s : st.
Hypothesis W : WF s.

Theorem content_gloadable_nomodel : GLoadable false (gcontent_of s).
Proof.
  pose proof (content_gloadable s W) as G. destruct G as [g1 g2 g3 g4 g5 g6 g7 g8].
  constructor; auto.
  (* names: <id>:<name> with pairwise different ids *)
  clear g2. revert g1. unfold ids_of_nodes. generalize (gc_nodes (gcontent_of s)). intros l.
  induction l as [|n r IH]; cbn [map]; intros N; constructor.
  - inversion N as [|? ? N1 N2]; subst. intros I. apply N1. apply in_map_iff in I. destruct I as (m & E & Hm).
    apply in_map_iff. exists m. split; auto. rewrite !gfull_nomodel in E.
    apply string_of_Z_inj. eapply colon_prefix_inj; [apply string_of_Z_no_colon|apply string_of_Z_no_colon|exact E].
  - apply IH. inversion N; auto.
Qed.
End SaveNoModel.

(* every history of the machine: save the graph, load the document without the model — the same graph, assets dropped *)
Theorem history_save_load_nomodel ops :
  let s := final ops in
  exists s', gload false (gcontent_of s) = Some s' /\ WF s' /\
             Forall2 gn_equiv (gc_nodes (gcontent_of s')) (gc_nodes (strip_assets (gcontent_of s))) /\
             gc_atts (gcontent_of s') = gc_atts (gcontent_of s).
Proof.
  intros s. pose proof (content_gloadable_nomodel s (reachable_WF ops)) as GL.
  destruct (gload_spec false (gcontent_of s) GL) as (s' & E & W' & N & A). exists s'. auto.
Qed.
