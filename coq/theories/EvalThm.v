(* EvalThm.v — the evaluator as coded computes, for a list of targets, exactly the image of the relational
   denotation of the step expression (MAL set semantics); `*` is the transitive closure (closure+). (C01) *)
From MT Require Import Prelude Lang Eval.
From Coq Require Import Relations.

Lemma sexpr_eqb_spec : forall a b, sexpr_eqb a b = true <-> a = b.
Proof.
  induction a; destruct b; cbn; try (split; [discriminate | intros H; discriminate]);
    rewrite ?andb_true_iff, ?seqb_spec, ?IHa, ?IHa1, ?IHa2; split; intros H;
    try (destruct H; subst; reflexivity); try (subst; reflexivity); inversion H; subst; auto.
Qed.

(* ---- helpers ---- *)
Lemma efm_spec (f : Z -> eres) : forall l out, efm f l = EOk out ->
  (forall a, In a l -> exists r, f a = EOk r) /\
  (forall b, In b out <-> exists a r, In a l /\ f a = EOk r /\ In b r).
Proof.
  induction l as [|a t IH]; cbn; intros out H.
  - inversion H; subst. split; [intros ? []|]. intros b; split; [intros []|intros (?&?&[]&_)].
  - destruct (f a) as [r| | |] eqn:Ea; cbn in H; try discriminate.
    destruct (efm f t) as [rs| | |] eqn:Et; cbn in H; try discriminate.
    inversion H; subst; clear H. destruct (IH rs eq_refl) as [I1 I2]. split.
    + intros a' [<-|Hin]; eauto.
    + intros b. rewrite in_app_iff, I2. split.
      * intros [Hb|(a'&r'&Hin&Hf&Hb)]; [exists a, r; auto| exists a', r'; auto].
      * intros (a'&r'&[<-|Hin]&Hf&Hb); [left; congruence| right; eauto].
Qed.

Lemma fresh_spec : forall l seen y, In y (fresh seen l) <-> In y l /\ ~ In y seen.
Proof.
  induction l as [|a r IH]; intros seen y; cbn; [tauto|].
  destruct (memz a seen) eqn:E.
  - rewrite IH. apply memz_In in E. split; [tauto|]. intros [[<-|H] N]; tauto.
  - apply memz_nIn in E. cbn. rewrite IH. cbn. split.
    + intros [<-|[H N]]; [tauto|]. split; [tauto|]. intros A; apply N; auto.
    + intros [[<-|H] N]; [tauto|]. destruct (Z.eq_dec a y); [tauto|]. right; split; auto. intros [?|?]; tauto.
Qed.
Lemma fresh_NoDup : forall l seen, NoDup (fresh seen l).
Proof.
  induction l as [|a r IH]; intros seen; cbn; [constructor|].
  destruct (memz a seen); auto. constructor; auto. rewrite fresh_spec. cbn. tauto.
Qed.

(* ---- the transitive loop computes closure+ of the successor relation, from a set of start assets ---- *)
Section Closure.
Variable succ : Z -> eres.
Variable R : Z -> Z -> Prop.
Hypothesis succ_R : forall a r, succ a = EOk r -> forall b, In b r <-> R a b.

Definition Closed (X frontier seen : list Z) :=
  forall a, (In a X \/ In a seen) -> ~ In a frontier -> forall b, R a b -> In b seen.

Lemma bfs_spec X : forall fuel frontier seen out,
  bfs succ fuel frontier seen = EOk out ->
  (forall y, In y seen -> exists x, In x X /\ clos_trans Z R x y) ->
  (forall a, In a frontier -> In a X \/ In a seen) ->
  Closed X frontier seen ->
  forall y, In y out <-> exists x, In x X /\ clos_trans Z R x y.
Proof.
  induction fuel as [|f IH]; intros frontier seen out H Hs Hf Hc; [discriminate|].
  unfold Closed in *. cbn [bfs] in H. destruct frontier as [|a0 fr].
  - inversion H; subst. intros y; split; auto.
    intros (x & Hx & Hy). apply clos_trans_t1n in Hy.
    assert (G: forall a z, clos_trans_1n Z R a z -> (In a X \/ In a out) -> In z out).
    { clear Hy y Hx x. intros a z Haz. induction Haz as [a b Hab | a b c Hab Hbc IHc]; intros Ha.
      - apply (Hc a Ha); auto.
      - apply IHc. right. apply (Hc a Ha); auto. }
    apply (G x y); auto.
  - set (frontier := a0 :: fr) in *.
    destruct (efm succ frontier) as [reached| | |] eqn:Er; cbn in H; try discriminate.
    destruct (efm_spec succ _ _ Er) as [E1 E2].
    set (new := fresh seen reached) in *.
    apply (IH new (seen ++ new) out H).
    + intros y Hy. apply in_app_or in Hy. destruct Hy as [Hy|Hy]; auto.
      unfold new in Hy. apply fresh_spec in Hy. destruct Hy as [Hy _].
      apply E2 in Hy. destruct Hy as (a & r & Ha & Hfa & Hyr).
      apply (succ_R a r Hfa) in Hyr.
      destruct (Hf a Ha) as [Hax|Has].
      * exists a. split; auto. apply t_step; auto.
      * destruct (Hs a Has) as (x & Hx & Hxa). exists x. split; auto.
        eapply t_trans; [eauto | apply t_step; auto].
    + intros a Ha. right. apply in_or_app; auto.
    + intros a Ha Hn b Hb.
      assert (Ha' : In a X \/ In a seen).
      { destruct Ha as [?|Ha]; auto. apply in_app_or in Ha. destruct Ha; auto. contradiction. }
      destruct (in_dec Z.eq_dec a frontier) as [Hin|Hnin].
      * destruct (in_dec Z.eq_dec b seen) as [?|Hbn]; [apply in_or_app; auto|].
        apply in_or_app; right. unfold new. apply fresh_spec. split; auto.
        destruct (E1 a Hin) as (r & Hr). apply E2. exists a, r. split; auto. split; auto.
        apply (succ_R a r Hr). auto.
      * apply in_or_app; left. apply (Hc a Ha' Hnin); auto.
Qed.
End Closure.

Section Den.
Variable L : lang.
Variable M : imodel.

Definition sub_ok (y : Z) (t : string) : Prop := exists ty, itype M y = Some ty /\ is_subasset_of L ty t = true.

Lemma filter_sub_spec t : forall l out, filter_sub L M t l = EOk out ->
  forall y, In y out <-> In y l /\ sub_ok y t.
Proof.
  induction l as [|a r IH]; cbn [filter_sub]; intros out H y.
  - inversion H; subst. cbn. tauto.
  - destruct (itype M a) as [ty|] eqn:Et; [|discriminate].
    destruct (known_type L ty && known_type L t); [|discriminate].
    destruct (filter_sub L M t r) as [rs| | |] eqn:Er; cbn [ebind] in H; try discriminate.
    inversion H; subst; clear H. specialize (IH rs eq_refl y).
    destruct (is_subasset_of L ty t) eqn:Es; cbn [In].
    + split.
      * intros [<-|Hy]; [split; auto; exists ty; auto|]. apply IH in Hy. tauto.
      * intros [[<-|H1] H2]; auto. right. apply IH. auto.
    + rewrite IH. split.
      * intros [H1 H2]; auto.
      * intros [[<-|H1] H2]; auto. destruct H2 as (ty' & E1 & E2). congruence.
Qed.

Section OneLevel.
Variable venvD : string -> Z -> Z -> Prop.
Variable venvE : string -> list Z -> eres.
Hypothesis venv_ok : forall v xs ys, venvE v xs = EOk ys -> forall y, In y ys <-> exists x, In x xs /\ venvD v x y.

Fixpoint den1 (e : sexpr) : Z -> Z -> Prop :=
  match e with
  | SStep _ => fun x y => x = y
  | SField f => fun x y => In y (nbrs M x f)
  | SVar v => venvD v
  | SCollect l r => fun x z => exists y, den1 l x y /\ den1 r y z
  | SUnion l r => fun x y => den1 l x y \/ den1 r x y
  | SInter l r => fun x y => den1 l x y /\ den1 r x y
  | SDiff l r => fun x y => den1 l x y /\ ~ den1 r x y
  | STrans e' => fun x y => clos_trans Z (den1 e') x y
  | SSub t e' => fun x y => den1 e' x y /\ sub_ok y t
  end.

Lemma single_iff (P : Z -> Prop) x : (exists x', In x' [x] /\ P x') <-> P x.
Proof. split; [intros (x' & [<-|[]] & H); auto | intros H; exists x; split; [left|]; auto]. Qed.

Lemma ev1_den1 : forall e xs ys, ev1 L M venvE e xs = EOk ys ->
  forall y, In y ys <-> exists x, In x xs /\ den1 e x y.
Proof.
  induction e as [n|f|v|l IHl r IHr|l IHl r IHr|l IHl r IHr|l IHl r IHr|e' IH|t e' IH];
    intros xs ys H y; cbn [ev1 den1] in *.
  - inversion H; subst. split; [intros Hy; exists y; auto | intros (x & Hx & ->); auto].
  - inversion H; subst. rewrite in_flat_map. tauto.
  - apply venv_ok; auto.
  - destruct (ev1 L M venvE l xs) as [ms| | |] eqn:El; cbn in H; try discriminate.
    rewrite (IHr _ _ H y). split.
    + intros (m & Hm & Hr). apply (IHl _ _ El) in Hm. destruct Hm as (x & Hx & Hl). exists x; split; auto. exists m; auto.
    + intros (x & Hx & m & Hl & Hr). exists m. split; auto. apply (IHl _ _ El). exists x; auto.
  - destruct (efm_spec _ _ _ H) as [_ E2]. rewrite E2. split.
    + intros (x & r0 & Hx & Hf & Hy). exists x. split; auto.
      destruct (ev1 L M venvE l [x]) as [a| | |] eqn:Ea; cbn in Hf; try discriminate.
      destruct (ev1 L M venvE r [x]) as [b| | |] eqn:Eb; cbn in Hf; try discriminate.
      inversion Hf; subst; clear Hf. apply in_app_or in Hy. destruct Hy as [Hy|Hy].
      * left. apply (IHl _ _ Ea) in Hy. destruct Hy as (x' & [<-|[]] & Hd'). auto.
      * right. apply filter_In in Hy. destruct Hy as [Hy _]. apply (IHr _ _ Eb) in Hy. destruct Hy as (x' & [<-|[]] & Hd'). auto.
    + intros (x & Hx & Hd). destruct (efm_spec _ _ _ H) as [E1 _]. destruct (E1 x Hx) as (r0 & Hf).
      exists x, r0. split; auto. split; auto.
      destruct (ev1 L M venvE l [x]) as [a| | |] eqn:Ea; cbn in Hf; try discriminate.
      destruct (ev1 L M venvE r [x]) as [b| | |] eqn:Eb; cbn in Hf; try discriminate.
      inversion Hf; subst; clear Hf. apply in_or_app.
      destruct (in_dec Z.eq_dec y a) as [Hin|Hnin]; [left; auto|]. right.
      apply filter_In. split; [|apply negb_true_iff, memz_nIn; auto].
      destruct Hd as [Hd|Hd].
      * exfalso. apply Hnin. apply (IHl _ _ Ea). exists x. split; [left; auto|auto].
      * apply (IHr _ _ Eb). exists x. split; [left; auto|auto].
  - destruct (efm_spec _ _ _ H) as [E1 E2]. rewrite E2. split.
    + intros (x & r0 & Hx & Hf & Hy). exists x. split; auto.
      destruct (ev1 L M venvE l [x]) as [a| | |] eqn:Ea; cbn in Hf; try discriminate.
      destruct (ev1 L M venvE r [x]) as [b| | |] eqn:Eb; cbn in Hf; try discriminate.
      inversion Hf; subst; clear Hf. apply filter_In in Hy. destruct Hy as [Hy Hm]. apply memz_In in Hm. split.
      * apply (IHl _ _ Ea) in Hm. destruct Hm as (x' & [<-|[]] & Hd'). auto.
      * apply (IHr _ _ Eb) in Hy. destruct Hy as (x' & [<-|[]] & Hd'). auto.
    + intros (x & Hx & Hd1 & Hd2). destruct (E1 x Hx) as (r0 & Hf). exists x, r0. split; auto. split; auto.
      destruct (ev1 L M venvE l [x]) as [a| | |] eqn:Ea; cbn in Hf; try discriminate.
      destruct (ev1 L M venvE r [x]) as [b| | |] eqn:Eb; cbn in Hf; try discriminate.
      inversion Hf; subst; clear Hf. apply filter_In. split.
      * apply (IHr _ _ Eb). exists x. split; [left; auto|auto].
      * apply memz_In. apply (IHl _ _ Ea). exists x. split; [left; auto|auto].
  - destruct (efm_spec _ _ _ H) as [E1 E2]. rewrite E2. split.
    + intros (x & r0 & Hx & Hf & Hy). exists x. split; auto.
      destruct (ev1 L M venvE l [x]) as [a| | |] eqn:Ea; cbn in Hf; try discriminate.
      destruct (ev1 L M venvE r [x]) as [b| | |] eqn:Eb; cbn in Hf; try discriminate.
      inversion Hf; subst; clear Hf. apply filter_In in Hy. destruct Hy as [Hy Hm].
      apply negb_true_iff, memz_nIn in Hm. split.
      * apply (IHl _ _ Ea) in Hy. destruct Hy as (x' & [<-|[]] & Hd'). auto.
      * intros Hd. apply Hm. apply (IHr _ _ Eb). exists x. split; [left; auto|auto].
    + intros (x & Hx & Hd1 & Hd2). destruct (E1 x Hx) as (r0 & Hf). exists x, r0. split; auto. split; auto.
      destruct (ev1 L M venvE l [x]) as [a| | |] eqn:Ea; cbn in Hf; try discriminate.
      destruct (ev1 L M venvE r [x]) as [b| | |] eqn:Eb; cbn in Hf; try discriminate.
      inversion Hf; subst; clear Hf. apply filter_In. split.
      * apply (IHl _ _ Ea). exists x. split; [left; auto|auto].
      * apply negb_true_iff, memz_nIn. intros Hb. apply Hd2. apply (IHr _ _ Eb) in Hb. destruct Hb as (x' & [<-|[]] & Hd'). auto.
  - assert (SR : forall a r, ev1 L M venvE e' [a] = EOk r -> forall b, In b r <-> den1 e' a b).
    { intros a r Hr b. rewrite (IH _ _ Hr b). split; [intros (x' & [<-|[]] & Hd'); auto | intros Hd'; exists a; split; [left; auto|auto]]. }
    apply (bfs_spec (fun x => ev1 L M venvE e' [x]) (den1 e') SR xs _ _ _ _ H).
    + intros ? [].
    + intros a Ha. left; auto.
    + intros a [Ha|[]] Hn. contradiction.
  - destruct xs as [|x0 xr].
    + inversion H; subst. split; [intros []|intros (x & [] & _)].
    + destruct (ev1 L M venvE e' (x0 :: xr)) as [r| | |] eqn:Er; cbn [ebind] in H; try discriminate.
      rewrite (filter_sub_spec t _ _ H y). rewrite in_flat_map. split.
      * intros [(x & Hx & Hy) Hs]. apply (IH _ _ Er) in Hy. destruct Hy as (x' & Hx' & Hd). exists x'. auto.
      * intros (x & Hx & Hd & Hs). split; auto. exists x0. split; [left; auto|]. apply (IH _ _ Er). exists x; auto.
Qed.
End OneLevel.

(* tie the knot over variable nesting *)
Fixpoint den (n : nat) : sexpr -> Z -> Z -> Prop :=
  den1 (fun v x y =>
          match n with
          | O => False
          | S n' => match itype M x with
                    | Some tx => match lookup_var (lang_fuel L) L tx v with VOk e' => den n' e' x y | _ => False end
                    | None => False
                    end
          end).

Theorem ev_den : forall n e xs ys, ev L M n e xs = EOk ys ->
  forall y, In y ys <-> exists x, In x xs /\ den n e x y.
Proof.
  induction n as [|n IH]; intros e xs ys H; cbn [ev den] in *.
  - eapply ev1_den1; [|exact H]. intros v zs out Hv. discriminate.
  - eapply ev1_den1; [|exact H]. intros v zs out Hv y.
    destruct zs as [|x zr].
    { inversion Hv; subst. split; [intros []|intros (? & [] & _)]. }
    destruct (itype M x) as [tx|] eqn:Etx; [|discriminate].
    destruct (lookup_var (lang_fuel L) L tx v) as [e'| |] eqn:Elk; try discriminate.
    destruct (var_uniform L M v (x :: zr)) eqn:Eu; [|discriminate].
    rewrite (IH _ _ _ Hv y).
    assert (U : forall x', In x' (x :: zr) -> exists tx', itype M x' = Some tx' /\ lookup_var (lang_fuel L) L tx' v = VOk e').
    { intros x' [<-|Hx']; [eauto|]. unfold var_uniform in Eu. rewrite Etx in Eu. rewrite forallb_forall in Eu.
      specialize (Eu x' Hx'). destruct (itype M x') as [tx'|] eqn:Etx'; [|discriminate]. rewrite Elk in Eu.
      destruct (lookup_var (lang_fuel L) L tx' v) as [e2| |] eqn:Elk'; try discriminate.
      apply sexpr_eqb_spec in Eu. subst e2. exists tx'. split; auto. }
    split.
    + intros (x' & Hx' & Hd). exists x'. split; auto. destruct (U x' Hx') as (tx' & E1 & E2). rewrite E1, E2. auto.
    + intros (x' & Hx' & Hd). exists x'. split; auto. destruct (U x' Hx') as (tx' & E1 & E2). rewrite E1, E2 in Hd. auto.
Qed.
End Den.
