(* ModelThm.v — consequences of the model invariant in the vocabulary of C05. *)
From MT Require Import Prelude ListFacts Model ModelOps ModelInv.
From Coq Require Import Arith.

(* the observable state: the lists and the records of the live objects *)
Definition mobs (s : mstate) :=
  (m_assets s, m_assocs s, m_attackers s, m_ids s, m_names s, m_type2assoc s, m_next s,
   map (m_ah s) (m_assets s), map (m_ch s) (m_assocs s), map (m_th s) (m_attackers s)).

(* an explicitly requested id (0 and negative ids included) is honoured *)
Theorem requested_id_honoured s h i allow s' :
  add_asset s h (Some i) allow = (s', MOk) -> ma_id (m_ah s' h) = Some i /\ In h (m_assets s') /\ In i (m_ids s').
Proof.
  unfold add_asset. destruct (memzl i (m_ids s)); [intros E; inversion E|].
  set (ah1 := upd_a (m_ah s) h (fun a => a_set_id a (Some i))).
  set (ah2 := upd_a ah1 h (fun a => a_set_assocs a [])).
  set (name0 := match ma_name (ah2 h) with Some n => n | None => _ end).
  set (ah3 := upd_a ah2 h (fun a => a_set_name a (Some name0))).
  assert (E3 : ma_id (ah3 h) = Some i) by (unfold ah3, ah2, ah1; rewrite !upd_a_same; reflexivity).
  destruct (mems name0 (m_names s)).
  - destruct allow; [|intros E; inversion E].
    destruct (fresh_name _ _ _ _) as [n1|]; intros E; inversion E; subst; cbn.
    rewrite upd_a_same. cbn. split; [exact E3|]. split; apply In_app_single; auto.
  - intros E; inversion E; subst; cbn. split; [exact E3|]. split; apply In_app_single; auto.
Qed.

(* an operation that raises leaves the observable state unchanged *)
Theorem error_atomic s o : MI s -> mguard s o = true ->
  snd (fst (mstep s o)) <> MOk -> mobs (fst (fst (mstep s o))) = mobs s.
Proof.
  intros I G. unfold mstep. rewrite G. cbn [negb].
  destruct o; cbn [mguard] in G; cbn [fst snd]; try (intros H; exfalso; apply H; reflexivity).
  - (* MAddAsset *)
    apply andb_true_iff in G. destruct G as [G1 G2]. apply negb_true_iff in G2.
    assert (N : ~ In h (m_assets s)) by (intros A; apply memn_In in A; unfold live_asset in G2; congruence).
    assert (FR : forall ah', (forall x, x <> h -> ah' x = m_ah s x) -> mobs (with_heaps s ah' (m_ch s) (m_th s)) = mobs s).
    { intros ah' Hoth. unfold mobs; cbn.
      assert (E : map ah' (m_assets s) = map (m_ah s) (m_assets s)) by (apply map_ext_in; intros x Hx; apply Hoth; intros ->; auto).
      rewrite E. reflexivity. }
    unfold add_asset. set (i0 := match i with Some i => i | None => m_next s end).
    destruct (memzl i0 (m_ids s)); cbn [fst snd].
    { intros _. apply FR. intros x Hx. rewrite upd_a_other; auto. }
    match goal with |- context [mems ?n (m_names s)] => destruct (mems n (m_names s)) end.
    + destruct allow_dup.
      * destruct (fresh_name _ _ _ _); cbn [fst snd]; [intros H; exfalso; apply H; reflexivity | auto].
      * cbn [fst snd]. intros _. apply FR. intros x Hx. rewrite !upd_a_other; auto.
    + cbn [fst snd]. intros H; exfalso; apply H; reflexivity.
  - (* MRemoveAsset *)
    destruct (memn h (m_assets s)) eqn:E.
    + apply memn_In in E. destruct (MI_remove_asset s h I) as [_ P]. destruct (P E) as (Ok & _).
      destruct (remove_asset s h) as [s' oc]. cbn in *. congruence.
    + unfold remove_asset. rewrite E. cbn. auto.
  - (* MAddAssoc *)
    unfold add_association.
    repeat match goal with |- context [if ?b then _ else _] => destruct b end; cbn [fst snd]; auto;
      intros H; exfalso; apply H; reflexivity.
  - (* MRemoveAssoc *)
    unfold remove_association. destruct (negb (memn c (m_assocs s))); cbn [fst snd]; auto.
    intros H; exfalso; apply H; reflexivity.
  - (* MRemoveFromAssoc *)
    destruct (memn h (m_assets s)) eqn:Eh.
    2:{ unfold remove_asset_from_association. rewrite Eh. cbn. auto. }
    destruct (memn c (m_assocs s)) eqn:Ec.
    2:{ unfold remove_asset_from_association. rewrite Eh, Ec. cbn. auto. }
    apply memn_In in Eh. apply memn_In in Ec.
    destruct (in_dec Nat.eq_dec h (members s c)) as [Hm|Hm].
    + destruct (rfa_spec s h c I Eh Ec Hm) as (s' & E & _). rewrite E. cbn. intros H; exfalso; apply H; reflexivity.
    + unfold remove_asset_from_association. rewrite (proj2 (memn_In _ _) Eh), (proj2 (memn_In _ _) Ec). cbn [negb].
      unfold members in Hm. rewrite in_app_iff in Hm.
      replace (memn h (mc_left (m_ch s c))) with false by (symmetry; apply memn_nIn; tauto).
      replace (memn h (mc_right (m_ch s c))) with false by (symmetry; apply memn_nIn; tauto). cbn. auto.
  - (* MRemoveAtt *)
    unfold remove_attacker. destruct (remove_first_equal _ _ _); cbn [fst snd]; auto.
    intros H; exfalso; apply H; reflexivity.
Qed.

(* a removed asset leaves no trace *)
Theorem removed_asset_no_trace s h : MI s -> In h (m_assets s) ->
  let s' := fst (remove_asset s h) in
  snd (remove_asset s h) = MOk /\ MI s' /\ ~ In h (m_assets s') /\
  (forall i, id_of s h = Some i -> ~ In i (m_ids s')) /\ (forall n, name_of s h = Some n -> ~ In n (m_names s')) /\
  (forall c, In c (m_assocs s') -> ~ In h (members s' c)) /\
  (forall t, In t (m_attackers s') -> ~ In h (map fst (mt_entry (m_th s' t)))).
Proof.
  intros I Hh. destruct (MI_remove_asset s h I) as [I' P]. destruct (P Hh) as (A & B & C & D & E & F).
  cbv zeta. auto 10.
Qed.

(* a removed association leaves no trace *)
Theorem removed_assoc_no_trace s c : MI s -> In c (m_assocs s) ->
  let s' := fst (remove_association s c) in
  MI s' /\ ~ In c (m_assocs s') /\ (forall h, In h (m_assets s') -> ~ In c (ma_assocs (m_ah s' h))).
Proof.
  intros I Hc. pose proof (MI_remove_association s c I Hc) as I'. cbv zeta.
  destruct (remove_association_spec s c I Hc) as (s' & E & A1 & A2 & _). rewrite E in *. cbn [fst] in *.
  assert (N : ~ In c (m_assocs s')) by (rewrite A2; apply remove1_NoDup_nIn; apply I).
  split; auto. split; auto. intros h Hh A. apply (mi_backrefs s' I' h c Hh) in A. tauto.
Qed.
