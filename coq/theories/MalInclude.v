(* MalInclude.v — layouts of the source (C04): replacing `include "f"` by the declarations of f does not change the
   compiled specification; a repeated include is idempotent. Needs that structural equality (`item not in unique`)
   is equality, proved here for the three kinds of de-duplicated items. *)
From MT Require Import Prelude ListFacts Codec Lang EvalThm Mal MalPrint MalThm.

(* ---------- structural equality is equality ---------- *)
Lemma opt_eqb_spec {A} (eqb : A -> A -> bool) : (forall x y, eqb x y = true <-> x = y) ->
  forall a b, opt_eqb eqb a b = true <-> a = b.
Proof.
  intros H [x|] [y|]; cbn; try (split; congruence). rewrite H. split; congruence.
Qed.
Lemma pair_eqb_spec {A B} (ea : A -> A -> bool) (eb : B -> B -> bool) :
  (forall x y, ea x y = true <-> x = y) -> (forall x y, eb x y = true <-> x = y) ->
  forall p q, pair_eqb ea eb p q = true <-> p = q.
Proof.
  intros Ha Hb [a b] [c d]. unfold pair_eqb. cbn. rewrite andb_true_iff, Ha, Hb. split; [intros [-> ->]; auto|intros E; inversion E; auto].
Qed.
Lemma bool_eqb_spec a b : Bool.eqb a b = true <-> a = b. Proof. apply Bool.eqb_true_iff. Qed.
Lemma meta_eqb_spec a b : meta_eqb a b = true <-> a = b.
Proof. apply list_eqb_spec. apply pair_eqb_spec; apply seqb_spec. Qed.
Lemma ttc_eqb_spec : forall a b, ttc_eqb a b = true <-> a = b.
Proof.
  induction a as [s|n args|o l IHl r IHr]; destruct b as [s'|n' args'|o' l' r']; cbn; try (split; congruence).
  - rewrite seqb_spec. split; congruence.
  - rewrite andb_true_iff, seqb_spec, (list_eqb_spec seqb seqb_spec). split; [intros [-> ->]; auto|intros E; inversion E; auto].
  - rewrite !andb_true_iff, seqb_spec, IHl, IHr. split; [intros [[-> ->] ->]; auto|intros E; inversion E; auto].
Qed.
Lemma risk_eqb_spec a b : risk_eqb a b = true <-> a = b.
Proof.
  destruct a, b. unfold risk_eqb. cbn. rewrite !andb_true_iff, !bool_eqb_spec. split; [intros [[-> ->] ->]; auto|intros E; inversion E; auto].
Qed.
Lemma fstep_eqb_spec a b : fstep_eqb a b = true <-> a = b.
Proof.
  destruct a, b. unfold fstep_eqb. cbn. rewrite !andb_true_iff.
  rewrite !seqb_spec, meta_eqb_spec, (list_eqb_spec seqb seqb_spec), (opt_eqb_spec risk_eqb risk_eqb_spec), (opt_eqb_spec ttc_eqb ttc_eqb_spec),
    (opt_eqb_spec _ (list_eqb_spec sexpr_eqb sexpr_eqb_spec)),
    (opt_eqb_spec _ (pair_eqb_spec Bool.eqb (list_eqb sexpr_eqb) bool_eqb_spec (list_eqb_spec sexpr_eqb sexpr_eqb_spec))).
  split; [intros [[[[[[[-> ->] ->] ->] ->] ->] ->] ->]; auto|intros E; inversion E; repeat split; auto].
Qed.
Lemma fasset_eqb_spec a b : fasset_eqb a b = true <-> a = b.
Proof.
  destruct a, b. unfold fasset_eqb. cbn. rewrite !andb_true_iff.
  rewrite !seqb_spec, meta_eqb_spec, bool_eqb_spec, (opt_eqb_spec seqb seqb_spec),
    (list_eqb_spec _ (pair_eqb_spec seqb sexpr_eqb seqb_spec sexpr_eqb_spec)), (list_eqb_spec fstep_eqb fstep_eqb_spec).
  split; [intros [[[[[[-> ->] ->] ->] ->] ->] ->]; auto|intros E; inversion E; repeat split; auto].
Qed.
Lemma fcat_eqb_spec a b : fcat_eqb a b = true <-> a = b.
Proof.
  destruct a, b. unfold fcat_eqb. cbn. rewrite andb_true_iff, seqb_spec, meta_eqb_spec. split; [intros [-> ->]; auto|intros E; inversion E; auto].
Qed.
Lemma mval_eqb_spec a b : mval_eqb a b = true <-> a = b.
Proof.
  destruct a, b; cbn; try (split; congruence); [rewrite Z.eqb_eq|rewrite seqb_spec]; split; congruence.
Qed.
Lemma fassoc_eqb_spec a b : fassoc_eqb a b = true <-> a = b.
Proof.
  destruct a, b. unfold fassoc_eqb. cbn. rewrite !andb_true_iff, !seqb_spec, meta_eqb_spec, !mval_eqb_spec.
  split; [intros [[[[[[[[[-> ->] ->] ->] ->] ->] ->] ->] ->] ->]; auto|intros E; inversion E; repeat split; auto].
Qed.

(* ---------- de-duplication absorbs an inner de-duplication ---------- *)
Section DedupeAbsorb.
Context {A : Type} (eqb : A -> A -> bool).
Hypothesis eqb_spec : forall x y, eqb x y = true <-> x = y.
Lemma mem_In x u : existsb (eqb x) u = true <-> In x u.
Proof.
  rewrite existsb_exists. split; [intros (y & Hy & E); apply eqb_spec in E; subst; auto|intros H; exists x; split; auto; apply eqb_spec; auto].
Qed.
Lemma dstep_In u x y : In y (dstep eqb u x) <-> In y u \/ y = x.
Proof.
  unfold dstep. destruct (existsb (eqb x) u) eqn:E.
  - apply mem_In in E. split; auto. intros [H| ->]; auto.
  - rewrite In_app_single. tauto.
Qed.
Lemma fold_dstep_In : forall l u y, In y (fold_left (dstep eqb) l u) <-> In y u \/ In y l.
Proof.
  induction l as [|x l IH]; intros u y; cbn [fold_left]; [cbn; tauto|]. rewrite IH, dstep_In. cbn. intuition (subst; auto).
Qed.
Lemma fold_dedupe_inner : forall B u, fold_left (dstep eqb) (fold_left (dstep eqb) B []) u = fold_left (dstep eqb) B u.
Proof.
  intros B. induction B as [|y B' IH] using rev_ind; intros u; [reflexivity|].
  rewrite !fold_left_app. cbn [fold_left]. unfold dstep at 2. destruct (existsb (eqb y) (fold_left (dstep eqb) B' [])) eqn:E.
  - rewrite IH. apply mem_In in E. apply fold_dstep_In in E. destruct E as [[]|E].
    assert (M : existsb (eqb y) (fold_left (dstep eqb) B' u) = true) by (apply mem_In; apply fold_dstep_In; auto).
    set (U := fold_left (dstep eqb) B' u) in *. unfold dstep. rewrite M. reflexivity.
  - rewrite fold_left_app. cbn [fold_left]. rewrite IH. reflexivity.
Qed.
Theorem dedupe_absorbs_inner X B Y : dedupe eqb (X ++ dedupe eqb B ++ Y) = dedupe eqb (X ++ B ++ Y).
Proof.
  unfold dedupe. change (fold_left (dstep eqb) (X ++ fold_left (dstep eqb) B [] ++ Y) [] = fold_left (dstep eqb) (X ++ B ++ Y) []).
  rewrite !fold_left_app. rewrite fold_dedupe_inner. reflexivity.
Qed.
Theorem dedupe_repeat U B : (forall x, In x B -> In x U) -> dedupe eqb (U ++ B) = dedupe eqb U.
Proof.
  intros H. unfold dedupe. change (fold_left (dstep eqb) (U ++ B) [] = fold_left (dstep eqb) U []).
  rewrite fold_left_app. apply dedupe_absorb. intros x Hx. apply mem_In. apply fold_dstep_In. right. auto.
Qed.
End DedupeAbsorb.

(* ---------- states that compile to the same specification whatever follows ---------- *)
Section Layout.
Variable files : string -> option cmal.

Definition deq {A} (eqb : A -> A -> bool) (l1 l2 : list A) : Prop := forall Y, dedupe eqb (l1 ++ Y) = dedupe eqb (l2 ++ Y).
Definition rel (s1 s2 : fspec) : Prop :=
  sp_defines s1 = sp_defines s2 /\ deq fcat_eqb (sp_categories s1) (sp_categories s2) /\
  deq fasset_eqb (sp_assets s1) (sp_assets s2) /\ deq fassoc_eqb (sp_assocs s1) (sp_assocs s2).
Lemma deq_refl {A} (eqb : A -> A -> bool) l : deq eqb l l. Proof. intros Y; reflexivity. Qed.
Lemma deq_app {A} (eqb : A -> A -> bool) l1 l2 Z : deq eqb l1 l2 -> deq eqb (l1 ++ Z) (l2 ++ Z).
Proof. intros H Y. rewrite <- !app_assoc. apply H. Qed.
Definition orel (a b : option fspec) : Prop :=
  match a, b with Some s1, Some s2 => rel s1 s2 | None, None => True | _, _ => False end.
Lemma rel_step f s1 s2 d : rel s1 s2 -> orel (mstep_ files f (Some s1) d) (mstep_ files f (Some s2) d).
Proof.
  intros (E & C & A & S). destruct d as [file|k v|c|l]; cbn [mstep_].
  - destruct (files file) as [m'|]; cbn; auto. destruct (v_mal files f m') as [inc|]; cbn; auto.
    repeat split; cbn [sp_defines sp_categories sp_assets sp_assocs]; [rewrite E; reflexivity|apply deq_app; auto..].
  - cbn. repeat split; cbn [sp_defines sp_categories sp_assets sp_assocs]; auto. rewrite E. reflexivity.
  - cbn. repeat split; cbn [sp_defines sp_categories sp_assets sp_assocs]; auto; apply deq_app; auto.
  - cbn. repeat split; cbn [sp_defines sp_categories sp_assets sp_assocs]; auto; apply deq_app; auto.
Qed.
Lemma fold_none f : forall S, fold_left (mstep_ files f) S None = None.
Proof. induction S as [|d S IH]; cbn; auto. Qed.
Lemma rel_fold f : forall S a b, orel a b -> orel (fold_left (mstep_ files f) S a) (fold_left (mstep_ files f) S b).
Proof.
  induction S as [|d S IH]; intros a b H; cbn [fold_left]; auto. apply IH.
  destruct a as [s1|], b as [s2|]; cbn in H; try contradiction; [apply rel_step; auto|cbn; auto].
Qed.
Lemma rel_final a b : orel a b -> option_map spec_dedupe a = option_map spec_dedupe b.
Proof.
  destruct a as [s1|], b as [s2|]; cbn; try contradiction; auto. intros (E & C & A & S). f_equal. unfold spec_dedupe.
  specialize (C []). specialize (A []). specialize (S []). rewrite !app_nil_r in *. congruence.
Qed.

(* ---------- the declarations of an include-free file, evaluated without the file table ---------- *)
Definition include_free (m : cmal) : bool := forallb (fun d => match d with DInclude _ => false | _ => true end) m.
Definition define_keys (m : cmal) : list string := flat_map (fun d => match d with DDefine k _ => [k] | _ => [] end) m.
Definition raw_step (s : fspec) (d : cdecl) : fspec :=
  match d with
  | DCategory c => mkFSpec (sp_defines s) (sp_categories s ++ [mkFCat (cc_name c) (v_metas (cc_meta c))])
                           (sp_assets s ++ map (v_asset (cc_name c)) (cc_assets c)) (sp_assocs s)
  | DDefine k v => mkFSpec (dset seqb (sp_defines s) k v) (sp_categories s) (sp_assets s) (sp_assocs s)
  | DAssociations l => mkFSpec (sp_defines s) (sp_categories s) (sp_assets s) (sp_assocs s ++ map v_assoc l)
  | DInclude _ => s
  end.
Definition raw_of (m : cmal) (s : fspec) : fspec := fold_left raw_step m s.
Lemma fold_include_free f : forall m s, include_free m = true -> fold_left (mstep_ files f) m (Some s) = Some (raw_of m s).
Proof.
  induction m as [|d m IH]; intros s H; cbn [fold_left raw_of]; auto. cbn in H. apply andb_true_iff in H. destruct H as [H1 H2].
  destruct d; try discriminate; cbn [mstep_]; rewrite IH; auto.
Qed.

Definition merge (s a : fspec) : fspec :=
  mkFSpec (dict_update (sp_defines s) (sp_defines a)) (sp_categories s ++ sp_categories a) (sp_assets s ++ sp_assets a) (sp_assocs s ++ sp_assocs a).
Lemma dset_fresh (d : list (string * string)) k v : ~ In k (map fst d) -> dset seqb d k v = d ++ [(k, v)].
Proof.
  induction d as [|[k0 v0] d IH]; cbn; auto. intros N. destruct (seqb k k0) eqn:E.
  - apply seqb_spec in E. subst. exfalso. apply N. left; auto.
  - rewrite IH; auto.
Qed.
(* assigning a key of a dictionary that holds it commutes with assignments to other keys *)
Lemma dset_dset_same (d : list (string * string)) k v v' : dset seqb (dset seqb d k v) k v' = dset seqb d k v'.
Proof.
  induction d as [|[k0 v0] d IH]; cbn.
  - rewrite (keqb_refl seqb seqb_spec). reflexivity.
  - destruct (seqb k k0) eqn:E; cbn; rewrite E; [reflexivity|]. rewrite IH. reflexivity.
Qed.
Lemma dset_swap (d : list (string * string)) k v k' v' : k <> k' -> In k (map fst d) ->
  dset seqb (dset seqb d k' v') k v = dset seqb (dset seqb d k v) k' v'.
Proof.
  intros N. induction d as [|[a b] t IH]; cbn [map fst In]; [intros []|]. intros H.
  cbn [dset]. destruct (seqb k' a) eqn:E1, (seqb k a) eqn:E2; cbn [dset]; rewrite ?E1, ?E2; try reflexivity.
  - apply seqb_spec in E1. apply seqb_spec in E2. congruence.
  - f_equal. apply IH. destruct H as [H|H]; auto. subst. rewrite (keqb_refl seqb seqb_spec) in E2. discriminate.
Qed.
Lemma dset_keys_In (d : list (string * string)) k v x : In x (map fst d) -> In x (map fst (dset seqb d k v)).
Proof. intros H. apply (dkeys_dset seqb seqb_spec). left. exact H. Qed.
Lemma dset_key_In (d : list (string * string)) k v : In k (map fst (dset seqb d k v)).
Proof. apply (dkeys_dset seqb seqb_spec). right. reflexivity. Qed.
Lemma dict_update_set_held : forall r d k v, ~ In k (map fst r) -> In k (map fst d) ->
  dset seqb (dict_update d r) k v = dict_update (dset seqb d k v) r.
Proof.
  induction r as [|[k1 v1] r IH]; intros d k v Nk Hk; cbn [dict_update fold_left]; [reflexivity|].
  cbn [map fst In] in Nk. cbn [fst snd].
  change (fold_left (fun d0 kv => dset seqb d0 (fst kv) (snd kv)) r (dset seqb d k1 v1)) with (dict_update (dset seqb d k1 v1) r).
  change (fold_left (fun d0 kv => dset seqb d0 (fst kv) (snd kv)) r (dset seqb (dset seqb d k v) k1 v1)) with (dict_update (dset seqb (dset seqb d k v) k1 v1) r).
  rewrite IH; [|tauto|apply dset_keys_In; auto]. f_equal. apply dset_swap.
  - intros E. apply Nk. left. symmetry. exact E.
  - exact Hk.
Qed.
(* the update by an included file's defines is the sequence of the file's own assignments *)
Lemma dict_update_dset : forall inc s k v, NoDup (map fst inc) ->
  dict_update s (dset seqb inc k v) = dset seqb (dict_update s inc) k v.
Proof.
  induction inc as [|[k0 v0] r IH]; intros s k v N; cbn [dset].
  - reflexivity.
  - cbn [map fst] in N. inversion N as [|? ? N1 N2]; subst. destruct (seqb k k0) eqn:E.
    + apply seqb_spec in E. subst k0. cbn [dict_update fold_left fst snd].
      change (fold_left (fun d0 kv => dset seqb d0 (fst kv) (snd kv)) r (dset seqb s k v)) with (dict_update (dset seqb s k v) r).
      change (fold_left (fun d0 kv => dset seqb d0 (fst kv) (snd kv)) r (dset seqb s k v0)) with (dict_update (dset seqb s k v0) r).
      rewrite (dict_update_set_held r (dset seqb s k v0) k v N1 (dset_key_In s k v0)). rewrite dset_dset_same. reflexivity.
    + cbn [dict_update fold_left fst snd].
      change (fold_left (fun d0 kv => dset seqb d0 (fst kv) (snd kv)) (dset seqb r k v) (dset seqb s k0 v0)) with (dict_update (dset seqb s k0 v0) (dset seqb r k v)).
      change (fold_left (fun d0 kv => dset seqb d0 (fst kv) (snd kv)) r (dset seqb s k0 v0)) with (dict_update (dset seqb s k0 v0) r).
      apply IH. exact N2.
Qed.
Lemma raw_step_keys a d : NoDup (map fst (sp_defines a)) -> NoDup (map fst (sp_defines (raw_step a d))).
Proof. intros N. destruct d; cbn [raw_step sp_defines]; auto. apply (dkeys_dset_NoDup seqb seqb_spec). exact N. Qed.
Lemma raw_merge s : forall m a, NoDup (map fst (sp_defines a)) ->
  raw_of m (merge s a) = merge s (raw_of m a).
Proof.
  induction m as [|d m IH]; intros a N; cbn [raw_of fold_left]; auto.
  change (fold_left raw_step m (raw_step (merge s a) d)) with (raw_of m (raw_step (merge s a) d)).
  change (fold_left raw_step m (raw_step a d)) with (raw_of m (raw_step a d)).
  assert (E : raw_step (merge s a) d = merge s (raw_step a d)).
  { destruct d as [file|k v|c|l]; cbn [raw_step merge sp_defines sp_categories sp_assets sp_assocs].
    - reflexivity.
    - unfold merge. cbn [sp_defines sp_categories sp_assets sp_assocs]. rewrite dict_update_dset by exact N. reflexivity.
    - unfold merge. cbn [sp_defines sp_categories sp_assets sp_assocs]. rewrite <- !app_assoc. reflexivity.
    - unfold merge. cbn [sp_defines sp_categories sp_assets sp_assocs]. rewrite <- !app_assoc. reflexivity. }
  rewrite E. apply IH. apply raw_step_keys. exact N.
Qed.
Lemma merge_empty s : merge s spec_empty = s.
Proof. destruct s. unfold merge. cbn. rewrite !app_nil_r. reflexivity. Qed.

(* replacing an include by the declarations of the included file *)
Theorem include_inline P f m' S n :
  files f = Some m' -> include_free m' = true ->
  v_mal files (Datatypes.S (Datatypes.S n)) (P ++ DInclude f :: S) = v_mal files (Datatypes.S (Datatypes.S n)) (P ++ m' ++ S).
Proof.
  intros Hf Hfree. rewrite !v_mal_unfold. rewrite !fold_left_app. cbn [fold_left].
  destruct (fold_left (mstep_ files (Datatypes.S n)) P (Some spec_empty)) as [s|]; [|cbn [mstep_]; rewrite !fold_none; reflexivity].
  apply rel_final. apply rel_fold.
  cbn [mstep_]. rewrite Hf. rewrite v_mal_unfold. rewrite !fold_include_free by auto. cbn [option_map orel].
  replace (raw_of m' s) with (merge s (raw_of m' spec_empty))
    by (rewrite <- raw_merge by (cbn; constructor); rewrite merge_empty; reflexivity).
  set (X := raw_of m' spec_empty). unfold merge, rel, spec_dedupe. cbn [sp_defines sp_categories sp_assets sp_assocs].
  split; [reflexivity|]. repeat split; intros Y; rewrite <- !app_assoc.
  - apply (dedupe_absorbs_inner fcat_eqb fcat_eqb_spec).
  - apply (dedupe_absorbs_inner fasset_eqb fasset_eqb_spec).
  - apply (dedupe_absorbs_inner fassoc_eqb fassoc_eqb_spec).
Qed.

(* including the same (define-free) file a second time changes nothing *)
Theorem include_twice P f m' Q S n :
  files f = Some m' -> include_free m' = true -> define_keys m' = [] ->
  v_mal files (Datatypes.S (Datatypes.S n)) (P ++ DInclude f :: Q ++ DInclude f :: S) =
  v_mal files (Datatypes.S (Datatypes.S n)) (P ++ DInclude f :: Q ++ S).
Proof.
  intros Hf Hfree Hkeys. rewrite !v_mal_unfold.
  rewrite !fold_left_app. cbn [fold_left]. rewrite !fold_left_app. cbn [fold_left].
  destruct (fold_left (mstep_ files (Datatypes.S n)) P (Some spec_empty)) as [s|]; [|repeat (cbn [mstep_]; rewrite ?fold_none); reflexivity].
  cbn [mstep_]. rewrite Hf. rewrite v_mal_unfold. rewrite !fold_include_free by auto. cbn [option_map].
  set (X := raw_of m' spec_empty).
  assert (DX : sp_defines X = []).
  { unfold X, raw_of. assert (G : forall m a, define_keys m = [] -> sp_defines (fold_left raw_step m a) = sp_defines a).
    { induction m as [|d m IH]; intros a H; cbn [fold_left]; auto. destruct d; cbn in H; try discriminate; rewrite IH; auto. }
    apply G. auto. }
  set (s1 := mkFSpec _ _ _ _).
  destruct (fold_left (mstep_ files (Datatypes.S n)) Q (Some s1)) as [t|] eqn:EQ; [|cbn [mstep_]; rewrite !fold_none; reflexivity].
  apply rel_final. apply rel_fold. cbn [mstep_]. rewrite Hf, v_mal_unfold, fold_include_free by auto. cbn [option_map orel]. fold X.
  unfold rel, spec_dedupe. cbn [sp_defines sp_categories sp_assets sp_assocs].
  rewrite DX. cbn [dict_update fold_left].
  (* everything the second include adds is already there *)
  assert (Mono : forall Q0 a b, fold_left (mstep_ files (Datatypes.S n)) Q0 (Some a) = Some b ->
     incl (sp_categories a) (sp_categories b) /\ incl (sp_assets a) (sp_assets b) /\ incl (sp_assocs a) (sp_assocs b)).
  { induction Q0 as [|d Q0 IH]; intros a b H; cbn [fold_left] in H; [inversion H; subst; repeat split; apply incl_refl|].
    destruct (mstep_ files (Datatypes.S n) (Some a) d) as [a'|] eqn:Ed; [|rewrite fold_none in H; discriminate].
    destruct (IH _ _ H) as (I1 & I2 & I3).
    assert (J : incl (sp_categories a) (sp_categories a') /\ incl (sp_assets a) (sp_assets a') /\ incl (sp_assocs a) (sp_assocs a')).
    { destruct d as [file|k v|c|l]; cbn [mstep_] in Ed.
      - destruct (files file) as [mm|]; [|discriminate]. destruct (v_mal files (Datatypes.S n) mm) as [inc|]; [|discriminate].
        inversion Ed; subst; cbn; repeat split; apply incl_appl; apply incl_refl.
      - inversion Ed; subst; cbn; repeat split; apply incl_refl.
      - inversion Ed; subst; cbn; repeat split; try apply incl_refl; apply incl_appl; apply incl_refl.
      - inversion Ed; subst; cbn; repeat split; try apply incl_refl; apply incl_appl; apply incl_refl. }
    destruct J as (J1 & J2 & J3). repeat split; eapply incl_tran; eauto. }
  destruct (Mono _ _ _ EQ) as (M1 & M2 & M3). unfold s1 in M1, M2, M3. cbn [sp_categories sp_assets sp_assocs] in M1, M2, M3.
  assert (DQ : forall {A} (eqb : A -> A -> bool), (forall x y, eqb x y = true <-> x = y) ->
     forall U B, (forall x, In x B -> In x U) -> deq eqb (U ++ B) U).
  { intros A eqb Hspec U B HB Y. unfold dedupe.
    change (fold_left (dstep eqb) ((U ++ B) ++ Y) [] = fold_left (dstep eqb) (U ++ Y) []).
    rewrite !fold_left_app. f_equal. apply dedupe_absorb. intros x Hx. apply (mem_In eqb Hspec). apply (fold_dstep_In eqb Hspec). right. auto. }
  split; [reflexivity|]. repeat split.
  - apply (DQ _ fcat_eqb fcat_eqb_spec). intros x Hx. apply M1. apply in_or_app. right.
    apply (mem_In fcat_eqb fcat_eqb_spec). unfold dedupe in Hx.
    apply (fold_dstep_In fcat_eqb fcat_eqb_spec) in Hx. destruct Hx as [[]|Hx].
    apply (mem_In fcat_eqb fcat_eqb_spec). unfold dedupe. apply (fold_dstep_In fcat_eqb fcat_eqb_spec). right; auto.
  - apply (DQ _ fasset_eqb fasset_eqb_spec). intros x Hx. apply M2. apply in_or_app. right. exact Hx.
  - apply (DQ _ fassoc_eqb fassoc_eqb_spec). intros x Hx. apply M3. apply in_or_app. right. exact Hx.
Qed.

(* ---------- any tree of included files: compiling it is compiling its flattening ---------- *)
(* the declarations of a file with every include replaced, recursively, by the declarations of the included file *)
Fixpoint flat_list (fl : cmal -> option cmal) (m : cmal) : option cmal :=
  match m with
  | [] => Some []
  | DInclude g :: r =>
      match files g with
      | Some m' => match fl m', flat_list fl r with Some a, Some b => Some (a ++ b) | _, _ => None end
      | None => None
      end
  | d :: r => option_map (cons d) (flat_list fl r)
  end.
Fixpoint flat (fuel : nat) (m : cmal) : option cmal :=
  match fuel with O => None | Datatypes.S f => flat_list (flat f) m end.

Lemma rel_refl s : rel s s.
Proof. repeat split; apply deq_refl. Qed.
Lemma rel_trans a b c : rel a b -> rel b c -> rel a c.
Proof.
  intros (E1 & C1 & A1 & S1) (E2 & C2 & A2 & S2). repeat split; [congruence|..]; intros Y; [rewrite C1|rewrite A1|rewrite S1]; auto.
Qed.
Lemma raw_step_rel s1 s2 d : rel s1 s2 -> rel (raw_step s1 d) (raw_step s2 d).
Proof.
  intros (E & C & A & S). destruct d as [file|k v|c|l]; cbn [raw_step]; repeat split; cbn [sp_defines sp_categories sp_assets sp_assocs]; auto;
    try (rewrite E; reflexivity); apply deq_app; auto.
Qed.
Lemma raw_of_rel : forall m s1 s2, rel s1 s2 -> rel (raw_of m s1) (raw_of m s2).
Proof. induction m as [|d m IH]; intros s1 s2 H; cbn [raw_of fold_left]; auto. apply IH. apply raw_step_rel; auto. Qed.
Lemma raw_of_app m1 m2 s : raw_of (m1 ++ m2) s = raw_of m2 (raw_of m1 s).
Proof. unfold raw_of. apply fold_left_app. Qed.
Lemma define_keys_app m1 m2 : define_keys (m1 ++ m2) = define_keys m1 ++ define_keys m2.
Proof. unfold define_keys. apply flat_map_app. Qed.
Lemma raw_of_defines : forall m s, NoDup (map fst (sp_defines s) ++ define_keys m) ->
  map fst (sp_defines (raw_of m s)) = map fst (sp_defines s) ++ define_keys m.
Proof.
  induction m as [|d m IH]; intros s N; cbn [raw_of fold_left define_keys flat_map]; [rewrite app_nil_r; auto|].
  change (fold_left raw_step m (raw_step s d)) with (raw_of m (raw_step s d)). fold (define_keys m) in *.
  destruct d as [file|k v|c|l]; cbn [app] in *.
  - rewrite IH; [reflexivity|exact N].
  - assert (Nk : ~ In k (map fst (sp_defines s))).
    { intros A0. apply NoDup_remove_2 in N. apply N. apply in_or_app. left; auto. }
    rewrite IH.
    + cbn [raw_step sp_defines]. rewrite (dset_fresh _ _ _ Nk), map_app. cbn [map fst]. rewrite <- app_assoc. reflexivity.
    + cbn [raw_step sp_defines]. rewrite (dset_fresh _ _ _ Nk), map_app. cbn [map fst]. rewrite <- app_assoc. exact N.
  - rewrite IH; [reflexivity|exact N].
  - rewrite IH; [reflexivity|exact N].
Qed.
Lemma NoDup_app_l {A} (l1 l2 : list A) : NoDup (l1 ++ l2) -> NoDup l1.
Proof. induction l1 as [|a r IH]; cbn; intros N; constructor; inversion N; subst; auto. intros A0. apply H1. apply in_or_app; auto. Qed.
Lemma NoDup_app_r {A} (l1 l2 : list A) : NoDup (l1 ++ l2) -> NoDup l2.
Proof. induction l1 as [|a r IH]; cbn; auto. intros N. inversion N; auto. Qed.

(* the inner de-duplication of an included file's result is invisible *)
Lemma merge_dedupe_rel s X : rel (merge s (spec_dedupe X)) (merge s X).
Proof.
  unfold merge, rel, spec_dedupe. cbn [sp_defines sp_categories sp_assets sp_assocs]. split; [reflexivity|].
  repeat split; intros Y; rewrite <- !app_assoc.
  - apply (dedupe_absorbs_inner fcat_eqb fcat_eqb_spec).
  - apply (dedupe_absorbs_inner fasset_eqb fasset_eqb_spec).
  - apply (dedupe_absorbs_inner fassoc_eqb fassoc_eqb_spec).
Qed.

Lemma flat_fold f :
  (forall m fm, flat f m = Some fm -> v_mal files f m = Some (spec_dedupe (raw_of fm spec_empty))) ->
  forall m fm s, flat_list (flat f) m = Some fm ->
    exists s', fold_left (mstep_ files f) m (Some s) = Some s' /\ rel s' (raw_of fm s).
Proof.
  intros IHf. induction m as [|d r IH]; intros fm s Hf; cbn [flat_list] in Hf.
  - inversion Hf; subst. exists s. split; [reflexivity|apply rel_refl].
  - destruct d as [g|k v|c|l].
    + (* include *)
      destruct (files g) as [m'|] eqn:Eg; [|discriminate].
      destruct (flat f m') as [a|] eqn:Ea; [|discriminate]. destruct (flat_list (flat f) r) as [b|] eqn:Eb; [|discriminate].
      inversion Hf; subst fm. clear Hf.
      pose proof (IHf m' a Ea) as Ev.
      cbn [fold_left mstep_]. rewrite Eg, Ev.
      set (X := raw_of a spec_empty).
      change (Some (mkFSpec (dict_update (sp_defines s) (sp_defines (spec_dedupe X))) (sp_categories s ++ sp_categories (spec_dedupe X))
                            (sp_assets s ++ sp_assets (spec_dedupe X)) (sp_assocs s ++ sp_assocs (spec_dedupe X))))
        with (Some (merge s (spec_dedupe X))).
      assert (E2 : raw_of a s = merge s X).
      { unfold X. rewrite <- (merge_empty s) at 1. apply raw_merge. cbn. constructor. }
      assert (R1 : rel (merge s (spec_dedupe X)) (raw_of a s)) by (rewrite E2; apply merge_dedupe_rel).
      destruct (IH b (raw_of a s) eq_refl) as (s2 & F2 & R2).
      pose proof (rel_fold f r (Some (merge s (spec_dedupe X))) (Some (raw_of a s)) R1) as RF. rewrite F2 in RF.
      destruct (fold_left (mstep_ files f) r (Some (merge s (spec_dedupe X)))) as [s1|]; [|destruct RF].
      exists s1. split; auto. rewrite raw_of_app. eapply rel_trans; eauto.
    + destruct (flat_list (flat f) r) as [b|] eqn:Eb; [|discriminate]. inversion Hf; subst fm. clear Hf.
      cbn [fold_left mstep_]. destruct (IH b (raw_step s (DDefine k v)) eq_refl) as (s2 & F2 & R2). exists s2. split; auto.
    + destruct (flat_list (flat f) r) as [b|] eqn:Eb; [|discriminate]. inversion Hf; subst fm. clear Hf.
      cbn [fold_left mstep_]. destruct (IH b (raw_step s (DCategory c)) eq_refl) as (s2 & F2 & R2). exists s2. split; auto.
    + destruct (flat_list (flat f) r) as [b|] eqn:Eb; [|discriminate]. inversion Hf; subst fm. clear Hf.
      cbn [fold_left mstep_]. destruct (IH b (raw_step s (DAssociations l)) eq_refl) as (s2 & F2 & R2). exists s2. split; auto.
Qed.

(* compiling a root file with any tree of includes below it = evaluating the flattened declaration list *)
Theorem flat_compile : forall f m fm, flat f m = Some fm ->
  v_mal files f m = Some (spec_dedupe (raw_of fm spec_empty)).
Proof.
  induction f as [|f IHf]; intros m fm Hf; [discriminate|].
  rewrite v_mal_unfold. cbn [flat] in Hf.
  destruct (flat_fold f IHf m fm spec_empty Hf) as (s' & F & R).
  rewrite F. apply (rel_final (Some s') (Some (raw_of fm spec_empty))). exact R.
Qed.
End Layout.

(* two layouts of one language — whatever the split into files and the nesting of the includes — that flatten to the same
   declaration list compile to the same specification *)
Theorem layout_independent files1 files2 f1 f2 m1 m2 fm :
  flat files1 f1 m1 = Some fm -> flat files2 f2 m2 = Some fm ->
  v_mal files1 f1 m1 = v_mal files2 f2 m2.
Proof. intros H1 H2. rewrite (flat_compile files1 f1 m1 fm H1), (flat_compile files2 f2 m2 fm H2). reflexivity. Qed.
