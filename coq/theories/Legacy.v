(* Legacy.v — the two legacy model formats (C18) at the document level, next to the native one (ModelIO.v):
   the 0.0.39 file layout read by translators/updater.py and the securiCAD .sCAD object model read by
   translators/securicad.py, with the inverse translations from a model's content. *)
From MT Require Import Prelude ListFacts Codec ModelIO Lang LangGraph Classes.

(* ================= 0.0.39 ================= *)
Definition enc39_asset (a : casset) : string * jv :=
  (string_of_Z (ca_id a),
   JDict ([("name", JStr (ca_name a)); ("metaconcept", JStr (ca_type a))]
          ++ (match ca_defs a with [] => [] | d => [("defenses", JDict (map (fun kv => (fst kv, JFlt (snd kv))) d))] end))).
Definition enc39_assoc (c : cassoc) : jv :=
  JDict [("metaconcept", JStr (cc_class c));
         ("association", JDict [(cc_lfield c, JList (map JInt (cc_left c))); (cc_rfield c, JList (map JInt (cc_right c)))])].
Definition encode39 (c : content) : jv :=
  JDict [("metadata", JDict [("name", JStr (c_name c))]);
         ("assets", JDict (map enc39_asset (c_assets c)));
         ("associations", JList (map enc39_assoc (c_assocs c)));
         ("attackers", JDict (map enc_attacker (c_attackers c)))].

Definition dec39_asset (kv : string * jv) : option casset :=
  match Z_of_string (fst kv) with
  | None => None
  | Some i =>
    match snd kv with
    | JStr t => Some (mkCA i (t ++ ":" ++ fst kv) t [] [])
    | JDict d =>
      match dget seqb d "name", dget seqb d "metaconcept", dec_defs (dget seqb d "defenses") with
      | Some (JStr n), Some (JStr t), Some defs => Some (mkCA i n t defs [])
      | _, _, _ => None
      end
    | _ => None
    end
  end.
(* association = ns.<pop('metaconcept')>(); body = dict.get('association', dict); every item of body is a field *)
Definition dec39_assoc (v : jv) : option cassoc :=
  match v with
  | JDict d =>
    match dget seqb d "metaconcept" with
    | Some (JStr cls) =>
      let rest := ddel seqb d "metaconcept" in
      let body := match dget seqb rest "association" with Some (JDict b) => b | _ => rest end in
      match body with
      | [(lf, l); (rf, r)] =>
          match dec_ids l, dec_ids r with Some li, Some ri => Some (mkCC cls lf li rf ri []) | _, _ => None end
      | _ => None
      end
    | _ => None
    end
  | _ => None
  end.
Definition decode39 (v : jv) : option content :=
  match jget v "metadata", jget v "assets" with
  | Some (JDict md), Some (JDict assets) =>
    match dget seqb md "name", omap dec39_asset assets,
          (match jget v "associations" with Some (JList l) => omap dec39_assoc l | None => Some [] | _ => None end),
          (match jget v "attackers" with Some (JDict l) => omap dec_attacker l | None => Some [] | _ => None end) with
    | Some (JStr n), Some a, Some c, Some t => Some (mkC n a c t)
    | _, _, _, _ => None
    end
  | _, _ => None
  end.

Definition no_extras (c : content) : bool :=
  forallb (fun a => match ca_extras a with [] => true | _ => false end) (c_assets c) &&
  forallb (fun a => match cc_extras a with [] => true | _ => false end) (c_assocs c).

Lemma dec39_enc39_asset a : ca_extras a = [] -> dec39_asset (enc39_asset a) = Some a.
Proof.
  intros E. unfold dec39_asset, enc39_asset. cbn [fst snd]. rewrite Z_of_string_of_Z.
  destruct a as [i n t defs ex]. cbn [ca_id ca_name ca_type ca_defs ca_extras] in *. subst ex.
  assert (G : forall l : list (string * Z),
     omap (fun kv : string * jv => match snd kv with JFlt z => Some (fst kv, z) | JInt z => Some (fst kv, (z * 1024)%Z) | _ => None end)
          (map (fun kv => (fst kv, JFlt (snd kv))) l) = Some l).
  { intros l. apply omap_map. intros [k v] _. reflexivity. }
  destruct defs as [|d0 dr]; cbn [app dget seqb String.eqb Ascii.eqb Bool.eqb dec_defs]; rewrite ?G; reflexivity.
Qed.
Lemma dec_ids_ints l : dec_ids (JList (map JInt l)) = Some l.
Proof. unfold dec_ids. apply omap_map. auto. Qed.
Lemma dec39_enc39_assoc c : cc_extras c = [] -> dec39_assoc (enc39_assoc c) = Some c.
Proof.
  intros E. destruct c as [cls lf l rf r ex]. cbn in E. subst ex. unfold dec39_assoc, enc39_assoc.
  cbn [cc_class cc_lfield cc_left cc_rfield cc_right dget seqb String.eqb Ascii.eqb Bool.eqb ddel].
  rewrite !dec_ids_ints. reflexivity.
Qed.
Theorem decode39_encode39 c : no_extras c = true -> decode39 (encode39 c) = Some c.
Proof.
  intros W. unfold no_extras in W. apply andb_true_iff in W. destruct W as [W1 W2]. rewrite forallb_forall in W1, W2.
  destruct c as [n assets assocs atts]. unfold decode39, encode39, jget. cbn [c_name c_assets c_assocs c_attackers] in *.
  cbn [dget seqb String.eqb Ascii.eqb Bool.eqb].
  rewrite (omap_map dec39_asset enc39_asset) by (intros a Ha; apply dec39_enc39_asset; specialize (W1 a Ha); destruct (ca_extras a); [auto|discriminate]).
  rewrite (omap_map dec39_assoc enc39_assoc) by (intros a Ha; apply dec39_enc39_assoc; specialize (W2 a Ha); destruct (cc_extras a); [auto|discriminate]).
  rewrite (omap_map dec_attacker enc_attacker) by (intros; apply dec_enc_attacker). reflexivity.
Qed.
(* both loaders read the same content from the two renderings of one model *)
Theorem legacy39_agrees_with_native c : no_extras c = true -> wf_content c = true -> decode39 (encode39 c) = decode (encode c).
Proof. intros N W. rewrite decode39_encode39 by auto. rewrite decode_encode by auto. reflexivity. Qed.

(* comparison used by the correspondence: the legacy file may list defenses that have their default value *)
Definition defs_sub (d1 d2 : list (string * Z)) : bool :=
  forallb (fun kv => match dget seqb d2 (fst kv) with Some v => Z.eqb v (snd kv) | None => false end) d1.
Definition asset_sub (a b : casset) : bool :=
  Z.eqb (ca_id a) (ca_id b) && seqb (ca_name a) (ca_name b) && seqb (ca_type a) (ca_type b) && defs_sub (ca_defs a) (ca_defs b).
Definition zs_eqb := list_eqb Z.eqb.
Definition assoc_eqb (a b : cassoc) : bool :=
  seqb (cc_class a) (cc_class b) && seqb (cc_lfield a) (cc_lfield b) && zs_eqb (cc_left a) (cc_left b) &&
  seqb (cc_rfield a) (cc_rfield b) && zs_eqb (cc_right a) (cc_right b).
Definition attacker_eqb (a b : cattacker) : bool :=
  Z.eqb (ct_id a) (ct_id b) && seqb (ct_name a) (ct_name b) &&
  list_eqb (pair_eqb Z.eqb (list_eqb seqb)) (ct_entry a) (ct_entry b).
Definition legacy39_check (c : content * jv) : bool :=
  match decode39 (snd c) with
  | Some r => list_eqb asset_sub (c_assets (fst c)) (c_assets r) && list_eqb assoc_eqb (c_assocs (fst c)) (c_assocs r) &&
              list_eqb attacker_eqb (c_attackers (fst c)) (c_attackers r)
  | None => false
  end.

(* ================= securiCAD ================= *)
Record sobject := mkSO { so_id : Z; so_meta : string; so_name : string; so_ev : list (string * Z) }.
Record sassoc := mkSA { sa_src : Z; sa_tgt : Z; sa_sprop : string; sa_tprop : string }.
Record scad := mkScad { sc_objects : list sobject; sc_assocs : list sassoc }.

Definition lower_first (s : string) : string :=
  match s with
  | EmptyString => s
  | String c r => let n := Ascii.nat_of_ascii c in
                  String (if Nat.leb 65 n && Nat.leb n 90 then Ascii.ascii_of_nat (n + 32) else c) r
  end.
Definition upper_first (s : string) : string :=
  match s with
  | EmptyString => s
  | String c r => let n := Ascii.nat_of_ascii c in
                  String (if Nat.leb 97 n && Nat.leb n 122 then Ascii.ascii_of_nat (n - 32) else c) r
  end.
Fixpoint before_dot (s : string) : string :=
  match s with EmptyString => EmptyString | String c r => if Ascii.eqb c "."%char then EmptyString else String c (before_dot r) end.

(* what the loader builds: assets, singleton links, attackers with merged entry points *)
Record sloaded := mkSL { sl_assets : list casset; sl_links : list (string * string * Z * string * Z); sl_atts : list (Z * list (Z * list string)) }.
Fixpoint entry_addz (l : list (Z * list string)) (h : Z) (step : string) : list (Z * list string) :=
  match l with
  | [] => [(h, [step])]
  | (a, st) :: r => if Z.eqb a h then (a, if existsb (seqb step) st then st else st ++ [step]) :: r else (a, st) :: entry_addz r h step
  end.
Section Scad.
Variable class_of : string -> string -> string -> string -> option string.        (* fields and the two asset types *)
Definition load_objects (os : list sobject) : list casset * list Z :=
  fold_left (fun '(assets, atts) o =>
               if seqb (so_meta o) "Attacker" then (assets, atts ++ [so_id o])
               else (assets ++ [mkCA (so_id o) (so_name o) (so_meta o) (map (fun kv => (lower_first (fst kv), snd kv)) (so_ev o)) []], atts))
            os ([], []).
Definition type_of (assets : list casset) (i : Z) : option string :=
  option_map ca_type (find (fun a => Z.eqb (ca_id a) i) assets).
Definition load_assoc (assets : list casset) (acc : option (list (string * string * Z * string * Z) * list (Z * list (Z * list string)))) (x : sassoc)
  : option (list (string * string * Z * string * Z) * list (Z * list (Z * list string))) :=
  match acc with
  | None => None
  | Some (links, atts) =>
    let left_id := sa_tgt x in
    let right_id := sa_src x in
    let entry := if seqb (sa_sprop x) "firstSteps" then Some (right_id, left_id, sa_tprop x)
                 else if seqb (sa_tprop x) "firstSteps" then Some (left_id, right_id, sa_sprop x) else None in
    match entry with
    | Some (att, target, prop) =>
        match dget Z.eqb atts att, type_of assets target with
        | Some eps, Some _ => Some (links, dset Z.eqb atts att (entry_addz eps target (before_dot prop)))
        | _, _ => None
        end
    | None =>
        match type_of assets left_id, type_of assets right_id with
        | Some lt, Some rt =>
            match class_of (sa_sprop x) (sa_tprop x) lt rt with
            | Some cls => Some (links ++ [(cls, sa_sprop x, left_id, sa_tprop x, right_id)], atts)
            | None => None
            end
        | _, _ => None
        end
    end
  end.
Definition load_scad (s : scad) : option sloaded :=
  let '(assets, att_ids) := load_objects (sc_objects s) in
  match fold_left (load_assoc assets) (sc_assocs s) (Some ([], map (fun i => (i, [])) att_ids)) with
  | Some (links, atts) => Some (mkSL assets links atts)
  | None => None
  end.
End Scad.

(* the inverse translation: one association element per linked pair, one per entry-point step *)
Definition to_scad (c : content) : scad :=
  mkScad (map (fun a => mkSO (ca_id a) (ca_type a) (ca_name a) (map (fun kv => (upper_first (fst kv), snd kv)) (ca_defs a))) (c_assets c)
          ++ map (fun t => mkSO (ct_id t) "Attacker" (ct_name t) []) (c_attackers c))
         (flat_map (fun a => flat_map (fun l => map (fun r => mkSA r l (cc_lfield a) (cc_rfield a)) (cc_right a)) (cc_left a)) (c_assocs c)
          ++ flat_map (fun t => flat_map (fun e => map (fun st => mkSA (ct_id t) (fst e) "firstSteps" (st ++ ".attacker")) (snd e)) (ct_entry t)) (c_attackers c)).
Definition pairs_of (c : content) : list (string * string * Z * string * Z) :=
  flat_map (fun a => flat_map (fun l => map (fun r => (cc_class a, cc_lfield a, l, cc_rfield a, r)) (cc_right a)) (cc_left a)) (c_assocs c).

(* the class lookup of the loader, from the models of the language graph and of the classes factory *)
Definition scad_class_of (L : lang) (created : list assocdecl) (lf rf lt rt : string) : option string :=
  match assoc_lookup L created lf rf lt rt with
  | Some a => by_signature created (ac_name a) (ac_lasset a) (ac_rasset a)
  | None => None
  end.
Definition scad_lookup_ok (L : lang) (c : content) : bool :=
  match lg_assocs L with
  | LOk created =>
      forallb (fun p => let '(cls, lf, l, rf, r) := p in
                 match type_of (c_assets c) l, type_of (c_assets c) r with
                 | Some lt, Some rt => opt_eqb seqb (scad_class_of L created lf rf lt rt) (Some cls)
                 | _, _ => false end) (pairs_of c)
  | LErr _ => false
  end.

(* canonical forms for the comparison (the archive lists objects and associations in any order) *)
Definition link_key (p : string * string * Z * string * Z) : string :=
  let '(cls, lf, l, rf, r) := p in (cls ++ "/" ++ lf ++ "/" ++ string_of_Z l ++ "/" ++ rf ++ "/" ++ string_of_Z r)%string.
Definition norm_links (l : list (string * string * Z * string * Z)) : list string := isort String.leb (map link_key l).
Definition norm_entries (l : list (Z * list string)) : list (Z * list string) :=
  sort_zkeys (map (fun e => (fst e, isort String.leb (snd e))) l).
Definition norm_atts (l : list (Z * list (Z * list string))) : list (Z * list (Z * list string)) :=
  sort_zkeys (map (fun t => (fst t, norm_entries (snd t))) l).
Definition entries_eqb := list_eqb (pair_eqb Z.eqb (list_eqb seqb)).
Definition dedup_steps (l : list (Z * list string)) : list (Z * list string) :=
  fold_left (fun acc e => fold_left (fun acc st => entry_addz acc (fst e) st) (snd e) acc) l [].
Definition sort_zkeys_assets (l : list casset) : list casset := isort (fun a b => Z.leb (ca_id a) (ca_id b)) l.
Definition scad_check (x : lang * content * scad) : bool :=
  let '(L, c, s) := x in
  match lg_assocs L with
  | LOk created =>
    match load_scad (scad_class_of L created) s with
    | Some r =>
        list_eqb asset_sub (sort_zkeys_assets (c_assets c)) (sort_zkeys_assets (sl_assets r)) &&
        list_eqb seqb (norm_links (pairs_of c)) (norm_links (sl_links r)) &&
        list_eqb (pair_eqb Z.eqb entries_eqb)
                 (norm_atts (map (fun t => (ct_id t, dedup_steps (ct_entry t))) (c_attackers c))) (norm_atts (sl_atts r))
    | None => false
    end
  | LErr _ => false
  end.

(* ================= the .sCAD translation is inverted (assets and links) ================= *)
Section ScadThm.
Variable class_of : string -> string -> string -> string -> option string.

Lemma load_objects_assets : forall (l : list casset) A T,
  (forall a, In a l -> seqb (ca_type a) "Attacker" = false /\ ca_extras a = [] /\
                       forall d v, In (d, v) (ca_defs a) -> lower_first (upper_first d) = d) ->
  fold_left (fun '(assets, atts) o =>
               if seqb (so_meta o) "Attacker" then (assets, atts ++ [so_id o])
               else (assets ++ [mkCA (so_id o) (so_name o) (so_meta o) (map (fun kv => (lower_first (fst kv), snd kv)) (so_ev o)) []], atts))
            (map (fun a => mkSO (ca_id a) (ca_type a) (ca_name a) (map (fun kv => (upper_first (fst kv), snd kv)) (ca_defs a))) l) (A, T)
  = (A ++ l, T).
Proof.
  induction l as [|a l IH]; intros A T H; cbn [map fold_left]; [rewrite app_nil_r; reflexivity|].
  destruct (H a (or_introl eq_refl)) as (H1 & H2 & H3). cbn [so_meta so_id so_name so_ev]. rewrite H1.
  rewrite IH by (intros; apply H; right; auto). rewrite <- app_assoc. cbn [app]. f_equal. f_equal. f_equal.
  destruct a as [i n t defs ex]. cbn in *. subst ex. f_equal. rewrite map_map. rewrite <- (map_id defs) at 2.
  apply map_ext_in. intros [d v] Hd. cbn. rewrite (H3 d v Hd). reflexivity.
Qed.
Lemma load_objects_attackers : forall (l : list cattacker) A T,
  fold_left (fun '(assets, atts) o =>
               if seqb (so_meta o) "Attacker" then (assets, atts ++ [so_id o])
               else (assets ++ [mkCA (so_id o) (so_name o) (so_meta o) (map (fun kv => (lower_first (fst kv), snd kv)) (so_ev o)) []], atts))
            (map (fun t => mkSO (ct_id t) "Attacker" (ct_name t) []) l) (A, T)
  = (A, T ++ map ct_id l).
Proof.
  induction l as [|t l IH]; intros A T; cbn [map fold_left]; [rewrite app_nil_r; reflexivity|].
  cbn [so_meta so_id]. replace (seqb "Attacker" "Attacker") with true by reflexivity. cbv iota.
  rewrite IH, <- app_assoc. reflexivity.
Qed.

Definition is_entry (x : sassoc) : bool := seqb (sa_sprop x) "firstSteps" || seqb (sa_tprop x) "firstSteps".
Definition link_of (assets : list casset) (x : sassoc) : option (string * string * Z * string * Z) :=
  match type_of assets (sa_tgt x), type_of assets (sa_src x) with
  | Some lt, Some rt => match class_of (sa_sprop x) (sa_tprop x) lt rt with
                        | Some cls => Some (cls, sa_sprop x, sa_tgt x, sa_tprop x, sa_src x) | None => None end
  | _, _ => None
  end.
Lemma fold_assoc_none assets : forall xs, fold_left (load_assoc class_of assets) xs None = None.
Proof. induction xs; cbn; auto. Qed.
Lemma fold_links assets : forall xs links atts links' atts',
  (forall x, In x xs -> is_entry x = false) ->
  fold_left (load_assoc class_of assets) xs (Some (links, atts)) = Some (links', atts') ->
  atts' = atts /\ exists ls, omap (link_of assets) xs = Some ls /\ links' = links ++ ls.
Proof.
  induction xs as [|x xs IH]; intros links atts links' atts' He H; cbn [fold_left] in H.
  - inversion H; subst. split; auto. exists []. rewrite app_nil_r. auto.
  - assert (Ex : is_entry x = false) by (apply He; left; auto). unfold is_entry in Ex. apply orb_false_iff in Ex. destruct Ex as [E1 E2].
    unfold load_assoc at 2 in H. rewrite E1, E2 in H.
    destruct (type_of assets (sa_tgt x)) as [lt|] eqn:T1; [|rewrite fold_assoc_none in H; discriminate].
    destruct (type_of assets (sa_src x)) as [rt|] eqn:T2; [|rewrite fold_assoc_none in H; discriminate].
    destruct (class_of (sa_sprop x) (sa_tprop x) lt rt) as [cls|] eqn:Ec; [|rewrite fold_assoc_none in H; discriminate].
    destruct (IH _ _ _ _ (fun y Hy => He y (or_intror Hy)) H) as (Ea & ls & Hls & El). split; auto.
    exists ((cls, sa_sprop x, sa_tgt x, sa_tprop x, sa_src x) :: ls). cbn [omap]. unfold link_of at 1. rewrite T1, T2, Ec, Hls.
    split; auto. rewrite El, <- app_assoc. reflexivity.
Qed.
Lemma fold_entries assets : forall xs links atts links' atts',
  (forall x, In x xs -> seqb (sa_sprop x) "firstSteps" = true) ->
  fold_left (load_assoc class_of assets) xs (Some (links, atts)) = Some (links', atts') -> links' = links.
Proof.
  induction xs as [|x xs IH]; intros links atts links' atts' He H; cbn [fold_left] in H; [inversion H; auto|].
  unfold load_assoc at 2 in H. rewrite (He x (or_introl eq_refl)) in H.
  destruct (dget Z.eqb atts (sa_src x)) as [eps|]; [|rewrite fold_assoc_none in H; discriminate].
  destruct (type_of assets (sa_tgt x)); [|rewrite fold_assoc_none in H; discriminate].
  eapply IH; [|exact H]. intros; apply He; right; auto.
Qed.

Lemma omap_app_inv {A B} (f : A -> option B) : forall xs ys zs, omap f (xs ++ ys) = Some zs ->
  exists z1 z2, omap f xs = Some z1 /\ omap f ys = Some z2 /\ zs = z1 ++ z2.
Proof.
  induction xs as [|x xs IHx]; intros ys zs Hz; cbn [app omap] in *; [exists [], zs; auto|].
  destruct (f x) as [p|]; [|discriminate]. destruct (omap f (xs ++ ys)) as [zs'|] eqn:Ez; [|discriminate]. inversion Hz; subst.
  destruct (IHx _ _ Ez) as (z1 & z2 & A1 & A2 & ->). exists (p :: z1), z2. rewrite A1. auto.
Qed.
Lemma links_row assets cls lf rf l : forall rs y,
  (forall r0 lt rt, In r0 rs -> type_of assets l = Some lt -> type_of assets r0 = Some rt -> class_of lf rf lt rt = Some cls) ->
  omap (link_of assets) (map (fun r1 => mkSA r1 l lf rf) rs) = Some y -> y = map (fun r0 => (cls, lf, l, rf, r0)) rs.
Proof.
  induction rs as [|r0 rs IH]; intros y H Hy; cbn [map omap] in *; [inversion Hy; reflexivity|].
  unfold link_of at 1 in Hy. cbn [sa_tgt sa_src sa_sprop sa_tprop] in Hy.
  destruct (type_of assets l) as [lt|] eqn:T1; [|discriminate]. destruct (type_of assets r0) as [rt|] eqn:T2; [|discriminate].
  rewrite (H r0 lt rt (or_introl eq_refl) eq_refl T2) in Hy.
  destruct (omap (link_of assets) (map (fun r1 => mkSA r1 l lf rf) rs)) as [ys|] eqn:Ey; [|discriminate].
  inversion Hy; subst. f_equal. apply IH; auto. intros r1 lt' rt' Hr. apply H. right; auto.
Qed.
Lemma links_block assets cls lf rf rs : forall ls z,
  (forall l r0 lt rt, In l ls -> In r0 rs -> type_of assets l = Some lt -> type_of assets r0 = Some rt -> class_of lf rf lt rt = Some cls) ->
  omap (link_of assets) (flat_map (fun l => map (fun r1 => mkSA r1 l lf rf) rs) ls) = Some z ->
  z = flat_map (fun l => map (fun r0 => (cls, lf, l, rf, r0)) rs) ls.
Proof.
  induction ls as [|l ls IH]; intros z H Hz; cbn [flat_map] in *; [inversion Hz; reflexivity|].
  destruct (omap_app_inv _ _ _ _ Hz) as (y1 & y2 & Y1 & Y2 & ->). f_equal.
  - apply (links_row assets cls lf rf l rs y1); auto. intros r0 lt rt Hr. apply H; auto. left; auto.
  - apply IH; auto. intros l' r0 lt rt Hl. apply H. right; auto.
Qed.

Theorem scad_roundtrip_partial c r :
  (forall a, In a (c_assets c) -> seqb (ca_type a) "Attacker" = false /\ ca_extras a = [] /\
                                  forall d v, In (d, v) (ca_defs a) -> lower_first (upper_first d) = d) ->
  (forall a, In a (c_assocs c) -> seqb (cc_lfield a) "firstSteps" = false /\ seqb (cc_rfield a) "firstSteps" = false) ->
  (forall cls lf l rf r0 lt rt, In (cls, lf, l, rf, r0) (pairs_of c) -> type_of (c_assets c) l = Some lt -> type_of (c_assets c) r0 = Some rt ->
                                class_of lf rf lt rt = Some cls) ->
  load_scad class_of (to_scad c) = Some r ->
  sl_assets r = c_assets c /\ sl_links r = pairs_of c.
Proof.
  intros HA HC HL H. unfold load_scad, to_scad in H. cbn [sc_objects sc_assocs] in H.
  unfold load_objects in H. rewrite fold_left_app in H.
  rewrite (load_objects_assets (c_assets c) [] [] HA) in H. rewrite load_objects_attackers in H. cbn [app] in H.
  rewrite fold_left_app in H.
  set (seg1 := flat_map (fun a => flat_map (fun l => map (fun r1 => mkSA r1 l (cc_lfield a) (cc_rfield a)) (cc_right a)) (cc_left a)) (c_assocs c)) in *.
  destruct (fold_left (load_assoc class_of (c_assets c)) seg1 (Some ([], map (fun i => (i, [])) (map ct_id (c_attackers c))))) as [[links1 atts1]|] eqn:E1;
    [|rewrite fold_assoc_none in H; discriminate].
  assert (NE : forall x, In x seg1 -> is_entry x = false).
  { intros x Hx. unfold seg1 in Hx. apply in_flat_map in Hx. destruct Hx as (a & Ha & Hx). apply in_flat_map in Hx.
    destruct Hx as (l & Hl & Hx). apply in_map_iff in Hx. destruct Hx as (r1 & <- & Hr). unfold is_entry. cbn.
    destruct (HC a Ha) as [-> ->]. reflexivity. }
  destruct (fold_links _ _ _ _ _ _ NE E1) as (_ & ls & Hls & El). cbn [app] in El. subst links1.
  destruct (fold_left (load_assoc class_of (c_assets c)) _ (Some (ls, atts1))) as [[links2 atts2]|] eqn:E2; [|discriminate].
  assert (EL : links2 = ls).
  { eapply fold_entries; [|exact E2]. intros x Hx. apply in_flat_map in Hx. destruct Hx as (t & Ht & Hx). apply in_flat_map in Hx.
    destruct Hx as (e & He & Hx). apply in_map_iff in Hx. destruct Hx as (st & <- & Hst). reflexivity. }
  inversion H; subst r. cbn [sl_assets sl_links]. split; auto. subst links2.
  clear - Hls HL. unfold seg1 in Hls. unfold pairs_of in *.
  revert ls Hls HL. generalize (c_assocs c) as assocs. induction assocs as [|a assocs IH]; intros ls Hls HL; cbn [flat_map] in *.
  - inversion Hls; reflexivity.
  - destruct (omap_app_inv _ _ _ _ Hls) as (z1 & z2 & Z1 & Z2 & ->). f_equal.
    + apply (links_block (c_assets c) (cc_class a) (cc_lfield a) (cc_rfield a) (cc_right a) (cc_left a) z1); auto.
      intros l r0 lt rt Hl Hr T1 T2. apply (HL (cc_class a) (cc_lfield a) l (cc_rfield a) r0 lt rt); auto.
      apply in_or_app. left. apply in_flat_map. exists l. split; auto. apply in_map_iff. exists r0. auto.
    + apply IH; auto. intros cls lf l rf r0 lt rt Hin. apply HL. apply in_or_app. right. exact Hin.
Qed.
End ScadThm.
