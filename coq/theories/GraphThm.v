(* GraphThm.v — readable consequences of the invariant WF for C09 / C11 / C13 / C14. *)
From MT Require Import Prelude ListFacts Graph Apriori GraphAn GraphOps GraphInv.
From Coq Require Import Arith.

(* ------------------------------------------------------------------ C09 *)
Lemma wf_edges s : WF s -> forall p c, In p (g_nodes (s_g s)) -> In c (g_nodes (s_g s)) ->
  (In c (n_children (s_nh s p)) <-> In p (n_parents (s_nh s c))).
Proof.
  intros W p c Hp Hc. destruct (wf_struct s W) as (_ & _ & M). specialize (M p c Hp Hc).
  unfold ch_of, pa_of in M. rewrite !In_cnt. lia.
Qed.
Lemma wf_children_closed s : WF s -> forall p c, In p (g_nodes (s_g s)) -> In c (n_children (s_nh s p)) ->
  In c (g_nodes (s_g s)) /\ In p (n_parents (s_nh s c)).
Proof.
  intros W p c Hp Hc. destruct (wf_struct s W) as (A & _ & _).
  assert (In c (g_nodes (s_g s))) by (eapply A; eauto). split; auto. apply wf_edges; auto.
Qed.
Lemma wf_parents_closed s : WF s -> forall c p, In c (g_nodes (s_g s)) -> In p (n_parents (s_nh s c)) ->
  In p (g_nodes (s_g s)) /\ In c (n_children (s_nh s p)).
Proof.
  intros W c p Hc Hp. destruct (wf_struct s W) as (_ & B & _).
  assert (In p (g_nodes (s_g s))) by (eapply B; eauto). split; auto. apply wf_edges; auto.
Qed.
Lemma wf_lookup_id s : WF s -> forall i o,
  get_node_by_id (s_g s) i = Some o <-> (In o (g_nodes (s_g s)) /\ n_id (s_nh s o) = Some i).
Proof.
  intros W i o. destruct (wf_idx_id s W) as (A & B & _). split; [apply A|].
  intros [Ho Hi]. destruct (B o Ho) as (k & Hk & Hd). unfold id_of in Hk. unfold get_node_by_id. congruence.
Qed.
Lemma wf_lookup_name s : WF s -> forall fn o,
  get_node_by_full_name (s_g s) fn = Some o <-> (In o (g_nodes (s_g s)) /\ full_name (s_nh s o) = fn).
Proof.
  intros W fn o. destruct (wf_idx_name s W) as (A & B & _). unfold get_node_by_full_name, fn_of in *. split.
  - intros H. destruct (A _ _ H) as [Ho Hk]. split; auto. congruence.
  - intros [Ho Hi]. destruct (B o Ho) as (k & Hk & Hd). congruence.
Qed.
Lemma wf_lookup_att s : WF s -> forall i a,
  get_attacker_by_id (s_g s) i = Some a <-> (In a (g_atts (s_g s)) /\ a_id (s_ah s a) = Some i).
Proof.
  intros W i a. destruct (wf_idx_att s W) as (A & B & _). split; [apply A|].
  intros [Ho Hi]. destruct (B a Ho) as (k & Hk & Hd). unfold aid_of in Hk. unfold get_attacker_by_id. congruence.
Qed.
Lemma wf_ids_unique s : WF s -> forall o1 o2 i, In o1 (g_nodes (s_g s)) -> In o2 (g_nodes (s_g s)) ->
  n_id (s_nh s o1) = Some i -> n_id (s_nh s o2) = Some i -> o1 = o2.
Proof. intros W o1 o2 i. apply (Idx_key_inj Z.eqb _ _ _ _ _ _ (wf_idx_id s W)). Qed.
Lemma wf_names_unique s : WF s -> forall o1 o2, In o1 (g_nodes (s_g s)) -> In o2 (g_nodes (s_g s)) ->
  full_name (s_nh s o1) = full_name (s_nh s o2) -> o1 = o2.
Proof.
  intros W o1 o2 H1 H2 E. apply (Idx_key_inj seqb _ _ _ o1 o2 (full_name (s_nh s o1)) (wf_idx_name s W)); auto.
  unfold fn_of. congruence.
Qed.
Lemma wf_every_node_has_id s : WF s -> forall o, In o (g_nodes (s_g s)) -> exists i, n_id (s_nh s o) = Some i.
Proof. intros W o Ho. destruct (wf_idx_id s W) as (_ & B & _). destruct (B o Ho) as (i & Hi & _). eauto. Qed.
Lemma wf_attacker_refs s : WF s -> forall a o, In a (g_atts (s_g s)) ->
  (In o (a_entry (s_ah s a)) \/ In o (a_reached (s_ah s a))) -> In o (g_nodes (s_g s)).
Proof. intros W a o Ha [H|H]; destruct (wf_att s W) as (_ & B & Cc & _); eauto. Qed.
Lemma wf_node_attackers s : WF s -> forall o a, In o (g_nodes (s_g s)) -> In a (n_comp (s_nh s o)) -> In a (g_atts (s_g s)).
Proof. intros W o a Ho Ha. destruct (wf_att s W) as (A & _). eauto. Qed.

(* ------------------------------------------------------------------ C11 *)
Lemma wf_compromise_mirror s : WF s -> forall a o, In a (g_atts (s_g s)) -> In o (g_nodes (s_g s)) ->
  (In o (a_reached (s_ah s a)) <-> In a (n_comp (s_nh s o))).
Proof. intros W a o Ha Ho. destruct (wf_att s W) as (_ & _ & _ & D & _). symmetry. apply D; auto. Qed.

Lemma compromise_idempotent nh ah a o :
  let '(nh1, ah1) := compromise nh ah a o in compromise nh1 ah1 a o = (nh1, ah1).
Proof.
  unfold compromise. destruct (memn a (n_comp (nh o))) eqn:M.
  - rewrite M. reflexivity.
  - replace (memn a (n_comp (updn nh o (fun n => set_comp n (n_comp n ++ [a])) o))) with true; auto.
    symmetry. apply memn_In. rewrite updn_same. cbn. apply In_app_single. auto.
Qed.
Lemma undo_not_compromised nh ah a o : ~ In a (n_comp (nh o)) -> undo_compromise nh ah a o = (nh, ah).
Proof. intros H. apply memn_nIn in H. unfold undo_compromise. rewrite H. reflexivity. Qed.
Lemma undo_after_compromise_fresh nh ah a o : ~ In a (n_comp (nh o)) ->
  let '(nh1, ah1) := compromise nh ah a o in
  let '(nh2, ah2) := undo_compromise nh1 ah1 a o in
  n_comp (nh2 o) = n_comp (nh o) /\ (NoDup (a_reached (ah a)) -> ~ In o (a_reached (ah a)) -> a_reached (ah2 a) = a_reached (ah a)).
Proof.
  intros H. unfold compromise. apply memn_nIn in H. rewrite H. unfold undo_compromise.
  replace (memn a (n_comp (updn nh o (fun n => set_comp n (n_comp n ++ [a])) o))) with true
    by (symmetry; apply memn_In; rewrite updn_same; cbn; apply In_app_single; auto).
  rewrite !updn_same, !upda_same. cbn. apply memn_nIn in H.
  assert (R : forall x l, ~ In x l -> remove1 x (l ++ [x]) = l).
  { intros x l. induction l as [|y r IH]; cbn; intros N.
    - rewrite Nat.eqb_refl. auto.
    - destruct (Nat.eqb_spec x y); [subst; exfalso; apply N; auto|]. f_equal. apply IH. auto. }
  split; [apply R; auto|]. intros _ N. apply R; auto.
Qed.

Lemma remove_attacker_clean s a : WF s -> In a (g_atts (s_g s)) ->
  let s' := fst (remove_attacker s a) in
  ~ In a (g_atts (s_g s')) /\ forall o, In o (g_nodes (s_g s')) -> ~ In a (n_comp (s_nh s' o)).
Proof.
  intros W Ha s'. pose proof (WF_remove_attacker s a W Ha) as W'. fold s' in W'.
  assert (G : g_atts (s_g s') = remove1 a (g_atts (s_g s))).
  { unfold s', remove_attacker. destruct (fold_left _ _ _) as [nh1 ah1]. destruct (a_id (ah1 a)); reflexivity. }
  assert (N : ~ In a (g_atts (s_g s'))).
  { rewrite G. apply remove1_NoDup_nIn. apply W. }
  split; auto. intros o Ho H. apply N. eapply wf_node_attackers; eauto.
Qed.

(* attach_attackers: one new attacker per model attacker; it reaches exactly the existing nodes named *)
Lemma attach_entries_reached g nodes atts a :
  In a atts -> (forall k o, dget seqb (g_name2node g) k = Some o -> In o nodes) ->
  forall names nh ah nh' ah', attach_entries g nh ah a names = (nh', ah') ->
  AttI nodes atts (fun x => n_comp (nh x)) (fun b => a_reached (ah b)) (fun b => a_entry (ah b)) ->
  forall o, In o (a_reached (ah' a)) <->
            (In o (a_reached (ah a)) \/ exists fn, In fn names /\ dget seqb (g_name2node g) fn = Some o).
Proof.
  intros Ha Hidx. induction names as [|fn r IH]; intros nh ah nh' ah' E T o; cbn in E.
  - inversion E; subst. split; auto. intros [H|(fn & [] & _)]; auto.
  - destruct (dget seqb (g_name2node g) fn) as [o1|] eqn:Ei.
    + destruct (compromise nh ah a o1) as [nh1 ah1] eqn:Ec.
      pose proof (Hidx _ _ Ei) as Ho1.
      destruct (compromise_AttI nodes atts _ _ _ _ _ _ Ec Ha Ho1 T) as [T1 In1].
      rewrite (IH _ _ _ _ E T1 o).
      assert (R1 : forall x, In x (a_reached (ah1 a)) <-> In x (a_reached (ah a)) \/ x = o1).
      { intros x. unfold compromise in Ec. destruct (memn a (n_comp (nh o1))) eqn:M; inversion Ec; subst.
        - apply memn_In in M. destruct T as (_ & _ & _ & D & _). apply (D a o1 Ha Ho1) in M.
          split; auto. intros [H| ->]; auto.
        - rewrite upda_same. cbn. apply In_app_single. }
      rewrite R1. split.
      * intros [[H| ->]|(f & Hf & Hd)]; auto.
        -- right. exists fn. split; [left|]; auto.
        -- right. exists f. split; [right|]; auto.
      * intros [H|(f & [<-|Hf] & Hd)]; auto.
        -- left. right. congruence.
        -- right. exists f. auto.
    + rewrite (IH _ _ _ _ E T o). split.
      * intros [H|(f & Hf & Hd)]; auto. right. exists f. split; [right|]; auto.
      * intros [H|(f & [<-|Hf] & Hd)]; auto; [congruence|]. right. exists f. auto.
Qed.

Lemma add_attacker_fresh_shape s a :
  WF s -> a < s_na s -> ~ In a (g_atts (s_g s)) -> a_entry (s_ah s a) = [] -> a_reached (s_ah s a) = [] ->
  exists s', add_attacker s a None [] [] = (s', Ok) /\ g_atts (s_g s') = g_atts (s_g s) ++ [a] /\
             g_nodes (s_g s') = g_nodes (s_g s) /\ g_name2node (s_g s') = g_name2node (s_g s) /\
             s_nh s' = s_nh s /\ a_reached (s_ah s' a) = [] /\ a_name (s_ah s' a) = a_name (s_ah s a) /\
             s_na s' = s_na s.
Proof.
  intros W La Na Ea Ra. unfold add_attacker.
  replace (dhas Z.eqb (g_id2att (s_g s)) (g_next_att (s_g s))) with false.
  2:{ unfold dhas. rewrite Below_fresh; auto. apply W. }
  cbn. eexists. split; [reflexivity|]. cbn. rewrite upda_same. cbn. auto 10.
Qed.

Theorem attach_one_spec s name eps : WF s ->
  let a := s_na s in
  let s' := fst (attach_one s name eps) in
  snd (attach_one s name eps) = Ok /\
  g_atts (s_g s') = g_atts (s_g s) ++ [a] /\ g_nodes (s_g s') = g_nodes (s_g s) /\
  a_name (s_ah s' a) = name /\
  a_entry (s_ah s' a) = a_reached (s_ah s' a) /\
  (forall o, In o (a_reached (s_ah s' a)) <-> exists fn, In fn eps /\ get_node_by_full_name (s_g s) fn = Some o).
Proof.
  intros W a s'. unfold s', attach_one. fold a.
  set (s0 := mkSt _ _ _ _ _).
  assert (W0 : WF s0) by (apply (WF_new_att s name); auto).
  assert (Na : ~ In a (g_atts (s_g s0))).
  { cbn. intros H. destruct (wf_alloc s W) as (_ & _ & _ & A). specialize (A _ H). unfold a in A. lia. }
  destruct (add_attacker_fresh_shape s0 a W0) as (s1 & E1 & G1 & G2 & G3 & G4 & G5 & G6 & G7);
    auto; try (cbn; unfold a; try lia; rewrite upda_same; auto).
  rewrite E1.
  assert (W1 : WF s1).
  { replace s1 with (fst (add_attacker s0 a None [] [])) by (rewrite E1; auto).
    apply WF_add_attacker; auto; cbn; unfold a; try lia; rewrite upda_same; auto. }
  assert (Ha1 : In a (g_atts (s_g s1))) by (rewrite G1; apply In_app_single; auto).
  destruct (attach_entries (s_g s1) (s_nh s1) (s_ah s1) a eps) as [nh2 ah2] eqn:E2.
  assert (Hidx : forall k o, dget seqb (g_name2node (s_g s1)) k = Some o -> In o (g_nodes (s_g s1))).
  { intros k o Hk. apply (wf_idx_name s1 W1) in Hk. tauto. }
  pose proof (attach_entries_reached (s_g s1) _ _ a Ha1 Hidx _ _ _ _ _ E2 (wf_att s1 W1)) as R.
  destruct (attach_entries_spec (s_g s1) _ _ a Ha1 Hidx _ _ _ _ _ E2 (wf_att s1 W1)) as (_ & _ & F2).
  cbn [fst snd s_g s_ah]. split; [reflexivity|]. split; [exact G1|]. split; [exact G2|].
  rewrite upda_same. cbn. split.
  - assert (NM : forall names nh ah nh' ah', attach_entries (s_g s1) nh ah a names = (nh', ah') ->
                 a_name (ah' a) = a_name (ah a)).
    { induction names as [|fn r IH]; intros nh ah nh' ah' E; cbn in E; [inversion E; auto|].
      destruct (dget seqb (g_name2node (s_g s1)) fn); [|eauto].
      destruct (compromise nh ah a n) as [nh1 ah1] eqn:Ec. rewrite (IH _ _ _ _ E).
      unfold compromise in Ec. destruct (memn a (n_comp (nh n))); inversion Ec; subst; auto.
      rewrite upda_same. reflexivity. }
    rewrite (NM _ _ _ _ _ E2), G6. cbn. unfold a. rewrite upda_same. reflexivity.
  - split; [reflexivity|]. intros o. rewrite R, G5, G3. unfold get_node_by_full_name. split.
    + intros [[]|H]; auto.
    + intros H; auto.
Qed.

(* ------------------------------------------------------------------ C13 *)
Theorem prune_spec s : WF s ->
  WF (prune s) /\
  g_nodes (s_g (prune s)) = filter (fun o => negb (prunable (s_nh s o))) (g_nodes (s_g s)) /\
  (forall x, Lab (s_nh (prune s) x) = Lab (s_nh s x)) /\
  (forall o, In o (g_nodes (s_g (prune s))) -> prunable (s_nh (prune s) o) = false).
Proof.
  intros W. destruct (WF_prune s W) as (A & B & L). split; [auto|]. split; [auto|]. split; [auto|].
  intros o Ho. rewrite B in Ho. apply filter_In in Ho. destruct Ho as [_ Ho].
  rewrite (prunable_Lab _ _ (L o)). apply negb_true_iff. exact Ho.
Qed.
