(* GenFresh.v — generation only allocates: started in any state whose graph record is new (empty name index), it leaves
   every node object that existed before untouched and puts only freshly allocated objects into the graph. Hence two
   graphs generated from the same model share no node, and generating one does not disturb the other (C16). *)
From MT Require Import Prelude ListFacts Lang Eval Graph GraphInv Gen GenThm.
From Coq Require Import Arith.

Section Fresh.
Variable L : lang.
Variable M : imodel.
Variable s0 : st.
Let b := s_nn s0.

Record Inv (s : st) : Prop := mkInv {
  iv_nn : b <= s_nn s;
  iv_old : forall o, o < b -> s_nh s o = s_nh s0 o;
  iv_atts : s_ah s = s_ah s0 /\ s_na s = s_na s0;
  iv_nodes : forall o, In o (g_nodes (s_g s)) -> In o (g_nodes (s_g s0)) \/ b <= o;
  iv_names : forall k o, dget seqb (g_name2node (s_g s)) k = Some o -> dget seqb (g_name2node (s_g s0)) k = Some o \/ b <= o }.
Lemma Inv_init : Inv s0.
Proof. constructor; auto. Qed.

Lemma dget_dset_inv (d : list (string * nat)) k v k' o : dget seqb (dset seqb d k v) k' = Some o -> (k' = k /\ o = v) \/ dget seqb d k' = Some o.
Proof.
  intros H. destruct (seqb k' k) eqn:E.
  - apply seqb_spec in E. subst. rewrite (dget_dset_same seqb seqb_spec) in H. inversion H; auto.
  - right. rewrite (dget_dset_other seqb seqb_spec) in H; auto. intros ->. rewrite (keqb_refl seqb seqb_spec) in E. discriminate.
Qed.

Lemma add_step_node_Inv s info a d s' info' :
  Inv s -> (forall x, In x info -> b <= fst (fst x)) ->
  add_step_node L M (GOk (s, info)) a d = GOk (s', info') -> Inv s' /\ (forall x, In x info' -> b <= fst (fst x)).
Proof.
  intros I Hi H. unfold add_step_node in H. cbn [gbind] in H.
  destruct (node_for L M a d) as [n|e]; [|discriminate]. cbn [gbind] in H.
  destruct (add_node (new_node s n) (s_nn s) None) as [s2 oc] eqn:Ea. inversion H; subst s' info'. clear H.
  pose proof (iv_nn s I) as Hnn. split.
  - unfold add_node in Ea. cbn [new_node s_g s_nh s_nn s_ah s_na] in Ea.
    match type of Ea with (if ?c then _ else _) = _ => destruct c end.
    + inversion Ea; subst. constructor; cbn; try apply I; try lia.
      * intros o Ho. rewrite updn_other by lia. apply (iv_old s I); auto.
    + inversion Ea; subst. constructor; cbn; try apply I; try lia.
      * intros o Ho. rewrite !updn_other by lia. apply (iv_old s I); auto.
      * intros o Ho. apply In_app_single in Ho. destruct Ho as [Ho| ->]; [apply (iv_nodes s I); auto|right; auto].
      * intros k o Hk. apply dget_dset_inv in Hk. destruct Hk as [[_ ->]|Hk]; [right; auto|apply (iv_names s I); auto].
  - intros x Hx. apply In_app_single in Hx. destruct Hx as [Hx| ->]; auto.
Qed.

Lemma fold_steps_Inv a : forall (steps : list (string * stepdecl)) s info s' info',
  Inv s -> (forall x, In x info -> b <= fst (fst x)) ->
  fold_left (fun acc kv => add_step_node L M acc a (snd kv)) steps (GOk (s, info)) = GOk (s', info') ->
  Inv s' /\ (forall x, In x info' -> b <= fst (fst x)).
Proof.
  induction steps as [|kv r IH]; intros s info s' info' I Hi H; cbn [fold_left] in H; [inversion H; subst; auto|].
  destruct (add_step_node L M (GOk (s, info)) a (snd kv)) as [[s1 info1]|e] eqn:E1; [|rewrite fold_steps_err in H; discriminate].
  destruct (add_step_node_Inv _ _ _ _ _ _ I Hi E1) as [I1 H1]. eapply IH; eauto.
Qed.
Lemma fold_assets_Inv : forall assets s info s' info',
  Inv s -> (forall x, In x info -> b <= fst (fst x)) ->
  fold_left (add_asset_nodes L M) assets (GOk (s, info)) = GOk (s', info') ->
  Inv s' /\ (forall x, In x info' -> b <= fst (fst x)).
Proof.
  induction assets as [|a r IH]; intros s info s' info' I Hi H; cbn [fold_left] in H; [inversion H; subst; auto|].
  rewrite add_asset_nodes_ok in H. destruct (steps_of L (ia_type a)) as [steps|]; [|rewrite fold_assets_err in H; discriminate].
  destruct (fold_left (fun acc kv => add_step_node L M acc a (snd kv)) steps (GOk (s, info))) as [[s1 info1]|e] eqn:E1;
    [|rewrite fold_assets_err in H; discriminate].
  destruct (fold_steps_Inv a _ _ _ _ _ I Hi E1) as [I1 H1]. eapply IH; eauto.
Qed.

(* second loop *)
Hypothesis new_graph : g_name2node (s_g s0) = [].
Lemma link_Inv s p c : Inv s -> b <= p -> b <= c -> Inv (link s p c).
Proof.
  intros I Hp Hc. constructor; cbn; try apply I.
  intros o Ho. rewrite !updn_other by lia. apply (iv_old s I); auto.
Qed.
Lemma link_targets_Inv o t : forall ys s s', Inv s -> b <= o -> link_targets M s o t ys = GOk s' -> Inv s'.
Proof.
  unfold link_targets.
  assert (ERR : forall ys e, fold_left (fun acc y => gbind acc (fun s =>
     match find_iasset M y, t with
     | Some ya, Some t0 => match get_node_by_full_name (s_g s) (ia_name ya ++ ":" ++ t0) with Some c => GOk (link s o c) | None => GErr GNoTarget end
     | _, _ => GErr GBadSpec end)) ys (GErr e) = GErr e) by (induction ys; cbn; auto).
  induction ys as [|y r IH]; intros s s' I Ho H; cbn [fold_left] in H; [inversion H; subst; auto|].
  cbn [gbind] in H. destruct (find_iasset M y) as [ya|]; [|rewrite ERR in H; discriminate].
  destruct t as [t0|]; [|rewrite ERR in H; discriminate].
  destruct (get_node_by_full_name (s_g s) (ia_name ya ++ ":" ++ t0)) as [c|] eqn:Ec; [|rewrite ERR in H; discriminate].
  apply (IH (link s o c)); auto. apply link_Inv; auto.
  unfold get_node_by_full_name in Ec. destruct (iv_names s I _ _ Ec) as [Old|New]; auto.
  rewrite new_graph in Old. discriminate.
Qed.
Lemma link_node_Inv x s s' : Inv s -> b <= fst (fst x) -> link_node L M (GOk s) x = GOk s' -> Inv s'.
Proof.
  destruct x as [[o a] d]. cbn [fst]. intros I Ho H. unfold link_node in H. destruct (sd_reaches d) as [[ov es]|]; [|inversion H; subst; auto].
  assert (ERR : forall es e, fold_left (fun acc e0 => gbind acc (fun s => gbind (eval L M e0 (ia_id a)) (fun targets => link_targets M s o (last_step e0) targets))) es (GErr e) = GErr e)
    by (induction es0; cbn; auto).
  revert s I H. induction es as [|e r IH]; intros s I H; cbn [fold_left] in H; [inversion H; subst; auto|].
  cbn [gbind] in H. destruct (eval L M e (ia_id a)) as [targets|err]; [|cbn [gbind] in H; rewrite ERR in H; discriminate].
  cbn [gbind] in H. destruct (link_targets M s o (last_step e) targets) as [s1|err] eqn:E1; [|rewrite ERR in H; discriminate].
  apply (IH s1); auto. eapply link_targets_Inv; eauto.
Qed.
Lemma fold_link_Inv : forall info s s', Inv s -> (forall x, In x info -> b <= fst (fst x)) ->
  fold_left (link_node L M) info (GOk s) = GOk s' -> Inv s'.
Proof.
  induction info as [|x r IH]; intros s s' I Hi H; cbn [fold_left] in H; [inversion H; subst; auto|].
  destruct (link_node L M (GOk s) x) as [s1|e] eqn:E1; [|rewrite fold_link_err in H; discriminate].
  apply (IH s1); auto; [|intros y Hy; apply Hi; right; auto]. eapply link_node_Inv; eauto. apply Hi. left; auto.
Qed.

Theorem generate_from_fresh s : generate_from L M s0 = GOk s ->
  (forall o, o < s_nn s0 -> s_nh s o = s_nh s0 o) /\
  (forall o, In o (g_nodes (s_g s)) -> In o (g_nodes (s_g s0)) \/ s_nn s0 <= o) /\
  s_ah s = s_ah s0 /\ s_nn s0 <= s_nn s.
Proof.
  unfold generate_from. intros H.
  destruct (fold_left (add_asset_nodes L M) (im_assets M) (GOk (s0, []))) as [[s1 info]|e] eqn:E1; [|discriminate].
  cbn [gbind] in H. destruct (fold_assets_Inv _ _ _ _ _ Inv_init (fun x (Hx : In x []) => match Hx with end) E1) as [I1 H1].
  pose proof (fold_link_Inv _ _ _ I1 H1 H) as I. split; [apply (iv_old s I)|]. split; [apply (iv_nodes s I)|]. split; [apply I|apply I].
Qed.
End Fresh.

(* two graphs from the same model, the second generated while the first exists: no node in common, first untouched *)
Definition fresh_graph (s : st) : st := mkSt (s_nh s) (s_ah s) (s_nn s) (s_na s) empty_graph.
Theorem two_graphs_disjoint L M s1 s2 :
  generate L M = GOk s1 -> generate_from L M (fresh_graph s1) = GOk s2 ->
  (forall o, In o (g_nodes (s_g s1)) -> ~ In o (g_nodes (s_g s2))) /\ (forall o, o < s_nn s1 -> s_nh s2 o = s_nh s1 o).
Proof.
  intros H1 H2. destruct (generate_from_fresh L M (fresh_graph s1) eq_refl s2 H2) as (Old & Nodes & _ & _).
  destruct (generate_spec L M s1 H1) as (info & _ & Hn & Hnn & _). cbn [fresh_graph s_nn s_g g_nodes empty_graph] in *.
  split; [|exact Old]. intros o Ho Ho2. destruct (Nodes o Ho2) as [[]|Hge].
  rewrite Hn in Ho. apply in_seq in Ho. lia.
Qed.
