(* ModelIO.v — Model._to_dict / the reading part of Model._from_dict as functions between the content of a model
   and a JSON-like value tree whose integer keys have been turned into decimal strings (what json.dump / json.load
   do; for YAML int() of an integer key is the identity, which is the same content). (C07) *)
From MT Require Import Prelude Codec.

Record casset := mkCA { ca_id : Z; ca_name : string; ca_type : string;
                        ca_defs : list (string * Z);      (* non-default defenses, value * 1024 *)
                        ca_extras : list (string * jv) }. (* [] = no extras *)
Record cassoc := mkCC { cc_class : string; cc_lfield : string; cc_left : list Z; cc_rfield : string; cc_right : list Z;
                        cc_extras : list (string * jv) }.
Record cattacker := mkCT { ct_id : Z; ct_name : string; ct_entry : list (Z * list string) }.
Record content := mkC { c_name : string; c_assets : list casset; c_assocs : list cassoc; c_attackers : list cattacker }.

(* ---- _to_dict ---- *)
Definition enc_asset (a : casset) : string * jv :=
  (string_of_Z (ca_id a),
   JDict ([("name", JStr (ca_name a)); ("type", JStr (ca_type a))]
          ++ (match ca_defs a with [] => [] | d => [("defenses", JDict (map (fun kv => (fst kv, JFlt (snd kv))) d))] end)
          ++ (match ca_extras a with [] => [] | e => [("extras", JDict e)] end))).
Definition enc_assoc (c : cassoc) : jv :=
  JDict ([(cc_class c, JDict [(cc_lfield c, JList (map JInt (cc_left c))); (cc_rfield c, JList (map JInt (cc_right c)))])]
         ++ (match cc_extras c with [] => [] | e => [("extras", JDict e)] end)).
Definition enc_attacker (t : cattacker) : string * jv :=
  (string_of_Z (ct_id t),
   JDict [("name", JStr (ct_name t));
          ("entry_points", JDict (map (fun e => (string_of_Z (fst e), JDict [("attack_steps", jstrs (snd e))])) (ct_entry t)))]).
Definition encode (c : content) : jv :=
  JDict [("metadata", JDict [("name", JStr (c_name c))]);
         ("assets", JDict (map enc_asset (c_assets c)));
         ("associations", JList (map enc_assoc (c_assocs c)));
         ("attackers", JDict (map enc_attacker (c_attackers c)))].

(* ---- reading ---- *)
Fixpoint omap {A B} (f : A -> option B) (l : list A) : option (list B) :=
  match l with
  | [] => Some []
  | a :: r => match f a, omap f r with Some b, Some r' => Some (b :: r') | _, _ => None end
  end.

Definition dec_defs (v : option jv) : option (list (string * Z)) :=
  match v with
  | None => Some []
  | Some (JDict d) => omap (fun kv => match snd kv with JFlt z => Some (fst kv, z) | JInt z => Some (fst kv, (z * 1024)%Z) | _ => None end) d
  | Some _ => None
  end.
Definition dec_extras (v : option jv) : option (list (string * jv)) :=
  match v with None => Some [] | Some (JDict d) => Some d | Some _ => None end.

Definition dec_asset (kv : string * jv) : option casset :=
  match Z_of_string (fst kv) with
  | None => None
  | Some i =>
    match snd kv with
    | JStr t => Some (mkCA i (t ++ ":" ++ fst kv) t [] [])            (* type-only shorthand *)
    | JDict d =>
      match dget seqb d "name", dget seqb d "type", dec_defs (dget seqb d "defenses"), dec_extras (dget seqb d "extras") with
      | Some (JStr n), Some (JStr t), Some defs, Some ex => Some (mkCA i n t defs ex)
      | _, _, _, _ => None
      end
    | _ => None
    end
  end.

Definition dec_ids (v : jv) : option (list Z) :=
  match v with
  | JList l => omap (fun x => match x with JInt z => Some z | JStr s => Z_of_string s | _ => None end) l
  | JInt z => Some [z]                                                 (* a single target instead of a list *)
  | _ => None
  end.
Definition dec_assoc (v : jv) : option cassoc :=
  match v with
  | JDict d =>
    match find (fun kv => negb (seqb (fst kv) "extras")) d with
    | Some (cls, JDict [(lf, l); (rf, r)]) =>
        match dec_ids l, dec_ids r, dec_extras (dget seqb d "extras") with
        | Some li, Some ri, Some ex => Some (mkCC cls lf li rf ri ex)
        | _, _, _ => None
        end
    | _ => None
    end
  | _ => None
  end.
Definition dec_entry (kv : string * jv) : option (Z * list string) :=
  match Z_of_string (fst kv), snd kv with
  | Some i, JDict d =>
    match dget seqb d "attack_steps" with
    | Some (JList l) => match omap (fun x => match x with JStr s => Some s | _ => None end) l with
                        | Some st => Some (i, st) | None => None end
    | _ => None
    end
  | _, _ => None
  end.
Definition dec_attacker (kv : string * jv) : option cattacker :=
  match Z_of_string (fst kv), snd kv with
  | Some i, JDict d =>
    match dget seqb d "name", dget seqb d "entry_points" with
    | Some (JStr n), Some (JDict eps) => match omap dec_entry eps with Some e => Some (mkCT i n e) | None => None end
    | _, _ => None
    end
  | _, _ => None
  end.
Definition decode (v : jv) : option content :=
  match jget v "metadata", jget v "assets" with
  | Some (JDict md), Some (JDict assets) =>
    match dget seqb md "name", omap dec_asset assets,
          (match jget v "associations" with Some (JList l) => omap dec_assoc l | None => Some [] | _ => None end),
          (match jget v "attackers" with Some (JDict l) => omap dec_attacker l | None => Some [] | _ => None end) with
    | Some (JStr n), Some a, Some c, Some t => Some (mkC n a c t)
    | _, _, _, _ => None
    end
  | _, _ => None
  end.

(* well-formedness of a content: what the toolbox itself produces *)
Definition wf_assoc (c : cassoc) : bool := negb (seqb (cc_class c) "extras").
Definition wf_content (c : content) : bool := forallb wf_assoc (c_assocs c).

(* ---- round trip ---- *)
Lemma omap_map {A B} (f : B -> option A) (g : A -> B) (l : list A) :
  (forall x, In x l -> f (g x) = Some x) -> omap f (map g l) = Some l.
Proof.
  induction l as [|a r IH]; intros H; cbn; auto. rewrite (H a) by (left; auto). rewrite IH; auto. intros x Hx. apply H. right; auto.
Qed.

Lemma dec_enc_asset a : dec_asset (enc_asset a) = Some a.
Proof.
  unfold dec_asset, enc_asset. cbn [fst snd]. rewrite Z_of_string_of_Z.
  destruct a as [i n t defs ex]. cbn [ca_id ca_name ca_type ca_defs ca_extras].
  assert (G : forall l : list (string * Z),
     omap (fun kv : string * jv => match snd kv with JFlt z => Some (fst kv, z) | JInt z => Some (fst kv, (z * 1024)%Z) | _ => None end)
          (map (fun kv => (fst kv, JFlt (snd kv))) l) = Some l).
  { intros l. apply omap_map. intros [k v] _. reflexivity. }
  destruct defs as [|d0 dr], ex as [|e0 er]; cbn [app dget seqb String.eqb Ascii.eqb Bool.eqb dec_defs dec_extras];
    rewrite ?G; reflexivity.
Qed.

Lemma dec_enc_assoc c : wf_assoc c = true -> dec_assoc (enc_assoc c) = Some c.
Proof.
  intros W. unfold wf_assoc in W. destruct c as [cls lf l rf r ex]. cbn in W. unfold dec_assoc, enc_assoc.
  cbn [cc_class cc_lfield cc_left cc_rfield cc_right cc_extras].
  assert (I : forall ids, dec_ids (JList (map JInt ids)) = Some ids).
  { intros ids. unfold dec_ids. apply omap_map. intros x _. reflexivity. }
  assert (W' : seqb "extras" cls = false).
  { apply negb_true_iff in W. unfold seqb in *. rewrite String.eqb_sym. exact W. }
  destruct ex as [|e0 er]; cbn [app find fst dget]; rewrite W; rewrite !I; rewrite ?W'; reflexivity.
Qed.

Lemma dec_enc_attacker t : dec_attacker (enc_attacker t) = Some t.
Proof.
  destruct t as [i n e]. unfold dec_attacker, enc_attacker. cbn [fst snd ct_id ct_name ct_entry]. rewrite Z_of_string_of_Z.
  replace (dget seqb _ "name") with (Some (JStr n)) by reflexivity.
  replace (dget seqb [("name", JStr n); ("entry_points", _)] "entry_points")
    with (Some (JDict (map (fun e0 : Z * list string => (string_of_Z (fst e0), JDict [("attack_steps", jstrs (snd e0))])) e))) by reflexivity.
  rewrite omap_map; auto. intros [a st] _. unfold dec_entry. cbn [fst snd]. rewrite Z_of_string_of_Z.
  replace (dget seqb _ "attack_steps") with (Some (jstrs st)) by reflexivity. unfold jstrs.
  rewrite omap_map; auto.
Qed.

Theorem decode_encode c : wf_content c = true -> decode (encode c) = Some c.
Proof.
  intros W. destruct c as [n a cs t]. unfold wf_content in W. cbn in W. unfold decode, encode. cbn [c_name c_assets c_assocs c_attackers].
  unfold jget. replace (dget seqb _ "metadata") with (Some (JDict [("name", JStr n)])) by reflexivity.
  replace (dget seqb _ "assets") with (Some (JDict (map enc_asset a))) by reflexivity.
  replace (dget seqb _ "associations") with (Some (JList (map enc_assoc cs))) by reflexivity.
  replace (dget seqb _ "attackers") with (Some (JDict (map enc_attacker t))) by reflexivity.
  replace (dget seqb [("name", JStr n)] "name") with (Some (JStr n)) by reflexivity.
  rewrite (omap_map dec_asset enc_asset) by (intros; apply dec_enc_asset).
  rewrite (omap_map dec_assoc enc_assoc) by (intros x Hx; apply dec_enc_assoc; rewrite forallb_forall in W; auto).
  rewrite (omap_map dec_attacker enc_attacker) by (intros; apply dec_enc_attacker). reflexivity.
Qed.

(* saving what was loaded reproduces the same document *)
Theorem resave_stable c : wf_content c = true -> option_map encode (decode (encode c)) = Some (encode c).
Proof. intros W. rewrite decode_encode; auto. Qed.

(* a hand-written entry "id: Type" (type-only shorthand) denotes the asset named "Type:id"; id 0 and negative ids included *)
Theorem shorthand_entry i t : dec_asset (string_of_Z i, JStr t) = Some (mkCA i (t ++ ":" ++ string_of_Z i) t [] []).
Proof. unfold dec_asset. cbn [fst snd]. rewrite Z_of_string_of_Z. reflexivity. Qed.

(* the order of the asset entries in the file is the order of the assets read, whatever it is: any list of
   entries that are individually readable (shorthand or full, any ids) gives the assets they denote, in file order *)
Theorem decode_assets_any_order n entries cs ts assets :
  forallb wf_assoc cs = true -> omap dec_asset entries = Some assets ->
  decode (JDict [("metadata", JDict [("name", JStr n)]); ("assets", JDict entries);
                 ("associations", JList (map enc_assoc cs)); ("attackers", JDict (map enc_attacker ts))])
  = Some (mkC n assets cs ts).
Proof.
  intros W H. unfold decode, jget.
  replace (dget seqb _ "metadata") with (Some (JDict [("name", JStr n)])) by reflexivity.
  replace (dget seqb _ "assets") with (Some (JDict entries)) by reflexivity.
  replace (dget seqb _ "associations") with (Some (JList (map enc_assoc cs))) by reflexivity.
  replace (dget seqb _ "attackers") with (Some (JDict (map enc_attacker ts))) by reflexivity.
  replace (dget seqb [("name", JStr n)] "name") with (Some (JStr n)) by reflexivity.
  rewrite H.
  rewrite (omap_map dec_assoc enc_assoc) by (intros x Hx; apply dec_enc_assoc; rewrite forallb_forall in W; auto).
  rewrite (omap_map dec_attacker enc_attacker) by (intros; apply dec_enc_attacker). reflexivity.
Qed.

(* correspondence check: the content extracted from the implementation's model encodes to the document the
   implementation wrote, and the document reads back to a content that re-encodes to the same document *)
Definition io_check (c : content * jv) : bool :=
  jv_eqb (jv_sort (encode (fst c))) (jv_sort (snd c)) &&
  match decode (snd c) with Some c' => jv_eqb (jv_sort (encode c')) (jv_sort (snd c)) | None => false end.
