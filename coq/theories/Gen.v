(* Gen.v — AttackGraph._generate_graph as coded: one node per (asset, resolved step), then the links obtained by
   evaluating every reaches expression from the node's asset. Built from the primitives of Graph.v. *)
From MT Require Import Prelude Lang Eval Graph.

Inductive gerr := GFuel | GLookup | GNonUniform | GNoTarget | GBadSpec.
Inductive gres (A : Type) := GOk (a : A) | GErr (e : gerr).
Arguments GOk {A} a. Arguments GErr {A} e.
Definition gbind {A B} (r : gres A) (k : A -> gres B) : gres B := match r with GOk a => k a | GErr e => GErr e end.
Definition of_eres (r : eres) : gres (list Z) :=
  match r with EOk l => GOk l | EFail => GErr GLookup | ENonUniform => GErr GNonUniform | EFuel => GErr GFuel end.

Section Gen.
Variable L : lang.
Variable M : imodel.

Definition eval (e : sexpr) (x : Z) : gres (list Z) := of_eres (ev L M (ev_fuel L) e [x]).

(* the step name an expression ends in; a variable never names a step (its body is a navigation) *)
Definition last_step (e : sexpr) : option string := last_step1 (fun _ => None) e.

Definition mitre_of (meta : jv) : option string :=
  match jget meta "mitre" with Some (JStr s) => Some s | _ => None end.

Definition node_for (a : iasset) (d : stepdecl) : gres node :=
  let defense := if seqb (sd_type d) "defense" then dget seqb (ia_defs a) (sd_name d) else None in
  gbind (if seqb (sd_type d) "exist" || seqb (sd_type d) "notExist" then
           match sd_requires d with
           | Some (e :: _) => gbind (eval e (ia_id a)) (fun l => GOk (Some (match l with [] => false | _ => true end)))
           | _ => GErr GBadSpec
           end
         else GOk None)
        (fun exist =>
           if seqb (sd_type d) "defense" && match defense with None => true | _ => false end then GErr GBadSpec else
           GOk (mkNode (sd_type d) (sd_name d) None (Some (ia_name a)) [] [] [] defense exist true true
                       (mitre_of (sd_meta d)) (sd_ttc d) (sd_tags d) (JDict []))).

(* first loop: nodes. Returns the state and, per node handle, the asset and the resolved step it came from *)
Definition add_step_node (acc : gres (st * list (nat * iasset * stepdecl))) (a : iasset) (d : stepdecl)
  : gres (st * list (nat * iasset * stepdecl)) :=
  gbind acc (fun '(s, info) =>
  gbind (node_for a d) (fun n =>
    let o := s_nn s in
    let s1 := new_node s n in
    let '(s2, _) := add_node s1 o None in
    GOk (s2, info ++ [(o, a, d)]))).
Definition add_asset_nodes (acc : gres (st * list (nat * iasset * stepdecl))) (a : iasset)
  : gres (st * list (nat * iasset * stepdecl)) :=
  gbind acc (fun p =>
  match steps_of L (ia_type a) with
  | None => GErr GFuel
  | Some steps => fold_left (fun acc kv => add_step_node acc a (snd kv)) steps (GOk p)
  end).

(* second loop: links *)
Definition link_targets (s : st) (o : nat) (stepname : option string) (targets : list Z) : gres st :=
  fold_left (fun acc y => gbind acc (fun s =>
     match find_iasset M y, stepname with
     | Some ya, Some t =>
         match get_node_by_full_name (s_g s) (ia_name ya ++ ":" ++ t) with
         | Some c => GOk (link s o c)
         | None => GErr GNoTarget
         end
     | _, _ => GErr GBadSpec
     end)) targets (GOk s).
Definition link_node (acc : gres st) (x : nat * iasset * stepdecl) : gres st :=
  let '(o, a, d) := x in
  match sd_reaches d with
  | None => acc
  | Some (_, es) =>
      fold_left (fun acc e => gbind acc (fun s =>
                   gbind (eval e (ia_id a)) (fun targets => link_targets s o (last_step e) targets))) es acc
  end.

Definition generate_from (s0 : st) : gres st :=
  gbind (fold_left add_asset_nodes (im_assets M) (GOk (s0, []))) (fun '(s1, info) =>
  fold_left link_node info (GOk s1)).
Definition generate : gres st := generate_from init.
End Gen.
