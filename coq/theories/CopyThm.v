(* CopyThm.v — AttackGraph.__deepcopy__: the copy is an isomorphic image made of fresh objects (C14). *)
From MT Require Import Prelude ListFacts Graph Apriori GraphAn GraphOps GraphInv GraphThm.
From Coq Require Import Arith.

Definition mnode (s : st) (o : nat) : nat := s_nn s + index_of o (g_nodes (s_g s)).
Definition matt (s : st) (a : nat) : nat := s_na s + index_of a (g_atts (s_g s)).

(* renaming of a node / attacker record along the copy maps *)
Definition ren_node (s : st) (n : node) : node :=
  mkNode (n_type n) (n_name n) (n_id n) (n_asset n) (map (mnode s) (n_children n)) (map (mnode s) (n_parents n))
         (map (matt s) (n_comp n)) (n_def n) (n_exist n) (n_viable n) (n_necessary n) (n_mitre n)
         (n_ttc n) (n_tags n) (n_extras n).
Definition ren_att (s : st) (x : attacker) : attacker :=
  mkAtt (a_name x) (a_id x) (map (mnode s) (a_entry x)) (map (mnode s) (a_reached x)).

Lemma copy_node s o : In o (g_nodes (s_g s)) -> s_nh (deepcopy s) (mnode s o) = ren_node s (s_nh s o).
Proof.
  intros Ho. pose proof (index_of_lt o _ Ho) as L. unfold mnode.
  assert (C1 : Nat.leb (s_nn s) (s_nn s + index_of o (g_nodes (s_g s))) = true) by (apply Nat.leb_le; lia).
  assert (C2 : Nat.ltb (s_nn s + index_of o (g_nodes (s_g s))) (s_nn s + List.length (g_nodes (s_g s))) = true) by (apply Nat.ltb_lt; lia).
  unfold deepcopy. cbn [s_nh]. rewrite C1, C2. cbn [andb].
  replace (s_nn s + index_of o (g_nodes (s_g s)) - s_nn s) with (index_of o (g_nodes (s_g s))) by lia.
  rewrite nth_index_of by auto. reflexivity.
Qed.
Lemma copy_att s a : In a (g_atts (s_g s)) -> s_ah (deepcopy s) (matt s a) = ren_att s (s_ah s a).
Proof.
  intros Ha. pose proof (index_of_lt a _ Ha) as L. unfold matt.
  assert (C1 : Nat.leb (s_na s) (s_na s + index_of a (g_atts (s_g s))) = true) by (apply Nat.leb_le; lia).
  assert (C2 : Nat.ltb (s_na s + index_of a (g_atts (s_g s))) (s_na s + List.length (g_atts (s_g s))) = true) by (apply Nat.ltb_lt; lia).
  unfold deepcopy. cbn [s_ah]. rewrite C1, C2. cbn [andb].
  replace (s_na s + index_of a (g_atts (s_g s)) - s_na s) with (index_of a (g_atts (s_g s))) by lia.
  rewrite nth_index_of by auto. reflexivity.
Qed.

Lemma copy_graph s :
  g_nodes (s_g (deepcopy s)) = map (mnode s) (g_nodes (s_g s)) /\
  g_atts (s_g (deepcopy s)) = map (matt s) (g_atts (s_g s)) /\
  (forall i, get_node_by_id (s_g (deepcopy s)) i = option_map (mnode s) (get_node_by_id (s_g s) i)) /\
  (forall fn, get_node_by_full_name (s_g (deepcopy s)) fn = option_map (mnode s) (get_node_by_full_name (s_g s) fn)) /\
  (forall i, get_attacker_by_id (s_g (deepcopy s)) i = option_map (matt s) (get_attacker_by_id (s_g s) i)) /\
  g_next_node (s_g (deepcopy s)) = g_next_node (s_g s) /\ g_next_att (s_g (deepcopy s)) = g_next_att (s_g s).
Proof.
  split; [reflexivity|]. split; [reflexivity|]. split; [|split; [|split; [|split; reflexivity]]].
  - intros i. apply (dget_map_vals Z.eqb (mnode s)).
  - intros fn. apply (dget_map_vals seqb (mnode s)).
  - intros i. apply (dget_map_vals Z.eqb (matt s)).
Qed.

(* every object of the copy is freshly allocated; every object that existed before is untouched *)
Lemma copy_fresh s :
  (forall o, In o (g_nodes (s_g (deepcopy s))) -> s_nn s <= o < s_nn (deepcopy s)) /\
  (forall a, In a (g_atts (s_g (deepcopy s))) -> s_na s <= a < s_na (deepcopy s)).
Proof.
  split.
  - intros o Ho. cbn in Ho. apply in_map_iff in Ho. destruct Ho as (x & <- & Hx).
    pose proof (index_of_lt x _ Hx). cbn. lia.
  - intros a Ha. cbn in Ha. apply in_map_iff in Ha. destruct Ha as (x & <- & Hx).
    pose proof (index_of_lt x _ Hx). cbn. lia.
Qed.
Lemma copy_untouched s :
  (forall x, x < s_nn s -> s_nh (deepcopy s) x = s_nh s x) /\
  (forall x, x < s_na s -> s_ah (deepcopy s) x = s_ah s x).
Proof.
  split; intros x Hx; unfold deepcopy; cbn [s_nh s_ah].
  - replace (Nat.leb (s_nn s) x) with false by (symmetry; apply Nat.leb_gt; lia). reflexivity.
  - replace (Nat.leb (s_na s) x) with false by (symmetry; apply Nat.leb_gt; lia). reflexivity.
Qed.

(* the copy shares no node and no attacker with the original *)
Theorem copy_disjoint s : WF s ->
  (forall o, In o (g_nodes (s_g s)) -> ~ In o (g_nodes (s_g (deepcopy s)))) /\
  (forall a, In a (g_atts (s_g s)) -> ~ In a (g_atts (s_g (deepcopy s)))).
Proof.
  intros W. destruct (wf_alloc s W) as (_ & _ & A1 & A2). destruct (copy_fresh s) as [F1 F2]. split.
  - intros o Ho H. specialize (A1 o Ho). specialize (F1 o H). lia.
  - intros a Ha H. specialize (A2 a Ha). specialize (F2 a H). lia.
Qed.

(* every reference held by the copy stays inside the copy *)
Theorem copy_closed s : WF s ->
  let s' := deepcopy s in
  (forall o x, In o (g_nodes (s_g s')) ->
     (In x (n_children (s_nh s' o)) \/ In x (n_parents (s_nh s' o))) -> In x (g_nodes (s_g s'))) /\
  (forall o a, In o (g_nodes (s_g s')) -> In a (n_comp (s_nh s' o)) -> In a (g_atts (s_g s'))) /\
  (forall a o, In a (g_atts (s_g s')) -> (In o (a_entry (s_ah s' a)) \/ In o (a_reached (s_ah s' a))) -> In o (g_nodes (s_g s'))) /\
  (forall i o, get_node_by_id (s_g s') i = Some o -> In o (g_nodes (s_g s'))) /\
  (forall fn o, get_node_by_full_name (s_g s') fn = Some o -> In o (g_nodes (s_g s'))) /\
  (forall i a, get_attacker_by_id (s_g s') i = Some a -> In a (g_atts (s_g s'))).
Proof.
  intros W s'. pose proof (WF_deepcopy s W) as W'. fold s' in W'.
  split; [|split; [|split; [|split; [|split]]]].
  - intros o x Ho [H|H].
    + eapply wf_children_closed; eauto.
    + eapply wf_parents_closed; eauto.
  - apply wf_node_attackers; auto.
  - apply wf_attacker_refs; auto.
  - intros i o H. apply (wf_lookup_id s' W') in H. tauto.
  - intros fn o H. apply (wf_lookup_name s' W') in H. tauto.
  - intros i a H. apply (wf_lookup_att s' W') in H. tauto.
Qed.
