(* Codec.v — decimal printing / parsing of integer keys (Python str(int) / int(str)), as JSON turns them. *)
From MT Require Import Prelude.
From Coq Require Import DecimalString DecimalZ DecimalPos Decimal.

Definition Z_of_string (s : string) : option Z := option_map Z.of_int (NilZero.int_of_string s).

Lemma Z_of_string_of_Z z : Z_of_string (string_of_Z z) = Some z.
Proof.
  unfold Z_of_string, string_of_Z. rewrite NilZero.isi.
  - cbn. f_equal. apply DecimalZ.of_to.
  - destruct z; cbn; try discriminate. intros H. inversion H as [E]. revert E. apply Unsigned.to_uint_nonnil.
  - destruct z; cbn; try discriminate. intros H. inversion H as [E]. revert E. apply Unsigned.to_uint_nonnil.
Qed.
Lemma string_of_Z_inj a b : string_of_Z a = string_of_Z b -> a = b.
Proof. intros H. assert (E : Z_of_string (string_of_Z a) = Z_of_string (string_of_Z b)) by congruence. rewrite !Z_of_string_of_Z in E. congruence. Qed.
