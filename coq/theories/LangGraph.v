(* LangGraph.v — LanguageGraph._generate_graph as coded (maltoolbox/language/languagegraph.py, after the fix:
   commits): asset nodes with super / sub links, association nodes (deduplicated, pushed down to sub-assets),
   per-asset attack steps, static typing of step expressions (process_step_expression) and the step-to-step
   links; the association lookup by field names and asset types. *)
From MT Require Import Prelude Lang.

Inductive lgerr := LSuperNotFound | LAssocEnd | LStepExpr | LException | LFuel.
Inductive lres (A : Type) := LOk (a : A) | LErr (e : lgerr).
Arguments LOk {A} a. Arguments LErr {A} e.
Definition lbind {A B} (r : lres A) (k : A -> lres B) : lres B := match r with LOk a => k a | LErr e => LErr e end.

Section LG.
Variable L : lang.

Definition asset_names : list string := map ad_name (l_assets L).
Definition has_asset (t : string) : bool := existsb (seqb t) asset_names.
Definition sub_assets (t : string) : list string :=
  map ad_name (filter (fun a => match ad_super a with Some s => seqb s t | None => false end) (l_assets L)).
Definition super_assets (t : string) : list string :=
  match find_asset L t with Some a => match ad_super a with Some s => [s] | None => [] end | None => [] end.

(* _get_associations_for_asset_type: the ancestors' associations first, then those with this type at an end *)
Fixpoint assocs_for (fuel : nat) (t : string) : list assocdecl :=
  match fuel with
  | O => []
  | S f =>
    match find_asset L t with
    | None => []
    | Some a =>
      (match ad_super a with Some s => assocs_for f s | None => [] end) ++
      filter (fun c => seqb (ac_lasset c) t || seqb (ac_rasset c) t) (l_assocs L)
    end
  end.

Definition assoc_same (a b : assocdecl) : bool :=
  seqb (ac_name a) (ac_name b) && seqb (ac_lasset a) (ac_lasset b) && seqb (ac_rasset a) (ac_rasset b) &&
  seqb (ac_lfield a) (ac_lfield b) && seqb (ac_rfield a) (ac_rfield b).

(* the association nodes in creation order; an unknown end raises *)
Definition add_assoc (acc : lres (list assocdecl)) (c : assocdecl) : lres (list assocdecl) :=
  lbind acc (fun created =>
    if negb (has_asset (ac_lasset c)) || negb (has_asset (ac_rasset c)) then LErr LAssocEnd
    else if existsb (assoc_same c) created then LOk created else LOk (created ++ [c])).
Definition lg_assocs : lres (list assocdecl) :=
  fold_left (fun acc t => fold_left add_assoc (assocs_for (lang_fuel L) t) acc) asset_names (LOk []).

(* every super asset must exist *)
Definition supers_ok : bool :=
  forallb (fun a => match ad_super a with Some s => has_asset s | None => true end) (l_assets L).

(* asset.associations: the association nodes in which the asset or an ancestor takes part *)
Definition takes_part (t : string) (c : assocdecl) : bool :=
  is_subasset_of L t (ac_lasset c) || is_subasset_of L t (ac_rasset c).
Definition asset_assocs (created : list assocdecl) (t : string) : list assocdecl := filter (takes_part t) created.

(* lowest common ancestor used for unions *)
Fixpoint lca_up (fuel : nat) (t u : string) : option string :=
  match fuel with
  | O => None
  | S f => if is_subasset_of L u t then Some t
           else match super_assets t with s :: _ => lca_up f s u | [] => None end
  end.
Definition common_super (t u : string) : bool :=
  existsb (fun x => existsb (seqb x) (ancestors_or_self L u)) (ancestors_or_self L t).

(* process_step_expression: (target asset, attack step name); None = (None, None, None) *)
Section Typing.
Variable created : list assocdecl.
Definition field_target (t f : string) : option string :=
  (fix go (l : list assocdecl) : option string :=
     match l with
     | [] => None
     | c :: r =>
       let t1 := if seqb (ac_lfield c) f && is_subasset_of L t (ac_rasset c) then Some (ac_lasset c) else None in
       let t2 := if seqb (ac_rfield c) f && is_subasset_of L t (ac_lasset c) then Some (ac_rasset c) else t1 in
       match t2 with Some u => Some u | None => go r end
     end) (asset_assocs created t).

Inductive tres := TOk (t : option string) (step : option string) | TErr (e : lgerr).

Fixpoint styp (n : nat) (t : option string) (e : sexpr) {struct n} : tres :=
  match n with
  | O => TErr LFuel
  | S n' =>
    match e with
    | SStep s => TOk t (Some s)
    | SField f => match t with
                  | None => TOk None None
                  | Some t => match field_target t f with Some u => TOk (Some u) None | None => TOk None None end
                  end
    | SVar v => match t with
                | None => TErr LException           (* target_asset.name on None *)
                | Some tn => match lookup_var (lang_fuel L) L tn v with
                             | VOk e' => styp n' t e'
                             | VFail => TErr LException
                             | VFuel => TErr LFuel
                             end
                end
    | SCollect l r => match styp n' t l with
                      | TOk u _ => styp n' u r
                      | TErr x => TErr x
                      end
    | SUnion l r | SInter l r | SDiff l r =>
        match styp n' t l, styp n' t r with
        | TOk (Some a) _, TOk (Some b) _ =>
            if common_super a b then
              match e with
              | SUnion _ _ => TOk (lca_up (lang_fuel L) a b) None
              | _ => TOk (Some a) None
              end
            else TOk None None
        | TOk _ _, TOk _ _ => TErr LException      (* attribute access on None *)
        | TErr x, _ => TErr x
        | _, TErr x => TErr x
        end
    | STrans e' => styp n' t e'
    | SSub sub e' =>
        match styp n' t e' with
        | TOk u stepname =>
            if negb (has_asset sub) then TErr LException
            else match u with
                 | None => TOk None None            (* is_subasset_of(None) is False *)
                 | Some u => if is_subasset_of L sub u then TOk (Some sub) stepname else TOk None None
                 end
        | TErr x => TErr x
        end
    end
  end.
End Typing.

Fixpoint sexpr_size (e : sexpr) : nat :=
  match e with
  | SStep _ | SField _ | SVar _ => 1
  | SCollect l r | SUnion l r | SInter l r | SDiff l r => S (sexpr_size l + sexpr_size r)
  | STrans e' | SSub _ e' => S (sexpr_size e')
  end.
Definition styp_fuel (e : sexpr) : nat :=
  sexpr_size e + fold_left (fun acc a => fold_left (fun acc v => acc + S (sexpr_size (snd v))) (ad_vars a) acc) (l_assets L) 1.

(* the step-to-step links: (source asset, source step) -> (target asset, target step), in creation order *)
Definition link := (string * string * (string * string))%type.
Definition links_of_step (created : list assocdecl) (t : string) (d : stepdecl) (acc : lres (list link)) : lres (list link) :=
  match sd_reaches d with
  | None => acc
  | Some (_, es) =>
    fold_left (fun acc e => lbind acc (fun ls =>
      match styp created (styp_fuel e * S (List.length (flat_map ad_vars (l_assets L)))) (Some t) e with
      | TErr x => LErr x
      | TOk None _ => LErr LStepExpr
      | TOk (Some u) sn =>
          match sn, steps_of L u with
          | Some sname, Some st => if dhas seqb st sname then LOk (ls ++ [(t, sd_name d, (u, sname))]) else LErr LStepExpr
          | None, Some _ => LErr LStepExpr
          | _, None => LErr LFuel
          end
      end)) es acc
  end.
Definition lg_links (created : list assocdecl) : lres (list link) :=
  fold_left (fun acc t =>
     match steps_of L t with
     | None => LErr LFuel
     | Some st => fold_left (fun acc kv => links_of_step created t (snd kv) acc) st acc
     end) asset_names (LOk []).

(* get_association_by_fields_and_assets *)
Definition assoc_lookup (created : list assocdecl) (f1 f2 t1 t2 : string) : option assocdecl :=
  find (fun c =>
          (seqb (ac_lfield c) f1 && seqb (ac_rfield c) f2 && is_subasset_of L t1 (ac_lasset c) && is_subasset_of L t2 (ac_rasset c))
          || (seqb (ac_lfield c) f2 && seqb (ac_rfield c) f1 && is_subasset_of L t2 (ac_lasset c) && is_subasset_of L t1 (ac_rasset c)))
       created.

(* the whole construction *)
Record lgraph := mkLG { lg_created : list assocdecl; lg_link_list : list link }.
Definition lang_graph : lres lgraph :=
  if negb supers_ok then LErr LSuperNotFound
  else lbind lg_assocs (fun created => lbind (lg_links created) (fun ls => LOk (mkLG created ls))).
End LG.

(* ---- observation compared with the implementation ---- *)
Definition lgerr_code (e : lgerr) : Z :=
  match e with LSuperNotFound => 1 | LAssocEnd => 2 | LStepExpr => 3 | LException => 4 | LFuel => 5 end.
Definition jv_assoc (c : assocdecl) : jv :=
  JList [JStr (ac_name c); JStr (ac_lasset c); JStr (ac_lfield c); JInt (ac_lmin c); jopt JInt (ac_lmax c);
         JStr (ac_rasset c); JStr (ac_rfield c); JInt (ac_rmin c); jopt JInt (ac_rmax c)].
Definition jv_assoc_key (c : assocdecl) : string := (ac_name c ++ "/" ++ ac_lfield c ++ "/" ++ ac_rfield c)%string.
Definition sort_strs (l : list string) : list string := isort String.leb l.
Definition jv_link (k : link) : string :=
  (fst (fst k) ++ ":" ++ snd (fst k) ++ ">" ++ fst (snd k) ++ ":" ++ snd (snd k))%string.
Definition obs_lang_graph (L : lang) (queries : list (string * string * string * string)) : jv :=
  match lang_graph L with
  | LErr e => JList [JStr "error"; JInt (lgerr_code e)]
  | LOk g =>
    let names := asset_names L in
    JList [ JStr "ok";
      JList (map (fun t => JList [JStr t; jstrs (super_assets L t); jstrs (sub_assets L t);
                                  jstrs (sort_strs (map jv_assoc_key (asset_assocs L (lg_created g) t)));
                                  jstrs (match steps_of L t with Some st => dkeys st | None => ["OutOfFuel"] end)]) names);
      JList (map jv_assoc (lg_created g));
      jstrs (sort_strs (map jv_link (lg_link_list g)));
      JList (map (fun t => JList (map (fun u => JBool (is_subasset_of L t u)) names)) names);
      JList (map (fun q => let '(f1, f2, t1, t2) := q in
                           jopt (fun c => JStr (jv_assoc_key c)) (assoc_lookup L (lg_created g) f1 f2 t1 t2)) queries) ]
  end.
Definition lg_check (c : lang * list (string * string * string * string) * jv) : bool :=
  let '(L, q, o) := c in jv_eqb (obs_lang_graph L q) o.
