(* GraphAn.v — analysis and queries over the object world of Graph.v:
   apriori.py (calculate_viability_and_necessity, prune_unviable_and_unnecessary_nodes) and query.py. *)
From MT Require Import Prelude Graph Apriori.

(* ---- instances of the generic propagation ---- *)
Definition is_or (n : node) := seqb (n_type n) "or".
Definition is_and (n : node) := seqb (n_type n) "and".
Definition is_fixed_type (n : node) :=
  seqb (n_type n) "exist" || seqb (n_type n) "notExist" || seqb (n_type n) "defense".
Definition known_type (n : node) := is_or n || is_and n || is_fixed_type n.

Definition vkind (n : node) : kind := if is_or n then KAny else if is_and n then KAll else KFixed.
Definition nkind (n : node) : kind := if is_or n then KAll else if is_and n then KAny else KFixed.

Definition def_is (n : node) (z : Z) : bool := match n_def n with Some d => Z.eqb d z | None => false end.
Definition exist_true (n : node) : bool := match n_exist n with Some b => b | None => false end.

(* evaluate_viability / evaluate_necessity on exist, notExist, defense *)
Definition fixed_viable (n : node) : bool :=
  if seqb (n_type n) "exist" then exist_true n
  else if seqb (n_type n) "notExist" then negb (exist_true n)
  else negb (def_is n 1024).
Definition fixed_necessary (n : node) : bool :=
  if seqb (n_type n) "exist" then negb (exist_true n)
  else if seqb (n_type n) "notExist" then exist_true n
  else negb (def_is n 0).

(* _has_ttc_distribution *)
Definition has_ttc_distribution (n : node) : bool :=
  match n_ttc n with
  | JDict ((k, v) :: r) =>
      match dget seqb ((k, v) :: r) "name" with
      | Some (JStr s) => negb (seqb s "Enabled" || seqb s "Disabled")
      | Some _ => true
      | None => false
      end
  | _ => false
  end.

(* evaluate_* asserts a usable status on the nodes it evaluates *)
Definition status_ok (n : node) : bool :=
  if seqb (n_type n) "defense" then
    match n_def n with Some d => (0 <=? d)%Z && (d <=? 1024)%Z | None => false end
  else if seqb (n_type n) "exist" || seqb (n_type n) "notExist" then
    match n_exist n with Some _ => true | None => false end
  else true.
Definition calc_guard (s : st) : bool :=
  forallb (fun o => known_type (s_nh s o) && status_ok (s_nh s o)) (g_nodes (s_g s)).

Definition calc_fuel (s : st) : nat := 4 * List.length (g_nodes (s_g s)) + 4.

Definition viability_of (s : st) : option state :=
  let nh := s_nh s in
  calculate_from (fun o => vkind (nh o)) (fun o => n_parents (nh o)) (fun o => n_children (nh o))
                 (fun _ => false) (fun o => fixed_viable (nh o))
                 (calc_fuel s) (g_nodes (s_g s)) (fun o => n_viable (nh o)).
Definition necessity_of (s : st) : option state :=
  let nh := s_nh s in
  calculate_from (fun o => nkind (nh o)) (fun o => n_parents (nh o)) (fun o => n_children (nh o))
                 (fun o => has_ttc_distribution (nh o)) (fun o => fixed_necessary (nh o))
                 (calc_fuel s) (g_nodes (s_g s)) (fun o => n_necessary (nh o)).

(* calculate_viability_and_necessity: the two analyses read and write disjoint flags *)
Definition calc (s : st) : st * outcome :=
  if negb (calc_guard s) then (s, RBadOp) else
  match viability_of s, necessity_of s with
  | Some sv, Some sn =>
      (mkSt (fun o => set_necessary (set_viable (s_nh s o) (sv o)) (sn o)) (s_ah s) (s_nn s) (s_na s) (s_g s), Ok)
  | _, _ => (s, ROutOfFuel)
  end.

(* prune_unviable_and_unnecessary_nodes *)
Definition prunable (n : node) : bool :=
  (is_or n || is_and n) && (negb (n_viable n) || negb (n_necessary n)).
Definition prune (s : st) : st :=
  fold_left (fun s o => if prunable (s_nh s o) then fst (remove_node s o) else s) (g_nodes (s_g s)) s.

(* ---- query.py ---- *)
Definition traversable (nh : nheap) (a o : nat) : bool :=
  let n := nh o in
  if negb (n_viable n) then false
  else if is_or n then true
  else if is_and n then forallb (fun p => negb (n_necessary (nh p)) || memn a (n_comp (nh p))) (n_parents n)
  else false.

Definition surface_add (nh : nheap) (a : nat) (surface : list nat) (from : list nat) : list nat :=
  fold_left (fun acc r =>
    fold_left (fun acc c => if traversable nh a c && negb (memn c acc) then acc ++ [c] else acc)
              (n_children (nh r)) acc) from surface.
Definition attack_surface (nh : nheap) (ah : aheap) (a : nat) : list nat :=
  surface_add nh a [] (a_reached (ah a)).
Definition update_surface (nh : nheap) (a : nat) (cur : list nat) (nodes : list nat) : list nat :=
  surface_add nh a cur nodes.

Definition suppressed (n : node) : bool := existsb (seqb "suppress") (n_tags n).
Definition is_enabled_defense (n : node) : bool :=
  seqb (n_type n) "defense" && negb (suppressed n) && def_is n 1024.
Definition is_available_defense (n : node) : bool :=
  seqb (n_type n) "defense" && negb (suppressed n) && negb (def_is n 1024).
Definition defense_surface (s : st) : list nat := filter (fun o => is_available_defense (s_nh s o)) (g_nodes (s_g s)).
Definition enabled_defenses (s : st) : list nat := filter (fun o => is_enabled_defense (s_nh s o)) (g_nodes (s_g s)).
