(* GraphInv.v — the structural invariant WF of the attack-graph object world and its preservation by
   every operation of GraphOps.step whose guard holds (C09, C11, C13). *)
From MT Require Import Prelude ListFacts Graph Apriori GraphAn GraphOps.
From Coq Require Import Arith.

(* ------------------------------------------------------------------ the invariant, in four groups *)
Definition Struct (nodes : list nat) (ch pa : nat -> list nat) : Prop :=
  (forall o c, In o nodes -> In c (ch o) -> In c nodes) /\
  (forall o p, In o nodes -> In p (pa o) -> In p nodes) /\
  (forall p c, In p nodes -> In c nodes -> cnt (ch p) c = cnt (pa c) p).

Definition AttI (nodes atts : list nat) (comp reached entry : nat -> list nat) : Prop :=
  (forall o a, In o nodes -> In a (comp o) -> In a atts) /\
  (forall a o, In a atts -> In o (reached a) -> In o nodes) /\
  (forall a o, In a atts -> In o (entry a) -> In o nodes) /\
  (forall a o, In a atts -> In o nodes -> (In a (comp o) <-> In o (reached a))) /\
  (forall o, In o nodes -> NoDup (comp o)) /\
  (forall a, In a atts -> NoDup (reached a)).

Definition Idx {K} (keqb : K -> K -> bool) (objs : list nat) (key : nat -> option K) (d : list (K * nat)) : Prop :=
  (forall k o, dget keqb d k = Some o -> In o objs /\ key o = Some k) /\
  (forall o, In o objs -> exists k, key o = Some k /\ dget keqb d k = Some o) /\
  NoDup (dkeys d).

Definition Below (d : list (Z * nat)) (next : Z) : Prop := forall i, In i (dkeys d) -> (i < next)%Z.

Definition Alloc (nodes atts : list nat) (nn na : nat) : Prop :=
  NoDup nodes /\ NoDup atts /\ (forall o, In o nodes -> o < nn) /\ (forall a, In a atts -> a < na).

Definition ch_of (s : st) := fun o => n_children (s_nh s o).
Definition pa_of (s : st) := fun o => n_parents (s_nh s o).
Definition comp_of (s : st) := fun o => n_comp (s_nh s o).
Definition reached_of (s : st) := fun a => a_reached (s_ah s a).
Definition entry_of (s : st) := fun a => a_entry (s_ah s a).
Definition id_of (s : st) := fun o => n_id (s_nh s o).
Definition fn_of (s : st) := fun o => Some (full_name (s_nh s o)).
Definition aid_of (s : st) := fun a => a_id (s_ah s a).

Record WF (s : st) : Prop := mkWF {
  wf_alloc : Alloc (g_nodes (s_g s)) (g_atts (s_g s)) (s_nn s) (s_na s);
  wf_struct : Struct (g_nodes (s_g s)) (ch_of s) (pa_of s);
  wf_att : AttI (g_nodes (s_g s)) (g_atts (s_g s)) (comp_of s) (reached_of s) (entry_of s);
  wf_idx_id : Idx Z.eqb (g_nodes (s_g s)) (id_of s) (g_id2node (s_g s));
  wf_idx_name : Idx seqb (g_nodes (s_g s)) (fn_of s) (g_name2node (s_g s));
  wf_idx_att : Idx Z.eqb (g_atts (s_g s)) (aid_of s) (g_id2att (s_g s));
  wf_below_n : Below (g_id2node (s_g s)) (g_next_node (s_g s));
  wf_below_a : Below (g_id2att (s_g s)) (g_next_att (s_g s)) }.

(* ------------------------------------------------------------------ extensionality of the groups *)
Lemma Struct_ext nodes ch pa ch' pa' :
  (forall o, In o nodes -> ch' o = ch o) -> (forall o, In o nodes -> pa' o = pa o) ->
  Struct nodes ch pa -> Struct nodes ch' pa'.
Proof.
  intros E1 E2 (A & B & M). repeat split.
  - intros o c Ho. rewrite E1 by auto. eauto.
  - intros o p Ho. rewrite E2 by auto. eauto.
  - intros p c Hp Hc. rewrite E1, E2 by auto. auto.
Qed.
Lemma AttI_ext nodes atts comp reached entry comp' reached' entry' :
  (forall o, In o nodes -> comp' o = comp o) -> (forall a, In a atts -> reached' a = reached a) ->
  (forall a, In a atts -> entry' a = entry a) ->
  AttI nodes atts comp reached entry -> AttI nodes atts comp' reached' entry'.
Proof.
  intros E1 E2 E3 (A & B & Cc & D & E & F). repeat split.
  - intros o a Ho. rewrite E1 by auto. eauto.
  - intros a o Ha. rewrite E2 by auto. eauto.
  - intros a o Ha. rewrite E3 by auto. eauto.
  - rewrite E1, E2 by auto. apply D; auto.
  - rewrite E1, E2 by auto. apply D; auto.
  - intros o Ho. rewrite E1 by auto. auto.
  - intros a Ha. rewrite E2 by auto. auto.
Qed.
Lemma Idx_ext {K} (keqb : K -> K -> bool) objs key key' d :
  (forall o, In o objs -> key' o = key o) -> Idx keqb objs key d -> Idx keqb objs key' d.
Proof.
  intros E (A & B & N). repeat split; auto.
  - apply (A k o H).
  - destruct (A k o H) as [Ho Hk]. rewrite E; auto.
  - intros o Ho. destruct (B o Ho) as (k & Hk & Hd). exists k. rewrite E; auto.
Qed.

(* ------------------------------------------------------------------ heap-update lookups *)
Lemma updn_same h o f : updn h o f o = f (h o).
Proof. unfold updn. now rewrite Nat.eqb_refl. Qed.
Lemma updn_other h o f x : x <> o -> updn h o f x = h x.
Proof. intros N. unfold updn. destruct (Nat.eqb_spec x o); congruence. Qed.
Lemma upda_same h o f : upda h o f o = f (h o).
Proof. unfold upda. now rewrite Nat.eqb_refl. Qed.
Lemma upda_other h o f x : x <> o -> upda h o f x = h x.
Proof. intros N. unfold upda. destruct (Nat.eqb_spec x o); congruence. Qed.

Ltac heap_simpl :=
  repeat first
    [ rewrite updn_same | rewrite upda_same
    | rewrite updn_other by congruence | rewrite upda_other by congruence ].

(* ------------------------------------------------------------------ generic index lemmas *)
Section IdxLemmas.
Context {K : Type} (keqb : K -> K -> bool).
Hypothesis keqb_spec : forall a b, keqb a b = true <-> a = b.

Lemma Idx_add objs key key' d k o :
  Idx keqb objs key d -> ~ In o objs -> dget keqb d k = None ->
  (forall x, In x objs -> key' x = key x) -> key' o = Some k ->
  Idx keqb (objs ++ [o]) key' (dset keqb d k o).
Proof.
  intros (A & B & N) Ho Hk E Eo. repeat split.
  - destruct (keqb k0 k) eqn:Ek.
    + apply keqb_spec in Ek; subst k0. rewrite (dget_dset_same keqb keqb_spec) in H. inversion H; subst.
      apply In_app_single; auto.
    + rewrite (dget_dset_other keqb keqb_spec) in H by (intros ->; rewrite (keqb_refl keqb keqb_spec) in Ek; discriminate).
      apply In_app_single. left. apply (A _ _ H).
  - destruct (keqb k0 k) eqn:Ek.
    + apply keqb_spec in Ek; subst k0. rewrite (dget_dset_same keqb keqb_spec) in H. inversion H; subst. auto.
    + rewrite (dget_dset_other keqb keqb_spec) in H by (intros ->; rewrite (keqb_refl keqb keqb_spec) in Ek; discriminate).
      destruct (A _ _ H) as [Hin Hkey]. rewrite E; auto.
  - intros x Hx. apply In_app_single in Hx. destruct Hx as [Hx| ->].
    + destruct (B x Hx) as (kx & Hkx & Hdx). exists kx. rewrite E by auto. split; auto.
      rewrite (dget_dset_other keqb keqb_spec); auto. intros ->. congruence.
    + exists k. split; auto. apply (dget_dset_same keqb keqb_spec).
  - apply (dkeys_dset_NoDup keqb keqb_spec); auto.
Qed.

Lemma Idx_del objs key d k o :
  Idx keqb objs key d -> NoDup objs -> In o objs -> key o = Some k ->
  Idx keqb (remove1 o objs) key (ddel keqb d k).
Proof.
  intros (A & B & N) Hnd Ho Hk.
  assert (Hdk : dget keqb d k = Some o).
  { destruct (B o Ho) as (k' & Hk' & Hd). congruence. }
  repeat split.
  - destruct (keqb k0 k) eqn:Ek.
    + apply keqb_spec in Ek; subst. rewrite (dget_ddel_same keqb keqb_spec) in H; auto. discriminate.
    + assert (k0 <> k) by (intros ->; rewrite (keqb_refl keqb keqb_spec) in Ek; discriminate).
      rewrite (dget_ddel_other keqb keqb_spec) in H by auto.
      destruct (A _ _ H) as [Hin Hkey]. apply remove1_In_neq; auto. intros ->. congruence.
  - destruct (keqb k0 k) eqn:Ek.
    + apply keqb_spec in Ek; subst. rewrite (dget_ddel_same keqb keqb_spec) in H; auto. discriminate.
    + assert (k0 <> k) by (intros ->; rewrite (keqb_refl keqb keqb_spec) in Ek; discriminate).
      rewrite (dget_ddel_other keqb keqb_spec) in H by auto. apply (A _ _ H).
  - intros x Hx. assert (Hx' := remove1_In _ _ _ Hx).
    destruct (B x Hx') as (kx & Hkx & Hdx). exists kx. split; auto.
    rewrite (dget_ddel_other keqb keqb_spec); auto. intros ->.
    assert (x = o) by congruence. subst. revert Hx. apply remove1_NoDup_nIn; auto.
  - apply (dkeys_ddel_NoDup keqb); auto.
Qed.

Lemma Idx_key_inj objs key d o1 o2 k :
  Idx keqb objs key d -> In o1 objs -> In o2 objs -> key o1 = Some k -> key o2 = Some k -> o1 = o2.
Proof.
  intros (A & B & N) H1 H2 K1 K2.
  destruct (B o1 H1) as (k1 & E1 & D1). destruct (B o2 H2) as (k2 & E2 & D2). congruence.
Qed.
End IdxLemmas.

(* ------------------------------------------------------------------ frames *)
Definition NFrame (nh nh' : nheap) : Prop :=
  forall x, n_children (nh' x) = n_children (nh x) /\ n_parents (nh' x) = n_parents (nh x) /\
            n_id (nh' x) = n_id (nh x) /\ full_name (nh' x) = full_name (nh x).
Definition CFrame (nh nh' : nheap) : Prop := forall x, n_comp (nh' x) = n_comp (nh x).
Definition AFrame (ah ah' : aheap) : Prop :=
  forall b, a_entry (ah' b) = a_entry (ah b) /\ a_id (ah' b) = a_id (ah b).
Lemma NFrame_refl nh : NFrame nh nh. Proof. intros x; auto. Qed.
Lemma NFrame_trans a b c : NFrame a b -> NFrame b c -> NFrame a c.
Proof. intros H1 H2 x. destruct (H1 x) as (?&?&?&?), (H2 x) as (?&?&?&?). repeat split; congruence. Qed.
Lemma AFrame_refl ah : AFrame ah ah. Proof. intros x; auto. Qed.
Lemma AFrame_trans a b c : AFrame a b -> AFrame b c -> AFrame a c.
Proof. intros H1 H2 x. destruct (H1 x) as (?&?), (H2 x) as (?&?). split; congruence. Qed.

Ltac ueq :=
  unfold updn, upda in *;
  repeat match goal with |- context [Nat.eqb ?a ?b] => destruct (Nat.eqb_spec a b) end;
  subst; cbn in *; try congruence; auto.

Lemma WF_frame s s' :
  s_g s' = s_g s -> s_nn s <= s_nn s' -> s_na s <= s_na s' ->
  (forall o, In o (g_nodes (s_g s)) ->
     n_children (s_nh s' o) = n_children (s_nh s o) /\ n_parents (s_nh s' o) = n_parents (s_nh s o) /\
     n_comp (s_nh s' o) = n_comp (s_nh s o) /\ n_id (s_nh s' o) = n_id (s_nh s o) /\
     full_name (s_nh s' o) = full_name (s_nh s o)) ->
  (forall a, In a (g_atts (s_g s)) ->
     a_reached (s_ah s' a) = a_reached (s_ah s a) /\ a_entry (s_ah s' a) = a_entry (s_ah s a) /\
     a_id (s_ah s' a) = a_id (s_ah s a)) ->
  WF s -> WF s'.
Proof.
  intros Eg Hn Ha FN FA [A S T I1 I2 I3 B1 B2]. constructor; rewrite Eg.
  - destruct A as (a1 & a2 & a3 & a4). split; [auto|]. split; [auto|]. split.
    + intros o Ho. specialize (a3 o Ho). lia.
    + intros a Hin. specialize (a4 a Hin). lia.
  - eapply Struct_ext; [| |exact S]; intros o Ho; unfold ch_of, pa_of; apply FN; auto.
  - eapply AttI_ext; [| | |exact T]; intros o Ho; unfold comp_of, reached_of, entry_of;
      first [apply FN; now auto | apply FA; now auto].
  - eapply Idx_ext; [|exact I1]. intros o Ho. unfold id_of. apply FN; auto.
  - eapply Idx_ext; [|exact I2]. intros o Ho. unfold fn_of. f_equal. apply FN; auto.
  - eapply Idx_ext; [|exact I3]. intros a Ha'. unfold aid_of. apply FA; auto.
  - auto.
  - auto.
Qed.

(* ------------------------------------------------------------------ ONew / ONewAtt / field edits / analysis *)
Lemma WF_new_node s n : WF s -> WF (new_node s n).
Proof.
  intros W. apply (WF_frame s); cbn; auto.
  - intros o Ho. destruct (wf_alloc s W) as (_ & _ & A & _). specialize (A o Ho).
    rewrite updn_other by lia. auto.
Qed.
Lemma WF_new_att s name : WF s -> WF (new_att s name).
Proof.
  intros W. apply (WF_frame s); cbn; auto.
  - intros a Ha. destruct (wf_alloc s W) as (_ & _ & _ & A). specialize (A a Ha).
    rewrite upda_other by lia. auto.
Qed.
Lemma WF_with_nh s f o :
  (forall n, n_children (f n) = n_children n /\ n_parents (f n) = n_parents n /\ n_comp (f n) = n_comp n /\
             n_id (f n) = n_id n /\ full_name (f n) = full_name n) ->
  WF s -> WF (with_nh s (updn (s_nh s) o f)).
Proof.
  intros F W. apply (WF_frame s); cbn; auto.
  intros x Hx. unfold updn. destruct (Nat.eqb x o); auto.
Qed.
Lemma WF_calc s : WF s -> WF (fst (calc s)).
Proof.
  intros W. unfold calc. destruct (negb (calc_guard s)); cbn; auto.
  destruct (viability_of s), (necessity_of s); cbn; auto.
  apply (WF_frame s); cbn; auto.
Qed.

(* ------------------------------------------------------------------ OLink *)
Lemma WF_link s p c : WF s -> In p (g_nodes (s_g s)) -> In c (g_nodes (s_g s)) -> WF (link s p c).
Proof.
  intros [A S T I1 I2 I3 B1 B2] Hp Hc.
  assert (CH : forall x, n_children (s_nh (link s p c) x) =
                         if Nat.eqb x p then n_children (s_nh s x) ++ [c] else n_children (s_nh s x)).
  { intros x. unfold link; cbn. ueq. }
  assert (PA : forall x, n_parents (s_nh (link s p c) x) =
                         if Nat.eqb x c then n_parents (s_nh s x) ++ [p] else n_parents (s_nh s x)).
  { intros x. unfold link; cbn. ueq. }
  constructor; cbn; auto.
  - destruct S as (S1 & S2 & S3). unfold ch_of, pa_of. repeat split.
    + intros o c0 Ho. rewrite CH. destruct (Nat.eqb o p); [|eauto].
      rewrite In_app_single. intros [H| ->]; eauto.
    + intros o p0 Ho. rewrite PA. destruct (Nat.eqb o c); [|eauto].
      rewrite In_app_single. intros [H| ->]; eauto.
    + intros x y Hx Hy. rewrite CH, PA. specialize (S3 x y Hx Hy). unfold ch_of, pa_of in S3.
      destruct (Nat.eqb_spec x p), (Nat.eqb_spec y c); subst; rewrite ?cnt_app, ?cnt_single;
        repeat match goal with |- context [Nat.eqb ?a ?b] => destruct (Nat.eqb_spec a b) end; try congruence; lia.
  - eapply AttI_ext; [| | |exact T]; intros o Ho; unfold comp_of, reached_of, entry_of, link; cbn; auto. ueq.
  - eapply Idx_ext; [|exact I1]. intros o Ho. unfold id_of, link; cbn. ueq.
  - eapply Idx_ext; [|exact I2]. intros o Ho. unfold fn_of, link; cbn. f_equal. unfold full_name. ueq.
Qed.

(* ------------------------------------------------------------------ compromise / undo_compromise *)
Lemma remove1_NoDup_iff x y l : NoDup l -> (In y (remove1 x l) <-> In y l /\ y <> x).
Proof.
  intros H. split.
  - intros Hy. split; [eapply remove1_In; eauto|]. intros ->. revert Hy. apply remove1_NoDup_nIn; auto.
  - intros [Hy N]. apply remove1_In_neq; auto.
Qed.

Lemma compromise_frames nh ah a o nh' ah' :
  compromise nh ah a o = (nh', ah') -> NFrame nh nh' /\ AFrame ah ah'.
Proof.
  unfold compromise. destruct (memn a (n_comp (nh o))); intros E; inversion E; subst.
  - split; [apply NFrame_refl | apply AFrame_refl].
  - split; intros x; unfold full_name; ueq.
Qed.
Lemma undo_frames nh ah a o nh' ah' :
  undo_compromise nh ah a o = (nh', ah') -> NFrame nh nh' /\ AFrame ah ah'.
Proof.
  unfold undo_compromise. destruct (memn a (n_comp (nh o))); intros E; inversion E; subst.
  - split; intros x; unfold full_name; ueq.
  - split; [apply NFrame_refl | apply AFrame_refl].
Qed.

Lemma compromise_AttI nodes atts nh ah a o nh' ah' :
  compromise nh ah a o = (nh', ah') -> In a atts -> In o nodes ->
  AttI nodes atts (fun x => n_comp (nh x)) (fun b => a_reached (ah b)) (fun b => a_entry (ah b)) ->
  AttI nodes atts (fun x => n_comp (nh' x)) (fun b => a_reached (ah' b)) (fun b => a_entry (ah' b)) /\
  In a (n_comp (nh' o)).
Proof.
  unfold compromise. intros E Ha Ho (A & B & Cc & D & F & G).
  destruct (memn a (n_comp (nh o))) eqn:M; inversion E; subst; clear E.
  { split; [repeat split; auto; apply D; auto|]. apply memn_In; auto. }
  apply memn_nIn in M.
  assert (CO : forall x, n_comp (updn nh o (fun n => set_comp n (n_comp n ++ [a])) x) =
                         if Nat.eqb x o then n_comp (nh x) ++ [a] else n_comp (nh x)) by (intros; ueq).
  assert (RE : forall b, a_reached (upda ah a (fun x => set_reached x (a_reached x ++ [o])) b) =
                         if Nat.eqb b a then a_reached (ah b) ++ [o] else a_reached (ah b)) by (intros; ueq).
  assert (EN : forall b, a_entry (upda ah a (fun x => set_reached x (a_reached x ++ [o])) b) = a_entry (ah b)) by (intros; ueq).
  split.
  2:{ rewrite CO, Nat.eqb_refl. apply In_app_single; auto. }
  split; [|split; [|split; [|split; [|split]]]].
  - intros x b Hx. rewrite CO. destruct (Nat.eqb x o); [|eauto]. rewrite In_app_single. intros [H| ->]; eauto.
  - intros b x Hb. rewrite RE. destruct (Nat.eqb b a); [|eauto]. rewrite In_app_single. intros [H| ->]; eauto.
  - intros b x Hb. rewrite EN. eauto.
  - intros b x Hb Hx. rewrite CO, RE. specialize (D b x Hb Hx).
    destruct (Nat.eqb_spec x o), (Nat.eqb_spec b a); subst; rewrite ?In_app_single; intuition congruence.
  - intros x Hx. rewrite CO. destruct (Nat.eqb_spec x o); subst; auto. apply NoDup_app_single; auto.
  - intros b Hb. rewrite RE. destruct (Nat.eqb_spec b a); subst; auto. apply NoDup_app_single; auto.
    intros H. apply M. apply D; auto.
Qed.

Lemma undo_AttI nodes atts nh ah a o nh' ah' :
  undo_compromise nh ah a o = (nh', ah') -> In a atts -> In o nodes ->
  AttI nodes atts (fun x => n_comp (nh x)) (fun b => a_reached (ah b)) (fun b => a_entry (ah b)) ->
  AttI nodes atts (fun x => n_comp (nh' x)) (fun b => a_reached (ah' b)) (fun b => a_entry (ah' b)) /\
  ~ In a (n_comp (nh' o)) /\
  (forall x b, In x nodes -> In b (n_comp (nh' x)) -> In b (n_comp (nh x))).
Proof.
  unfold undo_compromise. intros E Ha Ho (A & B & Cc & D & F & G).
  destruct (memn a (n_comp (nh o))) eqn:M; inversion E; subst; clear E.
  2:{ split; [repeat split; auto; apply D; auto|]. split; auto. apply memn_nIn; auto. }
  apply memn_In in M.
  assert (CO : forall x, n_comp (updn nh o (fun n => set_comp n (remove1 a (n_comp n))) x) =
                         if Nat.eqb x o then remove1 a (n_comp (nh x)) else n_comp (nh x)) by (intros; ueq).
  assert (RE : forall b, a_reached (upda ah a (fun x => set_reached x (remove1 o (a_reached x))) b) =
                         if Nat.eqb b a then remove1 o (a_reached (ah b)) else a_reached (ah b)) by (intros; ueq).
  assert (EN : forall b, a_entry (upda ah a (fun x => set_reached x (remove1 o (a_reached x))) b) = a_entry (ah b)) by (intros; ueq).
  split; [|split].
  2:{ rewrite CO, Nat.eqb_refl. apply remove1_NoDup_nIn; auto. }
  2:{ intros x b Hx. rewrite CO. destruct (Nat.eqb x o); auto. apply remove1_In. }
  split; [|split; [|split; [|split; [|split]]]].
  - intros x b Hx. rewrite CO. destruct (Nat.eqb x o); [|eauto]. intros H. apply remove1_In in H. eauto.
  - intros b x Hb. rewrite RE. destruct (Nat.eqb b a); [|eauto]. intros H. apply remove1_In in H. eauto.
  - intros b x Hb. rewrite EN. eauto.
  - intros b x Hb Hx. rewrite CO, RE. pose proof (D b x Hb Hx) as Dx.
    destruct (Nat.eqb_spec x o), (Nat.eqb_spec b a); subst; rewrite ?remove1_NoDup_iff by auto; intuition congruence.
  - intros x Hx. rewrite CO. destruct (Nat.eqb_spec x o); subst; auto. apply remove1_NoDup; auto.
  - intros b Hb. rewrite RE. destruct (Nat.eqb_spec b a); subst; auto. apply remove1_NoDup; auto.
Qed.

(* ------------------------------------------------------------------ growing / shrinking the object lists *)
Lemma AttI_extend nodes atts comp reached entry a :
  AttI nodes atts comp reached entry -> ~ In a atts -> reached a = [] -> entry a = [] ->
  AttI nodes (atts ++ [a]) comp reached entry.
Proof.
  intros (A & B & Cc & D & F & G) Na Ra Ea.
  split; [|split; [|split; [|split; [|split]]]].
  - intros o b Ho Hb. apply In_app_single. left. eauto.
  - intros b o Hb. apply In_app_single in Hb. destruct Hb as [Hb| ->]; [eauto|]. rewrite Ra. intros [].
  - intros b o Hb. apply In_app_single in Hb. destruct Hb as [Hb| ->]; [eauto|]. rewrite Ea. intros [].
  - intros b o Hb Ho. apply In_app_single in Hb. destruct Hb as [Hb| ->]; [apply D; auto|].
    rewrite Ra. split; [|intros []]. intros H. exfalso. apply Na. eauto.
  - auto.
  - intros b Hb. apply In_app_single in Hb. destruct Hb as [Hb| ->]; auto. rewrite Ra. constructor.
Qed.
Lemma AttI_extend_node nodes atts comp reached entry o :
  AttI nodes atts comp reached entry -> ~ In o nodes -> comp o = [] ->
  AttI (nodes ++ [o]) atts comp reached entry.
Proof.
  intros (A & B & Cc & D & F & G) No Co.
  split; [|split; [|split; [|split; [|split]]]].
  - intros x b Hx. apply In_app_single in Hx. destruct Hx as [Hx| ->]; [eauto|]. rewrite Co. intros [].
  - intros b x Hb Hx. apply In_app_single. left. eauto.
  - intros b x Hb Hx. apply In_app_single. left. eauto.
  - intros b x Hb Hx. apply In_app_single in Hx. destruct Hx as [Hx| ->]; [apply D; auto|].
    rewrite Co. split; [intros []|]. intros H. exfalso. apply No. eauto.
  - intros x Hx. apply In_app_single in Hx. destruct Hx as [Hx| ->]; auto. rewrite Co. constructor.
  - auto.
Qed.
Lemma AttI_restrict_att nodes atts comp reached entry a :
  AttI nodes atts comp reached entry -> NoDup atts -> (forall o, In o nodes -> ~ In a (comp o)) ->
  AttI nodes (remove1 a atts) comp reached entry.
Proof.
  intros (A & B & Cc & D & F & G) Nd Na.
  split; [|split; [|split; [|split; [|split]]]].
  - intros o b Ho Hb. apply remove1_NoDup_iff; auto. split; [eauto|]. intros ->. apply (Na o); auto.
  - intros b o Hb. apply remove1_In in Hb. eauto.
  - intros b o Hb. apply remove1_In in Hb. eauto.
  - intros b o Hb Ho. apply remove1_In in Hb. apply D; auto.
  - auto.
  - intros b Hb. apply remove1_In in Hb. auto.
Qed.
Lemma AttI_restrict_node nodes atts comp reached entry o :
  AttI nodes atts comp reached entry -> NoDup nodes ->
  (forall a, In a atts -> ~ In o (reached a)) -> (forall a, In a atts -> ~ In o (entry a)) ->
  AttI (remove1 o nodes) atts comp reached entry.
Proof.
  intros (A & B & Cc & D & F & G) Nd Nr Ne.
  split; [|split; [|split; [|split; [|split]]]].
  - intros x b Hx. apply remove1_In in Hx. eauto.
  - intros b x Hb Hx. apply remove1_NoDup_iff; auto. split; [eauto|]. intros ->. apply (Nr b); auto.
  - intros b x Hb Hx. apply remove1_NoDup_iff; auto. split; [eauto|]. intros ->. apply (Ne b); auto.
  - intros b x Hb Hx. apply remove1_In in Hx. apply D; auto.
  - intros x Hx. apply remove1_In in Hx. auto.
  - auto.
Qed.

(* ------------------------------------------------------------------ add_attacker *)
Notation compf nh := (fun x => n_comp (nh x)).
Notation reachedf ah := (fun b => a_reached (ah b)).
Notation entryf ah := (fun b => a_entry (ah b)).

Lemma reach_ids_spec g nodes atts a :
  In a atts -> (forall i o, dget Z.eqb (g_id2node g) i = Some o -> In o nodes) ->
  forall ids nh ah nh' ah' ok, reach_ids g nh ah a ids = (nh', ah', ok) ->
  AttI nodes atts (compf nh) (reachedf ah) (entryf ah) ->
  AttI nodes atts (compf nh') (reachedf ah') (entryf ah') /\ NFrame nh nh' /\ AFrame ah ah' /\
  (forallb (dhas Z.eqb (g_id2node g)) ids = true -> ok = true).
Proof.
  intros Ha Hidx. induction ids as [|i r IH]; intros nh ah nh' ah' ok E T; cbn in E.
  - inversion E; subst. split; [auto|]. split; [apply NFrame_refl|]. split; [apply AFrame_refl|]. auto.
  - cbn [forallb]. unfold dhas at 1. destruct (dget Z.eqb (g_id2node g) i) as [o|] eqn:Ei.
    + destruct (compromise nh ah a o) as [nh1 ah1] eqn:Ec.
      destruct (compromise_frames _ _ _ _ _ _ Ec) as [F1 F2].
      destruct (compromise_AttI nodes atts _ _ _ _ _ _ Ec Ha (Hidx _ _ Ei) T) as [T1 _].
      destruct (IH _ _ _ _ _ E T1) as (T2 & F3 & F4 & K).
      split; [auto|]. split; [eapply NFrame_trans; eauto|]. split; [eapply AFrame_trans; eauto|].
      cbn. auto.
    + inversion E; subst. split; [auto|]. split; [apply NFrame_refl|]. split; [apply AFrame_refl|].
      cbn. discriminate.
Qed.

Lemma entry_ids_spec g nodes atts a comp :
  (forall i o, dget Z.eqb (g_id2node g) i = Some o -> In o nodes) ->
  forall ids ah ah' ok, entry_ids g ah a ids = (ah', ok) ->
  AttI nodes atts comp (reachedf ah) (entryf ah) ->
  AttI nodes atts comp (reachedf ah') (entryf ah') /\
  (forall b, a_reached (ah' b) = a_reached (ah b) /\ a_id (ah' b) = a_id (ah b)) /\
  (forallb (dhas Z.eqb (g_id2node g)) ids = true -> ok = true).
Proof.
  intros Hidx. induction ids as [|i r IH]; intros ah ah' ok E T; cbn in E.
  - inversion E; subst. split; [auto|]. split; auto.
  - cbn [forallb]. unfold dhas at 1. destruct (dget Z.eqb (g_id2node g) i) as [o|] eqn:Ei.
    + assert (T1 : AttI nodes atts comp (reachedf (upda ah a (fun x => set_entry x (a_entry x ++ [o]))))
                        (entryf (upda ah a (fun x => set_entry x (a_entry x ++ [o]))))).
      { destruct T as (A & B & Cc & D & F & G).
        split; [|split; [|split; [|split; [|split]]]]; auto.
        - intros b x Hb. replace (a_reached _) with (a_reached (ah b)) by ueq. eauto.
        - intros b x Hb. unfold upda. destruct (Nat.eqb b a); cbn; [|eauto].
          rewrite In_app_single. intros [H| ->]; eauto.
        - intros b x Hb Hx. replace (a_reached _) with (a_reached (ah b)) by ueq. apply D; auto.
        - intros b Hb. replace (a_reached _) with (a_reached (ah b)) by ueq. auto. }
      destruct (IH _ _ _ E T1) as (T2 & F3 & K). split; [auto|]. split.
      * intros b. destruct (F3 b) as [F31 F32]. rewrite F31, F32. split; ueq.
      * cbn. auto.
    + inversion E; subst. split; [auto|]. split; [auto|]. cbn. discriminate.
Qed.

Lemma Below_dset d next i (o : nat) : Below d next -> Below (dset Z.eqb d i o) (Z.max (i + 1) next).
Proof.
  intros B k Hk. apply (dkeys_dset Z.eqb Zeqb_spec) in Hk. destruct Hk as [Hk| ->]; [specialize (B k Hk)|]; lia.
Qed.
Lemma Below_ddel d next i : Below d next -> Below (ddel Z.eqb d i) next.
Proof. intros B k Hk. apply B. eapply dkeys_ddel_In; eauto. Qed.
Lemma Below_fresh d next : Below d next -> dget Z.eqb d next = None.
Proof.
  intros B. apply (dget_None_notin Z.eqb Zeqb_spec). intros H. specialize (B _ H). lia.
Qed.

Lemma WF_add_attacker s a idopt reached entry :
  WF s -> a < s_na s -> ~ In a (g_atts (s_g s)) -> a_entry (s_ah s a) = [] -> a_reached (s_ah s a) = [] ->
  forallb (dhas Z.eqb (g_id2node (s_g s))) (reached ++ entry) = true ->
  WF (fst (add_attacker s a idopt reached entry)).
Proof.
  intros W La Na Ea Ra Hids. pose proof W as [A S T I1 I2 I3 B1 B2].
  unfold add_attacker.
  set (i := match idopt with Some i => i | None => g_next_att (s_g s) end).
  set (ah0 := upda (s_ah s) a (fun x => set_a_id x (Some i))).
  destruct (dhas Z.eqb (g_id2att (s_g s)) i) eqn:Hdup; cbn [fst].
  { apply (WF_frame s); cbn; auto. intros b Hb. unfold ah0. rewrite upda_other by congruence. auto. }
  set (g1 := mkGraph _ _ _ _ _ _ _).
  destruct (reach_ids g1 (s_nh s) ah0 a reached) as [[nh1 ah1] ok1] eqn:E1.
  rewrite forallb_app in Hids. apply andb_true_iff in Hids. destruct Hids as [Hr He].
  assert (Hsound : forall k o, dget Z.eqb (g_id2node g1) k = Some o -> In o (g_nodes (s_g s))).
  { intros k o Hk. apply I1 in Hk. tauto. }
  assert (T0 : AttI (g_nodes (s_g s)) (g_atts (s_g s) ++ [a]) (compf (s_nh s)) (reachedf ah0) (entryf ah0)).
  { apply AttI_extend; auto.
    - eapply AttI_ext; [| | |exact T]; intros x Hx; unfold comp_of, reached_of, entry_of, ah0; auto;
        rewrite upda_other by congruence; auto.
    - unfold ah0. rewrite upda_same. cbn. auto.
    - unfold ah0. rewrite upda_same. cbn. auto. }
  assert (Ha' : In a (g_atts (s_g s) ++ [a])) by (apply In_app_single; auto).
  destruct (reach_ids_spec g1 _ _ a Ha' Hsound _ _ _ _ _ _ E1 T0) as (T1 & F1 & F2 & K1).
  rewrite (K1 Hr). cbn [negb].
  destruct (entry_ids g1 ah1 a entry) as [ah2 ok2] eqn:E2.
  destruct (entry_ids_spec g1 _ _ a _ Hsound _ _ _ _ E2 T1) as (T2 & F3 & K2).
  rewrite (K2 He). cbn [negb fst].
  assert (AID : forall b, a_id (ah2 b) = a_id (ah0 b)).
  { intros b. destruct (F3 b) as [_ ->]. apply F2. }
  constructor; cbn.
  - destruct A as (a1 & a2 & a3 & a4). split; [auto|]. split; [apply NoDup_app_single; auto|]. split; [auto|].
    intros b Hb. apply In_app_single in Hb. destruct Hb as [Hb| ->]; auto.
  - eapply Struct_ext; [| |exact S]; intros o Ho; unfold ch_of, pa_of; cbn; apply F1.
  - exact T2.
  - eapply Idx_ext; [|exact I1]. intros o Ho. unfold id_of; cbn. apply F1.
  - eapply Idx_ext; [|exact I2]. intros o Ho. unfold fn_of; cbn. f_equal. apply F1.
  - apply (Idx_add Z.eqb Zeqb_spec) with (key := aid_of s); auto.
    + unfold dhas in Hdup. destruct (dget Z.eqb (g_id2att (s_g s)) i); auto; discriminate.
    + intros b Hb. unfold aid_of; cbn. rewrite AID. unfold ah0. rewrite upda_other by congruence. auto.
    + unfold aid_of; cbn. rewrite AID. unfold ah0. rewrite upda_same. auto.
  - exact B1.
  - apply Below_dset; auto.
Qed.

(* ------------------------------------------------------------------ remove_attacker *)
Lemma undo_nodes_loop nodes atts a :
  In a atts -> forall l nh ah nh' ah',
  fold_left (fun '(h, ah) o => undo_compromise h ah a o) l (nh, ah) = (nh', ah') ->
  (forall o, In o l -> In o nodes) ->
  AttI nodes atts (compf nh) (reachedf ah) (entryf ah) ->
  AttI nodes atts (compf nh') (reachedf ah') (entryf ah') /\ NFrame nh nh' /\ AFrame ah ah' /\
  (forall o, In o l -> ~ In a (n_comp (nh' o))) /\
  (forall x b, In x nodes -> In b (n_comp (nh' x)) -> In b (n_comp (nh x))).
Proof.
  intros Ha. induction l as [|o r IH]; intros nh ah nh' ah' E Hl T; cbn in E.
  - inversion E; subst. split; [auto|]. split; [apply NFrame_refl|]. split; [apply AFrame_refl|].
    split; [intros o []|auto].
  - destruct (undo_compromise nh ah a o) as [nh1 ah1] eqn:E1.
    assert (Ho : In o nodes) by (apply Hl; left; auto).
    destruct (undo_AttI nodes atts _ _ _ _ _ _ E1 Ha Ho T) as (T1 & N1 & Sub1).
    destruct (undo_frames _ _ _ _ _ _ E1) as [F1 F2].
    destruct (IH _ _ _ _ E (fun x Hx => Hl x (or_intror Hx)) T1) as (T2 & F3 & F4 & N2 & Sub2).
    split; [auto|]. split; [eapply NFrame_trans; eauto|]. split; [eapply AFrame_trans; eauto|]. split.
    + intros x [<-|Hx]; [|auto]. intros H. apply N1. apply Sub2; auto.
    + intros x b Hx Hb. apply Sub1; auto.
Qed.

Lemma WF_remove_attacker s a :
  WF s -> In a (g_atts (s_g s)) -> WF (fst (remove_attacker s a)).
Proof.
  intros W Ha. pose proof W as [A S T I1 I2 I3 B1 B2].
  unfold remove_attacker.
  destruct (fold_left _ (a_reached (s_ah s a)) (s_nh s, s_ah s)) as [nh1 ah1] eqn:E.
  assert (Hl : forall o, In o (a_reached (s_ah s a)) -> In o (g_nodes (s_g s))).
  { intros o Ho. destruct T as (_ & B & _). apply (B a o Ha Ho). }
  destruct (undo_nodes_loop _ _ a Ha _ _ _ _ _ E Hl T) as (T1 & F1 & F2 & N1 & Sub).
  assert (Hclean : forall o, In o (g_nodes (s_g s)) -> ~ In a (n_comp (nh1 o))).
  { intros o Ho H. destruct (in_dec Nat.eq_dec o (a_reached (s_ah s a))) as [Hin|Hnin].
    - apply (N1 o Hin H).
    - apply Hnin. destruct T as (_ & _ & _ & D & _). apply (D a o Ha Ho). apply Sub; auto. }
  destruct I3 as (Ia & Ib & Ic). destruct (Ib a Ha) as (i & Hi & Hd).
  assert (Hid : a_id (ah1 a) = Some i) by (destruct (F2 a) as [_ ->]; exact Hi).
  rewrite Hid. cbn [fst].
  constructor; cbn.
  - destruct A as (a1 & a2 & a3 & a4). split; [auto|]. split; [apply remove1_NoDup; auto|]. split; [auto|].
    intros b Hb. apply remove1_In in Hb. auto.
  - eapply Struct_ext; [| |exact S]; intros o Ho; unfold ch_of, pa_of; cbn; apply F1.
  - apply AttI_restrict_att; auto. apply A.
  - eapply Idx_ext; [|exact I1]. intros o Ho. unfold id_of; cbn. apply F1.
  - eapply Idx_ext; [|exact I2]. intros o Ho. unfold fn_of; cbn. f_equal. apply F1.
  - apply (Idx_ext Z.eqb) with (key := aid_of s).
    + intros b Hb. unfold aid_of; cbn. apply F2.
    + apply (Idx_del Z.eqb Zeqb_spec); auto; [exact (conj Ia (conj Ib Ic)) | apply A].
  - exact B1.
  - apply Below_ddel; auto.
Qed.

(* ------------------------------------------------------------------ add_node *)
Lemma Struct_extend_node nodes ch pa o :
  Struct nodes ch pa -> ~ In o nodes -> ch o = [] -> pa o = [] -> Struct (nodes ++ [o]) ch pa.
Proof.
  intros (A & B & M) No Co Po. split; [|split].
  - intros x c Hx Hc. apply In_app_single. apply In_app_single in Hx. destruct Hx as [Hx| ->].
    + left. eauto.
    + rewrite Co in Hc. destruct Hc.
  - intros x p Hx Hp. apply In_app_single. apply In_app_single in Hx. destruct Hx as [Hx| ->].
    + left. eauto.
    + rewrite Po in Hp. destruct Hp.
  - intros p c Hp Hc. apply In_app_single in Hp. apply In_app_single in Hc.
    destruct Hp as [Hp| ->], Hc as [Hc| ->]; auto.
    + rewrite Po. cbn. apply notIn_cnt. intros H. apply No. eauto.
    + rewrite Co. cbn. symmetry. apply notIn_cnt. intros H. apply No. eauto.
    + rewrite Co, Po. reflexivity.
Qed.

Lemma WF_add_node s o idopt :
  WF s -> o < s_nn s -> ~ In o (g_nodes (s_g s)) ->
  n_children (s_nh s o) = [] -> n_parents (s_nh s o) = [] -> n_comp (s_nh s o) = [] ->
  (let i := match idopt with Some i => i | None => g_next_node (s_g s) end in
   dget seqb (g_name2node (s_g s)) (full_name (set_id (s_nh s o) (Some i))) = None) ->
  WF (fst (add_node s o idopt)).
Proof.
  intros W Lo No Co Po Mo Hfn. pose proof W as [A S T I1 I2 I3 B1 B2]. unfold add_node.
  match goal with |- context [if ?c then _ else _] => destruct c eqn:Hused end; cbn [fst]; auto.
  apply orb_false_iff in Hused. destruct Hused as [_ Hu].
  set (i := match idopt with Some i => i | None => g_next_node (s_g s) end) in *.
  assert (Hi : dget Z.eqb (g_id2node (s_g s)) i = None).
  { unfold i. destruct idopt as [k|].
    - unfold dhas in Hu. destruct (dget Z.eqb (g_id2node (s_g s)) k); auto; discriminate.
    - apply Below_fresh; auto. }
  set (nh' := updn (s_nh s) o (fun n => set_id n (Some i))).
  assert (Hsame : forall x, n_children (nh' x) = n_children (s_nh s x) /\ n_parents (nh' x) = n_parents (s_nh s x) /\
                            n_comp (nh' x) = n_comp (s_nh s x)) by (intros x; unfold nh'; ueq).
  assert (Hoth : forall x, x <> o -> nh' x = s_nh s x) by (intros x Hx; unfold nh'; rewrite updn_other; auto).
  assert (Hnew : nh' o = set_id (s_nh s o) (Some i)) by (unfold nh'; rewrite updn_same; auto).
  constructor; cbn.
  - destruct A as (a1 & a2 & a3 & a4). split; [apply NoDup_app_single; auto|]. split; [auto|]. split; [|auto].
    intros x Hx. apply In_app_single in Hx. destruct Hx as [Hx| ->]; auto.
  - apply (Struct_ext _ (ch_of s) (pa_of s)); try (intros x Hx; unfold ch_of, pa_of; cbn; apply Hsame).
    apply Struct_extend_node; auto.
  - apply (AttI_ext _ _ (comp_of s) (reached_of s) (entry_of s)); auto; try (intros x Hx; unfold comp_of; cbn; apply Hsame).
    apply AttI_extend_node; auto.
  - apply (Idx_add Z.eqb Zeqb_spec) with (key := id_of s); auto.
    + intros x Hx. unfold id_of; cbn. fold nh'. rewrite Hoth; auto. congruence.
    + unfold id_of; cbn. fold nh'. rewrite Hnew. reflexivity.
  - fold nh'. apply (Idx_add seqb seqb_spec) with (key := fn_of s); auto.
    + rewrite Hnew. exact Hfn.
    + intros x Hx. unfold fn_of; cbn. fold nh'. rewrite Hoth; auto. congruence.
  - exact I3.
  - apply Below_dset; auto.
  - exact B2.
Qed.

(* ------------------------------------------------------------------ remove_node *)
Definition u_par (o : nat) := fun m : node => set_parents m (remove1 o (n_parents m)).
Definition u_chi (o : nat) := fun m : node => set_children m (remove1 o (n_children m)).
Lemma iter_u_par o k : forall m,
  n_parents (iter_u (u_par o) k m) = iter_remove k o (n_parents m) /\
  n_children (iter_u (u_par o) k m) = n_children m /\ n_comp (iter_u (u_par o) k m) = n_comp m /\
  n_id (iter_u (u_par o) k m) = n_id m /\ full_name (iter_u (u_par o) k m) = full_name m.
Proof.
  induction k as [|k IH]; intros m; cbn; [auto 6|].
  destruct (IH (u_par o m)) as (A & B & Cc & D & E). rewrite A, B, Cc, D, E. cbn. auto 6.
Qed.
Lemma iter_u_chi o k : forall m,
  n_children (iter_u (u_chi o) k m) = iter_remove k o (n_children m) /\
  n_parents (iter_u (u_chi o) k m) = n_parents m /\ n_comp (iter_u (u_chi o) k m) = n_comp m /\
  n_id (iter_u (u_chi o) k m) = n_id m /\ full_name (iter_u (u_chi o) k m) = full_name m.
Proof.
  induction k as [|k IH]; intros m; cbn; [auto 6|].
  destruct (IH (u_chi o m)) as (A & B & Cc & D & E). rewrite A, B, Cc, D, E. cbn. auto 6.
Qed.

Lemma undo_atts_loop nodes atts o :
  In o nodes -> forall l nh ah nh' ah',
  fold_left (fun '(h, ah) a => undo_compromise h ah a o) l (nh, ah) = (nh', ah') ->
  (forall a, In a l -> In a atts) ->
  AttI nodes atts (compf nh) (reachedf ah) (entryf ah) ->
  AttI nodes atts (compf nh') (reachedf ah') (entryf ah') /\ NFrame nh nh' /\ AFrame ah ah' /\
  (forall a, In a l -> ~ In a (n_comp (nh' o))) /\
  (forall x b, In x nodes -> In b (n_comp (nh' x)) -> In b (n_comp (nh x))).
Proof.
  intros Ho. induction l as [|a r IH]; intros nh ah nh' ah' E Hl T; cbn in E.
  - inversion E; subst. split; [auto|]. split; [apply NFrame_refl|]. split; [apply AFrame_refl|].
    split; [intros a []|auto].
  - destruct (undo_compromise nh ah a o) as [nh1 ah1] eqn:E1.
    assert (Ha : In a atts) by (apply Hl; left; auto).
    destruct (undo_AttI nodes atts _ _ _ _ _ _ E1 Ha Ho T) as (T1 & N1 & Sub1).
    destruct (undo_frames _ _ _ _ _ _ E1) as [F1 F2].
    destruct (IH _ _ _ _ E (fun x Hx => Hl x (or_intror Hx)) T1) as (T2 & F3 & F4 & N2 & Sub2).
    split; [auto|]. split; [eapply NFrame_trans; eauto|]. split; [eapply AFrame_trans; eauto|]. split.
    + intros x [<-|Hx]; [|auto]. intros H. apply N1. apply Sub2; auto.
    + intros x b Hx Hb. apply Sub1; auto.
Qed.

Definition u_ent (o : nat) := fun x : attacker => set_entry x (remove_all o (a_entry x)).
Lemma iter_u_ent o k : forall t,
  a_reached (iter_u (u_ent o) k t) = a_reached t /\ a_id (iter_u (u_ent o) k t) = a_id t /\
  (forall y, In y (a_entry (iter_u (u_ent o) k t)) -> In y (a_entry t)) /\
  (k >= 1 -> ~ In o (a_entry (iter_u (u_ent o) k t))).
Proof.
  induction k as [|k IH]; intros t; cbn.
  - repeat split; auto. lia.
  - destruct (IH (u_ent o t)) as (A & B & Cc & D). rewrite A, B. cbn. repeat split; auto.
    + intros y Hy. apply Cc in Hy. cbn in Hy. apply remove_all_In in Hy. tauto.
    + intros _ H. apply Cc in H. cbn in H. apply remove_all_In in H. tauto.
Qed.

Lemma AttI_entry_sub nodes atts comp reached entry entry' :
  (forall a y, In a atts -> In y (entry' a) -> In y (entry a)) ->
  AttI nodes atts comp reached entry -> AttI nodes atts comp reached entry'.
Proof.
  intros Sub (A & B & Cc & D & F & G). split; [|split; [|split; [|split; [|split]]]]; auto.
  intros a y Ha Hy. eauto.
Qed.

(* labels and static fields are untouched by the structural operations *)
Definition Lab (n : node) :=
  (n_viable n, n_necessary n, n_type n, n_def n, n_exist n, (n_tags n, n_ttc n, n_extras n, n_mitre n, n_name n, n_asset n)).
Lemma fold_updn_lab (f : node -> node) : (forall m, Lab (f m) = Lab m) ->
  forall l h x, Lab (fold_left (fun h c => updn h c f) l h x) = Lab (h x).
Proof.
  intros Hf. induction l as [|c r IH]; intros h x; cbn; auto.
  rewrite IH. unfold updn. destruct (Nat.eqb x c); auto.
Qed.
Lemma undo_lab nh ah a o nh' ah' : undo_compromise nh ah a o = (nh', ah') -> forall x, Lab (nh' x) = Lab (nh x).
Proof.
  unfold undo_compromise. destruct (memn a (n_comp (nh o))); intros E x; inversion E; subst; auto.
  unfold updn. destruct (Nat.eqb x o); auto.
Qed.
Lemma compromise_lab nh ah a o nh' ah' : compromise nh ah a o = (nh', ah') -> forall x, Lab (nh' x) = Lab (nh x).
Proof.
  unfold compromise. destruct (memn a (n_comp (nh o))); intros E x; inversion E; subst; auto.
  unfold updn. destruct (Nat.eqb x o); auto.
Qed.
Lemma fold_undo_atts_lab o : forall l nh ah nh' ah',
  fold_left (fun '(h, ah) a => undo_compromise h ah a o) l (nh, ah) = (nh', ah') -> forall x, Lab (nh' x) = Lab (nh x).
Proof.
  induction l as [|a r IH]; intros nh ah nh' ah' E x; cbn in E; [inversion E; auto|].
  destruct (undo_compromise nh ah a o) as [nh1 ah1] eqn:E1. rewrite (IH _ _ _ _ E). eapply undo_lab; eauto.
Qed.
Lemma remove_node_lab s o x : Lab (s_nh (fst (remove_node s o)) x) = Lab (s_nh s x).
Proof.
  unfold remove_node.
  match goal with |- context [fold_left (fun '(h, ah) a => undo_compromise h ah a o) ?l (?h0, ?a0)] =>
    destruct (fold_left (fun '(h, ah) a => undo_compromise h ah a o) l (h0, a0)) as [nh3 ah3] eqn:E3 end.
  assert (L3 := fold_undo_atts_lab o _ _ _ _ _ E3 x).
  rewrite !fold_updn_lab in L3 by reflexivity.
  destruct (n_id (nh3 o)); cbn; exact L3.
Qed.

Lemma WF_remove_node s o :
  WF s -> In o (g_nodes (s_g s)) ->
  WF (fst (remove_node s o)) /\ g_nodes (s_g (fst (remove_node s o))) = remove1 o (g_nodes (s_g s)).
Proof.
  intros W Ho. pose proof W as [A S T I1 I2 I3 B1 B2]. unfold remove_node.
  set (nh := s_nh s).
  set (nh1 := fold_left (fun h c => updn h c (fun m => set_parents m (remove1 o (n_parents m)))) (n_children (nh o)) nh).
  set (nh2 := fold_left (fun h p => updn h p (fun m => set_children m (remove1 o (n_children m)))) (n_parents (nh1 o)) nh1).
  assert (H1 : forall x, nh1 x = iter_u (u_par o) (cnt (n_children (nh o)) x) (nh x)).
  { intros x. unfold nh1. apply (fold_hupd (u_par o)). }
  assert (H2 : forall x, nh2 x = iter_u (u_chi o) (cnt (n_parents (nh1 o)) x) (nh1 x)).
  { intros x. unfold nh2. apply (fold_hupd (u_chi o)). }
  destruct (fold_left (fun '(h, ah) a => undo_compromise h ah a o) (n_comp (nh2 o)) (nh2, s_ah s)) as [nh3 ah3] eqn:E3.
  set (ah4 := fold_left (fun ah a => upda ah a (fun x => set_entry x (remove_all o (a_entry x)))) (g_atts (s_g s)) ah3).
  assert (H4 : forall b, ah4 b = iter_u (u_ent o) (cnt (g_atts (s_g s)) b) (ah3 b)).
  { intros b. unfold ah4. apply (fold_hupd (u_ent o)). }
  (* fields of nh2 in terms of nh *)
  assert (F12 : forall x,
     n_parents (nh2 x) = iter_remove (cnt (n_children (nh o)) x) o (n_parents (nh x)) /\
     n_children (nh2 x) = iter_remove (cnt (n_parents (nh1 o)) x) o (n_children (nh x)) /\
     n_comp (nh2 x) = n_comp (nh x) /\ n_id (nh2 x) = n_id (nh x) /\ full_name (nh2 x) = full_name (nh x)).
  { intros x. rewrite H2. destruct (iter_u_chi o (cnt (n_parents (nh1 o)) x) (nh1 x)) as (a & b & c & d & e).
    rewrite a, b, c, d, e. rewrite H1.
    destruct (iter_u_par o (cnt (n_children (nh o)) x) (nh x)) as (a' & b' & c' & d' & e').
    rewrite a', b', c', d', e'. auto 6. }
  assert (P1o : forall x, x <> o -> cnt (n_parents (nh1 o)) x = cnt (n_parents (nh o)) x).
  { intros x Hx. rewrite H1. destruct (iter_u_par o (cnt (n_children (nh o)) o) (nh o)) as (a & _).
    rewrite a. apply cnt_iter_remove_other. auto. }
  (* the attacker loop *)
  assert (T2 : AttI (g_nodes (s_g s)) (g_atts (s_g s)) (compf nh2) (reachedf (s_ah s)) (entryf (s_ah s))).
  { eapply AttI_ext; [| | |exact T]; auto. intros x Hx. unfold comp_of. apply F12. }
  assert (Hl : forall a, In a (n_comp (nh2 o)) -> In a (g_atts (s_g s))).
  { intros a Ha. destruct T2 as (A2 & _). apply (A2 o a Ho Ha). }
  destruct (undo_atts_loop _ _ o Ho _ _ _ _ _ E3 Hl T2) as (T3 & F3 & F4 & N3 & Sub3).
  assert (Hid : exists i, n_id (nh3 o) = Some i /\ dget Z.eqb (g_id2node (s_g s)) i = Some o).
  { destruct I1 as (_ & Ib & _). destruct (Ib o Ho) as (i & Hi & Hd). exists i. split; auto.
    destruct (F3 o) as (_ & _ & -> & _). destruct (F12 o) as (_ & _ & _ & -> & _). exact Hi. }
  destruct Hid as (i & Hid & Hdi). rewrite Hid. cbn [fst s_g s_nh g_nodes].
  split; [|reflexivity].
  assert (NdN : NoDup (g_nodes (s_g s))) by apply A.
  assert (FN : forall x, n_children (nh3 x) = n_children (nh2 x) /\ n_parents (nh3 x) = n_parents (nh2 x) /\
                         n_id (nh3 x) = n_id (nh x) /\ full_name (nh3 x) = full_name (nh x)).
  { intros x. destruct (F3 x) as (a & b & c & d). destruct (F12 x) as (_ & _ & _ & e & f). repeat split; congruence. }
  constructor; cbn.
  - destruct A as (a1 & a2 & a3 & a4). split; [apply remove1_NoDup; auto|]. split; [auto|]. split; [|auto].
    intros x Hx. apply remove1_In in Hx. auto.
  - (* Struct *)
    destruct S as (S1 & S2 & S3). unfold ch_of, pa_of in *. fold nh in S1, S2, S3.
    assert (CH : forall x, In x (g_nodes (s_g s)) -> x <> o ->
              n_children (nh3 x) = iter_remove (cnt (n_children (nh x)) o) o (n_children (nh x))).
    { intros x Hx Nx. destruct (FN x) as (-> & _). destruct (F12 x) as (_ & -> & _).
      rewrite P1o by auto. rewrite (S3 x o Hx Ho). reflexivity. }
    assert (PA : forall x, In x (g_nodes (s_g s)) -> x <> o ->
              n_parents (nh3 x) = iter_remove (cnt (n_parents (nh x)) o) o (n_parents (nh x))).
    { intros x Hx Nx. destruct (FN x) as (_ & -> & _). destruct (F12 x) as (-> & _).
      rewrite (S3 o x Ho Hx). reflexivity. }
    split; [|split].
    + intros x c Hx Hc. apply remove1_NoDup_iff in Hx; auto. destruct Hx as [Hx Nx].
      cbn in Hc. rewrite CH in Hc by auto. apply remove1_NoDup_iff; auto. split.
      * apply In_iter_remove in Hc. eauto.
      * intros ->. apply In_cnt in Hc. rewrite cnt_iter_remove_same in Hc. lia.
    + intros x p Hx Hp. apply remove1_NoDup_iff in Hx; auto. destruct Hx as [Hx Nx].
      cbn in Hp. rewrite PA in Hp by auto. apply remove1_NoDup_iff; auto. split.
      * apply In_iter_remove in Hp. eauto.
      * intros ->. apply In_cnt in Hp. rewrite cnt_iter_remove_same in Hp. lia.
    + intros p c Hp Hc. apply remove1_NoDup_iff in Hp; auto. apply remove1_NoDup_iff in Hc; auto.
      destruct Hp as [Hp Np], Hc as [Hc Nc]. cbn. rewrite CH, PA by auto.
      rewrite !cnt_iter_remove_other by auto. auto.
  - (* AttI *)
    assert (Hno : forall a, In a (g_atts (s_g s)) -> ~ In o (a_reached (ah3 a))).
    { intros a Ha H. destruct T3 as (_ & _ & _ & D & _). apply (D a o Ha Ho) in H.
      apply (N3 a); auto. }
    apply AttI_restrict_node; auto.
    + apply (AttI_ext _ _ (compf nh3) (reachedf ah3) (entryf ah4)); auto.
      * intros a Ha. unfold reached_of; cbn. rewrite H4. apply iter_u_ent.
      * apply (AttI_entry_sub _ _ _ _ (entryf ah3)); auto.
        intros a y Ha. rewrite H4. apply iter_u_ent.
    + intros a Ha. unfold reached_of; cbn. rewrite H4.
      destruct (iter_u_ent o (cnt (g_atts (s_g s)) a) (ah3 a)) as (-> & _). auto.
    + intros a Ha. unfold entry_of; cbn. rewrite H4. apply iter_u_ent. apply In_cnt in Ha. lia.
  - apply (Idx_ext Z.eqb) with (key := id_of s).
    + intros x Hx. unfold id_of; cbn. apply FN.
    + apply (Idx_del Z.eqb Zeqb_spec); auto. unfold id_of. fold nh. destruct (FN o) as (_ & _ & E & _). rewrite <- E. exact Hid.
  - apply (Idx_ext seqb) with (key := fn_of s).
    + intros x Hx. unfold fn_of; cbn. f_equal. apply FN.
    + destruct (FN o) as (_ & _ & _ & ->). apply (Idx_del seqb seqb_spec); auto.
  - apply (Idx_ext Z.eqb) with (key := aid_of s); auto.
    intros a Ha. unfold aid_of; cbn. rewrite H4.
    destruct (iter_u_ent o (cnt (g_atts (s_g s)) a) (ah3 a)) as (_ & -> & _). apply F4.
  - apply Below_ddel; auto.
  - exact B2.
Qed.

(* ------------------------------------------------------------------ prune *)
Lemma remove1_filter o l : NoDup l -> remove1 o l = filter (fun x => negb (Nat.eqb o x)) l.
Proof.
  induction 1 as [|a r Hn Hd IH]; cbn; auto.
  destruct (Nat.eqb_spec o a) as [->|N]; cbn.
  - symmetry. apply filter_all_true. intros x Hx.
    apply negb_true_iff, Nat.eqb_neq. intros ->. auto.
  - f_equal. apply IH.
Qed.
Lemma prunable_Lab n m : Lab n = Lab m -> prunable n = prunable m.
Proof. unfold Lab, prunable, is_or, is_and. intros E. inversion E. congruence. Qed.

Lemma WF_prune_loop : forall l s, WF s -> NoDup l -> (forall o, In o l -> In o (g_nodes (s_g s))) ->
  let s' := fold_left (fun s o => if prunable (s_nh s o) then fst (remove_node s o) else s) l s in
  WF s' /\
  g_nodes (s_g s') = filter (fun o => negb (memn o l && prunable (s_nh s o))) (g_nodes (s_g s)) /\
  (forall x, Lab (s_nh s' x) = Lab (s_nh s x)).
Proof.
  induction l as [|o r IH]; intros s W Nd Hl; cbn [fold_left].
  - cbn. split; [auto|]. split; [|auto]. symmetry. apply filter_all_true. auto.
  - inversion Nd as [|? ? Hno Hnd]; subst.
    assert (Ho : In o (g_nodes (s_g s))) by (apply Hl; left; auto).
    set (s1 := if prunable (s_nh s o) then fst (remove_node s o) else s).
    assert (W1 : WF s1) by (unfold s1; destruct (prunable (s_nh s o)); auto; apply WF_remove_node; auto).
    assert (L1 : forall x, Lab (s_nh s1 x) = Lab (s_nh s x)).
    { intros x. unfold s1. destruct (prunable (s_nh s o)); auto. apply remove_node_lab. }
    assert (NdN : NoDup (g_nodes (s_g s))) by apply W.
    assert (N1 : g_nodes (s_g s1) = if prunable (s_nh s o) then filter (fun x => negb (Nat.eqb o x)) (g_nodes (s_g s))
                                    else g_nodes (s_g s)).
    { unfold s1. destruct (prunable (s_nh s o)); auto.
      destruct (WF_remove_node s o W Ho) as [_ ->]. apply remove1_filter; auto. }
    assert (Hl1 : forall x, In x r -> In x (g_nodes (s_g s1))).
    { intros x Hx. rewrite N1. assert (In x (g_nodes (s_g s))) by (apply Hl; right; auto).
      destruct (prunable (s_nh s o)); auto. apply filter_In. split; auto.
      apply negb_true_iff, Nat.eqb_neq. intros ->. auto. }
    destruct (IH s1 W1 Hnd Hl1) as (W' & N' & L').
    split; [exact W'|]. split.
    + cbn zeta in N'. fold s1. rewrite N'. rewrite N1.
      destruct (prunable (s_nh s o)) eqn:Po.
      * rewrite filter_filter. apply filter_ext_in. intros x Hx. rewrite (prunable_Lab _ _ (L1 x)).
        cbn [memn existsb]. fold (memn x r).
        destruct (Nat.eqb_spec o x), (Nat.eqb_spec x o); subst; try congruence; rewrite ?Po;
          repeat match goal with |- context [memn ?y r] => destruct (memn y r) | |- context [prunable ?n] => destruct (prunable n) end; cbn; auto.
      * apply filter_ext_in. intros x Hx. rewrite (prunable_Lab _ _ (L1 x)).
        cbn [memn existsb]. fold (memn x r).
        destruct (Nat.eqb_spec x o); subst; rewrite ?Po;
          repeat match goal with |- context [memn ?y r] => destruct (memn y r) | |- context [prunable ?n] => destruct (prunable n) end; cbn; auto.
    + intros x. cbn zeta in L'. fold s1. rewrite L'. apply L1.
Qed.

Lemma WF_prune s : WF s ->
  WF (prune s) /\
  g_nodes (s_g (prune s)) = filter (fun o => negb (prunable (s_nh s o))) (g_nodes (s_g s)) /\
  (forall x, Lab (s_nh (prune s) x) = Lab (s_nh s x)).
Proof.
  intros W. destruct (WF_prune_loop (g_nodes (s_g s)) s W) as (A & B & L); auto. { apply W. }
  split; [exact A|]. split; [|exact L].
  unfold prune. rewrite B. apply filter_ext_in. intros x Hx.
  apply memn_In in Hx. rewrite Hx. reflexivity.
Qed.

(* ------------------------------------------------------------------ replacing the heaps under frames *)
Lemma WF_heaps s nh' ah' :
  WF s -> NFrame (s_nh s) nh' -> (forall b, a_id (ah' b) = a_id (s_ah s b)) ->
  AttI (g_nodes (s_g s)) (g_atts (s_g s)) (compf nh') (reachedf ah') (entryf ah') ->
  WF (mkSt nh' ah' (s_nn s) (s_na s) (s_g s)).
Proof.
  intros [A S T I1 I2 I3 B1 B2] F G T'. constructor; cbn; auto.
  - eapply Struct_ext; [| |exact S]; intros o Ho; unfold ch_of, pa_of; cbn; apply F.
  - eapply Idx_ext; [|exact I1]. intros o Ho. unfold id_of; cbn. apply F.
  - eapply Idx_ext; [|exact I2]. intros o Ho. unfold fn_of; cbn. f_equal. apply F.
  - eapply Idx_ext; [|exact I3]. intros b Hb. unfold aid_of; cbn. apply G.
Qed.

Lemma WF_compromise s a o :
  WF s -> In a (g_atts (s_g s)) -> In o (g_nodes (s_g s)) ->
  WF (let '(nh, ah) := compromise (s_nh s) (s_ah s) a o in mkSt nh ah (s_nn s) (s_na s) (s_g s)).
Proof.
  intros W Ha Ho. destruct (compromise (s_nh s) (s_ah s) a o) as [nh ah] eqn:E.
  destruct (compromise_frames _ _ _ _ _ _ E) as [F1 F2].
  destruct (compromise_AttI _ _ _ _ _ _ _ _ E Ha Ho (wf_att s W)) as [T _].
  apply WF_heaps; auto. intros b. apply F2.
Qed.
Lemma WF_undo s a o :
  WF s -> In a (g_atts (s_g s)) -> In o (g_nodes (s_g s)) ->
  WF (let '(nh, ah) := undo_compromise (s_nh s) (s_ah s) a o in mkSt nh ah (s_nn s) (s_na s) (s_g s)).
Proof.
  intros W Ha Ho. destruct (undo_compromise (s_nh s) (s_ah s) a o) as [nh ah] eqn:E.
  destruct (undo_frames _ _ _ _ _ _ E) as [F1 F2].
  destruct (undo_AttI _ _ _ _ _ _ _ _ E Ha Ho (wf_att s W)) as [T _].
  apply WF_heaps; auto. intros b. apply F2.
Qed.

(* ------------------------------------------------------------------ attach_attackers *)
Lemma attach_entries_spec g nodes atts a :
  In a atts -> (forall k o, dget seqb (g_name2node g) k = Some o -> In o nodes) ->
  forall names nh ah nh' ah', attach_entries g nh ah a names = (nh', ah') ->
  AttI nodes atts (compf nh) (reachedf ah) (entryf ah) ->
  AttI nodes atts (compf nh') (reachedf ah') (entryf ah') /\ NFrame nh nh' /\ AFrame ah ah'.
Proof.
  intros Ha Hidx. induction names as [|fn r IH]; intros nh ah nh' ah' E T; cbn in E.
  - inversion E; subst. split; [auto|]. split; [apply NFrame_refl | apply AFrame_refl].
  - destruct (dget seqb (g_name2node g) fn) as [o|] eqn:Ei; [|eauto].
    destruct (compromise nh ah a o) as [nh1 ah1] eqn:Ec.
    destruct (compromise_frames _ _ _ _ _ _ Ec) as [F1 F2].
    destruct (compromise_AttI nodes atts _ _ _ _ _ _ Ec Ha (Hidx _ _ Ei) T) as [T1 _].
    destruct (IH _ _ _ _ E T1) as (T2 & F3 & F4).
    split; [auto|]. split; [eapply NFrame_trans; eauto | eapply AFrame_trans; eauto].
Qed.

Lemma add_attacker_ok s a i r e s' : add_attacker s a i r e = (s', Ok) -> In a (g_atts (s_g s')).
Proof.
  unfold add_attacker.
  destruct (dhas Z.eqb _ _); [intros E; inversion E|].
  destruct (reach_ids _ _ _ _ _) as [[nh1 ah1] ok1]. destruct (negb ok1); [intros E; inversion E|].
  destruct (entry_ids _ _ _ _) as [ah2 ok2]. destruct (negb ok2); [intros E; inversion E|].
  intros E; inversion E; subst; cbn. apply In_app_single; auto.
Qed.

Lemma WF_attach_one s name eps : WF s -> WF (fst (attach_one s name eps)).
Proof.
  intros W. unfold attach_one.
  assert (W0 : WF (new_att s name)) by (apply WF_new_att; auto).
  unfold new_att in W0.
  match type of W0 with WF ?t => set (s0 := t) in * end.
  assert (Na : ~ In (s_na s) (g_atts (s_g s0))).
  { cbn. intros H. destruct (wf_alloc s W) as (_ & _ & _ & A). specialize (A _ H). lia. }
  destruct (add_attacker s0 (s_na s) None [] []) as [s1 oc] eqn:E1.
  assert (W1 : WF s1).
  { replace s1 with (fst (add_attacker s0 (s_na s) None [] [])) by (rewrite E1; auto).
    apply WF_add_attacker; auto; cbn; try lia; rewrite upda_same; auto. }
  destruct oc; auto.
  assert (Ha1 : In (s_na s) (g_atts (s_g s1))) by (eapply add_attacker_ok; eauto).
  destruct (attach_entries (s_g s1) (s_nh s1) (s_ah s1) (s_na s) eps) as [nh2 ah2] eqn:E2.
  assert (Hidx : forall k o, dget seqb (g_name2node (s_g s1)) k = Some o -> In o (g_nodes (s_g s1))).
  { intros k o Hk. apply (wf_idx_name s1 W1) in Hk. tauto. }
  destruct (attach_entries_spec (s_g s1) _ _ (s_na s) Ha1 Hidx _ _ _ _ _ E2 (wf_att s1 W1)) as (T2 & F1 & F2).
  cbn [fst]. apply (WF_heaps s1); auto.
  - intros b. unfold upda. destruct (Nat.eqb b (s_na s)); cbn; apply F2.
  - destruct T2 as (A & B & Cc & D & F & G).
    split; [|split; [|split; [|split; [|split]]]]; auto.
    + intros b x Hb. replace (a_reached _) with (a_reached (ah2 b)) by ueq. eauto.
    + intros b x Hb. unfold upda. destruct (Nat.eqb b (s_na s)); cbn; eauto.
    + intros b x Hb Hx. replace (a_reached _) with (a_reached (ah2 b)) by ueq. apply D; auto.
    + intros b Hb. replace (a_reached _) with (a_reached (ah2 b)) by ueq. auto.
Qed.

Lemma WF_attach : forall infos s, WF s -> WF (fst (attach_attackers s infos)).
Proof.
  induction infos as [|[name eps] r IH]; intros s W; cbn [attach_attackers]; auto.
  destruct (seqb name ""); auto.
  pose proof (WF_attach_one s name eps W) as W1.
  destruct (attach_one s name eps) as [s1 oc]. cbn in W1. destruct oc; auto.
Qed.

(* ------------------------------------------------------------------ deepcopy *)
Lemma index_of_lt x l : In x l -> index_of x l < List.length l.
Proof.
  induction l as [|a r IH]; cbn; [tauto|]. intros H. destruct (Nat.eqb_spec x a); [lia|].
  destruct H as [->|H]; [congruence|]. specialize (IH H). lia.
Qed.
Lemma nth_index_of x l : In x l -> nth (index_of x l) l 0 = x.
Proof.
  induction l as [|a r IH]; cbn; [tauto|]. intros H. destruct (Nat.eqb_spec x a); [auto|].
  destruct H as [->|H]; [congruence|]. auto.
Qed.
Lemma index_of_inj x y l : In x l -> In y l -> index_of x l = index_of y l -> x = y.
Proof. intros Hx Hy E. rewrite <- (nth_index_of x l Hx), <- (nth_index_of y l Hy), E. reflexivity. Qed.

Section InjOn.
Variable f : nat -> nat.
Variable dom : list nat.
Hypothesis inj : forall x y, In x dom -> In y dom -> f x = f y -> x = y.
Lemma In_map_inj_on x l : In x dom -> incl l dom -> (In (f x) (map f l) <-> In x l).
Proof.
  intros Hx Hl. split; [|apply in_map]. intros H. apply in_map_iff in H. destruct H as (y & E & Hy).
  apply inj in E; auto. subst; auto.
Qed.
Lemma cnt_map_inj_on x l : In x dom -> incl l dom -> cnt (map f l) (f x) = cnt l x.
Proof.
  intros Hx. induction l as [|a r IH]; intros Hl; cbn; auto.
  assert (Ha : In a dom) by (apply Hl; left; auto).
  assert (Hr : incl r dom) by (intros z Hz; apply Hl; right; auto).
  destruct (Nat.eq_dec (f a) (f x)) as [E|N], (Nat.eq_dec a x) as [E'|N']; auto.
  - apply inj in E; auto. congruence.
  - subst. congruence.
Qed.
Lemma NoDup_map_inj_on l : incl l dom -> NoDup l -> NoDup (map f l).
Proof.
  induction l as [|a r IH]; intros Hl H; cbn; [constructor|]. inversion H; subst.
  assert (Ha : In a dom) by (apply Hl; left; auto).
  assert (Hr : incl r dom) by (intros z Hz; apply Hl; right; auto).
  constructor; auto. rewrite In_map_inj_on; auto.
Qed.
End InjOn.

Lemma dget_map_vals {K} (keqb : K -> K -> bool) (f : nat -> nat) (d : list (K * nat)) k :
  dget keqb (map (fun kv => (fst kv, f (snd kv))) d) k = option_map f (dget keqb d k).
Proof. induction d as [|[k' v] r IH]; cbn; auto. destruct (keqb k k'); auto. Qed.
Lemma dkeys_map_vals {K} (f : nat -> nat) (d : list (K * nat)) :
  dkeys (map (fun kv => (fst kv, f (snd kv))) d) = dkeys d.
Proof. unfold dkeys. rewrite map_map. reflexivity. Qed.

Lemma Idx_map {K} (keqb : K -> K -> bool) objs key d (f : nat -> nat) key' :
  (forall x y, In x objs -> In y objs -> f x = f y -> x = y) ->
  (forall o, In o objs -> key' (f o) = key o) ->
  Idx keqb objs key d -> Idx keqb (map f objs) key' (map (fun kv => (fst kv, f (snd kv))) d).
Proof.
  intros inj Hk (A & B & N). split; [|split].
  - intros k o'. rewrite dget_map_vals. destruct (dget keqb d k) as [o|] eqn:E; cbn; [|discriminate].
    intros E'; inversion E'; subst. destruct (A _ _ E) as [Ho Hko]. split; [apply in_map; auto|].
    rewrite Hk; auto.
  - intros o' Ho'. apply in_map_iff in Ho'. destruct Ho' as (o & <- & Ho).
    destruct (B o Ho) as (k & Hko & Hd). exists k. rewrite Hk by auto. split; auto.
    rewrite dget_map_vals, Hd. reflexivity.
  - rewrite dkeys_map_vals. auto.
Qed.

Lemma WF_deepcopy s : WF s -> WF (deepcopy s).
Proof.
  intros W. pose proof W as [A S T I1 I2 I3 B1 B2].
  destruct A as (NdN & NdA & AlN & AlA).
  set (nodes := g_nodes (s_g s)) in *. set (atts := g_atts (s_g s)) in *.
  set (mn := fun o => s_nn s + index_of o nodes).
  set (ma := fun a => s_na s + index_of a atts).
  assert (injn : forall x y, In x nodes -> In y nodes -> mn x = mn y -> x = y).
  { intros x y Hx Hy E. unfold mn in E. apply (index_of_inj x y nodes); auto. lia. }
  assert (inja : forall x y, In x atts -> In y atts -> ma x = ma y -> x = y).
  { intros x y Hx Hy E. unfold ma in E. apply (index_of_inj x y atts); auto. lia. }
  assert (NH : forall o, In o nodes ->
     s_nh (deepcopy s) (mn o) =
     let n := s_nh s o in
     mkNode (n_type n) (n_name n) (n_id n) (n_asset n) (map mn (n_children n)) (map mn (n_parents n))
            (map ma (n_comp n)) (n_def n) (n_exist n) (n_viable n) (n_necessary n) (n_mitre n)
            (n_ttc n) (n_tags n) (n_extras n)).
  { intros o Ho. pose proof (index_of_lt o nodes Ho) as L.
    assert (C1 : Nat.leb (s_nn s) (mn o) = true) by (apply Nat.leb_le; unfold mn; lia).
    assert (C2 : Nat.ltb (mn o) (s_nn s + List.length nodes) = true) by (apply Nat.ltb_lt; unfold mn; lia).
    assert (C3 : nth (mn o - s_nn s) nodes 0 = o).
    { replace (mn o - s_nn s) with (index_of o nodes) by (unfold mn; lia). apply nth_index_of; auto. }
    unfold deepcopy. cbn [s_nh]. fold nodes. rewrite C1, C2. cbn [andb]. rewrite C3. reflexivity. }
  assert (AH : forall a, In a atts ->
     s_ah (deepcopy s) (ma a) =
     let x := s_ah s a in mkAtt (a_name x) (a_id x) (map mn (a_entry x)) (map mn (a_reached x))).
  { intros a Ha. pose proof (index_of_lt a atts Ha) as L.
    assert (C1 : Nat.leb (s_na s) (ma a) = true) by (apply Nat.leb_le; unfold ma; lia).
    assert (C2 : Nat.ltb (ma a) (s_na s + List.length atts) = true) by (apply Nat.ltb_lt; unfold ma; lia).
    assert (C3 : nth (ma a - s_na s) atts 0 = a).
    { replace (ma a - s_na s) with (index_of a atts) by (unfold ma; lia). apply nth_index_of; auto. }
    unfold deepcopy. cbn [s_ah]. fold atts. rewrite C1, C2. cbn [andb]. rewrite C3. reflexivity. }
  destruct S as (S1 & S2 & S3). destruct T as (T1 & T2 & T3 & T4 & T5 & T6).
  unfold ch_of, pa_of, comp_of, reached_of, entry_of in *.
  assert (Gn : g_nodes (s_g (deepcopy s)) = map mn nodes) by reflexivity.
  assert (Ga : g_atts (s_g (deepcopy s)) = map ma atts) by reflexivity.
  constructor; rewrite ?Gn, ?Ga.
  - split; [apply (NoDup_map_inj_on mn nodes); auto; apply incl_refl|].
    split; [apply (NoDup_map_inj_on ma atts); auto; apply incl_refl|]. split.
    + intros o' Ho'. apply in_map_iff in Ho'. destruct Ho' as (o & <- & Ho). cbn.
      pose proof (index_of_lt o nodes Ho). unfold mn. fold nodes. lia.
    + intros a' Ha'. apply in_map_iff in Ha'. destruct Ha' as (a & <- & Ha). cbn.
      pose proof (index_of_lt a atts Ha). unfold ma. fold atts. lia.
  - unfold ch_of, pa_of. split; [|split].
    + intros o' c' Ho'. apply in_map_iff in Ho'. destruct Ho' as (o & <- & Ho). cbv beta. rewrite NH by auto. cbn.
      intros Hc. apply in_map_iff in Hc. destruct Hc as (c & <- & Hc). apply in_map. eauto.
    + intros o' p' Ho'. apply in_map_iff in Ho'. destruct Ho' as (o & <- & Ho). cbv beta. rewrite NH by auto. cbn.
      intros Hp. apply in_map_iff in Hp. destruct Hp as (p & <- & Hp). apply in_map. eauto.
    + intros p' c' Hp' Hc'. apply in_map_iff in Hp'. apply in_map_iff in Hc'.
      destruct Hp' as (p & <- & Hp), Hc' as (c & <- & Hc). cbv beta. rewrite !NH by auto. cbn.
      rewrite (cnt_map_inj_on mn nodes injn), (cnt_map_inj_on mn nodes injn); auto.
      * intros z Hz. eauto.
      * intros z Hz. eauto.
  - unfold comp_of, reached_of, entry_of. split; [|split; [|split; [|split; [|split]]]].
    + intros o' a' Ho'. apply in_map_iff in Ho'. destruct Ho' as (o & <- & Ho). cbv beta. rewrite NH by auto. cbn.
      intros Hc. apply in_map_iff in Hc. destruct Hc as (a & <- & Hc). apply in_map. eauto.
    + intros a' o' Ha'. apply in_map_iff in Ha'. destruct Ha' as (a & <- & Ha). cbv beta. rewrite AH by auto. cbn.
      intros Hc. apply in_map_iff in Hc. destruct Hc as (o & <- & Hc). apply in_map. eauto.
    + intros a' o' Ha'. apply in_map_iff in Ha'. destruct Ha' as (a & <- & Ha). cbv beta. rewrite AH by auto. cbn.
      intros Hc. apply in_map_iff in Hc. destruct Hc as (o & <- & Hc). apply in_map. eauto.
    + intros a' o' Ha' Ho'. apply in_map_iff in Ha'. apply in_map_iff in Ho'.
      destruct Ha' as (a & <- & Ha), Ho' as (o & <- & Ho). cbv beta. rewrite NH, AH by auto. cbn.
      rewrite (In_map_inj_on ma atts inja), (In_map_inj_on mn nodes injn); auto.
      * intros z Hz. eauto.
      * intros z Hz. eauto.
    + intros o' Ho'. apply in_map_iff in Ho'. destruct Ho' as (o & <- & Ho). cbv beta. rewrite NH by auto. cbn.
      apply (NoDup_map_inj_on ma atts inja); auto. intros z Hz. eauto.
    + intros a' Ha'. apply in_map_iff in Ha'. destruct Ha' as (a & <- & Ha). cbv beta. rewrite AH by auto. cbn.
      apply (NoDup_map_inj_on mn nodes injn); auto. intros z Hz. eauto.
  - apply (Idx_map Z.eqb nodes (id_of s) (g_id2node (s_g s)) mn); auto. intros o Ho. unfold id_of. rewrite NH by auto. reflexivity.
  - apply (Idx_map seqb nodes (fn_of s) (g_name2node (s_g s)) mn); auto. intros o Ho. unfold fn_of. rewrite NH by auto. reflexivity.
  - apply (Idx_map Z.eqb atts (aid_of s) (g_id2att (s_g s)) ma); auto. intros a Ha. unfold aid_of. rewrite AH by auto. reflexivity.
  - intros k Hk. change (In k (dkeys (map (fun kv => (fst kv, mn (snd kv))) (g_id2node (s_g s))))) in Hk.
    rewrite dkeys_map_vals in Hk. apply B1; auto.
  - intros k Hk. change (In k (dkeys (map (fun kv => (fst kv, ma (snd kv))) (g_id2att (s_g s))))) in Hk.
    rewrite dkeys_map_vals in Hk. apply B2; auto.
Qed.

(* ------------------------------------------------------------------ reordering the node list *)
Lemma nodupb_NoDup l : nodupb l = true -> NoDup l.
Proof.
  induction l as [|a r IH]; cbn; [constructor|]. intros H. apply andb_true_iff in H. destruct H as [H1 H2].
  constructor; auto. apply negb_true_iff, memn_nIn in H1. auto.
Qed.
Lemma WF_reorder s l : WF s -> NoDup l -> (forall x, In x l <-> In x (g_nodes (s_g s))) ->
  WF (mkSt (s_nh s) (s_ah s) (s_nn s) (s_na s) (g_set_nodes (s_g s) l)).
Proof.
  intros [A S T I1 I2 I3 B1 B2] Nd Hl. constructor; cbn; auto.
  - destruct A as (a1 & a2 & a3 & a4). split; [auto|]. split; [auto|]. split; [|auto]. intros o Ho. apply a3, Hl; auto.
  - destruct S as (S1 & S2 & S3). split; [|split].
    + intros o c Ho Hc. apply Hl. apply Hl in Ho. eauto.
    + intros o p Ho Hp. apply Hl. apply Hl in Ho. eauto.
    + intros p c Hp Hc. apply Hl in Hp. apply Hl in Hc. apply (S3 p c Hp Hc).
  - destruct T as (T1 & T2 & T3 & T4 & T5 & T6). split; [|split; [|split; [|split; [|split]]]].
    + intros o a Ho. apply Hl in Ho. apply (T1 o a Ho).
    + intros a o Ha Ho. apply Hl. apply (T2 a o Ha Ho).
    + intros a o Ha Ho. apply Hl. apply (T3 a o Ha Ho).
    + intros a o Ha Ho. apply Hl in Ho. apply (T4 a o Ha Ho).
    + intros o Ho. apply Hl in Ho. apply (T5 o Ho).
    + exact T6.
  - destruct I1 as (X & Y & Z). split; [|split]; [| |exact Z].
    + intros k o H. destruct (X k o H) as [P Q]. split; [apply Hl; auto | exact Q].
    + intros o Ho. apply Hl in Ho. apply (Y o Ho).
  - destruct I2 as (X & Y & Z). split; [|split]; [| |exact Z].
    + intros k o H. destruct (X k o H) as [P Q]. split; [apply Hl; auto | exact Q].
    + intros o Ho. apply Hl in Ho. apply (Y o Ho).
Qed.

(* ------------------------------------------------------------------ every step preserves WF *)
Lemma WF_init : WF init.
Proof.
  constructor; cbn.
  - repeat split; try constructor; intros ? [].
  - repeat split; intros; contradiction.
  - split; [|split; [|split; [|split; [|split]]]]; intros; contradiction.
  - split; [|split]; [intros; discriminate | intros ? [] | constructor].
  - split; [|split]; [intros; discriminate | intros ? [] | constructor].
  - split; [|split]; [intros; discriminate | intros ? [] | constructor].
  - intros ? [].
  - intros ? [].
Qed.

Lemma in_graph_In s o : in_graph s o = true <-> In o (g_nodes (s_g s)).
Proof. apply memn_In. Qed.
Lemma att_in_graph_In s a : att_in_graph s a = true <-> In a (g_atts (s_g s)).
Proof. apply memn_In. Qed.

Theorem step_WF s o : WF s -> WF (fst (fst (step s o))).
Proof.
  intros W. unfold step. destruct (guard s o) eqn:G; cbn [negb]; [|auto].
  destruct o; cbn [guard] in G.
  - (* ONew *) cbn. apply WF_new_node; auto.
  - (* OAddNode *)
    apply andb_true_iff in G. destruct G as [G1 G]. apply Nat.ltb_lt in G1.
    destruct (in_graph s o) eqn:G2.
    { (* already in the graph: its id is in the index, add_node raises and changes nothing *)
      apply in_graph_In in G2. destruct (wf_idx_id s W) as (_ & Hin & _). destruct (Hin o G2) as (k & Hk & Hd).
      unfold id_of in Hk. unfold add_node. rewrite Hk. unfold dhas. rewrite Hd. cbn. exact W. }
    cbn [orb] in G. apply andb_true_iff in G. destruct G as [G3 G4].
    assert (No : ~ In o (g_nodes (s_g s))) by (rewrite <- in_graph_In; congruence).
    destruct (n_children (s_nh s o)) eqn:E1; [|discriminate].
    destruct (n_parents (s_nh s o)) eqn:E2; [|discriminate].
    destruct (n_comp (s_nh s o)) eqn:E3; [|discriminate].
    pose proof (WF_add_node s o i W G1 No E1 E2 E3) as L.
    destruct (add_node s o i) as [s' oc]. cbn in *. apply L. clear L.
    unfold dhas in G4.
    destruct (n_asset (s_nh s o)) eqn:Ea.
    + replace (full_name (set_id (s_nh s o) _)) with (full_name (s_nh s o)) by (unfold full_name; cbn; rewrite Ea; auto).
      destruct (dget seqb (g_name2node (s_g s)) (full_name (s_nh s o))); auto; discriminate.
    + match goal with |- ?x = None => destruct x end; auto; discriminate.
  - (* ORemoveNode *)
    apply in_graph_In in G. pose proof (WF_remove_node s o W G) as [L _].
    destruct (remove_node s o) as [s' oc]. exact L.
  - (* OLink *)
    apply andb_true_iff in G. destruct G as [G1 G2]. apply in_graph_In in G1, G2. cbn. apply WF_link; auto.
  - (* ONewAtt *) cbn. apply WF_new_att; auto.
  - (* OAddAtt *)
    apply andb_true_iff in G. destruct G as [G G4]. apply andb_true_iff in G. destruct G as [G G3].
    apply andb_true_iff in G. destruct G as [G1 G2].
    apply Nat.ltb_lt in G1. apply negb_true_iff in G2.
    assert (Na : ~ In a (g_atts (s_g s))) by (rewrite <- att_in_graph_In; congruence).
    destruct (a_entry (s_ah s a)) eqn:E1; [|discriminate].
    destruct (a_reached (s_ah s a)) eqn:E2; [|discriminate].
    pose proof (WF_add_attacker s a i reached entry W G1 Na E1 E2 G4) as L.
    destruct (add_attacker s a i reached entry) as [s' oc]. exact L.
  - (* ORemoveAtt *)
    apply att_in_graph_In in G. pose proof (WF_remove_attacker s a W G) as L.
    destruct (remove_attacker s a) as [s' oc]. exact L.
  - (* OCompromise *)
    apply andb_true_iff in G. destruct G as [G1 G2]. apply att_in_graph_In in G1. apply in_graph_In in G2.
    pose proof (WF_compromise s a o W G1 G2) as L.
    destruct (compromise (s_nh s) (s_ah s) a o) as [nh ah]. exact L.
  - (* OUndo *)
    apply andb_true_iff in G. destruct G as [G1 G2]. apply att_in_graph_In in G1. apply in_graph_In in G2.
    pose proof (WF_undo s a o W G1 G2) as L.
    destruct (undo_compromise (s_nh s) (s_ah s) a o) as [nh ah]. exact L.
  - (* OAttach *)
    pose proof (WF_attach infos s W) as L. destruct (attach_attackers s infos) as [s' oc]. exact L.
  - (* OCalc *)
    pose proof (WF_calc s W) as L. destruct (calc s) as [s' oc]. exact L.
  - (* OPrune *) cbn. apply WF_prune; auto.
  - (* OSetFlags *) cbn. apply WF_with_nh; auto; intros n; cbn; auto 6.
  - (* OSetTtc *) cbn. apply WF_with_nh; auto; intros n; cbn; auto 6.
  - (* OSetTags *) cbn. apply WF_with_nh; auto; intros n; cbn; auto 6.
  - (* OSetExtras *) cbn. apply WF_with_nh; auto; intros n; cbn; auto 6.
  - (* OCopy *) cbn. apply WF_deepcopy; auto.
  - (* OReorder *) cbn.
    apply andb_true_iff in G. destruct G as [G G3]. apply andb_true_iff in G. destruct G as [G1 G2].
    apply WF_reorder; auto; [apply nodupb_NoDup; auto|]. intros x. split.
    + intros Hx. rewrite forallb_forall in G2. apply in_graph_In. auto.
    + intros Hx. rewrite forallb_forall in G3. apply memn_In. auto.
  - cbn; auto.
  - cbn; auto.
  - cbn; auto.
  - cbn; auto.
  - cbn; auto.
Qed.

Definition steps (s : st) (ops : list op) : st := fold_left (fun s o => fst (fst (step s o))) ops s.
Lemma run_steps ops : forall s outs,
  fst (fold_left (fun '(s, outs) o => let '(s', oc, r) := step s o in (s', outs ++ [(oc, r)])) ops (s, outs)) = steps s ops.
Proof.
  induction ops as [|o r IH]; intros s outs; cbn [fold_left]; auto.
  destruct (step s o) as [[s' oc] rt] eqn:E. rewrite IH. unfold steps. cbn [fold_left]. rewrite E. reflexivity.
Qed.
Lemma final_steps ops : final ops = steps init ops.
Proof. unfold final, run. apply run_steps. Qed.

Theorem steps_WF ops : forall s, WF s -> WF (steps s ops).
Proof. induction ops as [|o r IH]; intros s W; cbn [steps fold_left]; auto. apply IH. apply step_WF; auto. Qed.
Theorem reachable_WF ops : WF (final ops).
Proof. rewrite final_steps. apply steps_WF. apply WF_init. Qed.
