(* Classes.v — what maltoolbox/language/classes_factory.py generates for a language (C06):
     - one class per asset type, with a number property in [0, 1] per defense of the type (own or inherited, as
       resolved by LanguageGraph: Lang.steps_of), default 1 when its TTC is the function Enabled, else 0;
     - one class per association of the language graph (LangGraph.lg_assocs), named by the association, or by
       name_Left_Right when the name is shared, with its two array fields (item type, maxItems);
   and what python_jsonschema_objects enforces when such objects are built and assigned to (modelled, trusted):
     a number outside [minimum, maximum] and an array longer than maxItems or holding an object that is not an
     instance of the item class (the class of the declared type or of a sub-type) raise ValidationError.
   Model._validate_association is already in Model.add_association (Model.v). *)
From MT Require Import Prelude Lang LangGraph Model ModelOps.

Definition is_enabled (ttc : jv) : bool :=
  match ttc with
  | JDict d => match dget seqb d "name" with Some (JStr n) => seqb n "Enabled" | _ => false end
  | _ => false
  end.
Definition default_of (d : stepdecl) : Z := if is_enabled (sd_ttc d) then 1024%Z else 0%Z.
Definition is_defense (kv : string * stepdecl) : bool := seqb (sd_type (snd kv)) "defense".
Definition class_defenses (L : lang) (t : string) : list (string * Z) :=
  match steps_of L t with
  | Some steps => map (fun kv => (fst kv, default_of (snd kv))) (filter is_defense steps)
  | None => []
  end.

Record fschema := mkFS { fs_name : string; fs_type : string; fs_max : option Z }.
Record aclass := mkAC { k_l : fschema; k_r : fschema }.

Definition same_name_count (created : list assocdecl) (n : string) : nat :=
  List.length (filter (fun c => seqb (ac_name c) n) created).
Definition class_name (created : list assocdecl) (c : assocdecl) : string :=
  if Nat.ltb 1 (same_name_count created (ac_name c))
  then (ac_name c ++ "_" ++ ac_lasset c ++ "_" ++ ac_rasset c)%string else ac_name c.
(* `if field.maximum:` — no maxItems for an absent or zero maximum *)
Definition max_items (m : option Z) : option Z :=
  match m with Some z => if Z.eqb z 0 then None else Some z | None => None end.
Definition class_of (c : assocdecl) : aclass :=
  mkAC (mkFS (ac_lfield c) (ac_lasset c) (max_items (ac_lmax c))) (mkFS (ac_rfield c) (ac_rasset c) (max_items (ac_rmax c))).
(* the definitions dictionary: a later entry with the same class name replaces the earlier one *)
Definition assoc_classes (created : list assocdecl) : list (string * aclass) :=
  fold_left (fun d c => dset seqb d (class_name created c) (class_of c)) created [].

(* get_association_by_signature: the entry of a shared name has a 'definitions' dictionary; the sub-entry names
   are tried only when it holds more than one *)
Definition sub_names (created : list assocdecl) (n : string) : list string :=
  nodup string_dec (map (class_name created) (filter (fun c => seqb (ac_name c) n) created)).
Definition by_signature (created : list assocdecl) (n l r : string) : option string :=
  if Nat.eqb (same_name_count created n) 0 then None
  else if Nat.ltb 1 (same_name_count created n) && Nat.ltb 1 (List.length (sub_names created n)) then
    let full := (n ++ "_" ++ l ++ "_" ++ r)%string in
    let flipped := (n ++ "_" ++ r ++ "_" ++ l)%string in
    if existsb (seqb full) (sub_names created n) then Some full
    else if existsb (seqb flipped) (sub_names created n) then Some flipped else None
  else Some n.

(* ---- typed histories ---- *)
Inductive top := TBase (o : mop) | TSetDef (h : nat) (d : string) (v : Z).

Definition a_set_defs (a : masset) (l : list (string * Z)) : masset :=
  mkMAsset (ma_id a) (ma_name a) (ma_type a) l (ma_extras a) (ma_assocs a).
Definition in_range (v : Z) : bool := Z.leb 0 v && Z.leb v 1024.

Section Typed.
Variable L : lang.
Variable created : list assocdecl.

Definition def_known (t : string) (d : string) : bool :=
  match dget seqb (class_defenses L t) d with Some _ => true | None => false end.
Definition fill_defs (t : string) (given : list (string * Z)) : list (string * Z) :=
  map (fun dv => (fst dv, match dget seqb given (fst dv) with Some v => v | None => snd dv end)) (class_defenses L t).
Definition field_ok (s : mstate) (f : fschema) (ms : list nat) : bool :=
  forallb (fun h => is_subasset_of L (ma_type (m_ah s h)) (fs_type f)) ms &&
  match fs_max f with Some m => Z.leb (Z.of_nat (List.length ms)) m | None => true end.

(* outcome codes: 0-5 = ModelOps.mout_code; 6 = ValidationError raised by the generated classes; 7 = no such class *)
Definition lift (r : mstate * mout * mret) : mstate * Z * mret := let '(s, oc, rt) := r in (s, mout_code oc, rt).
Definition tstep (s : mstate) (o : top) : mstate * Z * mret :=
  match o with
  | TBase (MNewAsset ty nm given ex) =>
      if negb (has_asset L ty) then (s, 7%Z, MRNone)
      else if negb (forallb (fun dv => def_known ty (fst dv)) given) then (s, 5%Z, MRNone)
      else if negb (forallb (fun dv => in_range (snd dv)) given) then (s, 6%Z, MRNone)
      else lift (mstep s (MNewAsset ty nm (fill_defs ty given) ex))
  | TBase (MNewAssoc cls lf l rf r) =>
      match dget seqb (assoc_classes created) cls with
      | None => (s, 7%Z, MRNone)
      | Some k =>
        if negb (seqb lf (fs_name (k_l k)) && seqb rf (fs_name (k_r k)) && mguard s (MNewAssoc cls lf l rf r)) then (s, 5%Z, MRNone)
        else if negb (field_ok s (k_l k) l && field_ok s (k_r k) r) then (s, 6%Z, MRNone)
        else lift (mstep s (MNewAssoc cls lf l rf r))
      end
  | TBase o' => lift (mstep s o')
  | TSetDef h d v =>
      if negb (Nat.ltb h (m_na s) && def_known (ma_type (m_ah s h)) d) then (s, 5%Z, MRNone)
      else if negb (in_range v) then (s, 6%Z, MRNone)
      else (with_heaps s (upd_a (m_ah s) h (fun a => a_set_defs a (dset seqb (ma_defs a) d v))) (m_ch s) (m_th s), 0%Z, MRNone)
  end.

Definition tsteps (s : mstate) (ops : list top) : mstate := fold_left (fun s o => fst (fst (tstep s o))) ops s.
Definition trun (ops : list top) : mstate * list (Z * mret) :=
  fold_left (fun '(s, outs) o => let '(s', oc, r) := tstep s o in (s', outs ++ [(oc, r)])) ops (minit, []).
End Typed.

(* ---- observation for the correspondence ---- *)
Definition obs_fschema (f : fschema) : jv := JList [JStr (fs_name f); JStr (fs_type f); jopt JInt (fs_max f)].
Definition obs_classes (L : lang) (created : list assocdecl) : jv :=
  JList [ JList (map (fun a => JList [JStr (ad_name a);
                                      JList (map (fun dv => JList [JStr (fst dv); JInt (snd dv)]) (sort_skeys (class_defenses L (ad_name a))))])
                     (l_assets L));
          JList (map (fun kv => JList [JStr (fst kv); obs_fschema (k_l (snd kv)); obs_fschema (k_r (snd kv))])
                     (sort_skeys (assoc_classes created))) ].
Definition obs_typed (L : lang) (ops : list top) (sigs : list (string * string * string)) : jv :=
  match lg_assocs L with
  | LOk created =>
    let '(s, outs) := trun L created ops in
    JList [ obs_classes L created;
            JList (map (fun q => let '(n, l, r) := q in jopt JStr (by_signature created n l r)) sigs);
            JList (map (fun p => JList [JInt (fst p); obs_mret (snd p)]) outs);
            obs_mstate s ]
  | LErr e => JStr "language graph error"
  end.
Definition typed_check (c : lang * list top * list (string * string * string) * jv) : bool :=
  let '(L, ops, sigs, expected) := c in jv_eqb (obs_typed L ops sigs) expected.
Definition typed_guards_met (c : lang * list top * list (string * string * string) * jv) : bool :=
  let '(L, ops, sigs, expected) := c in
  match lg_assocs L with
  | LOk created => forallb (fun p => negb (Z.eqb (fst p) 5)) (snd (trun L created ops))
  | LErr _ => false
  end.
