(* GenCor.v — corollaries of generate_spec in the vocabulary of the properties C01 and C02. *)
From MT Require Import Prelude ListFacts Lang Eval EvalThm Graph GraphInv Gen GenThm.
From Coq Require Import Arith.

(* ---- full names: asset name ':' step name is injective when step names contain no colon ---- *)
Fixpoint has_colon (s : string) : bool :=
  match s with EmptyString => false | String c r => Ascii.eqb c ":"%char || has_colon r end.
Lemma has_colon_app a b : has_colon (a ++ b) = has_colon a || has_colon b.
Proof. induction a as [|c r IH]; cbn; auto. rewrite IH. apply orb_assoc. Qed.
Lemma colon_split_inj : forall a a' s s', has_colon s = false -> has_colon s' = false ->
  (a ++ ":" ++ s)%string = (a' ++ ":" ++ s')%string -> a = a' /\ s = s'.
Proof.
  induction a as [|c r IH]; intros a' s s' Hs Hs' E.
  - destruct a' as [|c' r']; cbn in E.
    + inversion E; auto.
    + inversion E; subst. rewrite has_colon_app in Hs. cbn in Hs. rewrite orb_true_r in Hs. discriminate.
  - destruct a' as [|c' r']; cbn in E.
    + inversion E; subst. rewrite has_colon_app in Hs'. cbn in Hs'. rewrite orb_true_r in Hs'. discriminate.
    + inversion E; subst. destruct (IH _ _ _ Hs Hs' H1). subst. auto.
Qed.

(* ---- the name index built by successive add_node calls ---- *)
Section NameIndex.
Variable names : nat -> string.
Definition name_index (n : nat) : list (string * nat) := fold_left (fun d k => dset seqb d (names k) k) (seq 0 n) [].
Lemma name_index_S n : name_index (S n) = dset seqb (name_index n) (names n) n.
Proof. unfold name_index. rewrite seq_S, fold_left_app. reflexivity. Qed.
Lemma name_index_sound : forall n fn k, dget seqb (name_index n) fn = Some k -> k < n /\ names k = fn.
Proof.
  induction n as [|n IH]; intros fn k H; [discriminate|]. rewrite name_index_S in H.
  destruct (seqb fn (names n)) eqn:E.
  - apply seqb_spec in E. subst. rewrite (dget_dset_same seqb seqb_spec) in H. inversion H; subst. auto.
  - rewrite (dget_dset_other seqb seqb_spec) in H by (intros ->; rewrite (keqb_refl seqb seqb_spec) in E; discriminate).
    destruct (IH _ _ H). split; auto.
Qed.
Lemma name_index_complete : forall n, (forall i j, i < n -> j < n -> names i = names j -> i = j) ->
  forall k, k < n -> dget seqb (name_index n) (names k) = Some k.
Proof.
  induction n as [|n IH]; intros Hinj k Hk; [lia|]. rewrite name_index_S.
  destruct (Nat.eq_dec k n) as [->|N].
  - apply (dget_dset_same seqb seqb_spec).
  - rewrite (dget_dset_other seqb seqb_spec).
    + apply IH; [|lia]. intros i j Hi Hj. apply Hinj; lia.
    + intros E. apply N. apply Hinj; auto.
Qed.
End NameIndex.

(* ---- resolved steps are a dictionary keyed by the step name, without repeated keys ---- *)
Definition keyed (st : list (string * stepdecl)) : Prop :=
  NoDup (dkeys st) /\ forall kv, In kv st -> fst kv = sd_name (snd kv).
Lemma keyed_dset st k d : keyed st -> k = sd_name d -> keyed (dset seqb st k d).
Proof.
  intros [N K] E. split; [apply (dkeys_dset_NoDup seqb seqb_spec); auto|].
  clear N. induction st as [|[k' v'] r IH]; cbn.
  - intros kv [<-|[]]. auto.
  - destruct (seqb k k') eqn:Ek.
    + apply seqb_spec in Ek. subst k'. intros kv [<-|H]; [cbn; auto | apply K; right; auto].
    + intros kv [<-|H]; [apply (K (k', v')); left; auto|]. apply IH; auto. intros kv' H'. apply K. right; auto.
Qed.
Lemma dget_keyed st k v : keyed st -> dget seqb st k = Some v -> sd_name v = k.
Proof.
  intros [_ K]. induction st as [|[k' v'] r IH]; cbn; [discriminate|].
  destruct (seqb k k') eqn:E.
  - intros H; inversion H; subst. apply seqb_spec in E. subst. symmetry. apply (K (k', v)). left; auto.
  - apply IH. intros kv H. apply K. right; auto.
Qed.
Lemma apply_decl_keyed st d : keyed st -> keyed (apply_decl st d).
Proof.
  intros K. unfold apply_decl. destruct (dget seqb st (sd_name d)) as [old|] eqn:E.
  - destruct (sd_reaches d) as [[[|] es]|]; auto.
    + apply keyed_dset; auto.
    + pose proof (dget_keyed _ _ _ K E) as Hn. destruct (sd_reaches old) as [[ov olds]|]; apply keyed_dset; auto.
  - apply keyed_dset; auto.
Qed.
Lemma attacks_for_keyed : forall fuel L t st, attacks_for fuel L t = Some st -> keyed st.
Proof.
  induction fuel as [|f IH]; intros L t st H; [discriminate|]. cbn in H.
  assert (K0 : keyed []) by (split; [constructor | intros ? []]).
  assert (FOLD : forall ds base, keyed base -> keyed (fold_left apply_decl ds base)).
  { induction ds as [|d r IHr]; intros base Kb; cbn; auto. apply IHr. apply apply_decl_keyed; auto. }
  destruct (find_asset L t) as [a|]; [|inversion H; subst; auto].
  destruct (ad_super a) as [sup|].
  - destruct (attacks_for f L sup) as [base|] eqn:Eb; [|discriminate]. inversion H; subst. apply FOLD. eapply IH; eauto.
  - inversion H; subst. apply FOLD; auto.
Qed.

Section Cor.
Variable L : lang.
Variable M : imodel.
Variable s : st.
Hypothesis Hgen : generate L M = GOk s.

Definition ekey (x : iasset * stepdecl) : Z * string := (ia_id (fst x), sd_name (snd x)).

Lemma enum_asset_keys a : NoDup (map ekey (enum_asset L a)) /\ forall x, In x (enum_asset L a) -> fst x = a.
Proof.
  unfold enum_asset. destruct (steps_of L (ia_type a)) as [st|] eqn:E; [|split; [constructor|intros ? []]].
  destruct (attacks_for_keyed _ _ _ _ E) as [N K]. split.
  - rewrite map_map. unfold ekey. cbn.
    assert (G : forall l : list (string * stepdecl), NoDup (dkeys l) -> (forall kv, In kv l -> fst kv = sd_name (snd kv)) ->
                NoDup (map (fun kv => (ia_id a, sd_name (snd kv))) l)).
    { induction l as [|kv r IH]; cbn; intros Nl Kl; [constructor|]. inversion Nl; subst. constructor.
      - intros Hin. apply in_map_iff in Hin. destruct Hin as (kv' & E' & Hin'). apply H1.
        unfold dkeys. apply in_map_iff. exists kv'. split; auto.
        assert (E2 : sd_name (snd kv') = sd_name (snd kv)) by congruence.
        assert (A1 := Kl kv' (or_intror Hin')). assert (A2 := Kl kv (or_introl eq_refl)). congruence.
      - apply IH; auto; intros kv' H'; apply Kl; right; auto. }
    apply G; auto.
  - intros x Hx. apply in_map_iff in Hx. destruct Hx as (kv & <- & _). reflexivity.
Qed.

Lemma enum_keys_NoDup : NoDup (map ia_id (im_assets M)) -> NoDup (map ekey (enum_model L M)).
Proof.
  unfold enum_model. induction (im_assets M) as [|a r IH]; cbn; intros N; [constructor|].
  inversion N; subst. rewrite map_app. destruct (enum_asset_keys a) as [Na Fa].
  assert (APP : forall (l1 l2 : list (Z * string)), NoDup l1 -> NoDup l2 -> (forall x, In x l1 -> ~ In x l2) -> NoDup (l1 ++ l2)).
  { induction l1 as [|x l1 IH1]; cbn; intros l2 N1 N2 D; auto. inversion N1; subst. constructor.
    - rewrite in_app_iff. intros [A|A]; [auto|]. apply (D x); auto.
    - apply IH1; auto; intros y Hy; apply D; right; auto. }
  apply APP; auto.
  intros x Hx Hx'. apply in_map_iff in Hx. destruct Hx as (p & <- & Hp).
  apply in_map_iff in Hx'. destruct Hx' as (q & Eq & Hq). apply in_flat_map in Hq. destruct Hq as (b & Hb & Hq).
  destruct (enum_asset_keys b) as [_ Fb]. apply H1.
  assert (Eid : ia_id (fst q) = ia_id (fst p)) by (unfold ekey in Eq; congruence).
  rewrite (Fb q Hq), (Fa p Hp) in Eid. rewrite <- Eid. apply in_map. auto.
Qed.

(* membership in the children computed from the expressions *)
Lemma lookup_all_In g t : forall ys cs, lookup_all M g t ys = Some cs ->
  forall c, In c cs <-> exists y, In y ys /\ name_lookup M g y t = Some c.
Proof.
  induction ys as [|y r IH]; intros cs H c; cbn in H.
  - inversion H; subst. split; [intros []|intros (? & [] & _)].
  - destruct (name_lookup M g y t) as [c0|] eqn:E0; [|discriminate].
    destruct (lookup_all M g t r) as [rest|] eqn:Er; [|discriminate]. inversion H; subst; clear H.
    cbn. rewrite (IH _ eq_refl c). split.
    + intros [<-|(y' & Hy' & Hl)]; [exists y; split; [left; auto|auto] | exists y'; split; [right; auto|auto]].
    + intros (y' & [<-|Hy'] & Hl); [left; congruence | right; exists y'; auto].
Qed.
Lemma children_of_exprs_In g x : forall es cs, children_of_exprs L M g x es = Some cs ->
  forall c, In c cs <-> exists e ys, In e es /\ eval L M e x = GOk ys /\ exists y, In y ys /\ name_lookup M g y (last_step e) = Some c.
Proof.
  induction es as [|e r IH]; intros cs H c; cbn in H.
  - inversion H; subst. split; [intros []|intros (? & ? & [] & _)].
  - destruct (eval L M e x) as [ys|] eqn:Ev; [|discriminate].
    destruct (lookup_all M g (last_step e) ys) as [cs1|] eqn:E1; [|discriminate].
    destruct (children_of_exprs L M g x r) as [rest|] eqn:Er; [|discriminate]. inversion H; subst; clear H.
    rewrite in_app_iff, (lookup_all_In _ _ _ _ E1 c), (IH _ eq_refl c). split.
    + intros [Hy|(e' & ys' & He' & Hv & Hy)];
        [exists e, ys; split; [left; auto|split; auto] | exists e', ys'; split; [right; auto|split; auto]].
    + intros (e' & ys' & [<-|He'] & Hv & Hy).
      * left. rewrite Ev in Hv. inversion Hv; subst. exact Hy.
      * right. exists e', ys'. auto.
Qed.
Lemma children_of_exprs_evals g x : forall es cs, children_of_exprs L M g x es = Some cs ->
  forall e, In e es -> exists ys, eval L M e x = GOk ys.
Proof.
  induction es as [|e0 r IH]; intros cs H e He; [destruct He|]. cbn in H.
  destruct (eval L M e0 x) as [ys|] eqn:Ev; [|discriminate].
  destruct (lookup_all M g (last_step e0) ys); [|discriminate].
  destruct (children_of_exprs L M g x r) eqn:Er; [|discriminate].
  destruct He as [<-|He]; eauto.
Qed.

(* evaluation from one asset = the denotation *)
Lemma eval_den e x ys : eval L M e x = GOk ys -> forall y, In y ys <-> den L M (ev_fuel L) e x y.
Proof.
  unfold eval. destruct (ev L M (ev_fuel L) e [x]) as [l| | |] eqn:E; cbn; intros H; inversion H; subst.
  intros y. rewrite (ev_den L M _ _ _ _ E y). split.
  - intros (x' & [<-|[]] & Hd). auto.
  - intros Hd. exists x. split; [left|]; auto.
Qed.

(* well-formedness of names assumed by the name-keyed statements *)
Definition names_ok : Prop :=
  NoDup (map ia_name (im_assets M)) /\ NoDup (map ia_id (im_assets M)) /\
  (forall a d, In (a, d) (enum_model L M) -> has_colon (sd_name d) = false) /\
  (forall a d ov es e t, In (a, d) (enum_model L M) -> sd_reaches d = Some (ov, es) -> In e es ->
     last_step e = Some t -> has_colon t = false).

Theorem generated_graph : names_ok ->
  exists info : list (nat * iasset * stepdecl),
    map (fun x => (snd (fst x), snd x)) info = enum_model L M /\
    g_nodes (s_g s) = seq 0 (List.length info) /\
    (forall k o a d, nth_error info k = Some (o, a, d) -> o = k) /\
    (* attributes *)
    (forall k a d, nth_error info k = Some (k, a, d) ->
       exists n, node_for L M a d = GOk n /\ Lab (s_nh s k) = Lab n /\ n_id (s_nh s k) = Some (Z.of_nat k) /\
                 full_name (s_nh s k) = (ia_name a ++ ":" ++ sd_name d)%string) /\
    (* lookups *)
    (forall k, k < List.length info -> get_node_by_id (s_g s) (Z.of_nat k) = Some k) /\
    (forall i, (forall k, k < List.length info -> i <> Z.of_nat k) -> get_node_by_id (s_g s) i = None) /\
    (forall k, k < List.length info -> get_node_by_full_name (s_g s) (full_name (s_nh s k)) = Some k) /\
    (forall fn k, get_node_by_full_name (s_g s) fn = Some k -> k < List.length info /\ full_name (s_nh s k) = fn) /\
    (forall i j, i < List.length info -> j < List.length info -> full_name (s_nh s i) = full_name (s_nh s j) -> i = j) /\
    (* edges *)
    (forall k a d c b d', nth_error info k = Some (k, a, d) -> nth_error info c = Some (c, b, d') ->
      (In c (n_children (s_nh s k)) <->
       exists ov es e, sd_reaches d = Some (ov, es) /\ In e es /\
                       den L M (ev_fuel L) e (ia_id a) (ia_id b) /\ last_step e = Some (sd_name d'))) /\
    (forall p c, In c (n_children (s_nh s p)) <-> In p (n_parents (s_nh s c))).
Proof.
  intros (Hnames & Hids & Hcolon & Hcolon2).
  destruct (generate_spec L M s Hgen) as (info & Henum & Hnodes & Hnn & Hnext & Hid & Hname & Hmir & Hinfo).
  exists info. split; [exact Henum|]. split; [exact Hnodes|].
  assert (Hidx : forall k o a d, nth_error info k = Some (o, a, d) -> o = k).
  { intros k o a d Hk. apply (Hinfo _ _ _ _ Hk). }
  split; [exact Hidx|].
  assert (Hin_enum : forall k a d, nth_error info k = Some (k, a, d) -> In (a, d) (enum_model L M)).
  { intros k a d Hk. rewrite <- Henum. apply in_map_iff. exists (k, a, d). split; auto. eapply nth_error_In; eauto. }
  assert (Hasset : forall k a d, nth_error info k = Some (k, a, d) -> In a (im_assets M)).
  { intros k a d Hk. apply Hin_enum in Hk. unfold enum_model in Hk. apply in_flat_map in Hk.
    destruct Hk as (a' & Ha' & Hk). destruct (enum_asset_keys a') as [_ Fa]. rewrite <- (Fa _ Hk) in Ha'. exact Ha'. }
  assert (Hfn : forall k a d, nth_error info k = Some (k, a, d) -> full_name (s_nh s k) = (ia_name a ++ ":" ++ sd_name d)%string).
  { intros k a d Hk. destruct (Hinfo _ _ _ _ Hk) as (_ & n & cs & Hn & _ & HL & Hi & _).
    destruct (node_for_shape L M _ _ _ Hn) as (_ & _ & _ & _ & _ & Nn & Na & _).
    unfold Lab in HL. inversion HL as [[V1 V2 V3 V4 V5 V6 V7 V8 V9 V10 V11]]. unfold full_name. rewrite V11, V10, Na, Nn. reflexivity. }
  assert (Hfind : forall a, In a (im_assets M) -> find_iasset M (ia_id a) = Some a).
  { intros a Ha. unfold find_iasset. clear -Ha Hids. induction (im_assets M) as [|x r IHr]; [destruct Ha|]. cbn in *.
    inversion Hids; subst. destruct Ha as [->|Ha].
    - rewrite Z.eqb_refl. auto.
    - destruct (Z.eqb_spec (ia_id x) (ia_id a)) as [E|N]; [|apply IHr; auto].
      exfalso. apply H1. rewrite E. apply in_map. auto. }
  assert (Hname_inj : forall a b, In a (im_assets M) -> In b (im_assets M) -> ia_name a = ia_name b -> a = b).
  { clear -Hnames. intros a b. induction (im_assets M) as [|x r IHr]; [intros []|]. cbn in *. inversion Hnames; subst.
    intros [->|Ha] [->|Hb] E; auto.
    - exfalso. apply H1. rewrite E. apply in_map. auto.
    - exfalso. apply H1. rewrite <- E. apply in_map. auto. }
  assert (Hentry : forall k, k < List.length info -> exists a d, nth_error info k = Some (k, a, d)).
  { intros k Hk. destruct (nth_error info k) as [[[o a] d]|] eqn:E; [|apply nth_error_None in E; lia].
    pose proof (Hidx _ _ _ _ E) as Eo. subst o. exists a, d. reflexivity. }
  assert (Hfn_inj : forall i j, i < List.length info -> j < List.length info -> full_name (s_nh s i) = full_name (s_nh s j) -> i = j).
  { intros i j Hi Hj E. destruct (Hentry i Hi) as (ai & di & Ei), (Hentry j Hj) as (aj & dj & Ej).
    rewrite (Hfn _ _ _ Ei), (Hfn _ _ _ Ej) in E.
    destruct (colon_split_inj _ _ _ _ (Hcolon _ _ (Hin_enum _ _ _ Ei)) (Hcolon _ _ (Hin_enum _ _ _ Ej)) E) as [En Es].
    assert (ai = aj) by (apply Hname_inj; eauto). subst aj.
    pose proof (enum_keys_NoDup Hids) as ND. rewrite <- Henum, map_map in ND.
    apply (proj1 (NoDup_nth_error _) ND i j).
    - rewrite map_length. auto.
    - rewrite !nth_error_map, Ei, Ej. cbn. unfold ekey. cbn. rewrite Es. reflexivity. }
  split.
  { intros k a d Hk. destruct (Hinfo _ _ _ _ Hk) as (_ & n & cs & Hn & _ & HL & Hi & _). exists n. split; [auto|]. split; [auto|]. split; [auto|]. eapply Hfn; eauto. }
  split; [intros k Hk; unfold get_node_by_id; rewrite Hid; apply dget_map_idx; auto|].
  split; [intros i Hi; unfold get_node_by_id; rewrite Hid; apply dget_map_idx_none; auto|].
  split.
  { intros k Hk. unfold get_node_by_full_name. rewrite Hname.
    apply (name_index_complete (fun k => full_name (s_nh s k))); auto. }
  split.
  { intros fn k H. unfold get_node_by_full_name in H. rewrite Hname in H.
    apply (name_index_sound (fun k => full_name (s_nh s k))) in H. auto. }
  split; [exact Hfn_inj|].
  split.
  2:{ intros p c. specialize (Hmir p c). rewrite !In_cnt. lia. }
  intros k a d c b d' Hk Hc.
  destruct (Hinfo _ _ _ _ Hk) as (_ & n & cs & Hn & Hexp & _ & _ & Hch & _).
  rewrite Hch. unfold expected_children in Hexp.
  destruct (sd_reaches d) as [[ov es]|] eqn:Er.
  2:{ inversion Hexp; subst. split; [intros []|intros (? & ? & ? & E & _); discriminate]. }
  assert (Hclen : c < List.length info) by (eapply nth_error_Some_lt; eauto).
  rewrite (children_of_exprs_In _ _ _ _ Hexp c). split.
  - intros (e & ys & He & Hev & y & Hy & Hl). exists ov, es, e. split; auto. split; auto.
    unfold name_lookup in Hl. destruct (find_iasset M y) as [ya|] eqn:Ey; [|discriminate].
    destruct (last_step e) as [t|] eqn:Et; [|discriminate].
    unfold get_node_by_full_name in Hl. rewrite Hname in Hl.
    apply (name_index_sound (fun k => full_name (s_nh s k))) in Hl. destruct Hl as [Hlt Hfull].
    rewrite (Hfn _ _ _ Hc) in Hfull.
    assert (Hcol : has_colon (sd_name d') = false) by (eapply Hcolon; eapply Hin_enum; eauto).
    assert (Hcolt : has_colon t = false) by (eapply (Hcolon2 a d ov es e t); eauto).
    destruct (colon_split_inj _ _ _ _ Hcol Hcolt Hfull) as [En Et'].
    unfold find_iasset in Ey. apply find_some in Ey. destruct Ey as [Eyin Eyid]. apply Z.eqb_eq in Eyid.
    assert (Hyb : ya = b) by (apply Hname_inj; eauto). subst ya. split.
    + apply (eval_den _ _ _ Hev). congruence.
    + congruence.
  - intros (ov' & es' & e & E & He & Hd & Hl). inversion E; subst ov' es'.
    destruct (children_of_exprs_evals _ _ _ _ Hexp e He) as (ys & Hev).
    exists e, ys. split; auto. split; auto. exists (ia_id b). split; [apply (eval_den _ _ _ Hev); auto|].
    unfold name_lookup. rewrite (Hfind b) by (eapply Hasset; eauto). rewrite Hl.
    unfold get_node_by_full_name. rewrite Hname. rewrite <- (Hfn _ _ _ Hc).
    apply (name_index_complete (fun k => full_name (s_nh s k))); auto.
Qed.
End Cor.
