(* MalCompile.v — MalCompiler.compile: lexer output (token lists per file) -> parser -> visitor, and the two
   end-to-end statements: the printer is inverted (C04) and malformed source is never compiled (C17). *)
From MT Require Import Prelude ListFacts Codec Lang Mal MalPrint MalThm MalParse MalParseThm MalInclude.

Section Compile.
Variable ftoks : string -> option (list tok).            (* the token list of each file that can be read and lexed *)
Definition files_of (f : string) : option cmal :=
  match ftoks f with
  | Some toks => match parse_mal (parse_fuel toks) toks with Some (m, _) => Some m | None => None end
  | None => None
  end.
(* n: parser fuel for the root file; depth: bound on include nesting *)
Definition compile (n depth : nat) (root : list tok) : option fspec :=
  match parse_mal n root with Some (m, _) => v_mal files_of depth m | None => None end.

Theorem compile_print s n depth : wf_spec s -> wmal (u_mal s) <= n -> compile n (S depth) (print_spec s) = Some s.
Proof.
  intros W Hn. unfold compile, print_spec.
  rewrite <- (app_nil_r (fmal (u_mal s))). rewrite parse_mal_yield; auto. apply v_u_spec. exact W.
Qed.

Theorem malformed_root_rejected n depth root :
  (forall m rest, root <> fmal m ++ rest) -> compile n depth root = None.
Proof.
  intros H. unfold compile. destruct (parse_mal n root) as [[m rest]|] eqn:E; auto.
  apply parse_mal_sound in E. destruct E as [E _]. exfalso. apply (H m rest). exact E.
Qed.
(* what the compiler returns comes from a parse tree of a prefix of the root file, cut where no declaration can start *)
Theorem compiled_is_parsed n depth root s : compile n depth root = Some s ->
  exists m rest, root = fmal m ++ rest /\ s_decl rest = false /\ v_mal files_of depth m = Some s.
Proof.
  unfold compile. destruct (parse_mal n root) as [[m rest]|] eqn:E; [|discriminate]. intros H.
  apply parse_mal_sound in E. destruct E as (E1 & E2 & _). exists m, rest. auto.
Qed.
End Compile.

Lemma v_mal_include_fails files n m f :
  In (DInclude f) m -> (match files f with Some m' => v_mal files n m' | None => None end) = None -> v_mal files (S n) m = None.
Proof.
  intros Hin Hf. apply in_split in Hin. destruct Hin as (P & Q & ->). rewrite v_mal_unfold, fold_left_app. cbn [fold_left].
  assert (E : mstep_ files n (fold_left (mstep_ files n) P (Some spec_empty)) (DInclude f) = None).
  { destruct (fold_left (mstep_ files n) P (Some spec_empty)) as [s|]; cbn [mstep_]; auto.
    destruct (files f) as [m'|]; auto. rewrite Hf. reflexivity. }
  rewrite E, fold_none. reflexivity.
Qed.
Theorem malformed_include_rejected ftoks n depth root m rest f toks :
  parse_mal n root = Some (m, rest) -> In (DInclude f) m -> ftoks f = Some toks ->
  (forall m' rest', toks <> fmal m' ++ rest') -> compile ftoks n (S depth) root = None.
Proof.
  intros Hp Hin Hf Hbad. unfold compile. rewrite Hp. apply (v_mal_include_fails _ _ _ f); auto.
  unfold files_of. rewrite Hf. destruct (parse_mal (parse_fuel toks) toks) as [[m' r']|] eqn:E; auto.
  apply parse_mal_sound in E. destruct E as [E _]. exfalso. apply (Hbad m' r'). exact E.
Qed.

(* ---- correspondence helper: the flattening of a layout and the specification the flattened list denotes ---- *)
Fixpoint str_nodupb (l : list string) : bool :=
  match l with [] => true | x :: r => negb (existsb (seqb x) r) && str_nodupb r end.
Definition flat_of (ftoks : string -> option (list tok)) (n depth : nat) (root : list tok) : option cmal :=
  match parse_mal n root with Some (m, _) => flat (files_of ftoks) depth m | None => None end.
Definition flat_spec (fm : cmal) : fspec := spec_dedupe (raw_of fm spec_empty).
