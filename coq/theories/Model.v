(* Model.v — the instance model (maltoolbox/model.py, after the fix: commits) as a state machine over heaps of
   asset, association and attacker-attachment objects. Python sets are lists used through membership. *)
From MT Require Import Prelude.

Record masset := mkMAsset {
  ma_id : option Z; ma_name : option string; ma_type : string;
  ma_defs : list (string * Z);          (* defense values * 1024 *)
  ma_extras : jv;
  ma_assocs : list nat }.               (* asset.associations: association handles *)
Record massoc := mkMAssoc {
  mc_class : string; mc_lfield : string; mc_left : list nat; mc_rfield : string; mc_right : list nat;
  mc_extras : jv }.
Record mattacker := mkMAtt { mt_id : option Z; mt_name : option string; mt_entry : list (nat * list string) }.

Record mstate := mkM {
  m_ah : nat -> masset; m_ch : nat -> massoc; m_th : nat -> mattacker;
  m_na : nat; m_nc : nat; m_nt : nat;                 (* allocation counters *)
  m_assets : list nat; m_assocs : list nat; m_attackers : list nat;
  m_ids : list Z; m_names : list string;              (* asset_ids / asset_names *)
  m_type2assoc : list (string * list nat);
  m_next : Z }.

Definition d_asset : masset := mkMAsset None None "" [] (JDict []) [].
Definition d_assoc : massoc := mkMAssoc "" "" [] "" [] (JDict []).
Definition d_att : mattacker := mkMAtt None None [].
Definition minit : mstate := mkM (fun _ => d_asset) (fun _ => d_assoc) (fun _ => d_att) 0 0 0 [] [] [] [] [] [] 0.

Definition memzl (x : Z) (l : list Z) : bool := existsb (Z.eqb x) l.
Definition mems (x : string) (l : list string) : bool := existsb (seqb x) l.
Fixpoint remove1z (x : Z) (l : list Z) : list Z :=
  match l with [] => [] | y :: r => if Z.eqb x y then r else y :: remove1z x r end.
Fixpoint remove1s (x : string) (l : list string) : list string :=
  match l with [] => [] | y :: r => if seqb x y then r else y :: remove1s x r end.

Definition upd_a (h : nat -> masset) (o : nat) (f : masset -> masset) := fun x => if Nat.eqb x o then f (h x) else h x.
Definition upd_c (h : nat -> massoc) (o : nat) (f : massoc -> massoc) := fun x => if Nat.eqb x o then f (h x) else h x.
Definition upd_t (h : nat -> mattacker) (o : nat) (f : mattacker -> mattacker) := fun x => if Nat.eqb x o then f (h x) else h x.

Definition a_set_id (a : masset) i := mkMAsset i (ma_name a) (ma_type a) (ma_defs a) (ma_extras a) (ma_assocs a).
Definition a_set_name (a : masset) n := mkMAsset (ma_id a) n (ma_type a) (ma_defs a) (ma_extras a) (ma_assocs a).
Definition a_set_assocs (a : masset) l := mkMAsset (ma_id a) (ma_name a) (ma_type a) (ma_defs a) (ma_extras a) l.
Definition c_set_left (c : massoc) l := mkMAssoc (mc_class c) (mc_lfield c) l (mc_rfield c) (mc_right c) (mc_extras c).
Definition c_set_right (c : massoc) l := mkMAssoc (mc_class c) (mc_lfield c) (mc_left c) (mc_rfield c) l (mc_extras c).
Definition c_set_extras (c : massoc) v := mkMAssoc (mc_class c) (mc_lfield c) (mc_left c) (mc_rfield c) (mc_right c) v.
Definition t_set_entry (t : mattacker) l := mkMAtt (mt_id t) (mt_name t) l.

Inductive mout := MOk | MValueError | MLookupError | MDuplicateAssoc | MAssocException | MBadOp.

Definition with_heaps (s : mstate) ah ch th : mstate :=
  mkM ah ch th (m_na s) (m_nc s) (m_nt s) (m_assets s) (m_assocs s) (m_attackers s) (m_ids s) (m_names s)
      (m_type2assoc s) (m_next s).

(* ---- add_asset ---- *)
Fixpoint fresh_name (fuel : nat) (names : list string) (cand suffix : string) : option string :=
  match fuel with
  | O => None
  | S f => if mems cand names then fresh_name f names (cand ++ suffix) suffix else Some cand
  end.
Definition add_asset (s : mstate) (h : nat) (idopt : option Z) (allow_dup : bool) : mstate * mout :=
  let i := match idopt with Some i => i | None => m_next s end in
  let ah1 := upd_a (m_ah s) h (fun a => a_set_id a (Some i)) in
  if memzl i (m_ids s) then (with_heaps s ah1 (m_ch s) (m_th s), MValueError)
  else
    let ah2 := upd_a ah1 h (fun a => a_set_assocs a []) in
    let name0 := match ma_name (ah2 h) with Some n => n | None => (ma_type (ah2 h) ++ ":" ++ string_of_Z i)%string end in
    let ah3 := upd_a ah2 h (fun a => a_set_name a (Some name0)) in
    if mems name0 (m_names s) then
      if allow_dup then
        let suffix := (":" ++ string_of_Z i)%string in
        match fresh_name (S (List.length (m_names s))) (m_names s) (name0 ++ suffix) suffix with
        | None => (s, MBadOp)          (* cannot happen: the candidates are pairwise distinct *)
        | Some name1 =>
          let ah4 := upd_a ah3 h (fun a => a_set_name a (Some name1)) in
          (mkM ah4 (m_ch s) (m_th s) (m_na s) (m_nc s) (m_nt s) (m_assets s ++ [h]) (m_assocs s) (m_attackers s)
               (m_ids s ++ [i]) (m_names s ++ [name1]) (m_type2assoc s) (Z.max (i + 1) (m_next s)), MOk)
        end
      else (with_heaps s ah3 (m_ch s) (m_th s), MValueError)
    else
      (mkM ah3 (m_ch s) (m_th s) (m_na s) (m_nc s) (m_nt s) (m_assets s ++ [h]) (m_assocs s) (m_attackers s)
           (m_ids s ++ [i]) (m_names s ++ [name0]) (m_type2assoc s) (Z.max (i + 1) (m_next s)), MOk).

(* ---- remove_association ---- *)
Definition t2a_remove (d : list (string * list nat)) (cls : string) (c : nat) : list (string * list nat) :=
  match dget seqb d cls with
  | None => d
  | Some l => let l' := remove1 c l in
              match l' with [] => ddel seqb d cls | _ => dset seqb d cls l' end
  end.
Definition t2a_add (d : list (string * list nat)) (cls : string) (c : nat) : list (string * list nat) :=
  match dget seqb d cls with
  | None => dset seqb d cls [c]
  | Some l => dset seqb d cls (l ++ [c])
  end.
Definition remove_association (s : mstate) (c : nat) : mstate * mout :=
  if negb (memn c (m_assocs s)) then (s, MLookupError)
  else
    let co := m_ch s c in
    let ah1 := fold_left (fun ah a => upd_a ah a (fun x => a_set_assocs x (remove1 c (ma_assocs x)))) (mc_left co) (m_ah s) in
    let ah2 := fold_left (fun ah a => if memn c (ma_assocs (ah a))
                                      then upd_a ah a (fun x => a_set_assocs x (remove1 c (ma_assocs x))) else ah)
                         (mc_right co) ah1 in
    (mkM ah2 (m_ch s) (m_th s) (m_na s) (m_nc s) (m_nt s) (m_assets s) (remove1 c (m_assocs s)) (m_attackers s)
         (m_ids s) (m_names s) (t2a_remove (m_type2assoc s) (mc_class co) c) (m_next s), MOk).

(* ---- remove_asset_from_association ---- *)
Definition remove_asset_from_association (s : mstate) (h c : nat) : mstate * mout :=
  if negb (memn h (m_assets s)) then (s, MLookupError)
  else if negb (memn c (m_assocs s)) then (s, MLookupError)
  else
    let co := m_ch s c in
    if memn h (mc_left co) then
      if Nat.eqb (List.length (mc_left co)) 1 then remove_association s c
      else
        let ch1 := upd_c (m_ch s) c (fun x => c_set_left x (remove1 h (mc_left x))) in
        let s1 := with_heaps s (m_ah s) ch1 (m_th s) in
        if memn h (mc_right co) then
          if Nat.eqb (List.length (mc_right co)) 1 then remove_association s1 c
          else
            let ch2 := upd_c ch1 c (fun x => c_set_right x (remove1 h (mc_right x))) in
            let ah1 := upd_a (m_ah s) h (fun x => a_set_assocs x (remove1 c (ma_assocs x))) in
            (with_heaps s ah1 ch2 (m_th s), MOk)
        else
          let ah1 := upd_a (m_ah s) h (fun x => a_set_assocs x (remove1 c (ma_assocs x))) in
          (with_heaps s ah1 ch1 (m_th s), MOk)
    else if memn h (mc_right co) then
      if Nat.eqb (List.length (mc_right co)) 1 then remove_association s c
      else
        let ch1 := upd_c (m_ch s) c (fun x => c_set_right x (remove1 h (mc_right x))) in
        let ah1 := upd_a (m_ah s) h (fun x => a_set_assocs x (remove1 c (ma_assocs x))) in
        (with_heaps s ah1 ch1 (m_th s), MOk)
    else (s, MLookupError).

(* ---- remove_asset ---- *)
Definition drop_entry (h : nat) (l : list (nat * list string)) : list (nat * list string) :=
  (fix go (l : list (nat * list string)) :=
     match l with [] => [] | (a, st) :: r => if Nat.eqb a h then r else (a, st) :: go r end) l.
Definition remove_asset (s : mstate) (h : nat) : mstate * mout :=
  if negb (memn h (m_assets s)) then (s, MLookupError)
  else
    (* for association in asset.associations (the list object of that moment) *)
    let '(s1, oc) := fold_left (fun '(st, oc) c => match oc with MOk => remove_asset_from_association st h c | _ => (st, oc) end)
                               (ma_assocs (m_ah s h)) (s, MOk) in
    match oc with
    | MOk =>
      let th1 := fold_left (fun th t => upd_t th t (fun x => t_set_entry x (drop_entry h (mt_entry x)))) (m_attackers s1) (m_th s1) in
      let a := m_ah s1 h in
      (mkM (m_ah s1) (m_ch s1) th1 (m_na s1) (m_nc s1) (m_nt s1) (remove1 h (m_assets s1)) (m_assocs s1) (m_attackers s1)
           (match ma_id a with Some i => remove1z i (m_ids s1) | None => m_ids s1 end)
           (match ma_name a with Some n => remove1s n (m_names s1) | None => m_names s1 end)
           (m_type2assoc s1) (m_next s1), MOk)
    | _ => (s1, oc)
    end.

(* ---- add_association (with _validate_association) ---- *)
Definition field_names_unique (s : mstate) (l : list nat) : bool :=
  (fix go (l : list nat) (seen : list string) : bool :=
     match l with
     | [] => true
     | a :: r => match ma_name (m_ah s a) with
                 | Some n => if mems n seen then false else go r (n :: seen)
                 | None => go r seen
                 end
     end) l [].
Definition ids_of (s : mstate) (l : list nat) : list (option Z) := map (fun a => ma_id (m_ah s a)) l.
Definition assoc_exists_between (s : mstate) (cls : string) (l r : nat) : bool :=
  match dget seqb (m_type2assoc s) cls with
  | None => false
  | Some cs => existsb (fun c => existsb (opt_eqb Z.eqb (ma_id (m_ah s l))) (ids_of s (mc_left (m_ch s c)))
                                 && existsb (opt_eqb Z.eqb (ma_id (m_ah s r))) (ids_of s (mc_right (m_ch s c)))) cs
  end.
Definition add_association (s : mstate) (c : nat) : mstate * mout :=
  let co := m_ch s c in
  let same := match dget seqb (m_type2assoc s) (mc_class co) with Some l => l | None => [] end in
  if memn c same then (s, MDuplicateAssoc)
  else if negb (field_names_unique s (mc_left co) && field_names_unique s (mc_right co)) then (s, MAssocException)
  else if existsb (fun l => existsb (fun r => assoc_exists_between s (mc_class co) l r) (mc_right co)) (mc_left co)
       then (s, MDuplicateAssoc)
  else
    let ch1 := upd_c (m_ch s) c (fun x => c_set_extras x (JDict [])) in
    let addref := fun ah a => if memn c (ma_assocs (ah a)) then ah else upd_a ah a (fun x => a_set_assocs x (ma_assocs x ++ [c])) in
    let ah1 := fold_left addref (mc_left co) (m_ah s) in
    let ah2 := fold_left addref (mc_right co) ah1 in
    (mkM ah2 ch1 (m_th s) (m_na s) (m_nc s) (m_nt s) (m_assets s) (m_assocs s ++ [c]) (m_attackers s)
         (m_ids s) (m_names s) (t2a_add (m_type2assoc s) (mc_class co) c) (m_next s), MOk).

(* ---- attackers ---- *)
Definition add_attacker (s : mstate) (t : nat) (idopt : option Z) : mstate :=
  let i := match idopt with Some i => i | None => m_next s end in
  let nm := match mt_name (m_th s t) with
            | Some n => if seqb n "" then ("Attacker:" ++ string_of_Z i)%string else n
            | None => ("Attacker:" ++ string_of_Z i)%string
            end in
  let th1 := upd_t (m_th s) t (fun x => mkMAtt (Some i) (Some nm) (mt_entry x)) in
  mkM (m_ah s) (m_ch s) th1 (m_na s) (m_nc s) (m_nt s) (m_assets s) (m_assocs s) (m_attackers s ++ [t])
      (m_ids s) (m_names s) (m_type2assoc s) (Z.max (i + 1) (m_next s)).
(* list.remove on dataclass objects: the first attacker EQUAL to the argument (same id, name and entry points) *)
Definition matt_eqb (a b : mattacker) : bool :=
  opt_eqb Z.eqb (mt_id a) (mt_id b) && opt_eqb seqb (mt_name a) (mt_name b) &&
  list_eqb (fun x y => Nat.eqb (fst x) (fst y) && list_eqb seqb (snd x) (snd y)) (mt_entry a) (mt_entry b).
Fixpoint remove_first_equal (th : nat -> mattacker) (t : nat) (l : list nat) : option (list nat) :=
  match l with
  | [] => None
  | x :: r => if Nat.eqb x t || matt_eqb (th x) (th t) then Some r
              else match remove_first_equal th t r with Some r' => Some (x :: r') | None => None end
  end.
Definition remove_attacker (s : mstate) (t : nat) : mstate * mout :=
  match remove_first_equal (m_th s) t (m_attackers s) with
  | None => (s, MValueError)
  | Some l => (mkM (m_ah s) (m_ch s) (m_th s) (m_na s) (m_nc s) (m_nt s) (m_assets s) (m_assocs s) l
                   (m_ids s) (m_names s) (m_type2assoc s) (m_next s), MOk)
  end.

Fixpoint entry_add (l : list (nat * list string)) (h : nat) (step : string) : list (nat * list string) :=
  match l with
  | [] => [(h, [step])]
  | (a, st) :: r => if Nat.eqb a h then (a, if mems step st then st else st ++ [step]) :: r
                    else (a, st) :: entry_add r h step
  end.
Fixpoint entry_remove (l : list (nat * list string)) (h : nat) (step : string) : list (nat * list string) :=
  match l with
  | [] => []
  | (a, st) :: r => if Nat.eqb a h then
                      let st' := if mems step st then remove1s step st else st in
                      match st' with [] => r | _ => (a, st') :: r end
                    else (a, st) :: entry_remove r h step
  end.
Definition add_entry_point (s : mstate) (t h : nat) (step : string) : mstate :=
  with_heaps s (m_ah s) (m_ch s) (upd_t (m_th s) t (fun x => t_set_entry x (entry_add (mt_entry x) h step))).
Definition remove_entry_point (s : mstate) (t h : nat) (step : string) : mstate :=
  with_heaps s (m_ah s) (m_ch s) (upd_t (m_th s) t (fun x => t_set_entry x (entry_remove (mt_entry x) h step))).

(* ---- getters ---- *)
Definition get_asset_by_id (s : mstate) (i : Z) : option nat :=
  find (fun h => opt_eqb Z.eqb (ma_id (m_ah s h)) (Some i)) (m_assets s).
Definition get_asset_by_name (s : mstate) (n : string) : option nat :=
  find (fun h => opt_eqb seqb (ma_name (m_ah s h)) (Some n)) (m_assets s).
Definition associated (s : mstate) (h : nat) (f : string) : list nat :=
  flat_map (fun c => let co := m_ch s c in
              (if seqb (mc_rfield co) f && memn h (mc_left co) then mc_right co else []) ++
              (if seqb (mc_lfield co) f && memn h (mc_right co) then mc_left co else []))
           (ma_assocs (m_ah s h)).
