(* ModelInv.v — coherence invariant of the instance model and its preservation by every operation (C05). *)
From MT Require Import Prelude ListFacts Model ModelOps.
From Coq Require Import Arith.

(* ---- small list facts for the aligned id / name lists ---- *)
Lemma remove1z_In x y l : In y (remove1z x l) -> In y l.
Proof. induction l as [|a r IH]; cbn; auto. destruct (Z.eqb x a); cbn; intuition. Qed.
Lemma remove1z_NoDup x l : NoDup l -> NoDup (remove1z x l) /\ ~ In x (remove1z x l).
Proof.
  induction 1 as [|a r Hn Hd [IH1 IH2]]; cbn; [split; [constructor|auto]|].
  destruct (Z.eqb_spec x a); [subst; auto|]. split.
  - constructor; auto. intros A. apply Hn. eapply remove1z_In; eauto.
  - cbn. intros [E|A]; [congruence|auto].
Qed.
Lemma remove1s_In x y l : In y (remove1s x l) -> In y l.
Proof. induction l as [|a r IH]; cbn; auto. destruct (seqb x a); cbn; intuition. Qed.
Lemma remove1s_NoDup x l : NoDup l -> NoDup (remove1s x l) /\ ~ In x (remove1s x l).
Proof.
  induction 1 as [|a r Hn Hd [IH1 IH2]]; cbn; [split; [constructor|auto]|].
  destruct (seqb x a) eqn:E; [apply seqb_spec in E; subst; auto|]. split.
  - constructor; auto. intros A. apply Hn. eapply remove1s_In; eauto.
  - cbn. intros [E'|A]; [subst; rewrite (proj2 (seqb_spec x x) eq_refl) in E; discriminate|auto].
Qed.
Lemma mems_In x l : mems x l = true <-> In x l.
Proof.
  unfold mems. rewrite existsb_exists. split.
  - intros (y & Hy & E). apply seqb_spec in E. subst; auto.
  - intros H. exists x. split; auto. apply seqb_spec; auto.
Qed.
Lemma memzl_In x l : memzl x l = true <-> In x l.
Proof.
  unfold memzl. rewrite existsb_exists. split.
  - intros (y & Hy & E). apply Z.eqb_eq in E. subst; auto.
  - intros H. exists x. split; auto. apply Z.eqb_refl.
Qed.

(* removing the element at the position of x from two aligned lists *)
Lemma aligned_remove {A B} (f : nat -> A) (g : B -> A) (rb : B -> list B -> list B) (keys : list nat) (vals : list B) h b :
  (forall l, NoDup (b :: l) -> rb b (b :: l) = l) ->
  (forall y l, y <> b -> rb b (y :: l) = y :: rb b l) ->
  (forall x y, g x = g y -> x = y) ->
  map f keys = map g vals -> NoDup keys -> NoDup vals -> In h keys -> f h = g b ->
  map f (remove1 h keys) = map g (rb b vals).
Proof.
  intros R1 R2 Ginj. revert vals. induction keys as [|k r IH]; intros vals E Nk Nv Hin Hf; [destruct Hin|].
  destruct vals as [|v vr]; [discriminate|]. cbn in E. inversion E as [[E1 E2]]. inversion Nk; subst. inversion Nv; subst.
  cbn [remove1]. destruct (Nat.eqb_spec h k) as [->|Nh].
  - assert (v = b) by (apply Ginj; congruence). subst v. rewrite R1 by (constructor; auto). exact E2.
  - destruct Hin as [->|Hin]; [congruence|].
    assert (v <> b).
    { intros ->. (* then b occurs at the head and also (via h) in the tail *)
      assert (In (g b) (map g vr)) by (rewrite <- E2, <- Hf; apply in_map; auto).
      apply in_map_iff in H. destruct H as (b' & Eb & Hb'). apply Ginj in Eb. subst. auto. }
    rewrite R2 by auto. cbn. f_equal; auto.
Qed.

(* ---- the invariant ---- *)
Definition id_of (s : mstate) (h : nat) := ma_id (m_ah s h).
Definition name_of (s : mstate) (h : nat) := ma_name (m_ah s h).
Definition members (s : mstate) (c : nat) : list nat := mc_left (m_ch s c) ++ mc_right (m_ch s c).

Record MI (s : mstate) : Prop := mkMI {
  mi_nodup_assets : NoDup (m_assets s);
  mi_alloc_a : forall h, In h (m_assets s) -> h < m_na s;
  mi_ids : map (id_of s) (m_assets s) = map Some (m_ids s);
  mi_names : map (name_of s) (m_assets s) = map Some (m_names s);
  mi_nodup_ids : NoDup (m_ids s);
  mi_nodup_names : NoDup (m_names s);
  mi_next : forall i, In i (m_ids s) -> (i < m_next s)%Z;
  mi_nodup_assocs : NoDup (m_assocs s);
  mi_alloc_c : forall c, In c (m_assocs s) -> c < m_nc s;
  mi_members_live : forall c h, In c (m_assocs s) -> In h (members s c) -> In h (m_assets s);
  mi_backrefs : forall h c, In h (m_assets s) ->
                  (In c (ma_assocs (m_ah s h)) <-> In c (m_assocs s) /\ In h (members s c));
  mi_backrefs_nodup : forall h, In h (m_assets s) -> NoDup (ma_assocs (m_ah s h));
  mi_fields_nodup : forall c, In c (m_assocs s) -> NoDup (mc_left (m_ch s c)) /\ NoDup (mc_right (m_ch s c));
  mi_entries : forall t, NoDup (map fst (mt_entry (m_th s t)));
  mi_entries_live : forall t h, In t (m_attackers s) -> In h (map fst (mt_entry (m_th s t))) -> In h (m_assets s) }.

Lemma MI_init : MI minit.
Proof. constructor; cbn; try constructor; intros; try contradiction; auto; try (split; [intros []|intros [[] _]]). Qed.

(* consequences: live ids and names are unique *)
Lemma map_Some_inj {A} (l1 l2 : list A) : map Some l1 = map Some l2 -> l1 = l2.
Proof. revert l2; induction l1 as [|a r IH]; intros [|b r2] E; try discriminate; auto. cbn in E. inversion E. f_equal; auto. Qed.
Lemma NoDup_map_Some {A} (l : list A) : NoDup l -> NoDup (map Some l).
Proof. induction 1; cbn; constructor; auto. intros H1. apply in_map_iff in H1. destruct H1 as (y & E & Hy). inversion E; subst; auto. Qed.
Lemma NoDup_map_inj {A B} (f : A -> B) (l : list A) x y : NoDup (map f l) -> In x l -> In y l -> f x = f y -> x = y.
Proof.
  induction l as [|a r IH]; cbn; intros N Hx Hy E; [destruct Hx|]. inversion N; subst.
  destruct Hx as [->|Hx], Hy as [->|Hy]; auto.
  - exfalso. apply H1. rewrite E. apply in_map; auto.
  - exfalso. apply H1. rewrite <- E. apply in_map; auto.
Qed.
Theorem MI_ids_unique s : MI s -> forall h1 h2, In h1 (m_assets s) -> In h2 (m_assets s) -> id_of s h1 = id_of s h2 -> h1 = h2.
Proof.
  intros I h1 h2 H1 H2 E. apply (NoDup_map_inj (id_of s) (m_assets s)); auto.
  rewrite (mi_ids s I). apply NoDup_map_Some. apply I.
Qed.
Theorem MI_names_unique s : MI s -> forall h1 h2, In h1 (m_assets s) -> In h2 (m_assets s) -> name_of s h1 = name_of s h2 -> h1 = h2.
Proof.
  intros I h1 h2 H1 H2 E. apply (NoDup_map_inj (name_of s) (m_assets s)); auto.
  rewrite (mi_names s I). apply NoDup_map_Some. apply I.
Qed.
Theorem MI_has_id s : MI s -> forall h, In h (m_assets s) -> exists i n, id_of s h = Some i /\ In i (m_ids s) /\ name_of s h = Some n /\ In n (m_names s).
Proof.
  intros I h Hh.
  assert (A : In (id_of s h) (map Some (m_ids s))) by (rewrite <- (mi_ids s I); apply in_map; auto).
  assert (B : In (name_of s h) (map Some (m_names s))) by (rewrite <- (mi_names s I); apply in_map; auto).
  apply in_map_iff in A. destruct A as (i & Ei & Hi). apply in_map_iff in B. destruct B as (n & En & Hn).
  exists i, n. auto.
Qed.
Theorem MI_reserved_exact s : MI s ->
  (forall i, In i (m_ids s) <-> exists h, In h (m_assets s) /\ id_of s h = Some i) /\
  (forall n, In n (m_names s) <-> exists h, In h (m_assets s) /\ name_of s h = Some n).
Proof.
  intros I. split.
  - intros i. split.
    + intros Hi. assert (A : In (Some i) (map (id_of s) (m_assets s))) by (rewrite (mi_ids s I); apply in_map; auto).
      apply in_map_iff in A. destruct A as (h & E & Hh). eauto.
    + intros (h & Hh & E). assert (A : In (Some i) (map Some (m_ids s))) by (rewrite <- (mi_ids s I), <- E; apply in_map; auto).
      apply in_map_iff in A. destruct A as (j & Ej & Hj). inversion Ej; subst; auto.
  - intros n. split.
    + intros Hn. assert (A : In (Some n) (map (name_of s) (m_assets s))) by (rewrite (mi_names s I); apply in_map; auto).
      apply in_map_iff in A. destruct A as (h & E & Hh). eauto.
    + intros (h & Hh & E). assert (A : In (Some n) (map Some (m_names s))) by (rewrite <- (mi_names s I), <- E; apply in_map; auto).
      apply in_map_iff in A. destruct A as (j & Ej & Hj). inversion Ej; subst; auto.
Qed.

(* neighbours = the assets linked through the field *)
Theorem MI_neighbours s : MI s -> forall h f b, In h (m_assets s) ->
  (In b (associated s h f) <->
   exists c, In c (m_assocs s) /\
     ((mc_rfield (m_ch s c) = f /\ In h (mc_left (m_ch s c)) /\ In b (mc_right (m_ch s c))) \/
      (mc_lfield (m_ch s c) = f /\ In h (mc_right (m_ch s c)) /\ In b (mc_left (m_ch s c))))).
Proof.
  intros I h f b Hh. unfold associated. rewrite in_flat_map. split.
  - intros (c & Hc & Hb). apply (mi_backrefs s I h c Hh) in Hc. destruct Hc as [Hc _]. exists c. split; auto.
    apply in_app_or in Hb. destruct Hb as [Hb|Hb].
    + destruct (seqb (mc_rfield (m_ch s c)) f && memn h (mc_left (m_ch s c))) eqn:E; [|destruct Hb].
      apply andb_true_iff in E. destruct E as [E1 E2]. apply seqb_spec in E1. apply memn_In in E2. left. auto.
    + destruct (seqb (mc_lfield (m_ch s c)) f && memn h (mc_right (m_ch s c))) eqn:E; [|destruct Hb].
      apply andb_true_iff in E. destruct E as [E1 E2]. apply seqb_spec in E1. apply memn_In in E2. right. auto.
  - intros (c & Hc & Hside). exists c. split.
    + apply (mi_backrefs s I h c Hh). split; auto. unfold members. apply in_or_app. destruct Hside as [(_ & H1 & _)|(_ & H1 & _)]; auto.
    + apply in_or_app. destruct Hside as [(E & H1 & H2)|(E & H1 & H2)].
      * left. rewrite (proj2 (seqb_spec _ _) E). rewrite (proj2 (memn_In _ _) H1). exact H2.
      * right. rewrite (proj2 (seqb_spec _ _) E). rewrite (proj2 (memn_In _ _) H1). exact H2.
Qed.

(* ---- frames ---- *)
Lemma upd_a_same h o f : upd_a h o f o = f (h o).
Proof. unfold upd_a. now rewrite Nat.eqb_refl. Qed.
Lemma upd_a_other h o f x : x <> o -> upd_a h o f x = h x.
Proof. intros N. unfold upd_a. destruct (Nat.eqb_spec x o); congruence. Qed.
Lemma upd_c_same h o f : upd_c h o f o = f (h o).
Proof. unfold upd_c. now rewrite Nat.eqb_refl. Qed.
Lemma upd_c_other h o f x : x <> o -> upd_c h o f x = h x.
Proof. intros N. unfold upd_c. destruct (Nat.eqb_spec x o); congruence. Qed.
Lemma upd_t_same h o f : upd_t h o f o = f (h o).
Proof. unfold upd_t. now rewrite Nat.eqb_refl. Qed.
Lemma upd_t_other h o f x : x <> o -> upd_t h o f x = h x.
Proof. intros N. unfold upd_t. destruct (Nat.eqb_spec x o); congruence. Qed.

Lemma map_ext_in' {A B} (f g : A -> B) l : (forall x, In x l -> f x = g x) -> map f l = map g l.
Proof. apply map_ext_in. Qed.

Lemma MI_frame s s' :
  m_assets s' = m_assets s -> m_assocs s' = m_assocs s -> m_attackers s' = m_attackers s ->
  m_ids s' = m_ids s -> m_names s' = m_names s -> m_next s' = m_next s ->
  m_na s <= m_na s' -> m_nc s <= m_nc s' ->
  (forall h, In h (m_assets s) -> m_ah s' h = m_ah s h) ->
  (forall c, In c (m_assocs s) -> mc_left (m_ch s' c) = mc_left (m_ch s c) /\ mc_right (m_ch s' c) = mc_right (m_ch s c)) ->
  (forall t, NoDup (map fst (mt_entry (m_th s' t)))) ->
  (forall t, In t (m_attackers s) -> mt_entry (m_th s' t) = mt_entry (m_th s t)) ->
  MI s -> MI s'.
Proof.
  intros E1 E2 E3 E4 E5 E6 L1 L2 FA FC FT1 FT2 I.
  assert (MEM : forall c, In c (m_assocs s) -> members s' c = members s c).
  { intros c Hc. unfold members. destruct (FC c Hc) as [-> ->]. reflexivity. }
  constructor; rewrite ?E1, ?E2, ?E3, ?E4, ?E5, ?E6.
  - apply I.
  - intros h Hh. pose proof (mi_alloc_a s I h Hh). lia.
  - rewrite <- (mi_ids s I). apply map_ext_in. intros h Hh. unfold id_of. rewrite FA; auto.
  - rewrite <- (mi_names s I). apply map_ext_in. intros h Hh. unfold name_of. rewrite FA; auto.
  - apply I.
  - apply I.
  - apply I.
  - apply I.
  - intros c Hc. pose proof (mi_alloc_c s I c Hc). lia.
  - intros c h Hc Hh. rewrite MEM in Hh by auto. eapply mi_members_live; eauto.
  - intros h c Hh. rewrite FA by auto. rewrite (mi_backrefs s I h c Hh). split.
    + intros [A B]. split; auto. rewrite MEM; auto.
    + intros [A B]. split; auto. rewrite MEM in B; auto.
  - intros h Hh. rewrite FA by auto. apply I; auto.
  - intros c Hc. destruct (FC c Hc) as [-> ->]. apply I; auto.
  - exact FT1.
  - intros t h Ht Hh. rewrite FT2 in Hh by auto. eapply mi_entries_live; eauto.
Qed.

(* ---- add_asset ---- *)
Lemma fresh_name_spec : forall fuel names cand suffix n, fresh_name fuel names cand suffix = Some n -> ~ In n names.
Proof.
  induction fuel as [|f IH]; intros names cand suffix n H; [discriminate|]. cbn in H.
  destruct (mems cand names) eqn:E; [eapply IH; eauto|]. inversion H; subst. intros A. apply mems_In in A. congruence.
Qed.

Lemma MI_add_asset s h idopt allow :
  MI s -> h < m_na s -> ~ In h (m_assets s) -> MI (fst (add_asset s h idopt allow)).
Proof.
  intros I Hl Hn. unfold add_asset.
  set (i := match idopt with Some i => i | None => m_next s end).
  set (ah1 := upd_a (m_ah s) h (fun a => a_set_id a (Some i))).
  assert (FR : forall ah', (forall x, x <> h -> ah' x = m_ah s x) -> MI (with_heaps s ah' (m_ch s) (m_th s))).
  { intros ah' Hoth. apply (MI_frame s); cbn; auto.
    - intros x Hx. apply Hoth. intros ->; auto.
    - apply I. }
  destruct (memzl i (m_ids s)) eqn:Eid; cbn [fst].
  { apply FR. intros x Hx. unfold ah1. rewrite upd_a_other; auto. }
  apply Bool.not_true_iff_false in Eid. rewrite memzl_In in Eid.
  set (ah2 := upd_a ah1 h (fun a => a_set_assocs a [])).
  set (name0 := match ma_name (ah2 h) with Some n => n | None => (ma_type (ah2 h) ++ ":" ++ string_of_Z i)%string end).
  set (ah3 := upd_a ah2 h (fun a => a_set_name a (Some name0))).
  (* the accepted case, for whatever final name n not in use *)
  assert (ACC : forall ahf n, (forall x, x <> h -> ahf x = m_ah s x) ->
     ma_id (ahf h) = Some i -> ma_name (ahf h) = Some n -> ma_assocs (ahf h) = [] -> ~ In n (m_names s) ->
     MI (mkM ahf (m_ch s) (m_th s) (m_na s) (m_nc s) (m_nt s) (m_assets s ++ [h]) (m_assocs s) (m_attackers s)
             (m_ids s ++ [i]) (m_names s ++ [n]) (m_type2assoc s) (Z.max (i + 1) (m_next s)))).
  { intros ahf n Hoth Hi Hnm Has Hfresh.
    assert (Hold : forall x, In x (m_assets s) -> ahf x = m_ah s x) by (intros x Hx; apply Hoth; intros ->; auto).
    constructor; cbn.
    - apply NoDup_app_single; auto. apply I.
    - intros x Hx. apply In_app_single in Hx. destruct Hx as [Hx| ->]; auto. apply I; auto.
    - rewrite !map_app. cbn. unfold id_of at 2. cbn. rewrite Hi. f_equal.
      rewrite <- (mi_ids s I). apply map_ext_in. intros x Hx. unfold id_of; cbn. rewrite Hold; auto.
    - rewrite !map_app. cbn. unfold name_of at 2. cbn. rewrite Hnm. f_equal.
      rewrite <- (mi_names s I). apply map_ext_in. intros x Hx. unfold name_of; cbn. rewrite Hold; auto.
    - apply NoDup_app_single; auto. apply I.
    - apply NoDup_app_single; auto. apply I.
    - intros j Hj. apply In_app_single in Hj. destruct Hj as [Hj| ->]; [pose proof (mi_next s I j Hj)|]; lia.
    - apply I.
    - apply I.
    - intros c x Hc Hx. apply In_app_single. left. eapply (mi_members_live s I c); eauto.
    - intros x c Hx. apply In_app_single in Hx. unfold members; cbn. destruct Hx as [Hx| ->].
      + rewrite Hold by auto. apply (mi_backrefs s I x c Hx).
      + rewrite Has. split; [intros []|]. intros [Hc Hm]. apply Hn. eapply (mi_members_live s I c); eauto.
    - intros x Hx. apply In_app_single in Hx. destruct Hx as [Hx| ->].
      + rewrite Hold by auto. apply I; auto.
      + rewrite Has. constructor.
    - apply I.
    - apply I.
    - intros t x Ht Hx. apply In_app_single. left. eapply (mi_entries_live s I); eauto. }
  assert (O3 : forall x, x <> h -> ah3 x = m_ah s x).
  { intros x Hx. unfold ah3, ah2, ah1. rewrite !upd_a_other; auto. }
  destruct (mems name0 (m_names s)) eqn:En.
  - destruct allow.
    + destruct (fresh_name _ _ _ _) as [name1|] eqn:Ef; cbn [fst]; [|exact I].
      apply ACC.
      * intros x Hx. rewrite upd_a_other; auto.
      * rewrite upd_a_same. unfold ah3, ah2, ah1. rewrite !upd_a_same. reflexivity.
      * rewrite upd_a_same. reflexivity.
      * rewrite upd_a_same. unfold ah3, ah2. rewrite !upd_a_same. reflexivity.
      * eapply fresh_name_spec; eauto.
    + cbn [fst]. apply FR. exact O3.
  - cbn [fst]. apply ACC; auto.
    + unfold ah3, ah2, ah1. rewrite !upd_a_same. reflexivity.
    + unfold ah3. rewrite upd_a_same. reflexivity.
    + unfold ah3, ah2. rewrite !upd_a_same. reflexivity.
    + intros A. apply mems_In in A. congruence.
Qed.

(* ---- folds of per-element heap updates over duplicate-free lists ---- *)
Lemma fold_upd_a_each (u : masset -> masset) : forall l, NoDup l -> forall ah x,
  fold_left (fun ah a => upd_a ah a u) l ah x = if memn x l then u (ah x) else ah x.
Proof.
  induction l as [|a r IH]; intros N ah x; cbn [fold_left]; auto. inversion N; subst.
  rewrite IH by auto. cbn [memn existsb]. fold (memn x r).
  destruct (Nat.eqb_spec x a) as [->|Nx].
  - replace (memn a r) with false by (symmetry; apply memn_nIn; auto). rewrite upd_a_same. reflexivity.
  - rewrite upd_a_other by auto. reflexivity.
Qed.
Lemma fold_cond_upd_a_each (p : masset -> bool) (u : masset -> masset) : forall l, NoDup l -> forall ah x,
  fold_left (fun ah a => if p (ah a) then upd_a ah a u else ah) l ah x =
  if memn x l then (if p (ah x) then u (ah x) else ah x) else ah x.
Proof.
  induction l as [|a r IH]; intros N ah x; cbn [fold_left]; auto. inversion N; subst.
  rewrite IH by auto. cbn [memn existsb]. fold (memn x r).
  destruct (Nat.eqb_spec x a) as [->|Nx].
  - replace (memn a r) with false by (symmetry; apply memn_nIn; auto). cbn.
    destruct (p (ah a)) eqn:E; [rewrite upd_a_same|]; reflexivity.
  - destruct (p (ah a)); [rewrite upd_a_other by auto|]; reflexivity.
Qed.

Lemma memn_app x l1 l2 : memn x (l1 ++ l2) = memn x l1 || memn x l2.
Proof. unfold memn. apply existsb_app. Qed.

(* ---- remove_association ---- *)
Lemma remove_association_spec s c : MI s -> In c (m_assocs s) ->
  exists s', remove_association s c = (s', MOk) /\
    m_assets s' = m_assets s /\ m_assocs s' = remove1 c (m_assocs s) /\ m_attackers s' = m_attackers s /\
    m_ids s' = m_ids s /\ m_names s' = m_names s /\ m_next s' = m_next s /\ m_na s' = m_na s /\ m_nc s' = m_nc s /\
    m_nt s' = m_nt s /\ m_ch s' = m_ch s /\ m_th s' = m_th s /\
    (forall x, ma_id (m_ah s' x) = ma_id (m_ah s x) /\ ma_name (m_ah s' x) = ma_name (m_ah s x)) /\
    (forall x, In x (m_assets s) ->
       ma_assocs (m_ah s' x) = if memn x (members s c) then remove1 c (ma_assocs (m_ah s x)) else ma_assocs (m_ah s x)).
Proof.
  intros I Hc. unfold remove_association. rewrite (proj2 (memn_In _ _) Hc). cbn [negb].
  eexists. split; [reflexivity|]. cbn. repeat (split; [reflexivity|]).
  destruct (mi_fields_nodup s I c Hc) as [NL NR].
  set (u := fun x : masset => a_set_assocs x (remove1 c (ma_assocs x))).
  split.
  - intros x. rewrite (fold_cond_upd_a_each (fun a => memn c (ma_assocs a)) u) by auto.
    rewrite (fold_upd_a_each u) by auto.
    destruct (memn x (mc_right (m_ch s c))), (memn x (mc_left (m_ch s c))); cbn;
      repeat match goal with |- context [if ?b then _ else _] => destruct b end; cbn; auto.
  - intros x Hx. rewrite (fold_cond_upd_a_each (fun a => memn c (ma_assocs a)) u) by auto.
    rewrite (fold_upd_a_each u) by auto.
    unfold members. rewrite memn_app.
    pose proof (mi_backrefs_nodup s I x Hx) as Nb.
    assert (U1 : forall a, ma_assocs (u a) = remove1 c (ma_assocs a)) by reflexivity.
    destruct (memn x (mc_left (m_ch s c))) eqn:EL, (memn x (mc_right (m_ch s c))) eqn:ER; cbn [orb].
    + rewrite U1. replace (memn c (remove1 c (ma_assocs (m_ah s x)))) with false; [apply U1|].
      symmetry. apply memn_nIn. apply remove1_NoDup_nIn; auto.
    + apply U1.
    + destruct (memn c (ma_assocs (m_ah s x))) eqn:Ec; [apply U1|].
      apply memn_nIn in Ec. rewrite remove1_notin; auto.
    + reflexivity.
Qed.

Lemma remove1_NoDup_iff' x y l : NoDup l -> (In y (remove1 x l) <-> In y l /\ y <> x).
Proof.
  intros H. split.
  - intros Hy. split; [eapply remove1_In; eauto|]. intros ->. revert Hy. apply remove1_NoDup_nIn; auto.
  - intros [Hy N]. apply remove1_In_neq; auto.
Qed.

Lemma MI_remove_association s c : MI s -> In c (m_assocs s) -> MI (fst (remove_association s c)).
Proof.
  intros I Hc. destruct (remove_association_spec s c I Hc) as (s' & E & A1 & A2 & A3 & A4 & A5 & A6 & A7 & A8 & A9 & A10 & A11 & FId & FB).
  rewrite E. cbn [fst].
  assert (MEM : forall c', members s' c' = members s c') by (intros c'; unfold members; rewrite A10; auto).
  assert (Nc : NoDup (m_assocs s)) by apply I.
  constructor; rewrite ?A1, ?A2, ?A3, ?A4, ?A5, ?A6, ?A7, ?A8.
  - apply I.
  - apply I.
  - rewrite <- (mi_ids s I). apply map_ext. intros x. unfold id_of. apply FId.
  - rewrite <- (mi_names s I). apply map_ext. intros x. unfold name_of. apply FId.
  - apply I.
  - apply I.
  - apply I.
  - apply remove1_NoDup; auto.
  - intros c' Hc'. apply remove1_In in Hc'. apply I; auto.
  - intros c' h Hc' Hh. apply remove1_In in Hc'. rewrite MEM in Hh. eapply mi_members_live; eauto.
  - intros h c' Hh. rewrite FB by auto. rewrite MEM. rewrite remove1_NoDup_iff' by auto.
    pose proof (mi_backrefs s I h c' Hh) as B. pose proof (mi_backrefs_nodup s I h Hh) as Nb.
    destruct (memn h (members s c)) eqn:Em.
    + rewrite remove1_NoDup_iff' by auto. tauto.
    + apply memn_nIn in Em. split.
      * intros H. apply B in H. destruct H as [H1 H2]. split; auto. split; auto. intros ->. auto.
      * intros [[H1 H3] H2]. apply B. auto.
  - intros h Hh. rewrite FB by auto. destruct (memn h (members s c)); [apply remove1_NoDup|]; apply I; auto.
  - intros c' Hc'. apply remove1_In in Hc'. rewrite A10. apply I; auto.
  - rewrite A11. apply I.
  - rewrite A11. apply I.
Qed.

(* ---- changing the member lists of one live association ---- *)
Definition set_fields (s : mstate) (c : nat) (l r : list nat) : mstate :=
  with_heaps s (m_ah s) (upd_c (m_ch s) c (fun x => c_set_right (c_set_left x l) r)) (m_th s).

Lemma MI_same_members s c l r : MI s -> In c (m_assocs s) -> NoDup l -> NoDup r ->
  (forall x, In x (l ++ r) <-> In x (members s c)) -> MI (set_fields s c l r).
Proof.
  intros I Hc Nl Nr Hm.
  assert (MEM : forall c' x, In x (members (set_fields s c l r) c') <-> In x (members s c')).
  { intros c' x. unfold members, set_fields; cbn. unfold upd_c. destruct (Nat.eqb_spec c' c) as [->|N]; cbn; [apply Hm|tauto]. }
  constructor; cbn; try apply I.
  - intros c' h Hc' Hh. apply MEM in Hh. eapply mi_members_live; eauto.
  - intros h c' Hh. rewrite (mi_backrefs s I h c' Hh). rewrite MEM. tauto.
  - intros c' Hc'. unfold upd_c. destruct (Nat.eqb_spec c' c) as [->|N]; cbn; [auto|apply I; auto].
Qed.

Lemma MI_drop_member s c h l r : MI s -> In c (m_assocs s) -> In h (m_assets s) -> NoDup l -> NoDup r ->
  (forall x, In x (l ++ r) <-> In x (members s c) /\ x <> h) ->
  MI (with_heaps (set_fields s c l r) (upd_a (m_ah s) h (fun x => a_set_assocs x (remove1 c (ma_assocs x))))
                 (m_ch (set_fields s c l r)) (m_th s)).
Proof.
  intros I Hc Hh Nl Nr Hm.
  set (s' := with_heaps _ _ _ _).
  assert (MEMc : forall x, In x (members s' c) <-> In x (members s c) /\ x <> h).
  { intros x. unfold members, s', set_fields; cbn. rewrite upd_c_same. cbn. apply Hm. }
  assert (MEMo : forall c' , c' <> c -> members s' c' = members s c').
  { intros c' N. unfold members, s', set_fields; cbn. rewrite upd_c_other by auto. reflexivity. }
  assert (AH : forall x, x <> h -> m_ah s' x = m_ah s x) by (intros x N; unfold s'; cbn; rewrite upd_a_other; auto).
  assert (AHh : ma_assocs (m_ah s' h) = remove1 c (ma_assocs (m_ah s h)) /\ ma_id (m_ah s' h) = ma_id (m_ah s h) /\
                ma_name (m_ah s' h) = ma_name (m_ah s h)) by (unfold s'; cbn; rewrite upd_a_same; cbn; auto).
  constructor.
  - apply (mi_nodup_assets s I).
  - apply (mi_alloc_a s I).
  - change (m_assets s') with (m_assets s). change (m_ids s') with (m_ids s).
    rewrite <- (mi_ids s I). apply map_ext. intros x. unfold id_of. destruct (Nat.eq_dec x h) as [->|N]; [apply AHh | rewrite AH; auto].
  - change (m_assets s') with (m_assets s). change (m_names s') with (m_names s).
    rewrite <- (mi_names s I). apply map_ext. intros x. unfold name_of. destruct (Nat.eq_dec x h) as [->|N]; [apply AHh | rewrite AH; auto].
  - apply (mi_nodup_ids s I).
  - apply (mi_nodup_names s I).
  - apply (mi_next s I).
  - apply (mi_nodup_assocs s I).
  - apply (mi_alloc_c s I).
  - intros c' x Hc' Hx. change (m_assocs s') with (m_assocs s) in Hc'. change (m_assets s') with (m_assets s).
    destruct (Nat.eq_dec c' c) as [->|N].
    + apply MEMc in Hx. eapply mi_members_live; eauto. tauto.
    + rewrite MEMo in Hx by auto. eapply mi_members_live; eauto.
  - intros x c' Hx. change (m_assocs s') with (m_assocs s). change (m_assets s') with (m_assets s) in Hx.
    pose proof (mi_backrefs s I x c' Hx) as B.
    destruct (Nat.eq_dec x h) as [->|Nx].
    + destruct AHh as (-> & _). rewrite remove1_NoDup_iff' by (apply I; auto).
      destruct (Nat.eq_dec c' c) as [->|Nc].
      * rewrite MEMc. tauto.
      * rewrite MEMo by auto. tauto.
    + rewrite AH by auto. destruct (Nat.eq_dec c' c) as [->|Nc].
      * rewrite MEMc. tauto.
      * rewrite MEMo by auto. tauto.
  - intros x Hx. change (m_assets s') with (m_assets s) in Hx. destruct (Nat.eq_dec x h) as [->|Nx].
    + destruct AHh as (-> & _). apply remove1_NoDup. apply I; auto.
    + rewrite AH by auto. apply I; auto.
  - intros c' Hc'. change (m_assocs s') with (m_assocs s) in Hc'. unfold s', set_fields; cbn. unfold upd_c.
    destruct (Nat.eqb_spec c' c) as [->|N]; cbn; [auto|apply I; auto].
  - apply (mi_entries s I).
  - apply (mi_entries_live s I).
Qed.

(* ---- states that agree pointwise ---- *)
Definition mequiv (s s' : mstate) : Prop :=
  m_assets s' = m_assets s /\ m_assocs s' = m_assocs s /\ m_attackers s' = m_attackers s /\ m_ids s' = m_ids s /\
  m_names s' = m_names s /\ m_next s' = m_next s /\ m_na s' = m_na s /\ m_nc s' = m_nc s /\ m_nt s' = m_nt s /\
  (forall x, m_ah s' x = m_ah s x) /\ (forall x, m_ch s' x = m_ch s x) /\ (forall x, m_th s' x = m_th s x).
Lemma MI_equiv s s' : mequiv s s' -> MI s -> MI s'.
Proof.
  intros (E1 & E2 & E3 & E4 & E5 & E6 & E7 & E8 & E9 & FA & FC & FT) I.
  apply (MI_frame s); auto; try lia.
  - intros c Hc. rewrite FC. auto.
  - intros t. rewrite FT. apply I.
  - intros t Ht. rewrite FT. auto.
Qed.

(* ---- remove_asset_from_association ---- *)
Definition RFA_post (s s' : mstate) (h c : nat) : Prop :=
  MI s' /\ m_assets s' = m_assets s /\ m_ids s' = m_ids s /\ m_names s' = m_names s /\ m_attackers s' = m_attackers s /\
  (forall t, m_th s' t = m_th s t) /\ m_next s' = m_next s /\ m_na s' = m_na s /\ m_nc s' = m_nc s /\ m_nt s' = m_nt s /\
  (forall x, ma_id (m_ah s' x) = ma_id (m_ah s x) /\ ma_name (m_ah s' x) = ma_name (m_ah s x)) /\
  ~ (In c (m_assocs s') /\ In h (members s' c)) /\
  (forall c', c' <> c -> (In c' (m_assocs s') <-> In c' (m_assocs s)) /\ members s' c' = members s c') /\
  (forall c', In c' (m_assocs s') -> In c' (m_assocs s)).

Lemma RFA_post_equiv s s1 s2 h c : mequiv s1 s2 -> RFA_post s s1 h c -> RFA_post s s2 h c.
Proof.
  intros Q P. pose proof Q as (E1 & E2 & E3 & E4 & E5 & E6 & E7 & E8 & E9 & FA & FC & FT).
  destruct P as (P0 & P1 & P2 & P3 & P4 & P5 & P6 & P7 & P8 & P9 & P10 & P11 & P12 & P13).
  assert (MEM : forall c', members s2 c' = members s1 c') by (intros c'; unfold members; rewrite FC; auto).
  split; [eapply MI_equiv; eauto|]. rewrite E1, E2, E3, E4, E5, E6, E7, E8, E9.
  split; [auto|]. split; [auto|]. split; [auto|]. split; [auto|]. split; [intros t; rewrite FT; auto|].
  split; [auto|]. split; [auto|]. split; [auto|]. split; [auto|].
  split; [intros x; rewrite FA; auto|]. split; [rewrite MEM; auto|]. split; [|auto].
  intros c' N. rewrite MEM. auto.
Qed.

Lemma RFA_of_remove_association s c h : MI s -> In c (m_assocs s) -> RFA_post s (fst (remove_association s c)) h c.
Proof.
  intros I Hc. pose proof (MI_remove_association s c I Hc) as I'.
  destruct (remove_association_spec s c I Hc) as (s' & E & A1 & A2 & A3 & A4 & A5 & A6 & A7 & A8 & A9 & A10 & A11 & FId & FB).
  rewrite E in *. cbn [fst] in *.
  assert (Nc : NoDup (m_assocs s)) by apply I.
  split; [auto|]. split; [auto|]. split; [auto|]. split; [auto|]. split; [auto|]. split; [intros t; rewrite A11; auto|].
  split; [auto|]. split; [auto|]. split; [auto|]. split; [auto|]. split; [auto|]. split.
  - intros [H _]. rewrite A2 in H. revert H. apply remove1_NoDup_nIn; auto.
  - split.
    + intros c' N. rewrite A2. split.
      * rewrite remove1_NoDup_iff' by auto. tauto.
      * unfold members. rewrite A10. reflexivity.
    + intros c' H. rewrite A2 in H. eapply remove1_In; eauto.
Qed.

Lemma length_one_single (l : list nat) x : List.length l = 1 -> In x l -> l = [x].
Proof. destruct l as [|a [|b r]]; cbn; try discriminate. intros _ [->|[]]. reflexivity. Qed.

Lemma rfa_spec s h c : MI s -> In h (m_assets s) -> In c (m_assocs s) -> In h (members s c) ->
  exists s', remove_asset_from_association s h c = (s', MOk) /\ RFA_post s s' h c.
Proof.
  intros I Hh Hc Hm. unfold remove_asset_from_association.
  rewrite (proj2 (memn_In _ _) Hh), (proj2 (memn_In _ _) Hc). cbn [negb].
  destruct (mi_fields_nodup s I c Hc) as [NL NR].
  set (co := m_ch s c) in *.
  (* the asset leaves the association, which stays *)
  assert (DROP : forall l r s2, NoDup l -> NoDup r ->
     (forall x, In x (l ++ r) <-> In x (members s c) /\ x <> h) ->
     mequiv (with_heaps (set_fields s c l r) (upd_a (m_ah s) h (fun x => a_set_assocs x (remove1 c (ma_assocs x))))
                        (m_ch (set_fields s c l r)) (m_th s)) s2 ->
     RFA_post s s2 h c).
  { intros l r s2 Nl Nr Hlr Q. eapply RFA_post_equiv; [exact Q|].
    split; [apply MI_drop_member; auto|]. cbn.
    do 4 (split; [reflexivity|]). split; [intros t; reflexivity|]. do 4 (split; [reflexivity|]). split.
    - intros x. unfold upd_a. destruct (Nat.eqb x h); cbn; auto.
    - split.
      + intros [_ H]. unfold members in H. cbn in H. rewrite upd_c_same in H. cbn in H. apply Hlr in H. tauto.
      + split; [|auto]. intros c' N. split; [tauto|]. unfold members; cbn. rewrite upd_c_other by auto. reflexivity. }
  (* the whole association goes, from a state s0 that differs from s at most in the member lists of c *)
  assert (RA : forall s0, MI s0 -> In c (m_assocs s0) -> m_assets s0 = m_assets s -> m_ids s0 = m_ids s -> m_names s0 = m_names s ->
     m_attackers s0 = m_attackers s -> (forall t, m_th s0 t = m_th s t) -> m_next s0 = m_next s -> m_na s0 = m_na s ->
     m_nc s0 = m_nc s -> m_nt s0 = m_nt s ->
     m_assocs s0 = m_assocs s -> (forall x, m_ah s0 x = m_ah s x) -> (forall c', c' <> c -> members s0 c' = members s c') ->
     exists s', remove_association s0 c = (s', MOk) /\ RFA_post s s' h c).
  { intros s0 I0 Hc0 B1 B2 B3 B4 B5 B6 B7 B8 B9 B10 B11 B12.
    pose proof (RFA_of_remove_association s0 c h I0 Hc0) as P.
    destruct (remove_association_spec s0 c I0 Hc0) as (s' & E & _). rewrite E in *. cbn [fst] in P.
    exists s'. split; auto.
    destruct P as (P0 & P1 & P2 & P3 & P4 & P5 & P6 & P7 & P8 & P9 & P10 & P11 & P12 & P13).
    split; auto. rewrite P1, P2, P3, P4, P6, P7, P8, P9.
    split; [auto|]. split; [auto|]. split; [auto|]. split; [auto|]. split; [intros t; rewrite P5; auto|].
    split; [auto|]. split; [auto|]. split; [auto|]. split; [auto|].
    split; [intros x; rewrite <- B11; apply P10|]. split; [exact P11|]. split.
    - intros c' N. destruct (P12 c' N) as [Q1 Q2]. rewrite <- B10. split; auto. rewrite Q2. auto.
    - intros c' H. rewrite <- B10. auto. }
  assert (MEQ : forall s1 s2, m_assets s2 = m_assets s1 -> m_assocs s2 = m_assocs s1 -> m_attackers s2 = m_attackers s1 ->
     m_ids s2 = m_ids s1 -> m_names s2 = m_names s1 -> m_next s2 = m_next s1 -> m_na s2 = m_na s1 -> m_nc s2 = m_nc s1 ->
     m_nt s2 = m_nt s1 -> (forall x, m_ah s2 x = m_ah s1 x) -> (forall x, m_ch s2 x = m_ch s1 x) ->
     (forall x, m_th s2 x = m_th s1 x) -> mequiv s1 s2).
  { intros; repeat split; auto. }
  destruct (memn h (mc_left co)) eqn:EL.
  - apply memn_In in EL. destruct (Nat.eqb_spec (List.length (mc_left co)) 1) as [L1|L1].
    + apply (RA s); auto.
    + set (ch1 := upd_c (m_ch s) c (fun x => c_set_left x (remove1 h (mc_left x)))).
      destruct (memn h (mc_right co)) eqn:ER.
      * apply memn_In in ER. destruct (Nat.eqb_spec (List.length (mc_right co)) 1) as [R1|R1].
        -- assert (I1 : MI (with_heaps s (m_ah s) ch1 (m_th s))).
           { apply (MI_equiv (set_fields s c (remove1 h (mc_left co)) (mc_right co))).
             - apply MEQ; auto. intros x. cbn. unfold ch1, upd_c. destruct (Nat.eqb_spec x c) as [->|N]; auto.
             - apply MI_same_members; auto; [apply remove1_NoDup; auto|].
               intros x. unfold members. fold co. rewrite !in_app_iff, remove1_NoDup_iff' by auto.
               split; [tauto|]. intros [A|A]; auto. destruct (Nat.eq_dec x h) as [->|N]; auto. }
           apply (RA _ I1); auto. intros c' N. unfold members; cbn. unfold ch1. rewrite upd_c_other by auto. reflexivity.
        -- eexists. split; [reflexivity|].
           apply (DROP (remove1 h (mc_left co)) (remove1 h (mc_right co))); try (apply remove1_NoDup; auto).
           ++ intros x. unfold members. fold co. rewrite !in_app_iff, !remove1_NoDup_iff' by auto. tauto.
           ++ apply MEQ; auto. intros x. cbn. unfold ch1, upd_c. destruct (Nat.eqb_spec x c) as [->|N]; auto.
      * apply memn_nIn in ER. eexists. split; [reflexivity|].
        apply (DROP (remove1 h (mc_left co)) (mc_right co)); auto; [apply remove1_NoDup; auto| |].
        -- intros x. unfold members. fold co. rewrite !in_app_iff, remove1_NoDup_iff' by auto.
           split; [intros [A|A]; [tauto|split; auto; intros ->; auto]|tauto].
        -- apply MEQ; auto. intros x. cbn. unfold ch1, upd_c. destruct (Nat.eqb_spec x c) as [->|N]; auto.
  - apply memn_nIn in EL.
    assert (ER : In h (mc_right co)).
    { unfold members in Hm. fold co in Hm. apply in_app_or in Hm. destruct Hm; [contradiction|auto]. }
    rewrite (proj2 (memn_In _ _) ER).
    destruct (Nat.eqb_spec (List.length (mc_right co)) 1) as [R1|R1].
    + apply (RA s); auto.
    + eexists. split; [reflexivity|].
      apply (DROP (mc_left co) (remove1 h (mc_right co))); auto; [apply remove1_NoDup; auto| |].
      * intros x. unfold members. fold co. rewrite !in_app_iff, remove1_NoDup_iff' by auto.
        split; [intros [A|A]; [split; auto; intros ->; auto|tauto]|tauto].
      * apply MEQ; auto. intros x. cbn. unfold upd_c. destruct (Nat.eqb_spec x c) as [->|N]; auto;
          try (fold co; destruct co; reflexivity).
Qed.

Lemma MI_rfa s h c : MI s -> MI (fst (remove_asset_from_association s h c)).
Proof.
  intros I. destruct (memn h (m_assets s)) eqn:Eh.
  2:{ unfold remove_asset_from_association. rewrite Eh. cbn. auto. }
  destruct (memn c (m_assocs s)) eqn:Ec.
  2:{ unfold remove_asset_from_association. rewrite Eh, Ec. cbn. auto. }
  apply memn_In in Eh. apply memn_In in Ec.
  destruct (in_dec Nat.eq_dec h (members s c)) as [Hm|Hm].
  - destruct (rfa_spec s h c I Eh Ec Hm) as (s' & E & P). rewrite E. apply P.
  - unfold remove_asset_from_association. rewrite (proj2 (memn_In _ _) Eh), (proj2 (memn_In _ _) Ec). cbn [negb].
    unfold members in Hm. rewrite in_app_iff in Hm.
    replace (memn h (mc_left (m_ch s c))) with false by (symmetry; apply memn_nIn; tauto).
    replace (memn h (mc_right (m_ch s c))) with false by (symmetry; apply memn_nIn; tauto). cbn. auto.
Qed.

(* ---- remove_asset ---- *)
Definition rfa_loop (h : nat) (l : list nat) (s : mstate) : mstate * mout :=
  fold_left (fun '(st, oc) c => match oc with MOk => remove_asset_from_association st h c | _ => (st, oc) end) l (s, MOk).

Lemma rfa_loop_spec h : forall l s, MI s -> In h (m_assets s) -> NoDup l ->
  (forall c, In c l -> In c (m_assocs s) /\ In h (members s c)) ->
  exists s', rfa_loop h l s = (s', MOk) /\ MI s' /\
    m_assets s' = m_assets s /\ m_ids s' = m_ids s /\ m_names s' = m_names s /\ m_attackers s' = m_attackers s /\
    (forall t, m_th s' t = m_th s t) /\ m_next s' = m_next s /\ m_na s' = m_na s /\ m_nc s' = m_nc s /\ m_nt s' = m_nt s /\
    (forall x, ma_id (m_ah s' x) = ma_id (m_ah s x) /\ ma_name (m_ah s' x) = ma_name (m_ah s x)) /\
    (forall c, In c l -> ~ (In c (m_assocs s') /\ In h (members s' c))) /\
    (forall c, ~ In c l -> (In c (m_assocs s') <-> In c (m_assocs s)) /\ members s' c = members s c) /\
    (forall c, In c (m_assocs s') -> In c (m_assocs s)).
Proof.
  unfold rfa_loop. induction l as [|c r IH]; intros s I Hh Nd Hl; cbn [fold_left].
  - exists s. split; auto. split; auto. do 4 (split; [reflexivity|]). split; [intros; reflexivity|]. do 4 (split; [reflexivity|]).
    split; [intros; auto|]. split; [intros c []|]. split; [intros; split; tauto|auto].
  - inversion Nd; subst. destruct (Hl c (or_introl eq_refl)) as [Hc Hm].
    destruct (rfa_spec s h c I Hh Hc Hm) as (s1 & E1 & P). rewrite E1.
    destruct P as (P0 & P1 & P2 & P3 & P4 & P5 & P6 & P7 & P8 & P9 & P10 & P11 & P12 & P13).
    assert (Hl1 : forall c', In c' r -> In c' (m_assocs s1) /\ In h (members s1 c')).
    { intros c' Hc'. assert (N : c' <> c) by (intros ->; auto). destruct (P12 c' N) as [Q1 Q2].
      destruct (Hl c' (or_intror Hc')) as [A B]. rewrite Q2. split; auto. apply Q1; auto. }
    assert (Hh1 : In h (m_assets s1)) by (rewrite P1; auto).
    destruct (IH s1 P0 Hh1 H2 Hl1) as (s' & E & I' & A1 & A2 & A3 & A4 & A5 & A6 & A7 & A8 & A9 & A10 & A11 & A12 & A13).
    exists s'. split; auto. split; auto. rewrite A1, A2, A3, A4, A6, A7, A8, A9.
    split; [auto|]. split; [auto|]. split; [auto|]. split; [auto|]. split; [intros t; rewrite A5; auto|].
    split; [auto|]. split; [auto|]. split; [auto|]. split; [auto|].
    split; [intros x; destruct (A10 x) as [-> ->]; apply P10|]. split; [|split].
    + intros c' [<-|Hc'].
      * destruct (in_dec Nat.eq_dec c r) as [Hin|Hnin]; [contradiction|].
        destruct (A12 c Hnin) as [Q1 Q2]. rewrite Q2. intros [H3 H4]. apply P11. split; auto; apply Q1; auto.
      * apply A11; auto.
    + intros c' Hn. assert (N : c' <> c) by (intros ->; apply Hn; left; auto).
      assert (Hnr : ~ In c' r) by (intros A; apply Hn; right; auto).
      destruct (A12 c' Hnr) as [Q1 Q2]. destruct (P12 c' N) as [R1 R2]. split; [tauto|congruence].
    + intros c' H. apply P13. apply A13. auto.
Qed.

Lemma drop_entry_spec h : forall l, NoDup (map fst l) ->
  NoDup (map fst (drop_entry h l)) /\ ~ In h (map fst (drop_entry h l)) /\
  (forall x, In x (map fst (drop_entry h l)) -> In x (map fst l)).
Proof.
  unfold drop_entry. induction l as [|[a st] r IH]; cbn; intros N; [split; [constructor|split; auto]|].
  inversion N; subst. destruct (Nat.eqb_spec a h) as [->|Na].
  - split; auto.
  - destruct (IH H2) as (I1 & I2 & I3). cbn. split; [constructor; auto; intros A; apply H1; auto|].
    split; [intros [E|A]; [congruence|auto]|]. intros x [<-|A]; auto.
Qed.

Lemma fold_upd_t_each (u : mattacker -> mattacker) : forall l th x,
  (forall a, u (u a) = u a) ->
  fold_left (fun th t => upd_t th t u) l th x = if memn x l then u (th x) else th x.
Proof.
  induction l as [|a r IH]; intros th x Hu; cbn [fold_left]; auto.
  rewrite IH by auto. cbn [memn existsb]. fold (memn x r).
  destruct (Nat.eqb_spec x a) as [->|Nx].
  - rewrite upd_t_same. destruct (memn a r); cbn; auto.
  - rewrite upd_t_other by auto. reflexivity.
Qed.

Lemma MI_remove_asset s h : MI s ->
  MI (fst (remove_asset s h)) /\
  (In h (m_assets s) ->
     let s' := fst (remove_asset s h) in
     snd (remove_asset s h) = MOk /\ ~ In h (m_assets s') /\
     (forall i, id_of s h = Some i -> ~ In i (m_ids s')) /\ (forall n, name_of s h = Some n -> ~ In n (m_names s')) /\
     (forall c, In c (m_assocs s') -> ~ In h (members s' c)) /\
     (forall t, In t (m_attackers s') -> ~ In h (map fst (mt_entry (m_th s' t))))).
Proof.
  intros I. unfold remove_asset. destruct (memn h (m_assets s)) eqn:Eh; cbn [negb].
  2:{ cbn. split; auto. intros A. apply memn_In in A. congruence. }
  apply memn_In in Eh.
  assert (Hl : forall c, In c (ma_assocs (m_ah s h)) -> In c (m_assocs s) /\ In h (members s c)) by (intros c Hc; apply (mi_backrefs s I h c Eh); auto).
  destruct (rfa_loop_spec h _ s I Eh (mi_backrefs_nodup s I h Eh) Hl)
    as (s1 & E & I1 & A1 & A2 & A3 & A4 & A5 & A6 & A7 & A8 & A9 & A10 & A11 & A12 & A13).
  unfold rfa_loop in E. rewrite E.
  (* no live association lists h any more *)
  assert (Hnone : forall c, In c (m_assocs s1) -> ~ In h (members s1 c)).
  { intros c Hc Hm. destruct (in_dec Nat.eq_dec c (ma_assocs (m_ah s h))) as [Hin|Hnin].
    - apply (A11 c Hin). auto.
    - destruct (A12 c Hnin) as [Q1 Q2]. apply Hnin. apply (mi_backrefs s I h c Eh). split; [apply Q1; auto|congruence]. }
  destruct (MI_has_id s I h Eh) as (i & n & Ei & Hi & En & Hn).
  assert (Ei1 : ma_id (m_ah s1 h) = Some i) by (destruct (A10 h) as [-> _]; exact Ei).
  assert (En1 : ma_name (m_ah s1 h) = Some n) by (destruct (A10 h) as [_ ->]; exact En).
  rewrite Ei1, En1.
  set (u := fun x : mattacker => t_set_entry x (drop_entry h (mt_entry x))).
  assert (TH : forall t, fold_left (fun th t => upd_t th t u) (m_attackers s1) (m_th s1) t =
                         iter_u u (cnt (m_attackers s1) t) (m_th s1 t)).
  { intros t. apply (fold_hupd u). }
  assert (IT : forall k a, NoDup (map fst (mt_entry a)) ->
             NoDup (map fst (mt_entry (iter_u u k a))) /\ (k >= 1 -> ~ In h (map fst (mt_entry (iter_u u k a)))) /\
             (forall x, In x (map fst (mt_entry (iter_u u k a))) -> In x (map fst (mt_entry a)))).
  { induction k as [|k IHk]; intros a Na; cbn [iter_u].
    - split; auto. split; [lia|auto].
    - destruct (drop_entry_spec h (mt_entry a) Na) as (D1 & D2 & D3).
      assert (Nu : NoDup (map fst (mt_entry (u a)))) by exact D1.
      destruct (IHk (u a) Nu) as (J1 & J2 & J3). split; [exact J1|]. split.
      + intros _ Hin. apply J3 in Hin. apply D2. exact Hin.
      + intros x Hx. apply J3 in Hx. apply D3. exact Hx. }
  assert (Hh1 : In h (m_assets s1)) by (rewrite A1; auto).
  assert (B0 : ma_assocs (m_ah s1 h) = []).
  { destruct (ma_assocs (m_ah s1 h)) as [|c r] eqn:Eb; auto. exfalso.
    assert (In c (ma_assocs (m_ah s1 h))) by (rewrite Eb; left; auto).
    apply (mi_backrefs s1 I1 h c Hh1) in H. destruct H as [Hc Hm]. apply (Hnone c Hc Hm). }
  cbn [fst snd].
  assert (NewMI : MI (mkM (m_ah s1) (m_ch s1) (fold_left (fun th t => upd_t th t u) (m_attackers s1) (m_th s1))
                           (m_na s1) (m_nc s1) (m_nt s1) (remove1 h (m_assets s1)) (m_assocs s1) (m_attackers s1)
                           (remove1z i (m_ids s1)) (remove1s n (m_names s1)) (m_type2assoc s1) (m_next s1))).
  { assert (Na : NoDup (m_assets s1)) by apply I1.
    constructor; cbn.
    - apply remove1_NoDup; auto.
    - intros x Hx. apply remove1_In in Hx. apply I1; auto.
    - apply (aligned_remove (id_of s1) Some remove1z (m_assets s1) (m_ids s1) h i); auto.
      + intros l Nl. cbn. rewrite Z.eqb_refl. auto.
      + intros y l Ny. cbn. destruct (Z.eqb_spec i y); [congruence|auto].
      + intros x y E0. inversion E0; auto.
      + apply I1.
      + apply I1.
    - apply (aligned_remove (name_of s1) Some remove1s (m_assets s1) (m_names s1) h n); auto.
      + intros l Nl. cbn. rewrite (proj2 (seqb_spec n n) eq_refl). auto.
      + intros y l Ny. cbn. destruct (seqb n y) eqn:E0; [apply seqb_spec in E0; congruence|auto].
      + intros x y E0. inversion E0; auto.
      + apply I1.
      + apply I1.
    - apply remove1z_NoDup. apply I1.
    - apply remove1s_NoDup. apply I1.
    - intros j Hj. apply remove1z_In in Hj. apply I1; auto.
    - apply I1.
    - apply I1.
    - intros c x Hc Hx. apply remove1_NoDup_iff'; auto. split; [eapply mi_members_live; eauto|]. intros ->. apply (Hnone c Hc Hx).
    - intros x c Hx. apply remove1_NoDup_iff' in Hx; auto. destruct Hx as [Hx _]. apply (mi_backrefs s1 I1 x c Hx).
    - intros x Hx. apply remove1_In in Hx. apply I1; auto.
    - apply I1.
    - intros t. rewrite TH. apply IT. apply I1.
    - intros t x Ht Hx. rewrite TH in Hx.
      destruct (IT (cnt (m_attackers s1) t) (m_th s1 t) (mi_entries s1 I1 t)) as (_ & D2 & D3).
      apply remove1_NoDup_iff'; auto. split; [eapply (mi_entries_live s1 I1 t); eauto|]. intros ->.
      apply D2; auto. apply In_cnt in Ht. lia. }
  split; [exact NewMI|]. intros _. cbv zeta. cbn.
  split; [reflexivity|]. split; [apply remove1_NoDup_nIn; apply I1|].
  split; [intros j Ej; assert (j = i) by (unfold id_of in *; congruence); subst j; apply remove1z_NoDup; apply I1|].
  split; [intros m En'; assert (m = n) by (unfold name_of in *; congruence); subst m; apply remove1s_NoDup; apply I1|].
  split; [exact Hnone|].
  intros t Ht. rewrite TH. apply (IT (cnt (m_attackers s1) t) (m_th s1 t) (mi_entries s1 I1 t)). apply In_cnt in Ht. lia.
Qed.

(* ---- add_association ---- *)
Lemma fold_cond_upd_a_each' (p : masset -> bool) (u : masset -> masset) : forall l, NoDup l -> forall ah x,
  fold_left (fun ah a => if p (ah a) then ah else upd_a ah a u) l ah x =
  if memn x l then (if p (ah x) then ah x else u (ah x)) else ah x.
Proof.
  induction l as [|a r IH]; intros N ah x; cbn [fold_left]; auto. inversion N; subst.
  rewrite IH by auto. cbn [memn existsb]. fold (memn x r).
  destruct (Nat.eqb_spec x a) as [->|Nx].
  - replace (memn a r) with false by (symmetry; apply memn_nIn; auto). cbn.
    destruct (p (ah a)) eqn:E; [|rewrite upd_a_same]; reflexivity.
  - destruct (p (ah a)); [|rewrite upd_a_other by auto]; reflexivity.
Qed.

Lemma field_names_unique_NoDup s : MI s -> forall l, (forall x, In x l -> In x (m_assets s)) ->
  field_names_unique s l = true -> NoDup l.
Proof.
  intros I. unfold field_names_unique.
  assert (G : forall l seen, (forall x, In x l -> In x (m_assets s)) ->
     (fix go (l : list nat) (seen : list string) : bool :=
        match l with
        | [] => true
        | a :: r => match ma_name (m_ah s a) with
                    | Some n => if mems n seen then false else go r (n :: seen)
                    | None => go r seen
                    end
        end) l seen = true ->
     NoDup l /\ forall x n, In x l -> name_of s x = Some n -> ~ In n seen).
  { induction l as [|a r IH]; intros seen Hl H; [split; [constructor|intros ? ? []]|].
    destruct (MI_has_id s I a (Hl a (or_introl eq_refl))) as (i & n & _ & _ & En & _). unfold name_of in En. rewrite En in H.
    destruct (mems n seen) eqn:Es; [discriminate|].
    destruct (IH (n :: seen) (fun x Hx => Hl x (or_intror Hx)) H) as [N1 N2]. split.
    - constructor; auto. intros Hin. apply (N2 a n Hin); [exact En | left; auto].
    - intros x m [<-|Hx] Em.
      + unfold name_of in Em. assert (m = n) by congruence. subst. intros A. apply mems_In in A. congruence.
      + intros A. apply (N2 x m Hx Em). right; auto. }
  intros l Hl H. apply (G l [] Hl H).
Qed.

Lemma MI_add_association s c : MI s -> c < m_nc s -> ~ In c (m_assocs s) ->
  (forall x, In x (members s c) -> In x (m_assets s)) -> MI (fst (add_association s c)).
Proof.
  intros I Lc Nc Hlive. unfold add_association.
  destruct (memn c _); cbn [fst]; auto.
  destruct (field_names_unique s (mc_left (m_ch s c)) && field_names_unique s (mc_right (m_ch s c))) eqn:Efn; cbn [negb fst]; auto.
  destruct (existsb _ (mc_left (m_ch s c))); cbn [fst]; auto.
  apply andb_true_iff in Efn. destruct Efn as [F1 F2].
  assert (NL : NoDup (mc_left (m_ch s c))).
  { apply (field_names_unique_NoDup s I); auto. intros x Hx. apply Hlive. unfold members. apply in_or_app. auto. }
  assert (NR : NoDup (mc_right (m_ch s c))).
  { apply (field_names_unique_NoDup s I); auto. intros x Hx. apply Hlive. unfold members. apply in_or_app. auto. }
  set (u := fun x : masset => a_set_assocs x (ma_assocs x ++ [c])).
  set (p := fun a : masset => memn c (ma_assocs a)).
  set (ah1 := fold_left (fun ah a => if memn c (ma_assocs (ah a)) then ah else upd_a ah a u) (mc_left (m_ch s c)) (m_ah s)).
  set (ah2 := fold_left (fun ah a => if memn c (ma_assocs (ah a)) then ah else upd_a ah a u) (mc_right (m_ch s c)) ah1).
  assert (NOC : forall x, In x (m_assets s) -> ~ In c (ma_assocs (m_ah s x))).
  { intros x Hx A. apply (mi_backrefs s I x c Hx) in A. tauto. }
  assert (A2 : forall x, In x (m_assets s) ->
     m_ah s x = m_ah s x /\
     ma_assocs (ah2 x) = (if memn x (members s c) then ma_assocs (m_ah s x) ++ [c] else ma_assocs (m_ah s x)) /\
     ma_id (ah2 x) = ma_id (m_ah s x) /\ ma_name (ah2 x) = ma_name (m_ah s x)).
  { intros x Hx. split; auto. unfold ah2, ah1.
    rewrite (fold_cond_upd_a_each' p u) by auto. rewrite (fold_cond_upd_a_each' p u) by auto.
    unfold members. rewrite memn_app.
    pose proof (NOC x Hx) as Nx. apply memn_nIn in Nx.
    assert (P0 : p (m_ah s x) = false) by exact Nx.
    assert (P1 : p (u (m_ah s x)) = true).
    { unfold p, u. cbn [ma_assocs a_set_assocs]. apply memn_In. apply In_app_single. auto. }
    destruct (memn x (mc_left (m_ch s c))) eqn:EL, (memn x (mc_right (m_ch s c))) eqn:ER; cbn [orb];
      repeat (rewrite ?P0, ?P1; cbv iota); unfold u; cbn [ma_assocs ma_id ma_name a_set_assocs]; auto. }
  constructor; cbn.
  - apply I.
  - apply I.
  - rewrite <- (mi_ids s I). apply map_ext_in. intros x Hx. unfold id_of; cbn. apply (A2 x Hx).
  - rewrite <- (mi_names s I). apply map_ext_in. intros x Hx. unfold name_of; cbn. apply (A2 x Hx).
  - apply I.
  - apply I.
  - apply I.
  - apply NoDup_app_single; auto. apply I.
  - intros c' Hc'. apply In_app_single in Hc'. destruct Hc' as [Hc'| ->]; auto. apply I; auto.
  - intros c' x Hc' Hx. apply In_app_single in Hc'.
    assert (MEM : members (mkM ah2 (upd_c (m_ch s) c (fun x => c_set_extras x (JDict []))) (m_th s) (m_na s) (m_nc s) (m_nt s)
                      (m_assets s) (m_assocs s ++ [c]) (m_attackers s) (m_ids s) (m_names s)
                      (t2a_add (m_type2assoc s) (mc_class (m_ch s c)) c) (m_next s)) c' = members s c').
    { unfold members; cbn. unfold upd_c. destruct (Nat.eqb c' c) eqn:E; auto. }
    unfold members in MEM. cbn in MEM. unfold members in Hx. cbn in Hx. rewrite MEM in Hx.
    destruct Hc' as [Hc'| ->]; [eapply (mi_members_live s I c'); eauto | apply Hlive; auto].
  - intros x c' Hx. destruct (A2 x Hx) as (_ & -> & _).
    assert (MEM : forall c0, mc_left (upd_c (m_ch s) c (fun x => c_set_extras x (JDict [])) c0) ++
                             mc_right (upd_c (m_ch s) c (fun x => c_set_extras x (JDict [])) c0) = members s c0).
    { intros c0. unfold members, upd_c. destruct (Nat.eqb c0 c) eqn:E; auto; apply Nat.eqb_eq in E; subst; reflexivity. }
    unfold members; cbn. rewrite MEM. rewrite In_app_single.
    pose proof (mi_backrefs s I x c' Hx) as B. fold (members s c).
    destruct (memn x (members s c)) eqn:Em.
    + apply memn_In in Em. rewrite In_app_single. split.
      * intros [A| ->]; [apply B in A; tauto | auto].
      * intros [[A| ->] Hm]; [left; apply B; auto | right; auto].
    + apply memn_nIn in Em. split.
      * intros A. apply B in A. tauto.
      * intros [[A| ->] Hm]; [apply B; auto | contradiction].
  - intros x Hx. destruct (A2 x Hx) as (_ & -> & _). fold (members s c). destruct (memn x (members s c)).
    + apply NoDup_app_single; [apply I; auto | apply NOC; auto].
    + apply I; auto.
  - intros c' Hc'. apply In_app_single in Hc'. unfold upd_c. destruct (Nat.eqb_spec c' c) as [->|N]; cbn; auto.
    destruct Hc' as [Hc'|E]; [apply I; auto | congruence].
  - apply I.
  - apply I.
Qed.

(* ---- attackers ---- *)
Lemma entry_add_spec : forall l h st, NoDup (map fst l) ->
  NoDup (map fst (entry_add l h st)) /\ (forall x, In x (map fst (entry_add l h st)) <-> In x (map fst l) \/ x = h).
Proof.
  induction l as [|[a ss] r IH]; intros h st N; cbn.
  - split; [constructor; [intros []|constructor] | intros x; intuition].
  - inversion N; subst. destruct (Nat.eqb_spec a h) as [->|Na]; cbn.
    + split; [constructor; auto | intros x; intuition].
    + destruct (IH h st H2) as [I1 I2]. split.
      * constructor; auto. rewrite I2. intros [A|A]; auto.
      * intros x. rewrite I2. intuition.
Qed.
Lemma entry_remove_spec : forall l h st, NoDup (map fst l) ->
  NoDup (map fst (entry_remove l h st)) /\ (forall x, In x (map fst (entry_remove l h st)) -> In x (map fst l)).
Proof.
  induction l as [|[a ss] r IH]; intros h st N; cbn; [split; [constructor|auto]|].
  inversion N; subst. destruct (Nat.eqb_spec a h) as [->|Na].
  - destruct (if mems st ss then remove1s st ss else ss); cbn; [split; auto | split; [constructor; auto | tauto]].
  - destruct (IH h st H2) as [I1 I2]. cbn. split; [constructor; auto; intros A; apply H1; auto | intros x [<-|A]; auto].
Qed.

Lemma remove_first_equal_sub th t : forall l l', remove_first_equal th t l = Some l' ->
  (forall x, In x l' -> In x l) /\ (NoDup l -> NoDup l').
Proof.
  induction l as [|x r IH]; intros l' H; cbn in H; [discriminate|].
  destruct (Nat.eqb x t || matt_eqb (th x) (th t)).
  - inversion H; subst. split; [intros; right; auto | intros N; inversion N; auto].
  - destruct (remove_first_equal th t r) as [r'|] eqn:E; [|discriminate]. inversion H; subst.
    destruct (IH r' eq_refl) as [I1 I2]. split.
    + intros y [<-|Hy]; [left; auto | right; auto].
    + intros N. inversion N; subst. constructor; auto.
Qed.

Lemma MI_attackers_change s l' th' next' nt' :
  MI s -> (m_next s <= next')%Z ->
  (forall t, NoDup (map fst (mt_entry (th' t)))) ->
  (forall t h, In t l' -> In h (map fst (mt_entry (th' t))) -> In h (m_assets s)) ->
  MI (mkM (m_ah s) (m_ch s) th' (m_na s) (m_nc s) nt' (m_assets s) (m_assocs s) l'
          (m_ids s) (m_names s) (m_type2assoc s) next').
Proof.
  intros I Hn T1 T2. constructor; cbn.
  - apply (mi_nodup_assets s I).
  - apply (mi_alloc_a s I).
  - apply (mi_ids s I).
  - apply (mi_names s I).
  - apply (mi_nodup_ids s I).
  - apply (mi_nodup_names s I).
  - intros i Hi. pose proof (mi_next s I i Hi). lia.
  - apply (mi_nodup_assocs s I).
  - apply (mi_alloc_c s I).
  - apply (mi_members_live s I).
  - apply (mi_backrefs s I).
  - apply (mi_backrefs_nodup s I).
  - apply (mi_fields_nodup s I).
  - exact T1.
  - exact T2.
Qed.

(* ---- every step preserves MI ---- *)
Theorem mstep_MI s o : MI s -> MI (fst (fst (mstep s o))).
Proof.
  intros I. unfold mstep. destruct (mguard s o) eqn:G; cbn [negb]; [|auto].
  destruct o; cbn [mguard] in G.
  - (* MNewAsset *) cbn. apply (MI_frame s); cbn; auto; try apply I.
    intros h Hh. pose proof (mi_alloc_a s I h Hh). rewrite upd_a_other by lia. auto.
  - (* MAddAsset *)
    apply andb_true_iff in G. destruct G as [G1 G2]. apply Nat.ltb_lt in G1. apply negb_true_iff in G2.
    assert (N : ~ In h (m_assets s)) by (intros A; apply memn_In in A; unfold live_asset in G2; congruence).
    pose proof (MI_add_asset s h i allow_dup I G1 N) as P. destruct (add_asset s h i allow_dup). exact P.
  - (* MRemoveAsset *)
    pose proof (proj1 (MI_remove_asset s h I)) as P. destruct (remove_asset s h). exact P.
  - (* MNewAssoc *) cbn. apply (MI_frame s); cbn; auto; try apply I.
    intros c Hc. pose proof (mi_alloc_c s I c Hc). rewrite upd_c_other by lia. auto.
  - (* MAddAssoc *)
    apply andb_true_iff in G. destruct G as [G G4]. apply andb_true_iff in G. destruct G as [G G3].
    apply andb_true_iff in G. destruct G as [G1 G2]. apply Nat.ltb_lt in G1. apply negb_true_iff in G2.
    assert (N : ~ In c (m_assocs s)) by (intros A; apply memn_In in A; unfold live_assoc in G2; congruence).
    assert (Hl : forall x, In x (members s c) -> In x (m_assets s)).
    { intros x Hx. unfold members in Hx. apply in_app_or in Hx. rewrite forallb_forall in G3, G4.
      destruct Hx as [Hx|Hx]; apply memn_In; [apply G3 | apply G4]; auto. }
    pose proof (MI_add_association s c I G1 N Hl) as P. destruct (add_association s c). exact P.
  - (* MRemoveAssoc *)
    unfold remove_association. destruct (memn c (m_assocs s)) eqn:E; cbn [negb]; [|cbn; auto].
    apply memn_In in E. pose proof (MI_remove_association s c I E) as P. unfold remove_association in P.
    rewrite (proj2 (memn_In _ _) E) in P. exact P.
  - (* MRemoveFromAssoc *)
    pose proof (MI_rfa s h c I) as P. destruct (remove_asset_from_association s h c). exact P.
  - (* MSetAssocExtras *)
    cbn. apply (MI_frame s); cbn; auto; try apply I.
    intros c' Hc'. unfold upd_c. destruct (Nat.eqb c' c); cbn; auto.
  - (* MNewAtt *) cbn.
    apply (MI_attackers_change s (m_attackers s) (upd_t (m_th s) (m_nt s) (fun _ => mkMAtt None name [])) (m_next s) (S (m_nt s)) I); [lia| |].
    + intros t. unfold upd_t. destruct (Nat.eqb t (m_nt s)); cbn; [constructor|apply I].
    + intros t h Ht Hh. unfold upd_t in Hh. destruct (Nat.eqb t (m_nt s)); cbn in Hh; [destruct Hh|].
      eapply (mi_entries_live s I); eauto.
  - (* MAddAtt *)
    apply andb_true_iff in G. destruct G as [G G3]. cbn. unfold add_attacker.
    apply (MI_attackers_change s); auto; [lia| |].
    + intros t0. unfold upd_t. destruct (Nat.eqb t0 t); cbn; apply I.
    + intros t0 h Ht0 Hh. apply In_app_single in Ht0. unfold upd_t in Hh.
      destruct (Nat.eqb_spec t0 t) as [->|N]; cbn in Hh.
      * rewrite forallb_forall in G3. apply in_map_iff in Hh. destruct Hh as (e & <- & He). apply memn_In. apply G3; auto.
      * destruct Ht0 as [Ht0|E]; [eapply (mi_entries_live s I); eauto | congruence].
  - (* MRemoveAtt *)
    unfold remove_attacker. destruct (remove_first_equal (m_th s) t (m_attackers s)) as [l|] eqn:E; cbn; auto.
    destruct (remove_first_equal_sub _ _ _ _ E) as [S1 _].
    apply (MI_attackers_change s); auto; [lia|apply I|]. intros t0 h Ht0 Hh. eapply (mi_entries_live s I); eauto.
  - (* MAddEntry *)
    apply andb_true_iff in G. destruct G as [G1 G2]. apply memn_In in G2. cbn. unfold add_entry_point, with_heaps.
    apply (MI_attackers_change s); auto; [lia| |].
    + intros t0. unfold upd_t. destruct (Nat.eqb t0 t); cbn; [apply entry_add_spec|]; apply I.
    + intros t0 x Ht0 Hx. unfold upd_t in Hx. destruct (Nat.eqb t0 t) eqn:E; cbn in Hx.
      * apply (entry_add_spec _ h step (mi_entries s I t0)) in Hx. destruct Hx as [Hx| ->]; auto. eapply (mi_entries_live s I); eauto.
      * eapply (mi_entries_live s I); eauto.
  - (* MRemoveEntry *)
    cbn. unfold remove_entry_point, with_heaps. apply (MI_attackers_change s); auto; [lia| |].
    + intros t0. unfold upd_t. destruct (Nat.eqb t0 t); cbn; [apply entry_remove_spec|]; apply I.
    + intros t0 x Ht0 Hx. unfold upd_t in Hx. destruct (Nat.eqb t0 t) eqn:E; cbn in Hx.
      * apply (entry_remove_spec _ h step (mi_entries s I t0)) in Hx. eapply (mi_entries_live s I); eauto.
      * eapply (mi_entries_live s I); eauto.
  - cbn; auto.
  - cbn; auto.
  - cbn; auto.
Qed.

Definition msteps (s : mstate) (ops : list mop) : mstate := fold_left (fun s o => fst (fst (mstep s o))) ops s.
Lemma mrun_msteps ops : forall s outs,
  fst (fold_left (fun '(s, outs) o => let '(s', oc, r) := mstep s o in (s', outs ++ [(oc, r)])) ops (s, outs)) = msteps s ops.
Proof.
  induction ops as [|o r IH]; intros s outs; cbn [fold_left]; auto.
  destruct (mstep s o) as [[s' oc] rt] eqn:E. rewrite IH. unfold msteps. cbn [fold_left]. rewrite E. reflexivity.
Qed.
Theorem reachable_MI ops : MI (mfinal ops).
Proof.
  unfold mfinal, mrun. rewrite mrun_msteps. generalize minit MI_init.
  induction ops as [|o r IH]; intros s I; cbn [msteps fold_left]; auto. apply IH. apply mstep_MI; auto.
Qed.
