(* MalRepeat.v — repeated includes (C04), for any tree of included files: including a file a second time changes nothing
   as long as no define between the two includes assigns a key the file assigns (the second include re-assigns the
   file's defines: with such a define in between the two layouts DO differ — repeat_needs_disjoint). *)
From MT Require Import Prelude ListFacts Codec Lang EvalThm Mal MalPrint MalThm MalInclude.

(* ---------- ordered dictionaries: equal key lists and equal lookups ---------- *)
Lemma dict_ext : forall (d1 d2 : list (string * string)), NoDup (map fst d1) -> map fst d1 = map fst d2 ->
  (forall k, dget seqb d1 k = dget seqb d2 k) -> d1 = d2.
Proof.
  induction d1 as [|[k1 v1] r1 IH]; intros [|[k2 v2] r2] N K G; cbn [map fst] in *; try discriminate; [reflexivity|].
  inversion K as [[Ek Er]]. subst k2. inversion N as [|? ? N1 N2]; subst.
  pose proof (G k1) as G1. cbn [dget] in G1. rewrite (keqb_refl seqb seqb_spec) in G1. inversion G1; subst v2.
  f_equal. apply IH; auto. intros k. destruct (seqb k k1) eqn:E.
  - apply seqb_spec in E. subst k.
    rewrite (proj2 (dget_None_notin seqb seqb_spec r1 k1) N1).
    symmetry. apply (dget_None_notin seqb seqb_spec). unfold dkeys. rewrite <- Er. exact N1.
  - specialize (G k). cbn [dget] in G. rewrite E in G. exact G.
Qed.
Lemma dset_held_keys : forall (d : list (string * string)) k v, In k (map fst d) -> map fst (dset seqb d k v) = map fst d.
Proof.
  induction d as [|[k0 v0] r IH]; intros k v H; cbn [map fst In] in H; [destruct H|]. cbn [dset].
  destruct (seqb k k0) eqn:E; cbn [map fst]; [reflexivity|]. f_equal. apply IH. destruct H as [H|H]; auto.
  subst. rewrite (keqb_refl seqb seqb_spec) in E. discriminate.
Qed.
Lemma dict_update_cons d k v u : dict_update d ((k, v) :: u) = dict_update (dset seqb d k v) u.
Proof. reflexivity. Qed.
Lemma dict_update_app d u w : dict_update d (u ++ w) = dict_update (dict_update d u) w.
Proof. unfold dict_update. apply fold_left_app. Qed.
Lemma dict_update_held_keys : forall u d, (forall k, In k (map fst u) -> In k (map fst d)) -> map fst (dict_update d u) = map fst d.
Proof.
  induction u as [|[k v] u IH]; intros d H; [reflexivity|]. rewrite dict_update_cons.
  rewrite IH.
  - apply dset_held_keys. apply H. left; reflexivity.
  - intros x Hx. rewrite dset_held_keys by (apply H; left; reflexivity). apply H. right; exact Hx.
Qed.
Lemma dict_update_NoDup : forall u d, NoDup (map fst d) -> NoDup (map fst (dict_update d u)).
Proof.
  induction u as [|[k v] u IH]; intros d N; [exact N|]. rewrite dict_update_cons. apply IH.
  apply (dkeys_dset_NoDup seqb seqb_spec). exact N.
Qed.
Lemma dict_update_keys_In : forall u d x, In x (map fst d) \/ In x (map fst u) -> In x (map fst (dict_update d u)).
Proof.
  induction u as [|[k v] u IH]; intros d x H; [destruct H as [H|[]]; exact H|]. rewrite dict_update_cons. apply IH.
  cbn [map fst In] in H. destruct H as [H|[H|H]]; auto.
  - left. apply dset_keys_In. exact H.
  - left. subst. apply dset_key_In.
Qed.
(* the last value a list of assignments gives a key *)
Fixpoint lastv (u : list (string * string)) (k : string) : option string :=
  match u with
  | [] => None
  | (k1, v1) :: r => match lastv r k with Some v => Some v | None => if seqb k k1 then Some v1 else None end
  end.
Lemma dget_dict_update : forall u d k,
  dget seqb (dict_update d u) k = match lastv u k with Some v => Some v | None => dget seqb d k end.
Proof.
  induction u as [|[k1 v1] u IH]; intros d k; [reflexivity|]. rewrite dict_update_cons, IH. cbn [lastv].
  destruct (lastv u k) as [v|]; [reflexivity|]. destruct (seqb k k1) eqn:E.
  - apply seqb_spec in E. subst. apply (dget_dset_same seqb seqb_spec).
  - apply (dget_dset_other seqb seqb_spec). intros ->. rewrite (keqb_refl seqb seqb_spec) in E. discriminate.
Qed.
Lemma lastv_None : forall u k, ~ In k (map fst u) -> lastv u k = None.
Proof.
  induction u as [|[k1 v1] u IH]; intros k N; [reflexivity|]. cbn [map fst In] in N. cbn [lastv].
  rewrite IH by tauto. rewrite (keqb_neq seqb seqb_spec); [reflexivity|]. intros ->. tauto.
Qed.
Lemma lastv_Some_In : forall u k v, lastv u k = Some v -> In k (map fst u).
Proof.
  induction u as [|[k1 v1] u IH]; intros k v H; [discriminate|]. cbn [lastv] in H. cbn [map fst In].
  destruct (lastv u k) as [w|] eqn:E; [right; eapply IH; eauto|]. destruct (seqb k k1) eqn:E1; [|discriminate].
  left. symmetry. apply seqb_spec. exact E1.
Qed.
(* re-running a list of assignments after assignments to other keys gives the same dictionary *)
Theorem dict_update_again d F Q : NoDup (map fst d) ->
  (forall k, In k (map fst F) -> ~ In k (map fst Q)) ->
  dict_update (dict_update (dict_update d F) Q) F = dict_update (dict_update d F) Q.
Proof.
  intros N D. set (d2 := dict_update (dict_update d F) Q).
  assert (H2 : forall k, In k (map fst F) -> In k (map fst d2)).
  { intros k Hk. unfold d2. apply dict_update_keys_In. left. apply dict_update_keys_In. right. exact Hk. }
  apply dict_ext.
  - apply dict_update_NoDup. unfold d2. apply dict_update_NoDup. apply dict_update_NoDup. exact N.
  - apply dict_update_held_keys. exact H2.
  - intros k. rewrite dget_dict_update. destruct (lastv F k) as [v|] eqn:E; [|reflexivity].
    unfold d2. rewrite dget_dict_update. rewrite (lastv_None Q k) by (apply D; eapply lastv_Some_In; eauto).
    rewrite dget_dict_update, E. reflexivity.
Qed.

(* ---------- what a declaration list contributes ---------- *)
Definition defs_of (m : cmal) : list (string * string) := flat_map (fun d => match d with DDefine k v => [(k, v)] | _ => [] end) m.
Definition cats_of (m : cmal) : list fcategory_ :=
  flat_map (fun d => match d with DCategory c => [mkFCat (cc_name c) (v_metas (cc_meta c))] | _ => [] end) m.
Definition assets_of (m : cmal) : list fasset_ :=
  flat_map (fun d => match d with DCategory c => map (v_asset (cc_name c)) (cc_assets c) | _ => [] end) m.
Definition assocs_of (m : cmal) : list fassoc_ :=
  flat_map (fun d => match d with DAssociations l => map v_assoc l | _ => [] end) m.
Lemma defs_keys m : map fst (defs_of m) = define_keys m.
Proof.
  unfold defs_of, define_keys. induction m as [|d m IH]; [reflexivity|]. cbn [flat_map]. rewrite map_app, IH.
  destruct d; reflexivity.
Qed.
Lemma raw_of_parts : forall m s,
  raw_of m s = mkFSpec (dict_update (sp_defines s) (defs_of m)) (sp_categories s ++ cats_of m) (sp_assets s ++ assets_of m)
                       (sp_assocs s ++ assocs_of m).
Proof.
  induction m as [|d m IH]; intros s; cbn [raw_of fold_left].
  - destruct s. cbn. rewrite !app_nil_r. reflexivity.
  - change (fold_left raw_step m (raw_step s d)) with (raw_of m (raw_step s d)). rewrite IH.
    destruct d as [file|k v|c|l]; cbn [raw_step sp_defines sp_categories sp_assets sp_assocs defs_of cats_of assets_of assocs_of flat_map app];
      rewrite <- ?app_assoc; reflexivity.
Qed.
Lemma defs_of_app a b : defs_of (a ++ b) = defs_of a ++ defs_of b. Proof. apply flat_map_app. Qed.
Lemma cats_of_app a b : cats_of (a ++ b) = cats_of a ++ cats_of b. Proof. apply flat_map_app. Qed.
Lemma assets_of_app a b : assets_of (a ++ b) = assets_of a ++ assets_of b. Proof. apply flat_map_app. Qed.
Lemma assocs_of_app a b : assocs_of (a ++ b) = assocs_of a ++ assocs_of b. Proof. apply flat_map_app. Qed.

Lemma deq_repeat {A} (eqb : A -> A -> bool) : (forall x y, eqb x y = true <-> x = y) ->
  forall U B, (forall x, In x B -> In x U) -> deq eqb (U ++ B) U.
Proof.
  intros Hspec U B HB Y. unfold dedupe.
  change (fold_left (dstep eqb) ((U ++ B) ++ Y) [] = fold_left (dstep eqb) (U ++ Y) []).
  rewrite !fold_left_app. f_equal. apply dedupe_absorb. intros x Hx. apply (mem_In eqb Hspec). apply (fold_dstep_In eqb Hspec). right. auto.
Qed.

(* the declarations of F a second time, after declarations Q that assign none of F's define keys *)
Theorem raw_repeat A F Q s : NoDup (map fst (sp_defines s)) ->
  (forall k, In k (define_keys F) -> ~ In k (define_keys Q)) ->
  rel (raw_of (A ++ F ++ Q ++ F) s) (raw_of (A ++ F ++ Q) s).
Proof.
  intros N D. rewrite !raw_of_parts. unfold rel. cbn [sp_defines sp_categories sp_assets sp_assocs].
  rewrite !defs_of_app, !cats_of_app, !assets_of_app, !assocs_of_app.
  split; [|repeat split].
  - rewrite !dict_update_app. apply dict_update_again.
    + apply dict_update_NoDup. exact N.
    + intros k. rewrite !defs_keys. apply D.
  - rewrite !app_assoc. apply (deq_repeat fcat_eqb fcat_eqb_spec). intros x Hx. rewrite <- !app_assoc.
    apply in_or_app. right. apply in_or_app. right. apply in_or_app. left. exact Hx.
  - rewrite !app_assoc. apply (deq_repeat fasset_eqb fasset_eqb_spec). intros x Hx. rewrite <- !app_assoc.
    apply in_or_app. right. apply in_or_app. right. apply in_or_app. left. exact Hx.
  - rewrite !app_assoc. apply (deq_repeat fassoc_eqb fassoc_eqb_spec). intros x Hx. rewrite <- !app_assoc.
    apply in_or_app. right. apply in_or_app. right. apply in_or_app. left. exact Hx.
Qed.

(* ---------- lifted to layouts: any tree of files below the repeated include ---------- *)
Section Repeat.
Variable files : string -> option cmal.
Lemma flat_list_app fl : forall m1 m2,
  flat_list files fl (m1 ++ m2) = match flat_list files fl m1, flat_list files fl m2 with Some a, Some b => Some (a ++ b) | _, _ => None end.
Proof.
  induction m1 as [|d m1 IH]; intros m2; cbn [app flat_list].
  - destruct (flat_list files fl m2); reflexivity.
  - destruct d as [g|k v|c|l]; cbn [flat_list]; rewrite ?IH.
    + destruct (files g) as [mg|]; [|reflexivity]. destruct (fl mg) as [a|]; [|reflexivity].
      destruct (flat_list files fl m1) as [b|]; [|reflexivity]. destruct (flat_list files fl m2) as [c2|]; [|reflexivity].
      rewrite app_assoc. reflexivity.
    + destruct (flat_list files fl m1) as [b|]; [|reflexivity]. destruct (flat_list files fl m2) as [c2|]; reflexivity.
    + destruct (flat_list files fl m1) as [b|]; [|reflexivity]. destruct (flat_list files fl m2) as [c2|]; reflexivity.
    + destruct (flat_list files fl m1) as [b|]; [|reflexivity]. destruct (flat_list files fl m2) as [c2|]; reflexivity.
Qed.

Theorem include_twice_any f P g Q R mg fP fG fQ fR :
  files g = Some mg -> flat files f mg = Some fG ->
  flat_list files (flat files f) P = Some fP -> flat_list files (flat files f) Q = Some fQ -> flat_list files (flat files f) R = Some fR ->
  (forall k, In k (define_keys fG) -> ~ In k (define_keys fQ)) ->
  v_mal files (S f) (P ++ DInclude g :: Q ++ DInclude g :: R) = v_mal files (S f) (P ++ DInclude g :: Q ++ R).
Proof.
  intros Hg HG HP HQ HR D.
  assert (F2 : flat files (S f) (P ++ DInclude g :: Q ++ DInclude g :: R) = Some (fP ++ fG ++ fQ ++ fG ++ fR)).
  { cbn [flat]. rewrite flat_list_app, HP. cbn [flat_list]. rewrite Hg, HG. rewrite flat_list_app, HQ. cbn [flat_list]. rewrite Hg, HG, HR.
    reflexivity. }
  assert (F1 : flat files (S f) (P ++ DInclude g :: Q ++ R) = Some (fP ++ fG ++ fQ ++ fR)).
  { cbn [flat]. rewrite flat_list_app, HP. cbn [flat_list]. rewrite Hg, HG. rewrite flat_list_app, HQ, HR. reflexivity. }
  rewrite (flat_compile files _ _ _ F2), (flat_compile files _ _ _ F1). f_equal.
  replace (fP ++ fG ++ fQ ++ fG ++ fR) with ((fP ++ fG ++ fQ ++ fG) ++ fR) by (rewrite <- !app_assoc; reflexivity).
  replace (fP ++ fG ++ fQ ++ fR) with ((fP ++ fG ++ fQ) ++ fR) by (rewrite <- !app_assoc; reflexivity).
  rewrite !(raw_of_app _ fR).
  assert (RR : rel (raw_of fR (raw_of (fP ++ fG ++ fQ ++ fG) spec_empty)) (raw_of fR (raw_of (fP ++ fG ++ fQ) spec_empty))).
  { apply raw_of_rel. apply raw_repeat; [cbn; constructor|exact D]. }
  pose proof (rel_final (Some _) (Some _) RR) as E. cbn [option_map] in E. congruence.
Qed.
End Repeat.

(* the premise on the keys is needed: a define between the two includes that assigns a key of the file *)
Definition rn_files (g : string) : option cmal := if seqb g "f" then Some [DDefine "id" "one"] else None.
Example repeat_needs_disjoint :
  v_mal rn_files 3 [DInclude "f"; DDefine "id" "two"; DInclude "f"] <> v_mal rn_files 3 [DInclude "f"; DDefine "id" "two"].
Proof. vm_compute. discriminate. Qed.
