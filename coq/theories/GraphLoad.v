(* GraphLoad.v — the second half of AttackGraph._from_dict: the rebuild of a graph from what was read, as a history of
   the attack-graph machine of C09 (GraphOps.run): every node is created and added under its stored id, every child
   link of the document is re-established, every attacker is added under its stored id with its reached steps and
   entry points; and the first half of AttackGraph._to_dict: the content a graph state denotes.
   The document lists the parents of a node too; the loader appends them in the order of the file. The model derives
   them from the child links (the two are converse in every document written by the toolbox), so the ORDER of a
   parent list is not modelled: contents are compared up to the order of parents and of compromising attackers. (C10) *)
From MT Require Import Prelude ListFacts Graph Apriori GraphAn GraphOps Codec ModelIO GraphIO.

(* ---- the content of a state (what _to_dict reads) ---- *)
Definition nidz (s : st) (o : nat) : Z := match n_id (s_nh s o) with Some i => i | None => 0%Z end.
Fixpoint dedup_z (l : list Z) (seen : list Z) : list Z :=
  match l with
  | [] => []
  | x :: r => if existsb (Z.eqb x) seen then dedup_z r seen else x :: dedup_z r (x :: seen)
  end.
Definition jextras (v : jv) : list (string * jv) := match v with JDict d => d | _ => [] end.
Definition gnode_of (s : st) (o : nat) : gnode :=
  let n := s_nh s o in
  mkGN (nidz s o) (n_type n) (n_name n) (n_asset n) (n_ttc n)
       (dedup_z (map (nidz s) (n_children n)) []) (dedup_z (map (nidz s) (n_parents n)) [])
       (map (fun a => a_name (s_ah s a)) (n_comp n))
       (n_def n) (n_exist n) (n_viable n) (n_necessary n) (n_mitre n) (n_tags n) (jextras (n_extras n)).
Definition gatt_of (s : st) (a : nat) : gattacker :=
  let x := s_ah s a in
  mkGA (match a_id x with Some i => i | None => 0%Z end) (a_name x)
       (dedup_z (map (nidz s) (a_entry x)) []) (dedup_z (map (nidz s) (a_reached x)) []).
Definition gcontent_of (s : st) : gcontent :=
  mkGC (map (gnode_of s) (g_nodes (s_g s))) (map (gatt_of s) (g_atts (s_g s))).

(* ---- the rebuild, as a history ---- *)
Section GLoad.
Variable with_model : bool.            (* the model is supplied: nodes are bound to the asset of the stored name *)

Definition node_of (n : gnode) : node :=
  mkNode (gn_type n) (gn_name n) None (if with_model then gn_asset n else None) [] [] [] (gn_def n) (gn_exist n)
         (gn_viable n) (gn_necessary n) (gn_mitre n) (gn_ttc n) (gn_tags n) (JDict (gn_extras n)).
Fixpoint pos_of (i : Z) (l : list gnode) : option nat :=
  match l with
  | [] => None
  | n :: r => if Z.eqb (gn_id n) i then Some 0 else option_map S (pos_of i r)
  end.
Fixpoint node_ops (k : nat) (l : list gnode) : list op :=
  match l with
  | [] => []
  | n :: r => ONew (node_of n) :: OAddNode k (Some (gn_id n)) :: node_ops (S k) r
  end.
Definition link_ops_of (all : list gnode) (k : nat) (n : gnode) : option (list op) :=
  option_map (map (fun c => OLink k c)) (omap (fun i => pos_of i all) (gn_children n)).
Fixpoint link_ops (all : list gnode) (k : nat) (l : list gnode) : option (list op) :=
  match l with
  | [] => Some []
  | n :: r => match link_ops_of all k n, link_ops all (S k) r with
              | Some a, Some b => Some (a ++ b)
              | _, _ => None
              end
  end.
Fixpoint att_ops (k : nat) (l : list gattacker) : list op :=
  match l with
  | [] => []
  | a :: r => ONewAtt (ga_name a) :: OAddAtt k (Some (ga_id a)) (ga_reached a) (ga_entry a) :: att_ops (S k) r
  end.
Definition gload_ops (c : gcontent) : option (list op) :=
  match link_ops (gc_nodes c) 0 (gc_nodes c) with
  | Some ls => Some (node_ops 0 (gc_nodes c) ++ ls ++ att_ops 0 (gc_atts c))
  | None => None
  end.
(* the loader stops at the first call that raises *)
Definition all_ok (outs : list (outcome * ret)) : bool := forallb (fun p => outcome_eqb (fst p) Ok) outs.
Definition gload (c : gcontent) : option st :=
  match gload_ops c with
  | Some ops => let '(s, outs) := run ops in if all_ok outs then Some s else None
  | None => None
  end.
End GLoad.

(* ---- contents up to the order of parents and of compromising attackers ---- *)
Definition canon_node (n : gnode) : gnode :=
  mkGN (gn_id n) (gn_type n) (gn_name n) (gn_asset n) (gn_ttc n) (gn_children n) (isort Z.leb (gn_parents n))
       (isort String.leb (gn_comp n)) (gn_def n) (gn_exist n) (gn_viable n) (gn_necessary n) (gn_mitre n) (gn_tags n) (gn_extras n).
Definition canon (c : gcontent) : gcontent := mkGC (map canon_node (gc_nodes c)) (gc_atts c).
Definition strip_assets (c : gcontent) : gcontent :=
  mkGC (map (fun n => mkGN (gn_id n) (gn_type n) (gn_name n) None (gn_ttc n) (gn_children n) (gn_parents n) (gn_comp n)
                           (gn_def n) (gn_exist n) (gn_viable n) (gn_necessary n) (gn_mitre n) (gn_tags n) (gn_extras n)) (gc_nodes c))
       (gc_atts c).

Definition gnode_eqb (a b : gnode) : bool :=
  Z.eqb (gn_id a) (gn_id b) && seqb (gn_type a) (gn_type b) && seqb (gn_name a) (gn_name b) &&
  opt_eqb seqb (gn_asset a) (gn_asset b) && jv_eqb (gn_ttc a) (gn_ttc b) &&
  list_eqb Z.eqb (gn_children a) (gn_children b) && list_eqb Z.eqb (gn_parents a) (gn_parents b) &&
  list_eqb seqb (gn_comp a) (gn_comp b) && opt_eqb Z.eqb (gn_def a) (gn_def b) && opt_eqb Bool.eqb (gn_exist a) (gn_exist b) &&
  Bool.eqb (gn_viable a) (gn_viable b) && Bool.eqb (gn_necessary a) (gn_necessary b) && opt_eqb seqb (gn_mitre a) (gn_mitre b) &&
  list_eqb seqb (gn_tags a) (gn_tags b) && jv_eqb (JDict (gn_extras a)) (JDict (gn_extras b)).
Definition gatt_eqb (a b : gattacker) : bool :=
  Z.eqb (ga_id a) (ga_id b) && seqb (ga_name a) (ga_name b) && list_eqb Z.eqb (ga_entry a) (ga_entry b) &&
  list_eqb Z.eqb (ga_reached a) (ga_reached b).
Definition gcontent_eqb (a b : gcontent) : bool :=
  list_eqb gnode_eqb (gc_nodes a) (gc_nodes b) && list_eqb gatt_eqb (gc_atts a) (gc_atts b).

(* correspondence: the document as parsed, whether the model was supplied, whether the implementation loaded it, the
   content of the graph it built and the observation of the graph record (lists, indexes, counters; handles = positions).
   The document goes through GraphIO.gdecode first, so that the model side is the whole of _from_dict *)
Definition gload_check (c : jv * bool * bool * gcontent * jv) : bool :=
  let '(doc, with_model, impl_ok, loaded, og) := c in
  match gdecode fparse_tab doc with
  | Some dc =>
    match gload with_model dc with
    | Some s => impl_ok && gcontent_eqb (canon (gcontent_of s)) (canon loaded) && jv_eqb (obs_graph (s_g s)) og
    | None => negb impl_ok
    end
  | None => negb impl_ok
  end.
