(* MalParse.v — a recursive-descent parser for mal.g4 on token lists (the grammar is LL(2)); one function per rule,
   all decreasing one shared fuel. parse_mal implements the start rule `mal: declaration+ | EOF` with ANTLR's prefix
   semantics (the rule does not end in EOF): parsing stops silently at the first token that cannot start a
   declaration, and the unread tokens are returned. *)
From MT Require Import Prelude Lang Mal.

Definition sop_of_tok (t : tok) : option sop :=
  match t with Union => Some OUnion | Intersect => Some OInter | Minus => Some ODiff | _ => None end.

Fixpoint ptys (toks : list tok) : list string * list tok :=
  match toks with
  | LSq :: TId t :: RSq :: r => let (l, r') := ptys r in (t :: l, r')
  | _ => ([], toks)
  end.

Fixpoint pe (n : nat) (toks : list tok) : option (cexpr * list tok) :=
  match n with O => None | S n =>
    match pps n toks with
    | Some (p, r) => match pet n r with Some (tl, r') => Some (CE p tl, r') | None => None end
    | None => None end end
with pet (n : nat) (toks : list tok) : option (etail * list tok) :=
  match n with O => None | S n =>
    match toks with
    | t :: r =>
        match sop_of_tok t with
        | Some o => match pps n r with
                    | Some (p, r1) => match pet n r1 with Some (tl, r2) => Some (ECons o p tl, r2) | None => None end
                    | None => None end
        | None => Some (ENil, toks)
        end
    | [] => Some (ENil, toks) end end
with pps (n : nat) (toks : list tok) : option (cparts * list tok) :=
  match n with O => None | S n =>
    match pp n toks with
    | Some (p, r) => match pdt n r with Some (tl, r') => Some (CP p tl, r') | None => None end
    | None => None end end
with pdt (n : nat) (toks : list tok) : option (dtail * list tok) :=
  match n with O => None | S n =>
    match toks with
    | Dot :: r => match pp n r with
                  | Some (p, r1) => match pdt n r1 with Some (tl, r2) => Some (DCons p tl, r2) | None => None end
                  | None => None end
    | _ => Some (DNil, toks) end end
with pp (n : nat) (toks : list tok) : option (cpart * list tok) :=
  match n with O => None | S n =>
    match pa n toks with
    | Some (a, r) =>
        let (st, r1) := match r with Star :: r1 => (true, r1) | _ => (false, r) end in
        let (tys, r2) := ptys r1 in Some (CPart a st tys, r2)
    | None => None end end
with pa (n : nat) (toks : list tok) : option (catom * list tok) :=
  match n with O => None | S n =>
    match toks with
    | LPar :: r => match pe n r with Some (e, RPar :: r') => Some (CParen e, r') | _ => None end
    | TId v :: LPar :: RPar :: r => Some (CVar v, r)
    | TId v :: LPar :: _ => None                        (* varsubst '(' must be closed at once *)
    | TId x :: r => Some (CId x, r)
    | _ => None end end.

(* ---------- TTC ---------- *)
Definition pnumber (toks : list tok) : option (cnumber * list tok) :=
  match toks with TInt s :: r => Some (CInt s, r) | TFloat s :: r => Some (CFloat s, r) | _ => None end.
Fixpoint pnums_tail (n : nat) (toks : list tok) : option (list cnumber * list tok) :=      (* (COMMA number)* RPAREN *)
  match n with O => None | S n =>
    match toks with
    | RPar :: r => Some ([], r)
    | Comma :: r => match pnumber r with
                    | Some (x, r1) => match pnums_tail n r1 with Some (l, r2) => Some (x :: l, r2) | None => None end
                    | None => None end
    | _ => None end end.
Definition pargs (n : nat) (toks : list tok) : option (list cnumber * list tok) :=        (* after LPAREN *)
  match toks with
  | RPar :: r => Some ([], r)
  | _ => match pnumber toks with
         | Some (x, r1) => match pnums_tail n r1 with Some (l, r2) => Some (x :: l, r2) | None => None end
         | None => None end
  end.

Fixpoint pte (n : nat) (toks : list tok) : option (cttcexpr * list tok) :=
  match n with O => None | S n =>
    match ptt n toks with
    | Some (t, r) => match ptet n r with Some (tl, r') => Some (TE t tl, r') | None => None end
    | None => None end end
with ptet (n : nat) (toks : list tok) : option (tetail * list tok) :=
  match n with O => None | S n =>
    match toks with
    | Plus :: r => match ptt n r with
                   | Some (t, r1) => match ptet n r1 with Some (tl, r2) => Some (TECons true t tl, r2) | None => None end
                   | None => None end
    | Minus :: r => match ptt n r with
                    | Some (t, r1) => match ptet n r1 with Some (tl, r2) => Some (TECons false t tl, r2) | None => None end
                    | None => None end
    | _ => Some (TENil, toks) end end
with ptt (n : nat) (toks : list tok) : option (cttcterm * list tok) :=
  match n with O => None | S n =>
    match ptf n toks with
    | Some (f, r) => match pttt n r with Some (tl, r') => Some (TT f tl, r') | None => None end
    | None => None end end
with pttt (n : nat) (toks : list tok) : option (tttail * list tok) :=
  match n with O => None | S n =>
    match toks with
    | Star :: r => match ptf n r with
                   | Some (f, r1) => match pttt n r1 with Some (tl, r2) => Some (TTCons true f tl, r2) | None => None end
                   | None => None end
    | Divide :: r => match ptf n r with
                     | Some (f, r1) => match pttt n r1 with Some (tl, r2) => Some (TTCons false f tl, r2) | None => None end
                     | None => None end
    | _ => Some (TTNil, toks) end end
with ptf (n : nat) (toks : list tok) : option (cttcfact * list tok) :=
  match n with O => None | S n =>
    match pta n toks with
    | Some (a, Power :: r) => match pta n r with Some (b, r') => Some (TF2 a b, r') | None => None end
    | Some (a, r) => Some (TF1 a, r)
    | None => None end end
with pta (n : nat) (toks : list tok) : option (cttcatom * list tok) :=
  match n with O => None | S n =>
    match toks with
    | TId x :: LPar :: r => match pargs n r with Some (l, r') => Some (TADist x (Some l), r') | None => None end
    | TId x :: r => Some (TADist x None, r)
    | LPar :: r => match pte n r with Some (e, RPar :: r') => Some (TAParen e, r') | _ => None end
    | TInt s :: r => Some (TANum (CInt s), r)
    | TFloat s :: r => Some (TANum (CFloat s), r)
    | _ => None end end.

(* ---------- generic repetition ---------- *)
Section Star.
Context {A : Type}.
Variable start : list tok -> bool.
Variable p : nat -> list tok -> option (A * list tok).
Fixpoint pstar (n : nat) (toks : list tok) : option (list A * list tok) :=
  match n with O => None | S n =>
    if start toks then
      match p n toks with
      | Some (a, r) => match pstar n r with Some (l, r') => Some (a :: l, r') | None => None end
      | None => None end
    else Some ([], toks) end.
End Star.

(* ---------- declarations ---------- *)
Definition s_meta (toks : list tok) : bool := match toks with TId _ :: KInfo :: _ => true | _ => false end.
Definition pmeta (n : nat) (toks : list tok) : option (cmeta * list tok) :=
  match toks with TId k :: KInfo :: Colon :: TString v :: r => Some (mkCMeta k v, r) | _ => None end.
Definition pmetas := pstar s_meta pmeta.
Definition s_tag (toks : list tok) : bool := match toks with At :: _ => true | _ => false end.
Definition ptag (n : nat) (toks : list tok) : option (string * list tok) :=
  match toks with At :: TId t :: r => Some (t, r) | _ => None end.
Definition pcia (toks : list tok) : option (ccia * list tok) :=
  match toks with KC :: r => Some (CiaC, r) | KI :: r => Some (CiaI, r) | KA :: r => Some (CiaA, r) | _ => None end.
Definition s_comma (toks : list tok) : bool := match toks with Comma :: _ => true | _ => false end.
Definition pcomma_cia (n : nat) (toks : list tok) : option (ccia * list tok) :=
  match toks with Comma :: r => pcia r | _ => None end.
Definition pcias (n : nat) (toks : list tok) : option (option (ccia * list ccia) * list tok) :=
  match toks with
  | LCur :: r => match pcia r with
                 | Some (c, r1) => match pstar s_comma pcomma_cia n r1 with
                                   | Some (cs, RCur :: r2) => Some (Some (c, cs), r2)
                                   | _ => None end
                 | None => None end
  | _ => Some (None, toks)
  end.
Definition pttc (n : nat) (toks : list tok) : option (option cttcexpr * list tok) :=
  match toks with
  | LSq :: r => match pte n r with Some (e, RSq :: r') => Some (Some e, r') | _ => None end
  | _ => Some (None, toks)
  end.
Definition pcomma_expr (n : nat) (toks : list tok) : option (cexpr * list tok) :=
  match toks with Comma :: r => pe n r | _ => None end.
Definition pexprs (n : nat) (toks : list tok) : option ((cexpr * list cexpr) * list tok) :=
  match pe n toks with
  | Some (e, r) => match pstar s_comma pcomma_expr n r with Some (l, r') => Some ((e, l), r') | None => None end
  | None => None end.
Definition ppre (n : nat) (toks : list tok) : option (option (cexpr * list cexpr) * list tok) :=
  match toks with
  | Requires :: r => match pexprs n r with Some (x, r') => Some (Some x, r') | None => None end
  | _ => Some (None, toks)
  end.
Definition preaches (n : nat) (toks : list tok) : option (option (bool * (cexpr * list cexpr)) * list tok) :=
  match toks with
  | Inherits :: r => match pexprs n r with Some (x, r') => Some (Some (true, x), r') | None => None end
  | LeadsTo :: r => match pexprs n r with Some (x, r') => Some (Some (false, x), r') | None => None end
  | _ => Some (None, toks)
  end.
Definition psteptype (t : tok) : option csteptype :=
  match t with And => Some StAnd | Or => Some StOr | Hash => Some StHash | KE => Some StExists | NotExists => Some StNotExists | _ => None end.
Definition pstep (n : nat) (toks : list tok) : option (cstep * list tok) :=
  match toks with
  | t :: TId name :: r0 =>
    match psteptype t with
    | None => None
    | Some ty =>
      match pstar s_tag ptag n r0 with None => None | Some (tags, r1) =>
      match pcias n r1 with None => None | Some (cias, r2) =>
      match pttc n r2 with None => None | Some (ttc, r3) =>
      match pmetas n r3 with None => None | Some (metas, r4) =>
      match ppre n r4 with None => None | Some (pre, r5) =>
      match preaches n r5 with None => None | Some (rea, r6) =>
        Some (mkCStep ty name tags cias ttc metas pre rea, r6)
      end end end end end end
    end
  | _ => None
  end.
Definition s_member (toks : list tok) : bool :=
  match toks with t :: _ => match psteptype t with Some _ => true | None => match t with KLet => true | _ => false end end | [] => false end.
Definition pmember (n : nat) (toks : list tok) : option (cmember * list tok) :=
  match toks with
  | KLet :: TId x :: Assign :: r => match pe n r with Some (e, r') => Some (MVar (mkCVar x e), r') | None => None end
  | KLet :: _ => None
  | _ => match pstep n toks with Some (s, r) => Some (MStep s, r) | None => None end
  end.
Definition s_asset (toks : list tok) : bool := match toks with KAbstract :: _ | KAsset :: _ => true | _ => false end.
Definition pabstract (toks : list tok) : bool * list tok := match toks with KAbstract :: r => (true, r) | _ => (false, toks) end.
Definition pextends (r1 : list tok) : option (option string) * list tok :=
  match r1 with KExtends :: TId p :: r => (Some (Some p), r) | KExtends :: _ => (None, r1) | _ => (Some None, r1) end.
Definition passet (n : nat) (toks : list tok) : option (casset * list tok) :=
  let '(abs, r0) := pabstract toks in
  match r0 with
  | KAsset :: TId name :: r1 =>
    let '(ext, r2) := pextends r1 in
    match ext with
    | None => None
    | Some ext =>
      match pmetas n r2 with
      | Some (metas, LCur :: r3) =>
        match pstar s_member pmember n r3 with
        | Some (ms, RCur :: r4) => Some (mkCAsset abs name ext metas ms, r4)
        | _ => None end
      | _ => None end
    end
  | _ => None
  end.
Definition pmultatom (toks : list tok) : option (cmultatom * list tok) :=
  match toks with TInt s :: r => Some (MInt s, r) | Star :: r => Some (MStar, r) | _ => None end.
Definition pmult (toks : list tok) : option (cmult * list tok) :=
  match pmultatom toks with
  | Some (lo, Range :: r) => match pmultatom r with Some (hi, r') => Some (mkCMult lo (Some hi), r') | None => None end
  | Some (lo, r) => Some (mkCMult lo None, r)
  | None => None
  end.
Definition s_assoc (toks : list tok) : bool := match toks with TId _ :: _ => true | _ => false end.
Definition passoc (n : nat) (toks : list tok) : option (cassociation * list tok) :=
  match toks with
  | TId la :: LSq :: TId lf :: RSq :: r0 =>
    match pmult r0 with
    | Some (lm, LArrow :: TId name :: RArrow :: r1) =>
      match pmult r1 with
      | Some (rm, LSq :: TId rf :: RSq :: TId ra :: r2) =>
        match pmetas n r2 with Some (metas, r3) => Some (mkCAssoc la lf lm name rm rf ra metas, r3) | None => None end
      | _ => None end
    | _ => None end
  | _ => None
  end.
Definition s_decl (toks : list tok) : bool :=
  match toks with KInclude :: _ | Hash :: _ | KCategory :: _ | KAssociations :: _ => true | _ => false end.
Definition pdecl (n : nat) (toks : list tok) : option (cdecl * list tok) :=
  match toks with
  | KInclude :: TString f :: r => Some (DInclude f, r)
  | Hash :: TId k :: Colon :: TString v :: r => Some (DDefine k v, r)
  | KCategory :: TId name :: r0 =>
      match pmetas n r0 with
      | Some (metas, LCur :: r1) =>
        match pstar s_asset passet n r1 with
        | Some (assets, RCur :: r2) => Some (DCategory (mkCCat name metas assets), r2)
        | _ => None end
      | _ => None end
  | KAssociations :: LCur :: r0 =>
      match pstar s_assoc passoc n r0 with
      | Some (l, RCur :: r1) => Some (DAssociations l, r1)
      | _ => None end
  | _ => None
  end.
(* mal: (declaration)+ | EOF *)
Definition parse_mal (n : nat) (toks : list tok) : option (cmal * list tok) :=
  match toks with
  | [] => Some ([], [])
  | _ => if s_decl toks then pstar s_decl pdecl n toks else None
  end.
Definition parse_fuel (toks : list tok) : nat := 4 * List.length toks + 40.
