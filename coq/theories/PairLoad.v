(* PairLoad.v — loaders that rebuild a model with ONE association object per linked pair (translators/securicad.py,
   ingestors/neo4j.py get_model): the content they rebuild is the content of the native model with every association
   split into its pairs, and that content is loadable whenever the native one is — so the rebuild theorem of
   ModelLoadThm.v applies to it. (C18, C19) *)
From MT Require Import Prelude ListFacts Model ModelOps ModelInv Codec ModelIO ModelLoad ModelLoadThm.

Definition split_assoc (c : cassoc) : list cassoc :=
  flat_map (fun l => map (fun r => mkCC (cc_class c) (cc_lfield c) [l] (cc_rfield c) [r] []) (cc_right c)) (cc_left c).
Definition pairs_content (c : content) : content :=
  mkC (c_name c) (c_assets c) (flat_map split_assoc (c_assocs c)) (c_attackers c).

(* ---- no_clash as a statement about ordered pairs ---- *)
Definition nclash (old c : cassoc) : Prop := links_clash c old = false.
Inductive OrdPairs {A} (R : A -> A -> Prop) : list A -> Prop :=
| OP_nil : OrdPairs R []
| OP_cons : forall a l, (forall b, In b l -> R a b) -> OrdPairs R l -> OrdPairs R (a :: l).

Lemma OrdPairs_app {A} (R : A -> A -> Prop) l1 l2 :
  OrdPairs R (l1 ++ l2) <-> OrdPairs R l1 /\ OrdPairs R l2 /\ (forall x y, In x l1 -> In y l2 -> R x y).
Proof.
  induction l1 as [|a r IH]; cbn.
  - split; [intros H; repeat split; auto; [constructor|intros x y []]|tauto].
  - split.
    + intros H. inversion H as [|? ? H1 H2]; subst. apply IH in H2. destruct H2 as (A1 & A2 & A3). repeat split; auto.
      * constructor; auto. intros b Hb. apply H1. apply in_or_app; auto.
      * intros x y [<-|Hx] Hy; [apply H1; apply in_or_app; auto|apply A3; auto].
    + intros (H1 & H2 & H3). inversion H1 as [|? ? B1 B2]; subst. constructor.
      * intros b Hb. apply in_app_or in Hb. destruct Hb as [Hb|Hb]; [apply B1; auto|apply H3; auto].
      * apply IH. repeat split; auto.
Qed.
Lemma OrdPairs_flat_map {A B} (R : B -> B -> Prop) (f : A -> list B) : forall l,
  OrdPairs (fun a b => forall x y, In x (f a) -> In y (f b) -> R x y) l -> (forall a, In a l -> OrdPairs R (f a)) ->
  OrdPairs R (flat_map f l).
Proof.
  induction l as [|a r IH]; intros H G; cbn; [constructor|]. inversion H as [|? ? H1 H2]; subst.
  apply OrdPairs_app. split; [apply G; left; auto|]. split; [apply IH; auto; intros b Hb; apply G; right; auto|].
  intros x y Hx Hy. apply in_flat_map in Hy. destruct Hy as (b & Hb & Hy). apply (H1 b Hb x y Hx Hy).
Qed.

Lemma no_clash_iff : forall l done, no_clash done l = true <->
  (forall c old, In c l -> In old done -> nclash old c) /\ OrdPairs nclash l.
Proof.
  induction l as [|c r IH]; intros done; cbn [no_clash].
  - split; [intros _; split; [intros ? ? []|constructor]|auto].
  - rewrite andb_true_iff, forallb_forall, IH. unfold nclash. split.
    + intros (H1 & H2 & H3). split.
      * intros c0 old [<-|Hc] Ho; [apply negb_true_iff; apply H1; auto|]. apply H2; auto. apply in_or_app; auto.
      * constructor; auto. intros b Hb. apply H2; auto. apply in_or_app. right. left. reflexivity.
    + intros (H1 & H2). inversion H2 as [|? ? A1 A2]; subst. split; [|split]; auto.
      * intros old Ho. apply negb_true_iff. apply H1; auto. left; auto.
      * intros c0 old Hc Ho. apply in_app_or in Ho. destruct Ho as [Ho|[<-|[]]]; [apply H1; auto; right; auto|apply A1; auto].
Qed.

(* ---- the pairs of one association never clash with each other, and clash with the pairs of another only if the two
        associations clash ---- *)
Lemma split_In c p : In p (split_assoc c) <->
  exists l r, In l (cc_left c) /\ In r (cc_right c) /\ p = mkCC (cc_class c) (cc_lfield c) [l] (cc_rfield c) [r] [].
Proof.
  unfold split_assoc. rewrite in_flat_map. split.
  - intros (l & Hl & Hp). apply in_map_iff in Hp. destruct Hp as (r & <- & Hr). eauto.
  - intros (l & r & Hl & Hr & ->). exists l. split; auto. apply in_map_iff. eauto.
Qed.
Lemma clash_pairs a b p q : In p (split_assoc a) -> In q (split_assoc b) -> links_clash q p = true -> links_clash b a = true.
Proof.
  intros Hp Hq. apply split_In in Hp. apply split_In in Hq. destruct Hp as (l & r & Hl & Hr & ->). destruct Hq as (l' & r' & Hl' & Hr' & ->).
  unfold links_clash. cbn [cc_class cc_left cc_right existsb memzl orb]. rewrite !orb_false_r.
  intros H. apply andb_true_iff in H. destruct H as [H H3]. apply andb_true_iff in H. destruct H as [H1 H2].
  apply Z.eqb_eq in H2. apply Z.eqb_eq in H3. subst. rewrite H1. cbn [andb].
  apply andb_true_iff. split; apply existsb_exists.
  - exists l. split; auto. apply memzl_In. auto.
  - exists r. split; auto. apply memzl_In. auto.
Qed.
Lemma split_self c : NoDup (cc_left c) -> NoDup (cc_right c) -> OrdPairs nclash (split_assoc c).
Proof.
  intros NL NR. unfold split_assoc.
  apply (OrdPairs_flat_map nclash (fun l => map (fun r => mkCC (cc_class c) (cc_lfield c) [l] (cc_rfield c) [r] []) (cc_right c))).
  - (* different left members *)
    induction NL as [|l t Hl Nt IH]; constructor; auto.
    intros l' Hl' x y Hx Hy. apply in_map_iff in Hx. destruct Hx as (r & <- & _). apply in_map_iff in Hy. destruct Hy as (r' & <- & _).
    unfold nclash, links_clash. cbn. rewrite !orb_false_r.
    replace (Z.eqb l' l) with false; [rewrite andb_false_r; reflexivity|]. symmetry. apply Z.eqb_neq. intros ->. auto.
  - (* one left member, different right members *)
    intros l _. induction NR as [|r t Hr Nt IH]; cbn [map]; constructor; auto.
    intros b Hb. apply in_map_iff in Hb. destruct Hb as (r' & <- & Hr'). unfold nclash, links_clash. cbn. rewrite !orb_false_r.
    replace (Z.eqb r' r) with false; [rewrite andb_false_r; reflexivity|]. symmetry. apply Z.eqb_neq. intros ->. auto.
Qed.

Section Pairs.
Variable defaults : string -> list (string * Z).

Lemma assoc_ok_split ids c p : assoc_ok ids c = true -> In p (split_assoc c) -> assoc_ok ids p = true.
Proof.
  intros OK Hp. apply split_In in Hp. destruct Hp as (l & r & Hl & Hr & ->).
  unfold assoc_ok in *. repeat (apply andb_true_iff in OK; destruct OK as [OK ?]).
  rewrite forallb_forall in H, H0. cbn [cc_left cc_right nodupb existsb forallb negb andb].
  rewrite (H0 l Hl), (H r Hr). reflexivity.
Qed.

Theorem loadable_pairs c : loadable defaults c = true -> loadable defaults (pairs_content c) = true.
Proof.
  unfold loadable. cbn [pairs_content c_assets c_assocs c_attackers]. intros H.
  apply andb_true_iff in H. destruct H as [H H6]. apply andb_true_iff in H. destruct H as [H H5].
  apply andb_true_iff in H. destruct H as [H H4]. rewrite H, H6. cbn [andb]. rewrite andb_true_r.
  apply andb_true_iff. split.
  - apply forallb_forall. intros p Hp. apply in_flat_map in Hp. destruct Hp as (a & Ha & Hp).
    rewrite forallb_forall in H4. apply (assoc_ok_split _ a p (H4 a Ha) Hp).
  - apply no_clash_iff. split; [intros ? ? _ []|].
    apply no_clash_iff in H5. destruct H5 as [_ OP].
    apply OrdPairs_flat_map.
    + clear H H6. rewrite forallb_forall in H4. induction OP as [|a l A1 A2 IH]; constructor.
      * intros b Hb x y Hx Hy. unfold nclash. destruct (links_clash y x) eqn:E; auto.
        pose proof (clash_pairs a b x y Hx Hy E) as C. specialize (A1 b Hb). unfold nclash in A1. congruence.
      * apply IH. intros x Hx. apply H4. right; auto.
    + intros a Ha. rewrite forallb_forall in H4. specialize (H4 a Ha). unfold assoc_ok in H4.
      repeat (apply andb_true_iff in H4; destruct H4 as [H4 ?]).
      apply split_self; apply (nodupb_NoDup Z.eqb _ Z.eqb_eq); auto.
Qed.

(* hence the rebuild of a pair-by-pair loader yields a coherent model whose content is the native content with every
   association split into its pairs *)
Theorem pairs_rebuild c : loadable defaults c = true ->
  exists s, load defaults (pairs_content c) = (s, MOk) /\ MI s /\ content_of defaults (c_name c) s = pairs_content c.
Proof. intros H. apply (load_loadable defaults (pairs_content c)). apply loadable_pairs. exact H. Qed.
End Pairs.

(* the associations of the split content are the linked pairs of the native content (Legacy.pairs_of), in order *)
From MT Require Import Legacy.
Definition pair_key (p : cassoc) : string * string * Z * string * Z :=
  (cc_class p, cc_lfield p, hd 0%Z (cc_left p), cc_rfield p, hd 0%Z (cc_right p)).
Lemma map_flat_map {A B C} (f : B -> C) (g : A -> list B) l : map f (flat_map g l) = flat_map (fun x => map f (g x)) l.
Proof. induction l as [|a r IH]; cbn; auto. rewrite map_app, IH. reflexivity. Qed.
Theorem pairs_content_pairs_of c : map pair_key (c_assocs (pairs_content c)) = pairs_of c.
Proof.
  unfold pairs_content, pairs_of. cbn [c_assocs]. rewrite map_flat_map. apply flat_map_ext. intros a.
  unfold split_assoc. rewrite map_flat_map. apply flat_map_ext. intros l. rewrite map_map. reflexivity.
Qed.

(* correspondence: the rebuild of a pair-by-pair loader (securiCAD) against the model the implementation built, as
   contents up to the order of assets, associations, attackers and entry points (archives list them in any order;
   they carry no attacker names) *)
From MT Require Import Lang Classes.
Definition akey (a : cassoc) : string :=
  (cc_class a ++ "/" ++ cc_lfield a ++ "/" ++ String.concat "," (map string_of_Z (cc_left a)) ++ "/" ++ cc_rfield a ++ "/"
   ++ String.concat "," (map string_of_Z (cc_right a)))%string.
Definition tkey (t : cattacker) : string :=
  (string_of_Z (ct_id t) ++ "|" ++
   String.concat ";" (isort String.leb (map (fun e => (string_of_Z (fst e) ++ ":" ++ String.concat "," (isort String.leb (snd e)))%string) (ct_entry t))))%string.
Definition by_id (l : list casset) : list casset := isort (fun a b => Z.leb (ca_id a) (ca_id b)) l.
Definition pairs_load_check (x : lang * content * content) : bool :=
  let '(L, c, back) := x in
  match load (class_defenses L) (pairs_content c) with
  | (s, MOk) =>
    let got := content_of (class_defenses L) (c_name c) s in
    list_eqb casset_eqb (by_id (c_assets got)) (by_id (c_assets back)) &&
    list_eqb seqb (isort String.leb (map akey (c_assocs got))) (isort String.leb (map akey (c_assocs back))) &&
    list_eqb seqb (isort String.leb (map tkey (c_attackers got))) (isort String.leb (map tkey (c_attackers back)))
  | _ => negb (loadable (class_defenses L) c)
  end.
