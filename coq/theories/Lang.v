(* Lang.v — the language specification (what malc / the compiler emit as langspec.json) as an AST, and the
   helpers of maltoolbox/language/languagegraph.py that read it:
     _get_attacks_for_asset_type (inheritance fold of attack steps),
     _get_variable_for_asset_type_by_name, subtype queries. *)
From MT Require Import Prelude.

Inductive sexpr :=
| SStep (n : string)
| SField (f : string)
| SVar (v : string)
| SCollect (l r : sexpr)
| SUnion (l r : sexpr)
| SInter (l r : sexpr)
| SDiff (l r : sexpr)
| STrans (e : sexpr)
| SSub (t : string) (e : sexpr).

Fixpoint sexpr_eqb (a b : sexpr) : bool :=
  match a, b with
  | SStep x, SStep y | SField x, SField y | SVar x, SVar y => seqb x y
  | SCollect a1 a2, SCollect b1 b2 | SUnion a1 a2, SUnion b1 b2
  | SInter a1 a2, SInter b1 b2 | SDiff a1 a2, SDiff b1 b2 => sexpr_eqb a1 b1 && sexpr_eqb a2 b2
  | STrans x, STrans y => sexpr_eqb x y
  | SSub t x, SSub u y => seqb t u && sexpr_eqb x y
  | _, _ => false
  end.

(* one attack step declaration inside an asset *)
Record stepdecl := mkStep {
  sd_name : string;
  sd_type : string;                         (* or | and | defense | exist | notExist *)
  sd_ttc : jv;
  sd_tags : list string;
  sd_meta : jv;                             (* meta dictionary; 'mitre' is read from it *)
  sd_requires : option (list sexpr);
  sd_reaches : option (bool * list sexpr)   (* (overrides, stepExpressions); None = no reaches clause *)
}.
Record assetdecl := mkAsset {
  ad_name : string; ad_super : option string; ad_abstract : bool;
  ad_vars : list (string * sexpr); ad_steps : list stepdecl }.
Record assocdecl := mkAssoc {
  ac_name : string;
  ac_lasset : string; ac_lfield : string; ac_lmin : Z; ac_lmax : option Z;
  ac_rasset : string; ac_rfield : string; ac_rmin : Z; ac_rmax : option Z }.
Record lang := mkLang { l_assets : list assetdecl; l_assocs : list assocdecl }.

Definition find_asset (L : lang) (t : string) : option assetdecl :=
  find (fun a => seqb (ad_name a) t) (l_assets L).

(* ---- _get_attacks_for_asset_type ---- *)
Definition set_reaches (d : stepdecl) (r : option (bool * list sexpr)) : stepdecl :=
  mkStep (sd_name d) (sd_type d) (sd_ttc d) (sd_tags d) (sd_meta d) (sd_requires d) r.

(* one declaration applied to the dictionary of steps resolved so far (a Python dict: insertion order, in-place replace) *)
Definition apply_decl (steps : list (string * stepdecl)) (d : stepdecl) : list (string * stepdecl) :=
  match dget seqb steps (sd_name d) with
  | None => dset seqb steps (sd_name d) d                         (* first definition: deepcopy(step) *)
  | Some old =>
      match sd_reaches d with
      | None => steps                                               (* no reaches clause: leave untouched *)
      | Some (true, _) => dset seqb steps (sd_name d) d             (* '->' : replace *)
      | Some (false, es) =>                                         (* '+>' : keep and append *)
          match sd_reaches old with
          | Some (ov, olds) => dset seqb steps (sd_name d) (set_reaches old (Some (ov, olds ++ es)))
          | None => dset seqb steps (sd_name d) (set_reaches old (Some (false, es)))
          end
      end
  end.

Fixpoint attacks_for (fuel : nat) (L : lang) (t : string) : option (list (string * stepdecl)) :=
  match fuel with
  | O => None
  | S f =>
    match find_asset L t with
    | None => Some []
    | Some a =>
      match (match ad_super a with Some sup => attacks_for f L sup | None => Some [] end) with
      | None => None
      | Some base => Some (fold_left apply_decl (ad_steps a) base)
      end
    end
  end.
Definition lang_fuel (L : lang) : nat := S (List.length (l_assets L)).
Definition steps_of (L : lang) (t : string) : option (list (string * stepdecl)) := attacks_for (lang_fuel L) L t.

(* ---- _get_variable_for_asset_type_by_name ---- *)
Inductive vres := VOk (e : sexpr) | VFail | VFuel.
Fixpoint lookup_var (fuel : nat) (L : lang) (t v : string) : vres :=
  match fuel with
  | O => VFuel
  | S f =>
    match find_asset L t with
    | None => VFail                                  (* LanguageGraphException *)
    | Some a =>
      match dget seqb (ad_vars a) v with
      | Some e => VOk e
      | None => match ad_super a with
                | Some sup => lookup_var f L sup v
                | None => VFail
                end
      end
    end
  end.

(* ---- the inheritance chain and subtype queries ---- *)
Fixpoint chain_up (fuel : nat) (L : lang) (t : string) : list string :=
  match fuel with
  | O => []
  | S f => t :: match find_asset L t with
                | Some a => match ad_super a with Some sup => chain_up f L sup | None => [] end
                | None => []
                end
  end.
Definition ancestors_or_self (L : lang) (t : string) : list string := chain_up (lang_fuel L) L t.
Definition is_subasset_of (L : lang) (t u : string) : bool := existsb (seqb u) (ancestors_or_self L t).
