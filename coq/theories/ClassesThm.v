(* ClassesThm.v — C06: the generated classes are exactly the language's, and no history of model edits (valid and
   invalid attempts) produces a model holding a defense outside [0,1], an ill-typed or over-long association field,
   an asset repeated inside a field, or the same link twice. *)
From MT Require Import Prelude ListFacts Lang LangThm LangGraph Model ModelOps ModelInv Classes.

(* ================= A. the class inventory ================= *)
Theorem class_defenses_spec L t d v :
  In (d, v) (class_defenses L t) <->
  exists steps sd, steps_of L t = Some steps /\ In (d, sd) steps /\ sd_type sd = "defense" /\ v = default_of sd.
Proof.
  unfold class_defenses. destruct (steps_of L t) as [steps|].
  - rewrite in_map_iff. split.
    + intros ([d' sd] & E & Hin). cbn in E. inversion E; subst. apply filter_In in Hin. destruct Hin as [Hin Hd].
      unfold is_defense in Hd. cbn in Hd. apply seqb_spec in Hd. exists steps, sd. auto.
    + intros (steps' & sd & E & Hin & Ht & ->). inversion E; subst steps'. exists (d, sd). split; auto.
      apply filter_In. split; auto. unfold is_defense. cbn. apply seqb_spec. auto.
  - split; [intros [] | intros (? & ? & E & _); discriminate].
Qed.
Theorem default_of_cases sd : (default_of sd = 1024%Z /\ is_enabled (sd_ttc sd) = true) \/ (default_of sd = 0%Z /\ is_enabled (sd_ttc sd) = false).
Proof. unfold default_of. destruct (is_enabled (sd_ttc sd)); auto. Qed.

Section FoldDset.
Context {A V : Type} (cn : A -> string) (cv : A -> V).
Let f := fun (d : list (string * V)) (c : A) => dset seqb d (cn c) (cv c).
Lemma fold_dset_other : forall l d k, ~ In k (map cn l) -> dget seqb (fold_left f l d) k = dget seqb d k.
Proof.
  induction l as [|c r IH]; intros d k N; cbn [fold_left]; auto.
  rewrite IH by (intros A0; apply N; right; auto). unfold f.
  apply (dget_dset_other seqb seqb_spec). intros ->. apply N. left; auto.
Qed.
Lemma fold_dset_get : forall l d c, NoDup (map cn l) -> In c l -> dget seqb (fold_left f l d) (cn c) = Some (cv c).
Proof.
  induction l as [|c0 r IH]; intros d c N Hin; [destruct Hin|]. cbn [fold_left]. cbn in N. inversion N as [|? ? N1 N2]; subst.
  destruct Hin as [->|Hin].
  - rewrite fold_dset_other by auto. unfold f. apply (dget_dset_same seqb seqb_spec).
  - apply IH; auto.
Qed.
Lemma fold_dset_sound : forall l d k v, dget seqb (fold_left f l d) k = Some v ->
  dget seqb d k = Some v \/ exists c, In c l /\ k = cn c /\ v = cv c.
Proof.
  induction l as [|c0 r IH]; intros d k v H; cbn [fold_left] in H; auto.
  destruct (IH _ _ _ H) as [H1|(c & Hc & E1 & E2)].
  - unfold f in H1. destruct (seqb k (cn c0)) eqn:E.
    + apply seqb_spec in E. subst k. rewrite (dget_dset_same seqb seqb_spec) in H1. inversion H1; subst.
      right. exists c0. split; [left|]; auto.
    + rewrite (dget_dset_other seqb seqb_spec) in H1; auto. intros ->. rewrite (keqb_refl seqb seqb_spec) in E. discriminate.
  - right. exists c. split; [right|]; auto.
Qed.
End FoldDset.

(* every association of the language graph has a class of its own, with its two fields, when class names are distinct *)
Theorem assoc_classes_complete created c :
  NoDup (map (class_name created) created) -> In c created ->
  dget seqb (assoc_classes created) (class_name created c) = Some (class_of c).
Proof. intros N Hc. unfold assoc_classes. apply (fold_dset_get (class_name created) class_of); auto. Qed.
(* and there is no other class *)
Theorem assoc_classes_sound created n k :
  dget seqb (assoc_classes created) n = Some k -> exists c, In c created /\ n = class_name created c /\ k = class_of c.
Proof.
  intros H. unfold assoc_classes in H. destruct (fold_dset_sound (class_name created) class_of _ _ _ _ H) as [A|A]; [discriminate|exact A].
Qed.

(* class names are distinct when (name, left type, right type) are and the names involved contain no underscore *)
Fixpoint has_us (s : string) : bool :=
  match s with EmptyString => false | String c r => Ascii.eqb c "_"%char || has_us r end.
Lemma has_us_app a b : has_us (a ++ b) = has_us a || has_us b.
Proof. induction a as [|c r IH]; cbn; auto. rewrite IH. apply orb_assoc. Qed.
Lemma us_split_inj : forall a a' s s', has_us a = false -> has_us a' = false ->
  (a ++ "_" ++ s)%string = (a' ++ "_" ++ s')%string -> a = a' /\ s = s'.
Proof.
  induction a as [|c r IH]; intros a' s s' Ha Ha' E.
  - destruct a' as [|c' r']; cbn in E.
    + inversion E; auto.
    + inversion E; subst. cbn in Ha'. discriminate.
  - destruct a' as [|c' r']; cbn in E.
    + inversion E; subst. cbn in Ha. discriminate.
    + inversion E; subst. cbn in Ha, Ha'. apply orb_false_iff in Ha, Ha'. destruct Ha, Ha'.
      destruct (IH r' s s') as [-> ->]; auto.
Qed.
Definition sig_of (c : assocdecl) : string * string * string := (ac_name c, ac_lasset c, ac_rasset c).
Definition us_free (c : assocdecl) : Prop := has_us (ac_name c) = false /\ has_us (ac_lasset c) = false.
Theorem class_name_inj created c1 c2 : us_free c1 -> us_free c2 ->
  class_name created c1 = class_name created c2 ->
  ac_name c1 = ac_name c2 /\ (1 < same_name_count created (ac_name c1) -> sig_of c1 = sig_of c2).
Proof.
  intros [U1 V1] [U2 V2] E. unfold class_name in E.
  destruct (Nat.ltb_spec 1 (same_name_count created (ac_name c1))) as [L1|L1];
  destruct (Nat.ltb_spec 1 (same_name_count created (ac_name c2))) as [L2|L2].
  - destruct (us_split_inj _ _ _ _ U1 U2 E) as [En E']. destruct (us_split_inj _ _ _ _ V1 V2 E') as [El Er].
    split; auto. intros _. unfold sig_of. congruence.
  - exfalso. rewrite <- E in U2. rewrite has_us_app in U2. cbn in U2. rewrite orb_true_r in U2. discriminate.
  - exfalso. rewrite E in U1. rewrite has_us_app in U1. cbn in U1. rewrite orb_true_r in U1. discriminate.
  - split; auto. intros A. lia.
Qed.
Lemma NoDup_map_of_inj {A B} (f : A -> B) (l : list A) :
  NoDup l -> (forall x y, In x l -> In y l -> f x = f y -> x = y) -> NoDup (map f l).
Proof.
  induction l as [|a r IH]; intros N H; cbn; [constructor|]. inversion N; subst. constructor.
  - intros A0. apply in_map_iff in A0. destruct A0 as (y & E & Hy). assert (y = a) by (apply H; cbn; auto). subst. auto.
  - apply IH; auto. intros x y Hx Hy. apply H; right; auto.
Qed.
Theorem classes_distinct created :
  (forall c, In c created -> us_free c) -> NoDup (map sig_of created) ->
  (forall c1 c2, In c1 created -> In c2 created -> ac_name c1 = ac_name c2 -> same_name_count created (ac_name c1) <= 1 -> c1 = c2) ->
  NoDup (map (class_name created) created).
Proof.
  intros U N S. apply NoDup_map_of_inj.
  - eapply NoDup_map_inv. exact N.
  - intros x y Hx Hy E. destruct (class_name_inj created x y (U x Hx) (U y Hy) E) as [En Es].
    destruct (Nat.ltb_spec 1 (same_name_count created (ac_name x))) as [L1|L1].
    + apply (NoDup_map_inj sig_of created x y N Hx Hy). auto.
    + apply S; auto.
Qed.
Lemma single_name_unique created c1 c2 : In c1 created -> In c2 created -> NoDup created ->
  ac_name c1 = ac_name c2 -> same_name_count created (ac_name c1) <= 1 -> c1 = c2.
Proof.
  intros H1 H2 N E L. unfold same_name_count in L.
  set (p := fun c => seqb (ac_name c) (ac_name c1)) in *.
  assert (F1 : In c1 (filter p created)) by (apply filter_In; split; auto; unfold p; apply seqb_spec; auto).
  assert (F2 : In c2 (filter p created)) by (apply filter_In; split; auto; unfold p; apply seqb_spec; auto).
  destruct (filter p created) as [|a [|b r]]; cbn in *; try lia; try tauto.
  destruct F1 as [<-|[]], F2 as [<-|[]]. auto.
Qed.

(* the full statement "associations sharing a name remain distinguishable" fails for two associations that share their
   name AND both asset types: the second class replaces the first (known finding; see DESIGN.md) *)
Theorem same_signature_collapses_refuted :
  exists created c, NoDup created /\ In c created /\
    dget seqb (assoc_classes created) (class_name created c) <> Some (class_of c).
Proof.
  exists [mkAssoc "Pp" "Aa" "fa" 0 None "Bb" "fb" 0 None; mkAssoc "Pp" "Aa" "ga" 0 None "Bb" "gb" 0 None],
         (mkAssoc "Pp" "Aa" "fa" 0 None "Bb" "fb" 0 None).
  split; [|split; [left; auto|vm_compute; discriminate]].
  constructor; [intros [A|[]]; discriminate|constructor; [intros []|constructor]].
Qed.

(* ================= B. typed histories ================= *)
Section Typed.
Variable L : lang.
Variable created : list assocdecl.

Definition asset_ok (a : masset) : Prop :=
  has_asset L (ma_type a) = true /\
  forall d v, In (d, v) (ma_defs a) -> def_known L (ma_type a) d = true /\ in_range v = true.
Definition assoc_ok (s : mstate) (co : massoc) : Prop :=
  exists k, dget seqb (assoc_classes created) (mc_class co) = Some k /\
            mc_lfield co = fs_name (k_l k) /\ mc_rfield co = fs_name (k_r k) /\
            field_ok L s (k_l k) (mc_left co) = true /\ field_ok L s (k_r k) (mc_right co) = true /\
            (forall h, In h (mc_left co ++ mc_right co) -> h < m_na s).
Definition t2a_complete (s : mstate) : Prop :=
  forall c, In c (m_assocs s) -> exists l, dget seqb (m_type2assoc s) (mc_class (m_ch s c)) = Some l /\ In c l.
Definition no_shared_link (s : mstate) : Prop :=
  forall c1 c2 l r, In c1 (m_assocs s) -> In c2 (m_assocs s) -> c1 <> c2 ->
    mc_class (m_ch s c1) = mc_class (m_ch s c2) ->
    In l (mc_left (m_ch s c1)) -> In r (mc_right (m_ch s c1)) ->
    In l (mc_left (m_ch s c2)) -> In r (mc_right (m_ch s c2)) -> False.
Record TI (s : mstate) : Prop := mkTI {
  ti_assets : forall h, h < m_na s -> asset_ok (m_ah s h);
  ti_assocs : forall c, c < m_nc s -> assoc_ok s (m_ch s c);
  ti_t2a : t2a_complete s;
  ti_links : no_shared_link s }.

Lemma TI_init : TI minit.
Proof. constructor; cbn; intros; try lia; try contradiction. intros c []. intros c1 c2 l r []. Qed.

(* ---- states related by "nothing typed changes, associations only shrink" ---- *)
Definition same_td (ah ah' : nat -> masset) : Prop :=
  forall h, ma_type (ah' h) = ma_type (ah h) /\ ma_defs (ah' h) = ma_defs (ah h).
Definition assoc_shrinks (co co' : massoc) : Prop :=
  mc_class co' = mc_class co /\ mc_lfield co' = mc_lfield co /\ mc_rfield co' = mc_rfield co /\
  incl (mc_left co') (mc_left co) /\ List.length (mc_left co') <= List.length (mc_left co) /\
  incl (mc_right co') (mc_right co) /\ List.length (mc_right co') <= List.length (mc_right co).
Record Shr (s s' : mstate) : Prop := mkShr {
  sh_na : m_na s' = m_na s; sh_nc : m_nc s' = m_nc s;
  sh_asset : same_td (m_ah s) (m_ah s');
  sh_assoc : forall c, assoc_shrinks (m_ch s c) (m_ch s' c);
  sh_live : incl (m_assocs s') (m_assocs s);
  sh_t2a : forall c l, In c (m_assocs s') -> dget seqb (m_type2assoc s) (mc_class (m_ch s c)) = Some l -> In c l ->
             exists l', dget seqb (m_type2assoc s') (mc_class (m_ch s c)) = Some l' /\ In c l' }.

Lemma same_td_refl ah : same_td ah ah. Proof. intros h; auto. Qed.
Lemma same_td_trans a b c : same_td a b -> same_td b c -> same_td a c.
Proof. intros H1 H2 h. destruct (H1 h), (H2 h). split; congruence. Qed.
Lemma assoc_shrinks_refl co : assoc_shrinks co co.
Proof. repeat split; auto using incl_refl. Qed.
Lemma assoc_shrinks_trans a b c : assoc_shrinks a b -> assoc_shrinks b c -> assoc_shrinks a c.
Proof.
  intros (A1 & A2 & A3 & A4 & A5 & A6 & A7) (B1 & B2 & B3 & B4 & B5 & B6 & B7).
  repeat split; try congruence; try lia; eapply incl_tran; eauto.
Qed.
Lemma Shr_refl s : Shr s s.
Proof. constructor; auto using same_td_refl, assoc_shrinks_refl, incl_refl. intros c l _ H1 H2. eauto. Qed.
Lemma Shr_trans s1 s2 s3 : Shr s1 s2 -> Shr s2 s3 -> Shr s1 s3.
Proof.
  intros A B. constructor.
  - rewrite (sh_na _ _ B). apply A.
  - rewrite (sh_nc _ _ B). apply A.
  - eapply same_td_trans; [apply A|apply B].
  - intros c. eapply assoc_shrinks_trans; [apply A|apply B].
  - eapply incl_tran; [apply B|apply A].
  - intros c l Hc Hd Hl. assert (Hc2 : In c (m_assocs s2)) by (apply (sh_live _ _ B); auto).
    destruct (sh_t2a _ _ A c l Hc2 Hd Hl) as (l2 & Hd2 & Hl2).
    destruct (sh_assoc _ _ A c) as (Ecl & _). rewrite <- Ecl in Hd2.
    destruct (sh_t2a _ _ B c l2 Hc Hd2 Hl2) as (l3 & Hd3 & Hl3). rewrite Ecl in Hd3. eauto.
Qed.

Lemma field_ok_types s s' f ms ms' : (forall h, ma_type (m_ah s' h) = ma_type (m_ah s h)) -> incl ms' ms ->
  List.length ms' <= List.length ms -> field_ok L s f ms = true -> field_ok L s' f ms' = true.
Proof.
  intros T I Hl H. unfold field_ok in *. apply andb_true_iff in H. destruct H as [H1 H2]. apply andb_true_iff. split.
  - rewrite forallb_forall in *. intros h Hh. rewrite T. apply H1. auto.
  - destruct (fs_max f) as [m|]; auto. apply Z.leb_le in H2. apply Z.leb_le. lia.
Qed.
Lemma field_ok_shrink s s' f ms ms' : same_td (m_ah s) (m_ah s') -> incl ms' ms -> List.length ms' <= List.length ms ->
  field_ok L s f ms = true -> field_ok L s' f ms' = true.
Proof. intros T. apply field_ok_types. intros h. apply T. Qed.

Lemma TI_Shr s s' : TI s -> Shr s s' -> TI s'.
Proof.
  intros T S. constructor.
  - intros h Hh. rewrite (sh_na _ _ S) in Hh. destruct (ti_assets _ T h Hh) as [A1 A2]. destruct (sh_asset _ _ S h) as [E1 E2].
    split; [rewrite E1; auto|]. intros d v Hd. rewrite E2 in Hd. rewrite E1. auto.
  - intros c Hc. rewrite (sh_nc _ _ S) in Hc. destruct (ti_assocs _ T c Hc) as (k & K1 & K2 & K3 & K4 & K5 & K6).
    destruct (sh_assoc _ _ S c) as (E1 & E2 & E3 & E4 & E5 & E6 & E7).
    exists k. rewrite E1, E2, E3. repeat split; auto.
    + eapply field_ok_shrink; eauto. apply S.
    + eapply field_ok_shrink; eauto. apply S.
    + intros h Hh. rewrite (sh_na _ _ S). apply K6. apply in_app_or in Hh. apply in_or_app. destruct Hh; [left|right]; auto.
  - intros c Hc. assert (Hc0 : In c (m_assocs s)) by (apply (sh_live _ _ S); auto).
    destruct (ti_t2a _ T c Hc0) as (l & Hd & Hl). destruct (sh_t2a _ _ S c l Hc Hd Hl) as (l' & Hd' & Hl').
    destruct (sh_assoc _ _ S c) as (E1 & _). rewrite E1. eauto.
  - intros c1 c2 l r H1 H2 N Ec Hl1 Hr1 Hl2 Hr2.
    destruct (sh_assoc _ _ S c1) as (E1 & _ & _ & I1 & _ & I2 & _), (sh_assoc _ _ S c2) as (F1 & _ & _ & J1 & _ & J2 & _).
    apply (ti_links _ T c1 c2 l r); auto; try (apply (sh_live _ _ S); auto). congruence.
Qed.

(* a frame: heaps change without touching types, defenses, classes, fields; members shrink; the index is the same *)
Lemma Shr_frame s s' :
  m_na s' = m_na s -> m_nc s' = m_nc s -> same_td (m_ah s) (m_ah s') ->
  (forall c, assoc_shrinks (m_ch s c) (m_ch s' c)) ->
  m_assocs s' = m_assocs s -> m_type2assoc s' = m_type2assoc s -> Shr s s'.
Proof.
  intros E1 E2 T A E3 E4. constructor; auto.
  - rewrite E3. apply incl_refl.
  - intros c l _ Hd Hl. rewrite E4. eauto.
Qed.

Lemma upd_a_same_td ah o f : (forall x, ma_type (f x) = ma_type x /\ ma_defs (f x) = ma_defs x) -> same_td ah (upd_a ah o f).
Proof. intros H h. unfold upd_a. destruct (Nat.eqb h o); auto. Qed.
Lemma fold_upd_same_td (f : masset -> masset) (p : (nat -> masset) -> nat -> bool) :
  (forall x, ma_type (f x) = ma_type x /\ ma_defs (f x) = ma_defs x) ->
  forall l ah, same_td ah (fold_left (fun ah a => if p ah a then upd_a ah a f else ah) l ah).
Proof.
  intros H. induction l as [|a r IH]; intros ah; cbn [fold_left]; [apply same_td_refl|].
  eapply same_td_trans; [|apply IH]. destruct (p ah a); [apply upd_a_same_td; auto|apply same_td_refl].
Qed.
Lemma set_assocs_td x l : ma_type (a_set_assocs x l) = ma_type x /\ ma_defs (a_set_assocs x l) = ma_defs x.
Proof. split; reflexivity. Qed.

Lemma remove1_length x l : List.length (remove1 x l) <= List.length l.
Proof. induction l as [|y r IH]; cbn; auto. destruct (Nat.eqb x y); cbn; lia. Qed.
Lemma remove1_incl x l : incl (remove1 x l) l.
Proof. intros y Hy. eapply remove1_In; eauto. Qed.

(* ---- remove_association ---- *)
Lemma t2a_remove_keeps d cls c c' cls' l :
  c' <> c -> dget seqb d cls' = Some l -> In c' l ->
  exists l', dget seqb (t2a_remove d cls c) cls' = Some l' /\ In c' l'.
Proof.
  intros N Hd Hl. unfold t2a_remove. destruct (dget seqb d cls) as [l0|] eqn:E0; [|eauto].
  destruct (seqb cls' cls) eqn:Ec.
  - apply seqb_spec in Ec. subst cls'. rewrite E0 in Hd. inversion Hd; subst l0.
    assert (Hin : In c' (remove1 c l)) by (apply remove1_In_neq; auto).
    destruct (remove1 c l) as [|y r] eqn:Er; [destruct Hin|].
    rewrite (dget_dset_same seqb seqb_spec). eauto.
  - assert (Nc : cls' <> cls) by (intros ->; rewrite (keqb_refl seqb seqb_spec) in Ec; discriminate).
    destruct (remove1 c l0); [rewrite (dget_ddel_other seqb seqb_spec)|rewrite (dget_dset_other seqb seqb_spec)]; eauto.
Qed.
Lemma Shr_remove_association s c : NoDup (m_assocs s) -> Shr s (fst (remove_association s c)).
Proof.
  intros N. unfold remove_association. destruct (memn c (m_assocs s)) eqn:E; cbn [negb fst]; [|apply Shr_refl].
  constructor; cbn; auto.
  - eapply same_td_trans.
    + apply (fold_upd_same_td (fun x => a_set_assocs x (remove1 c (ma_assocs x))) (fun _ _ => true)). intros; apply set_assocs_td.
    + apply (fold_upd_same_td (fun x => a_set_assocs x (remove1 c (ma_assocs x))) (fun ah a => memn c (ma_assocs (ah a)))). intros; apply set_assocs_td.
  - intros c0. apply assoc_shrinks_refl.
  - apply remove1_incl.
  - intros c' l Hc' Hd Hl. apply t2a_remove_keeps with (l := l); auto.
    intros ->. revert Hc'. apply remove1_NoDup_nIn. auto.
Qed.

(* ---- remove_asset_from_association ---- *)
Lemma Shr_set_members s ch' ah' :
  same_td (m_ah s) ah' -> (forall c, assoc_shrinks (m_ch s c) (ch' c)) -> Shr s (with_heaps s ah' ch' (m_th s)).
Proof. intros T A. apply Shr_frame; cbn; auto. Qed.
Lemma shrink_left co h : assoc_shrinks co (c_set_left co (remove1 h (mc_left co))).
Proof. repeat split; cbn; auto using incl_refl, remove1_incl, remove1_length. Qed.
Lemma shrink_right co h : assoc_shrinks co (c_set_right co (remove1 h (mc_right co))).
Proof. repeat split; cbn; auto using incl_refl, remove1_incl, remove1_length. Qed.
Lemma upd_c_shrinks ch c f : (forall x, assoc_shrinks x (f x)) -> forall c0, assoc_shrinks (ch c0) (upd_c ch c f c0).
Proof. intros H c0. unfold upd_c. destruct (Nat.eqb c0 c); auto using assoc_shrinks_refl. Qed.

Lemma Shr_rfa s h c : NoDup (m_assocs s) -> Shr s (fst (remove_asset_from_association s h c)).
Proof.
  intros N. unfold remove_asset_from_association.
  destruct (memn h (m_assets s)); cbn [negb]; [|apply Shr_refl].
  destruct (memn c (m_assocs s)); cbn [negb]; [|apply Shr_refl].
  set (ch1 := upd_c (m_ch s) c (fun x => c_set_left x (remove1 h (mc_left x)))).
  assert (S1 : Shr s (with_heaps s (m_ah s) ch1 (m_th s))).
  { apply Shr_set_members; [apply same_td_refl|]. apply upd_c_shrinks. intros x. apply shrink_left. }
  destruct (memn h (mc_left (m_ch s c))).
  - destruct (Nat.eqb (List.length (mc_left (m_ch s c))) 1); [apply Shr_remove_association; auto|].
    destruct (memn h (mc_right (m_ch s c))).
    + destruct (Nat.eqb (List.length (mc_right (m_ch s c))) 1).
      * eapply Shr_trans; [exact S1|]. apply Shr_remove_association. cbn. auto.
      * cbn [fst]. apply Shr_set_members; [apply upd_a_same_td; intros; apply set_assocs_td|].
        intros c0. eapply assoc_shrinks_trans; [apply (upd_c_shrinks (m_ch s) c (fun x => c_set_left x (remove1 h (mc_left x)))); intros x; apply shrink_left|].
        apply upd_c_shrinks. intros x. apply shrink_right.
    + cbn [fst]. apply Shr_set_members; [apply upd_a_same_td; intros; apply set_assocs_td|].
      apply upd_c_shrinks. intros x. apply shrink_left.
  - destruct (memn h (mc_right (m_ch s c))); [|apply Shr_refl].
    destruct (Nat.eqb (List.length (mc_right (m_ch s c))) 1); [apply Shr_remove_association; auto|].
    cbn [fst]. apply Shr_set_members; [apply upd_a_same_td; intros; apply set_assocs_td|].
    apply upd_c_shrinks. intros x. apply shrink_right.
Qed.

(* ---- remove_asset ---- *)
Lemma Shr_rfa_loop h : forall l s, MI s ->
  let r := fold_left (fun '(st, oc) c => match oc with MOk => remove_asset_from_association st h c | _ => (st, oc) end) l (s, MOk) in
  Shr s (fst r) /\ MI (fst r).
Proof.
  assert (G : forall l s oc, MI s ->
     let r := fold_left (fun '(st, oc) c => match oc with MOk => remove_asset_from_association st h c | _ => (st, oc) end) l (s, oc) in
     Shr s (fst r) /\ MI (fst r)).
  { induction l as [|c r IH]; intros s oc I; cbn [fold_left]; [cbn; split; [apply Shr_refl|auto]|].
    destruct oc; try (apply IH; auto).
    destruct (remove_asset_from_association s h c) as [s1 oc1] eqn:E.
    assert (S1 : Shr s s1) by (pose proof (Shr_rfa s h c (mi_nodup_assocs s I)) as P; rewrite E in P; exact P).
    assert (I1 : MI s1) by (pose proof (MI_rfa s h c I) as P; rewrite E in P; exact P).
    destruct (IH s1 oc1 I1) as [S2 I2]. split; auto. eapply Shr_trans; eauto. }
  intros l s I. apply G. auto.
Qed.
Lemma Shr_remove_asset s h : MI s -> Shr s (fst (remove_asset s h)).
Proof.
  intros I. unfold remove_asset. destruct (memn h (m_assets s)); cbn [negb]; [|apply Shr_refl].
  destruct (Shr_rfa_loop h (ma_assocs (m_ah s h)) s I) as [S1 I1]. cbn zeta in S1, I1.
  destruct (fold_left _ (ma_assocs (m_ah s h)) (s, MOk)) as [s1 oc]. cbn [fst] in S1, I1.
  destruct oc; cbn [fst]; auto.
  eapply Shr_trans; [exact S1|]. apply Shr_frame; cbn; auto using same_td_refl, assoc_shrinks_refl.
Qed.

(* ---- add_asset ---- *)
Lemma Shr_add_asset s h i allow : Shr s (fst (add_asset s h i allow)).
Proof.
  unfold add_asset.
  assert (T : forall ah o f, same_td (m_ah s) ah -> (forall x, ma_type (f x) = ma_type x /\ ma_defs (f x) = ma_defs x) -> same_td (m_ah s) (upd_a ah o f)).
  { intros ah o f T0 Hf. eapply same_td_trans; [exact T0|apply upd_a_same_td; auto]. }
  assert (F : forall x v, ma_type (a_set_id x v) = ma_type x /\ ma_defs (a_set_id x v) = ma_defs x) by (split; reflexivity).
  assert (G : forall x v, ma_type (a_set_name x v) = ma_type x /\ ma_defs (a_set_name x v) = ma_defs x) by (split; reflexivity).
  set (i0 := match i with Some i1 => i1 | None => m_next s end).
  set (ah1 := upd_a (m_ah s) h (fun a => a_set_id a (Some i0))).
  assert (T1 : same_td (m_ah s) ah1) by (apply T; [apply same_td_refl|intros; apply F]).
  destruct (memzl i0 (m_ids s)); cbn [fst]; [apply Shr_frame; cbn; auto using assoc_shrinks_refl|].
  set (ah2 := upd_a ah1 h (fun a => a_set_assocs a [])).
  assert (T2 : same_td (m_ah s) ah2) by (apply T; [exact T1|intros; apply set_assocs_td]).
  set (name0 := match ma_name (ah2 h) with Some n => n | None => _ end).
  set (ah3 := upd_a ah2 h (fun a => a_set_name a (Some name0))).
  assert (T3 : same_td (m_ah s) ah3) by (apply T; [exact T2|intros; apply G]).
  destruct (mems name0 (m_names s)).
  - destruct allow.
    + destruct (fresh_name _ _ _ _) as [name1|]; cbn [fst]; [|apply Shr_refl].
      apply Shr_frame; cbn; auto using assoc_shrinks_refl.
    + cbn [fst]. apply Shr_frame; cbn; auto using assoc_shrinks_refl.
  - cbn [fst]. apply Shr_frame; cbn; auto using assoc_shrinks_refl.
Qed.

(* ---- add_association ---- *)
Lemma opt_eqb_Z_refl o : opt_eqb Z.eqb o o = true.
Proof. destruct o; cbn; auto. apply Z.eqb_refl. Qed.
Lemma t2a_add_keeps d cls c c' cls' l : dget seqb d cls' = Some l -> In c' l ->
  exists l', dget seqb (t2a_add d cls c) cls' = Some l' /\ In c' l'.
Proof.
  intros Hd Hl. unfold t2a_add. destruct (seqb cls' cls) eqn:Ec.
  - apply seqb_spec in Ec. subst cls'. rewrite Hd. rewrite (dget_dset_same seqb seqb_spec). exists (l ++ [c]). split; auto. apply in_or_app; auto.
  - assert (Nc : cls' <> cls) by (intros ->; rewrite (keqb_refl seqb seqb_spec) in Ec; discriminate).
    destruct (dget seqb d cls); rewrite (dget_dset_other seqb seqb_spec); eauto.
Qed.
Lemma t2a_add_self d cls c : exists l', dget seqb (t2a_add d cls c) cls = Some l' /\ In c l'.
Proof.
  unfold t2a_add. destruct (dget seqb d cls) as [l|]; rewrite (dget_dset_same seqb seqb_spec).
  - exists (l ++ [c]). split; auto. apply in_or_app. right; left; auto.
  - exists [c]. split; auto. left; auto.
Qed.
Lemma fold_addref_td c : forall l ah,
  same_td ah (fold_left (fun ah a => if memn c (ma_assocs (ah a)) then ah else upd_a ah a (fun x => a_set_assocs x (ma_assocs x ++ [c]))) l ah).
Proof.
  induction l as [|a r IH]; intros ah; cbn [fold_left]; [apply same_td_refl|].
  eapply same_td_trans; [|apply IH]. destruct (memn c (ma_assocs (ah a))); [apply same_td_refl|].
  apply upd_a_same_td. intros; apply set_assocs_td.
Qed.

Lemma TI_add_association s c : TI s -> c < m_nc s -> ~ In c (m_assocs s) -> TI (fst (add_association s c)).
Proof.
  intros T Lc Nc. unfold add_association.
  destruct (memn c _); cbn [fst]; auto.
  destruct (negb _); cbn [fst]; auto.
  destruct (existsb _ (mc_left (m_ch s c))) eqn:Ex; cbn [fst]; auto.
  set (addref := fun ah a => if memn c (ma_assocs (ah a)) then ah else upd_a ah a (fun x => a_set_assocs x (ma_assocs x ++ [c]))).
  set (ah2 := fold_left addref (mc_right (m_ch s c)) (fold_left addref (mc_left (m_ch s c)) (m_ah s))).
  assert (Td : same_td (m_ah s) ah2).
  { eapply same_td_trans; [apply (fold_addref_td c)|apply (fold_addref_td c)]. }
  set (ch1 := upd_c (m_ch s) c (fun x => c_set_extras x (JDict []))).
  assert (Ech : forall c0, mc_class (ch1 c0) = mc_class (m_ch s c0) /\ mc_lfield (ch1 c0) = mc_lfield (m_ch s c0) /\
                           mc_rfield (ch1 c0) = mc_rfield (m_ch s c0) /\ mc_left (ch1 c0) = mc_left (m_ch s c0) /\
                           mc_right (ch1 c0) = mc_right (m_ch s c0)).
  { intros c0. unfold ch1, upd_c. destruct (Nat.eqb c0 c) eqn:E; [apply Nat.eqb_eq in E; subst|]; cbn; auto. }
  constructor; unfold t2a_complete, no_shared_link; cbn [m_na m_nc m_ah m_ch m_assocs m_type2assoc].
  - intros h Hh. destruct (ti_assets _ T h Hh) as [A1 A2]. destruct (Td h) as [E1 E2]. split; [rewrite E1; auto|].
    intros d v Hd. rewrite E2 in Hd. rewrite E1. auto.
  - intros c0 Hc0. destruct (ti_assocs _ T c0 Hc0) as (k & K1 & K2 & K3 & K4 & K5 & K6).
    destruct (Ech c0) as (E1 & E2 & E3 & E4 & E5). exists k. rewrite E1, E2, E3, E4, E5. repeat split; auto.
    + eapply field_ok_shrink; [| apply incl_refl | apply Nat.le_refl | exact K4]. exact Td.
    + eapply field_ok_shrink; [| apply incl_refl | apply Nat.le_refl | exact K5]. exact Td.
  - intros c0 Hc0. apply In_app_single in Hc0. destruct (Ech c0) as (E1 & _). rewrite E1.
    destruct (Ech c) as (F1 & _). destruct Hc0 as [Hc0| ->].
    + destruct (ti_t2a _ T c0 Hc0) as (l & Hd & Hl). eapply t2a_add_keeps; eauto.
    + apply t2a_add_self.
  - intros c1 c2 l r H1 H2 N Ec Hl1 Hr1 Hl2 Hr2.
    destruct (Ech c1) as (E1 & _ & _ & E4 & E5), (Ech c2) as (F1 & _ & _ & F4 & F5).
    rewrite E4 in Hl1. rewrite E5 in Hr1. rewrite F4 in Hl2. rewrite F5 in Hr2. rewrite E1, F1 in Ec.
    apply In_app_single in H1, H2.
    assert (NEW : forall c', In c' (m_assocs s) -> mc_class (m_ch s c') = mc_class (m_ch s c) ->
                   In l (mc_left (m_ch s c')) -> In r (mc_right (m_ch s c')) ->
                   In l (mc_left (m_ch s c)) -> In r (mc_right (m_ch s c)) -> False).
    { intros c' Hc' Ecl A1 A2 B1 B2.
      assert (X : existsb (fun l0 => existsb (fun r0 => assoc_exists_between s (mc_class (m_ch s c)) l0 r0) (mc_right (m_ch s c))) (mc_left (m_ch s c)) = true).
      { apply existsb_exists. exists l. split; auto. apply existsb_exists. exists r. split; auto.
        unfold assoc_exists_between. destruct (ti_t2a _ T c' Hc') as (cs & Hd & Hin). rewrite Ecl in Hd. rewrite Hd.
        apply existsb_exists. exists c'. split; auto. apply andb_true_iff. split; apply existsb_exists.
        - exists (ma_id (m_ah s l)). split; [unfold ids_of; apply in_map_iff; eauto|apply opt_eqb_Z_refl].
        - exists (ma_id (m_ah s r)). split; [unfold ids_of; apply in_map_iff; eauto|apply opt_eqb_Z_refl]. }
      rewrite X in Ex. discriminate. }
    destruct H1 as [H1| ->], H2 as [H2| ->].
    + apply (ti_links _ T c1 c2 l r); auto.
    + apply (NEW c1); auto.
    + apply (NEW c2); auto.
    + congruence.
Qed.

(* ---- one step of ModelOps preserves TI, except the two constructors (handled by tstep) ---- *)
Lemma Shr_attackers s th' atts' next' nt' :
  Shr s (mkM (m_ah s) (m_ch s) th' (m_na s) (m_nc s) nt' (m_assets s) (m_assocs s) atts' (m_ids s) (m_names s) (m_type2assoc s) next').
Proof. apply Shr_frame; cbn; auto using same_td_refl, assoc_shrinks_refl. Qed.

Definition is_ctor (o : mop) : bool := match o with MNewAsset _ _ _ _ | MNewAssoc _ _ _ _ _ => true | _ => false end.
Lemma mstep_TI s o : MI s -> TI s -> is_ctor o = false -> TI (fst (fst (mstep s o))).
Proof.
  intros I T Hc. unfold mstep. destruct (mguard s o) eqn:G; cbn [negb]; [|auto].
  destruct o; cbn [is_ctor] in Hc; try discriminate; cbn [mguard] in G.
  - (* MAddAsset *) pose proof (Shr_add_asset s h i allow_dup) as P. destruct (add_asset s h i allow_dup). cbn in *. eapply TI_Shr; eauto.
  - (* MRemoveAsset *) pose proof (Shr_remove_asset s h I) as P. destruct (remove_asset s h). cbn in *. eapply TI_Shr; eauto.
  - (* MAddAssoc *)
    apply andb_true_iff in G. destruct G as [G _]. apply andb_true_iff in G. destruct G as [G _].
    apply andb_true_iff in G. destruct G as [G1 G2]. apply Nat.ltb_lt in G1. apply negb_true_iff in G2.
    assert (N : ~ In c (m_assocs s)) by (intros A; apply memn_In in A; unfold live_assoc in G2; congruence).
    pose proof (TI_add_association s c T G1 N) as P. destruct (add_association s c). exact P.
  - (* MRemoveAssoc *) pose proof (Shr_remove_association s c (mi_nodup_assocs s I)) as P. destruct (remove_association s c). cbn in *. eapply TI_Shr; eauto.
  - (* MRemoveFromAssoc *) pose proof (Shr_rfa s h c (mi_nodup_assocs s I)) as P. destruct (remove_asset_from_association s h c). cbn in *. eapply TI_Shr; eauto.
  - (* MSetAssocExtras *) cbn. eapply TI_Shr; eauto. apply Shr_frame; cbn; auto using same_td_refl.
    intros c0. unfold upd_c. destruct (Nat.eqb c0 c); [repeat split; cbn; auto using incl_refl|apply assoc_shrinks_refl].
  - (* MNewAtt *) cbn. eapply TI_Shr; eauto. apply Shr_attackers.
  - (* MAddAtt *) cbn. unfold add_attacker. eapply TI_Shr; eauto. apply Shr_attackers.
  - (* MRemoveAtt *) unfold remove_attacker. destruct (remove_first_equal _ _ _); cbn; auto. eapply TI_Shr; eauto. apply Shr_attackers.
  - (* MAddEntry *) cbn. unfold add_entry_point, with_heaps. eapply TI_Shr; eauto. apply Shr_attackers.
  - (* MRemoveEntry *) cbn. unfold remove_entry_point, with_heaps. eapply TI_Shr; eauto. apply Shr_attackers.
  - cbn; auto.
  - cbn; auto.
  - cbn; auto.
Qed.

(* ---- the constructors ---- *)
Lemma In_dset_inv (d : list (string * Z)) k v k' v' : In (k', v') (dset seqb d k v) -> (k' = k /\ v' = v) \/ In (k', v') d.
Proof.
  induction d as [|[k0 v0] r IH]; cbn.
  - intros [E|[]]. inversion E; auto.
  - destruct (seqb k k0) eqn:E; cbn.
    + apply seqb_spec in E. subst k0. intros [E1|H]; [inversion E1; auto|auto].
    + intros [E1|H]; [auto|]. destruct (IH H); auto.
Qed.
Lemma fill_defs_ok t given : (forall dv, In dv given -> in_range (snd dv) = true) ->
  forall d v, In (d, v) (fill_defs L t given) -> def_known L t d = true /\ in_range v = true.
Proof.
  intros Hg d v H. unfold fill_defs in H. apply in_map_iff in H. destruct H as ([d0 v0] & E & Hin). cbn in E. inversion E; subst. split.
  - unfold def_known. destruct (dget seqb (class_defenses L t) d) eqn:Ed; auto.
    apply (dget_None_notin seqb seqb_spec) in Ed. exfalso. apply Ed. unfold dkeys. apply in_map_iff. exists (d, v0). auto.
  - destruct (dget seqb given d) as [v1|] eqn:Eg.
    + assert (Hin1 : In (d, v1) given).
      { clear - Eg. induction given as [|[k x] r IH]; cbn in Eg; [discriminate|]. destruct (seqb d k) eqn:E.
        - apply seqb_spec in E. inversion Eg; subst. left; auto.
        - right; auto. }
      apply (Hg _ Hin1).
    + apply class_defenses_spec in Hin. destruct Hin as (steps & sd & _ & _ & _ & ->).
      destruct (default_of_cases sd) as [[-> _]|[-> _]]; reflexivity.
Qed.

Lemma lift_state r : fst (fst (lift r)) = fst (fst r).
Proof. destruct r as [[s oc] rt]. reflexivity. Qed.

Theorem tstep_MI s o : MI s -> MI (fst (fst (tstep L created s o))).
Proof.
  intros I. destruct o as [o|h d v]; cbn [tstep].
  - destruct o; try (rewrite lift_state; apply mstep_MI; auto).
    + destruct (negb (has_asset L type)); [cbn; auto|]. destruct (negb (forallb _ defs)); [cbn; auto|].
      destruct (negb (forallb _ defs)); [cbn; auto|]. rewrite lift_state. apply mstep_MI; auto.
    + destruct (dget seqb (assoc_classes created) cls); [|cbn; auto].
      destruct (negb (_ && _ && _)); [cbn; auto|]. destruct (negb (_ && _)); [cbn; auto|]. rewrite lift_state. apply mstep_MI; auto.
  - destruct (negb (_ && _)); [cbn; auto|]. destruct (negb (in_range v)); [cbn; auto|].
    (* only ma_defs of one asset changes *)
    set (ah' := upd_a (m_ah s) h (fun a => a_set_defs a (dset seqb (ma_defs a) d v))).
    assert (E : forall x, ma_id (ah' x) = ma_id (m_ah s x) /\ ma_name (ah' x) = ma_name (m_ah s x) /\ ma_assocs (ah' x) = ma_assocs (m_ah s x)).
    { intros x. unfold ah', upd_a. destruct (Nat.eqb x h); cbn; auto. }
    constructor; cbn; try apply I.
    + rewrite <- (mi_ids s I). apply map_ext. intros x. unfold id_of. cbn. apply E.
    + rewrite <- (mi_names s I). apply map_ext. intros x. unfold name_of. cbn. apply E.
    + intros h0 c Hh. destruct (E h0) as (_ & _ & ->). apply (mi_backrefs s I); auto.
    + intros h0 Hh. destruct (E h0) as (_ & _ & ->). apply (mi_backrefs_nodup s I); auto.
Qed.

Theorem tstep_TI s o : MI s -> TI s -> TI (fst (fst (tstep L created s o))).
Proof.
  intros I T. destruct o as [o|h d v]; cbn [tstep].
  - destruct o; try (rewrite lift_state; apply mstep_TI; auto; reflexivity).
    + (* MNewAsset *)
      destruct (has_asset L type) eqn:Eh; cbn [negb]; [|cbn; auto].
      destruct (forallb _ defs) eqn:Ek; cbn [negb]; [|cbn; auto].
      destruct (forallb (fun dv => in_range (snd dv)) defs) eqn:Er; cbn [negb]; [|cbn; auto].
      rewrite lift_state. unfold mstep. cbn [mguard negb]. cbn [fst].
      rewrite forallb_forall in Er.
      constructor; cbn.
      * intros h Hh. unfold upd_a. destruct (Nat.eqb_spec h (m_na s)) as [->|N].
        -- split; cbn; auto. apply fill_defs_ok. exact Er.
        -- apply (ti_assets _ T). lia.
      * intros c Hc. destruct (ti_assocs _ T c Hc) as (k & K1 & K2 & K3 & K4 & K5 & K6). exists k. repeat split; auto.
        -- unfold field_ok in *. apply andb_true_iff in K4. destruct K4 as [K4 K4']. apply andb_true_iff. split; auto.
           rewrite forallb_forall in *. intros h Hh. cbn. unfold upd_a.
           assert (h < m_na s) by (apply K6; apply in_or_app; auto). destruct (Nat.eqb_spec h (m_na s)); [lia|]. apply K4; auto.
        -- unfold field_ok in *. apply andb_true_iff in K5. destruct K5 as [K5 K5']. apply andb_true_iff. split; auto.
           rewrite forallb_forall in *. intros h Hh. cbn. unfold upd_a.
           assert (h < m_na s) by (apply K6; apply in_or_app; auto). destruct (Nat.eqb_spec h (m_na s)); [lia|]. apply K5; auto.
        -- intros h Hh. specialize (K6 h Hh). cbn [m_na]. lia.
      * apply T.
      * apply T.
    + (* MNewAssoc *)
      destruct (dget seqb (assoc_classes created) cls) as [k|] eqn:Ek; [|cbn; auto].
      destruct (seqb lf (fs_name (k_l k)) && seqb rf (fs_name (k_r k)) && mguard s (MNewAssoc cls lf left rf right)) eqn:Eg; cbn [negb]; [|cbn; auto].
      destruct (field_ok L s (k_l k) left && field_ok L s (k_r k) right) eqn:Ef; cbn [negb]; [|cbn; auto].
      rewrite lift_state. unfold mstep.
      apply andb_true_iff in Eg. destruct Eg as [Eg G]. rewrite G. cbn [negb fst].
      apply andb_true_iff in Eg. destruct Eg as [E1 E2]. apply seqb_spec in E1, E2.
      apply andb_true_iff in Ef. destruct Ef as [F1 F2].
      cbn [mguard] in G. apply andb_true_iff in G. destruct G as [G _]. apply andb_true_iff in G. destruct G as [G1 G2].
      rewrite forallb_forall in G1, G2.
      assert (OTHER : forall c, In c (m_assocs s) -> upd_c (m_ch s) (m_nc s) (fun _ => mkMAssoc cls lf left rf right JNull) c = m_ch s c).
      { intros c Hc. pose proof (mi_alloc_c s I c Hc). unfold upd_c. destruct (Nat.eqb_spec c (m_nc s)); [lia|auto]. }
      constructor; unfold t2a_complete, no_shared_link; cbn.
      * apply T.
      * intros c Hc. unfold upd_c. destruct (Nat.eqb_spec c (m_nc s)) as [->|N].
        -- exists k. cbn. repeat split; auto. intros h Hh. apply (mi_alloc_a s I). apply memn_In.
           apply in_app_or in Hh. destruct Hh; [apply G1|apply G2]; auto.
        -- apply (ti_assocs _ T). lia.
      * intros c Hc. rewrite OTHER by auto. apply (ti_t2a _ T); auto.
      * intros c1 c2 l r H1 H2. rewrite !OTHER by auto. apply (ti_links _ T); auto.
  - (* TSetDef *)
    destruct (Nat.ltb h (m_na s) && def_known L (ma_type (m_ah s h)) d) eqn:Eg; cbn [negb]; [|cbn; auto].
    destruct (in_range v) eqn:Er; cbn [negb]; [|cbn; auto].
    apply andb_true_iff in Eg. destruct Eg as [Eg1 Eg2]. apply Nat.ltb_lt in Eg1. cbn [fst].
    constructor; cbn.
    + intros h0 Hh0. unfold upd_a. destruct (Nat.eqb_spec h0 h) as [->|N]; [|apply (ti_assets _ T); auto].
      destruct (ti_assets _ T h Hh0) as [A1 A2]. split; cbn; auto.
      intros d0 v0 Hd. apply In_dset_inv in Hd. destruct Hd as [[-> ->]|Hd]; auto.
    + intros c Hc. destruct (ti_assocs _ T c Hc) as (k & K1 & K2 & K3 & K4 & K5 & K6). exists k. repeat split; auto.
      * eapply field_ok_types; [| apply incl_refl | apply Nat.le_refl | exact K4]. intros h0. cbn. unfold upd_a. destruct (Nat.eqb h0 h); reflexivity.
      * eapply field_ok_types; [| apply incl_refl | apply Nat.le_refl | exact K5]. intros h0. cbn. unfold upd_a. destruct (Nat.eqb h0 h); reflexivity.
    + apply T.
    + apply T.
Qed.

Theorem reachable_typed ops : MI (tsteps L created minit ops) /\ TI (tsteps L created minit ops).
Proof.
  unfold tsteps. generalize minit MI_init TI_init.
  induction ops as [|o r IH]; intros s I T; cbn [fold_left]; auto.
  apply IH; [apply tstep_MI|apply tstep_TI]; auto.
Qed.
Lemma trun_tsteps ops : fst (trun L created ops) = tsteps L created minit ops.
Proof.
  unfold trun, tsteps.
  assert (G : forall l s (outs : list (Z * mret)),
    fst (fold_left (fun '(s, outs) o => let '(s', oc, r) := tstep L created s o in (s', outs ++ [(oc, r)])) l (s, outs))
    = fold_left (fun s o => fst (fst (tstep L created s o))) l s).
  { induction l as [|o r IH]; intros s outs; cbn [fold_left]; auto.
    destruct (tstep L created s o) as [[s' oc] rt] eqn:E. rewrite IH. reflexivity. }
  apply G.
Qed.
End Typed.

(* ================= C. the statements of C06 about models ================= *)
Section Facing.
Variable L : lang.
Variable created : list assocdecl.

Definition zrange (v : Z) : Prop := (0 <= v <= 1024)%Z.
Lemma in_range_spec v : in_range v = true <-> zrange v.
Proof. unfold in_range, zrange. rewrite andb_true_iff, !Z.leb_le. tauto. Qed.

Definition field_allowed (s : mstate) (ty : string) (mx : option Z) (ms : list nat) : Prop :=
  (forall h, In h ms -> In h (m_assets s) /\ is_subasset_of L (ma_type (m_ah s h)) ty = true) /\
  (forall m, max_items mx = Some m -> (Z.of_nat (List.length ms) <= m)%Z) /\ NoDup ms.

(* whatever the history of attempts, the model holds only what the language allows *)
Theorem model_holds_only_allowed ops : let s := fst (trun L created ops) in
  (forall h, h < m_na s -> has_asset L (ma_type (m_ah s h)) = true /\
     forall d v, In (d, v) (ma_defs (m_ah s h)) -> def_known L (ma_type (m_ah s h)) d = true /\ zrange v) /\
  (forall c, In c (m_assocs s) -> exists a, In a created /\ mc_class (m_ch s c) = class_name created a /\
     mc_lfield (m_ch s c) = ac_lfield a /\ mc_rfield (m_ch s c) = ac_rfield a /\
     field_allowed s (ac_lasset a) (ac_lmax a) (mc_left (m_ch s c)) /\
     field_allowed s (ac_rasset a) (ac_rmax a) (mc_right (m_ch s c))) /\
  (forall c1 c2 l r, In c1 (m_assocs s) -> In c2 (m_assocs s) -> c1 <> c2 -> mc_class (m_ch s c1) = mc_class (m_ch s c2) ->
     In l (mc_left (m_ch s c1)) -> In r (mc_right (m_ch s c1)) -> In l (mc_left (m_ch s c2)) -> In r (mc_right (m_ch s c2)) -> False).
Proof.
  cbn zeta. rewrite trun_tsteps. destruct (reachable_typed L created ops) as [I T].
  set (s := tsteps L created minit ops) in *. split; [|split].
  - intros h Hh. destruct (ti_assets _ _ _ T h Hh) as [A1 A2]. split; auto. intros d v Hd. destruct (A2 d v Hd). split; auto. apply in_range_spec; auto.
  - intros c Hc. destruct (ti_assocs _ _ _ T c (mi_alloc_c s I c Hc)) as (k & K1 & K2 & K3 & K4 & K5 & K6).
    destruct (assoc_classes_sound _ _ _ K1) as (a & Ha & En & ->). exists a. cbn in K2, K3. repeat split; auto.
    + apply (mi_members_live s I c); auto. unfold members. apply in_or_app; auto.
    + unfold field_ok in K4. apply andb_true_iff in K4. destruct K4 as [K4 _]. rewrite forallb_forall in K4. apply K4; auto.
    + intros m Hm. unfold field_ok in K4. apply andb_true_iff in K4. destruct K4 as [_ K4]. cbn in K4. rewrite Hm in K4. apply Z.leb_le; auto.
    + apply (mi_fields_nodup s I c Hc).
    + apply (mi_members_live s I c); auto. unfold members. apply in_or_app; auto.
    + unfold field_ok in K5. apply andb_true_iff in K5. destruct K5 as [K5 _]. rewrite forallb_forall in K5. apply K5; auto.
    + intros m Hm. unfold field_ok in K5. apply andb_true_iff in K5. destruct K5 as [_ K5]. cbn in K5. rewrite Hm in K5. apply Z.leb_le; auto.
    + apply (mi_fields_nodup s I c Hc).
  - apply (ti_links _ _ _ T).
Qed.

(* ---- each kind of invalid attempt is rejected and leaves the state as it was ---- *)
Theorem reject_defense_at_construction s ty nm given ex :
  has_asset L ty = true -> forallb (fun dv => def_known L ty (fst dv)) given = true ->
  (exists d v, In (d, v) given /\ ~ zrange v) ->
  tstep L created s (TBase (MNewAsset ty nm given ex)) = (s, 6%Z, MRNone).
Proof.
  intros H1 H2 (d & v & Hin & Hv). cbn [tstep]. rewrite H1, H2. cbn [negb].
  assert (E : forallb (fun dv => in_range (snd dv)) given = false).
  { destruct (forallb (fun dv : string * Z => in_range (snd dv)) given) eqn:E; auto. rewrite forallb_forall in E.
    specialize (E _ Hin). cbn in E. apply in_range_spec in E. contradiction. }
  rewrite E. reflexivity.
Qed.
Theorem reject_defense_assignment s h d v :
  h < m_na s -> def_known L (ma_type (m_ah s h)) d = true -> ~ zrange v ->
  tstep L created s (TSetDef h d v) = (s, 6%Z, MRNone).
Proof.
  intros H1 H2 Hv. cbn [tstep]. apply Nat.ltb_lt in H1. rewrite H1, H2. cbn [andb negb].
  destruct (in_range v) eqn:E; [apply in_range_spec in E; contradiction|reflexivity].
Qed.
Lemma forallb_false_witness {A} (p : A -> bool) l : forallb p l = false -> exists x, In x l /\ p x = false.
Proof.
  induction l as [|a r IH]; cbn; [discriminate|]. destruct (p a) eqn:E; cbn.
  - intros H. destruct (IH H) as (x & Hx & Ex). exists x. auto.
  - intros _. exists a. auto.
Qed.
Theorem field_ok_false_iff s f ms : field_ok L s f ms = false <->
  (exists h, In h ms /\ is_subasset_of L (ma_type (m_ah s h)) (fs_type f) = false) \/
  (exists m, fs_max f = Some m /\ (m < Z.of_nat (List.length ms))%Z).
Proof.
  unfold field_ok. rewrite andb_false_iff. split.
  - intros [H|H].
    + left. destruct (forallb_false_witness _ _ H) as (h & Hh & Eh). eauto.
    + right. destruct (fs_max f) as [m|]; [|discriminate]. exists m. split; auto. apply Z.leb_gt in H. auto.
  - intros [(h & Hh & Eh)|(m & Em & Hm)].
    + left. destruct (forallb _ ms) eqn:E; auto. rewrite forallb_forall in E. rewrite (E h Hh) in Eh. discriminate.
    + right. rewrite Em. apply Z.leb_gt. auto.
Qed.
Theorem reject_illtyped_or_too_many s cls lf l rf r k :
  dget seqb (assoc_classes created) cls = Some k ->
  lf = fs_name (k_l k) -> rf = fs_name (k_r k) -> mguard s (MNewAssoc cls lf l rf r) = true ->
  field_ok L s (k_l k) l = false \/ field_ok L s (k_r k) r = false ->
  tstep L created s (TBase (MNewAssoc cls lf l rf r)) = (s, 6%Z, MRNone).
Proof.
  intros Hk -> -> G F. cbn [tstep]. rewrite Hk, G, !(keqb_refl seqb seqb_spec). cbn [andb negb].
  assert (E : field_ok L s (k_l k) l && field_ok L s (k_r k) r = false) by (apply andb_false_iff; auto).
  rewrite E. reflexivity.
Qed.
Theorem rejected_add_leaves_state s c : snd (add_association s c) <> MOk -> fst (add_association s c) = s.
Proof.
  unfold add_association. destruct (memn c _); cbn; auto. destruct (negb _); cbn; auto.
  destruct (existsb _ (mc_left (m_ch s c))); cbn; auto. congruence.
Qed.
Theorem reject_repeated_asset s c : MI s -> (forall x, In x (members s c) -> In x (m_assets s)) ->
  ~ NoDup (mc_left (m_ch s c)) \/ ~ NoDup (mc_right (m_ch s c)) -> snd (add_association s c) <> MOk.
Proof.
  intros I Hl Hn. unfold add_association. destruct (memn c _); cbn; [discriminate|].
  destruct (field_names_unique s (mc_left (m_ch s c)) && field_names_unique s (mc_right (m_ch s c))) eqn:E; cbn; [|discriminate].
  exfalso. apply andb_true_iff in E. destruct E as [E1 E2].
  destruct Hn as [Hn|Hn]; apply Hn; eapply field_names_unique_NoDup; eauto; intros x Hx; apply Hl; unfold members; apply in_or_app; auto.
Qed.
Theorem reject_existing_link s c c' l r : TI L created s -> In c' (m_assocs s) ->
  mc_class (m_ch s c') = mc_class (m_ch s c) ->
  In l (mc_left (m_ch s c')) -> In r (mc_right (m_ch s c')) -> In l (mc_left (m_ch s c)) -> In r (mc_right (m_ch s c)) ->
  snd (add_association s c) <> MOk.
Proof.
  intros T Hc' Ecl A1 A2 B1 B2. unfold add_association. destruct (memn c _); cbn; [discriminate|].
  destruct (negb _); cbn; [discriminate|].
  assert (X : existsb (fun l0 => existsb (fun r0 => assoc_exists_between s (mc_class (m_ch s c)) l0 r0) (mc_right (m_ch s c))) (mc_left (m_ch s c)) = true).
  { apply existsb_exists. exists l. split; auto. apply existsb_exists. exists r. split; auto.
    unfold assoc_exists_between. destruct (ti_t2a _ _ _ T c' Hc') as (cs & Hd & Hin). rewrite Ecl in Hd. rewrite Hd.
    apply existsb_exists. exists c'. split; auto. apply andb_true_iff. split; apply existsb_exists.
    - exists (ma_id (m_ah s l)). split; [unfold ids_of; apply in_map_iff; eauto|apply opt_eqb_Z_refl].
    - exists (ma_id (m_ah s r)). split; [unfold ids_of; apply in_map_iff; eauto|apply opt_eqb_Z_refl]. }
  rewrite X. cbn. discriminate.
Qed.
End Facing.
