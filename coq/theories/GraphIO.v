(* GraphIO.v — AttackGraph._to_dict / the reading part of AttackGraph._from_dict at the document level (C10).
   Integer keys are decimal strings (JSON) — for YAML int() of an integer key is the identity.
   Floats are printed / parsed through fstr / fparse: the only fact used is fparse (fstr d) = Some d for the
   defense values that occur (a Section hypothesis; instantiated by a table in the correspondence check). *)
From MT Require Import Prelude Codec ModelIO.

Record gnode := mkGN {
  gn_id : Z; gn_type : string; gn_name : string; gn_asset : option string; gn_ttc : jv;
  gn_children : list Z; gn_parents : list Z; gn_comp : list string;        (* ids of children / parents, attacker names *)
  gn_def : option Z; gn_exist : option bool; gn_viable : bool; gn_necessary : bool;
  gn_mitre : option string; gn_tags : list string; gn_extras : list (string * jv) }.
Record gattacker := mkGA { ga_id : Z; ga_name : string; ga_entry : list Z; ga_reached : list Z }.
Record gcontent := mkGC { gc_nodes : list gnode; gc_atts : list gattacker }.

Definition gfull_name (n : gnode) : string :=
  match gn_asset n with Some a => a ++ ":" ++ gn_name n | None => string_of_Z (gn_id n) ++ ":" ++ gn_name n end.
Definition bstr (b : bool) : string := if b then "True" else "False".

Section IO.
Variable fstr : Z -> string.
Variable fparse : string -> option Z.
Variable name_of_id : Z -> string.        (* full name of the node with a given id, for the children / parents maps *)

Definition enc_idmap (ids : list Z) : jv := JDict (map (fun i => (string_of_Z i, JStr (name_of_id i))) ids).
Definition enc_gnode (n : gnode) : string * jv :=
  (gfull_name n,
   JDict ([("id", JInt (gn_id n)); ("type", JStr (gn_type n)); ("name", JStr (gn_name n)); ("ttc", gn_ttc n);
           ("children", enc_idmap (gn_children n)); ("parents", enc_idmap (gn_parents n));
           ("compromised_by", jstrs (gn_comp n))]
          ++ (match gn_asset n with Some a => [("asset", JStr a)] | None => [] end)
          ++ (match gn_def n with Some d => [("defense_status", JStr (fstr d))] | None => [] end)
          ++ (match gn_exist n with Some b => [("existence_status", JStr (bstr b))] | None => [] end)
          ++ [("is_viable", JStr (bstr (gn_viable n))); ("is_necessary", JStr (bstr (gn_necessary n)))]
          ++ (match gn_mitre n with Some m => [("mitre_info", JStr m)] | None => [] end)
          ++ (match gn_tags n with [] => [] | t => [("tags", jstrs t)] end)
          ++ (match gn_extras n with [] => [] | e => [("extras", JDict e)] end))).
Definition enc_gatt (a : gattacker) : string * jv :=
  (string_of_Z (ga_id a),
   JDict [("id", JInt (ga_id a)); ("name", JStr (ga_name a));
          ("entry_points", enc_idmap (ga_entry a)); ("reached_attack_steps", enc_idmap (ga_reached a))]).
Definition gencode (c : gcontent) : jv :=
  JDict [("attack_steps", JDict (map enc_gnode (gc_nodes c))); ("attackers", JDict (map enc_gatt (gc_atts c)))].

(* ---- reading ---- *)
Definition dec_keys (v : option jv) : option (list Z) :=
  match v with Some (JDict d) => omap (fun kv => Z_of_string (fst kv)) d | _ => None end.
Definition dec_bool (v : option jv) (default : bool) : bool :=
  match v with Some (JStr s) => seqb s "True" | Some _ => false | None => default end.
Definition dec_strs (v : option jv) : option (list string) :=
  match v with
  | None => Some []
  | Some (JList l) => omap (fun x => match x with JStr s => Some s | _ => None end) l
  | Some _ => None
  end.
Definition dec_gnode (kv : string * jv) : option gnode :=
  match snd kv with
  | JDict d =>
    match dget seqb d "id", dget seqb d "type", dget seqb d "name", dget seqb d "ttc",
          dec_keys (dget seqb d "children"), dec_keys (dget seqb d "parents"), dec_strs (dget seqb d "compromised_by"),
          dec_strs (dget seqb d "tags"), dec_extras (dget seqb d "extras") with
    | Some (JInt i), Some (JStr t), Some (JStr n), Some ttc, Some ch, Some pa, Some comp, Some tags, Some ex =>
        let asset := match dget seqb d "asset" with Some (JStr a) => Some a | _ => None end in
        let def := match dget seqb d "defense_status" with Some (JStr s) => Some (fparse s) | _ => None end in
        match def with
        | Some None => None                                   (* float() failed *)
        | _ =>
          Some (mkGN i t n asset ttc ch pa comp
                     (match def with Some (Some z) => Some z | _ => None end)
                     (match dget seqb d "existence_status" with Some (JStr s) => Some (seqb s "True") | Some _ => Some false | None => None end)
                     (dec_bool (dget seqb d "is_viable") true) (dec_bool (dget seqb d "is_necessary") true)
                     (match dget seqb d "mitre_info" with Some (JStr m) => Some m | _ => None end) tags ex)
        end
    | _, _, _, _, _, _, _, _, _ => None
    end
  | _ => None
  end.
Definition dec_gatt (kv : string * jv) : option gattacker :=
  match snd kv with
  | JDict d =>
    match dget seqb d "id", dget seqb d "name", dec_keys (dget seqb d "entry_points"), dec_keys (dget seqb d "reached_attack_steps") with
    | Some (JInt i), Some (JStr n), Some e, Some r => Some (mkGA i n e r)
    | _, _, _, _ => None
    end
  | _ => None
  end.
Definition gdecode (v : jv) : option gcontent :=
  match jget v "attack_steps", jget v "attackers" with
  | Some (JDict ns), Some (JDict ats) =>
    match omap dec_gnode ns, omap dec_gatt ats with Some n, Some a => Some (mkGC n a) | _, _ => None end
  | _, _ => None
  end.

(* ---- round trip ---- *)
Hypothesis fparse_fstr : forall c n d, In n (gc_nodes c) -> gn_def n = Some d -> fparse (fstr d) = Some d.

Lemma dec_keys_enc ids : dec_keys (Some (enc_idmap ids)) = Some ids.
Proof. unfold dec_keys, enc_idmap. apply omap_map. intros x _. cbn. apply Z_of_string_of_Z. Qed.
Lemma dec_strs_jstrs l : dec_strs (Some (jstrs l)) = Some l.
Proof. unfold dec_strs, jstrs. apply omap_map. auto. Qed.
Lemma bstr_true b : seqb (bstr b) "True" = b.
Proof. destruct b; reflexivity. Qed.

Lemma dec_enc_gnode n : (forall d, gn_def n = Some d -> fparse (fstr d) = Some d) -> dec_gnode (enc_gnode n) = Some n.
Proof.
  intros Hf. destruct n as [i t nm asset ttc ch pa comp def ex via nec mitre tags extras].
  unfold dec_gnode, enc_gnode. cbn [snd gn_id gn_type gn_name gn_asset gn_ttc gn_children gn_parents gn_comp gn_def gn_exist
                                      gn_viable gn_necessary gn_mitre gn_tags gn_extras] in *.
  assert (G : forall l, omap (fun x => match x with JStr s => Some s | _ => None end) (map JStr l) = Some l) by (intros; apply omap_map; auto).
  destruct asset as [a|], def as [d|], ex as [e|], mitre as [m|], tags as [|t0 tr], extras as [|x0 xr];
    cbn [app dget seqb String.eqb Ascii.eqb Bool.eqb];
    rewrite ?dec_keys_enc, ?dec_strs_jstrs; cbn [dec_strs dec_extras jstrs map]; rewrite ?G;
    try rewrite (Hf d eq_refl); rewrite ?bstr_true; unfold dec_bool; rewrite ?bstr_true; reflexivity.
Qed.

Lemma dec_enc_gatt a : dec_gatt (enc_gatt a) = Some a.
Proof.
  destruct a as [i n e r]. unfold dec_gatt, enc_gatt. cbn [snd ga_id ga_name ga_entry ga_reached].
  cbn [dget seqb String.eqb Ascii.eqb Bool.eqb]. rewrite !dec_keys_enc. reflexivity.
Qed.

Theorem gdecode_gencode c : gdecode (gencode c) = Some c.
Proof.
  destruct c as [ns ats]. unfold gdecode, gencode, jget. cbn [gc_nodes gc_atts].
  replace (dget seqb _ "attack_steps") with (Some (JDict (map enc_gnode ns))) by reflexivity.
  replace (dget seqb _ "attackers") with (Some (JDict (map enc_gatt ats))) by reflexivity.
  rewrite (omap_map dec_gnode enc_gnode).
  - rewrite (omap_map dec_gatt enc_gatt) by (intros; apply dec_enc_gatt). reflexivity.
  - intros n Hn. apply dec_enc_gnode. intros d Hd. apply (fparse_fstr (mkGC ns ats) n d); auto.
Qed.
End IO.

(* float printing for the defense values used by the correspondence check: k/4 *)
Definition fstr_tab (d : Z) : string :=
  if Z.eqb d 0 then "0.0" else if Z.eqb d 256 then "0.25" else if Z.eqb d 512 then "0.5"
  else if Z.eqb d 768 then "0.75" else if Z.eqb d 1024 then "1.0" else "?".
Definition fparse_tab (s : string) : option Z :=
  if seqb s "0.0" then Some 0%Z else if seqb s "0.25" then Some 256%Z else if seqb s "0.5" then Some 512%Z
  else if seqb s "0.75" then Some 768%Z else if seqb s "1.0" then Some 1024%Z
  else if seqb s "0" then Some 0%Z else if seqb s "1" then Some 1024%Z else None.

Definition gio_check (c : gcontent * list (Z * string) * jv) : bool :=
  let '(gc, names, doc) := c in
  let name_of_id i := match dget Z.eqb names i with Some n => n | None => "?" end in
  jv_eqb (jv_sort (gencode fstr_tab name_of_id gc)) (jv_sort doc) &&
  match gdecode fparse_tab doc with
  | Some gc' => jv_eqb (jv_sort (gencode fstr_tab name_of_id gc')) (jv_sort doc)
  | None => false
  end.
