(* OverApprox.v — every attack-graph edge X:s -> Y:t is predicted by a language-graph link from step s of X's type
   to a step t owned by Y's type or one of its ancestors (C15). *)
From MT Require Import Prelude ListFacts Lang LangThm SubThm Eval EvalThm Graph Gen GenThm GenCor LangGraph LangGraphThm.

(* transitive sub-expressions of every resolved reaches expression are endo-typed *)
Definition wt_lang (L : lang) (created : list assocdecl) : bool :=
  forallb (fun t => match steps_of L t with
                    | None => false
                    | Some st => forallb (fun kv => match sd_reaches (snd kv) with
                                                    | None => true
                                                    | Some (_, es) => forallb (fun e => tok L created (link_fuel L e) (Some t) e) es
                                                    end) st
                    end) (asset_names L).

Theorem over_approximation : forall L M g s,
  lang_graph L = LOk g -> generate L M = GOk s -> names_ok L M ->
  wf_inherit L = true -> fields_uniqueb (lg_created g) = true -> no_shadowb L = true ->
  valid_viewb L (lg_created g) M = true -> wt_lang L (lg_created g) = true ->
  exists info : list (nat * iasset * stepdecl),
    map (fun x => (snd (fst x), snd x)) info = enum_model L M /\
    g_nodes (s_g s) = seq 0 (List.length info) /\
    forall k a d c b d', nth_error info k = Some (k, a, d) -> nth_error info c = Some (c, b, d') ->
      In c (n_children (s_nh s k)) ->
      exists U, In (ia_type a, sd_name d, (U, sd_name d')) (lg_link_list g) /\ is_subasset_of L (ia_type b) U = true.
Proof.
  intros L M g s Hlg Hgen Hnames Hwf Hfields Hshadow Hvalid Hwt.
  destruct (generated_graph L M s Hgen Hnames) as (info & Henum & Hnodes & Hidx & _ & _ & _ & _ & _ & _ & Hedge & _).
  exists info. split; auto. split; auto.
  intros k a d c b d' Hk Hc Hin. apply (Hedge _ _ _ _ _ _ Hk Hc) in Hin. destruct Hin as (ov & es & e & Hr & He & Hden & Hlast).
  (* the entry comes from an asset of the model and a resolved step of its type *)
  assert (Hin_enum : forall k a d, nth_error info k = Some (k, a, d) -> In (a, d) (enum_model L M)).
  { intros k0 a0 d0 H0. rewrite <- Henum. apply in_map_iff. exists (k0, a0, d0). split; auto. eapply nth_error_In; eauto. }
  assert (Hent : forall a0 d0, In (a0, d0) (enum_model L M) ->
            In a0 (im_assets M) /\ exists st key, steps_of L (ia_type a0) = Some st /\ In (key, d0) st).
  { intros a0 d0 H0. unfold enum_model in H0. apply in_flat_map in H0. destruct H0 as (a1 & Ha1 & H0).
    unfold enum_asset in H0. destruct (steps_of L (ia_type a1)) as [st|] eqn:Es; [|destruct H0].
    apply in_map_iff in H0. destruct H0 as ([key dd] & E & Hkv). inversion E; subst. split; auto. exists st, key. auto. }
  destruct (Hent _ _ (Hin_enum _ _ _ Hk)) as (Ha & st & key & Hst & Hkd).
  destruct (Hent _ _ (Hin_enum _ _ _ Hc)) as (Hb & _).
  destruct Hnames as (Hn1 & Hids & _ & _).
  assert (Hfind : forall a0, In a0 (im_assets M) -> find_iasset M (ia_id a0) = Some a0).
  { intros a0 Ha0. unfold find_iasset. clear -Ha0 Hids. induction (im_assets M) as [|x r IHr]; [destruct Ha0|]. cbn in *.
    inversion Hids; subst. destruct Ha0 as [->|Ha0].
    - rewrite Z.eqb_refl. auto.
    - destruct (Z.eqb_spec (ia_id x) (ia_id a0)) as [E|N]; [|apply IHr; auto].
      exfalso. apply H1. rewrite E. apply in_map. auto. }
  assert (Hta : In (ia_type a) (asset_names L)).
  { unfold valid_viewb in Hvalid. apply andb_true_iff in Hvalid. destruct Hvalid as [_ Hv]. rewrite forallb_forall in Hv.
    specialize (Hv a Ha). unfold has_asset in Hv. apply existsb_exists in Hv. destruct Hv as (x & Hx & E). apply seqb_spec in E. subst. auto. }
  unfold lang_graph in Hlg. destruct (negb (supers_ok L)); [discriminate|].
  destruct (lg_assocs L) as [created|] eqn:Ec; cbn [lbind] in Hlg; [|discriminate].
  destruct (lg_links L created) as [ls|] eqn:El; cbn [lbind] in Hlg; [|discriminate].
  inversion Hlg; subst g; cbn [lg_created lg_link_list] in *.
  destruct (lg_links_spec L created ls El _ _ _ _ _ _ _ Hta Hst Hkd Hr He) as (U & sn & Hs & Hlink).
  pose proof (styp_last_step L created _ _ _ _ _ _ Hlast Hs) as Esn. inversion Esn; subst sn.
  exists U. split; auto.
  assert (Htok : tok L created (link_fuel L e) (Some (ia_type a)) e = true).
  { unfold wt_lang in Hwt. rewrite forallb_forall in Hwt. specialize (Hwt _ Hta). rewrite Hst in Hwt.
    rewrite forallb_forall in Hwt. specialize (Hwt _ Hkd). cbn in Hwt. rewrite Hr in Hwt. rewrite forallb_forall in Hwt. auto. }
  assert (Hx : typed_le L M (ia_id a) (ia_type a)).
  { exists (ia_type a). split; [|apply sub_refl]. unfold itype. rewrite (Hfind a Ha). reflexivity. }
  destruct (styp_sound L created M Hwf Hfields Hshadow Hvalid _ _ _ _ _ _ _ _ Hs Htok Hx Hden) as (ty & Ety & Sty).
  unfold itype in Ety. rewrite (Hfind b Hb) in Ety. cbn in Ety. inversion Ety; subst. exact Sty.
Qed.
