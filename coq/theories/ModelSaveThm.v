(* ModelSaveThm.v — the content of every model reached by a typed history of API calls is loadable, so that saving
   it and loading the file rebuilds a coherent model with the same content (C07, full statement at model level). *)
From MT Require Import Prelude ListFacts Lang LangThm LangGraph Model ModelOps ModelInv Codec ModelIO ModelLoad ModelLoadThm Classes ClassesThm.
From Coq Require Import Arith.

Section Save.
Variable L : lang.
Variable created : list assocdecl.
Notation dflt := (class_defenses L).

(* what `loadable` needs beyond MI and TI *)
Record XI (s : mstate) : Prop := mkXI {
  xi_defs : forall h, h < m_na s -> map fst (ma_defs (m_ah s h)) = map fst (dflt (ma_type (m_ah s h)));
  xi_sides : forall c, c < m_nc s -> mc_left (m_ch s c) <> [] /\ mc_right (m_ch s c) <> [];
  xi_names : forall t, In t (m_attackers s) -> exists n, mt_name (m_th s t) = Some n /\ n <> "";
  xi_alloc_t : forall t, In t (m_attackers s) -> t < m_nt s }.

Lemma XI_init : XI minit.
Proof. constructor; cbn; intros; try lia; contradiction. Qed.

(* a step that allocates nothing, keeps types and defenses, keeps the ends of associations non-empty and does not
   rename or add attackers *)
Lemma XI_frame s s' :
  m_na s' = m_na s -> same_td (m_ah s) (m_ah s') -> m_nc s' = m_nc s ->
  (forall c, c < m_nc s -> mc_left (m_ch s c) <> [] /\ mc_right (m_ch s c) <> [] ->
                           mc_left (m_ch s' c) <> [] /\ mc_right (m_ch s' c) <> []) ->
  (forall t, In t (m_attackers s') -> In t (m_attackers s) /\ mt_name (m_th s' t) = mt_name (m_th s t)) ->
  m_nt s <= m_nt s' -> XI s -> XI s'.
Proof.
  intros Ea Td Ec Sd At Nt X. constructor.
  - intros h Hh. rewrite Ea in Hh. destruct (Td h) as [-> ->]. apply (xi_defs s X); auto.
  - intros c Hc. rewrite Ec in Hc. apply Sd; auto. apply (xi_sides s X); auto.
  - intros t Ht. destruct (At t Ht) as [Ht' ->]. apply (xi_names s X); auto.
  - intros t Ht. destruct (At t Ht) as [Ht' _]. pose proof (xi_alloc_t s X t Ht'). lia.
Qed.

(* ---- what the primitives leave alone ---- *)
Lemma add_asset_rest s h i allow : let s' := fst (add_asset s h i allow) in
  m_ch s' = m_ch s /\ m_th s' = m_th s /\ m_attackers s' = m_attackers s /\ m_nt s' = m_nt s /\ m_nc s' = m_nc s.
Proof.
  cbv zeta. unfold add_asset. destruct (memzl _ _); [cbn; repeat split; reflexivity|].
  match goal with |- context [mems ?n (m_names s)] => destruct (mems n (m_names s)) end; [|cbn; repeat split; reflexivity].
  destruct allow; [|cbn; repeat split; reflexivity]. destruct (fresh_name _ _ _ _); cbn; repeat split; reflexivity.
Qed.
Lemma remove_association_rest s c : let s' := fst (remove_association s c) in
  m_ch s' = m_ch s /\ m_th s' = m_th s /\ m_attackers s' = m_attackers s /\ m_nt s' = m_nt s /\ m_nc s' = m_nc s /\ m_na s' = m_na s.
Proof. cbv zeta. unfold remove_association. destruct (negb _); cbn; repeat split; reflexivity. Qed.
Lemma add_association_rest s c : let s' := fst (add_association s c) in
  (forall c', mc_left (m_ch s' c') = mc_left (m_ch s c') /\ mc_right (m_ch s' c') = mc_right (m_ch s c')) /\
  m_th s' = m_th s /\ m_attackers s' = m_attackers s /\ m_nt s' = m_nt s /\ m_nc s' = m_nc s /\ m_na s' = m_na s /\
  same_td (m_ah s) (m_ah s').
Proof.
  cbv zeta. unfold add_association.
  assert (R : forall s0 : mstate, (forall c', mc_left (m_ch s0 c') = mc_left (m_ch s0 c') /\ mc_right (m_ch s0 c') = mc_right (m_ch s0 c')) /\
            m_th s0 = m_th s0 /\ m_attackers s0 = m_attackers s0 /\ m_nt s0 = m_nt s0 /\ m_nc s0 = m_nc s0 /\ m_na s0 = m_na s0 /\
            same_td (m_ah s0) (m_ah s0)) by (intros; repeat split; apply same_td_refl).
  destruct (memn c _); [apply R|]. destruct (negb _); [apply R|]. destruct (existsb _ _); [apply R|].
  cbn. refine (conj _ (conj eq_refl (conj eq_refl (conj eq_refl (conj eq_refl (conj eq_refl _)))))).
  - intros c'. unfold upd_c. destruct (Nat.eqb c' c); cbn; auto.
  - eapply same_td_trans; apply fold_addref_td.
Qed.

Lemma remove1_nonempty h l : In h l -> List.length l <> 1 -> remove1 h l <> [].
Proof.
  destruct l as [|a [|b r]]; cbn; try tauto; try lia. intros _ _.
  destruct (Nat.eqb h a); [discriminate|]. discriminate.
Qed.

Definition sides_ok (s : mstate) : Prop := forall c, c < m_nc s -> mc_left (m_ch s c) <> [] /\ mc_right (m_ch s c) <> [].
Definition rest_same (s s' : mstate) : Prop :=
  m_th s' = m_th s /\ m_attackers s' = m_attackers s /\ m_nt s' = m_nt s /\ m_nc s' = m_nc s /\ m_na s' = m_na s.
Lemma rest_same_refl s : rest_same s s. Proof. repeat split. Qed.
Lemma rest_same_trans a b c : rest_same a b -> rest_same b c -> rest_same a c.
Proof. intros (A1 & A2 & A3 & A4 & A5) (B1 & B2 & B3 & B4 & B5). repeat split; congruence. Qed.

Lemma rfa_rest s h c : sides_ok s -> let s' := fst (remove_asset_from_association s h c) in sides_ok s' /\ rest_same s s'.
Proof.
  intros S. unfold remove_asset_from_association.
  destruct (negb (memn h (m_assets s))); [cbn; split; auto using rest_same_refl|].
  destruct (negb (memn c (m_assocs s))) eqn:Elive; [cbn; split; auto using rest_same_refl|].
  assert (RA : forall s0, sides_ok s0 -> sides_ok (fst (remove_association s0 c)) /\ rest_same s0 (fst (remove_association s0 c))).
  { intros s0 S0. destruct (remove_association_rest s0 c) as (A1 & A2 & A3 & A4 & A5 & A6). split.
    - intros c' Hc'. rewrite A5 in Hc'. rewrite A1. apply S0; auto.
    - repeat split; auto. }
  assert (UPD : forall (ch' : nat -> massoc) ah', (forall c', c' < m_nc s -> mc_left (ch' c') <> [] /\ mc_right (ch' c') <> []) ->
            sides_ok (with_heaps s ah' ch' (m_th s)) /\ rest_same s (with_heaps s ah' ch' (m_th s))).
  { intros ch' ah' H. split; [exact H|repeat split]. }
  destruct (memn h (mc_left (m_ch s c))) eqn:EL.
  - apply memn_In in EL.
    destruct (Nat.eqb (List.length (mc_left (m_ch s c))) 1) eqn:E1; [apply RA; auto|].
    apply Nat.eqb_neq in E1.
    set (ch1 := upd_c (m_ch s) c (fun x => c_set_left x (remove1 h (mc_left x)))).
    assert (S1 : forall c', c' < m_nc s -> mc_left (ch1 c') <> [] /\ mc_right (ch1 c') <> []).
    { intros c' Hc'. unfold ch1, upd_c. destruct (Nat.eqb_spec c' c) as [->|N]; [|apply S; auto]. cbn. split.
      - apply remove1_nonempty; auto.
      - apply S; auto. }
    destruct (memn h (mc_right (m_ch s c))) eqn:ER.
    + apply memn_In in ER.
      destruct (Nat.eqb (List.length (mc_right (m_ch s c))) 1) eqn:E2.
      * destruct (UPD ch1 (m_ah s) S1) as [U1 U2]. destruct (RA _ U1) as [R1 R2]. split; auto; eapply rest_same_trans; eauto.
      * apply Nat.eqb_neq in E2. cbn [fst]. apply UPD. intros c' Hc'. unfold upd_c. destruct (Nat.eqb_spec c' c) as [->|N]; [|apply S1; auto].
        cbn. split.
        -- unfold ch1. rewrite upd_c_same. cbn. apply remove1_nonempty; auto.
        -- unfold ch1. rewrite upd_c_same. cbn. apply remove1_nonempty; auto.
    + cbn [fst]. apply UPD. exact S1.
  - destruct (memn h (mc_right (m_ch s c))) eqn:ER; [|cbn; split; auto using rest_same_refl].
    apply memn_In in ER.
    destruct (Nat.eqb (List.length (mc_right (m_ch s c))) 1) eqn:E2; [apply RA; auto|].
    apply Nat.eqb_neq in E2. cbn [fst]. apply UPD. intros c' Hc'. unfold upd_c. destruct (Nat.eqb_spec c' c) as [->|N]; [|apply S; auto].
    cbn. split; [apply S; auto|apply remove1_nonempty; auto].
Qed.

Lemma rfa_fold_rest h : forall l s oc, sides_ok s ->
  let s' := fst (fold_left (fun '(st, oc) c => match oc with MOk => remove_asset_from_association st h c | _ => (st, oc) end) l (s, oc)) in
  sides_ok s' /\ rest_same s s'.
Proof.
  induction l as [|c r IH]; intros s oc S; cbn [fold_left fst]; [split; auto using rest_same_refl|].
  destruct oc; try (apply IH; auto).
  destruct (rfa_rest s h c S) as [S1 R1]. destruct (remove_asset_from_association s h c) as [s1 oc1]. cbn [fst] in *.
  destruct (IH s1 oc1 S1) as [S2 R2]. split; auto. eapply rest_same_trans; eauto.
Qed.

Lemma fold_upd_t_name (u : mattacker -> mattacker) : (forall a, mt_name (u a) = mt_name a) ->
  forall l th x, mt_name (fold_left (fun th t => upd_t th t u) l th x) = mt_name (th x).
Proof.
  intros Hu. induction l as [|a r IH]; intros th x; cbn [fold_left]; auto.
  rewrite IH. unfold upd_t. destruct (Nat.eqb x a); auto.
Qed.

Lemma remove_asset_rest s h : sides_ok s -> let s' := fst (remove_asset s h) in
  sides_ok s' /\ m_attackers s' = m_attackers s /\ m_nt s' = m_nt s /\ m_nc s' = m_nc s /\ m_na s' = m_na s /\
  (forall t, mt_name (m_th s' t) = mt_name (m_th s t)).
Proof.
  intros S. unfold remove_asset. destruct (negb _); [cbn; auto 10|].
  destruct (rfa_fold_rest h (ma_assocs (m_ah s h)) s MOk S) as [S1 (R1 & R2 & R3 & R4 & R5)].
  destruct (fold_left _ (ma_assocs (m_ah s h)) (s, MOk)) as [s1 oc]. cbn [fst] in *.
  destruct oc; cbn [fst];
    try (refine (conj S1 (conj R2 (conj R3 (conj R4 (conj R5 _))))); intros t; rewrite R1; reflexivity).
  split; [exact S1|]. cbn. refine (conj R2 (conj R3 (conj R4 (conj R5 _)))). intros t.
  rewrite (fold_upd_t_name (fun x => t_set_entry x (drop_entry h (mt_entry x)))) by reflexivity.
  rewrite R1. reflexivity.
Qed.

(* ---- every step of a typed history preserves XI ---- *)
Lemma mstep_XI s o : MI s -> XI s -> is_ctor o = false -> XI (fst (fst (mstep s o))).
Proof.
  intros I X Hc. unfold mstep. destruct (mguard s o) eqn:G; cbn [negb]; [|auto].
  pose proof (xi_sides s X) as SO. fold (sides_ok s) in SO.
  destruct o; cbn [is_ctor] in Hc; try discriminate; cbn [mguard] in G.
  - (* MAddAsset *)
    pose proof (Shr_add_asset s h i allow_dup) as P. destruct (add_asset_rest s h i allow_dup) as (A1 & A2 & A3 & A4 & A5).
    destruct (add_asset s h i allow_dup) as [s' oc]. cbn [fst] in *.
    apply (XI_frame s s'); auto; try apply P; try lia.
    + intros c Hc' H. rewrite A1. auto.
    + intros t Ht. rewrite A3 in Ht. rewrite A2. auto.
  - (* MRemoveAsset *)
    pose proof (Shr_remove_asset s h I) as P. destruct (remove_asset_rest s h SO) as (A1 & A2 & A3 & A4 & A5 & A6).
    destruct (remove_asset s h) as [s' oc]. cbn [fst] in *.
    apply (XI_frame s s'); auto; try apply P; try lia.
    + intros c Hc' _. apply A1. lia.
    + intros t Ht. rewrite A2 in Ht. auto.
  - (* MAddAssoc *)
    destruct (add_association_rest s c) as (A1 & A2 & A3 & A4 & A5 & A6 & A7).
    destruct (add_association s c) as [s' oc]. cbn [fst] in *.
    apply (XI_frame s s'); auto; try lia.
    + intros c' Hc' H. destruct (A1 c') as [-> ->]. auto.
    + intros t Ht. rewrite A3 in Ht. rewrite A2. auto.
  - (* MRemoveAssoc *)
    pose proof (Shr_remove_association s c (mi_nodup_assocs s I)) as P.
    destruct (remove_association_rest s c) as (A1 & A2 & A3 & A4 & A5 & A6).
    destruct (remove_association s c) as [s' oc]. cbn [fst] in *.
    apply (XI_frame s s'); auto; try apply P; try lia.
    + intros c' Hc' H. rewrite A1. auto.
    + intros t Ht. rewrite A3 in Ht. rewrite A2. auto.
  - (* MRemoveFromAssoc *)
    pose proof (Shr_rfa s h c (mi_nodup_assocs s I)) as P. destruct (rfa_rest s h c SO) as (A1 & A2 & A3 & A4 & A5 & A6).
    destruct (remove_asset_from_association s h c) as [s' oc]. cbn [fst] in *.
    apply (XI_frame s s'); auto; try apply P; try lia.
    + intros c' Hc' _. apply A1. lia.
    + intros t Ht. rewrite A3 in Ht. rewrite A2. auto.
  - (* MSetAssocExtras *)
    cbn. apply (XI_frame s); cbn; auto using same_td_refl.
    intros c' Hc' H. unfold upd_c. destruct (Nat.eqb c' c); cbn; auto.
  - (* MNewAtt *)
    cbn. apply (XI_frame s); cbn; auto using same_td_refl.
    intros t Ht. split; auto. pose proof (xi_alloc_t s X t Ht). rewrite upd_t_other by lia. reflexivity.
  - (* MAddAtt *)
    apply andb_true_iff in G. destruct G as [G _]. apply andb_true_iff in G. destruct G as [G1 G2]. apply Nat.ltb_lt in G1.
    cbn. unfold add_attacker. constructor; cbn.
    + apply (xi_defs s X).
    + apply (xi_sides s X).
    + intros t0 Ht0. apply In_app_single in Ht0. destruct (Nat.eq_dec t0 t) as [->|N].
      * rewrite upd_t_same. cbn. eexists. split; [reflexivity|].
        destruct (mt_name (m_th s t)) as [n|]; [destruct (seqb n "") eqn:E|]; try discriminate.
        intros ->. cbn in E. discriminate.
      * rewrite upd_t_other by auto. destruct Ht0 as [Ht0|E]; [apply (xi_names s X); auto|congruence].
    + intros t0 Ht0. apply In_app_single in Ht0. destruct Ht0 as [Ht0| ->]; auto. apply (xi_alloc_t s X); auto.
  - (* MRemoveAtt *)
    unfold remove_attacker. destruct (remove_first_equal (m_th s) t (m_attackers s)) as [l|] eqn:E; cbn; auto.
    destruct (remove_first_equal_sub _ _ _ _ E) as [S1 _]. apply (XI_frame s); cbn; auto using same_td_refl.
  - (* MAddEntry *)
    cbn. unfold add_entry_point. apply (XI_frame s); cbn; auto using same_td_refl.
    intros t0 Ht0. split; auto. unfold upd_t. destruct (Nat.eqb t0 t); reflexivity.
  - (* MRemoveEntry *)
    cbn. unfold remove_entry_point. apply (XI_frame s); cbn; auto using same_td_refl.
    intros t0 Ht0. split; auto. unfold upd_t. destruct (Nat.eqb t0 t); reflexivity.
  - cbn; auto.
  - cbn; auto.
  - cbn; auto.
Qed.

Lemma dset_keys (d : list (string * Z)) k v : dget seqb d k <> None -> map fst (dset seqb d k v) = map fst d.
Proof.
  induction d as [|[k0 v0] r IH]; cbn; [congruence|]. destruct (seqb k k0) eqn:E; cbn; auto.
  intros H. rewrite IH; auto.
Qed.
Lemma dget_keys_some {V W} (d1 : list (string * V)) (d2 : list (string * W)) k :
  map fst d1 = map fst d2 -> dget seqb d2 k <> None -> dget seqb d1 k <> None.
Proof.
  revert d2. induction d1 as [|[k1 v1] r IH]; intros [|[k2 v2] r2] E; cbn in *; try discriminate; auto.
  inversion E; subst. destruct (seqb k k2); [discriminate|]. apply IH; auto.
Qed.

Theorem tstep_XI s o : MI s -> XI s -> XI (fst (fst (tstep L created s o))).
Proof.
  intros I X. destruct o as [o|h d v]; cbn [tstep].
  - destruct o; try (rewrite lift_state; apply mstep_XI; auto; reflexivity).
    + (* MNewAsset *)
      destruct (negb (has_asset L type)); [cbn; auto|]. destruct (negb (forallb _ defs)); [cbn; auto|].
      destruct (negb (forallb _ defs)); [cbn; auto|]. rewrite lift_state. cbn.
      constructor; cbn.
      * intros h Hh. unfold upd_a. destruct (Nat.eqb_spec h (m_na s)) as [->|N].
        -- cbn. unfold fill_defs. rewrite map_map. reflexivity.
        -- apply (xi_defs s X). lia.
      * apply (xi_sides s X).
      * apply (xi_names s X).
      * apply (xi_alloc_t s X).
    + (* MNewAssoc *)
      destruct (dget seqb (assoc_classes created) cls) as [k|]; [|cbn; auto].
      destruct (negb (_ && _ && mguard s (MNewAssoc cls lf left rf right))) eqn:Eg; [cbn; auto|].
      destruct (negb (field_ok L s (k_l k) left && field_ok L s (k_r k) right)); [cbn; auto|]. rewrite lift_state. unfold mstep.
      apply negb_false_iff in Eg. apply andb_true_iff in Eg. destruct Eg as [_ G]. rewrite G. cbn [negb fst].
      cbn [mguard] in G. apply andb_true_iff in G. destruct G as [_ G].
      constructor; cbn.
      * apply (xi_defs s X).
      * intros c Hc. unfold upd_c. destruct (Nat.eqb_spec c (m_nc s)) as [->|N].
        -- cbn. destruct left; [discriminate|]. destruct right; [discriminate|]. split; discriminate.
        -- apply (xi_sides s X). lia.
      * apply (xi_names s X).
      * apply (xi_alloc_t s X).
  - (* TSetDef *)
    destruct (Nat.ltb h (m_na s) && def_known L (ma_type (m_ah s h)) d) eqn:Eg; cbn [negb]; [|cbn; auto].
    destruct (negb (in_range v)); [cbn; auto|]. cbn [fst].
    apply andb_true_iff in Eg. destruct Eg as [Eg1 Eg2]. apply Nat.ltb_lt in Eg1.
    constructor; cbn.
    + intros h0 Hh0. unfold upd_a. destruct (Nat.eqb_spec h0 h) as [->|N]; [|apply (xi_defs s X); auto].
      cbn. rewrite dset_keys; [apply (xi_defs s X); auto|].
      apply (dget_keys_some _ (dflt (ma_type (m_ah s h)))); [apply (xi_defs s X); auto|].
      unfold def_known in Eg2. destruct (dget seqb (dflt (ma_type (m_ah s h))) d); [discriminate|discriminate].
    + apply (xi_sides s X).
    + apply (xi_names s X).
    + apply (xi_alloc_t s X).
Qed.

Theorem reachable_XI ops : XI (tsteps L created minit ops).
Proof.
  unfold tsteps. generalize minit MI_init XI_init.
  induction ops as [|o r IH]; intros s I X; cbn [fold_left]; auto.
  apply IH; [apply tstep_MI|apply tstep_XI]; auto.
Qed.

(* ---- the defenses of a generated class have distinct names ---- *)
Lemma apply_decl_keys steps d : NoDup (dkeys steps) -> NoDup (dkeys (apply_decl steps d)).
Proof.
  intros N. unfold apply_decl. destruct (dget seqb steps (sd_name d)) as [old|]; [|apply (dkeys_dset_NoDup seqb seqb_spec); auto].
  destruct (sd_reaches d) as [[[|] es]|]; auto; try (apply (dkeys_dset_NoDup seqb seqb_spec); auto).
  destruct (sd_reaches old) as [[ov olds]|]; apply (dkeys_dset_NoDup seqb seqb_spec); auto.
Qed.
Lemma fold_apply_decl_keys : forall ds steps, NoDup (dkeys steps) -> NoDup (dkeys (fold_left apply_decl ds steps)).
Proof. induction ds as [|d r IH]; intros steps N; cbn; auto. apply IH. apply apply_decl_keys; auto. Qed.
Lemma attacks_for_keys : forall fuel t r, attacks_for fuel L t = Some r -> NoDup (dkeys r).
Proof.
  induction fuel as [|f IH]; intros t r H; cbn in H; [discriminate|].
  destruct (find_asset L t) as [a|]; [|inversion H; constructor].
  destruct (ad_super a) as [sup|].
  - destruct (attacks_for f L sup) as [base|] eqn:E; [|discriminate]. inversion H. apply fold_apply_decl_keys. eapply IH; eauto.
  - inversion H. apply fold_apply_decl_keys. constructor.
Qed.
Lemma NoDup_map_fst_filter {A B} (f : A * B -> bool) (l : list (A * B)) : NoDup (map fst l) -> NoDup (map fst (filter f l)).
Proof.
  induction l as [|x r IH]; cbn; intros N; [constructor|]. inversion N; subst. destruct (f x); cbn; auto.
  constructor; auto. intros A0. apply H1. apply in_map_iff in A0. destruct A0 as (y & E & Hy). apply filter_In in Hy.
  rewrite <- E. apply in_map. tauto.
Qed.
Lemma dflt_keys t : NoDup (map fst (dflt t)).
Proof.
  unfold class_defenses. destruct (steps_of L t) as [steps|] eqn:E; [|constructor].
  rewrite map_map. cbn. change (fun x : string * stepdecl => fst x) with (@fst string stepdecl).
  apply NoDup_map_fst_filter. apply (attacks_for_keys _ _ _ E).
Qed.

(* ---- filling the defaults back in gives the stored defenses ---- *)
Lemma dget_notin {V} (d : list (string * V)) k : ~ In k (map fst d) -> dget seqb d k = None.
Proof. intros H. apply (dget_None_notin seqb seqb_spec). exact H. Qed.
Lemma fill_nondefault : forall df full, NoDup (map fst df) -> map fst full = map fst df ->
  fill df (nondefault df full) = full.
Proof.
  induction df as [|[k d] dr IH]; intros [|[k' v] fr] N E; cbn in E; try discriminate; auto.
  inversion E as [[Ek Et]]; subst k'. inversion N as [|? ? Nk Nr]; subst.
  assert (TAIL : nondefault ((k, d) :: dr) fr = nondefault dr fr).
  { unfold nondefault. apply filter_ext_in. intros [k1 v1] Hin1. cbn [fst snd dget].
    assert (k1 <> k) by (intros ->; apply Nk; rewrite <- Et; apply in_map_iff; exists (k, v1); auto).
    rewrite (keqb_neq seqb seqb_spec) by auto. reflexivity. }
  assert (KN : ~ In k (map fst (nondefault dr fr))).
  { intros A0. apply Nk. rewrite <- Et. unfold nondefault in A0. apply in_map_iff in A0. destruct A0 as (y & Ey & Hy).
    apply filter_In in Hy. rewrite <- Ey. apply in_map. tauto. }
  assert (HEAD : nondefault ((k, d) :: dr) ((k, v) :: fr) = if negb (Z.eqb d v) then (k, v) :: nondefault dr fr else nondefault dr fr).
  { rewrite <- TAIL. unfold nondefault. cbn [filter fst snd dget]. rewrite (keqb_refl seqb seqb_spec). cbn [opt_eqb]. reflexivity. }
  rewrite HEAD. unfold fill. cbn [map fst snd]. f_equal.
  - destruct (Z.eqb d v) eqn:Ed; cbn [negb].
    + apply Z.eqb_eq in Ed. subst. rewrite dget_notin by auto. reflexivity.
    + cbn [dget]. rewrite (keqb_refl seqb seqb_spec). reflexivity.
  - transitivity (fill dr (nondefault dr fr)); [|apply IH; auto]. unfold fill. apply map_ext_in. intros [k1 d1] Hk1. cbn [fst snd].
    assert (k1 <> k) by (intros ->; apply Nk; apply in_map_iff; exists (k, d1); auto).
    destruct (negb (Z.eqb d v)); cbn [dget]; [rewrite (keqb_neq seqb seqb_spec) by auto|]; reflexivity.
Qed.

(* ---- boolean duplicate-freeness, other direction ---- *)
Lemma NoDup_nodupb {A} (eqb : A -> A -> bool) (l : list A) :
  (forall x y, eqb x y = true <-> x = y) -> NoDup l -> nodupb eqb l = true.
Proof.
  intros H. induction 1 as [|x r Hx N IH]; cbn; auto. rewrite IH, andb_true_r. apply negb_true_iff.
  apply Bool.not_true_iff_false. intros A0. apply existsb_exists in A0. destruct A0 as (y & Hy & E). apply H in E. subst. auto.
Qed.
Lemma NoDup_map_on {A B} (f : A -> B) (l : list A) :
  (forall x y, In x l -> In y l -> f x = f y -> x = y) -> NoDup l -> NoDup (map f l).
Proof.
  intros Inj. induction 1 as [|x r Hx N IH]; cbn; constructor.
  - intros A0. apply in_map_iff in A0. destruct A0 as (y & E & Hy). assert (y = x) by (apply Inj; cbn; auto). subst; auto.
  - apply IH. intros a b Ha Hb. apply Inj; cbn; auto.
Qed.

(* ---- ids identify live assets ---- *)
Lemma idz_inj s : MI s -> forall x y, In x (m_assets s) -> In y (m_assets s) -> idz s x = idz s y -> x = y.
Proof.
  intros I x y Hx Hy E. apply (MI_ids_unique s I); auto.
  destruct (MI_has_id s I x Hx) as (i & _ & Ei & _). destruct (MI_has_id s I y Hy) as (j & _ & Ej & _).
  unfold idz, id_of in *. rewrite Ei, Ej in *. congruence.
Qed.
Lemma ids_of_cA s : MI s -> map ca_id (cA dflt s) = m_ids s.
Proof.
  intros I. unfold cA. rewrite map_map. cbn. apply map_Some_inj. rewrite <- (mi_ids s I). rewrite map_map.
  apply map_ext_in. intros h Hh. destruct (MI_has_id s I h Hh) as (i & _ & Ei & _). unfold idz, id_of in *. rewrite Ei. reflexivity.
Qed.
Lemma names_of_cA s : MI s -> map ca_name (cA dflt s) = m_names s.
Proof.
  intros I. unfold cA. rewrite map_map. cbn. apply map_Some_inj. rewrite <- (mi_names s I). rewrite map_map.
  apply map_ext_in. intros h Hh. destruct (MI_has_id s I h Hh) as (i & n & _ & _ & En & _). unfold name_of in *. rewrite En. reflexivity.
Qed.
Lemma idz_in_ids s : MI s -> forall h, In h (m_assets s) -> memzl (idz s h) (m_ids s) = true.
Proof.
  intros I h Hh. apply memzl_In. destruct (MI_has_id s I h Hh) as (i & _ & Ei & Hi & _). unfold idz, id_of in *. rewrite Ei. auto.
Qed.

(* ---- no two associations of the model clash ---- *)
Lemma no_clash_handles s : MI s -> TI L created s -> forall l done, NoDup (done ++ l) -> (forall c, In c (done ++ l) -> In c (m_assocs s)) ->
  no_clash (map (cassoc_of s) done) (map (cassoc_of s) l) = true.
Proof.
  intros I T. induction l as [|c r IH]; intros done N Hl; cbn; auto.
  apply andb_true_iff. split.
  - apply forallb_forall. intros oc Hoc. apply in_map_iff in Hoc. destruct Hoc as (old & <- & Hold).
    apply negb_true_iff. apply Bool.not_true_iff_false. intros A0. unfold links_clash, cassoc_of in A0. cbn in A0.
    apply andb_true_iff in A0. destruct A0 as [A0 A3]. apply andb_true_iff in A0. destruct A0 as [A1 A2].
    apply seqb_spec in A1.
    assert (Hc : In c (m_assocs s)) by (apply Hl; apply in_or_app; right; left; auto).
    assert (Ho : In old (m_assocs s)) by (apply Hl; apply in_or_app; auto).
    assert (Ne : c <> old).
    { intros ->. apply NoDup_remove_2 in N. apply N. apply in_or_app; auto. }
    assert (SH : forall (ms1 ms2 : list nat), (forall x, In x ms1 -> In x (m_assets s)) -> (forall x, In x ms2 -> In x (m_assets s)) ->
               existsb (fun i => memzl i (map (idz s) ms2)) (map (idz s) ms1) = true -> exists x, In x ms1 /\ In x ms2).
    { intros ms1 ms2 H1 H2 E. apply existsb_exists in E. destruct E as (i & Hi & E). apply in_map_iff in Hi. destruct Hi as (x & <- & Hx).
      apply memzl_In in E. apply in_map_iff in E. destruct E as (y & Ey & Hy). exists x. split; auto.
      assert (y = x) by (apply (idz_inj s I); auto). subst; auto. }
    assert (LV : forall c0 x, In c0 (m_assocs s) -> In x (members s c0) -> In x (m_assets s)) by (intros; eapply (mi_members_live s I); eauto).
    destruct (SH (mc_left (m_ch s c)) (mc_left (m_ch s old))) as (x & X1 & X2); auto.
    { intros x Hx. apply (LV c); auto. unfold members. apply in_or_app; auto. }
    { intros x Hx. apply (LV old); auto. unfold members. apply in_or_app; auto. }
    destruct (SH (mc_right (m_ch s c)) (mc_right (m_ch s old))) as (y & Y1 & Y2); auto.
    { intros x0 Hx. apply (LV c); auto. unfold members. apply in_or_app; auto. }
    { intros x0 Hx. apply (LV old); auto. unfold members. apply in_or_app; auto. }
    apply (ti_links _ _ _ T c old x y); auto.
  - replace (map (cassoc_of s) done ++ [cassoc_of s c]) with (map (cassoc_of s) (done ++ [c])) by (rewrite map_app; reflexivity).
    apply IH.
    + rewrite <- app_assoc. exact N.
    + intros c0 Hc0. apply Hl. rewrite <- app_assoc in Hc0. exact Hc0.
Qed.

(* ---- the content of a typed, coherent model is loadable ---- *)
Theorem content_loadable n s : MI s -> TI L created s -> XI s -> loadable dflt (content_of dflt n s) = true.
Proof.
  intros I T X. unfold loadable, content_of. cbn [c_assets c_assocs c_attackers].
  rewrite (ids_of_cA s I), (names_of_cA s I).
  repeat (apply andb_true_iff; split).
  - apply NoDup_nodupb; [apply Z.eqb_eq | apply I].
  - apply NoDup_nodupb; [apply seqb_spec | apply I].
  - apply forallb_forall. intros a Ha. unfold cA in Ha. apply in_map_iff in Ha. destruct Ha as (h & <- & Hh).
    unfold ModelLoad.asset_ok, ModelLoad.casset_of. cbn [ca_type ca_defs].
    rewrite fill_nondefault; [|apply dflt_keys|apply (xi_defs s X); apply (mi_alloc_a s I); auto].
    apply (list_eqb_spec _ pair_eqb_sz_spec). reflexivity.
  - apply forallb_forall. intros cc Hcc. unfold cC in Hcc. apply in_map_iff in Hcc. destruct Hcc as (c & <- & Hc).
    unfold ModelLoad.assoc_ok, cassoc_of. cbn [cc_left cc_right].
    destruct (xi_sides s X c (mi_alloc_c s I c Hc)) as [NEl NEr]. destruct (mi_fields_nodup s I c Hc) as [NL NR].
    assert (LVl : forall x, In x (mc_left (m_ch s c)) -> In x (m_assets s)).
    { intros x Hx. apply (mi_members_live s I c); auto. unfold members. apply in_or_app; auto. }
    assert (LVr : forall x, In x (mc_right (m_ch s c)) -> In x (m_assets s)).
    { intros x Hx. apply (mi_members_live s I c); auto. unfold members. apply in_or_app; auto. }
    repeat (apply andb_true_iff; split).
    + destruct (mc_left (m_ch s c)); [congruence|]. destruct (mc_right (m_ch s c)); [congruence|]. reflexivity.
    + apply NoDup_nodupb; [apply Z.eqb_eq|]. apply NoDup_map_on; auto. intros x y Hx Hy. apply (idz_inj s I); auto.
    + apply NoDup_nodupb; [apply Z.eqb_eq|]. apply NoDup_map_on; auto. intros x y Hx Hy. apply (idz_inj s I); auto.
    + apply forallb_forall. intros i Hi. apply in_map_iff in Hi. destruct Hi as (x & <- & Hx). apply (idz_in_ids s I); auto.
    + apply forallb_forall. intros i Hi. apply in_map_iff in Hi. destruct Hi as (x & <- & Hx). apply (idz_in_ids s I); auto.
  - unfold cC. apply (no_clash_handles s I T (m_assocs s) []); cbn; auto. apply I.
  - apply forallb_forall. intros ct Hct. unfold cT in Hct. apply in_map_iff in Hct. destruct Hct as (t & <- & Ht).
    unfold attacker_ok, catt_of. cbn [ct_name ct_entry].
    destruct (xi_names s X t Ht) as (nm & -> & Nnm).
    assert (LV : forall x, In x (map fst (mt_entry (m_th s t))) -> In x (m_assets s)) by (intros x Hx; eapply (mi_entries_live s I); eauto).
    rewrite map_map. cbn [fst].
    replace (map (fun x : nat * list string => idz s (fst x)) (mt_entry (m_th s t))) with (map (idz s) (map fst (mt_entry (m_th s t))))
      by (rewrite map_map; reflexivity).
    repeat (apply andb_true_iff; split).
    + apply negb_true_iff. apply Bool.not_true_iff_false. intros A0. apply seqb_spec in A0. auto.
    + apply NoDup_nodupb; [apply Z.eqb_eq|]. apply NoDup_map_on; [|apply (mi_entries s I)]. intros x y Hx Hy. apply (idz_inj s I); auto.
    + apply forallb_forall. intros i Hi. apply in_map_iff in Hi. destruct Hi as (x & <- & Hx). apply (idz_in_ids s I); auto.
Qed.

(* no association class is called "extras" (the key under which a document stores the extras of an association) *)
Definition no_extras_class : Prop := dget seqb (assoc_classes created) "extras" = None.
Lemma content_wf n s : no_extras_class -> MI s -> TI L created s -> wf_content (content_of dflt n s) = true.
Proof.
  intros NE I T. unfold wf_content, content_of. cbn [c_assocs]. apply forallb_forall. intros cc Hcc. unfold cC in Hcc.
  apply in_map_iff in Hcc. destruct Hcc as (c & <- & Hc). unfold wf_assoc, cassoc_of. cbn [cc_class].
  destruct (ti_assocs _ _ _ T c (mi_alloc_c s I c Hc)) as (k & K1 & _).
  apply negb_true_iff. apply Bool.not_true_iff_false. intros A0. apply seqb_spec in A0. rewrite A0 in K1.
  unfold no_extras_class in NE. congruence.
Qed.

(* C07 at model level: for every typed history of API calls, saving the model it builds and loading the document
   rebuilds a coherent model with the same content *)
Theorem typed_save_load ops n : no_extras_class ->
  let s := tsteps L created minit ops in
  exists c' s', decode (encode (content_of dflt n s)) = Some c' /\ load dflt c' = (s', MOk) /\ MI s' /\
                content_of dflt n s' = content_of dflt n s.
Proof.
  intros NE s. destruct (reachable_typed L created ops) as [I T]. pose proof (reachable_XI ops) as X. fold s in I, T, X.
  apply state_save_load; [apply content_loadable; auto | apply content_wf; auto].
Qed.

Theorem reachable_loadable ops n : loadable dflt (content_of dflt n (tsteps L created minit ops)) = true.
Proof. destruct (reachable_typed L created ops) as [I T]. apply content_loadable; auto. apply reachable_XI. Qed.

End Save.

(* correspondence: the loader against ModelLoad.load with the defaults of the generated classes of the language *)
Definition load_check_lang (c : lang * content * bool * jv) : bool :=
  let '(L, cont, impl_ok, obs) := c in load_check_with (class_defenses L) cont impl_ok obs.
Definition loadable_lang (c : lang * content * bool * jv) : bool :=
  let '(L, cont, _, _) := c in loadable (class_defenses L) cont.
