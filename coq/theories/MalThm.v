(* MalThm.v — the visitor inverts the printer: v (u s) = s (C04), by parts. *)
From MT Require Import Prelude ListFacts Codec Lang Mal MalPrint.

(* ================= contexts and the token scan ================= *)
Definition octx (ctx : option (list tok)) : option bool := option_map scan ctx.
Definition plain (t : tok) : bool := match t with Dot | Comma => false | _ => true end.
Definition commafree (l : list tok) : bool := forallb (fun t => match t with Comma => false | _ => true end) l.
Definition dotty (l : list tok) : bool := existsb (fun t => match t with Dot => true | _ => false end) l.

Lemma scan_app_ext l r1 r2 : scan r1 = scan r2 -> scan (l ++ r1) = scan (l ++ r2).
Proof. intros H. induction l as [|t l IH]; cbn; auto. destruct t; auto. Qed.
Lemma scan_commafree l r : commafree l = true -> scan (l ++ r) = dotty l || scan r.
Proof.
  induction l as [|t l IH]; cbn; auto. intros H. apply andb_true_iff in H. destruct H as [H1 H2].
  destruct t; cbn; auto; discriminate.
Qed.
Lemma after_nil ctx : after ctx [] = ctx.
Proof. destruct ctx; reflexivity. Qed.
Lemma after_after ctx a b : after (after ctx a) b = after ctx (b ++ a).
Proof. destruct ctx; cbn; auto. rewrite app_assoc. reflexivity. Qed.
Lemma octx_after_ext c1 c2 toks : octx c1 = octx c2 -> octx (after c1 toks) = octx (after c2 toks).
Proof.
  destruct c1, c2; cbn; intros H; try discriminate; auto. inversion H. f_equal. apply scan_app_ext. auto.
Qed.
Lemma octx_after_plain ctx toks : forallb plain toks = true -> octx (after ctx toks) = octx ctx.
Proof.
  destruct ctx as [rest|]; cbn; auto. intros H. f_equal. induction toks as [|t r IH]; cbn; auto.
  cbn in H. apply andb_true_iff in H. destruct H as [H1 H2]. destruct t; cbn in *; auto; discriminate.
Qed.

(* the visitor looks at its context only through the scan *)
Lemma classify_ext c1 c2 x : octx c1 = octx c2 -> classify c1 x = classify c2 x.
Proof. destruct c1, c2; cbn; intros H; try discriminate; auto. inversion H as [E]. rewrite E. reflexivity. Qed.
Theorem v_ctx_ext :
  (forall e c1 c2, octx c1 = octx c2 -> v_e e c1 = v_e e c2) /\
  (forall t lhs c1 c2, octx c1 = octx c2 -> v_et t lhs c1 = v_et t lhs c2) /\
  (forall p c1 c2, octx c1 = octx c2 -> v_ps p c1 = v_ps p c2) /\
  (forall t lhs c1 c2, octx c1 = octx c2 -> v_dt t lhs c1 = v_dt t lhs c2) /\
  (forall p c1 c2, octx c1 = octx c2 -> v_p p c1 = v_p p c2) /\
  (forall a c1 c2, octx c1 = octx c2 -> v_a a c1 = v_a a c2).
Proof.
  apply cst_mutind.
  - intros p IHp tl IHtl c1 c2 H. cbn [v_e]. rewrite (IHp _ _ (octx_after_ext _ _ (fet tl) H)). apply IHtl. auto.
  - intros lhs c1 c2 H. reflexivity.
  - intros o p IHp tl IHtl lhs c1 c2 H. cbn [v_et]. rewrite (IHp _ _ (octx_after_ext _ _ (fet tl) H)). apply IHtl. auto.
  - intros p IHp tl IHtl c1 c2 H. cbn [v_ps]. rewrite (IHp _ _ (octx_after_ext _ _ (fdt tl) H)). apply IHtl. auto.
  - intros lhs c1 c2 H. reflexivity.
  - intros p IHp tl IHtl lhs c1 c2 H. cbn [v_dt]. rewrite (IHp _ _ (octx_after_ext _ _ (fdt tl) H)). apply IHtl. auto.
  - intros a IHa st tys c1 c2 H. cbn [v_p]. rewrite (IHa _ _ (octx_after_ext _ _ _ H)). reflexivity.
  - intros e IHe c1 c2 H. cbn [v_a]. apply IHe. apply octx_after_ext. auto.
  - intros v c1 c2 H. reflexivity.
  - intros x c1 c2 H. cbn [v_a]. apply classify_ext. auto.
Qed.
Definition v_e_ext := proj1 v_ctx_ext.
Definition v_a_ext := proj2 (proj2 (proj2 (proj2 (proj2 v_ctx_ext)))).

(* ================= views and snoc ================= *)
Lemma v_of_part p ctx : v_e (of_part p) ctx = v_p p ctx.
Proof. unfold of_part. cbn [v_e v_et v_ps v_dt fet fdt]. rewrite !after_nil. reflexivity. Qed.
Lemma v_paren_part c ctx : v_p (paren_part c) ctx = v_e c ctx.
Proof.
  unfold paren_part. cbn [v_p v_a fold_left app ftys]. apply v_e_ext. rewrite after_after. apply octx_after_plain. reflexivity.
Qed.
Lemma v_single_parts p ctx : v_ps (CP p DNil) ctx = v_p p ctx.
Proof. cbn [v_ps v_dt fdt]. rewrite after_nil. reflexivity. Qed.
Lemma v_single_expr p ctx : v_e (CE p ENil) ctx = v_ps p ctx.
Proof. cbn [v_e v_et fet]. rewrite after_nil. reflexivity. Qed.
Lemma v_to_parts c ctx : v_ps (to_parts c) ctx = v_e c ctx.
Proof.
  destruct c as [p tl]. destruct tl; cbn [to_parts].
  - rewrite v_single_expr. reflexivity.
  - rewrite v_single_parts, v_paren_part. reflexivity.
Qed.
Lemma v_to_part c ctx : v_p (to_part c) ctx = v_e c ctx.
Proof.
  destruct c as [[p dt] tl]. destruct tl, dt; cbn [to_part]; try apply v_paren_part.
  rewrite v_single_expr, v_single_parts. reflexivity.
Qed.
Lemma v_part_atom a ctx : v_p (CPart a false []) ctx = v_a a ctx.
Proof. cbn [v_p fold_left app ftys]. rewrite after_nil. reflexivity. Qed.
Lemma v_paren_atom c ctx : v_a (CParen c) ctx = v_e c ctx.
Proof. cbn [v_a]. apply v_e_ext. apply octx_after_plain. reflexivity. Qed.
Lemma v_to_atom c ctx : v_a (to_atom c) ctx = v_e c ctx.
Proof.
  destruct c as [[[a st tys] dt] tl]. destruct tl, dt, st, tys; cbn [to_atom]; try apply v_paren_atom.
  rewrite v_single_expr, v_single_parts, v_part_atom. reflexivity.
Qed.

Lemma fdt_dsnoc tl p : fdt (dsnoc tl p) = fdt tl ++ Dot :: fp p.
Proof. induction tl as [|q tl IH]; cbn [dsnoc fdt]; [rewrite app_nil_r; reflexivity|]. rewrite IH. cbn. rewrite <- app_assoc. reflexivity. Qed.
Lemma fet_esnoc tl o p : fet (esnoc tl o p) = fet tl ++ tok_of_sop o :: fps p.
Proof. induction tl as [|o' q tl IH]; cbn [esnoc fet]; [rewrite app_nil_r; reflexivity|]. rewrite IH. cbn. rewrite <- app_assoc. reflexivity. Qed.
Lemma v_dt_dsnoc p : forall tl lhs ctx,
  v_dt (dsnoc tl p) lhs ctx = SCollect (v_dt tl lhs (after ctx (Dot :: fp p))) (v_p p ctx).
Proof.
  induction tl as [|q tl IH]; intros lhs ctx; cbn [dsnoc v_dt fdt].
  - rewrite after_nil. reflexivity.
  - rewrite IH. rewrite fdt_dsnoc, after_after. reflexivity.
Qed.
Lemma v_ps_snoc ps p ctx : v_ps (ps_snoc ps p) ctx = SCollect (v_ps ps (after ctx (Dot :: fp p))) (v_p p ctx).
Proof. destruct ps as [q tl]. cbn [ps_snoc v_ps]. rewrite v_dt_dsnoc, fdt_dsnoc, after_after. reflexivity. Qed.
Lemma v_et_esnoc o p : forall tl lhs ctx,
  v_et (esnoc tl o p) lhs ctx = sx_of_sop o (v_et tl lhs (after ctx (tok_of_sop o :: fps p))) (v_ps p ctx).
Proof.
  induction tl as [|o' q tl IH]; intros lhs ctx; cbn [esnoc v_et fet].
  - rewrite after_nil. reflexivity.
  - rewrite IH. rewrite fet_esnoc, after_after. reflexivity.
Qed.
Lemma v_e_snoc c o p ctx : v_e (e_snoc c o p) ctx = sx_of_sop o (v_e c (after ctx (tok_of_sop o :: fps p))) (v_ps p ctx).
Proof. destruct c as [q tl]. cbn [e_snoc v_e]. rewrite v_et_esnoc, fet_esnoc, after_after. reflexivity. Qed.

(* ================= tokens of a printed expression ================= *)
Fixpoint has_dot (e : sexpr) : bool :=
  match e with
  | SCollect _ _ => true
  | SUnion l r | SInter l r | SDiff l r => has_dot l || has_dot r
  | STrans x | SSub _ x => has_dot x
  | _ => false
  end.
Definition good (l : list tok) (b : bool) : Prop := commafree l = true /\ dotty l = b.
Lemma good_app l1 l2 b1 b2 : good l1 b1 -> good l2 b2 -> good (l1 ++ l2) (b1 || b2).
Proof.
  intros [A1 A2] [B1 B2]. split; unfold commafree, dotty in *.
  - rewrite forallb_app, A1, B1. reflexivity.
  - rewrite existsb_app, A2, B2. reflexivity.
Qed.
Lemma good_plain l : forallb plain l = true -> good l false.
Proof.
  intros H. split; unfold commafree, dotty.
  - apply forallb_forall. intros t Ht. rewrite forallb_forall in H. specialize (H t Ht). destruct t; auto; discriminate.
  - destruct (existsb _ l) eqn:E; auto. apply existsb_exists in E. destruct E as (t & Ht & Et). rewrite forallb_forall in H.
    specialize (H t Ht). destruct t; discriminate.
Qed.
Lemma good_cons t l b : plain t = true -> good l b -> good (t :: l) b.
Proof. intros H G. change (t :: l) with ([t] ++ l). replace b with (false || b) by reflexivity. apply good_app; auto. apply good_plain. cbn. rewrite H. auto. Qed.
Lemma good_snoc l t b : plain t = true -> good l b -> good (l ++ [t]) b.
Proof. intros H G. replace b with (b || false) by apply orb_false_r. apply good_app; auto. apply good_plain. cbn. rewrite H. auto. Qed.
Lemma good_ftys tys : good (ftys tys) false.
Proof. apply good_plain. induction tys; cbn; auto. Qed.
Lemma good_paren c b : good (fe c) b -> good (fp (paren_part c)) b.
Proof.
  intros G. unfold paren_part. cbn [fp fa app ftys]. rewrite app_nil_r. apply good_cons; auto. apply good_snoc; auto.
Qed.
Lemma fe_single p : fe (CE p ENil) = fps p. Proof. cbn. apply app_nil_r. Qed.
Lemma fps_single p : fps (CP p DNil) = fp p. Proof. cbn. apply app_nil_r. Qed.
Lemma good_to_parts c b : good (fe c) b -> good (fps (to_parts c)) b.
Proof.
  destruct c as [p tl]. destruct tl; cbn [to_parts]; intros G.
  - rewrite fe_single in G. auto.
  - rewrite fps_single. apply good_paren. auto.
Qed.
Lemma good_to_part c b : good (fe c) b -> good (fp (to_part c)) b.
Proof.
  destruct c as [[p dt] tl]. destruct tl, dt; cbn [to_part]; intros G; try (apply good_paren; auto).
  rewrite fe_single, fps_single in G. auto.
Qed.
Lemma good_paren_atom c b : good (fe c) b -> good (fa (CParen c)) b.
Proof. intros G. cbn [fa]. apply good_cons; auto. apply good_snoc; auto. Qed.
Lemma good_to_atom c b : good (fe c) b -> good (fa (to_atom c)) b.
Proof.
  destruct c as [[[a st tys] dt] tl]. destruct tl, dt, st, tys; cbn [to_atom]; intros G; try (apply good_paren_atom; auto).
  rewrite fe_single, fps_single in G. cbn [fp app ftys] in G. rewrite app_nil_r in G. auto.
Qed.
Lemma fe_of_part p : fe (of_part p) = fp p.
Proof. unfold of_part. rewrite fe_single, fps_single. reflexivity. Qed.
Lemma fps_snoc ps p : fps (ps_snoc ps p) = fps ps ++ Dot :: fp p.
Proof. destruct ps as [q tl]. cbn [ps_snoc fps]. rewrite fdt_dsnoc, app_assoc. reflexivity. Qed.
Lemma fe_snoc c o p : fe (e_snoc c o p) = fe c ++ tok_of_sop o :: fps p.
Proof. destruct c as [q tl]. cbn [e_snoc fe]. rewrite fet_esnoc, app_assoc. reflexivity. Qed.
Lemma ftys_app a b : ftys (a ++ b) = ftys a ++ ftys b.
Proof. induction a as [|t a IH]; cbn; auto. rewrite IH. reflexivity. Qed.

Theorem printed_tokens e : good (fe (u_e e)) (has_dot e).
Proof.
  induction e as [n|f|v|l IHl r IHr|l IHl r IHr|l IHl r IHr|l IHl r IHr|x IHx|t x IHx]; cbn [u_e has_dot].
  - rewrite fe_of_part. apply good_plain. reflexivity.
  - rewrite fe_of_part. apply good_plain. reflexivity.
  - rewrite fe_of_part. apply good_plain. reflexivity.
  - rewrite fe_single, fps_snoc. replace true with (has_dot l || true) by apply orb_true_r.
    apply good_app; [apply good_to_parts; auto|]. split.
    + cbn. apply (proj1 (good_to_part _ _ IHr)).
    + reflexivity.
  - rewrite fe_snoc. apply good_app; auto. apply good_cons; [reflexivity|]. apply good_to_parts. auto.
  - rewrite fe_snoc. apply good_app; auto. apply good_cons; [reflexivity|]. apply good_to_parts. auto.
  - rewrite fe_snoc. apply good_app; auto. apply good_cons; [reflexivity|]. apply good_to_parts. auto.
  - rewrite fe_of_part. cbn [fp ftys]. rewrite app_nil_r. apply good_snoc; [reflexivity|]. apply good_to_atom. auto.
  - destruct (u_e x) as [[[a st tys] dt] tl] eqn:E.
    assert (D : good (fp (CPart (CParen (CE (CP (CPart a st tys) dt) tl)) false [t])) (has_dot x)).
    { cbn [fp app]. replace (has_dot x) with (has_dot x || false) by apply orb_false_r. apply good_app; [apply good_paren_atom; auto|apply good_ftys]. }
    destruct tl, dt; try (rewrite fe_of_part; exact D).
    rewrite fe_of_part. rewrite fe_single, fps_single in IHx. cbn [fp] in *. rewrite ftys_app, !app_assoc.
    replace (has_dot x) with (has_dot x || false) by apply orb_false_r. apply good_app; [rewrite <- app_assoc; auto|apply good_ftys].
Qed.

(* ================= the classification the compiler computes, stated on the tree ================= *)
Fixpoint wf_cls (e : sexpr) (dot_after : bool) : bool :=
  match e with
  | SStep _ => negb dot_after
  | SField _ => dot_after
  | SVar _ => true
  | SCollect l r => wf_cls l true && wf_cls r dot_after
  | SUnion l r | SInter l r | SDiff l r => wf_cls l (has_dot r || dot_after) && wf_cls r dot_after
  | STrans x | SSub _ x => wf_cls x dot_after
  end.
Fixpoint all_fields (e : sexpr) : bool :=
  match e with
  | SStep _ => false
  | SField _ | SVar _ => true
  | SCollect l r | SUnion l r | SInter l r | SDiff l r => all_fields l && all_fields r
  | STrans x | SSub _ x => all_fields x
  end.
Definition cls_ok (e : sexpr) (o : option bool) : bool := match o with None => all_fields e | Some b => wf_cls e b end.

Lemma octx_setop ctx o r b : octx ctx = b ->
  octx (after ctx (tok_of_sop o :: fps (to_parts (u_e r)))) = option_map (fun x => has_dot r || x) b.
Proof.
  intros <-. destruct ctx as [rest|]; cbn [after octx option_map]; auto. f_equal.
  pose proof (good_to_parts _ _ (printed_tokens r)) as [G1 G2].
  change ((tok_of_sop o :: fps (to_parts (u_e r))) ++ rest) with (tok_of_sop o :: (fps (to_parts (u_e r)) ++ rest)).
  destruct o; cbn [tok_of_sop scan]; rewrite scan_commafree by auto; rewrite G2; reflexivity.
Qed.

Lemma plain_suffix (st : bool) tys : forallb plain ((if st then [Star] else []) ++ ftys tys) = true.
Proof. rewrite forallb_app. apply andb_true_iff. split; [destruct st; reflexivity|]. induction tys; cbn; auto. Qed.

Theorem v_u_expr e : forall ctx, cls_ok e (octx ctx) = true -> v_e (u_e e) ctx = e.
Proof.
  induction e as [n|f|v|l IHl r IHr|l IHl r IHr|l IHl r IHr|l IHl r IHr|x IHx|t x IHx]; intros ctx H; cbn [u_e].
  - rewrite v_of_part, v_part_atom. cbn [v_a]. destruct ctx as [rest|]; cbn in *; [|discriminate].
    destruct (scan rest); [discriminate|reflexivity].
  - rewrite v_of_part, v_part_atom. cbn [v_a]. destruct ctx as [rest|]; cbn in *; auto. rewrite H. reflexivity.
  - rewrite v_of_part, v_part_atom. reflexivity.
  - rewrite v_single_expr, v_ps_snoc, v_to_parts, v_to_part.
    assert (Hl : cls_ok l (octx (after ctx (Dot :: fp (to_part (u_e r))))) = true /\ cls_ok r (octx ctx) = true).
    { destruct ctx as [rest|]; cbn in *; apply andb_true_iff in H; destruct H; auto. }
    destruct Hl as [Hl Hr]. rewrite (IHl _ Hl), (IHr _ Hr). reflexivity.
  - rewrite v_e_snoc, v_to_parts. cbn [sx_of_sop].
    assert (Hl : cls_ok l (octx (after ctx (tok_of_sop OUnion :: fps (to_parts (u_e r))))) = true /\ cls_ok r (octx ctx) = true).
    { rewrite (octx_setop ctx OUnion r _ eq_refl). destruct (octx ctx); cbn in *; apply andb_true_iff in H; destruct H; auto. }
    destruct Hl as [Hl Hr]. rewrite (IHl _ Hl), (IHr _ Hr). reflexivity.
  - rewrite v_e_snoc, v_to_parts. cbn [sx_of_sop].
    assert (Hl : cls_ok l (octx (after ctx (tok_of_sop OInter :: fps (to_parts (u_e r))))) = true /\ cls_ok r (octx ctx) = true).
    { rewrite (octx_setop ctx OInter r _ eq_refl). destruct (octx ctx); cbn in *; apply andb_true_iff in H; destruct H; auto. }
    destruct Hl as [Hl Hr]. rewrite (IHl _ Hl), (IHr _ Hr). reflexivity.
  - rewrite v_e_snoc, v_to_parts. cbn [sx_of_sop].
    assert (Hl : cls_ok l (octx (after ctx (tok_of_sop ODiff :: fps (to_parts (u_e r))))) = true /\ cls_ok r (octx ctx) = true).
    { rewrite (octx_setop ctx ODiff r _ eq_refl). destruct (octx ctx); cbn in *; apply andb_true_iff in H; destruct H; auto. }
    destruct Hl as [Hl Hr]. rewrite (IHl _ Hl), (IHr _ Hr). reflexivity.
  - rewrite v_of_part. cbn [v_p fold_left ftys app]. rewrite v_to_atom. rewrite IHx; auto.
    rewrite octx_after_plain by reflexivity. destruct (octx ctx); auto.
  - assert (Hx : cls_ok x (octx ctx) = true) by (destruct (octx ctx); auto).
    destruct (u_e x) as [[[a st tys] dt] tl] eqn:E.
    assert (D : v_e (of_part (CPart (CParen (CE (CP (CPart a st tys) dt) tl)) false [t])) ctx = SSub t x).
    { rewrite v_of_part. cbn [v_p fold_left]. rewrite v_paren_atom. rewrite IHx; auto.
      rewrite octx_after_plain by reflexivity. auto. }
    destruct tl, dt; try exact D.
    rewrite v_of_part. specialize (IHx ctx Hx). rewrite v_single_expr, v_single_parts in IHx. cbn [v_p] in *.
    rewrite fold_left_app. cbn [fold_left]. f_equal. rewrite <- IHx.
    rewrite (v_a_ext a (after ctx ((if st then [Star] else []) ++ ftys (tys ++ [t]))) (after ctx ((if st then [Star] else []) ++ ftys tys)))
      by (rewrite !octx_after_plain by apply plain_suffix; reflexivity).
    reflexivity.
Qed.

(* ================= TTC ================= *)
Lemma v_te_single t : v_te (TE t TENil) = v_tt t. Proof. reflexivity. Qed.
Lemma v_tt_single f : v_tt (TT f TTNil) = v_tf f. Proof. reflexivity. Qed.
Lemma v_to_tterm c : v_tt (to_tterm c) = v_te c.
Proof. destruct c as [t tl]. destruct tl; reflexivity. Qed.
Lemma v_to_tfact c : v_tf (to_tfact c) = v_te c.
Proof. destruct c as [[f tt] tl]. destruct tl, tt; reflexivity. Qed.
Lemma v_to_tatom c : v_ta (to_tatom c) = v_te c.
Proof. destruct c as [[f tt] tl]. destruct tl, tt, f; reflexivity. Qed.
Lemma v_tet_snoc pl x : forall tl lhs, v_tet (tesnoc tl pl x) lhs = TtcBin (if pl then "addition" else "subtraction") (v_tet tl lhs) (v_tt x).
Proof. induction tl as [|b y tl IH]; intros lhs; cbn [tesnoc v_tet]; auto. Qed.
Lemma v_te_snoc c pl x : v_te (te_snoc c pl x) = TtcBin (if pl then "addition" else "subtraction") (v_te c) (v_tt x).
Proof. destruct c as [t tl]. cbn [te_snoc v_te]. apply v_tet_snoc. Qed.
Lemma v_ttt_snoc st x : forall tl lhs, v_ttt (ttsnoc tl st x) lhs = TtcBin (if st then "multiplication" else "division") (v_ttt tl lhs) (v_tf x).
Proof. induction tl as [|b y tl IH]; intros lhs; cbn [ttsnoc v_ttt]; auto. Qed.
Lemma v_tt_snoc t st x : v_tt (tt_snoc t st x) = TtcBin (if st then "multiplication" else "division") (v_tt t) (v_tf x).
Proof. destruct t as [f tl]. cbn [tt_snoc v_tt]. apply v_ttt_snoc. Qed.

Definition ttc_op_ok (o : string) : bool :=
  seqb o "addition" || seqb o "subtraction" || seqb o "multiplication" || seqb o "division" || seqb o "exponentiation".
Fixpoint wf_ttc (t : ttc) : bool :=
  match t with TtcBin o l r => ttc_op_ok o && wf_ttc l && wf_ttc r | _ => true end.
Theorem v_u_ttc t : wf_ttc t = true -> v_te (u_t t) = t.
Proof.
  induction t as [s|n args|o l IHl r IHr]; intros H; cbn [u_t].
  - reflexivity.
  - destruct args as [|a args]; [reflexivity|]. cbn [of_tatom v_te v_tet v_tt v_ttt v_tf v_ta]. f_equal.
    rewrite map_map. cbn [num_text]. apply map_id.
  - cbn [wf_ttc] in H. apply andb_true_iff in H. destruct H as [H Hr]. apply andb_true_iff in H. destruct H as [Ho Hl].
    specialize (IHl Hl). specialize (IHr Hr). unfold ttc_op_ok in Ho.
    destruct (seqb o "addition") eqn:E1; [apply seqb_spec in E1; subst; rewrite v_te_snoc, v_to_tterm, IHl, IHr; reflexivity|].
    destruct (seqb o "subtraction") eqn:E2; [apply seqb_spec in E2; subst; rewrite v_te_snoc, v_to_tterm, IHl, IHr; reflexivity|].
    destruct (seqb o "multiplication") eqn:E3; [apply seqb_spec in E3; subst; rewrite v_te_single, v_tt_snoc, v_to_tterm, v_to_tfact, IHl, IHr; reflexivity|].
    destruct (seqb o "division") eqn:E4; [apply seqb_spec in E4; subst; rewrite v_te_single, v_tt_snoc, v_to_tterm, v_to_tfact, IHl, IHr; reflexivity|].
    cbn [orb] in Ho. apply seqb_spec in Ho. subst. rewrite v_te_single, v_tt_single. cbn [v_tf]. rewrite !v_to_tatom, IHl, IHr. reflexivity.
Qed.

(* ================= steps, assets, associations ================= *)
Lemma v_metas_u m : NoDup (map fst m) -> v_metas (u_metas m) = m.
Proof.
  intros N. unfold v_metas, u_metas.
  assert (G : forall m d, NoDup (map fst d ++ map fst m) ->
     fold_left (fun d x => dset seqb d (cm_key x) (cm_val x)) (map (fun kv => mkCMeta (fst kv) (snd kv)) m) d = d ++ m).
  { induction m0 as [|[k v] r IH]; intros d Nd; cbn [map fold_left]; [rewrite app_nil_r; reflexivity|].
    cbn [cm_key cm_val fst snd]. assert (Ed : dset seqb d k v = d ++ [(k, v)]).
    { assert (Nk : ~ In k (map fst d)).
      { intros A. apply NoDup_remove_2 in Nd. apply Nd. apply in_or_app. left; auto. }
      clear - Nk. induction d as [|[k0 v0] d IH]; cbn; auto. destruct (seqb k k0) eqn:E.
      - apply seqb_spec in E. subst. exfalso. apply Nk. left; auto.
      - rewrite IH; auto. intros A. apply Nk. right; auto. }
    rewrite Ed. rewrite IH.
    - rewrite <- app_assoc. reflexivity.
    - rewrite map_app. cbn [map fst]. rewrite <- app_assoc. cbn [app]. exact Nd. }
  apply (G m []). exact N.
Qed.

Definition steptype_ok (t : string) : bool :=
  seqb t "or" || seqb t "and" || seqb t "defense" || seqb t "exist" || seqb t "notExist".
Lemma v_u_steptype t : steptype_ok t = true -> v_steptype (u_steptype t) = t.
Proof.
  unfold steptype_ok, u_steptype. intros H.
  destruct (seqb t "or") eqn:E1; [apply seqb_spec in E1; subst; reflexivity|].
  destruct (seqb t "and") eqn:E2; [apply seqb_spec in E2; subst; reflexivity|].
  destruct (seqb t "defense") eqn:E3; [apply seqb_spec in E3; subst; reflexivity|].
  destruct (seqb t "exist") eqn:E4; [apply seqb_spec in E4; subst; reflexivity|].
  cbn in H. apply seqb_spec in H. subst. reflexivity.
Qed.
Definition risk_ok (r : risk) : bool := r_conf r || r_integ r || r_avail r.
Lemma v_u_cias r : risk_ok r = true -> option_map (fun p => v_cias (fst p) (snd p)) (u_cias r) = Some r.
Proof. destruct r as [[] [] []]; cbn; intros H; try discriminate; reflexivity. Qed.

Lemma v_reach_exprs_u : forall l e, forallb (fun e => wf_cls e false) (e :: l) = true ->
  v_reach_exprs (u_e e) (map u_e l) = e :: l.
Proof.
  induction l as [|e2 r IH]; intros e H; cbn [map v_reach_exprs].
  - cbn in H. rewrite andb_true_r in H. rewrite v_u_expr; auto.
  - cbn [forallb] in H. apply andb_true_iff in H. destruct H as [H1 H2]. rewrite IH by exact H2. f_equal.
    apply v_u_expr. cbn. exact H1.
Qed.

Definition wf_step (s : fstep_) : bool :=
  steptype_ok (fs_type_ s) &&
  match fs_risk s with Some r => risk_ok r | None => true end &&
  match fs_ttc s with Some t => wf_ttc t | None => true end &&
  match fs_requires s with Some l => negb (match l with [] => true | _ => false end) && forallb all_fields l | None => true end &&
  match fs_reaches s with Some (_, l) => negb (match l with [] => true | _ => false end) && forallb (fun e => wf_cls e false) l | None => true end.
Definition meta_ok (m : list (string * string)) : Prop := NoDup (map fst m).

Theorem v_u_step s : wf_step s = true -> meta_ok (fs_meta s) -> v_step (u_step s) = s.
Proof.
  destruct s as [name meta typ tags rk tt req rea]. unfold wf_step. cbn [fs_type_ fs_risk fs_ttc fs_requires fs_reaches fs_meta].
  intros H M. apply andb_true_iff in H. destruct H as [H H5]. apply andb_true_iff in H. destruct H as [H H4].
  apply andb_true_iff in H. destruct H as [H H3]. apply andb_true_iff in H. destruct H as [H1 H2].
  unfold v_step, u_step. cbn [cs_name cs_meta cs_type cs_tags cs_cias cs_ttc cs_pre cs_reaches fs_name_ fs_meta fs_type_ fs_tags fs_risk fs_ttc fs_requires fs_reaches].
  rewrite v_metas_u by exact M. rewrite v_u_steptype by exact H1. f_equal.
  - destruct rk as [r|]; auto. pose proof (v_u_cias r H2) as P. destruct (u_cias r) as [[c cs]|]; cbn in P; [inversion P; reflexivity|discriminate].
  - destruct tt as [t|]; cbn; auto. rewrite v_u_ttc; auto.
  - destruct req as [[|e l]|]; cbn in *; auto; [discriminate|]. f_equal. f_equal.
    + apply v_u_expr. cbn. apply andb_true_iff in H4. tauto.
    + apply andb_true_iff in H4. destruct H4 as [_ H4]. rewrite map_map. rewrite <- (map_id l) at 2. apply map_ext_in.
      intros a Ha. apply v_u_expr. cbn. rewrite forallb_forall in H4. auto.
  - destruct rea as [[ov [|e l]]|]; cbn in *; auto; [discriminate|]. rewrite negb_involutive. f_equal. f_equal.
    apply v_reach_exprs_u. exact H5.
Qed.

Lemma flat_map_vars (vars : list (string * sexpr)) (steps : list fstep_) (f : cstep -> cmember) :
  flat_map (fun m => match m with MVar v => [(cv_name v, v_e (cv_expr v) None)] | MStep _ => [] end)
           (map (fun v => MVar (mkCVar (fst v) (u_e (snd v)))) vars ++ map (fun s => f (u_step s)) steps)
  = map (fun v => (fst v, v_e (u_e (snd v)) None)) vars ++
    flat_map (fun m => match m with MVar v => [(cv_name v, v_e (cv_expr v) None)] | MStep _ => [] end) (map (fun s => f (u_step s)) steps).
Proof. rewrite flat_map_app. f_equal. induction vars as [|v r IH]; cbn; auto. rewrite IH. reflexivity. Qed.

Definition wf_asset (a : fasset_) : Prop :=
  meta_ok (fa_meta a) /\ forallb (fun v => all_fields (snd v)) (fa_vars a) = true /\
  (forall s, In s (fa_steps a) -> wf_step s = true /\ meta_ok (fs_meta s)).
Theorem v_u_asset a : wf_asset a -> v_asset (fa_category a) (u_asset a) = a.
Proof.
  destruct a as [name meta cat abs sup vars steps]. intros (M & V & S). cbn [fa_meta fa_vars fa_steps fa_category] in *.
  unfold v_asset, u_asset. cbn [ca_name ca_meta ca_abstract ca_extends ca_members fa_name fa_meta fa_abstract fa_super fa_vars fa_steps].
  rewrite v_metas_u by exact M. f_equal.
  - rewrite (flat_map_vars vars steps MStep).
    assert (E : flat_map (fun m => match m with MVar v => [(cv_name v, v_e (cv_expr v) None)] | MStep _ => [] end)
                         (map (fun s => MStep (u_step s)) steps) = []) by (clear; induction steps; cbn; auto).
    rewrite E, app_nil_r. rewrite <- (map_id vars) at 2. apply map_ext_in. intros [n e] Hv. cbn. f_equal.
    apply v_u_expr. cbn. rewrite forallb_forall in V. apply (V _ Hv).
  - rewrite flat_map_app.
    assert (E : flat_map (fun m => match m with MStep s => [v_step s] | MVar _ => [] end)
                         (map (fun v => MVar (mkCVar (fst v) (u_e (snd v)))) vars) = []) by (clear; induction vars; cbn; auto).
    rewrite E. cbn [app]. clear E. induction steps as [|s r IH]; cbn; auto. rewrite IH by (intros; apply S; right; auto).
    destruct (S s (or_introl eq_refl)). rewrite v_u_step; auto.
Qed.

Lemma string_of_Z_not_star z : seqb (string_of_Z z) "*" = false.
Proof.
  destruct (seqb (string_of_Z z) "*") eqn:E; auto. apply seqb_spec in E. pose proof (Z_of_string_of_Z z) as P.
  rewrite E in P. vm_compute in P. discriminate.
Qed.
Definition mult_ok (lo hi : mval) : bool :=
  match lo, hi with MvInt _, MvNone | MvInt _, MvInt _ => true | _, _ => false end.
Lemma v_u_mult lo hi : mult_ok lo hi = true -> v_mult (u_mult lo hi) = (lo, hi).
Proof.
  destruct lo as [l| |]; try discriminate. destruct hi as [h| |]; try discriminate; intros _; unfold u_mult.
  - destruct (Z.eqb_spec l h) as [->|N]; unfold v_mult, u_bound; cbn [cmu_lo cmu_hi v_bound_text];
      rewrite ?string_of_Z_not_star; unfold cast_bound; rewrite ?Z_of_string_of_Z; reflexivity.
  - destruct (Z.eqb_spec l 0) as [->|N]; [reflexivity|]. unfold v_mult, u_bound; cbn [cmu_lo cmu_hi v_bound_text].
    rewrite string_of_Z_not_star. unfold cast_bound. rewrite Z_of_string_of_Z. reflexivity.
Qed.
Definition wf_assoc_ (a : fassoc_) : Prop :=
  meta_ok (fas_meta a) /\ mult_ok (fas_lmin a) (fas_lmax a) = true /\ mult_ok (fas_rmin a) (fas_rmax a) = true.
Theorem v_u_assoc a : wf_assoc_ a -> v_assoc (u_assoc a) = a.
Proof.
  destruct a as [name meta la lf lmin lmax ra rf rmin rmax]. intros (M & L & R). cbn [fas_meta fas_lmin fas_lmax fas_rmin fas_rmax] in *.
  unfold v_assoc, u_assoc. cbn [cas_lmult cas_rmult cas_name cas_meta cas_left cas_lfield cas_right cas_rfield
                                fas_name fas_meta fas_left fas_lfield fas_lmin fas_lmax fas_right fas_rfield fas_rmin fas_rmax].
  rewrite (v_u_mult _ _ L), (v_u_mult _ _ R), v_metas_u by exact M. reflexivity.
Qed.

(* ================= de-duplication ================= *)
Section DedupeFacts.
Context {A : Type} (eqb : A -> A -> bool).
Definition dstep (unique : list A) (x : A) : list A := if existsb (eqb x) unique then unique else unique ++ [x].
Fixpoint distinct_from (seen : list A) (l : list A) : bool :=
  match l with [] => true | x :: r => negb (existsb (eqb x) seen) && distinct_from (seen ++ [x]) r end.
Definition distinctb (l : list A) : bool := distinct_from [] l.
Lemma dedupe_distinct : forall l u, distinct_from u l = true -> fold_left dstep l u = u ++ l.
Proof.
  induction l as [|x r IH]; intros u H; cbn [fold_left]; [rewrite app_nil_r; reflexivity|].
  cbn in H. apply andb_true_iff in H. destruct H as [H1 H2]. apply negb_true_iff in H1. unfold dstep at 2. rewrite H1.
  rewrite IH by exact H2. rewrite <- app_assoc. reflexivity.
Qed.
Lemma dedupe_absorb : forall extra u, (forall x, In x extra -> existsb (eqb x) u = true) -> fold_left dstep extra u = u.
Proof.
  induction extra as [|x r IH]; intros u H; cbn [fold_left]; auto. unfold dstep at 2. rewrite (H x (or_introl eq_refl)).
  apply IH. intros y Hy. apply H. right; auto.
Qed.
Lemma dedupe_id l : distinctb l = true -> dedupe eqb l = l.
Proof. intros H. unfold dedupe. change (fold_left dstep l [] = l). rewrite dedupe_distinct; auto. Qed.
Lemma dedupe_app_absorb l extra : distinctb l = true -> (forall x, In x extra -> existsb (eqb x) l = true) ->
  dedupe eqb (l ++ extra) = l.
Proof.
  intros H E. unfold dedupe. change (fold_left dstep (l ++ extra) [] = l). rewrite fold_left_app.
  rewrite (dedupe_distinct l [] H). cbn [app]. apply dedupe_absorb. exact E.
Qed.
End DedupeFacts.

Lemma list_eqb_refl {A} (eqb : A -> A -> bool) : (forall x, eqb x x = true) -> forall l, list_eqb eqb l l = true.
Proof. intros R. induction l; cbn; auto. rewrite R, IHl. reflexivity. Qed.
Lemma seqb_refl s : seqb s s = true. Proof. apply seqb_spec. reflexivity. Qed.
Lemma fcat_eqb_refl c : fcat_eqb c c = true.
Proof.
  unfold fcat_eqb, meta_eqb. rewrite seqb_refl. cbn. apply list_eqb_refl. intros [k v]. unfold pair_eqb. cbn. rewrite !seqb_refl. reflexivity.
Qed.

(* ================= the whole specification ================= *)
Record wf_spec (s : fspec) : Prop := mkWf {
  wf_defines : NoDup (map fst (sp_defines s));
  wf_cat_meta : forall c, In c (sp_categories s) -> meta_ok (fc_meta c);
  wf_cats : distinctb fcat_eqb (sp_categories s) = true;
  wf_assets_each : forall a, In a (sp_assets s) -> wf_asset a /\ exists c, find (fun c => seqb (fc_name c) (fa_category a)) (sp_categories s) = Some c;
  wf_assets : distinctb fasset_eqb (sp_assets s) = true;
  wf_assocs_each : forall a, In a (sp_assocs s) -> wf_assoc_ a;
  wf_assocs : distinctb fassoc_eqb (sp_assocs s) = true }.

Section Whole.
Variable files : string -> option cmal.
Definition mstep_ (f : nat) (acc : option fspec) (d : cdecl) : option fspec :=
  match acc with
  | None => None
  | Some s =>
    match d with
    | DCategory c =>
        Some (mkFSpec (sp_defines s) (sp_categories s ++ [mkFCat (cc_name c) (v_metas (cc_meta c))])
                      (sp_assets s ++ map (v_asset (cc_name c)) (cc_assets c)) (sp_assocs s))
    | DDefine k v => Some (mkFSpec (dset seqb (sp_defines s) k v) (sp_categories s) (sp_assets s) (sp_assocs s))
    | DAssociations l => Some (mkFSpec (sp_defines s) (sp_categories s) (sp_assets s) (sp_assocs s ++ map v_assoc l))
    | DInclude file =>
        match files file with
        | None => None
        | Some m' =>
          match v_mal files f m' with
          | None => None
          | Some inc => Some (mkFSpec (dict_update (sp_defines s) (sp_defines inc)) (sp_categories s ++ sp_categories inc)
                                      (sp_assets s ++ sp_assets inc) (sp_assocs s ++ sp_assocs inc))
          end
        end
    end
  end.
Lemma v_mal_unfold f m : v_mal files (S f) m = option_map spec_dedupe (fold_left (mstep_ f) m (Some spec_empty)).
Proof. reflexivity. Qed.

Lemma fold_defines f : forall defs s, NoDup (map fst (sp_defines s) ++ map fst defs) ->
  fold_left (mstep_ f) (map (fun kv => DDefine (fst kv) (snd kv)) defs) (Some s)
  = Some (mkFSpec (sp_defines s ++ defs) (sp_categories s) (sp_assets s) (sp_assocs s)).
Proof.
  induction defs as [|[k v] r IH]; intros s N; cbn [map fold_left].
  - rewrite app_nil_r. destruct s; reflexivity.
  - cbn [mstep_ fst snd].
    assert (Ed : dset seqb (sp_defines s) k v = sp_defines s ++ [(k, v)]).
    { assert (Nk : ~ In k (map fst (sp_defines s))).
      { intros A. apply NoDup_remove_2 in N. apply N. apply in_or_app. left; auto. }
      clear - Nk. induction (sp_defines s) as [|[k0 v0] d IH]; cbn; auto. destruct (seqb k k0) eqn:E.
      - apply seqb_spec in E. subst. exfalso. apply Nk. left; auto.
      - rewrite IH; auto. intros A. apply Nk. right; auto. }
    rewrite Ed. rewrite IH; cbn [sp_defines sp_categories sp_assets sp_assocs].
    + rewrite <- app_assoc. reflexivity.
    + rewrite map_app. cbn [map fst]. rewrite <- app_assoc. exact N.
Qed.
Lemma fold_empty_cats f : forall (cats : list fcategory_) s, (forall c, In c cats -> meta_ok (fc_meta c)) ->
  fold_left (mstep_ f) (map (fun c => DCategory (mkCCat (fc_name c) (u_metas (fc_meta c)) [])) cats) (Some s)
  = Some (mkFSpec (sp_defines s) (sp_categories s ++ cats) (sp_assets s) (sp_assocs s)).
Proof.
  induction cats as [|c r IH]; intros s M; cbn [map fold_left].
  - rewrite app_nil_r. destruct s; reflexivity.
  - cbn [mstep_ cc_name cc_meta cc_assets map]. rewrite v_metas_u by (apply M; left; auto). rewrite IH by (intros; apply M; right; auto).
    cbn [sp_defines sp_categories sp_assets sp_assocs]. rewrite app_nil_r, <- app_assoc. destruct c; reflexivity.
Qed.
Lemma fold_asset_blocks f (s0 : fspec) : forall (assets : list fasset_) s,
  (forall a, In a assets -> wf_asset a /\ exists c, find (fun c => seqb (fc_name c) (fa_category a)) (sp_categories s0) = Some c) ->
  (forall c, In c (sp_categories s0) -> meta_ok (fc_meta c)) ->
  exists extra, (forall x, In x extra -> In x (sp_categories s0)) /\
  fold_left (mstep_ f) (map (fun a => DCategory (mkCCat (fa_category a) (u_metas (cat_meta s0 (fa_category a))) [u_asset a])) assets) (Some s)
  = Some (mkFSpec (sp_defines s) (sp_categories s ++ extra) (sp_assets s ++ assets) (sp_assocs s)).
Proof.
  induction assets as [|a r IH]; intros s W M; cbn [map fold_left].
  - exists []. split; [intros ? []|]. rewrite !app_nil_r. destruct s; reflexivity.
  - destruct (W a (or_introl eq_refl)) as [Wa (c & Ec)]. pose proof (find_some _ _ Ec) as [Hc En]. apply seqb_spec in En.
    assert (Ecm : cat_meta s0 (fa_category a) = fc_meta c) by (unfold cat_meta; rewrite Ec; reflexivity).
    cbn [mstep_ cc_name cc_meta cc_assets map]. rewrite Ecm. rewrite v_metas_u by (apply M; auto).
    rewrite v_u_asset by exact Wa.
    destruct (IH (mkFSpec (sp_defines s) (sp_categories s ++ [mkFCat (fa_category a) (fc_meta c)]) (sp_assets s ++ [a]) (sp_assocs s))
                 (fun x Hx => W x (or_intror Hx)) M) as (extra & Hex & E).
    exists (mkFCat (fa_category a) (fc_meta c) :: extra). split.
    + intros x [<-|Hx]; auto. rewrite <- En. destruct c; exact Hc.
    + rewrite E. cbn [sp_defines sp_categories sp_assets sp_assocs]. rewrite <- !app_assoc. reflexivity.
Qed.

Theorem v_u_spec f s : wf_spec s -> v_mal files (S f) (u_mal s) = Some s.
Proof.
  intros W. rewrite v_mal_unfold. unfold u_mal. rewrite !fold_left_app.
  rewrite fold_defines by (cbn; apply (wf_defines s W)). cbn [spec_empty sp_defines sp_categories sp_assets sp_assocs app].
  rewrite fold_empty_cats by (apply (wf_cat_meta s W)). cbn [sp_defines sp_categories sp_assets sp_assocs app].
  destruct (fold_asset_blocks f s (sp_assets s) (mkFSpec (sp_defines s) (sp_categories s) [] []) (wf_assets_each s W) (wf_cat_meta s W))
    as (extra & Hex & E).
  rewrite E. cbn [sp_defines sp_categories sp_assets sp_assocs app].
  assert (Fin : forall l, (forall a, In a l -> wf_assoc_ a) ->
     fold_left (mstep_ f) (match l with [] => [] | f0 :: l0 => [DAssociations (map u_assoc (f0 :: l0))] end)
               (Some (mkFSpec (sp_defines s) (sp_categories s ++ extra) (sp_assets s) []))
     = Some (mkFSpec (sp_defines s) (sp_categories s ++ extra) (sp_assets s) l)).
  { intros l Wl. destruct l as [|a r]; [reflexivity|]. cbn [fold_left mstep_ sp_defines sp_categories sp_assets sp_assocs app]. f_equal. f_equal.
    rewrite map_map. rewrite <- (map_id (a :: r)) at 2. apply map_ext_in. intros x Hx. apply v_u_assoc. auto. }
  rewrite (Fin _ (wf_assocs_each s W)). cbn [option_map]. f_equal. unfold spec_dedupe. cbn [sp_defines sp_categories sp_assets sp_assocs].
  rewrite (dedupe_app_absorb fcat_eqb (sp_categories s) extra (wf_cats s W))
    by (intros x Hx; apply existsb_exists; exists x; split; [apply Hex; auto|apply fcat_eqb_refl]).
  rewrite (dedupe_id fasset_eqb) by apply (wf_assets s W). rewrite (dedupe_id fassoc_eqb) by apply (wf_assocs s W).
  destruct s; reflexivity.
Qed.
End Whole.

(* ================= a decidable version of the premise ================= *)
Definition nodupb (l : list string) : bool :=
  (fix go (seen l : list string) : bool :=
     match l with [] => true | x :: r => negb (existsb (seqb x) seen) && go (x :: seen) r end) [] l.
Lemma nodupb_ok l : nodupb l = true -> NoDup l.
Proof.
  unfold nodupb.
  assert (G : forall l seen,
    (fix go (seen l : list string) : bool :=
       match l with [] => true | x :: r => negb (existsb (seqb x) seen) && go (x :: seen) r end) seen l = true ->
    NoDup l /\ forall x, In x l -> ~ In x seen).
  { induction l0 as [|x r IH]; intros seen H; [split; [constructor|intros ? []]|].
    apply andb_true_iff in H. destruct H as [H1 H2]. apply negb_true_iff in H1. destruct (IH _ H2) as [N1 N2]. split.
    - constructor; auto. intros A. apply (N2 x A). left; auto.
    - intros y [<-|Hy] A.
      + assert (existsb (seqb x) seen = true) by (apply existsb_exists; exists x; split; auto; apply seqb_spec; auto). congruence.
      + apply (N2 y Hy). right; auto. }
  intros H. apply (G l [] H).
Qed.
Definition wf_assetb (a : fasset_) : bool :=
  nodupb (map fst (fa_meta a)) && forallb (fun v => all_fields (snd v)) (fa_vars a) &&
  forallb (fun s => wf_step s && nodupb (map fst (fs_meta s))) (fa_steps a).
Definition wf_assocb (a : fassoc_) : bool :=
  nodupb (map fst (fas_meta a)) && mult_ok (fas_lmin a) (fas_lmax a) && mult_ok (fas_rmin a) (fas_rmax a).
Definition wf_specb (s : fspec) : bool :=
  nodupb (map fst (sp_defines s)) && forallb (fun c => nodupb (map fst (fc_meta c))) (sp_categories s) &&
  distinctb fcat_eqb (sp_categories s) &&
  forallb (fun a => wf_assetb a && match find (fun c => seqb (fc_name c) (fa_category a)) (sp_categories s) with Some _ => true | None => false end) (sp_assets s) &&
  distinctb fasset_eqb (sp_assets s) && forallb wf_assocb (sp_assocs s) && distinctb fassoc_eqb (sp_assocs s).
Theorem wf_specb_ok s : wf_specb s = true -> wf_spec s.
Proof.
  unfold wf_specb. intros H.
  apply andb_true_iff in H. destruct H as [H HG]. apply andb_true_iff in H. destruct H as [H HF].
  apply andb_true_iff in H. destruct H as [H HE]. apply andb_true_iff in H. destruct H as [H HD].
  apply andb_true_iff in H. destruct H as [H HC]. apply andb_true_iff in H. destruct H as [HA HB].
  constructor; auto.
  - apply nodupb_ok; auto.
  - intros c Hc. apply nodupb_ok. rewrite forallb_forall in HB. apply HB; auto.
  - intros a Ha. rewrite forallb_forall in HD. specialize (HD a Ha). apply andb_true_iff in HD. destruct HD as [Wa Wc]. split.
    + unfold wf_assetb in Wa. apply andb_true_iff in Wa. destruct Wa as [Wa W3]. apply andb_true_iff in Wa. destruct Wa as [W1 W2].
      split; [apply nodupb_ok; auto|]. split; auto. intros st Hs. rewrite forallb_forall in W3. specialize (W3 st Hs).
      apply andb_true_iff in W3. destruct W3. split; auto. apply nodupb_ok; auto.
    + destruct (find _ (sp_categories s)) as [c|]; [eauto|discriminate].
  - intros a Ha. rewrite forallb_forall in HF. specialize (HF a Ha). unfold wf_assocb in HF.
    apply andb_true_iff in HF. destruct HF as [HF W3]. apply andb_true_iff in HF. destruct HF as [W1 W2].
    split; [apply nodupb_ok; auto|auto].
Qed.
