(* GraphSaveThm.v — the content of every coherent graph (in particular of every graph reached by a history of the
   attack-graph machine) is loadable, so saving it and loading the file with its model rebuilds a coherent graph with
   the same nodes, children, parents up to order, and attackers. (C10) *)
From MT Require Import Prelude ListFacts Graph Apriori GraphAn GraphOps GraphInv Codec ModelIO GraphIO GraphLoad GraphLoadThm.
From Coq Require Import Arith Permutation.

Lemma NoDup_map_on {A B} (f : A -> B) (l : list A) :
  (forall x y, In x l -> In y l -> f x = f y -> x = y) -> NoDup l -> NoDup (map f l).
Proof.
  intros Inj. induction 1 as [|x r Hx N IH]; cbn; constructor.
  - intros A0. apply in_map_iff in A0. destruct A0 as (y & E & Hy). assert (y = x) by (apply Inj; cbn; auto). subst; auto.
  - apply IH. intros a b Ha Hb. apply Inj; cbn; auto.
Qed.

Section Save.
Variable s : st.
Hypothesis W : WF s.
Let nodes := g_nodes (s_g s).
Let atts := g_atts (s_g s).

Lemma node_has_id o : In o nodes -> n_id (s_nh s o) = Some (nidz s o) /\ dget Z.eqb (g_id2node (s_g s)) (nidz s o) = Some o.
Proof.
  intros Ho. destruct (wf_idx_id s W) as (_ & B & _). destruct (B o Ho) as (k & Hk & Hd). unfold id_of in Hk.
  unfold nidz. rewrite Hk. auto.
Qed.
Lemma nidz_inj o1 o2 : In o1 nodes -> In o2 nodes -> nidz s o1 = nidz s o2 -> o1 = o2.
Proof.
  intros H1 H2 E. destruct (node_has_id o1 H1) as [_ D1]. destruct (node_has_id o2 H2) as [_ D2]. rewrite E in D1. congruence.
Qed.
Lemma children_in o c : In o nodes -> In c (n_children (s_nh s o)) -> In c nodes.
Proof. intros Ho Hc. destruct (wf_struct s W) as (A & _ & _). apply (A o c Ho Hc). Qed.
Lemma parents_in o p : In o nodes -> In p (n_parents (s_nh s o)) -> In p nodes.
Proof. intros Ho Hp. destruct (wf_struct s W) as (_ & B & _). apply (B o p Ho Hp). Qed.
Lemma mirror p c : In p nodes -> In c nodes -> (In c (n_children (s_nh s p)) <-> In p (n_parents (s_nh s c))).
Proof.
  intros Hp Hc. destruct (wf_struct s W) as (_ & _ & M). specialize (M p c Hp Hc). unfold ch_of, pa_of in M.
  rewrite (In_cnt c), (In_cnt p). rewrite M. tauto.
Qed.

Lemma gfull_state o : In o nodes -> gfull true (gnode_of s o) = full_name (s_nh s o).
Proof.
  intros Ho. destruct (node_has_id o Ho) as [Hi _]. unfold gfull, full_name, gnode_of. cbn.
  destruct (n_asset (s_nh s o)); [reflexivity|]. rewrite Hi. reflexivity.
Qed.

Lemma in_dedup_map (l : list nat) i : In i (dedup_z (map (nidz s) l) []) <-> exists x, In x l /\ nidz s x = i.
Proof.
  rewrite dedup_z_In. rewrite in_map_iff. split.
  - intros [(x & E & Hx) _]. eauto.
  - intros (x & Hx & E). split; [eauto|intros []].
Qed.

Theorem content_gloadable : GLoadable true (gcontent_of s).
Proof.
  destruct (wf_alloc s W) as (Nn & Na & _ & _).
  constructor; unfold gcontent_of, ids_of_nodes; cbn [gc_nodes gc_atts]; fold nodes; fold atts.
  - rewrite map_map. cbn [gnode_of gn_id]. apply NoDup_map_on; auto. intros x y Hx Hy. apply nidz_inj; auto.
  - rewrite map_map. rewrite (map_ext_in _ (fun o => full_name (s_nh s o))) by (intros o Ho; apply gfull_state; auto).
    apply NoDup_map_on; auto. intros x y Hx Hy E.
    destruct (wf_idx_name s W) as (_ & B & _). destruct (B x Hx) as (k1 & K1 & D1). destruct (B y Hy) as (k2 & K2 & D2).
    unfold fn_of in K1, K2. inversion K1; inversion K2; subst. rewrite E in D1. congruence.
  - intros n Hn. apply in_map_iff in Hn. destruct Hn as (o & <- & Ho). cbn [gnode_of gn_children]. split; [apply dedup_z_NoDup|].
    intros i Hi. apply in_dedup_map in Hi. destruct Hi as (x & Hx & <-). rewrite map_map. cbn [gnode_of gn_id].
    apply in_map_iff. exists x. split; auto. eapply children_in; eauto.
  - intros n Hn. apply in_map_iff in Hn. destruct Hn as (o & <- & Ho). cbn [gnode_of gn_parents]. apply dedup_z_NoDup.
  - intros n m Hn Hm. apply in_map_iff in Hn. destruct Hn as (p & <- & Hp). apply in_map_iff in Hm. destruct Hm as (c & <- & Hc).
    cbn [gnode_of gn_id gn_children gn_parents]. rewrite !in_dedup_map. split.
    + intros (x & Hx & E). assert (Hxn : In x nodes) by (apply (children_in p x Hp Hx)).
      assert (x = c) by (apply nidz_inj; auto). subst x.
      exists p. split; auto. apply mirror; auto.
    + intros (x & Hx & E). assert (Hxn : In x nodes) by (apply (parents_in c x Hc Hx)).
      assert (x = p) by (apply nidz_inj; auto). subst x.
      exists c. split; auto. apply mirror; auto.
  - intros m i Hm Hi. apply in_map_iff in Hm. destruct Hm as (o & <- & Ho). cbn [gnode_of gn_parents] in Hi.
    apply in_dedup_map in Hi. destruct Hi as (x & Hx & <-). rewrite map_map. cbn [gnode_of gn_id].
    apply in_map_iff. exists x. split; auto. eapply parents_in; eauto.
  - rewrite map_map. cbn [gatt_of ga_id]. apply NoDup_map_on; auto. intros x y Hx Hy E.
    destruct (wf_idx_att s W) as (_ & B & _). destruct (B x Hx) as (k1 & K1 & D1). destruct (B y Hy) as (k2 & K2 & D2).
    unfold aid_of in K1, K2. rewrite K1, K2 in E. subst k2. congruence.
  - intros a Ha. apply in_map_iff in Ha. destruct Ha as (x & <- & Hx). cbn [gatt_of ga_reached ga_entry].
    split; [apply dedup_z_NoDup|]. split; [apply dedup_z_NoDup|].
    destruct (wf_att s W) as (_ & T2 & T3 & _).
    intros i Hi. rewrite map_map. cbn [gnode_of gn_id]. apply in_app_or in Hi. destruct Hi as [Hi|Hi]; apply in_dedup_map in Hi;
      destruct Hi as (o & Ho & <-); apply in_map_iff; exists o; split; auto.
    + apply (T2 x o Hx Ho).
    + apply (T3 x o Hx Ho).
Qed.
End Save.

(* every history of the machine: save the graph, load the document with the model *)
Theorem history_save_load ops :
  let s := final ops in
  exists s', gload true (gcontent_of s) = Some s' /\ WF s' /\
             Forall2 gn_equiv (gc_nodes (gcontent_of s')) (gc_nodes (gcontent_of s)) /\ gc_atts (gcontent_of s') = gc_atts (gcontent_of s).
Proof.
  intros s. pose proof (content_gloadable s (reachable_WF ops)) as GL.
  destruct (gload_spec true (gcontent_of s) GL) as (s' & E & W' & N & A). exists s'. auto.
Qed.
