(* Prelude: Python list / dict discipline as total Gallina functions, JSON-like value trees,
   decimal printing of integers, and the case runner used by the generated correspondence files. *)
From Coq Require Export List ZArith Bool Lia String Ascii.
From Coq Require Import DecimalString Decimal.
Export ListNotations.
Open Scope string_scope.
Open Scope list_scope.

(* ---------- small boolean helpers ---------- *)
Definition opt_eqb {A} (eqb : A -> A -> bool) (a b : option A) : bool :=
  match a, b with
  | None, None => true
  | Some x, Some y => eqb x y
  | _, _ => false
  end.
Fixpoint list_eqb {A} (eqb : A -> A -> bool) (a b : list A) : bool :=
  match a, b with
  | [], [] => true
  | x :: a', y :: b' => eqb x y && list_eqb eqb a' b'
  | _, _ => false
  end.
Definition pair_eqb {A B} (ea : A -> A -> bool) (eb : B -> B -> bool) (p q : A * B) : bool :=
  ea (fst p) (fst q) && eb (snd p) (snd q).

Lemma list_eqb_spec {A} (eqb : A -> A -> bool) :
  (forall x y, eqb x y = true <-> x = y) -> forall a b, list_eqb eqb a b = true <-> a = b.
Proof.
  intros H. induction a as [|x a IH]; destruct b as [|y b]; cbn; try (split; congruence).
  rewrite andb_true_iff, H, IH. split; [intros [-> ->]; auto | intros E; inversion E; auto].
Qed.

(* ---------- membership and removal on lists of naturals (object handles) ---------- *)
Definition memn (x : nat) (l : list nat) : bool := existsb (Nat.eqb x) l.
Lemma memn_In x l : memn x l = true <-> In x l.
Proof.
  unfold memn. rewrite existsb_exists. split.
  - intros [y [H1 H2]]. apply Nat.eqb_eq in H2. subst; auto.
  - intros H. exists x. split; auto. apply Nat.eqb_refl.
Qed.
Lemma memn_nIn x l : memn x l = false <-> ~ In x l.
Proof. rewrite <- memn_In. destruct (memn x l); intuition congruence. Qed.

(* Python list.remove(x): drop the first element equal to x *)
Fixpoint remove1 (x : nat) (l : list nat) : list nat :=
  match l with
  | [] => []
  | y :: r => if Nat.eqb x y then r else y :: remove1 x r
  end.
Lemma remove1_In x y l : In y (remove1 x l) -> In y l.
Proof.
  induction l as [|a r IH]; cbn; auto. destruct (Nat.eqb x a); cbn; intuition.
Qed.
Lemma remove1_In_neq x y l : x <> y -> In y l -> In y (remove1 x l).
Proof.
  intros N. induction l as [|a r IH]; cbn; auto. destruct (Nat.eqb_spec x a); cbn.
  - subst. intros [E|H]; [congruence|auto].
  - intros [E|H]; auto.
Qed.
Lemma remove1_NoDup x l : NoDup l -> NoDup (remove1 x l).
Proof.
  induction 1 as [|a r Hn Hd IH]; cbn; [constructor|].
  destruct (Nat.eqb x a); auto. constructor; auto. intros A. apply Hn. eapply remove1_In; eauto.
Qed.
Lemma remove1_NoDup_nIn x l : NoDup l -> ~ In x (remove1 x l).
Proof.
  induction 1 as [|a r Hn Hd IH]; cbn; auto.
  destruct (Nat.eqb_spec x a); [subst; auto|]. cbn. intros [E|H]; [congruence|auto].
Qed.
Lemma remove1_notin x l : ~ In x l -> remove1 x l = l.
Proof.
  induction l as [|a r IH]; cbn; auto. intros H. destruct (Nat.eqb_spec x a).
  - subst. exfalso. apply H; auto.
  - f_equal. apply IH. intros A. apply H; auto.
Qed.

(* keep every element different from x (a comprehension with "is not") *)
Definition remove_all (x : nat) (l : list nat) : list nat := filter (fun y => negb (Nat.eqb x y)) l.
Lemma remove_all_In x y l : In y (remove_all x l) <-> In y l /\ y <> x.
Proof.
  unfold remove_all. rewrite filter_In, negb_true_iff, Nat.eqb_neq. intuition.
Qed.

(* update the element at index i *)
Fixpoint upd {A} (l : list A) (i : nat) (f : A -> A) : list A :=
  match l, i with
  | [], _ => []
  | x :: r, O => f x :: r
  | x :: r, S j => x :: upd r j f
  end.
Lemma upd_length {A} (l : list A) i f : List.length (upd l i f) = List.length l.
Proof. revert i; induction l as [|x r IH]; intros [|j]; cbn; auto. Qed.
Lemma nth_error_upd_same {A} (l : list A) i f x :
  nth_error l i = Some x -> nth_error (upd l i f) i = Some (f x).
Proof. revert i; induction l as [|y r IH]; intros [|j]; cbn; try discriminate; auto. congruence. Qed.
Lemma nth_error_upd_other {A} (l : list A) i j f :
  i <> j -> nth_error (upd l i f) j = nth_error l j.
Proof.
  revert i j; induction l as [|y r IH]; intros [|i] [|j] N; cbn; auto; try congruence.
Qed.
Lemma nth_error_upd {A} (l : list A) i j f :
  nth_error (upd l i f) j =
  if Nat.eqb i j then option_map f (nth_error l j) else nth_error l j.
Proof.
  destruct (Nat.eqb_spec i j) as [->|N].
  - destruct (nth_error l j) eqn:E; cbn.
    + apply nth_error_upd_same; auto.
    + apply nth_error_None. rewrite upd_length. apply nth_error_None; auto.
  - apply nth_error_upd_other; auto.
Qed.

(* ---------- ordered dictionaries with Python's update discipline ---------- *)
Section Dict.
Context {K V : Type} (keqb : K -> K -> bool).
Fixpoint dget (d : list (K * V)) (k : K) : option V :=
  match d with
  | [] => None
  | (k', v) :: r => if keqb k k' then Some v else dget r k
  end.
Definition dhas (d : list (K * V)) (k : K) : bool :=
  match dget d k with Some _ => true | None => false end.
(* d[k] = v : replace in place or append *)
Fixpoint dset (d : list (K * V)) (k : K) (v : V) : list (K * V) :=
  match d with
  | [] => [(k, v)]
  | (k', v') :: r => if keqb k k' then (k', v) :: r else (k', v') :: dset r k v
  end.
(* del d[k] *)
Fixpoint ddel (d : list (K * V)) (k : K) : list (K * V) :=
  match d with
  | [] => []
  | (k', v') :: r => if keqb k k' then r else (k', v') :: ddel r k
  end.
End Dict.

Section DictLemmas.
Context {K V : Type} (keqb : K -> K -> bool).
Hypothesis keqb_spec : forall a b, keqb a b = true <-> a = b.
Lemma keqb_refl a : keqb a a = true. Proof. apply keqb_spec; auto. Qed.
Lemma keqb_neq a b : a <> b -> keqb a b = false.
Proof. intros N. destruct (keqb a b) eqn:E; auto. apply keqb_spec in E. congruence. Qed.
Lemma dget_dset_same (d : list (K * V)) k v : dget keqb (dset keqb d k v) k = Some v.
Proof.
  induction d as [|[k' v'] r IH]; cbn; [now rewrite keqb_refl|].
  destruct (keqb k k') eqn:E; cbn; rewrite E; auto.
Qed.
Lemma dget_dset_other (d : list (K * V)) k k2 v : k2 <> k -> dget keqb (dset keqb d k v) k2 = dget keqb d k2.
Proof.
  intros N. induction d as [|[k' v'] r IH]; cbn.
  - rewrite keqb_neq; auto.
  - destruct (keqb k k') eqn:E; cbn.
    + apply keqb_spec in E; subst. rewrite keqb_neq; auto.
    + destruct (keqb k2 k'); auto.
Qed.
Definition dkeys (d : list (K * V)) : list K := map fst d.
Lemma dget_None_notin (d : list (K * V)) k : dget keqb d k = None <-> ~ In k (dkeys d).
Proof.
  induction d as [|[k' v'] r IH]; cbn; [tauto|].
  destruct (keqb k k') eqn:E.
  - apply keqb_spec in E; subst. split; [discriminate | tauto].
  - rewrite IH. split; [|tauto]. intros A [B|B]; auto. subst. rewrite keqb_refl in E. discriminate.
Qed.
Lemma dget_ddel_same (d : list (K * V)) k : NoDup (dkeys d) -> dget keqb (ddel keqb d k) k = None.
Proof.
  induction d as [|[k' v'] r IH]; cbn; auto. intros H. inversion H; subst.
  destruct (keqb k k') eqn:E.
  - apply keqb_spec in E; subst. apply dget_None_notin; auto.
  - cbn. rewrite E. auto.
Qed.
Lemma dget_ddel_other (d : list (K * V)) k k2 : k2 <> k -> dget keqb (ddel keqb d k) k2 = dget keqb d k2.
Proof.
  intros N. induction d as [|[k' v'] r IH]; cbn; auto.
  destruct (keqb k k') eqn:E.
  - apply keqb_spec in E; subst. rewrite keqb_neq; auto.
  - cbn. destruct (keqb k2 k'); auto.
Qed.
Lemma dkeys_dset (d : list (K * V)) k v x : In x (dkeys (dset keqb d k v)) <-> In x (dkeys d) \/ x = k.
Proof.
  induction d as [|[k' v'] r IH]; cbn; [intuition|].
  destruct (keqb k k') eqn:E; cbn.
  - apply keqb_spec in E; subst. intuition.
  - rewrite IH. intuition.
Qed.
Lemma dkeys_dset_NoDup (d : list (K * V)) k v : NoDup (dkeys d) -> NoDup (dkeys (dset keqb d k v)).
Proof.
  induction d as [|[k' v'] r IH]; cbn; intros H.
  - repeat constructor; auto.
  - inversion H; subst. destruct (keqb k k') eqn:E; cbn; [constructor; auto|].
    constructor; auto. fold (dkeys (dset keqb r k v)). rewrite dkeys_dset. intros [A|A]; auto.
    subst. rewrite keqb_refl in E. discriminate.
Qed.
Lemma dkeys_ddel_In (d : list (K * V)) k x : In x (dkeys (ddel keqb d k)) -> In x (dkeys d).
Proof.
  induction d as [|[k' v'] r IH]; cbn; auto. destruct (keqb k k'); cbn; intuition.
Qed.
Lemma dkeys_ddel_NoDup (d : list (K * V)) k : NoDup (dkeys d) -> NoDup (dkeys (ddel keqb d k)).
Proof.
  induction d as [|[k' v'] r IH]; cbn; intros H; auto. inversion H; subst.
  destruct (keqb k k'); auto. cbn. constructor; auto. intros A. apply H2. eapply dkeys_ddel_In; eauto.
Qed.
End DictLemmas.

(* ---------- strings ---------- *)
Definition seqb := String.eqb.
Lemma seqb_spec a b : seqb a b = true <-> a = b. Proof. apply String.eqb_eq. Qed.
Lemma Zeqb_spec a b : Z.eqb a b = true <-> a = b. Proof. apply Z.eqb_eq. Qed.
Lemma Neqb_spec a b : Nat.eqb a b = true <-> a = b. Proof. apply Nat.eqb_eq. Qed.

(* Python str(int) *)
Definition string_of_Z (z : Z) : string := NilZero.string_of_int (Z.to_int z).
Definition string_of_optZ (z : option Z) : string :=
  match z with Some z => string_of_Z z | None => "None" end.

(* ---------- JSON-like value trees ---------- *)
Inductive jv :=
| JNull
| JBool (b : bool)
| JInt (z : Z)
| JFlt (z : Z)            (* a float, as an integer number of 1/1024ths *)
| JStr (s : string)
| JList (l : list jv)
| JDict (l : list (string * jv)).

Fixpoint jv_eqb (a b : jv) {struct a} : bool :=
  match a, b with
  | JNull, JNull => true
  | JBool x, JBool y => Bool.eqb x y
  | JInt x, JInt y => Z.eqb x y
  | JFlt x, JFlt y => Z.eqb x y
  | JStr x, JStr y => seqb x y
  | JList x, JList y =>
      (fix go (x y : list jv) : bool :=
         match x, y with
         | [], [] => true
         | u :: x', v :: y' => jv_eqb u v && go x' y'
         | _, _ => false
         end) x y
  | JDict x, JDict y =>
      (fix go (x y : list (string * jv)) : bool :=
         match x, y with
         | [], [] => true
         | (k, u) :: x', (k2, v) :: y' => seqb k k2 && jv_eqb u v && go x' y'
         | _, _ => false
         end) x y
  | _, _ => false
  end.

Definition jget (v : jv) (k : string) : option jv :=
  match v with JDict d => dget seqb d k | _ => None end.

(* ---------- the case runner ---------- *)
Fixpoint bad_indices {A} (check : A -> bool) (cases : list A) (i : nat) : list nat :=
  match cases with
  | [] => []
  | c :: r => if check c then bad_indices check r (S i) else i :: bad_indices check r (S i)
  end.
Fixpoint count_true {A} (p : A -> bool) (l : list A) : nat :=
  match l with [] => 0 | x :: r => (if p x then 1 else 0) + count_true p r end.

(* ---------- canonical ordering of observations (insertion sort on keys) ---------- *)
Section Sort.
Context {A : Type} (leb : A -> A -> bool).
Fixpoint insert_sorted (x : A) (l : list A) : list A :=
  match l with
  | [] => [x]
  | y :: r => if leb x y then x :: l else y :: insert_sorted x r
  end.
Definition isort (l : list A) : list A := fold_right insert_sorted [] l.
End Sort.
Definition sort_zkeys {V} (d : list (Z * V)) : list (Z * V) := isort (fun a b => Z.leb (fst a) (fst b)) d.
Definition sort_skeys {V} (d : list (string * V)) : list (string * V) := isort (fun a b => String.leb (fst a) (fst b)) d.
Definition sort_nats (l : list nat) : list nat := isort Nat.leb l.
Fixpoint dedup_sorted (l : list nat) : list nat :=
  match l with
  | x :: ((y :: _) as r) => if Nat.eqb x y then dedup_sorted r else x :: dedup_sorted r
  | _ => l
  end.
Definition as_set (l : list nat) : list nat := dedup_sorted (sort_nats l).

Definition jnat (n : nat) : jv := JInt (Z.of_nat n).
Definition jnats (l : list nat) : jv := JList (map jnat l).
Definition jopt {A} (f : A -> jv) (o : option A) : jv := match o with Some x => f x | None => JNull end.
Definition jstrs (l : list string) : jv := JList (map JStr l).

(* canonical key order of value trees (YAML writes dictionaries with sorted keys) *)
Fixpoint jv_sort (v : jv) {struct v} : jv :=
  match v with
  | JList l => JList ((fix go (l : list jv) : list jv := match l with [] => [] | x :: r => jv_sort x :: go r end) l)
  | JDict d => JDict (sort_skeys ((fix go (d : list (string * jv)) : list (string * jv) :=
                                     match d with [] => [] | (k, x) :: r => (k, jv_sort x) :: go r end) d))
  | _ => v
  end.
