(* GraphOps.v — the operation alphabet of attack-graph histories, the step function, __deepcopy__,
   and the canonical observation compared with the implementation by the correspondence check. *)
From MT Require Import Prelude Graph Apriori GraphAn.

Inductive op :=
| ONew (n : node)                         (* AttackGraphNode(...) : allocate, not yet in the graph *)
| OAddNode (o : nat) (i : option Z)       (* graph.add_node(node, node_id=i) *)
| ORemoveNode (o : nat)
| OLink (p c : nat)                       (* p.children.append(c); c.parents.append(p) *)
| ONewAtt (name : string)                 (* Attacker(name) *)
| OAddAtt (a : nat) (i : option Z) (reached entry : list Z)
| ORemoveAtt (a : nat)
| OCompromise (a o : nat)                 (* attacker.compromise(node) or node.compromise(attacker) *)
| OUndo (a o : nat)
| OAttach (infos : list (string * list string))
| OCalc
| OPrune
| OSetFlags (o : nat) (v nec : bool)      (* node.is_viable = v; node.is_necessary = nec *)
| OSetTtc (o : nat) (v : jv)              (* in-place change of the node's ttc dictionary *)
| OSetTags (o : nat) (v : list string)    (* in-place change of node.tags *)
| OSetExtras (o : nat) (v : jv)
| OCopy                                    (* continue on copy.deepcopy(graph) *)
| OReorder (l : list nat)                  (* graph.nodes = a permutation of graph.nodes *)
| OQTrav (a o : nat)
| OQSurface (a : nat)
| OQUpdate (a : nat) (cur nodes : list nat)
| OQDefSurface
| OQEnabled.

Inductive ret := RetNone | RetBool (b : bool) | RetList (l : list nat).

(* ---- guards: the API used as intended (evaluated on every generated case) ---- *)
Definition in_graph (s : st) (o : nat) : bool := memn o (g_nodes (s_g s)).
Definition att_in_graph (s : st) (a : nat) : bool := memn a (g_atts (s_g s)).
Definition closed (s : st) : bool :=
  let g := s_g s in
  forallb (fun o => let n := s_nh s o in
             forallb (in_graph s) (n_children n) && forallb (in_graph s) (n_parents n)
             && forallb (att_in_graph s) (n_comp n)) (g_nodes g)
  && forallb (fun a => forallb (in_graph s) (a_entry (s_ah s a)) && forallb (in_graph s) (a_reached (s_ah s a))) (g_atts g)
  && forallb (fun kv => in_graph s (snd kv)) (g_id2node g)
  && forallb (fun kv => in_graph s (snd kv)) (g_name2node g)
  && forallb (fun kv => att_in_graph s (snd kv)) (g_id2att g).
Fixpoint nodupb (l : list nat) : bool :=
  match l with [] => true | x :: r => negb (memn x r) && nodupb r end.

Definition guard (s : st) (o : op) : bool :=
  match o with
  | ONew n => match n_id n, n_children n, n_parents n, n_comp n with None, [], [], [] => true | _, _, _, _ => false end
  | OAddNode o i =>
      (* a node that is already in the graph may be added again: add_node rejects it (its id is in use) *)
      Nat.ltb o (s_nn s) &&
      (in_graph s o ||
       (match n_children (s_nh s o), n_parents (s_nh s o), n_comp (s_nh s o) with [], [], [] => true | _, _, _ => false end)
       && (match n_asset (s_nh s o) with
           | Some _ => negb (dhas seqb (g_name2node (s_g s)) (full_name (s_nh s o)))
           | None => let i' := match i with Some i => i | None => g_next_node (s_g s) end in
                     negb (dhas seqb (g_name2node (s_g s)) (full_name (set_id (s_nh s o) (Some i'))))
           end))
  | ORemoveNode o => in_graph s o
  | OLink p c => in_graph s p && in_graph s c
  | ONewAtt _ => true
  | OAddAtt a i reached entry =>
      Nat.ltb a (s_na s) && negb (att_in_graph s a)
      && (match a_entry (s_ah s a), a_reached (s_ah s a) with [], [] => true | _, _ => false end)
      && forallb (dhas Z.eqb (g_id2node (s_g s))) (reached ++ entry)
  | ORemoveAtt a => att_in_graph s a
  | OCompromise a o | OUndo a o => att_in_graph s a && in_graph s o
  | OAttach _ => true
  | OCalc => calc_guard s
  | OPrune => true
  | OSetFlags o _ _ | OSetTtc o _ | OSetTags o _ | OSetExtras o _ => Nat.ltb o (s_nn s)
  | OCopy => closed s && nodupb (g_nodes (s_g s)) && nodupb (g_atts (s_g s))
  | OReorder l => nodupb l && forallb (in_graph s) l && forallb (fun o => memn o l) (g_nodes (s_g s))
  | OQTrav a o => att_in_graph s a && in_graph s o
  | OQSurface a => att_in_graph s a
  | OQUpdate a cur nodes => att_in_graph s a && forallb (in_graph s) cur && forallb (in_graph s) nodes
  | OQDefSurface | OQEnabled => true
  end.

(* ---- AttackGraph.__deepcopy__ on a closed graph: node i of the list becomes object s_nn + i ---- *)
Fixpoint index_of (x : nat) (l : list nat) : nat :=
  match l with [] => 0 | y :: r => if Nat.eqb x y then 0 else S (index_of x r) end.
Definition deepcopy (s : st) : st :=
  let g := s_g s in
  let mn (o : nat) := s_nn s + index_of o (g_nodes g) in
  let ma (a : nat) := s_na s + index_of a (g_atts g) in
  let nn := List.length (g_nodes g) in
  let na := List.length (g_atts g) in
  let nh' (x : nat) :=
    if Nat.leb (s_nn s) x && Nat.ltb x (s_nn s + nn) then
      let n := s_nh s (nth (x - s_nn s) (g_nodes g) 0) in
      mkNode (n_type n) (n_name n) (n_id n) (n_asset n) (map mn (n_children n)) (map mn (n_parents n))
             (map ma (n_comp n)) (n_def n) (n_exist n) (n_viable n) (n_necessary n) (n_mitre n)
             (n_ttc n) (n_tags n) (n_extras n)
    else s_nh s x in
  let ah' (x : nat) :=
    if Nat.leb (s_na s) x && Nat.ltb x (s_na s + na) then
      let a := s_ah s (nth (x - s_na s) (g_atts g) 0) in
      mkAtt (a_name a) (a_id a) (map mn (a_entry a)) (map mn (a_reached a))
    else s_ah s x in
  let g' := mkGraph (map mn (g_nodes g)) (map ma (g_atts g))
                    (map (fun kv => (fst kv, mn (snd kv))) (g_id2node g))
                    (map (fun kv => (fst kv, mn (snd kv))) (g_name2node g))
                    (map (fun kv => (fst kv, ma (snd kv))) (g_id2att g))
                    (g_next_node g) (g_next_att g) in
  mkSt nh' ah' (s_nn s + nn) (s_na s + na) g'.

Definition with_nh (s : st) (nh : nheap) : st := mkSt nh (s_ah s) (s_nn s) (s_na s) (s_g s).

Definition step (s : st) (o : op) : st * outcome * ret :=
  if negb (guard s o) then (s, RBadOp, RetNone) else
  match o with
  | ONew n => (new_node s n, Ok, RetNone)
  | OAddNode o i => let '(s', oc) := add_node s o i in (s', oc, RetNone)
  | ORemoveNode o => let '(s', oc) := remove_node s o in (s', oc, RetNone)
  | OLink p c => (link s p c, Ok, RetNone)
  | ONewAtt name => (new_att s name, Ok, RetNone)
  | OAddAtt a i r e => let '(s', oc) := add_attacker s a i r e in (s', oc, RetNone)
  | ORemoveAtt a => let '(s', oc) := remove_attacker s a in (s', oc, RetNone)
  | OCompromise a o =>
      let '(nh, ah) := compromise (s_nh s) (s_ah s) a o in (mkSt nh ah (s_nn s) (s_na s) (s_g s), Ok, RetNone)
  | OUndo a o =>
      let '(nh, ah) := undo_compromise (s_nh s) (s_ah s) a o in (mkSt nh ah (s_nn s) (s_na s) (s_g s), Ok, RetNone)
  | OAttach infos => let '(s', oc) := attach_attackers s infos in (s', oc, RetNone)
  | OCalc => let '(s', oc) := calc s in (s', oc, RetNone)
  | OPrune => (prune s, Ok, RetNone)
  | OSetFlags o v nec => (with_nh s (updn (s_nh s) o (fun n => set_necessary (set_viable n v) nec)), Ok, RetNone)
  | OSetTtc o v => (with_nh s (updn (s_nh s) o (fun n => set_ttc n v)), Ok, RetNone)
  | OSetTags o v => (with_nh s (updn (s_nh s) o (fun n => set_tags n v)), Ok, RetNone)
  | OSetExtras o v => (with_nh s (updn (s_nh s) o (fun n => set_extras n v)), Ok, RetNone)
  | OCopy => (deepcopy s, Ok, RetNone)
  | OReorder l => (mkSt (s_nh s) (s_ah s) (s_nn s) (s_na s) (g_set_nodes (s_g s) l), Ok, RetNone)
  | OQTrav a o => (s, Ok, RetBool (traversable (s_nh s) a o))
  | OQSurface a => (s, Ok, RetList (attack_surface (s_nh s) (s_ah s) a))
  | OQUpdate a cur nodes => (s, Ok, RetList (update_surface (s_nh s) a cur nodes))
  | OQDefSurface => (s, Ok, RetList (defense_surface s))
  | OQEnabled => (s, Ok, RetList (enabled_defenses s))
  end.

Definition run (ops : list op) : st * list (outcome * ret) :=
  fold_left (fun '(s, outs) o => let '(s', oc, r) := step s o in (s', outs ++ [(oc, r)])) ops (init, []).
Definition final (ops : list op) : st := fst (run ops).

(* ---- canonical observation ---- *)
Definition obs_node (n : node) : jv :=
  JList [ jopt JInt (n_id n); jnats (n_children n); jnats (n_parents n); jnats (n_comp n);
          JBool (n_viable n); JBool (n_necessary n); n_ttc n; jstrs (n_tags n); n_extras n ].
Definition obs_att (a : attacker) : jv :=
  JList [ jopt JInt (a_id a); jnats (a_entry a); jnats (a_reached a) ].
Definition obs_graph (g : graph) : jv :=
  JList [ jnats (g_nodes g); jnats (g_atts g);
          JList (map (fun kv => JList [JInt (fst kv); jnat (snd kv)]) (sort_zkeys (g_id2node g)));
          JList (map (fun kv => JList [JStr (fst kv); jnat (snd kv)]) (sort_skeys (g_name2node g)));
          JList (map (fun kv => JList [JInt (fst kv); jnat (snd kv)]) (sort_zkeys (g_id2att g)));
          JInt (g_next_node g); JInt (g_next_att g) ].
Definition obs_st (s : st) : jv :=
  JList [ obs_graph (s_g s);
          JList (map (fun o => obs_node (s_nh s o)) (seq 0 (s_nn s)));
          JList (map (fun a => obs_att (s_ah s a)) (seq 0 (s_na s))) ].

Definition outcome_code (o : outcome) : Z :=
  match o with Ok => 0 | RValueError => 1 | RGraphException => 2 | RLookupError => 3 | RKeyError => 4
             | RBadOp => 5 | ROutOfFuel => 6 end.
Definition obs_ret (r : ret) : jv :=
  match r with RetNone => JNull | RetBool b => JBool b | RetList l => jnats l end.
Definition obs_outs (outs : list (outcome * ret)) : jv :=
  JList (map (fun p => JList [JInt (outcome_code (fst p)); obs_ret (snd p)]) outs).
Definition obs_run (ops : list op) : jv :=
  let '(s, outs) := run ops in JList [obs_outs outs; obs_st s].

(* every op met its guard *)
Definition guards_met (ops : list op) : bool :=
  forallb (fun p => negb (outcome_eqb (fst p) RBadOp)) (snd (run ops)).
