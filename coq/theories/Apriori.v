(* Apriori.v — the generic monotone propagation behind viability and necessity
   (maltoolbox/attackgraph/analyzers/apriori.py), its post-condition and the greatest-fixed-point theorem.
   Nodes have a kind: Fixed (labelled from their own status), Any ('or' for viability, 'and' for necessity),
   All ('and' for viability, 'or' for necessity); a parent p contributes  g s p = s p || const p. *)
From Coq Require Import List Arith Bool Lia.
Import ListNotations.

Inductive kind := KFixed | KAny | KAll.
Definition state := nat -> bool.
Definition upd (s : state) (c : nat) (b : bool) : state := fun y => if Nat.eqb y c then b else s y.
Definition le (s t : state) := forall y, s y = true -> t y = true.

Section Generic.
Variable knd : nat -> kind.
Variable parents children : nat -> list nat.
Variable const : nat -> bool.      (* p counts as "true" for its children whatever its flag *)
Variable fixedval : nat -> bool.
Hypothesis mirror : forall p c, In c (children p) <-> In p (parents c).

Definition g (s : state) (p : nat) := s p || const p.
Definition F (s : state) (c : nat) : bool :=
  match knd c with
  | KFixed => fixedval c
  | KAny => match parents c with [] => true | _ => existsb (g s) (parents c) end
  | KAll => forallb (g s) (parents c)
  end.
Definition Solution (t : state) := forall c, t c = F t c.
Definition Bad (s : state) (c : nat) := knd c <> KFixed /\ s c = true /\ F s c = false.
Definition J (s : state) := forall c, knd c <> KFixed -> s c = false -> F s c = false.

(* the propagation as coded (fixed shape): recompute Any-children, clear All-children, recurse on change *)
Fixpoint propagate (fuel : nat) (s : state) (x : nat) : option state :=
  match fuel with
  | O => None
  | S f =>
    if const x then Some s else
    fold_left (fun acc c =>
      match acc with
      | None => None
      | Some s =>
        let new := match knd c with KAll => false | KAny => existsb (g s) (parents c) | KFixed => s c end in
        if Bool.eqb new (s c) then Some s else propagate f (upd s c new) c
      end) (children x) (Some s)
  end.

Lemma g_mono s t p : le s t -> g s p = true -> g t p = true.
Proof. unfold g; intros H. rewrite !orb_true_iff. intros [A|A]; auto. Qed.

Lemma F_mono s t c : le s t -> F s c = true -> F t c = true.
Proof.
  intros H. unfold F. destruct (knd c); auto.
  - destruct (parents c) as [|p ps]; auto. rewrite !existsb_exists.
    intros (q & Hq & Hg). exists q; split; auto. eapply g_mono; eauto.
  - rewrite !forallb_forall. intros A q Hq. eapply g_mono; eauto.
Qed.

Lemma le_refl s : le s s. Proof. intros y; auto. Qed.
Lemma le_trans s t u : le s t -> le t u -> le s u. Proof. intros A B y Hy; auto. Qed.
Lemma upd_false_le s c : le (upd s c false) s.
Proof. intros y. unfold upd. destruct (Nat.eqb y c); auto; discriminate. Qed.
Lemma upd_same s c b : upd s c b c = b. Proof. unfold upd. now rewrite Nat.eqb_refl. Qed.
Lemma upd_other s c b y : y <> c -> upd s c b y = s y.
Proof. intros H. unfold upd. apply Nat.eqb_neq in H. now rewrite H. Qed.

(* F d depends on the flag of c only if c is a parent of d that does not count as constant-true *)
Lemma g_upd_irrel s c b p : (p <> c \/ const c = true) -> g (upd s c b) p = g s p.
Proof.
  unfold g. intros [H|H].
  - now rewrite upd_other.
  - destruct (Nat.eq_dec p c) as [->|n]; [rewrite H, !orb_true_r; auto | now rewrite upd_other].
Qed.
Lemma F_upd_irrel s c b d : (~ In c (parents d) \/ const c = true) -> F (upd s c b) d = F s d.
Proof.
  intros H. unfold F. destruct (knd d); auto.
  - destruct (parents d) as [|p ps] eqn:E; auto. rewrite <- E in *.
    clear E. induction (parents d) as [|q qs IH]; cbn; auto.
    rewrite g_upd_irrel, IH; auto.
    + destruct H as [H|H]; [left; intros A; apply H; right; auto | right; auto].
    + destruct H as [H|H]; [left; intros ->; apply H; left; auto | right; auto].
  - induction (parents d) as [|q qs IH]; cbn; auto.
    rewrite g_upd_irrel, IH; auto.
    + destruct H as [H|H]; [left; intros A; apply H; right; auto | right; auto].
    + destruct H as [H|H]; [left; intros ->; apply H; left; auto | right; auto].
Qed.

(* one justified lowering *)
Lemma lower_J s c : J s -> (knd c = KFixed \/ F s c = false) -> J (upd s c false).
Proof.
  intros HJ HF d Hk Hd.
  destruct (F (upd s c false) d) eqn:E; auto.
  apply (F_mono _ s) in E; [|apply upd_false_le].
  destruct (Nat.eq_dec d c) as [->|n]; [destruct HF; congruence|].
  rewrite upd_other in Hd by auto. rewrite (HJ d Hk Hd) in E. discriminate.
Qed.
Lemma lower_Bad s c d : Bad (upd s c false) d -> Bad s d \/ (In d (children c) /\ const c = false).
Proof.
  intros (Hk & Hs & HF).
  destruct (Nat.eq_dec d c) as [->|n]; [rewrite upd_same in Hs; discriminate|].
  rewrite upd_other in Hs by auto.
  destruct (in_dec Nat.eq_dec c (parents d)) as [i|ni].
  - destruct (const c) eqn:Ec.
    + left. rewrite F_upd_irrel in HF by auto. repeat split; auto.
    + destruct (F s d) eqn:E; [right; split; auto; apply mirror; auto | left; repeat split; auto].
  - left. rewrite F_upd_irrel in HF by auto. repeat split; auto.
Qed.
Lemma lower_upper s c t : Solution t -> le t s -> F s c = false -> le t (upd s c false).
Proof.
  intros Ht Hle HF y Hy. destruct (Nat.eq_dec y c) as [->|n].
  - rewrite (Ht c) in Hy. apply (F_mono _ s) in Hy; auto. congruence.
  - rewrite upd_other by auto. auto.
Qed.

Definition Post (x : nat) (s s' : state) :=
  le s' s /\ J s' /\
  (forall d, Bad s' d -> Bad s d /\ (const x = false -> ~ In d (children x))) /\
  (forall t, Solution t -> le t s -> le t s') /\
  (forall d, knd d = KFixed -> s' d = s d).

Lemma propagate_post : forall fuel s x s',
  propagate fuel s x = Some s' -> J s -> s x = false -> Post x s s'.
Proof.
  induction fuel as [|f IH]; intros s x s' H HJ Hx; [discriminate|].
  cbn [propagate] in H. destruct (const x) eqn:Ecx.
  { inversion H; subst. split; [apply le_refl|]. split; [auto|]. split; [|split; auto].
    intros d Hd; split; [auto | rewrite Ecx; discriminate]. }
  (* loop lemma over a suffix l of the children *)
  assert (LOOP: forall l s0 s1,
    fold_left (fun acc c => match acc with None => None | Some s =>
        let new := match knd c with KAll => false | KAny => existsb (g s) (parents c) | KFixed => s c end in
        if Bool.eqb new (s c) then Some s else propagate f (upd s c new) c end) l (Some s0) = Some s1 ->
    (forall c, In c l -> In c (children x)) -> J s0 -> s0 x = false ->
    le s1 s0 /\ J s1 /\ (forall d, Bad s1 d -> Bad s0 d /\ ~ In d l) /\
    (forall t, Solution t -> le t s0 -> le t s1) /\ (forall d, knd d = KFixed -> s1 d = s0 d)).
  { induction l as [|c l IHl]; intros s0 s1 Hf Hsub HJ0 Hx0.
    - cbn in Hf. inversion Hf; subst. split; [apply le_refl|]. split; [auto|]. split; [|split; auto].
      intros d Hd; split; auto.
    - cbn [fold_left] in Hf.
      set (new := match knd c with KAll => false | KAny => existsb (g s0) (parents c) | KFixed => s0 c end) in *.
      assert (Hxc : In x (parents c)) by (apply mirror, Hsub; left; auto).
      assert (Hgx : g s0 x = false) by (unfold g; rewrite Hx0, Ecx; auto).
      destruct (Bool.eqb new (s0 c)) eqn:Eeq.
      + (* unchanged: c is not Bad in s0 *)
        apply eqb_prop in Eeq.
        destruct (IHl s0 s1 Hf) as (A & B & C & D & E); auto. { intros; apply Hsub; right; auto. }
        repeat split; auto; try (apply C; auto).
        intros [<-|Hin]; [|apply (C d); auto].
        destruct (C c H0) as [(Hk & Hs & HF) _].
        unfold F in HF. unfold new in Eeq. destruct (knd c); try congruence.
        destruct (parents c); [destruct Hxc|]. congruence.
      + (* changed: it is a justified lowering *)
        apply eqb_false_iff in Eeq.
        assert (Hlow : new = false /\ s0 c = true /\ F s0 c = false /\ knd c <> KFixed).
        { unfold new in *. unfold F. destruct (knd c) eqn:Ek; try congruence.
          - destruct (parents c) as [|p ps] eqn:Ep; [destruct Hxc|]. rewrite <- Ep in *.
            destruct (s0 c) eqn:Es.
            + destruct (existsb (g s0) (parents c)); try congruence. repeat split; auto; discriminate.
            + assert (X := HJ0 c). unfold F in X. rewrite Ek, Ep in X. rewrite <- Ep in X.
              rewrite X in Eeq; try congruence; auto.
          - destruct (s0 c) eqn:Es; try congruence. repeat split; auto; try discriminate.
            apply not_true_is_false. intros A. rewrite forallb_forall in A. rewrite (A x Hxc) in Hgx. discriminate. }
        destruct Hlow as (Hn & Hsc & HFc & Hkc). rewrite Hn in Hf.
        destruct (propagate f (upd s0 c false) c) as [s2|] eqn:Ep.
        2:{ exfalso. clear - Hf. induction l; cbn in Hf; [discriminate|auto]. }
        destruct (IH _ _ _ Ep) as (A2 & J2 & B2 & U2 & E2); [apply lower_J; auto | apply upd_same |].
        assert (Hx2 : s2 x = false).
        { destruct (s2 x) eqn:E; auto. apply A2 in E. apply upd_false_le in E. congruence. }
        destruct (IHl s2 s1 Hf) as (A & B & C & D & E); auto. { intros; apply Hsub; right; auto. }
        assert (L20 : le s2 s0) by (eapply le_trans; [apply A2 | apply upd_false_le]).
        split; [eapply le_trans; eauto|]. split; [auto|]. split.
        * intros d Hd. destruct (C d Hd) as [Hb2 Hnl]. destruct (B2 d Hb2) as [Hbu Hnc].
          assert (Hdc : d <> c).
          { intros ->. destruct Hb2 as (_ & Hs & _). apply A2 in Hs. rewrite upd_same in Hs. discriminate. }
          split.
          -- destruct (lower_Bad _ _ _ Hbu) as [X|[X Y]]; auto. exfalso; apply Hnc; auto.
          -- intros [Q|Hin]; [congruence | auto].
        * split; [intros t Ht Hle; apply D; auto; apply U2; auto; apply lower_upper; auto|].
          intros d Hd. rewrite E, E2 by auto. apply upd_other. intros ->; congruence. }
  destruct (LOOP _ _ _ H) as (A & B & C & D & E); auto.
  split; [auto|]. split; [auto|]. split; [|split; auto].
  intros d Hd. destruct (C d Hd); split; auto.
Qed.

(* ---- the analysis: evaluate Fixed nodes in list order, propagate when the flag is false ---- *)
Definition top : state := fun _ => true.
Definition calc_step (fuel : nat) (acc : option state) (d : nat) : option state :=
  match acc with
  | None => None
  | Some s => match knd d with
              | KFixed => let s1 := upd s d (fixedval d) in
                          if fixedval d then Some s1 else propagate fuel s1 d
              | _ => Some s
              end
  end.
Definition calculate_from (fuel : nat) (l : list nat) (s0 : state) := fold_left (calc_step fuel) l (Some s0).
Definition calculate (fuel : nat) (l : list nat) := calculate_from fuel l top.

Lemma le_F_eq s t c : le s t -> le t s -> F s c = F t c.
Proof.
  intros A B. destruct (F s c) eqn:E1, (F t c) eqn:E2; auto.
  - apply (F_mono _ t) in E1; auto; congruence.
  - apply (F_mono _ s) in E2; auto; congruence.
Qed.
Lemma upd_true_equiv s d : s d = true -> le (upd s d true) s /\ le s (upd s d true).
Proof.
  intros H; split; intros y; unfold upd; destruct (Nat.eqb y d) eqn:E; auto.
  apply Nat.eqb_eq in E; subst; auto.
Qed.

Definition Inv (done todo : list nat) (s : state) :=
  J s /\ (forall d, ~ Bad s d) /\ (forall t, Solution t -> le t s) /\
  (forall d, knd d = KFixed -> In d done -> s d = fixedval d) /\
  (forall d, knd d = KFixed -> ~ In d done -> s d = true).

Lemma calc_inv fuel : forall todo done s s',
  fold_left (calc_step fuel) todo (Some s) = Some s' ->
  NoDup (done ++ todo) -> Inv done todo s -> Inv (done ++ todo) [] s'.
Proof.
  induction todo as [|d todo IH]; intros done s s' Hf Hnd HI.
  - cbn in Hf. inversion Hf; subst. rewrite app_nil_r. auto.
  - cbn [fold_left calc_step] in Hf.
    assert (Hd_fresh : ~ In d done).
    { intros A. apply NoDup_remove_2 in Hnd. apply Hnd. apply in_or_app; auto. }
    replace (done ++ d :: todo) with ((done ++ [d]) ++ todo) in * by (rewrite <- app_assoc; auto).
    destruct HI as (HJ & HB & HU & HD & HN).
    destruct (knd d) eqn:Ek.
    + (* Fixed *)
      destruct (fixedval d) eqn:Ev.
      * (* flag stays true: state is pointwise unchanged *)
        apply (IH (done ++ [d]) _ _ Hf Hnd).
        pose proof (HN d Ek Hd_fresh) as Hdt. destruct (upd_true_equiv s d Hdt) as [L1 L2].
        repeat split.
        -- intros c Hk Hc. rewrite (le_F_eq _ s) by auto. apply HJ; auto.
           destruct (s c) eqn:E; auto. apply L2 in E. congruence.
        -- intros c (Hk & Hs & HF). apply (HB c). split; [auto|]. split; [apply L1; auto|].
           rewrite (le_F_eq _ _ c L2 L1). auto.
        -- intros t Ht. eapply le_trans; [apply HU; auto | auto].
        -- intros c Hk Hin. apply in_app_or in Hin. destruct Hin as [Hin|[<-|[]]].
           ++ rewrite upd_other; auto. intros ->; auto.
           ++ rewrite upd_same; auto.
        -- intros c Hk Hin. rewrite upd_other; [apply HN; auto; intros A; apply Hin, in_or_app; auto|].
           intros ->. apply Hin, in_or_app; right; left; auto.
      * (* lowered: propagate *)
        destruct (propagate fuel (upd s d false) d) as [s2|] eqn:Ep.
        2:{ exfalso. clear - Hf. induction todo; cbn in Hf; [discriminate|auto]. }
        destruct (propagate_post _ _ _ _ Ep) as (A2 & J2 & B2 & U2 & E2);
          [apply lower_J; auto | apply upd_same |].
        apply (IH (done ++ [d]) _ _ Hf Hnd). repeat split; auto.
        -- intros c Hc. destruct (B2 c Hc) as [Hbu Hnc].
           destruct (lower_Bad _ _ _ Hbu) as [X|[X Y]]; [apply (HB c X) | apply Hnc; auto].
        -- intros t Ht. apply U2; auto. intros y Hy. destruct (Nat.eq_dec y d) as [->|n].
           ++ rewrite (Ht d) in Hy. unfold F in Hy. rewrite Ek in Hy. congruence.
           ++ rewrite upd_other by auto. apply (HU t Ht); auto.
        -- intros c Hk Hin. rewrite E2 by auto. apply in_app_or in Hin. destruct Hin as [Hin|[<-|[]]].
           ++ rewrite upd_other; auto. intros ->; auto.
           ++ rewrite upd_same; auto.
        -- intros c Hk Hin. rewrite E2 by auto. rewrite upd_other; [apply HN; auto; intros A; apply Hin, in_or_app; auto|].
           intros ->. apply Hin, in_or_app; right; left; auto.
    + apply (IH (done ++ [d]) _ _ Hf Hnd). repeat split; auto.
      * intros c Hk Hin. apply in_app_or in Hin. destruct Hin as [Hin|[<-|[]]]; auto. congruence.
      * intros c Hk Hin. apply HN; auto. intros A; apply Hin, in_or_app; auto.
    + apply (IH (done ++ [d]) _ _ Hf Hnd). repeat split; auto.
      * intros c Hk Hin. apply in_app_or in Hin. destruct Hin as [Hin|[<-|[]]]; auto. congruence.
      * intros c Hk Hin. apply HN; auto. intros A; apply Hin, in_or_app; auto.
Qed.

Lemma top_inv l : Inv [] l top.
Proof.
  repeat split; auto; try discriminate.
  - intros d (Hk & _ & HF). unfold F in HF. destruct (knd d); try congruence.
    + destruct (parents d) as [|p ps]; [discriminate|]. cbn in HF. discriminate.
    + apply not_true_iff_false in HF. apply HF. apply forallb_forall. intros; reflexivity.
  - intros d _ [].
Qed.

Theorem calculate_gfp fuel nodes s :
  calculate fuel nodes = Some s -> NoDup nodes -> (forall d, knd d = KFixed -> In d nodes) ->
  Solution s /\ (forall t, Solution t -> le t s).
Proof.
  intros H Hnd Hall. destruct (calc_inv fuel nodes [] top s H Hnd (top_inv _)) as (HJ & HB & HU & HD & _).
  split; auto. intros c. destruct (knd c) eqn:Ek.
  - unfold F. rewrite Ek. apply HD; auto.
  - destruct (s c) eqn:Es.
    + destruct (F s c) eqn:E; auto. exfalso. apply (HB c). repeat split; auto. congruence.
    + symmetry. apply HJ; auto. congruence.
  - destruct (s c) eqn:Es.
    + destruct (F s c) eqn:E; auto. exfalso. apply (HB c). repeat split; auto. congruence.
    + symmetry. apply HJ; auto. congruence.
Qed.

(* ---- termination: with more fuel than nodes the propagation and the whole calculation return ---- *)
Section Total.
Variable dom : list nat.
Hypothesis dom_nodup : NoDup dom.
Hypothesis dom_closed : forall y c, In y dom -> In c (children y) -> In c dom.
Definition tcnt (s : state) : nat := List.length (filter s dom).
Lemma tcnt_bound s : tcnt s <= List.length dom.
Proof. unfold tcnt. generalize dom. intros l. induction l as [|a l IH]; cbn; auto. destruct (s a); cbn; lia. Qed.
Lemma tcnt_le s t : le s t -> tcnt s <= tcnt t.
Proof.
  intros H. unfold tcnt. generalize dom. intros l. induction l as [|a l IH]; cbn; auto.
  destruct (s a) eqn:E; [rewrite (H a E); cbn; lia|]. destruct (t a); cbn; lia.
Qed.
Lemma tcnt_lower s c : In c dom -> s c = true -> tcnt (upd s c false) < tcnt s.
Proof.
  unfold tcnt. intros Hin Hs. revert Hin dom_nodup. generalize dom. intros l. induction l as [|a l IH]; intros Hin Hnd; [destruct Hin|].
  inversion Hnd as [|? ? Ha Hl]; subst. cbn [filter]. destruct (Nat.eq_dec a c) as [->|n].
  - rewrite upd_same, Hs. cbn [List.length].
    assert (E : filter (upd s c false) l = filter s l).
    { apply filter_ext_in. intros y Hy. apply upd_other. intros ->. auto. }
    rewrite E. lia.
  - destruct Hin as [->|Hin]; [congruence|]. rewrite (upd_other s c false a) by auto. specialize (IH Hin Hl).
    destruct (s a); cbn [List.length]; lia.
Qed.

Theorem propagate_total : forall fuel s x, In x dom -> J s -> s x = false -> tcnt s < fuel ->
  exists s', propagate fuel s x = Some s'.
Proof.
  induction fuel as [|f IH]; intros s x Hx HJ Hsx Hc; [lia|].
  cbn [propagate]. destruct (const x) eqn:Ecx; [eauto|].
  assert (LOOP : forall l s0, (forall c, In c l -> In c (children x)) -> J s0 -> s0 x = false -> tcnt s0 <= f ->
    exists s1, fold_left (fun acc c => match acc with None => None | Some s =>
        let new := match knd c with KAll => false | KAny => existsb (g s) (parents c) | KFixed => s c end in
        if Bool.eqb new (s c) then Some s else propagate f (upd s c new) c end) l (Some s0) = Some s1).
  { induction l as [|c l IHl]; intros s0 Hsub HJ0 Hx0 Hc0; cbn [fold_left]; [eauto|].
    assert (Hcx : In c (children x)) by (apply Hsub; left; auto).
    assert (Hcd : In c dom) by (eapply dom_closed; eauto).
    assert (Hpx : In x (parents c)) by (apply mirror; auto).
    set (new := match knd c with KAll => false | KAny => existsb (g s0) (parents c) | KFixed => s0 c end).
    destruct (Bool.eqb new (s0 c)) eqn:Eq; [apply IHl; auto; intros; apply Hsub; right; auto|].
    (* a change can only be a lowering *)
    assert (Hlow : new = false /\ s0 c = true /\ (knd c = KFixed \/ F s0 c = false)).
    { unfold new in *. destruct (knd c) eqn:Ek.
      - rewrite Bool.eqb_reflx in Eq. discriminate.
      - destruct (s0 c) eqn:Es.
        + destruct (existsb (g s0) (parents c)) eqn:Ee; [discriminate|]. repeat split; auto. right.
          unfold F. rewrite Ek. destruct (parents c); [destruct Hpx|exact Ee].
        + pose proof (HJ0 c) as Hj. rewrite Ek in Hj. specialize (Hj ltac:(discriminate) Es). unfold F in Hj. rewrite Ek in Hj.
          destruct (parents c) as [|p ps] eqn:Ep; [destruct Hpx|]. rewrite Hj in Eq. discriminate.
      - destruct (s0 c) eqn:Es; [|discriminate]. repeat split; auto. right. unfold F. rewrite Ek.
        destruct (forallb (g s0) (parents c)) eqn:Ef; auto. rewrite forallb_forall in Ef. specialize (Ef x Hpx).
        unfold g in Ef. rewrite Hx0, Ecx in Ef. discriminate. }
    destruct Hlow as (-> & Hs0c & HF).
    assert (Hc1 : tcnt (upd s0 c false) < f) by (pose proof (tcnt_lower s0 c Hcd Hs0c); lia).
    destruct (IH (upd s0 c false) c Hcd (lower_J s0 c HJ0 HF) (upd_same s0 c false) Hc1) as (s2 & E2).
    rewrite E2. destruct (propagate_post _ _ _ _ E2 (lower_J s0 c HJ0 HF) (upd_same s0 c false)) as (L2 & J2 & _).
    apply IHl; auto.
    - intros; apply Hsub; right; auto.
    - destruct (s2 x) eqn:E; auto. apply L2 in E. destruct (Nat.eq_dec x c) as [->|n]; [rewrite upd_same in E; discriminate|].
      rewrite upd_other in E by auto. congruence.
    - pose proof (tcnt_le _ _ L2). lia. }
  apply LOOP; auto. lia.
Qed.

Lemma nodup_app_l {A} (l1 l2 : list A) : NoDup (l1 ++ l2) -> NoDup l1.
Proof.
  induction l1 as [|a l1 IH]; cbn; intros H; [constructor|]. inversion H; subst. constructor; auto.
  intros A0. apply H2. apply in_or_app; auto.
Qed.
Theorem calculate_total fuel : forall todo done s,
  NoDup (done ++ todo) -> Inv done todo s -> (forall d, In d todo -> In d dom) -> List.length dom < fuel ->
  exists s', fold_left (calc_step fuel) todo (Some s) = Some s'.
Proof.
  induction todo as [|d todo IH]; intros done s Hnd HI Hin Hf; cbn [fold_left]; [eauto|].
  assert (Hd_fresh : ~ In d done).
  { intros A. apply NoDup_remove_2 in Hnd. apply Hnd. apply in_or_app; auto. }
  assert (STEP : exists s1, calc_step fuel (Some s) d = Some s1).
  { cbn [calc_step]. destruct (knd d) eqn:Ek; eauto. destruct (fixedval d) eqn:Ev; eauto.
    destruct HI as (HJ & _). apply propagate_total.
    - apply Hin. left; auto.
    - apply lower_J; auto.
    - apply upd_same.
    - pose proof (tcnt_bound (upd s d false)). lia. }
  destruct STEP as (s1 & E1). rewrite E1.
  assert (HI1 : Inv (done ++ [d]) todo s1).
  { assert (Hnd1 : NoDup (done ++ [d])).
    { replace (done ++ d :: todo) with ((done ++ [d]) ++ todo) in Hnd by (rewrite <- app_assoc; auto). apply nodup_app_l in Hnd. auto. }
    apply (calc_inv fuel [d] done s s1); auto. }
  apply (IH (done ++ [d])); auto.
  - rewrite <- app_assoc. exact Hnd.
  - intros; apply Hin; right; auto.
Qed.
End Total.
End Generic.

(* ------------------------------------------------------------------------------------------------
   Two structures that agree on a set D closed under parents and children compute the same labels on D.
   Used to transport calculate_gfp (which wants the mirror hypothesis for all numbers) to a heap in
   which only the objects of one graph are related. *)
Section Ext.
Variables (knd knd' : nat -> kind) (parents parents' children children' : nat -> list nat)
          (const const' fixedval fixedval' : nat -> bool).
Variable D : nat -> Prop.
Hypothesis agree : forall y, D y ->
  knd y = knd' y /\ parents y = parents' y /\ children y = children' y /\ const y = const' y /\ fixedval y = fixedval' y.
Hypothesis closed_ch : forall y c, D y -> In c (children y) -> D c.
Hypothesis closed_pa : forall y p, D y -> In p (parents y) -> D p.

Definition agree_on (s s' : state) := forall y, D y -> s y = s' y.
Definition orel (a b : option state) := match a, b with Some t, Some t' => agree_on t t' | None, None => True | _, _ => False end.

Lemma g_agree s s' p : D p -> agree_on s s' -> g const s p = g const' s' p.
Proof. intros Hp H. unfold g. rewrite (H p Hp). destruct (agree p Hp) as (_ & _ & _ & -> & _). reflexivity. Qed.
Lemma existsb_g_agree s s' l : (forall p, In p l -> D p) -> agree_on s s' -> existsb (g const s) l = existsb (g const' s') l.
Proof.
  intros Hl H. induction l as [|p r IH]; cbn; auto. rewrite (g_agree s s' p), IH; auto.
  - intros q Hq. apply Hl. right; auto.
  - apply Hl. left; auto.
Qed.
Lemma forallb_g_agree s s' l : (forall p, In p l -> D p) -> agree_on s s' -> forallb (g const s) l = forallb (g const' s') l.
Proof.
  intros Hl H. induction l as [|p r IH]; cbn; auto. rewrite (g_agree s s' p), IH; auto.
  - intros q Hq. apply Hl. right; auto.
  - apply Hl. left; auto.
Qed.
Lemma agree_upd s s' c b : agree_on s s' -> agree_on (upd s c b) (upd s' c b).
Proof. intros H y Hy. unfold upd. destruct (Nat.eqb y c); auto. Qed.

Lemma propagate_ext : forall fuel s s' x, D x -> agree_on s s' ->
  orel (propagate knd parents children const fuel s x) (propagate knd' parents' children' const' fuel s' x).
Proof.
  induction fuel as [|f IH]; intros s s' x Hx H; cbn; auto.
  destruct (agree x Hx) as (_ & _ & Ech & Eco & _). rewrite <- Eco, <- Ech.
  destruct (const x); [exact H|].
  assert (Hl : forall c, In c (children x) -> D c) by (intros c Hc; eapply closed_ch; eauto).
  revert Hl. generalize (children x) as l. intros l.
  assert (GEN : forall acc acc', orel acc acc' -> (forall c, In c l -> D c) ->
    orel (fold_left (fun acc c => match acc with None => None | Some s =>
            let new := match knd c with KAll => false | KAny => existsb (g const s) (parents c) | KFixed => s c end in
            if Bool.eqb new (s c) then Some s else propagate knd parents children const f (upd s c new) c end) l acc)
         (fold_left (fun acc c => match acc with None => None | Some s =>
            let new := match knd' c with KAll => false | KAny => existsb (g const' s) (parents' c) | KFixed => s c end in
            if Bool.eqb new (s c) then Some s else propagate knd' parents' children' const' f (upd s c new) c end) l acc')).
  { induction l as [|c r IHl]; intros acc acc' R Hl; cbn [fold_left]; auto.
    apply IHl; [|intros q Hq; apply Hl; right; auto].
    assert (Hc : D c) by (apply Hl; left; auto).
    destruct acc as [t|], acc' as [t'|]; cbn in R; try contradiction; auto.
    destruct (agree c Hc) as (Ek & Ep & _). rewrite <- Ek, <- Ep.
    assert (En : match knd c with KAll => false | KAny => existsb (g const t) (parents c) | KFixed => t c end =
                 match knd c with KAll => false | KAny => existsb (g const' t') (parents c) | KFixed => t' c end).
    { destruct (knd c); auto. apply existsb_g_agree; auto. intros p Hp. eapply closed_pa; eauto. }
    cbn zeta. rewrite En, (R c Hc). destruct (Bool.eqb _ (t' c)); [exact R|].
    apply IH; auto. apply agree_upd; auto. }
  intros Hl. apply GEN; auto.
Qed.

Lemma calculate_ext fuel : forall l s s', (forall d, In d l -> D d) -> agree_on s s' ->
  orel (calculate_from knd parents children const fixedval fuel l s)
       (calculate_from knd' parents' children' const' fixedval' fuel l s').
Proof.
  unfold calculate_from.
  assert (GEN : forall l acc acc', orel acc acc' -> (forall d, In d l -> D d) ->
    orel (fold_left (calc_step knd parents children const fixedval fuel) l acc)
         (fold_left (calc_step knd' parents' children' const' fixedval' fuel) l acc')).
  { induction l as [|d r IHl]; intros acc acc' R Hl; cbn [fold_left]; auto.
    apply IHl; [|intros q Hq; apply Hl; right; auto].
    assert (Hd : D d) by (apply Hl; left; auto).
    destruct acc as [t|], acc' as [t'|]; cbn in R; try contradiction; cbn [calc_step]; auto.
    destruct (agree d Hd) as (Ek & _ & _ & _ & Ef). rewrite <- Ek, <- Ef.
    destruct (knd d); auto.
    destruct (fixedval d); [apply agree_upd; auto|]. apply propagate_ext; auto. apply agree_upd; auto. }
  intros l s s' Hl H. apply GEN; auto.
Qed.
End Ext.
