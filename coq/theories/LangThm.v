(* LangThm.v — step inheritance is a fold over the ancestor chain from the root down, depends on nothing else,
   and terminates on acyclic inheritance (C03). *)
From MT Require Import Prelude Lang.

(* the chain: the asset itself, then its ancestors *)
Fixpoint chain_assets (fuel : nat) (L : lang) (t : string) : option (list assetdecl) :=
  match fuel with
  | O => None
  | S f =>
    match find_asset L t with
    | None => Some []
    | Some a =>
      match ad_super a with
      | None => Some [a]
      | Some sup => match chain_assets f L sup with Some ch => Some (a :: ch) | None => None end
      end
    end
  end.

Definition fold_chain (ch : list assetdecl) (base : list (string * stepdecl)) : list (string * stepdecl) :=
  fold_left (fun acc a => fold_left apply_decl (ad_steps a) acc) ch base.

Lemma fold_chain_app ch1 ch2 base : fold_chain (ch1 ++ ch2) base = fold_chain ch2 (fold_chain ch1 base).
Proof. unfold fold_chain. apply fold_left_app. Qed.

Theorem attacks_for_fold : forall fuel L t r,
  attacks_for fuel L t = Some r ->
  exists ch, chain_assets fuel L t = Some ch /\ r = fold_chain (rev ch) [].
Proof.
  induction fuel as [|f IH]; intros L t r H; cbn in *; [discriminate|].
  destruct (find_asset L t) as [a|] eqn:Ea.
  - destruct (ad_super a) as [sup|] eqn:Es.
    + destruct (attacks_for f L sup) as [base|] eqn:Eb; [|discriminate]. inversion H; subst.
      destruct (IH L sup base Eb) as (ch & Hch & ->). rewrite Hch. exists (a :: ch). split; auto.
      cbn [rev]. rewrite fold_chain_app. reflexivity.
    + inversion H; subst. exists [a]. split; auto.
  - inversion H; subst. exists []. split; auto.
Qed.

(* fuel: more fuel never changes an answer *)
Lemma attacks_for_more_fuel : forall f1 f2 L t r, attacks_for f1 L t = Some r -> f1 <= f2 -> attacks_for f2 L t = Some r.
Proof.
  induction f1 as [|f IH]; intros f2 L t r H Hle; [discriminate|].
  destruct f2 as [|g]; [lia|]. cbn in *. destruct (find_asset L t) as [a|]; auto.
  destruct (ad_super a) as [sup|]; auto.
  destruct (attacks_for f L sup) as [base|] eqn:Eb; [|discriminate].
  rewrite (IH g L sup base Eb); [auto|lia].
Qed.

(* acyclic inheritance: following superAsset from t ends within the fuel *)
Fixpoint chain_ok (fuel : nat) (L : lang) (t : string) : bool :=
  match fuel with
  | O => false
  | S f => match find_asset L t with
           | None => true
           | Some a => match ad_super a with None => true | Some sup => chain_ok f L sup end
           end
  end.
Definition wf_inherit (L : lang) : bool := forallb (fun a => chain_ok (lang_fuel L) L (ad_name a)) (l_assets L).

Theorem attacks_for_total : forall fuel L t, chain_ok fuel L t = true -> exists r, attacks_for fuel L t = Some r.
Proof.
  induction fuel as [|f IH]; intros L t H; cbn in *; [discriminate|].
  destruct (find_asset L t) as [a|]; [|eauto]. destruct (ad_super a) as [sup|]; [|eauto].
  destruct (IH L sup H) as (r & ->). eauto.
Qed.
Lemma find_asset_In L t a : find_asset L t = Some a -> In a (l_assets L) /\ ad_name a = t.
Proof. unfold find_asset. intros H. apply find_some in H. destruct H as [H1 H2]. apply seqb_spec in H2. auto. Qed.
Theorem steps_of_total L t : wf_inherit L = true -> exists r, steps_of L t = Some r.
Proof.
  intros W. unfold steps_of. destruct (find_asset L t) as [a|] eqn:Ea.
  - apply attacks_for_total. destruct (find_asset_In _ _ _ Ea) as [Hin <-].
    unfold wf_inherit in W. rewrite forallb_forall in W. auto.
  - unfold lang_fuel. cbn. rewrite Ea. eauto.
Qed.

(* what a type exposes depends only on the declarations of its ancestors (and itself) *)
Theorem attacks_for_ancestors_only : forall fuel L L' t r,
  attacks_for fuel L t = Some r ->
  (forall u, In u (chain_up fuel L t) -> find_asset L' u = find_asset L u) ->
  attacks_for fuel L' t = Some r.
Proof.
  induction fuel as [|f IH]; intros L L' t r H Hag; [discriminate|]. cbn in *.
  rewrite (Hag t) by (left; auto).
  destruct (find_asset L t) as [a|] eqn:Ea; auto.
  destruct (ad_super a) as [sup|] eqn:Es; auto.
  destruct (attacks_for f L sup) as [base|] eqn:Eb; [|discriminate].
  rewrite (IH L L' sup base Eb); auto.
Qed.

(* the four cases of one redefinition *)
Lemma seqb_keqb : forall a b, seqb a b = true <-> a = b. Proof. exact seqb_spec. Qed.
Theorem apply_decl_first steps d : dget seqb steps (sd_name d) = None ->
  dget seqb (apply_decl steps d) (sd_name d) = Some d /\
  (forall k, k <> sd_name d -> dget seqb (apply_decl steps d) k = dget seqb steps k).
Proof.
  intros H. unfold apply_decl. rewrite H. split; [apply (dget_dset_same seqb seqb_keqb)|].
  intros k Hk. apply (dget_dset_other seqb seqb_keqb); auto.
Qed.
Theorem apply_decl_noreaches steps d old : dget seqb steps (sd_name d) = Some old -> sd_reaches d = None ->
  apply_decl steps d = steps.
Proof. intros H1 H2. unfold apply_decl. rewrite H1, H2. reflexivity. Qed.
Theorem apply_decl_override steps d old es : dget seqb steps (sd_name d) = Some old -> sd_reaches d = Some (true, es) ->
  dget seqb (apply_decl steps d) (sd_name d) = Some d /\
  (forall k, k <> sd_name d -> dget seqb (apply_decl steps d) k = dget seqb steps k) /\
  dkeys (apply_decl steps d) = dkeys steps.
Proof.
  intros H1 H2. unfold apply_decl. rewrite H1, H2. split; [apply (dget_dset_same seqb seqb_keqb)|]. split.
  - intros k Hk. apply (dget_dset_other seqb seqb_keqb); auto.
  - clear H2. induction steps as [|[k v] r IH]; cbn in *; [discriminate|].
    destruct (seqb (sd_name d) k) eqn:E; cbn; auto. f_equal. auto.
Qed.
Theorem apply_decl_extend steps d old es : dget seqb steps (sd_name d) = Some old -> sd_reaches d = Some (false, es) ->
  exists new, dget seqb (apply_decl steps d) (sd_name d) = Some new /\
    sd_type new = sd_type old /\ sd_ttc new = sd_ttc old /\ sd_tags new = sd_tags old /\ sd_meta new = sd_meta old /\
    sd_requires new = sd_requires old /\
    sd_reaches new = match sd_reaches old with
                     | Some (ov, olds) => Some (ov, olds ++ es)
                     | None => Some (false, es)
                     end /\
    (forall k, k <> sd_name d -> dget seqb (apply_decl steps d) k = dget seqb steps k).
Proof.
  intros H1 H2. unfold apply_decl. rewrite H1, H2.
  destruct (sd_reaches old) as [[ov olds]|] eqn:Er.
  - eexists. split; [apply (dget_dset_same seqb seqb_keqb)|]. cbn. repeat split; auto.
    intros k Hk. apply (dget_dset_other seqb seqb_keqb); auto.
  - eexists. split; [apply (dget_dset_same seqb seqb_keqb)|]. cbn. repeat split; auto.
    intros k Hk. apply (dget_dset_other seqb seqb_keqb); auto.
Qed.
