(* Eval.v — the instance-model view read by attack-graph generation, and the step-expression evaluator as coded
   in maltoolbox/attackgraph/attackgraph.py (_process_step_expression, after the fix: commits): a list of current
   target assets is threaded through the expression. *)
From MT Require Import Prelude Lang.

(* ---- what generation reads of a Model ---- *)
Record iassoc := mkIAssoc { ic_class : string; ic_lfield : string; ic_left : list Z; ic_rfield : string; ic_right : list Z }.
Record iasset := mkIAsset {
  ia_id : Z; ia_name : string; ia_type : string;
  ia_defs : list (string * Z);        (* current value * 1024 of every defense attribute *)
  ia_assocs : list nat }.              (* asset.associations: indices into im_assocs *)
Record imodel := mkIModel { im_assets : list iasset; im_assocs : list iassoc }.

Definition memz (x : Z) (l : list Z) : bool := existsb (Z.eqb x) l.
Lemma memz_In x l : memz x l = true <-> In x l.
Proof.
  unfold memz. rewrite existsb_exists. split.
  - intros [y [H1 H2]]. apply Z.eqb_eq in H2. subst; auto.
  - intros H. exists x. split; auto. apply Z.eqb_refl.
Qed.
Lemma memz_nIn x l : memz x l = false <-> ~ In x l.
Proof. rewrite <- memz_In. destruct (memz x l); intuition congruence. Qed.

Definition find_iasset (M : imodel) (x : Z) : option iasset := find (fun a => Z.eqb (ia_id a) x) (im_assets M).
Definition itype (M : imodel) (x : Z) : option string := option_map ia_type (find_iasset M x).

(* Model.get_associated_assets_by_field_name *)
Definition nbrs_via (x : Z) (f : string) (c : iassoc) : list Z :=
  (if seqb (ic_rfield c) f && memz x (ic_left c) then ic_right c else []) ++
  (if seqb (ic_lfield c) f && memz x (ic_right c) then ic_left c else []).
Definition nbrs (M : imodel) (x : Z) (f : string) : list Z :=
  match find_iasset M x with
  | None => []
  | Some a => flat_map (fun i => match nth_error (im_assocs M) i with Some c => nbrs_via x f c | None => [] end) (ia_assocs a)
  end.

(* ---- results ---- *)
Inductive eres := EOk (l : list Z) | EFail | ENonUniform | EFuel.
Definition ebind (r : eres) (k : list Z -> eres) : eres := match r with EOk l => k l | e => e end.

(* monadic flat_map *)
Fixpoint efm (f : Z -> eres) (l : list Z) : eres :=
  match l with
  | [] => EOk []
  | a :: t => ebind (f a) (fun r => ebind (efm f t) (fun rs => EOk (r ++ rs)))
  end.

(* keep the elements of l not yet seen, once each, in order of first occurrence *)
Fixpoint fresh (seen l : list Z) : list Z :=
  match l with
  | [] => []
  | y :: r => if memz y seen then fresh seen r else y :: fresh (y :: seen) r
  end.

(* the transitive loop: frontier-by-frontier, every asset expanded once *)
Fixpoint bfs (succ : Z -> eres) (fuel : nat) (frontier seen : list Z) : eres :=
  match fuel with
  | O => EFuel
  | S f => match frontier with
           | [] => EOk seen
           | _ => ebind (efm succ frontier) (fun reached =>
                    let new := fresh seen reached in bfs succ f new (seen ++ new))
           end
  end.

Section WithLang.
Variable L : lang.
Variable M : imodel.

(* subType filter: both types must be known to the language graph *)
Definition known_type (t : string) : bool := match find_asset L t with Some _ => true | None => false end.
Fixpoint filter_sub (t : string) (l : list Z) : eres :=
  match l with
  | [] => EOk []
  | y :: r =>
    match itype M y with
    | None => EFail
    | Some ty =>
      if known_type ty && known_type t then
        ebind (filter_sub t r) (fun rs => EOk (if is_subasset_of L ty t then y :: rs else rs))
      else EFail
    end
  end.

Section OneLevel.
Variable venvE : string -> list Z -> eres.      (* meaning of a variable over a list of targets *)

Fixpoint ev1 (e : sexpr) (xs : list Z) : eres :=
  match e with
  | SStep _ => EOk xs
  | SField f => EOk (flat_map (fun x => nbrs M x f) xs)
  | SVar v => venvE v xs
  | SCollect l r => ebind (ev1 l xs) (fun ys => ev1 r ys)
  | SUnion l r => efm (fun x => ebind (ev1 l [x]) (fun a => ebind (ev1 r [x]) (fun b =>
                         EOk (a ++ filter (fun y => negb (memz y a)) b)))) xs
  | SInter l r => efm (fun x => ebind (ev1 l [x]) (fun a => ebind (ev1 r [x]) (fun b =>
                         EOk (filter (fun y => memz y a) b)))) xs
  | SDiff l r => efm (fun x => ebind (ev1 l [x]) (fun a => ebind (ev1 r [x]) (fun b =>
                         EOk (filter (fun y => negb (memz y b)) a)))) xs
  | STrans e' => bfs (fun x => ev1 e' [x]) (List.length (im_assets M) + 2) xs []
  | SSub t e' =>
      match xs with
      | [] => EOk []
      | _ => ebind (ev1 e' xs) (fun r => filter_sub t (flat_map (fun _ => r) xs))
      end
  end.
End OneLevel.

(* variables: resolved from the type of the FIRST target, as coded; the model additionally reports (ENonUniform)
   when another target would resolve the variable differently — then the code's answer is not claimed *)
Definition var_uniform (v : string) (xs : list Z) : bool :=
  match xs with
  | [] => true
  | x :: r =>
    match itype M x with
    | None => true
    | Some tx =>
      forallb (fun y => match itype M y with
                        | Some ty => match lookup_var (lang_fuel L) L tx v, lookup_var (lang_fuel L) L ty v with
                                     | VOk e1, VOk e2 => sexpr_eqb e1 e2
                                     | _, _ => false
                                     end
                        | None => false
                        end) r
    end
  end.

Fixpoint ev (n : nat) (e : sexpr) (xs : list Z) : eres :=
  ev1 (fun v ys =>
         match n with
         | O => EFuel
         | S n' =>
           match ys with
           | [] => EOk []
           | x :: _ =>
             match itype M x with
             | None => EFail
             | Some tx =>
               match lookup_var (lang_fuel L) L tx v with
               | VOk e' => if var_uniform v ys then ev n' e' ys else ENonUniform
               | VFail => EFail
               | VFuel => EFuel
               end
             end
           end
         end) e xs.

(* the attack step named by an expression: the name travels back through collect (right side) and variables *)
Fixpoint last_step1 (venvS : string -> option string) (e : sexpr) : option string :=
  match e with
  | SStep n => Some n
  | SCollect _ r => last_step1 venvS r
  | SVar v => venvS v
  | STrans e' => None
  | SSub _ e' => None
  | _ => None
  end.
End WithLang.

Definition ev_fuel (L : lang) : nat := S (List.length (flat_map ad_vars (l_assets L))).
