(* C19 — Neo4j export is isomorphic to what is exported, and import inverts it.
   Statements only; proofs in theories/Neo.v. Document level: a node is (asset_id, name, type), a relationship is
   (start asset_id, field name, end asset_id), as handed to py2neo.
   PARTIAL: the export of a model is characterised by theorems; the export of an attack graph and the import
   (Neo.import_links, an executable model of get_model's reconstruction from the two query results) are compared with
   the implementation on every generated case (Neo.neo_import_check), not proved. No database runs: the driver is
   replaced by a recording stand-in that answers the two fixed queries with Cypher's semantics. *)
From MT Require Import Prelude Codec ModelIO Model ModelOps ModelInv ModelLoad ModelLoadThm Legacy PairLoad Neo NeoThm.

Theorem C19_one_node_per_asset : forall c n,
  In n (export_nodes c) <-> exists a, In a (c_assets c) /\ n = (string_of_Z (ca_id a), ca_name a, ca_type a).
Proof. exact export_nodes_spec. Qed.
Print Assumptions C19_one_node_per_asset.
Theorem C19_node_count : forall c, List.length (export_nodes c) = List.length (c_assets c).
Proof. exact export_nodes_count. Qed.
Print Assumptions C19_node_count.

Theorem C19_relationships_exact : forall c x f y, In (x, f, y) (export_rels c) <->
  exists a l r, In a (c_assocs c) /\ In l (cc_left a) /\ In r (cc_right a) /\
    ((x = string_of_Z l /\ f = cc_lfield a /\ y = string_of_Z r) \/ (x = string_of_Z r /\ f = cc_rfield a /\ y = string_of_Z l)).
Proof. exact export_rels_spec. Qed.
Print Assumptions C19_relationships_exact.
Theorem C19_two_relationships_per_linked_pair : forall c, List.length (export_rels c) = 2 * List.length (pairs_of c).
Proof. exact export_rels_count. Qed.
Print Assumptions C19_two_relationships_per_linked_pair.

(* get_model adds one association object per linked pair: the content it is meant to rebuild — the exported content with
   every association split into its pairs — is loadable whenever the exported one is, and the rebuild through the Model
   API yields a coherent model with exactly that content (the reading of the two query results, Neo.import_links, is
   compared with the implementation on every case) *)
Theorem C19_import_rebuild : forall defaults c, loadable defaults c = true ->
  exists s, load defaults (pairs_content c) = (s, MOk) /\ MI s /\ content_of defaults (c_name c) s = pairs_content c.
Proof. exact pairs_rebuild. Qed.
Print Assumptions C19_import_rebuild.

(* the reading of the two query results, in whatever order the database returns them: every link get_model adds comes
   from two different relationships a -lf-> b and b -rf-> a that the language knows as the two fields of an association
   of that class between the types of a and b, with the class's first field on the left; and no (class, left, right)
   is added twice. (Completeness of the reading — every linked pair is found — is compared per case, Neo.neo_import_check.) *)
Theorem C19_import_reading_sound : forall class_of first_field nodes rels links,
  import_links class_of first_field nodes rels = Some links ->
  (forall cls f1 x f2 y, In (cls, f1, x, f2, y) links ->
     exists i j a lf rf b ta tb, i <> j /\ i < List.length rels /\ j < List.length rels /\
       nth i rels ("", "", "")%string = (a, lf, b) /\ nth j rels ("", "", "")%string = (b, rf, a) /\
       type_of_node nodes a = Some ta /\ type_of_node nodes b = Some tb /\ class_of lf rf ta tb = Some cls /\
       ((seqb lf (first_field cls) = true /\ x = a /\ y = b /\ f1 = lf /\ f2 = rf) \/
        (seqb lf (first_field cls) = false /\ x = b /\ y = a /\ f1 = rf /\ f2 = lf))) /\
  NoDup (map key3 links).
Proof. exact import_links_sound. Qed.
Print Assumptions C19_import_reading_sound.

(* ... and conversely every such pair of relationships is represented among the links (so the links are exactly the known
   pairs, each once); the reading fails only when a row names a node the node query did not return *)
Theorem C19_import_reading_complete : forall class_of first_field nodes rels links,
  import_links class_of first_field nodes rels = Some links ->
  forall i j a lf rf b ta tb cls, i <> j -> i < List.length rels -> j < List.length rels ->
    nth i rels ("", "", "")%string = (a, lf, b) -> nth j rels ("", "", "")%string = (b, rf, a) ->
    type_of_node nodes a = Some ta -> type_of_node nodes b = Some tb -> class_of lf rf ta tb = Some cls ->
    In (oriented first_field cls a lf b) (map key3 links).
Proof. exact import_links_complete. Qed.
Print Assumptions C19_import_reading_complete.
Theorem C19_import_reading_exact : forall class_of first_field nodes rels links,
  import_links class_of first_field nodes rels = Some links ->
  forall k, In k (map key3 links) <->
    exists i j a lf rf b ta tb cls, i <> j /\ i < List.length rels /\ j < List.length rels /\
      nth i rels ("", "", "")%string = (a, lf, b) /\ nth j rels ("", "", "")%string = (b, rf, a) /\
      type_of_node nodes a = Some ta /\ type_of_node nodes b = Some tb /\ class_of lf rf ta tb = Some cls /\
      k = oriented first_field cls a lf b.
Proof. exact import_links_exact. Qed.
Print Assumptions C19_import_reading_exact.
Theorem C19_import_reading_total : forall class_of first_field nodes rels,
  (forall a lf rf b, In (a, lf, rf, b) (rows rels) -> type_of_node nodes a <> None /\ type_of_node nodes b <> None) ->
  import_links class_of first_field nodes rels <> None.
Proof. exact import_links_total. Qed.
Print Assumptions C19_import_reading_total.

(* non-vacuity, and the import on an example with two assets linked in both directions through a reflexive
   association and through a second association *)
Definition exC19 : content := mkC "m"
  [ mkCA 0%Z "x" "Aa" [] []; mkCA 1%Z "y" "Aa" [] [] ]
  [ mkCC "Pp" "fh" [0%Z] "fc" [0%Z; 1%Z] []; mkCC "Pp" "fh" [1%Z] "fc" [0%Z] []; mkCC "Qq" "qa" [0%Z] "qb" [1%Z] [] ] [].
Example C19_nonvacuous :
  List.length (export_rels exC19) = 8 /\
  option_map (@List.length _)
    (import_links (fun lf rf _ _ => if (seqb lf "fh" && seqb rf "fc") || (seqb lf "fc" && seqb rf "fh") then Some "Pp"
                                   else if (seqb lf "qa" && seqb rf "qb") || (seqb lf "qb" && seqb rf "qa") then Some "Qq" else None)
                  (fun cls => if seqb cls "Pp" then "fh" else "qa") (export_nodes exC19) (export_rels exC19)) = Some 4.
Proof. vm_compute. split; reflexivity. Qed.
