(* C10 — saving and loading an attack graph preserves it (JSON and YAML).
   Statements only; proofs in theories/GraphIO.v (and Codec.v for integer keys).
   Document level: gcontent is what the graph holds (nodes with id, type, name, asset name, TTC, child / parent ids,
   names of compromising attackers, defense / existence status, viability, necessity, MITRE info, tags, extras;
   attackers with id, name, entry-point ids, reached-step ids); gencode = AttackGraph._to_dict after the file codec
   (integer keys become decimal strings in JSON; YAML keeps integers, for which int() is the identity);
   gdecode = the reading part of AttackGraph._from_dict, with the types the loader gives every value.
   Floats: the only fact used about str / float is fparse (fstr d) = Some d for the defense values present
   (a hypothesis of the theorem, instantiated by a table in the correspondence run).
   PARTIAL: that the loader then rebuilds through add_node / add_attacker a graph whose content is the decoded one
   is covered by the C09 / C11 theorems (explicit ids honoured, links mirrored) and by the correspondence run on
   real files, not by a theorem of its own. *)
From MT Require Import Prelude Codec ModelIO GraphIO.

Theorem C10_roundtrip_partial : forall fstr fparse name_of_id,
  (forall c n d, In n (gc_nodes c) -> gn_def n = Some d -> fparse (fstr d) = Some d) ->
  forall c, gdecode fparse (gencode fstr name_of_id c) = Some c.
Proof. exact gdecode_gencode. Qed.
Print Assumptions C10_roundtrip_partial.

Theorem C10_node_entry : forall fstr fparse name_of_id n,
  (forall d, gn_def n = Some d -> fparse (fstr d) = Some d) -> dec_gnode fparse (enc_gnode fstr name_of_id n) = Some n.
Proof. exact dec_enc_gnode. Qed.
Print Assumptions C10_node_entry.

Theorem C10_attacker_entry : forall name_of_id a, dec_gatt (enc_gatt name_of_id a) = Some a.
Proof. exact dec_enc_gatt. Qed.
Print Assumptions C10_attacker_entry.

Theorem C10_key_roundtrip : forall z, Z_of_string (string_of_Z z) = Some z.
Proof. exact Z_of_string_of_Z. Qed.
Print Assumptions C10_key_roundtrip.

Definition exG : gcontent := mkGC
  [ mkGN 0%Z "or" "access" (Some "h") JNull [2%Z] [] ["eve"; "eve"] None None false true (Some "T1") ["x"; "y"] [("k", JInt 1%Z)];
    mkGN 2%Z "defense" "patched" (Some "h") JNull [] [0%Z] [] (Some 512%Z) None true false None [] [];
    mkGN 7%Z "exist" "ex" None JNull [] [] [] None (Some false) true true None [] [] ]
  [ mkGA 0%Z "eve" [0%Z] [0%Z; 2%Z]; mkGA 3%Z "eve" [] [] ].
Example C10_nonvacuous :
  (forall c n d, In n (gc_nodes c) -> gn_def n = Some d -> In d [0; 256; 512; 768; 1024]%Z -> fparse_tab (fstr_tab d) = Some d) /\
  gdecode fparse_tab (gencode fstr_tab (fun _ => "?") exG) = Some exG.
Proof.
  split; [|vm_compute; reflexivity].
  intros c n d _ _ H. cbn in H. repeat (destruct H as [H|H]; [subst d; reflexivity|]). destruct H.
Qed.
