(* C10 — saving and loading an attack graph preserves it (JSON and YAML).
   Statements only; proofs in theories/GraphIO.v (and Codec.v for integer keys).
   Document level: gcontent is what the graph holds (nodes with id, type, name, asset name, TTC, child / parent ids,
   names of compromising attackers, defense / existence status, viability, necessity, MITRE info, tags, extras;
   attackers with id, name, entry-point ids, reached-step ids); gencode = AttackGraph._to_dict after the file codec
   (integer keys become decimal strings in JSON; YAML keeps integers, for which int() is the identity);
   gdecode = the reading part of AttackGraph._from_dict, with the types the loader gives every value.
   Floats: the only fact used about str / float is fparse (fstr d) = Some d for the defense values present
   (a hypothesis of the theorem, instantiated by a table in the correspondence run).
   The rebuild (GraphLoad.gload) is a history of the attack-graph machine of C09: nodes created and added under their
   stored ids, child links re-established, attackers added under their stored ids with reached steps and entry points.
   C10_rebuild: every loadable content (distinct ids and full names, known duplicate-free children / parents that are
   converse to each other, distinct attacker ids, known duplicate-free reached steps and entry points) is rebuilt into
   a coherent graph (WF) whose nodes carry the stored attributes and children, the stored parents up to order, and
   whose attackers are the stored ones; without the model the nodes have no asset. C10_save_load composes it with the
   document codec. PARTIAL: the order of parent lists and of compromised_by is not modelled (the property speaks of the
   same edges and attackers). C10_every_history: the content of every coherent graph is loadable (content_gloadable), so for
   EVERY history of the attack-graph machine (nodes, links, attackers, compromise, analysis, pruning, removal, copies)
   saving the graph and loading the document with its model yields a coherent graph with the same nodes, children,
   parents up to order, and attackers. C10_every_history_no_model: the same for loading WITHOUT the model — the nodes are
   then named <id>:<name>, pairwise different because the ids are (a decimal numeral contains no colon), and the rebuilt
   graph is the saved one with the assets dropped. The JSON / YAML text layer is trusted. *)
From MT Require Import Prelude Graph GraphOps GraphInv Codec ModelIO GraphIO GraphLoad GraphLoadThm GraphSaveThm GraphSaveNoModel.

Theorem C10_roundtrip_partial : forall fstr fparse name_of_id,
  (forall c n d, In n (gc_nodes c) -> gn_def n = Some d -> fparse (fstr d) = Some d) ->
  forall c, gdecode fparse (gencode fstr name_of_id c) = Some c.
Proof. exact gdecode_gencode. Qed.
Print Assumptions C10_roundtrip_partial.

Theorem C10_node_entry : forall fstr fparse name_of_id n,
  (forall d, gn_def n = Some d -> fparse (fstr d) = Some d) -> dec_gnode fparse (enc_gnode fstr name_of_id n) = Some n.
Proof. exact dec_enc_gnode. Qed.
Print Assumptions C10_node_entry.

Theorem C10_attacker_entry : forall name_of_id a, dec_gatt (enc_gatt name_of_id a) = Some a.
Proof. exact dec_enc_gatt. Qed.
Print Assumptions C10_attacker_entry.

Theorem C10_key_roundtrip : forall z, Z_of_string (string_of_Z z) = Some z.
Proof. exact Z_of_string_of_Z. Qed.
Print Assumptions C10_key_roundtrip.

(* the rebuild reproduces every loadable content in a coherent graph *)
Theorem C10_rebuild : forall wm c, GLoadable wm c ->
  exists s, gload wm c = Some s /\ WF s /\
            Forall2 gn_equiv (gc_nodes (gcontent_of s)) (gc_nodes (expected wm c)) /\ gc_atts (gcontent_of s) = gc_atts c.
Proof. exact gload_spec. Qed.
Print Assumptions C10_rebuild.

(* the premise is decidable *)
Theorem C10_loadable_decidable : forall wm c, gloadableb wm c = true -> GLoadable wm c.
Proof. exact gloadableb_ok. Qed.
Print Assumptions C10_loadable_decidable.

(* save, then load: codec and rebuild composed *)
Theorem C10_save_load : forall fstr fparse name_of_id wm c,
  (forall c0 n d, In n (gc_nodes c0) -> gn_def n = Some d -> fparse (fstr d) = Some d) -> GLoadable wm c ->
  exists c' s, gdecode fparse (gencode fstr name_of_id c) = Some c' /\ gload wm c' = Some s /\ WF s /\
               Forall2 gn_equiv (gc_nodes (gcontent_of s)) (gc_nodes (expected wm c)) /\ gc_atts (gcontent_of s) = gc_atts c.
Proof. exact save_then_gload. Qed.
Print Assumptions C10_save_load.

(* every coherent graph has a loadable content *)
Theorem C10_coherent_is_loadable : forall s, WF s -> GLoadable true (gcontent_of s).
Proof. exact content_gloadable. Qed.
Print Assumptions C10_coherent_is_loadable.

(* every history of the machine: save the graph it builds, load the document with the model *)
Theorem C10_every_history : forall ops,
  let s := final ops in
  exists s', gload true (gcontent_of s) = Some s' /\ WF s' /\
             Forall2 gn_equiv (gc_nodes (gcontent_of s')) (gc_nodes (gcontent_of s)) /\ gc_atts (gcontent_of s') = gc_atts (gcontent_of s).
Proof. exact history_save_load. Qed.
Print Assumptions C10_every_history.
(* ... and load the document without the model: the same graph, the assets dropped *)
Theorem C10_every_history_no_model : forall ops,
  let s := final ops in
  exists s', gload false (gcontent_of s) = Some s' /\ WF s' /\
             Forall2 gn_equiv (gc_nodes (gcontent_of s')) (gc_nodes (strip_assets (gcontent_of s))) /\
             gc_atts (gcontent_of s') = gc_atts (gcontent_of s).
Proof. exact history_save_load_nomodel. Qed.
Print Assumptions C10_every_history_no_model.

Definition exG : gcontent := mkGC
  [ mkGN 0%Z "or" "access" (Some "h") JNull [2%Z] [] ["eve"; "eve"] None None false true (Some "T1") ["x"; "y"] [("k", JInt 1%Z)];
    mkGN 2%Z "defense" "patched" (Some "h") JNull [] [0%Z] [] (Some 512%Z) None true false None [] [];
    mkGN 7%Z "exist" "ex" None JNull [] [] [] None (Some false) true true None [] [] ]
  [ mkGA 0%Z "eve" [0%Z] [0%Z; 2%Z]; mkGA 3%Z "eve" [] [] ].
Example C10_nonvacuous :
  (forall c n d, In n (gc_nodes c) -> gn_def n = Some d -> In d [0; 256; 512; 768; 1024]%Z -> fparse_tab (fstr_tab d) = Some d) /\
  gdecode fparse_tab (gencode fstr_tab (fun _ => "?") exG) = Some exG.
Proof.
  split; [|vm_compute; reflexivity].
  intros c n d _ _ H. cbn in H. repeat (destruct H as [H|H]; [subst d; reflexivity|]). destruct H.
Qed.
Example C10_rebuild_nonvacuous :
  gloadableb true exG = true /\ gloadableb false exG = true /\
  option_map (fun s => (map gn_children (gc_nodes (gcontent_of s)), map gn_parents (gc_nodes (gcontent_of s)),
                        map gn_comp (gc_nodes (gcontent_of s)), gc_atts (gcontent_of s))) (gload true exG)
  = Some ([[2%Z]; []; []], [[]; [0%Z]; []], [["eve"]; ["eve"]; []], gc_atts exG).
Proof. vm_compute. repeat split. Qed.
