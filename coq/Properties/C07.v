(* C07 — saving and loading a model preserves it (JSON and YAML).
   Statements only; proofs in theories/Codec.v and ModelIO.v.
   The theorems are about the document level: `content` is what a model holds (name; assets with id, name, type,
   non-default defenses, extras; associations with class, fields, member ids, extras; attackers with id, name, entry
   points); encode = Model._to_dict after the file codec (integer keys become decimal strings in JSON; YAML keeps
   integers, for which int() is the identity); decode = the reading part of Model._from_dict.
   The rebuild through the API (add_asset with the stored id, add_association on the assets found by id,
   add_attacker) is ModelLoad.load, a sequence of steps of the state machine of C05; content_of is what _to_dict reads
   from a model state. C07_rebuild / C07_save_load: every loadable content is rebuilt into a coherent model with
   exactly that content. C07_typed_history: the content of the model built by ANY history of calls of the typed API
   (the state machine of C06: generated classes with their validation, every Model operation, defense assignments)
   is loadable, so saving that model and loading the document gives a coherent model with the same content.
   PARTIAL only in that the YAML / JSON text layer (value tree <-> text) is trusted, metadata other than the name is
   constant, and floats are the dyadic values k/1024. *)
From MT Require Import Prelude Lang LangGraph Codec ModelIO Model ModelOps ModelInv ModelLoad ModelLoadThm Classes ClassesThm ModelSaveThm.

Theorem C07_key_roundtrip : forall z, Z_of_string (string_of_Z z) = Some z.
Proof. exact Z_of_string_of_Z. Qed.
Print Assumptions C07_key_roundtrip.

Theorem C07_roundtrip_partial : forall c, wf_content c = true -> decode (encode c) = Some c.
Proof. exact decode_encode. Qed.
Print Assumptions C07_roundtrip_partial.

Theorem C07_resave_stable : forall c, wf_content c = true -> option_map encode (decode (encode c)) = Some (encode c).
Proof. exact resave_stable. Qed.
Print Assumptions C07_resave_stable.

Theorem C07_shorthand : forall i t, dec_asset (string_of_Z i, JStr t) = Some (mkCA i (t ++ ":" ++ string_of_Z i) t [] []).
Proof. exact shorthand_entry. Qed.
Print Assumptions C07_shorthand.

Theorem C07_any_order : forall n entries cs ts assets,
  forallb wf_assoc cs = true -> omap dec_asset entries = Some assets ->
  decode (JDict [("metadata", JDict [("name", JStr n)]); ("assets", JDict entries);
                 ("associations", JList (map enc_assoc cs)); ("attackers", JDict (map enc_attacker ts))])
  = Some (mkC n assets cs ts).
Proof. exact decode_assets_any_order. Qed.
Print Assumptions C07_any_order.

(* the loader, as a run of the model API from the empty model, rebuilds every loadable content exactly *)
Theorem C07_rebuild : forall defaults c, loadable defaults c = true ->
  exists s, load defaults c = (s, MOk) /\ MI s /\ content_of defaults (c_name c) s = c.
Proof. exact load_loadable. Qed.
Print Assumptions C07_rebuild.

(* save, then load: document codec and rebuild composed *)
Theorem C07_save_load : forall defaults c, loadable defaults c = true -> wf_content c = true ->
  exists c' s, decode (encode c) = Some c' /\ load defaults c' = (s, MOk) /\ MI s /\ content_of defaults (c_name c) s = c.
Proof. exact save_then_load. Qed.
Print Assumptions C07_save_load.

(* the same for any model state whose content is loadable: the reloaded model is coherent and has the same content *)
Theorem C07_state_save_load : forall defaults n s,
  loadable defaults (content_of defaults n s) = true -> wf_content (content_of defaults n s) = true ->
  exists c' s', decode (encode (content_of defaults n s)) = Some c' /\ load defaults c' = (s', MOk) /\ MI s' /\
                content_of defaults n s' = content_of defaults n s.
Proof. exact state_save_load. Qed.
Print Assumptions C07_state_save_load.

(* every history of typed API calls: save the model it builds, load the document, get a coherent model with the same content *)
Theorem C07_typed_history : forall L created ops n, no_extras_class created ->
  let s := tsteps L created minit ops in
  exists c' s', decode (encode (content_of (class_defenses L) n s)) = Some c' /\ load (class_defenses L) c' = (s', MOk) /\
                MI s' /\ content_of (class_defenses L) n s' = content_of (class_defenses L) n s.
Proof. exact typed_save_load. Qed.
Print Assumptions C07_typed_history.

(* its core: the content of such a model is always accepted by the loader *)
Theorem C07_reachable_loadable : forall L created ops n,
  loadable (class_defenses L) (content_of (class_defenses L) n (tsteps L created minit ops)) = true.
Proof. exact reachable_loadable. Qed.
Print Assumptions C07_reachable_loadable.

Definition exC : content := mkC "m"
  [ mkCA 4%Z "x" "Aa" [("df", 512%Z)] []; mkCA 0%Z "y:0" "Bb" [] [("k", JInt 1%Z)]; mkCA (-2)%Z "z" "Aa" [] [] ]
  [ mkCC "Pp" "pa" [4%Z; 0%Z] "pb" [(-2)%Z] [("note", JStr "n")]; mkCC "zz" "qa" [0%Z] "qb" [4%Z] [] ]
  [ mkCT 5%Z "eve" [(0%Z, ["t"; "u"]); (4%Z, ["t"])] ].
Example C07_nonvacuous : wf_content exC = true /\ decode (encode exC) = Some exC /\
  decode (JDict [("metadata", JDict [("name", JStr "m")]); ("assets", JDict [("4", JStr "Aa"); ("0", JStr "Bb")])])
  = Some (mkC "m" [mkCA 4%Z "Aa:4" "Aa" [] []; mkCA 0%Z "Bb:0" "Bb" [] []] [] []).
Proof. vm_compute. auto. Qed.
Definition exTbl := defaults_of [("Aa", [("df", 0%Z); ("dg", 1024%Z)]); ("Bb", [])].
Example C07_rebuild_nonvacuous : loadable exTbl exC = true /\ snd (load exTbl exC) = MOk /\
  content_eqb (content_of exTbl "m" (fst (load exTbl exC))) exC = true.
Proof. vm_compute. auto. Qed.

Definition exL : lang := mkLang
  [ mkAsset "Aa" None false [] [mkStep "t" "or" JNull [] (JDict []) None None;
                                mkStep "df" "defense" (JDict [("type", JStr "function"); ("name", JStr "Enabled")]) [] (JDict []) None None];
    mkAsset "Bb" (Some "Aa") false [] [mkStep "dg" "defense" JNull [] (JDict []) None None] ]
  [ mkAssoc "Pp" "Aa" "pa" 0 (Some 1%Z) "Bb" "pb" 0 None; mkAssoc "Qq" "Aa" "qa" 0 None "Aa" "qb" 0 None ].
Definition exOps : list top :=
  [ TBase (MNewAsset "Aa" (Some "a") [] (JDict [])); TBase (MAddAsset 0 (Some 7%Z) true);
    TBase (MNewAsset "Bb" (Some "b") [("df", 512%Z)] (JDict [("k", JBool true)])); TBase (MAddAsset 1 None true);
    TBase (MNewAsset "Bb" (Some "a") [] (JDict [])); TBase (MAddAsset 2 (Some 0%Z) true);          (* renamed a:0 *)
    TSetDef 2 "dg" 1024%Z;
    TBase (MNewAssoc "Pp" "pa" [0] "pb" [1; 2]); TBase (MAddAssoc 0);
    TBase (MNewAssoc "Qq" "qa" [0; 1] "qb" [2]); TBase (MAddAssoc 1);
    TBase (MRemoveFromAssoc 2 0);
    TBase (MNewAtt (Some "")); TBase (MAddEntry 0 1 "t"); TBase (MAddAtt 0 None) ].
Example C07_typed_nonvacuous :
  lg_assocs exL = LOk (l_assocs exL) /\ no_extras_class (l_assocs exL) /\
  let s := tsteps exL (l_assocs exL) minit exOps in
  m_assets s = [0; 1; 2] /\ m_assocs s = [0; 1] /\ m_attackers s = [0] /\
  content_eqb (content_of (class_defenses exL) "m" (fst (load (class_defenses exL) (content_of (class_defenses exL) "m" s))))
              (content_of (class_defenses exL) "m" s) = true.
Proof. vm_compute. repeat split. Qed.
