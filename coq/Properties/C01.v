(* C01 — attack-graph edges are exactly the MAL meaning of the step expressions.
   Statements only; proofs in theories/EvalThm.v (ev_den), GenThm.v (generate_spec), GenCor.v (generated_graph).
   den L M n e x y : asset y is reached from asset x by expression e under MAL's relational set semantics
   (field = association navigation, collect = composition, union / intersection / difference pointwise,
   subType = restriction of the result, variable = its definition for x's type, `*` = transitive closure,
   which lies within the bounds closure+ <= result <= closure* the property allows). *)
From MT Require Import Prelude Lang Eval EvalThm EvalTotal Graph Gen GenThm GenCor.
From Coq Require Import Relations.

(* the evaluator as coded, applied to a list of current targets, returns exactly the image of the denotation *)
Theorem C01_evaluator_denotation : forall L M n e xs ys,
  ev L M n e xs = EOk ys -> forall y, In y ys <-> exists x, In x xs /\ den L M n e x y.
Proof. exact ev_den. Qed.
Print Assumptions C01_evaluator_denotation.

(* the denotation, spelled out *)
Theorem C01_denotation_cases : forall L M n x y,
  (forall f, den L M n (SField f) x y <-> In y (nbrs M x f)) /\
  (forall l r, den L M n (SCollect l r) x y <-> exists z, den L M n l x z /\ den L M n r z y) /\
  (forall l r, den L M n (SUnion l r) x y <-> den L M n l x y \/ den L M n r x y) /\
  (forall l r, den L M n (SInter l r) x y <-> den L M n l x y /\ den L M n r x y) /\
  (forall l r, den L M n (SDiff l r) x y <-> den L M n l x y /\ ~ den L M n r x y) /\
  (forall e, den L M n (STrans e) x y <-> clos_trans Z (den L M n e) x y) /\
  (forall t e, den L M n (SSub t e) x y <-> den L M n e x y /\ sub_ok L M y t).
Proof. intros L M n x y. destruct n; cbn; repeat split; intros; tauto. Qed.
Print Assumptions C01_denotation_cases.

(* generation: node k (asset a, step d) has node c (asset b, step d') as a child iff one of the reaches
   expressions of d, evaluated from a, reaches b and names step d'; parents are the converse of children *)
Theorem C01_children_iff : forall L M s, generate L M = GOk s -> names_ok L M ->
  exists info : list (nat * iasset * stepdecl),
    map (fun x => (snd (fst x), snd x)) info = enum_model L M /\
    g_nodes (s_g s) = seq 0 (List.length info) /\
    (forall k a d c b d', nth_error info k = Some (k, a, d) -> nth_error info c = Some (c, b, d') ->
      (In c (n_children (s_nh s k)) <->
       exists ov es e, sd_reaches d = Some (ov, es) /\ In e es /\
                       den L M (ev_fuel L) e (ia_id a) (ia_id b) /\ last_step e = Some (sd_name d'))) /\
    (forall p c, In c (n_children (s_nh s p)) <-> In p (n_parents (s_nh s c))).
Proof.
  intros L M s Hgen Hn. destruct (generated_graph L M s Hgen Hn) as (info & A & B & _ & _ & _ & _ & _ & _ & _ & E & F).
  exists info. auto.
Qed.
Print Assumptions C01_children_iff.

(* termination: the loop that computes `*` returns within the fuel the evaluator gives it (number of assets + 2) on every
   model, whatever its cycles and self-links, as soon as the body of the closure evaluates on every asset of the model
   and stays inside the model — every round that finds a new asset enlarges the duplicate-free set of seen assets *)
Theorem C01_closure_terminates : forall L M venvE e xs,
  let U := map ia_id (im_assets M) in
  (forall a, In a U -> exists r, ev1 L M venvE e [a] = EOk r /\ incl r U) -> incl xs U ->
  exists out, ev1 L M venvE (STrans e) xs = EOk out.
Proof. exact trans_terminates. Qed.
Print Assumptions C01_closure_terminates.

(* non-vacuity: the witnesses of the repaired defects F1a, F1b, F1c (self-link), F1d *)
Definition stp (n : string) (es : list sexpr) : stepdecl := mkStep n "or" JNull [] (JDict []) None (Some (true, es)).
Definition exL : lang := mkLang
  [ mkAsset "Aa" None false []
      [ mkStep "t" "or" JNull [] (JDict []) None None;
        stp "u" [SCollect (SUnion (SField "pb") (SField "qb")) (SStep "t")];
        stp "d" [SCollect (SDiff (SField "pb") (SField "qb")) (SStep "t")];
        stp "j" [SCollect (SCollect (SField "pb") (SInter (SField "pb") (SField "qb"))) (SStep "t")];
        stp "c" [SCollect (STrans (SField "pb")) (SStep "t")] ] ]
  [ mkAssoc "Pp" "Aa" "pa" 0%Z None "Aa" "pb" 0%Z None; mkAssoc "Qq" "Aa" "qa" 0%Z None "Aa" "qb" 0%Z None ].
Definition exM : imodel := mkIModel
  [ mkIAsset 0%Z "a0" "Aa" [] [0; 1; 4]; mkIAsset 1%Z "a1" "Aa" [] [0; 2]; mkIAsset 2%Z "a2" "Aa" [] [1; 3; 4]; mkIAsset 3%Z "a3" "Aa" [] [2; 3] ]
  [ mkIAssoc "Pp" "pa" [0%Z] "pb" [1%Z]; mkIAssoc "Pp" "pa" [0%Z] "pb" [2%Z]; mkIAssoc "Pp" "pa" [1%Z] "pb" [3%Z];
    mkIAssoc "Qq" "qa" [2%Z] "qb" [3%Z]; mkIAssoc "Pp" "pa" [2%Z] "pb" [0%Z] ].
Example C01_nonvacuous :
  match generate exL exM with
  | GOk s => map (fun k => n_children (s_nh s k)) [1; 2; 3; 4] = [[5; 10]; [5; 10]; []; [5; 10; 15; 0]]
  | GErr _ => False
  end.
Proof. vm_compute. reflexivity. Qed.
