(* C18 — legacy model loaders agree with the native loader.
   Statements only; proofs in theories/Legacy.v (and ModelIO.v). Document level, like C07: `content` is what a model
   holds; encode39 / to_scad are the inverse translations into the two legacy formats; decode39 / load_scad are the
   reading parts of translators/updater.py and translators/securicad.py.
   The rebuild of the 0.0.39 loader is the same sequence of API calls as the native one (ModelLoad.load), so the
   rebuild theorem of C07 applies: C18_v0039_rebuild, C18_v0039_same_model.
   The .sCAD loader adds one association object per linked pair: the content it rebuilds is the native content with every
   association split into its pairs (PairLoad.pairs_content), which is loadable whenever the native one is, so the
   rebuild theorem applies to it too (C18_scad_rebuild).
   PARTIAL: for .sCAD the reading part (load_scad) is tied to the implementation by the run (Legacy.scad_check on every
   generated archive: assets, links, entry points); entry points are not in the theorem. *)
From MT Require Import Prelude Codec ModelIO Model ModelOps ModelInv ModelLoad ModelLoadThm Legacy LegacyLoad PairLoad.

Theorem C18_v0039_roundtrip_partial : forall c, no_extras c = true -> decode39 (encode39 c) = Some c.
Proof. exact decode39_encode39. Qed.
Print Assumptions C18_v0039_roundtrip_partial.

Theorem C18_v0039_agrees_with_native_partial : forall c, no_extras c = true -> wf_content c = true ->
  decode39 (encode39 c) = decode (encode c).
Proof. exact legacy39_agrees_with_native. Qed.
Print Assumptions C18_v0039_agrees_with_native_partial.

(* the 0.0.39 file of a loadable content is rebuilt, through the API, into a coherent model with that content *)
Theorem C18_v0039_rebuild : forall defaults c, no_extras c = true -> loadable defaults c = true ->
  exists c' s, decode39 (encode39 c) = Some c' /\ load defaults c' = (s, MOk) /\ MI s /\ content_of defaults (c_name c) s = c.
Proof. exact legacy39_rebuild. Qed.
Print Assumptions C18_v0039_rebuild.

(* and it is the model the native file of the same content is rebuilt into *)
Theorem C18_v0039_same_model : forall defaults c, no_extras c = true -> wf_content c = true ->
  option_map (load defaults) (decode39 (encode39 c)) = option_map (load defaults) (decode (encode c)).
Proof. exact legacy39_same_model. Qed.
Print Assumptions C18_v0039_same_model.

(* .sCAD: when the loader returns a model for the archive written from c, its assets are those of c and its links are
   exactly the pairs of c's associations (entry points: correspondence only). Premises: no asset type is called
   Attacker, defense names start with a lower-case letter, no field is called firstSteps, and the class lookup
   (language graph + classes factory; instantiated by Legacy.scad_class_of in the run) finds the class of each link *)
Theorem C18_scad_roundtrip_partial : forall class_of c r,
  (forall a, In a (c_assets c) -> seqb (ca_type a) "Attacker" = false /\ ca_extras a = [] /\
                                  forall d v, In (d, v) (ca_defs a) -> lower_first (upper_first d) = d) ->
  (forall a, In a (c_assocs c) -> seqb (cc_lfield a) "firstSteps" = false /\ seqb (cc_rfield a) "firstSteps" = false) ->
  (forall cls lf l rf r0 lt rt, In (cls, lf, l, rf, r0) (pairs_of c) -> type_of (c_assets c) l = Some lt -> type_of (c_assets c) r0 = Some rt ->
                                class_of lf rf lt rt = Some cls) ->
  load_scad class_of (to_scad c) = Some r -> sl_assets r = c_assets c /\ sl_links r = pairs_of c.
Proof. exact scad_roundtrip_partial. Qed.
Print Assumptions C18_scad_roundtrip_partial.

(* a loader that adds one association per linked pair rebuilds a coherent model whose associations are exactly the
   linked pairs of the native content *)
Theorem C18_scad_rebuild : forall defaults c, loadable defaults c = true ->
  exists s, load defaults (pairs_content c) = (s, MOk) /\ MI s /\ content_of defaults (c_name c) s = pairs_content c.
Proof. exact pairs_rebuild. Qed.
Print Assumptions C18_scad_rebuild.
Theorem C18_pairs_are_the_links : forall c, map pair_key (c_assocs (pairs_content c)) = pairs_of c.
Proof. exact pairs_content_pairs_of. Qed.
Print Assumptions C18_pairs_are_the_links.

Definition exC18 : content := mkC "m"
  [ mkCA 4%Z "x" "Aa" [("df", 0%Z)] []; mkCA (-2)%Z "y" "Bb" [] []; mkCA 0%Z "z" "Bb" [("dg", 1024%Z)] [] ]
  [ mkCC "Pp_Aa_Aa" "pa" [4%Z] "pb" [(-2)%Z; 0%Z] []; mkCC "Qq" "qa" [0%Z] "qb" [0%Z] [] ]
  [ mkCT 5%Z "eve" [(4%Z, ["t"; "u"]); (0%Z, ["t"])] ].
Example C18_nonvacuous :
  no_extras exC18 = true /\ decode39 (encode39 exC18) = Some exC18 /\
  option_map (fun r => (sl_links r, sl_atts r)) (load_scad (fun lf rf lt rt => if seqb lf "pa" then Some "Pp_Aa_Aa" else Some "Qq") (to_scad exC18))
  = Some ([("Pp_Aa_Aa", "pa", 4%Z, "pb", (-2)%Z); ("Pp_Aa_Aa", "pa", 4%Z, "pb", 0%Z); ("Qq", "qa", 0%Z, "qb", 0%Z)],
          [(5%Z, [(4%Z, ["t"; "u"]); (0%Z, ["t"])])]).
Proof. vm_compute. repeat split. Qed.
