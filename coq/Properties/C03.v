(* C03 — step inheritance resolves override / extend correctly and the lookup is pure.
   Statements only; proofs in theories/LangThm.v. The model (Lang.attacks_for) is a Gallina function of the
   language specification alone: it cannot modify the specification nor depend on earlier calls; for the
   implementation that is what the correspondence run observes (repeated lookups, snapshot of _lang_spec). *)
From MT Require Import Prelude Lang LangThm.

(* what a type exposes = its ancestors' declarations folded from the root down *)
Theorem C03_fold_spec : forall fuel L t r,
  attacks_for fuel L t = Some r ->
  exists ch, chain_assets fuel L t = Some ch /\ r = fold_chain (rev ch) [].
Proof. exact attacks_for_fold. Qed.
Print Assumptions C03_fold_spec.

(* one declaration: first definition, no reaches clause, '->', '+>' *)
Theorem C03_first_definition : forall steps d, dget seqb steps (sd_name d) = None ->
  dget seqb (apply_decl steps d) (sd_name d) = Some d /\
  (forall k, k <> sd_name d -> dget seqb (apply_decl steps d) k = dget seqb steps k).
Proof. exact apply_decl_first. Qed.
Print Assumptions C03_first_definition.
Theorem C03_no_reaches_untouched : forall steps d old,
  dget seqb steps (sd_name d) = Some old -> sd_reaches d = None -> apply_decl steps d = steps.
Proof. exact apply_decl_noreaches. Qed.
Print Assumptions C03_no_reaches_untouched.
Theorem C03_override_replaces : forall steps d old es,
  dget seqb steps (sd_name d) = Some old -> sd_reaches d = Some (true, es) ->
  dget seqb (apply_decl steps d) (sd_name d) = Some d /\
  (forall k, k <> sd_name d -> dget seqb (apply_decl steps d) k = dget seqb steps k) /\
  dkeys (apply_decl steps d) = dkeys steps.
Proof. exact apply_decl_override. Qed.
Print Assumptions C03_override_replaces.
Theorem C03_extend_appends : forall steps d old es,
  dget seqb steps (sd_name d) = Some old -> sd_reaches d = Some (false, es) ->
  exists new, dget seqb (apply_decl steps d) (sd_name d) = Some new /\
    sd_type new = sd_type old /\ sd_ttc new = sd_ttc old /\ sd_tags new = sd_tags old /\ sd_meta new = sd_meta old /\
    sd_requires new = sd_requires old /\
    sd_reaches new = match sd_reaches old with
                     | Some (ov, olds) => Some (ov, olds ++ es)
                     | None => Some (false, es)
                     end /\
    (forall k, k <> sd_name d -> dget seqb (apply_decl steps d) k = dget seqb steps k).
Proof. exact apply_decl_extend. Qed.
Print Assumptions C03_extend_appends.

(* never depends on what descendants or siblings declare: two specifications that agree on the ancestors of t
   (and on t) resolve t to the same steps *)
Theorem C03_depends_only_on_ancestors : forall fuel L L' t r,
  attacks_for fuel L t = Some r ->
  (forall u, In u (chain_up fuel L t) -> find_asset L' u = find_asset L u) ->
  attacks_for fuel L' t = Some r.
Proof. exact attacks_for_ancestors_only. Qed.
Print Assumptions C03_depends_only_on_ancestors.

(* the lookup terminates on every specification with acyclic inheritance, and more fuel never changes the answer *)
Theorem C03_total : forall L t, wf_inherit L = true -> exists r, steps_of L t = Some r.
Proof. exact steps_of_total. Qed.
Print Assumptions C03_total.
Theorem C03_fuel_irrelevant : forall f1 f2 L t r, attacks_for f1 L t = Some r -> f1 <= f2 -> attacks_for f2 L t = Some r.
Proof. exact attacks_for_more_fuel. Qed.
Print Assumptions C03_fuel_irrelevant.

(* non-vacuity: the shape of the defect repaired by "fix: resolving inherited attack steps never extends ..." *)
Definition st (n : string) (r : option (bool * list sexpr)) : stepdecl := mkStep n "or" JNull [] (JDict []) None r.
Definition exL : lang := mkLang
  [ mkAsset "R" None false [] [st "s" None; st "t" None; st "u" None; st "v" None];
    mkAsset "M" (Some "R") false [] [st "s" (Some (false, [SStep "t"]))];
    mkAsset "K" (Some "M") false [] [st "s" (Some (false, [SStep "u"]))];
    mkAsset "K2" (Some "M") false [] [st "s" (Some (true, [SStep "v"]))] ] [].
Example C03_nonvacuous :
  wf_inherit exL = true /\
  option_map (fun r => option_map sd_reaches (dget seqb r "s")) (steps_of exL "M") = Some (Some (Some (false, [SStep "t"]))) /\
  option_map (fun r => option_map sd_reaches (dget seqb r "s")) (steps_of exL "K") = Some (Some (Some (false, [SStep "t"; SStep "u"]))) /\
  option_map (fun r => option_map sd_reaches (dget seqb r "s")) (steps_of exL "K2") = Some (Some (Some (true, [SStep "v"]))).
Proof. vm_compute. auto. Qed.
