(* C08 — viability / necessity labels are the greatest fixed point, in any node order.
   Statements only; proofs in theories/Apriori.v (propagate_post, calculate_gfp, calculate_ext) and AprioriThm.v.
   s ranges over the states reached by ANY history of graph operations (final ops); the analysis is run on a
   graph whose stored labels are the defaults (viable, necessary), as after generation. *)
From MT Require Import Prelude Graph Apriori GraphAn GraphOps GraphInv GraphThm AprioriThm.

(* the equations of the property statement *)
Theorem C08_equations : forall nh lab o,
  viab_eq nh lab o =
    (if is_or (nh o) then match n_parents (nh o) with [] => true | _ => existsb lab (n_parents (nh o)) end
     else if is_and (nh o) then forallb lab (n_parents (nh o))
     else fixed_viable (nh o)) /\
  nec_eq nh lab o =
    (let counts p := lab p || has_ttc_distribution (nh p) in
     if is_or (nh o) then forallb counts (n_parents (nh o))
     else if is_and (nh o) then match n_parents (nh o) with [] => true | _ => existsb counts (n_parents (nh o)) end
     else fixed_necessary (nh o)).
Proof. intros nh lab o. exact (conj (viab_eq_cases nh lab o) (nec_eq_cases nh lab o)). Qed.
Print Assumptions C08_equations.

(* the labels stored after the analysis satisfy every equation, and every labelling that satisfies the
   equations is pointwise below them (most steps viable, most steps necessary) *)
Theorem C08_gfp : forall ops s',
  let s := final ops in
  fresh_labels s -> calc s = (s', Ok) ->
  let nh := s_nh s in
  let v := fun o => n_viable (s_nh s' o) in
  let n := fun o => n_necessary (s_nh s' o) in
  (forall c, In c (g_nodes (s_g s)) -> v c = viab_eq nh v c /\ n c = nec_eq nh n c) /\
  (forall u, (forall c, In c (g_nodes (s_g s)) -> u c = viab_eq nh u c) ->
             forall c, In c (g_nodes (s_g s)) -> u c = true -> v c = true) /\
  (forall u, (forall c, In c (g_nodes (s_g s)) -> u c = nec_eq nh u c) ->
             forall c, In c (g_nodes (s_g s)) -> u c = true -> n c = true).
Proof. intros ops s' s. exact (calc_gfp (final ops) s' (reachable_WF ops)). Qed.
Print Assumptions C08_gfp.

(* the analysis terminates: on every reachable graph with default labels and usable statuses it returns within the fuel
   of the model (4 * nodes + 4; the proof needs only more fuel than nodes), so "calc s = (s', Ok)" above is not a
   restriction *)
Theorem C08_terminates : forall ops,
  let s := final ops in
  fresh_labels s -> calc_guard s = true -> exists s', calc s = (s', Ok).
Proof. intros ops s. exact (calc_total (final ops) (reachable_WF ops)). Qed.
Print Assumptions C08_terminates.

(* the labelling does not depend on the order in which the nodes are stored *)
Theorem C08_order_independent : forall ops l1 l2 s1 s2,
  let s := final ops in
  fresh_labels s -> NoDup l1 -> NoDup l2 ->
  (forall x, In x l1 <-> In x (g_nodes (s_g s))) -> (forall x, In x l2 <-> In x (g_nodes (s_g s))) ->
  calc (with_order s l1) = (s1, Ok) -> calc (with_order s l2) = (s2, Ok) ->
  forall c, In c (g_nodes (s_g s)) ->
    n_viable (s_nh s1 c) = n_viable (s_nh s2 c) /\ n_necessary (s_nh s1 c) = n_necessary (s_nh s2 c).
Proof. intros ops l1 l2 s1 s2 s. exact (calc_order_independent (final ops) l1 l2 s1 s2 (reachable_WF ops)). Qed.
Print Assumptions C08_order_independent.

(* non-vacuity: a cyclic graph with a self-loop, a defense that is on, an exist step that fails and a TTC distribution *)
Definition nd (t nm : string) (d : option Z) (e : option bool) (ttc : jv) : node :=
  mkNode t nm None (Some "a") [] [] [] d e true true None ttc [] (JDict []).
Definition dist : jv := JDict [("type", JStr "function"); ("name", JStr "Exponential")].
Definition ex_ops : list op :=
  [ ONew (nd "defense" "d" (Some 1024%Z) None JNull); OAddNode 0 None;
    ONew (nd "exist" "e" None (Some false) JNull); OAddNode 1 None;
    ONew (nd "or" "o" None None dist); OAddNode 2 None;
    ONew (nd "and" "a" None None JNull); OAddNode 3 None;
    ONew (nd "or" "p" None None JNull); OAddNode 4 None;
    OLink 0 2; OLink 2 2; OLink 1 3; OLink 2 3; OLink 3 4; OLink 4 4; OLink 0 4 ].
Example C08_nonvacuous :
  let s := final ex_ops in
  guards_met ex_ops = true /\ (forall o, In o (g_nodes (s_g s)) -> n_viable (s_nh s o) = true /\ n_necessary (s_nh s o) = true) /\
  snd (calc s) = Ok /\
  map (fun o => (n_viable (s_nh (fst (calc s)) o), n_necessary (s_nh (fst (calc s)) o))) [0; 1; 2; 3; 4]
  = [(false, true); (false, true); (true, true); (false, true); (true, true)].
Proof.
  cbv zeta. split; [vm_compute; reflexivity|]. split.
  - intros o Ho. vm_compute in Ho. repeat (destruct Ho as [<-|Ho]; [vm_compute; auto|]). destruct Ho.
  - split; vm_compute; reflexivity.
Qed.
