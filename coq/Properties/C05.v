(* C05 — the instance model stays coherent under any history of edits.
   Statements only; proofs in theories/ModelInv.v (invariant MI, preserved by every operation) and ModelThm.v.
   `mfinal ops` = the model after ANY finite list of operations (ModelOps.mop: creation of asset / association /
   attacker objects, add / remove asset, add / remove association, remove asset from association, attackers and entry
   points, association extras, getters), valid and invalid arguments; an operation whose guard (ModelOps.mguard: the
   API used as intended) fails is a no-op with outcome MBadOp. *)
From MT Require Import Prelude Model ModelOps ModelInv ModelThm.

Theorem C05_invariant : forall ops, MI (mfinal ops).
Proof. exact reachable_MI. Qed.
Print Assumptions C05_invariant.

(* live asset ids and names are unique, and the reserved ids / names are exactly those of the live assets *)
Theorem C05_ids_names_unique : forall ops,
  let s := mfinal ops in
  (forall h1 h2, In h1 (m_assets s) -> In h2 (m_assets s) -> id_of s h1 = id_of s h2 -> h1 = h2) /\
  (forall h1 h2, In h1 (m_assets s) -> In h2 (m_assets s) -> name_of s h1 = name_of s h2 -> h1 = h2) /\
  (forall i, In i (m_ids s) <-> exists h, In h (m_assets s) /\ id_of s h = Some i) /\
  (forall n, In n (m_names s) <-> exists h, In h (m_assets s) /\ name_of s h = Some n).
Proof.
  intros ops s. pose proof (reachable_MI ops) as I. destruct (MI_reserved_exact _ I) as [A B].
  exact (conj (MI_ids_unique _ I) (conj (MI_names_unique _ I) (conj A B))).
Qed.
Print Assumptions C05_ids_names_unique.

(* an explicitly requested id, 0 and negative ids included, is honoured *)
Theorem C05_requested_id : forall s h i allow s',
  add_asset s h (Some i) allow = (s', MOk) -> ma_id (m_ah s' h) = Some i /\ In h (m_assets s') /\ In i (m_ids s').
Proof. exact requested_id_honoured. Qed.
Print Assumptions C05_requested_id.

(* an asset lists an association exactly when that association is in the model and lists the asset *)
Theorem C05_backrefs : forall ops h c,
  let s := mfinal ops in
  In h (m_assets s) -> (In c (ma_assocs (m_ah s h)) <-> In c (m_assocs s) /\ In h (members s c)).
Proof. intros ops h c s. exact (mi_backrefs s (reachable_MI ops) h c). Qed.
Print Assumptions C05_backrefs.

(* the neighbours reported for (asset, field) are exactly the assets linked through that field, self-links included *)
Theorem C05_neighbours : forall ops h f b,
  let s := mfinal ops in
  In h (m_assets s) ->
  (In b (associated s h f) <->
   exists c, In c (m_assocs s) /\
     ((mc_rfield (m_ch s c) = f /\ In h (mc_left (m_ch s c)) /\ In b (mc_right (m_ch s c))) \/
      (mc_lfield (m_ch s c) = f /\ In h (mc_right (m_ch s c)) /\ In b (mc_left (m_ch s c))))).
Proof. intros ops h f b s. exact (MI_neighbours s (reachable_MI ops) h f b). Qed.
Print Assumptions C05_neighbours.

(* a removed asset leaves no trace: not in the model, its id and name are free again, no association lists it,
   no attacker has an entry point on it; the model stays coherent *)
Theorem C05_no_trace_asset : forall ops h,
  let s := mfinal ops in
  In h (m_assets s) ->
  let s' := fst (remove_asset s h) in
  snd (remove_asset s h) = MOk /\ MI s' /\ ~ In h (m_assets s') /\
  (forall i, id_of s h = Some i -> ~ In i (m_ids s')) /\ (forall n, name_of s h = Some n -> ~ In n (m_names s')) /\
  (forall c, In c (m_assocs s') -> ~ In h (members s' c)) /\
  (forall t, In t (m_attackers s') -> ~ In h (map fst (mt_entry (m_th s' t)))).
Proof. intros ops h s. exact (removed_asset_no_trace s h (reachable_MI ops)). Qed.
Print Assumptions C05_no_trace_asset.
Theorem C05_no_trace_assoc : forall ops c,
  let s := mfinal ops in
  In c (m_assocs s) ->
  let s' := fst (remove_association s c) in
  MI s' /\ ~ In c (m_assocs s') /\ (forall h, In h (m_assets s') -> ~ In c (ma_assocs (m_ah s' h))).
Proof. intros ops c s. exact (removed_assoc_no_trace s c (reachable_MI ops)). Qed.
Print Assumptions C05_no_trace_assoc.

(* an operation that raises leaves the observable state unchanged *)
Theorem C05_error_atomic : forall ops o,
  let s := mfinal ops in
  mguard s o = true -> snd (fst (mstep s o)) <> MOk -> mobs (fst (fst (mstep s o))) = mobs s.
Proof. intros ops o s. exact (error_atomic s o (reachable_MI ops)). Qed.
Print Assumptions C05_error_atomic.

Definition ex_ops : list mop :=
  [ MNewAsset "Aa" (Some "x") [] (JDict []); MAddAsset 0 None true;
    MNewAsset "Aa" (Some "x") [] (JDict []); MAddAsset 1 (Some 0%Z) true; MAddAsset 1 (Some (-3)%Z) true;
    MNewAsset "Bb" None [] (JDict []); MAddAsset 2 (Some 7%Z) false;
    MNewAssoc "Pp" "pa" [0] "pb" [0; 1]; MAddAssoc 0; MNewAssoc "Pp" "pa" [1; 2] "pb" [0]; MAddAssoc 1;
    MNewAtt (Some "eve"); MAddAtt 0 None; MAddEntry 0 0 "t"; MAddEntry 0 2 "t";
    MRemoveFromAssoc 1 1; MRemoveAsset 0 ].
Example C05_nonvacuous :
  mguards_met ex_ops = true /\ m_assets (mfinal ex_ops) = [1; 2] /\ m_assocs (mfinal ex_ops) = [] /\
  m_ids (mfinal ex_ops) = [(-3)%Z; 7%Z] /\ m_names (mfinal ex_ops) = ["x:-3"; "Bb:7"] /\
  map fst (mt_entry (m_th (mfinal ex_ops) 0)) = [2].
Proof. vm_compute. auto 10. Qed.
