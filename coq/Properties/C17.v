(* C17 — malformed MAL source is rejected, never half-compiled.
   Statements only; proofs in theories/MalParseThm.v and MalCompile.v.
   "Conforms to the grammar" for a token list: it is the yield of a parse tree of `mal: declaration+ | EOF`, possibly
   followed by tokens that cannot start a declaration (the rule has no trailing EOF: ANTLR stops there without an
   error, and so does the model — an observation recorded in DESIGN.md, outside this property's quantifier).
   Lexer errors (characters outside the alphabet) are reported by the real lexer; the check counts them. *)
From MT Require Import Prelude Lang Mal MalPrint MalThm MalParse MalParseThm MalInclude MalCompile.

Theorem C17_reject_root : forall ftoks n depth root,
  (forall m rest, root <> fmal m ++ rest) -> compile ftoks n depth root = None.
Proof. exact malformed_root_rejected. Qed.
Print Assumptions C17_reject_root.

Theorem C17_reject_include : forall ftoks n depth root m rest f toks,
  parse_mal n root = Some (m, rest) -> In (DInclude f) m -> ftoks f = Some toks ->
  (forall m' rest', toks <> fmal m' ++ rest') -> compile ftoks n (S depth) root = None.
Proof. exact malformed_include_rejected. Qed.
Print Assumptions C17_reject_include.

(* whatever is returned was built from a complete parse tree of the consumed prefix, never from fragments *)
Theorem C17_never_half_compiled : forall ftoks n depth root s, compile ftoks n depth root = Some s ->
  exists m rest, root = fmal m ++ rest /\ s_decl rest = false /\ v_mal (files_of ftoks) depth m = Some s.
Proof. exact compiled_is_parsed. Qed.
Print Assumptions C17_never_half_compiled.

Theorem C17_parser_sound : forall n toks m rest, parse_mal n toks = Some (m, rest) ->
  toks = fmal m ++ rest /\ s_decl rest = false /\ (m = [] -> toks = []).
Proof. exact parse_mal_sound. Qed.
Print Assumptions C17_parser_sound.

(* non-vacuity: `category S { asset Aa { | s1 -> -> b.s2 } }` (doubled arrow), a missing multiplicity, a truncated
   file and a malformed included file are rejected; the well-formed variant compiles *)
Definition good : list tok :=
  [KCategory; TId "S"; LCur; KAsset; TId "Aa"; LCur; Or; TId "s1"; LeadsTo; TId "b"; Dot; TId "s2"; RCur; RCur;
   KAssociations; LCur; TId "Aa"; LSq; TId "a"; RSq; Star; LArrow; TId "Pp"; RArrow; TInt "1"; LSq; TId "b"; RSq; TId "Aa"; RCur].
Definition doubled : list tok :=
  [KCategory; TId "S"; LCur; KAsset; TId "Aa"; LCur; Or; TId "s1"; LeadsTo; LeadsTo; TId "b"; Dot; TId "s2"; RCur; RCur].
Definition nomult : list tok :=
  [KAssociations; LCur; TId "Aa"; LSq; TId "a"; RSq; LArrow; TId "Pp"; RArrow; TInt "1"; LSq; TId "b"; RSq; TId "Aa"; RCur].
Example C17_nonvacuous :
  (exists s, compile (fun _ => None) 500 1 good = Some s) /\
  compile (fun _ => None) 500 1 doubled = None /\ compile (fun _ => None) 500 1 nomult = None /\
  compile (fun _ => None) 500 1 (firstn 20 good) = None /\
  compile (fun f => if seqb f "inc.mal" then Some doubled else None) 500 2 (KInclude :: TString "inc.mal" :: good) = None /\
  (exists s, compile (fun f => if seqb f "inc.mal" then Some good else None) 500 2 (KInclude :: TString "inc.mal" :: good) = Some s).
Proof. vm_compute. repeat split; eexists; reflexivity. Qed.
