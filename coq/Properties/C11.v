(* C11 — attackers and nodes always agree on what is compromised.
   Statements only; proofs are in theories/GraphInv.v and theories/GraphThm.v.
   `final ops` is the state reached from the empty world by ANY finite list of operations
   (GraphOps.op: node/attacker creation, add/remove node, link, add/remove attacker, compromise/undo from either
   side, attach_attackers, analysis, pruning, label and data edits, deep copy, queries); an operation whose
   guard (GraphOps.guard: the API used as intended) fails is a no-op with outcome RBadOp. *)
From MT Require Import Prelude Graph Apriori GraphAn GraphOps GraphInv GraphThm GraphMirror.

(* at every point an attacker lists a node as reached exactly when the node lists the attacker *)
Theorem C11_mirror : forall ops a o,
  let s := final ops in
  In a (g_atts (s_g s)) -> In o (g_nodes (s_g s)) ->
  (In o (a_reached (s_ah s a)) <-> In a (n_comp (s_nh s o))).
Proof. intros ops a o. exact (wf_compromise_mirror (final ops) (reachable_WF ops) a o). Qed.
Print Assumptions C11_mirror.

(* nodes are compromised only by attackers of the graph; attackers reach only nodes of the graph; no repetitions *)
Theorem C11_no_foreign : forall ops,
  let s := final ops in
  (forall o a, In o (g_nodes (s_g s)) -> In a (n_comp (s_nh s o)) -> In a (g_atts (s_g s))) /\
  (forall a o, In a (g_atts (s_g s)) -> In o (a_reached (s_ah s a)) -> In o (g_nodes (s_g s))) /\
  (forall o, In o (g_nodes (s_g s)) -> NoDup (n_comp (s_nh s o))) /\
  (forall a, In a (g_atts (s_g s)) -> NoDup (a_reached (s_ah s a))).
Proof.
  intros ops. pose proof (wf_att (final ops) (reachable_WF ops)) as (A & B & _ & _ & E & F).
  exact (conj A (conj B (conj E F))).
Qed.
Print Assumptions C11_no_foreign.

(* compromising twice changes nothing; undoing something not compromised changes nothing *)
Theorem C11_compromise_idempotent : forall nh ah a o,
  let '(nh1, ah1) := compromise nh ah a o in compromise nh1 ah1 a o = (nh1, ah1).
Proof. exact compromise_idempotent. Qed.
Print Assumptions C11_compromise_idempotent.
Theorem C11_undo_noop : forall nh ah a o, ~ In a (n_comp (nh o)) -> undo_compromise nh ah a o = (nh, ah).
Proof. exact undo_not_compromised. Qed.
Print Assumptions C11_undo_noop.

(* removing an attacker leaves no node compromised by it *)
Theorem C11_remove_clean : forall ops a,
  let s := final ops in
  In a (g_atts (s_g s)) ->
  let s' := fst (remove_attacker s a) in
  ~ In a (g_atts (s_g s')) /\ forall o, In o (g_nodes (s_g s')) -> ~ In a (n_comp (s_nh s' o)).
Proof. intros ops a s Ha. exact (remove_attacker_clean (final ops) a (reachable_WF ops) Ha). Qed.
Print Assumptions C11_remove_clean.

(* add_attacker taken as it is — any attacker object, any ids, accepted or rejected half-way (an id that no node has, after
   some reached steps were compromised already): every (attacker, node) pair that agreed before agrees afterwards ... *)
Theorem C11_add_attacker_any_outcome : forall s a i reached entry a' o',
  agree (s_nh s) (s_ah s) a' o' ->
  agree (s_nh (fst (add_attacker s a i reached entry))) (s_ah (fst (add_attacker s a i reached entry))) a' o'.
Proof. exact add_attacker_agree. Qed.
Print Assumptions C11_add_attacker_any_outcome.
(* ... so in every state the machine reaches, after add_attacker of an attacker that is not in the graph and has reached
   nothing, that attacker — added or rejected — and every attacker of the graph list exactly the nodes that list them *)
Theorem C11_add_attacker_mirror : forall ops a i reached entry,
  let s := final ops in
  ~ In a (g_atts (s_g s)) -> a_reached (s_ah s a) = [] ->
  let s' := fst (add_attacker s a i reached entry) in
  forall a' o, In a' (g_atts (s_g s)) \/ a' = a -> In o (g_nodes (s_g s)) ->
    (In o (a_reached (s_ah s' a')) <-> In a' (n_comp (s_nh s' o))).
Proof. exact add_attacker_mirror. Qed.
Print Assumptions C11_add_attacker_mirror.

(* attaching: one new graph attacker per model attacker, named after it, whose entry points and
   initially reached steps are exactly the existing nodes named by the model's entry points *)
Theorem C11_attach : forall ops name eps,
  let s := final ops in
  let a := s_na s in
  let s' := fst (attach_one s name eps) in
  snd (attach_one s name eps) = Ok /\
  g_atts (s_g s') = g_atts (s_g s) ++ [a] /\ g_nodes (s_g s') = g_nodes (s_g s) /\
  a_name (s_ah s' a) = name /\
  a_entry (s_ah s' a) = a_reached (s_ah s' a) /\
  (forall o, In o (a_reached (s_ah s' a)) <-> exists fn, In fn eps /\ get_node_by_full_name (s_g s) fn = Some o).
Proof. intros ops name eps. exact (attach_one_spec (final ops) name eps (reachable_WF ops)). Qed.
Print Assumptions C11_attach.

(* non-vacuity: a concrete history with two attackers, compromises from both sides, an undo and a removal,
   every operation meeting its guard *)
Definition ex_node (t nm a : string) : node := mkNode t nm None (Some a) [] [] [] None None true true None JNull [] (JDict []).
Definition ex_ops : list op :=
  [ ONew (ex_node "or" "s0" "a0"); OAddNode 0 None; ONew (ex_node "and" "s1" "a1"); OAddNode 1 (Some 7%Z);
    OLink 0 1; ONewAtt "alice"; OAddAtt 0 None [0%Z] [0%Z]; ONewAtt "bob"; OAddAtt 1 (Some 5%Z) [] [];
    OCompromise 1 1; OCompromise 0 1; OUndo 0 0; ORemoveAtt 1 ].
Example C11_nonvacuous :
  guards_met ex_ops = true /\ g_atts (s_g (final ex_ops)) = [0] /\ a_reached (s_ah (final ex_ops) 0) = [1] /\
  n_comp (s_nh (final ex_ops) 1) = [0].
Proof. vm_compute. auto. Qed.
(* a rejected add: eve is to reach node 1 (id 7) and a node with id 99, which does not exist — the call fails after node 1
   was compromised; node 1 lists eve and eve lists node 1, and eve is not in the graph *)
Example C11_rejected_add :
  let '(s, _, ocs) := run_then_adds (ex_ops ++ [ONewAtt "eve"]) [(2, None, [7%Z; 99%Z], [])] in
  ocs = [RGraphException] /\ g_atts (s_g s) = [0] /\ a_reached (s_ah s 2) = [1] /\ n_comp (s_nh s 1) = [0; 2].
Proof. vm_compute. auto. Qed.
