(* C09 — attack-graph structure and lookup indexes stay consistent in any history.
   Statements only; proofs are in theories/GraphInv.v (invariant WF, preserved by every operation) and GraphThm.v.
   `final ops` = state after ANY finite list of GraphOps operations from the empty world (see C11.v). *)
From MT Require Import Prelude Graph Apriori GraphAn GraphOps GraphInv GraphThm GraphMirror.

(* every child / parent reference points into the graph and is mirrored by the converse reference *)
Theorem C09_children : forall ops p c,
  let s := final ops in
  In p (g_nodes (s_g s)) -> In c (n_children (s_nh s p)) ->
  In c (g_nodes (s_g s)) /\ In p (n_parents (s_nh s c)).
Proof. intros ops. exact (wf_children_closed (final ops) (reachable_WF ops)). Qed.
Print Assumptions C09_children.
Theorem C09_parents : forall ops c p,
  let s := final ops in
  In c (g_nodes (s_g s)) -> In p (n_parents (s_nh s c)) ->
  In p (g_nodes (s_g s)) /\ In c (n_children (s_nh s p)).
Proof. intros ops. exact (wf_parents_closed (final ops) (reachable_WF ops)). Qed.
Print Assumptions C09_parents.

(* lookups return exactly the nodes / attackers currently in the graph *)
Theorem C09_lookup_id : forall ops i o,
  let s := final ops in
  get_node_by_id (s_g s) i = Some o <-> (In o (g_nodes (s_g s)) /\ n_id (s_nh s o) = Some i).
Proof. intros ops. exact (wf_lookup_id (final ops) (reachable_WF ops)). Qed.
Print Assumptions C09_lookup_id.
Theorem C09_lookup_name : forall ops fn o,
  let s := final ops in
  get_node_by_full_name (s_g s) fn = Some o <-> (In o (g_nodes (s_g s)) /\ full_name (s_nh s o) = fn).
Proof. intros ops. exact (wf_lookup_name (final ops) (reachable_WF ops)). Qed.
Print Assumptions C09_lookup_name.
Theorem C09_lookup_attacker : forall ops i a,
  let s := final ops in
  get_attacker_by_id (s_g s) i = Some a <-> (In a (g_atts (s_g s)) /\ a_id (s_ah s a) = Some i).
Proof. intros ops. exact (wf_lookup_att (final ops) (reachable_WF ops)). Qed.
Print Assumptions C09_lookup_attacker.

(* every node of the graph has an id, and no id (and no full name) is given to two nodes; no node is listed twice *)
Theorem C09_ids_unique : forall ops,
  let s := final ops in
  NoDup (g_nodes (s_g s)) /\
  (forall o, In o (g_nodes (s_g s)) -> exists i, n_id (s_nh s o) = Some i) /\
  (forall o1 o2 i, In o1 (g_nodes (s_g s)) -> In o2 (g_nodes (s_g s)) ->
     n_id (s_nh s o1) = Some i -> n_id (s_nh s o2) = Some i -> o1 = o2) /\
  (forall o1 o2, In o1 (g_nodes (s_g s)) -> In o2 (g_nodes (s_g s)) ->
     full_name (s_nh s o1) = full_name (s_nh s o2) -> o1 = o2).
Proof.
  intros ops. pose proof (reachable_WF ops) as W.
  exact (conj (proj1 (wf_alloc _ W)) (conj (wf_every_node_has_id _ W) (conj (wf_ids_unique _ W) (wf_names_unique _ W)))).
Qed.
Print Assumptions C09_ids_unique.

(* every node referenced by an attacker and every attacker referenced by a node is in the graph *)
Theorem C09_attacker_refs : forall ops,
  let s := final ops in
  (forall a o, In a (g_atts (s_g s)) -> (In o (a_entry (s_ah s a)) \/ In o (a_reached (s_ah s a))) -> In o (g_nodes (s_g s))) /\
  (forall o a, In o (g_nodes (s_g s)) -> In a (n_comp (s_nh s o)) -> In a (g_atts (s_g s))).
Proof. intros ops. exact (conj (wf_attacker_refs _ (reachable_WF ops)) (wf_node_attackers _ (reachable_WF ops))). Qed.
Print Assumptions C09_attacker_refs.
(* ... for histories that use the API as intended (GraphOps.guard); for add_attacker that means ids of nodes of the graph, and
   this part of the guard cannot be dropped: given the id of a node followed by an id that no node has, add_attacker is
   rejected after the first node was compromised, and that node of the graph then lists an attacker that is not in the
   graph (the implementation does the same: the histories ending with add_attacker calls taken as they are, C11 check) *)
Theorem C09_add_attacker_guard_needed : exists ops adds,
  let '(s, outs, ocs) := run_then_adds ops adds in
  forallb (fun p => outcome_eqb (fst p) Ok) outs = true /\ ocs = [RGraphException] /\
  exists o a, In o (g_nodes (s_g s)) /\ In a (n_comp (s_nh s o)) /\ ~ In a (g_atts (s_g s)).
Proof. exact add_attacker_guard_needed. Qed.
Print Assumptions C09_add_attacker_guard_needed.

(* the whole invariant, for the record (it is what the statements above are projections of) *)
Theorem C09_wf_reachable : forall ops, WF (final ops).
Proof. exact reachable_WF. Qed.
Print Assumptions C09_wf_reachable.

Definition ex_node (t nm : string) (a : option string) : node := mkNode t nm None a [] [] [] None None true true None JNull [] (JDict []).
Definition ex_ops : list op :=
  [ ONew (ex_node "or" "s0" (Some "a0")); OAddNode 0 None; ONew (ex_node "and" "s1" None); OAddNode 1 (Some 7%Z);
    ONew (ex_node "or" "s2" (Some "a0")); OAddNode 2 (Some 7%Z); OAddNode 2 None;
    OLink 0 1; OLink 1 1; OLink 1 2; OLink 0 1; ONewAtt "alice"; OAddAtt 0 (Some 0%Z) [7%Z; 8%Z] [0%Z];
    ORemoveNode 1; OCopy; OPrune ].
Example C09_nonvacuous :
  guards_met ex_ops = true /\ g_nodes (s_g (final ex_ops)) = [3; 4] /\
  get_node_by_id (s_g (final ex_ops)) 8 = Some 4 /\ get_node_by_id (s_g (final ex_ops)) 7 = None /\
  n_children (s_nh (final ex_ops) 3) = [] /\ a_reached (s_ah (final ex_ops) 1) = [4].
Proof. vm_compute. auto 10. Qed.
