(* C06 — a model can only hold what the language allows.
   Statements only; proofs in theories/ClassesThm.v (over Classes.v, Model.v, ModelOps.v, ModelInv.v).
   `created` is the association list of the language graph (LangGraph.lg_assocs L; C15); class_defenses / assoc_classes
   are what LanguageClassesFactory generates; tstep is one attempted operation — constructions and assignments
   validated as python_jsonschema_objects does (H-pjs, trusted), Model.add_association with _validate_association,
   and every other operation of ModelOps. Histories are arbitrary lists of attempts, valid and invalid. *)
From MT Require Import Prelude Lang LangGraph Model ModelOps ModelInv Classes ClassesThm.

(* -- the classes: each asset type exposes exactly the defenses it defines or inherits (the resolved steps of C03),
      defaulting to 1 when declared Enabled and to 0 otherwise *)
Theorem C06_defenses : forall L t d v,
  In (d, v) (class_defenses L t) <->
  exists steps sd, steps_of L t = Some steps /\ In (d, sd) steps /\ sd_type sd = "defense" /\ v = default_of sd.
Proof. exact class_defenses_spec. Qed.
Print Assumptions C06_defenses.

Theorem C06_defaults : forall sd,
  (default_of sd = 1024%Z /\ is_enabled (sd_ttc sd) = true) \/ (default_of sd = 0%Z /\ is_enabled (sd_ttc sd) = false).
Proof. exact default_of_cases. Qed.
Print Assumptions C06_defaults.

(* -- association classes: nothing but the language's associations, each with its two fields ... *)
Theorem C06_assoc_classes_only : forall created n k,
  dget seqb (assoc_classes created) n = Some k -> exists c, In c created /\ n = class_name created c /\ k = class_of c.
Proof. exact assoc_classes_sound. Qed.
Print Assumptions C06_assoc_classes_only.

(* ... and every association has a class of its own when class names are distinct, which holds when
   (name, left type, right type) are pairwise distinct and contain no underscore *)
Theorem C06_assoc_classes_all_partial : forall created c,
  NoDup (map (class_name created) created) -> In c created ->
  dget seqb (assoc_classes created) (class_name created c) = Some (class_of c).
Proof. exact assoc_classes_complete. Qed.
Print Assumptions C06_assoc_classes_all_partial.

Theorem C06_shared_names_distinguishable : forall created,
  (forall c, In c created -> us_free c) -> NoDup (map sig_of created) ->
  (forall c1 c2, In c1 created -> In c2 created -> ac_name c1 = ac_name c2 -> same_name_count created (ac_name c1) <= 1 -> c1 = c2) ->
  NoDup (map (class_name created) created).
Proof. exact classes_distinct. Qed.
Print Assumptions C06_shared_names_distinguishable.

(* the unrestricted statement is false of the code: two associations sharing name and both asset types (KNOWN FINDING) *)
Theorem C06_same_signature_refuted :
  exists created c, NoDup created /\ In c created /\
    dget seqb (assoc_classes created) (class_name created c) <> Some (class_of c).
Proof. exact same_signature_collapses_refuted. Qed.
Print Assumptions C06_same_signature_refuted.

(* -- every history of attempts leaves a model that holds only what the language allows *)
Theorem C06_invariant : forall L created ops, let s := fst (trun L created ops) in
  (forall h, h < m_na s -> has_asset L (ma_type (m_ah s h)) = true /\
     forall d v, In (d, v) (ma_defs (m_ah s h)) -> def_known L (ma_type (m_ah s h)) d = true /\ zrange v) /\
  (forall c, In c (m_assocs s) -> exists a, In a created /\ mc_class (m_ch s c) = class_name created a /\
     mc_lfield (m_ch s c) = ac_lfield a /\ mc_rfield (m_ch s c) = ac_rfield a /\
     field_allowed L s (ac_lasset a) (ac_lmax a) (mc_left (m_ch s c)) /\
     field_allowed L s (ac_rasset a) (ac_rmax a) (mc_right (m_ch s c))) /\
  (forall c1 c2 l r, In c1 (m_assocs s) -> In c2 (m_assocs s) -> c1 <> c2 -> mc_class (m_ch s c1) = mc_class (m_ch s c2) ->
     In l (mc_left (m_ch s c1)) -> In r (mc_right (m_ch s c1)) -> In l (mc_left (m_ch s c2)) -> In r (mc_right (m_ch s c2)) -> False).
Proof. exact model_holds_only_allowed. Qed.
Print Assumptions C06_invariant.

(* -- each invalid attempt is rejected, and the state is the one before *)
Theorem C06_reject_defense_new : forall L created s ty nm given ex,
  has_asset L ty = true -> forallb (fun dv => def_known L ty (fst dv)) given = true ->
  (exists d v, In (d, v) given /\ ~ zrange v) ->
  tstep L created s (TBase (MNewAsset ty nm given ex)) = (s, 6%Z, MRNone).
Proof. exact reject_defense_at_construction. Qed.
Print Assumptions C06_reject_defense_new.

Theorem C06_reject_defense_set : forall L created s h d v,
  h < m_na s -> def_known L (ma_type (m_ah s h)) d = true -> ~ zrange v ->
  tstep L created s (TSetDef h d v) = (s, 6%Z, MRNone).
Proof. exact reject_defense_assignment. Qed.
Print Assumptions C06_reject_defense_set.

Theorem C06_reject_type_or_multiplicity : forall L created s cls lf l rf r k,
  dget seqb (assoc_classes created) cls = Some k ->
  lf = fs_name (k_l k) -> rf = fs_name (k_r k) -> mguard s (MNewAssoc cls lf l rf r) = true ->
  field_ok L s (k_l k) l = false \/ field_ok L s (k_r k) r = false ->
  tstep L created s (TBase (MNewAssoc cls lf l rf r)) = (s, 6%Z, MRNone).
Proof. exact reject_illtyped_or_too_many. Qed.
Print Assumptions C06_reject_type_or_multiplicity.

Theorem C06_field_rejected_iff : forall L s f ms, field_ok L s f ms = false <->
  (exists h, In h ms /\ is_subasset_of L (ma_type (m_ah s h)) (fs_type f) = false) \/
  (exists m, fs_max f = Some m /\ (m < Z.of_nat (List.length ms))%Z).
Proof. exact field_ok_false_iff. Qed.
Print Assumptions C06_field_rejected_iff.

Theorem C06_reject_repeated_asset : forall s c, MI s -> (forall x, In x (members s c) -> In x (m_assets s)) ->
  ~ NoDup (mc_left (m_ch s c)) \/ ~ NoDup (mc_right (m_ch s c)) -> snd (add_association s c) <> MOk.
Proof. exact reject_repeated_asset. Qed.
Print Assumptions C06_reject_repeated_asset.

Theorem C06_reject_existing_link : forall L created s c c' l r, TI L created s -> In c' (m_assocs s) ->
  mc_class (m_ch s c') = mc_class (m_ch s c) ->
  In l (mc_left (m_ch s c')) -> In r (mc_right (m_ch s c')) -> In l (mc_left (m_ch s c)) -> In r (mc_right (m_ch s c)) ->
  snd (add_association s c) <> MOk.
Proof. exact reject_existing_link. Qed.
Print Assumptions C06_reject_existing_link.

Theorem C06_rejected_add_unchanged : forall s c, snd (add_association s c) <> MOk -> fst (add_association s c) = s.
Proof. exact rejected_add_leaves_state. Qed.
Print Assumptions C06_rejected_add_unchanged.

(* -- non-vacuity: a language with inheritance, an inherited and a re-declared defense, a shared association name; a
      history with accepted and rejected attempts of every kind ends in a state that holds two associations *)
Definition exL : lang := mkLang
  [ mkAsset "Aa" None false [] [mkStep "t" "or" JNull [] (JDict []) None None;
                                mkStep "df" "defense" (JDict [("type", JStr "function"); ("name", JStr "Enabled")]) [] (JDict []) None None];
    mkAsset "Bb" (Some "Aa") false [] [mkStep "dg" "defense" JNull [] (JDict []) None None] ]
  [ mkAssoc "Pp" "Aa" "pa" 0 (Some 1%Z) "Bb" "pb" 0 None; mkAssoc "Qq" "Aa" "qa" 0 None "Aa" "qb" 0 None;
    mkAssoc "Qq" "Bb" "ra" 0 None "Bb" "rb" 0 None ].
Definition exOps : list top :=
  [ TBase (MNewAsset "Aa" (Some "a") [] (JDict [])); TBase (MAddAsset 0 None true);
    TBase (MNewAsset "Bb" (Some "b") [("df", 512%Z)] (JDict [])); TBase (MAddAsset 1 None true);
    TBase (MNewAsset "Bb" (Some "c") [("dg", 2048%Z)] (JDict []));            (* rejected: 6 *)
    TBase (MNewAsset "Bb" (Some "c") [] (JDict [])); TBase (MAddAsset 2 None true);
    TSetDef 0 "df" (-1)%Z;                                                     (* rejected: 6 *)
    TBase (MNewAssoc "Pp" "pa" [0] "pb" [1]); TBase (MAddAssoc 0);
    TBase (MNewAssoc "Pp" "pa" [0] "pb" [0]);                                  (* ill-typed: 6 *)
    TBase (MNewAssoc "Pp" "pa" [0; 1] "pb" [2]);                               (* too many: 6 *)
    TBase (MNewAssoc "Pp" "pa" [0] "pb" [2; 2]); TBase (MAddAssoc 1);          (* repeated: 4 *)
    TBase (MNewAssoc "Pp" "pa" [0] "pb" [1; 2]); TBase (MAddAssoc 2);          (* existing link: 3 *)
    TBase (MNewAssoc "Qq_Bb_Bb" "ra" [1] "rb" [2]); TBase (MAddAssoc 3) ].
Example C06_nonvacuous :
  lg_assocs exL = LOk (l_assocs exL) /\
  class_defenses exL "Bb" = [("df", 1024%Z); ("dg", 0%Z)] /\
  map fst (assoc_classes (l_assocs exL)) = ["Pp"; "Qq_Aa_Aa"; "Qq_Bb_Bb"] /\
  map fst (snd (trun exL (l_assocs exL) exOps)) = [0; 0; 0; 0; 6; 0; 0; 6; 0; 0; 6; 6; 0; 4; 0; 3; 0; 0]%Z /\
  m_assocs (fst (trun exL (l_assocs exL) exOps)) = [0; 3].
Proof. vm_compute. repeat split. Qed.
