(* C16 — graph generation is deterministic and does not disturb its inputs.
   PARTIAL by nature. In the model, generation is a Gallina function of the language and the model view (Gen.generate),
   so "same inputs, same graph" and "inputs unchanged" hold by construction; what a theorem can add is stated below:
   generation only allocates (two graphs never share a node; an existing graph is not touched), and the file-based
   routes read back exactly what was written (C07, C04), so the wrapper sees the same inputs as the direct API.
   What no model can exhibit — dependence on PYTHONHASHSEED, on the process, on call history inside the interpreter —
   is exercised by the correspondence run (fresh interpreters x hash seeds x routes), not proved. *)
From MT Require Import Prelude Lang Eval Graph Gen GenThm GenFresh Codec ModelIO Mal MalPrint MalThm MalParseThm MalCompile.

Theorem C16_generation_only_allocates : forall L M s0 s, g_name2node (s_g s0) = [] -> generate_from L M s0 = GOk s ->
  (forall o, o < s_nn s0 -> s_nh s o = s_nh s0 o) /\
  (forall o, In o (g_nodes (s_g s)) -> In o (g_nodes (s_g s0)) \/ s_nn s0 <= o) /\
  s_ah s = s_ah s0 /\ s_nn s0 <= s_nn s.
Proof. intros L M s0 s Hn H. exact (generate_from_fresh L M s0 Hn s H). Qed.
Print Assumptions C16_generation_only_allocates.

Theorem C16_two_graphs_share_no_node : forall L M s1 s2,
  generate L M = GOk s1 -> generate_from L M (fresh_graph s1) = GOk s2 ->
  (forall o, In o (g_nodes (s_g s1)) -> ~ In o (g_nodes (s_g s2))) /\ (forall o, o < s_nn s1 -> s_nh s2 o = s_nh s1 o).
Proof. exact two_graphs_disjoint. Qed.
Print Assumptions C16_two_graphs_share_no_node.

(* the file routes: a model file and a MAL source give back the content / specification they were written from *)
Theorem C16_files_give_back_inputs_partial : forall c ftoks s n depth,
  wf_content c = true -> wf_spec s -> wmal (u_mal s) <= n ->
  decode (encode c) = Some c /\ compile ftoks n (S depth) (print_spec s) = Some s.
Proof. intros. split; [apply decode_encode; auto|apply compile_print; auto]. Qed.
Print Assumptions C16_files_give_back_inputs_partial.

Definition exL16 : lang :=
  mkLang [mkAsset "Aa" None false [] [mkStep "t" "or" JNull [] (JDict []) None (Some (true, [SStep "u"])); mkStep "u" "or" JNull [] (JDict []) None None]] [].
Definition exM16 : imodel := mkIModel [mkIAsset 0 "x" "Aa" [] []] [].
Example C16_nonvacuous :
  match generate exL16 exM16 with
  | GOk s1 => match generate_from exL16 exM16 (fresh_graph s1) with
              | GOk s2 => Some (g_nodes (s_g s1), g_nodes (s_g s2), n_children (s_nh s1 0), n_children (s_nh s2 2), n_children (s_nh s2 0))
              | GErr _ => None end
  | GErr _ => None
  end = Some ([0; 1], [2; 3], [1], [3], [1]).
Proof. vm_compute. reflexivity. Qed.
