(* C04 — the MAL compiler's output is the language the source text denotes.
   Statements only; proofs in theories/MalThm.v, MalParseThm.v, MalInclude.v, MalCompile.v over the model of
   maltoolbox/language/compiler in Mal.v (tokens of mal.g4, parse trees, the visitor as coded), MalParse.v (the
   grammar as an LL(2) recursive-descent parser) and MalPrint.v (the printer).
   Levels: text --lexer--> tokens --parser--> parse tree --visitor--> specification. The lexer (ANTLR-generated) is
   not modelled: the check runs the real lexer on the printed text and compares its tokens with print_spec.
   numbers are kept as their lexemes; float() only enters the JSON rendering used by the correspondence. *)
From MT Require Import Prelude Lang Mal MalPrint MalThm MalParse MalParseThm MalInclude MalRepeat MalCompile.

(* -- printing any well-formed specification and compiling the tokens gives it back *)
Theorem C04_roundtrip : forall ftoks s n depth,
  wf_spec s -> wmal (u_mal s) <= n -> compile ftoks n (S depth) (print_spec s) = Some s.
Proof. exact compile_print. Qed.
Print Assumptions C04_roundtrip.

Theorem C04_wf_decidable : forall s, wf_specb s = true -> wf_spec s.
Proof. exact wf_specb_ok. Qed.
Print Assumptions C04_wf_decidable.

(* -- the visitor inverts the printer on parse trees (no parser involved) *)
Theorem C04_visitor_inverts_printer : forall files f s, wf_spec s -> v_mal files (S f) (u_mal s) = Some s.
Proof. exact v_u_spec. Qed.
Print Assumptions C04_visitor_inverts_printer.

(* -- expressions: with the context a reaches clause gives (Some rest), a name is an attack step exactly when no '.'
      follows it in its expression (wf_cls); in let / requires (None) every name is a field *)
Theorem C04_expressions : forall e ctx, cls_ok e (octx ctx) = true -> v_e (u_e e) ctx = e.
Proof. exact v_u_expr. Qed.
Print Assumptions C04_expressions.

Theorem C04_classification_rule : forall ctx x,
  v_a (CId x) ctx = match ctx with None => SField x | Some rest => if scan rest then SField x else SStep x end.
Proof. intros [rest|] x; reflexivity. Qed.
Print Assumptions C04_classification_rule.

Theorem C04_printed_tokens : forall e, commafree (fe (u_e e)) = true /\ dotty (fe (u_e e)) = has_dot e.
Proof. exact printed_tokens. Qed.
Print Assumptions C04_printed_tokens.

(* -- left associativity: one more operand at the end of a chain wraps the whole chain (set operators, '.', TTC) *)
Theorem C04_left_assoc_setops : forall c o p ctx,
  v_e (e_snoc c o p) ctx = sx_of_sop o (v_e c (after ctx (tok_of_sop o :: fps p))) (v_ps p ctx).
Proof. exact v_e_snoc. Qed.
Print Assumptions C04_left_assoc_setops.
Theorem C04_left_assoc_collect : forall ps p ctx,
  v_ps (ps_snoc ps p) ctx = SCollect (v_ps ps (after ctx (Dot :: fp p))) (v_p p ctx).
Proof. exact v_ps_snoc. Qed.
Print Assumptions C04_left_assoc_collect.
Theorem C04_left_assoc_ttc_sum : forall c pl x,
  v_te (te_snoc c pl x) = TtcBin (if pl then "addition" else "subtraction") (v_te c) (v_tt x).
Proof. exact v_te_snoc. Qed.
Print Assumptions C04_left_assoc_ttc_sum.
Theorem C04_left_assoc_ttc_product : forall t st x,
  v_tt (tt_snoc t st x) = TtcBin (if st then "multiplication" else "division") (v_tt t) (v_tf x).
Proof. exact v_tt_snoc. Qed.
Print Assumptions C04_left_assoc_ttc_product.
Theorem C04_ttc : forall t, wf_ttc t = true -> v_te (u_t t) = t.
Proof. exact v_u_ttc. Qed.
Print Assumptions C04_ttc.

(* -- multiplicities: n, *, n..m, n..* *)
Theorem C04_multiplicities : forall lo hi, mult_ok lo hi = true -> v_mult (u_mult lo hi) = (lo, hi).
Proof. exact v_u_mult. Qed.
Print Assumptions C04_multiplicities.
Example C04_multiplicity_forms :
  v_mult (mkCMult MStar None) = (MvInt 0, MvNone) /\ v_mult (mkCMult (MInt "1") None) = (MvInt 1, MvInt 1) /\
  v_mult (mkCMult (MInt "0") (Some (MInt "1"))) = (MvInt 0, MvInt 1) /\ v_mult (mkCMult (MInt "1") (Some MStar)) = (MvInt 1, MvNone) /\
  v_mult (mkCMult (MInt "2") (Some (MInt "5"))) = (MvInt 2, MvInt 5).
Proof. vm_compute. repeat split. Qed.

(* -- the parser recognises exactly the parse trees of the grammar *)
Theorem C04_parser_complete : forall m n rest, wmal m <= n -> s_decl rest = false -> (m = [] -> rest = []) ->
  parse_mal n (fmal m ++ rest) = Some (m, rest).
Proof. exact parse_mal_yield. Qed.
Print Assumptions C04_parser_complete.
Theorem C04_parser_sound : forall n toks m rest, parse_mal n toks = Some (m, rest) ->
  toks = fmal m ++ rest /\ s_decl rest = false /\ (m = [] -> toks = []).
Proof. exact parse_mal_sound. Qed.
Print Assumptions C04_parser_sound.

(* -- layouts: compiling a root file with ANY tree of includes below it (any split into files, any nesting, repeated
      includes, re-defined define keys) is evaluating its flattened declaration list; hence two layouts with the same
      flattening compile to the same specification. The dictionary update by which an included file's defines are merged
      is the sequence of the file's own assignments (dict_update_dset), the inner de-duplication of an included file is
      absorbed by the outer one. Special cases: an include is the same as the declarations of the included file in its
      place, and a second include of a define-free file changes nothing. *)
Theorem C04_flat_compile : forall files f m fm, flat files f m = Some fm ->
  v_mal files f m = Some (spec_dedupe (raw_of fm spec_empty)).
Proof. exact flat_compile. Qed.
Print Assumptions C04_flat_compile.
Theorem C04_layout_independent : forall files1 files2 f1 f2 m1 m2 fm,
  flat files1 f1 m1 = Some fm -> flat files2 f2 m2 = Some fm ->
  v_mal files1 f1 m1 = v_mal files2 f2 m2.
Proof. exact layout_independent. Qed.
Print Assumptions C04_layout_independent.
Theorem C04_include_inline : forall files P f m' S n,
  files f = Some m' -> include_free m' = true ->
  v_mal files (Datatypes.S (Datatypes.S n)) (P ++ DInclude f :: S) = v_mal files (Datatypes.S (Datatypes.S n)) (P ++ m' ++ S).
Proof. exact include_inline. Qed.
Print Assumptions C04_include_inline.
Theorem C04_include_twice_partial : forall files P f m' Q S n,
  files f = Some m' -> include_free m' = true -> define_keys m' = [] ->
  v_mal files (Datatypes.S (Datatypes.S n)) (P ++ DInclude f :: Q ++ DInclude f :: S) =
  v_mal files (Datatypes.S (Datatypes.S n)) (P ++ DInclude f :: Q ++ S).
Proof. exact include_twice. Qed.
Print Assumptions C04_include_twice_partial.
(* repeated includes in general: the file included twice may itself include any tree of files and may set defines; including
   it a second time changes nothing as long as no define in between (in Q, flattened) assigns a key the file assigns
   (the second include assigns the file's defines again) ... *)
Theorem C04_include_twice : forall files f P g Q R mg fP fG fQ fR,
  files g = Some mg -> flat files f mg = Some fG ->
  flat_list files (flat files f) P = Some fP -> flat_list files (flat files f) Q = Some fQ -> flat_list files (flat files f) R = Some fR ->
  (forall k, In k (define_keys fG) -> ~ In k (define_keys fQ)) ->
  v_mal files (S f) (P ++ DInclude g :: Q ++ DInclude g :: R) = v_mal files (S f) (P ++ DInclude g :: Q ++ R).
Proof. exact include_twice_any. Qed.
Print Assumptions C04_include_twice.
(* ... and that premise cannot be dropped: with such a define in between, the two layouts compile to different specifications *)
Theorem C04_include_twice_needs_premise :
  v_mal rn_files 3 [DInclude "f"; DDefine "id" "two"; DInclude "f"] <> v_mal rn_files 3 [DInclude "f"; DDefine "id" "two"].
Proof. exact repeat_needs_disjoint. Qed.
Print Assumptions C04_include_twice_needs_premise.

(* -- non-vacuity: a specification with every construct is well-formed, prints to 169 tokens and compiles back *)
Definition exS : fspec := mkFSpec
  [("id", "org.x"); ("version", "1.0.0")]
  [mkFCat "Sys" [("user", "text")]; mkFCat "Net" []]
  [ mkFAsset "Aa" [("user", "an asset")] "Sys" true None [("vv", SCollect (SField "b") (STrans (SField "nxt")))]
      [ mkFStep "s1" [("mitre", "T1")] "or" ["hidden"; "t2"] (Some (mkRisk true false true))
          (Some (TtcBin "addition" (TtcBin "division" (TtcBin "multiplication" (TtcFun "Exponential" ["0.5"]) (TtcFun "Gamma" ["1.0"; "2.0"])) (TtcNum "3.0"))
                                   (TtcBin "exponentiation" (TtcNum "2.0") (TtcNum "2.0"))))
          None (Some (true, [SCollect (SSub "Bb" (SUnion (SField "b") (SVar "vv"))) (SStep "s2");
                             SInter (SUnion (SStep "x") (SStep "y")) (SStep "z");
                             SCollect (SField "a") (SUnion (SStep "p") (SStep "q"))]));
        mkFStep "df" [] "defense" [] None (Some (TtcFun "Enabled" [])) None None;
        mkFStep "ex" [] "exist" [] None None (Some [SCollect (SField "b") (SField "c")]) (Some (false, [SStep "s1"])) ];
    mkFAsset "Bb" [] "Net" false (Some "Aa") [] [mkFStep "s2" [] "and" [] None None None None] ]
  [ mkFAssoc "Pp" [("user", "link")] "Aa" "a" (MvInt 0) (MvInt 1) "Bb" "b" (MvInt 1) MvNone;
    mkFAssoc "Pp" [] "Bb" "c" (MvInt 2) (MvInt 5) "Bb" "nxt" (MvInt 0) MvNone ].
Example C04_nonvacuous :
  wf_specb exS = true /\ List.length (print_spec exS) = 169 /\
  compile (fun _ => None) 2000 1 (print_spec exS) = Some exS.
Proof. vm_compute. repeat split. Qed.
