(* C13 — pruning removes exactly the non-viable or unnecessary attack steps.
   Statements only; proofs in theories/GraphInv.v (WF_prune_loop) and GraphThm.v. *)
From MT Require Import Prelude Graph Apriori GraphAn GraphOps GraphInv GraphThm.

(* for the state s reached by any history: after pruning the node list is the old one without the prunable
   ('or'/'and' and non-viable or unnecessary) nodes, in the old order; all labels and static data of every node
   object are unchanged; no prunable node remains; the structural invariant of C09 still holds *)
Theorem C13_exact : forall ops,
  let s := final ops in
  g_nodes (s_g (prune s)) = filter (fun o => negb (prunable (s_nh s o))) (g_nodes (s_g s)) /\
  (forall x, Lab (s_nh (prune s) x) = Lab (s_nh s x)) /\
  (forall o, In o (g_nodes (s_g (prune s))) -> prunable (s_nh (prune s) o) = false).
Proof. intros ops. exact (proj2 (prune_spec (final ops) (reachable_WF ops))). Qed.
Print Assumptions C13_exact.

Theorem C13_wf : forall ops, WF (prune (final ops)).
Proof. intros ops. exact (proj1 (prune_spec (final ops) (reachable_WF ops))). Qed.
Print Assumptions C13_wf.

(* the same for any structurally consistent labelled graph, however it was obtained *)
Theorem C13_any_wf_graph : forall s, WF s ->
  WF (prune s) /\
  g_nodes (s_g (prune s)) = filter (fun o => negb (prunable (s_nh s o))) (g_nodes (s_g s)) /\
  (forall x, Lab (s_nh (prune s) x) = Lab (s_nh s x)) /\
  (forall o, In o (g_nodes (s_g (prune s))) -> prunable (s_nh (prune s) o) = false).
Proof. exact prune_spec. Qed.
Print Assumptions C13_any_wf_graph.

(* non-vacuity: three adjacent prunable nodes linked to each other, an attacker on one of them *)
Definition ex_node (t nm : string) (v n : bool) : node := mkNode t nm None (Some "a") [] [] [] None None v n None JNull [] (JDict []).
Definition ex_ops : list op :=
  [ ONew (ex_node "or" "d" true true); OAddNode 0 None; ONew (ex_node "or" "a" false true); OAddNode 1 None;
    ONew (ex_node "and" "b" true false); OAddNode 2 None; ONew (ex_node "or" "c" false false); OAddNode 3 None;
    ONew (ex_node "defense" "e" false false); OAddNode 4 None;
    OLink 0 1; OLink 0 2; OLink 0 3; OLink 1 2; OLink 2 3; OLink 3 3; OLink 4 2;
    ONewAtt "eve"; OAddAtt 0 None [2%Z; 0%Z] [2%Z] ].
Example C13_nonvacuous :
  guards_met ex_ops = true /\ g_nodes (s_g (prune (final ex_ops))) = [0; 4] /\
  n_children (s_nh (prune (final ex_ops)) 0) = [] /\ a_reached (s_ah (prune (final ex_ops)) 0) = [0] /\
  a_entry (s_ah (prune (final ex_ops)) 0) = [].
Proof. vm_compute. auto 10. Qed.
