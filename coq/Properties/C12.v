(* C12 — attack-surface queries follow their definition; incremental = recomputed.
   Statements only; proofs in theories/QueryThm.v. *)
From MT Require Import Prelude Graph Apriori GraphAn GraphOps GraphInv GraphThm QueryThm.

(* traversable iff viable and ('or', or 'and' with every necessary parent compromised by the attacker) *)
Theorem C12_traversable_iff : forall nh a o,
  traversable nh a o = true <->
  n_viable (nh o) = true /\
  (n_type (nh o) = "or" \/
   (n_type (nh o) = "and" /\ forall p, In p (n_parents (nh o)) -> n_necessary (nh p) = true -> In a (n_comp (nh p)))).
Proof. exact traversable_iff. Qed.
Print Assumptions C12_traversable_iff.

(* the attack surface is exactly the set of traversable children of the reached steps, without duplicates *)
Theorem C12_surface_spec : forall nh ah a,
  (forall n, In n (attack_surface nh ah a) <->
     exists r, In r (a_reached (ah a)) /\ In n (n_children (nh r)) /\ traversable nh a n = true) /\
  NoDup (attack_surface nh ah a).
Proof. intros nh ah a. exact (conj (attack_surface_spec nh ah a) (attack_surface_NoDup nh ah a)). Qed.
Print Assumptions C12_surface_spec.

(* in the state reached by ANY history: compute the surface, compromise any list of nodes of the graph, extend
   the old surface with those nodes: the result has the same members as the surface recomputed from scratch *)
Theorem C12_incremental : forall ops a ns,
  let s := final ops in
  In a (g_atts (s_g s)) -> (forall o, In o ns -> In o (g_nodes (s_g s))) ->
  let cur := attack_surface (s_nh s) (s_ah s) a in
  let '(nh', ah') := compromise_all (s_nh s) (s_ah s) a ns in
  forall n, In n (update_surface nh' a cur ns) <-> In n (attack_surface nh' ah' a).
Proof. intros ops a ns s. exact (update_surface_complete (final ops) a ns (reachable_WF ops)). Qed.
Print Assumptions C12_incremental.
Theorem C12_incremental_nodup : forall nh a cur nodes, NoDup cur -> NoDup (update_surface nh a cur nodes).
Proof. intros nh a cur nodes. exact (surface_add_NoDup nh a nodes cur). Qed.
Print Assumptions C12_incremental_nodup.

(* defense surface / enabled defenses = the non-suppressed defenses of the graph that are not / are fully enabled *)
Theorem C12_defense_surface : forall s o,
  (In o (defense_surface s) <->
     In o (g_nodes (s_g s)) /\ n_type (s_nh s o) = "defense" /\ ~ In "suppress" (n_tags (s_nh s o)) /\ n_def (s_nh s o) <> Some 1024%Z) /\
  (In o (enabled_defenses s) <->
     In o (g_nodes (s_g s)) /\ n_type (s_nh s o) = "defense" /\ ~ In "suppress" (n_tags (s_nh s o)) /\ n_def (s_nh s o) = Some 1024%Z).
Proof.
  intros s o. rewrite defense_surface_spec, enabled_defenses_spec.
  destruct (defense_kinds (s_nh s o)) as [A B]. rewrite A, B. tauto.
Qed.
Print Assumptions C12_defense_surface.

(* none of the queries changes the graph *)
Theorem C12_pure : forall s o,
  match o with OQTrav _ _ | OQSurface _ | OQUpdate _ _ _ | OQDefSurface | OQEnabled => fst (fst (step s o)) = s | _ => True end.
Proof. exact queries_pure. Qed.
Print Assumptions C12_pure.

Definition ex_node (t nm : string) (v n : bool) : node := mkNode t nm None (Some "a") [] [] [] None None v n None JNull [] (JDict []).
Definition ex_ops : list op :=
  [ ONew (ex_node "or" "r" true true); OAddNode 0 None; ONew (ex_node "or" "q" true true); OAddNode 1 None;
    ONew (ex_node "and" "c" true true); OAddNode 2 None; ONew (ex_node "or" "d" true true); OAddNode 3 None;
    OLink 0 2; OLink 1 2; OLink 0 3; ONewAtt "eve"; OAddAtt 0 None [0%Z] [0%Z] ].
Example C12_nonvacuous :
  let s := final ex_ops in
  guards_met ex_ops = true /\ attack_surface (s_nh s) (s_ah s) 0 = [3] /\
  (let '(nh', ah') := compromise_all (s_nh s) (s_ah s) 0 [1] in
   update_surface nh' 0 [3] [1] = [3; 2] /\ attack_surface nh' ah' 0 = [2; 3]).
Proof. vm_compute. auto. Qed.
