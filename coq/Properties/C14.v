(* C14 — a deep copy of an attack graph is equal and fully independent.
   Statements only; proofs in theories/CopyThm.v, GraphInv.v (WF_deepcopy). *)
From MT Require Import Prelude Graph Apriori GraphAn GraphOps GraphInv GraphThm CopyThm.

(* the copy is the image of the original under the renaming (mnode, matt): same lists, same per-node data,
   same counters, same lookup answers modulo the renaming *)
Theorem C14_iso : forall ops,
  let s := final ops in
  (forall o, In o (g_nodes (s_g s)) -> s_nh (deepcopy s) (mnode s o) = ren_node s (s_nh s o)) /\
  (forall a, In a (g_atts (s_g s)) -> s_ah (deepcopy s) (matt s a) = ren_att s (s_ah s a)) /\
  g_nodes (s_g (deepcopy s)) = map (mnode s) (g_nodes (s_g s)) /\
  g_atts (s_g (deepcopy s)) = map (matt s) (g_atts (s_g s)) /\
  (forall i, get_node_by_id (s_g (deepcopy s)) i = option_map (mnode s) (get_node_by_id (s_g s) i)) /\
  (forall fn, get_node_by_full_name (s_g (deepcopy s)) fn = option_map (mnode s) (get_node_by_full_name (s_g s) fn)) /\
  (forall i, get_attacker_by_id (s_g (deepcopy s)) i = option_map (matt s) (get_attacker_by_id (s_g s) i)) /\
  g_next_node (s_g (deepcopy s)) = g_next_node (s_g s) /\ g_next_att (s_g (deepcopy s)) = g_next_att (s_g s).
Proof. intros ops s. exact (conj (copy_node s) (conj (copy_att s) (copy_graph s))). Qed.
Print Assumptions C14_iso.

(* it shares no node and no attacker with the original, and leaves every existing object as it was *)
Theorem C14_disjoint : forall ops,
  let s := final ops in
  (forall o, In o (g_nodes (s_g s)) -> ~ In o (g_nodes (s_g (deepcopy s)))) /\
  (forall a, In a (g_atts (s_g s)) -> ~ In a (g_atts (s_g (deepcopy s)))) /\
  (forall x, x < s_nn s -> s_nh (deepcopy s) x = s_nh s x) /\
  (forall x, x < s_na s -> s_ah (deepcopy s) x = s_ah s x).
Proof.
  intros ops s. destruct (copy_disjoint s (reachable_WF ops)) as [A B]. destruct (copy_untouched s) as [C D].
  exact (conj A (conj B (conj C D))).
Qed.
Print Assumptions C14_disjoint.

(* all its internal references stay inside the copy *)
Theorem C14_closed : forall ops,
  let s' := deepcopy (final ops) in
  (forall o x, In o (g_nodes (s_g s')) ->
     (In x (n_children (s_nh s' o)) \/ In x (n_parents (s_nh s' o))) -> In x (g_nodes (s_g s'))) /\
  (forall o a, In o (g_nodes (s_g s')) -> In a (n_comp (s_nh s' o)) -> In a (g_atts (s_g s'))) /\
  (forall a o, In a (g_atts (s_g s')) -> (In o (a_entry (s_ah s' a)) \/ In o (a_reached (s_ah s' a))) -> In o (g_nodes (s_g s'))) /\
  (forall i o, get_node_by_id (s_g s') i = Some o -> In o (g_nodes (s_g s'))) /\
  (forall fn o, get_node_by_full_name (s_g s') fn = Some o -> In o (g_nodes (s_g s'))) /\
  (forall i a, get_attacker_by_id (s_g s') i = Some a -> In a (g_atts (s_g s'))).
Proof. intros ops. exact (copy_closed (final ops) (reachable_WF ops)). Qed.
Print Assumptions C14_closed.

Definition ex_node (t nm : string) : node := mkNode t nm None (Some "a") [] [] [] None None true false None (JDict [("name", JStr "Exponential")]) ["t"] (JDict [("k", JInt 1)]).
Definition ex_ops : list op :=
  [ ONew (ex_node "or" "p"); OAddNode 0 None; ONew (ex_node "and" "q"); OAddNode 1 (Some 4%Z); OLink 0 1; OLink 1 1;
    ONewAtt "eve"; OAddAtt 0 (Some 3%Z) [4%Z] [0%Z] ].
Example C14_nonvacuous :
  let s := final ex_ops in
  guards_met ex_ops = true /\ g_nodes (s_g (deepcopy s)) = [2; 3] /\ g_atts (s_g (deepcopy s)) = [1] /\
  n_children (s_nh (deepcopy s) 3) = [3] /\ n_comp (s_nh (deepcopy s) 3) = [1] /\ a_entry (s_ah (deepcopy s) 1) = [2].
Proof. vm_compute. auto 10. Qed.
