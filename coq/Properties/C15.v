(* C15 — the language graph mirrors the language and over-approximates every attack graph.
   Statements only; proofs in theories/SubThm.v, LangGraphCor.v, LangGraphThm.v (styp_sound), OverApprox.v. *)
From MT Require Import Prelude Lang LangThm SubThm Eval EvalThm Graph Gen GenThm GenCor LangGraph LangGraphThm LangGraphCor OverApprox.
From Coq Require Import Relations.

(* subtype queries = reflexive-transitive closure of `extends` *)
Theorem C15_subtype_closure : forall L, wf_inherit L = true -> forall t u,
  is_subasset_of L t u = true <-> clos_refl_trans string (extends L) t u.
Proof. exact subasset_closure. Qed.
Print Assumptions C15_subtype_closure.

(* the association nodes: every one is a declared association with declared ends, every declared association with
   a declared end is represented (same name, assets and fields: associations sharing a name stay distinguishable),
   and an asset lists exactly those in which it or an ancestor takes part *)
Theorem C15_assocs_exact : forall L created, lg_assocs L = LOk created ->
  (forall c, In c created -> In c (l_assocs L) /\ has_asset L (ac_lasset c) = true /\ has_asset L (ac_rasset c) = true) /\
  (forall c t a, In c (l_assocs L) -> find_asset L t = Some a -> (ac_lasset c = t \/ ac_rasset c = t) ->
     exists c', In c' created /\ assoc_same c c' = true) /\
  (forall t c, In c (asset_assocs L created t) <->
     In c created /\ (is_subasset_of L t (ac_lasset c) = true \/ is_subasset_of L t (ac_rasset c) = true)).
Proof.
  intros L created H. destruct (created_spec L created H) as [A B].
  exact (conj A (conj B (fun t c => asset_assocs_spec L created t c))).
Qed.
Print Assumptions C15_assocs_exact.

(* association lookup by field names and asset types, in both orientations *)
Theorem C15_lookup : forall L created f1 f2 t1 t2,
  (forall c, assoc_lookup L created f1 f2 t1 t2 = Some c -> In c created /\ lookup_matches L c f1 f2 t1 t2) /\
  (assoc_lookup L created f1 f2 t1 t2 = None -> forall c, In c created -> ~ lookup_matches L c f1 f2 t1 t2) /\
  (assoc_lookup L created f1 f2 t1 t2 = assoc_lookup L created f2 f1 t2 t1).
Proof. exact assoc_lookup_spec. Qed.
Print Assumptions C15_lookup.

(* references to unknown super assets and association ends are errors *)
Theorem C15_errors : forall L,
  (supers_ok L = false -> lang_graph L = LErr LSuperNotFound) /\
  (forall g, lang_graph L = LOk g ->
     (forall a s, In a (l_assets L) -> ad_super a = Some s -> has_asset L s = true) /\
     (forall c, In c (lg_created g) -> has_asset L (ac_lasset c) = true /\ has_asset L (ac_rasset c) = true)).
Proof.
  intros L. split; [apply unknown_super_rejected|]. intros g H.
  exact (conj (accepted_has_supers L g H) (accepted_assoc_ends L g H)).
Qed.
Print Assumptions C15_errors.

(* static typing is sound for the relational meaning of step expressions *)
Theorem C15_type_soundness : forall L created M,
  wf_inherit L = true -> fields_uniqueb created = true -> no_shadowb L = true -> valid_viewb L created M = true ->
  forall n m e T U sn x y,
    styp L created n (Some T) e = TOk (Some U) sn -> tok L created n (Some T) e = true ->
    typed_le L M x T -> den L M m e x y -> typed_le L M y U.
Proof. exact styp_sound. Qed.
Print Assumptions C15_type_soundness.

(* every attack-graph edge X:s -> Y:t is predicted by a link from step s of X's type to a step t owned by Y's type
   or one of its ancestors *)
Theorem C15_over_approx : forall L M g s,
  lang_graph L = LOk g -> generate L M = GOk s -> names_ok L M ->
  wf_inherit L = true -> fields_uniqueb (lg_created g) = true -> no_shadowb L = true ->
  valid_viewb L (lg_created g) M = true -> wt_lang L (lg_created g) = true ->
  exists info : list (nat * iasset * stepdecl),
    map (fun x => (snd (fst x), snd x)) info = enum_model L M /\
    g_nodes (s_g s) = seq 0 (List.length info) /\
    forall k a d c b d', nth_error info k = Some (k, a, d) -> nth_error info c = Some (c, b, d') ->
      In c (n_children (s_nh s k)) ->
      exists U, In (ia_type a, sd_name d, (U, sd_name d')) (lg_link_list g) /\ is_subasset_of L (ia_type b) U = true.
Proof. exact over_approximation. Qed.
Print Assumptions C15_over_approx.

(* non-vacuity: the shape of the repaired defect F15b (union of sibling types) *)
Definition st (n : string) (r : option (bool * list sexpr)) : stepdecl := mkStep n "or" JNull [] (JDict []) None r.
Definition exL : lang := mkLang
  [ mkAsset "T0" None false [] [st "t" None];
    mkAsset "T1" (Some "T0") false [] []; mkAsset "T2" (Some "T0") false [] [];
    mkAsset "X" None false [] [st "s" (Some (true, [SCollect (SUnion (SField "fa") (SField "fb")) (SStep "t")]))] ]
  [ mkAssoc "A1" "X" "xa" 0%Z None "T1" "fa" 0%Z None; mkAssoc "A2" "X" "xb" 0%Z None "T2" "fb" 0%Z None ].
Definition exM : imodel := mkIModel
  [ mkIAsset 0%Z "x" "X" [] [0; 1]; mkIAsset 1%Z "y1" "T1" [] [0]; mkIAsset 2%Z "y2" "T2" [] [1] ]
  [ mkIAssoc "A1" "xa" [0%Z] "fa" [1%Z]; mkIAssoc "A2" "xb" [0%Z] "fb" [2%Z] ].
Example C15_nonvacuous :
  match lang_graph exL, generate exL exM with
  | LOk g, GOk s =>
      wf_inherit exL = true /\ fields_uniqueb (lg_created g) = true /\ no_shadowb exL = true /\
      valid_viewb exL (lg_created g) exM = true /\ wt_lang exL (lg_created g) = true /\
      lg_link_list g = [("X", "s", ("T0", "t"))] /\ n_children (s_nh s 0) = [1; 2]
  | _, _ => False
  end.
Proof. vm_compute. auto 10. Qed.
