(* C02 — one node per asset x step, with attributes faithful to model and language.
   Statements only; proofs in theories/GenThm.v (generate_spec) and GenCor.v (generated_graph). *)
From MT Require Import Prelude Lang Eval EvalThm Graph GraphInv Gen GenThm GenCor.

(* exactly one node per pair (asset of the model, step the asset's type defines or inherits), in that order,
   and nothing else; node k is the k-th pair and has id k *)
Theorem C02_nodes_exact : forall L M s, generate L M = GOk s ->
  exists info : list (nat * iasset * stepdecl),
    map (fun x => (snd (fst x), snd x)) info = enum_model L M /\
    g_nodes (s_g s) = seq 0 (List.length info) /\
    (forall k o a d, nth_error info k = Some (o, a, d) -> o = k /\ n_id (s_nh s k) = Some (Z.of_nat k)).
Proof.
  intros L M s H. destruct (generate_spec L M s H) as (info & A & B & _ & _ & _ & _ & _ & I).
  exists info. split; auto. split; auto. intros k o a d Hk. destruct (I _ _ _ _ Hk) as (E & n & cs & _ & _ & _ & Hi & _). auto.
Qed.
Print Assumptions C02_nodes_exact.

(* the node of (a, d) carries the step's type, TTC, tags and MITRE info, the asset's current defense value,
   and for exist / notExist steps whether the requirement reaches at least one asset *)
Theorem C02_attributes : forall L M s, generate L M = GOk s ->
  exists info : list (nat * iasset * stepdecl),
    map (fun x => (snd (fst x), snd x)) info = enum_model L M /\
    forall k a d, nth_error info k = Some (k, a, d) ->
      let n := s_nh s k in
      n_type n = sd_type d /\ n_name n = sd_name d /\ n_asset n = Some (ia_name a) /\ n_ttc n = sd_ttc d /\
      n_tags n = sd_tags d /\ n_mitre n = mitre_of (sd_meta d) /\ n_viable n = true /\ n_necessary n = true /\
      n_def n = (if seqb (sd_type d) "defense" then dget seqb (ia_defs a) (sd_name d) else None) /\
      (if seqb (sd_type d) "exist" || seqb (sd_type d) "notExist"
       then exists e rest ys, sd_requires d = Some (e :: rest) /\ eval L M e (ia_id a) = GOk ys /\
                              n_exist n = Some (match ys with [] => false | _ => true end)
       else n_exist n = None).
Proof.
  intros L M s H. destruct (generate_spec L M s H) as (info & A & _ & _ & _ & _ & _ & _ & I).
  exists info. split; auto. intros k a d Hk. destruct (I _ _ _ _ Hk) as (_ & n & cs & Hn & _ & HL & _).
  destruct (node_for_shape L M _ _ _ Hn) as (_ & _ & _ & _ & T1 & T2 & T3 & T4 & T5 & T6 & T7 & T8).
  unfold Lab in HL. inversion HL as [[V1 V2 V3 V4 V5 V6 V7 V8 V9 V10 V11]]. cbv zeta.
  rewrite V1, V2, V3, V7, V6, V9, V10, V11, V4, V5. repeat (split; [assumption|]).
  clear -Hn. unfold node_for in Hn.
  destruct (seqb (sd_type d) "exist" || seqb (sd_type d) "notExist") eqn:Ex.
  - destruct (sd_requires d) as [[|e rest]|]; cbn in Hn; try discriminate.
    destruct (eval L M e (ia_id a)) as [ys|] eqn:Ev; cbn in Hn; [|discriminate].
    destruct (seqb (sd_type d) "defense" && _); [discriminate|]. inversion Hn; subst; cbn. split; auto.
    exists e, rest, ys. auto.
  - cbn in Hn. destruct (seqb (sd_type d) "defense" && _); [discriminate|]. inversion Hn; subst; cbn. auto.
Qed.
Print Assumptions C02_attributes.

(* ids unique; under unique asset names and colon-free step names full names are unique, and lookup by id or
   by full name returns precisely the node *)
Theorem C02_lookups : forall L M s, generate L M = GOk s -> names_ok L M ->
  exists n : nat,
    g_nodes (s_g s) = seq 0 n /\
    (forall k, k < n -> get_node_by_id (s_g s) (Z.of_nat k) = Some k /\ n_id (s_nh s k) = Some (Z.of_nat k)) /\
    (forall i, (forall k, k < n -> i <> Z.of_nat k) -> get_node_by_id (s_g s) i = None) /\
    (forall k, k < n -> get_node_by_full_name (s_g s) (full_name (s_nh s k)) = Some k) /\
    (forall fn k, get_node_by_full_name (s_g s) fn = Some k -> k < n /\ full_name (s_nh s k) = fn) /\
    (forall i j, i < n -> j < n -> full_name (s_nh s i) = full_name (s_nh s j) -> i = j).
Proof.
  intros L M s H Hn. destruct (generated_graph L M s H Hn) as (info & _ & B & Hidx & At & I1 & I2 & N1 & N2 & N3 & _).
  exists (List.length info). split; auto. split; [|auto 6].
  intros k Hk. split; auto.
  destruct (nth_error info k) as [[[o a] d]|] eqn:E; [|apply nth_error_None in E; lia].
  pose proof (Hidx _ _ _ _ E). subst o. destruct (At _ _ _ E) as (n & _ & _ & Hi & _). auto.
Qed.
Print Assumptions C02_lookups.

Definition exL : lang := mkLang
  [ mkAsset "Aa" None false []
      [ mkStep "t" "or" (JDict [("name", JStr "Exponential")]) ["tg"] (JDict [("mitre", JStr "T1")]) None None;
        mkStep "df" "defense" (JDict [("name", JStr "Enabled")]) [] (JDict []) None None;
        mkStep "ex" "exist" JNull [] (JDict []) (Some [SField "pb"]) None ];
    mkAsset "Bb" (Some "Aa") false [] [ mkStep "t" "or" JNull [] (JDict []) None (Some (false, [SCollect (SField "pa") (SStep "t")])) ] ]
  [ mkAssoc "Pp" "Aa" "pa" 0%Z None "Aa" "pb" 0%Z None ].
Definition exM : imodel := mkIModel
  [ mkIAsset 0%Z "x:1" "Aa" [("df", 512%Z)] [0]; mkIAsset 5%Z "x" "Bb" [("df", 1024%Z)] [0] ]
  [ mkIAssoc "Pp" "pa" [0%Z] "pb" [5%Z] ].
Example C02_nonvacuous :
  match generate exL exM with
  | GOk s => g_nodes (s_g s) = [0; 1; 2; 3; 4; 5] /\ n_def (s_nh s 1) = Some 512%Z /\ n_exist (s_nh s 2) = Some true /\
             n_exist (s_nh s 5) = Some false /\ n_children (s_nh s 3) = [0] /\ n_mitre (s_nh s 0) = Some "T1" /\
             get_node_by_full_name (s_g s) "x:1:df" = Some 1
  | GErr _ => False
  end.
Proof. vm_compute. auto 10. Qed.
