import sys, random, itertools
sys.setrecursionlimit(10000)
from maltoolbox.attackgraph import AttackGraph, AttackGraphNode, Attacker
from maltoolbox.attackgraph.analyzers.apriori import calculate_viability_and_necessity, prune_unviable_and_unnecessary_nodes
DIST={'type':'function','name':'Exponential','arguments':[0.1]}
EN={'type':'function','name':'Enabled','arguments':[]}
def build(types, edges, status, ttcs):
    g = AttackGraph()
    ns=[]
    for i,t in enumerate(types):
        n = AttackGraphNode(type=t, name=f'n{i}', ttc=ttcs[i])
        if t=='defense': n.defense_status = status[i]
        if t in('exist','notExist'): n.existence_status = bool(status[i])
        g.add_node(n); ns.append(n)
    for (a,b) in edges:
        ns[a].children.append(ns[b]); ns[b].parents.append(ns[a])
    return g, ns
def spec(types, edges, status, ttcs):
    n=len(types); par=[[a for (a,b) in edges if b==i] for i in range(n)]
    V=[True]*n; N=[True]*n
    def fixed(i):
        t=types[i]
        if t=='defense': return (status[i]!=1.0, status[i]!=0.0)
        if t=='exist': return (bool(status[i]), not status[i])
        if t=='notExist': return (not status[i], bool(status[i]))
    trans=[not (ttcs[i] and ttcs[i]['name'] not in('Enabled','Disabled')) for i in range(n)]
    changed=True
    for i in range(n):
        if fixed(i): V[i],N[i]=fixed(i)
    while changed:
        changed=False
        for i in range(n):
            if fixed(i) or not par[i]: continue
            ns_=[N[p] or not trans[p] for p in par[i]]
            if types[i]=='or': v=any(V[p] for p in par[i]); nn=all(ns_)
            else: v=all(V[p] for p in par[i]); nn=any(ns_)
            v = v and V[i]; nn = nn and N[i]
            if (v,nn)!=(V[i],N[i]): V[i],N[i]=v,nn; changed=True
    return V,N
random.seed(1)
bad_v=bad_n=0; tot=0; ex=None
for trial in range(20000):
    n=random.randint(2,5)
    types=[random.choice(['or','and','defense','exist','notExist','or','and']) for _ in range(n)]
    edges=list({(random.randrange(n),random.randrange(n)) for _ in range(random.randint(0,7))})
    # only or/and can be children (as in generated graphs? no: keep general but skip parents for fixed types)
    edges=[(a,b) for (a,b) in edges if types[b] in("or","and") and a!=b]
    status=[random.choice([0.0,1.0,0.5]) if types[i]=='defense' else random.choice([0,1]) for i in range(n)]
    ttcs=[random.choice([None,DIST,EN]) for _ in range(n)]
    g,ns=build(types,edges,status,ttcs)
    try:
        calculate_viability_and_necessity(g)
    except RecursionError:
        print('recursion', types, edges); continue
    V,N=spec(types,edges,status,ttcs)
    tot+=1
    if [x.is_viable for x in ns]!=V: bad_v+=1; ex=ex or ('V',types,edges,status,[t and t['name'] for t in ttcs],[x.is_viable for x in ns],V)
    if [x.is_necessary for x in ns]!=N:
        bad_n+=1
        if bad_n<4: print(('N',types,edges,status,[t and t['name'] for t in ttcs],[x.is_necessary for x in ns],N))
print(tot,bad_v,bad_n,ex)
