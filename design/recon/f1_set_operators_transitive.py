from lang1 import *
# Language: A with fields x (A--A via assoc L: [src] <-- L --> [dst]), B extends A
L = lang([
  asset('A', steps=[
     step('s_union', reaches=[C(U(F('p'),F('q')), S('t'))]),
     step('s_inter', reaches=[C(I(F('p'),F('q')), S('t'))]),
     step('s_diff',  reaches=[C(D(F('p'),F('q')), S('t'))]),
     step('s_trans', reaches=[C(T(F('nxt')), S('t'))]),
     step('s_sub', reaches=[C(ST('B',F('p')), S('t'))]),
     step('t'),
  ]),
  asset('B', sup='A'),
], [assoc('P','A','pOf','A','p'), assoc('Q','A','qOf','A','q'), assoc('N','A','prv','A','nxt')])
lg = LanguageGraph(L)
f = LanguageClassesFactory(lg)
def mk(n_assets, links, types=None):
    m = Model('m', f)
    As=[]
    for i in range(n_assets):
        a = getattr(f.ns, (types or {}).get(i,'A'))(name=f'a{i}')
        m.add_asset(a); As.append(a)
    for (an, l, r) in links:
        cls = getattr(f.ns, an)
        lf, rf = {'P':('pOf','p'),'Q':('qOf','q'),'N':('prv','nxt')}[an]
        m.add_association(cls(**{lf:[As[i] for i in l], rf:[As[i] for i in r]}))
    return m, As
def kids(g, full):
    return sorted(c.full_name for c in g.get_node_by_full_name(full).children)
# a0 -p-> a1,a2 ; a0 -q-> a2,a3
m,As = mk(4, [('P',[0],[1,2]),('Q',[0],[2,3])])
g = AttackGraph(lg, m)
print('union    p={1,2} q={2,3}:', kids(g,'a0:s_union'))
print('inter:', kids(g,'a0:s_inter'))
print('diff :', kids(g,'a0:s_diff'))
# empty left
m,As = mk(4, [('Q',[0],[2,3])])
g = AttackGraph(lg, m)
print('union p={} q={2,3}:', kids(g,'a0:s_union'))
m,As = mk(4, [('P',[0],[1,2])])
g = AttackGraph(lg, m)
print('diff p={1,2} q={}:', kids(g,'a0:s_diff'))
m,As = mk(4, [('P',[0],[1]),('Q',[0],[1])])
g = AttackGraph(lg, m)
print('diff p={1} q={1}:', kids(g,'a0:s_diff'), ' union:', kids(g,'a0:s_union'))
# subtype
m,As = mk(4, [('P',[0],[1,2])], types={1:'B'})
g = AttackGraph(lg, m)
print('sub p={1:B,2:A}:', [c.full_name for c in g.get_node_by_full_name('a0:s_sub').children])
# transitive chain
m,As = mk(4, [('N',[0],[1]),('N',[1],[2])])
g = AttackGraph(lg, m)
print('trans chain 0->1->2:', [c.full_name for c in g.get_node_by_full_name('a0:s_trans').children])
# cycle
m,As = mk(3, [('N',[0],[1]),('N',[1],[0])])
try:
    g = AttackGraph(lg, m); print('trans cycle:', kids(g,'a0:s_trans'))
except RecursionError as e: print('trans cycle: RecursionError')
import os
m,As = mk(2, [('N',[0],[0])])
# WARNING: the self-link case does not terminate in practice (frontier doubles per level); opt in explicitly.
if not os.environ.get('RECON_SELF_LINK'): raise SystemExit
try:
    g = AttackGraph(lg, m); print('trans self:', kids(g,'a0:s_trans'))
except RecursionError as e: print('trans self: RecursionError')
except Exception as e: print('self link err', type(e), e)
