from lang1 import *
L = lang([
  asset('A', steps=[step('d', typ='defense', ttc={'type':'function','name':'Enabled','arguments':[]}), step('d2', typ='defense'), step('a')]),
  asset('B', sup='A', steps=[step('d3', typ='defense', ttc={'type':'function','name':'Disabled','arguments':[]})]),
  asset('Z', steps=[step('z')]),
], [assoc('P','A','pOf','A','p', lm=(0,1)), assoc('Q','A','qa','Z','qz'), assoc('Q','B','qb','Z','qz2')])
lg = LanguageGraph(L); f = LanguageClassesFactory(lg)
print('ns:', [x for x in dir(f.ns) if not x.startswith('_')])
m = Model('m', f)
a0 = f.ns.A(name='a0'); a1 = f.ns.A(name='a1'); b = f.ns.B(name='b'); z = f.ns.Z(name='z')
print('defaults', a0.d, a0.d2, b.d, b.d2, b.d3, 'truthy asset?', bool(a0), 'a0==a1', a0==a1)
# explicit id 0
m.add_asset(a0, asset_id=5); m.add_asset(a1, asset_id=0)
print('ids', a0.id, a1.id)
# negative id
m.add_asset(b, asset_id=-3); print('neg id', b.id, 'next', m.next_id)
m.add_asset(z)
# remove & reuse name/id
m.remove_asset(z); print('after remove: ids', m.asset_ids, 'names', m.asset_names)
z2 = f.ns.Z(name='z'); m.add_asset(z2); print('re-added name', z2.name, z2.id)
try:
    z3 = f.ns.Z(name='zz'); m.add_asset(z3, asset_id=7); print('reuse id 7 ok')
except ValueError as e: print('reuse id rejected:', e)
# eq semantics
c1 = f.ns.A(name='same'); c2 = f.ns.A(name='same')
print('two fresh same-name assets ==', c1==c2)
# type errors
for desc, fn in [('defense 2.0', lambda: setattr(a0,'d',2.0)), ('defense -1', lambda: setattr(a0,'d',-1)),
   ('Z in A field', lambda: f.ns.P(pOf=[z2], p=[a0])), ('B in A field', lambda: f.ns.P(pOf=[b], p=[a0])),
   ('max exceeded', lambda: m.add_association(f.ns.P(pOf=[a0,a1], p=[b]))),
   ]:
    try: r = fn(); print(desc, 'ACCEPTED', r)
    except Exception as e: print(desc, 'rejected', type(e).__name__)
# self link
p = f.ns.P(pOf=[a0], p=[a0]); m.add_association(p)
raise SystemExit  # remainder superseded by f5_model_selflink_removal.py
print('self-link neighbours p:', [x.name for x in m.get_associated_assets_by_field_name(a0,'p')], 'pOf:', [x.name for x in m.get_associated_assets_by_field_name(a0,'pOf')], 'a0.associations', len(a0.associations))
m.remove_association(p); print('after remove', len(a0.associations), len(m.associations))
# remove asset with 2 associations
p1 = f.ns.P(pOf=[a0], p=[a1]); p2 = f.ns.P(pOf=[b], p=[a0, a1]); m.add_association(p1); m.add_association(p2)
print('a0 assocs', len(a0.associations))
m.remove_asset(a0)
print('after remove a0: assocs in model', len(m.associations), [m.association_to_dict(x) for x in m.associations], 'a1.assocs', len(a1.associations), 'b.assocs', len(b.associations))
