from lang1 import *
L = lang([
  asset('A', steps=[step('a', reaches=[S('b')]), step('b')]),
], [assoc('P','A','pOf','A','p'), assoc('P','A','uOf','A','u')])
try:
    lg = LanguageGraph(L)
    print('C15 dup assoc same name same types: lang graph associations:', [(a.name,a.left_field.fieldname,a.right_field.fieldname) for a in lg.associations])
    f = LanguageClassesFactory(lg); print([x for x in dir(f.ns) if 'P' in x])
except Exception as e: print('ERR', type(e).__name__, e)
L = lang([asset('A', steps=[step('a', reaches=[S('b')]), step('b')])], [assoc('P','A','pOf','A','p')])
lg = LanguageGraph(L); f = LanguageClassesFactory(lg)
m = Model('m', f); a0=f.ns.A(name='a0'); m.add_asset(a0)
att = AttackerAttachment(); att.entry_points=[(a0,['a'])]; m.add_attacker(att)
g = AttackGraph(lg, m); g.attach_attackers()
n = g.get_node_by_full_name('a0:a'); A = g.attackers[0]
g.remove_node(n)
print('F9c: removed node still in attacker.reached:', n in A.reached_attack_steps, ' in entry_points:', n in A.entry_points, ' n in graph:', n in g.nodes)
# attacker_to_dict with two tuples for same asset
att2 = AttackerAttachment(); att2.entry_points=[(a0,['a']),(a0,['b'])]; m.add_attacker(att2)
print('C18 two tuples same asset -> dict:', m.attacker_to_dict(att2))
