from lang1 import *
from unittest.mock import patch
import maltoolbox.ingestors.neo4j as nj
L = lang([
  asset('A', steps=[step('a', reaches=[C(F('p'),S('a')), C(F('p'),S('a'))])]),
  asset('B', sup='A'),
], [assoc('P','A','pOf','A','p'), assoc('Q','A','qOf','A','q')])
lg = LanguageGraph(L); f = LanguageClassesFactory(lg)
m = Model('m', f)
a0=f.ns.A(name='a0'); a1=f.ns.B(name='a1'); m.add_asset(a0); m.add_asset(a1)
m.add_association(f.ns.P(pOf=[a0], p=[a1])); m.add_association(f.ns.Q(qOf=[a0], q=[a1]))
class FakeTx:
    def create(self, sg): self.sg = sg
class FakeGraph:
    last=None
    def __init__(self, **kw): FakeGraph.last=self; self.tx=None
    def delete_all(self): pass
    def begin(self): self.tx=FakeTx(); return self.tx
    def commit(self, tx): pass
with patch.object(nj, 'Graph', FakeGraph):
    nj.ingest_model(m, 'u','n','p','d')
    sg = FakeGraph.last.tx.sg
    print('nodes', [(list(n.labels), dict(n)) for n in sg.nodes])
    print('rels', sorted((dict(r.start_node)['name'], type(r).__name__, dict(r.end_node)['name']) for r in sg.relationships))
    g = AttackGraph(lg, m)
    print('children a0:a', [c.full_name for c in g.get_node_by_full_name('a0:a').children])
    nj.ingest_attack_graph(g, 'u','n','p','d')
    sg = FakeGraph.last.tx.sg
    print('ag nodes', len(sg.nodes), 'rels', [(r.start_node['full_name'], type(r).__name__, r.end_node['full_name']) for r in sg.relationships])
