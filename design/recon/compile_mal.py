import json, sys
from maltoolbox.language.compiler import MalCompiler
spec = MalCompiler().compile(sys.argv[1])
print(json.dumps(spec, indent=1))
