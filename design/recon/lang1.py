import sys, copy, json
sys.setrecursionlimit(3000)
from maltoolbox.language import LanguageGraph, LanguageClassesFactory
from maltoolbox.model import Model, AttackerAttachment
from maltoolbox.attackgraph import AttackGraph, AttackGraphNode, Attacker

def F(n): return {'type':'field','name':n}
def S(n): return {'type':'attackStep','name':n}
def C(l,r): return {'type':'collect','lhs':l,'rhs':r}
def U(l,r): return {'type':'union','lhs':l,'rhs':r}
def I(l,r): return {'type':'intersection','lhs':l,'rhs':r}
def D(l,r): return {'type':'difference','lhs':l,'rhs':r}
def T(e): return {'type':'transitive','stepExpression':e}
def ST(t,e): return {'type':'subType','subType':t,'stepExpression':e}
def V(n): return {'type':'variable','name':n}
def step(name, typ='or', reaches=None, overrides=True, requires=None, ttc=None, tags=None):
    return {'name':name,'meta':{},'type':typ,'tags':tags or [],'risk':None,'ttc':ttc,
            'requires': {'overrides':True,'stepExpressions':requires} if requires else None,
            'reaches': {'overrides':overrides,'stepExpressions':reaches} if reaches is not None else None}
def asset(name, sup=None, steps=(), variables=(), abstract=False):
    return {'name':name,'meta':{},'category':'C','isAbstract':abstract,'superAsset':sup,
            'variables':list(variables),'attackSteps':list(steps)}
def assoc(name, la, lf, ra, rf, lm=(0,None), rm=(0,None)):
    return {'name':name,'meta':{},'leftAsset':la,'leftField':lf,'leftMultiplicity':{'min':lm[0],'max':lm[1]},
            'rightAsset':ra,'rightField':rf,'rightMultiplicity':{'min':rm[0],'max':rm[1]}}
def lang(assets, assocs):
    return {'formatVersion':'1.0.0','defines':{'id':'t','version':'0.0.1'},'categories':[{'name':'C','meta':{}}],
            'assets':assets,'associations':assocs}
