from lang1 import *
import json, yaml
L = lang([
  asset('A', steps=[step('d', typ='defense', ttc={'type':'function','name':'Enabled','arguments':[]}), step('a'),
        step('ex', typ='exist', requires=[F('p')]), step('nex', typ='notExist', requires=[F('p')])]),
  asset('B', sup='A'),
], [assoc('P','A','pOf','A','p')])
lg = LanguageGraph(L); f = LanguageClassesFactory(lg)
m = Model('m', f)
x1 = f.ns.A(name='x:1'); m.add_asset(x1)           # id 0, name 'x:1'
x = f.ns.A(name='x'); m.add_asset(x, asset_id=5)     # id 5
x2 = f.ns.A(name='x'); m.add_asset(x2, asset_id=1)   # dup -> 'x:1' collides
print('names', [str(a.name) for a in m.assets])
try:
    g = AttackGraph(lg, m); print('nodes', len(g.nodes), 'index', len(g._full_name_to_node))
except Exception as e: print('gen err', type(e), e)
# C07: save/load with id 0 not first, defenses, extras, unicode names
m = Model('m2', f)
a = f.ns.A(name='ä: "q" #x'); a.d = 0.0; a.extras = {'k': [1, {'z': 'w'}]}
b = f.ns.B(name='yes'); c = f.ns.A(name='0123')
m.add_asset(a, asset_id=3); m.add_asset(b); m.add_asset(c, asset_id=-2)
as1 = f.ns.P(pOf=[a], p=[b, c]); m.add_association(as1); as1.extras = {'note': 'hi'}
at = AttackerAttachment(); at.entry_points=[(a,['a']),(b,['a','d'])]; m.add_attacker(at)
at2 = AttackerAttachment(name='yes'); at2.entry_points=[(c,['a'])]; m.add_attacker(at2, attacker_id=0)
d0 = m._to_dict()
for ext in ('json','yml','yaml'):
    p=f'./m.{ext}'
    try:
        m.save_to_file(p); m2 = Model.load_from_file(p, f); d1 = m2._to_dict()
        print(ext, 'roundtrip equal:', d1==d0)
        if d1!=d0:
            for k in d0:
                if d0[k]!=d1[k]: print('   diff', k, d0[k], '||', d1[k])
    except Exception as e:
        import traceback; print(ext, 'ERR', type(e).__name__, e)
# hand-written: id 0 not first, shorthand
doc = {'metadata':{'name':'h','langVersion':'x','langID':'y'}, 'assets': {4: {'name':'q','type':'A'}, 0: 'B', 2: {'name':'r','type':'A'}},
       'associations':[{'P':{'pOf':[0],'p':[4,2]}}], 'attackers': {7: {'name':'att','entry_points': {0: {'attack_steps':['a']}}}}}
try:
    mm = Model._from_dict(doc, f); print('handwritten', mm._to_dict()['assets'], mm._to_dict()['associations'], mm._to_dict()['attackers'])
except Exception as e: print('handwritten ERR', type(e).__name__, e)
