from lang1 import *
import copy
from maltoolbox.attackgraph.analyzers.apriori import calculate_viability_and_necessity, prune_unviable_and_unnecessary_nodes
L = lang([
  asset('A', steps=[
     step('d', typ='defense', reaches=[S('a'), S('b'), S('c')], ttc={'type':'function','name':'Enabled','arguments':[]}),
     step('a', reaches=[S('b')], tags=['x','y']), step('b', reaches=[S('c')]), step('c', typ='and', ttc={'type':'function','name':'Exponential','arguments':[0.1]}),
     step('e', reaches=[C(F('p'),S('a'))]),
  ]),
], [assoc('P','A','pOf','A','p')])
lg = LanguageGraph(L); f = LanguageClassesFactory(lg)
m = Model('m', f)
a0 = f.ns.A(name='a0'); a1 = f.ns.A(name='a1'); m.add_asset(a0); m.add_asset(a1)
m.add_association(f.ns.P(pOf=[a0], p=[a1]))
att = AttackerAttachment(); att.entry_points=[(a0,['a','b','c','e'])]; m.add_attacker(att)
att2 = AttackerAttachment(); att2.entry_points=[(a1,['a'])]; m.add_attacker(att2)
g = AttackGraph(lg, m)
print('nodes', [(n.id,n.full_name) for n in g.nodes])
# C09 regenerate
g.attach_attackers()
ids_before = sorted(g._id_to_node)
g.regenerate_graph()
print('regenerate: node ids', [n.id for n in g.nodes][:4], 'index size', len(g._id_to_node), 'nodes', len(g.nodes), 'stale id0 in graph?', g.get_node_by_id(0) in g.nodes, 'attackers idx', list(g._id_to_attacker), 'attackers', g.attackers)
# C11 remove_attacker
g = AttackGraph(lg, m); g.attach_attackers()
A = g.attackers[0]
print('reached', [n.full_name for n in A.reached_attack_steps])
g.remove_attacker(A)
print('after remove_attacker: nodes still compromised by it:', [n.full_name for n in g.nodes if A in n.compromised_by], 'reached left', [n.full_name for n in A.reached_attack_steps])
# C13 prune
g = AttackGraph(lg, m)
calculate_viability_and_necessity(g)
print('labels', [(n.full_name, n.is_viable, n.is_necessary) for n in g.nodes])
prune_unviable_and_unnecessary_nodes(g)
print('after prune, remaining prunable:', [(n.full_name) for n in g.nodes if n.type in('or','and') and (not n.is_viable or not n.is_necessary)])
# add_node duplicate id check
g2 = AttackGraph()
n1 = AttackGraphNode(type='or', name='n1'); n2 = AttackGraphNode(type='or', name='n2')
g2.add_node(n1, node_id=5)
try:
    g2.add_node(n2, node_id=5); print('add_node dup id accepted! nodes', [(n.id,n.name) for n in g2.nodes], 'lookup5', g2.get_node_by_id(5).name)
except ValueError as e: print('dup rejected', e)
# add_attacker id 0
g3 = AttackGraph()
x = Attacker('x'); y = Attacker('y')
g3.add_attacker(x, attacker_id=1); g3.add_attacker(y, attacker_id=0)
print('attacker ids', x.id, y.id)
# C10 save/load tags
g = AttackGraph(lg, m); g.attach_attackers(); calculate_viability_and_necessity(g)
g.save_to_file('./g.json')
h = AttackGraph.load_from_file('./g.json', m)
n = h.get_node_by_full_name('a0:a'); print('tags loaded:', repr(n.tags), 'orig', g.get_node_by_full_name('a0:a').tags)
print('attackers loaded', [(a.id,a.name) for a in h.attackers], 'orig', [(a.id,a.name) for a in g.attackers])
# C14 deepcopy shares ttc
g = AttackGraph(lg, m); g.attach_attackers()
c = copy.deepcopy(g)
n = g.get_node_by_full_name('a0:c'); cn = c.get_node_by_full_name('a0:c')
print('deepcopy ttc shared:', n.ttc is cn.ttc, 'tags shared', n.tags is cn.tags, 'attributes shared', n.attributes is cn.attributes)
print('copy index consistent', all(c._id_to_node[k] is v for k,v in ((n.id,n) for n in c.nodes)), all(c._full_name_to_node[n.full_name] is n for n in c.nodes))
print('copy attackers idx', all(c._id_to_attacker[a.id] is a for a in c.attackers))
