from lang1 import *
L = lang([
  asset('T0', steps=[step('t')]),
  asset('T1', sup='T0'), asset('T2', sup='T0'),
  asset('X', steps=[step('s', reaches=[C(U(F('fa'),F('fb')), S('t'))])]),
], [assoc('XA','X','xa','T1','fa'), assoc('XB','X','xb','T2','fb')])
lg = LanguageGraph(L); f = LanguageClassesFactory(lg)
xs = [st for st in lg.attack_steps if st.qualified_name=='X:s'][0]
print('lang graph children of X:s:', {k:[t.qualified_name for (t,_) in v] for k,v in xs.children.items()})
m = Model('m', f); x=f.ns.X(name='x'); y1=f.ns.T1(name='y1'); y2=f.ns.T2(name='y2')
for a in (x,y1,y2): m.add_asset(a)
m.add_association(f.ns.XA(xa=[x], fa=[y1])); m.add_association(f.ns.XB(xb=[x], fb=[y2]))
g = AttackGraph(lg, m)
print('attack graph children of x:s:', [(c.full_name, c.asset.type) for c in g.get_node_by_full_name('x:s').children])
t2 = lg.get_asset_by_name('T2'); 
print('ancestors-or-self of T2:', [a.name for a in t2.get_all_superassets()])
