from lang1 import *
L = lang([
  asset('A', steps=[
     step('s_i', reaches=[C(C(F('n'), I(F('p'),F('q'))), S('t'))]),
     step('s_d', reaches=[C(C(F('n'), D(F('p'),F('q'))), S('t'))]),
     step('t'),
  ]),
], [assoc('P','A','pOf','A','p'), assoc('Q','A','qOf','A','q'), assoc('N','A','nOf','A','n')])
lg = LanguageGraph(L); f = LanguageClassesFactory(lg)
m = Model('m', f); As=[]
for i in range(4):
    a = f.ns.A(name=f'a{i}'); m.add_asset(a); As.append(a)
# a0 -n-> a1,a2 ; a1 -p-> a3 ; a2 -q-> a3
m.add_association(f.ns.N(nOf=[As[0]], n=[As[1],As[2]]))
m.add_association(f.ns.P(pOf=[As[1]], p=[As[3]]))
m.add_association(f.ns.Q(qOf=[As[2]], q=[As[3]]))
g = AttackGraph(lg, m)
print('n.(p /\\ q) from a0 (pointwise = {}):', [c.full_name for c in g.get_node_by_full_name('a0:s_i').children])
print('n.(p - q)  from a0 (pointwise = {a3}):', [c.full_name for c in g.get_node_by_full_name('a0:s_d').children])
