from lang1 import *
import copy
# C03: parent step without reaches; child +> ; grandchild +>; sibling
L = lang([
  asset('R', steps=[step('s', reaches=None), step('t'), step('u'), step('v')]),
  asset('M', sup='R', steps=[step('s', reaches=[S('t')], overrides=False)]),
  asset('K', sup='M', steps=[step('s', reaches=[S('u')], overrides=False)]),
  asset('K2', sup='M', steps=[step('s', reaches=[S('v')], overrides=False)]),
], [])
snap = copy.deepcopy(L)
lg = LanguageGraph(L)
print('spec unchanged after LanguageGraph():', L == snap)
def names(t): return [e['name'] for e in lg._get_attacks_for_asset_type(t)['s']['reaches']['stepExpressions']]
print('M:', names('M')); print('K:', names('K')); print('K2:', names('K2')); print('M again:', names('M')); print('K again', names('K'))
print('spec unchanged:', L == snap)
