from lang1 import *
import time
L = lang([
  asset('A', steps=[step('d', typ='defense', ttc={'type':'function','name':'Enabled','arguments':[]}), step('a')]),
  asset('B', sup='A'),
], [assoc('P','A','pOf','A','p')])
lg = LanguageGraph(L); f = LanguageClassesFactory(lg)
m = Model('m', f)
a0 = f.ns.A(name='a0'); a1 = f.ns.A(name='a1'); b = f.ns.B(name='b')
for x in (a0,a1,b): m.add_asset(x)
p = f.ns.P(pOf=[a0], p=[a1]); m.add_association(p)
print(type(a0.associations), a0._extended_properties.keys())
print('as_dict a0', a0.as_dict())
t=time.time(); print('a1 in assets', a1 in m.assets, time.time()-t)
# self link
p2 = f.ns.P(pOf=[a0], p=[a0]); m.add_association(p2)
print('self-link neighbours p:', [x.name for x in m.get_associated_assets_by_field_name(a0,'p')], 'pOf:', [x.name for x in m.get_associated_assets_by_field_name(a0,'pOf')], 'a0.associations', len(list(a0.associations)))
m.remove_association(p2); print('after remove', len(list(a0.associations)), len(m.associations))
p3 = f.ns.P(pOf=[b], p=[a0, a1]); m.add_association(p3)
print('a0 assocs', len(list(a0.associations)))
try:
    m.remove_asset(a0)
    print('after remove a0: assocs in model', [m.association_to_dict(x) for x in m.associations], 'a1.assocs', len(list(a1.associations)), 'b.assocs', len(list(b.associations)))
except Exception as e:
    import traceback; traceback.print_exc()
print(m._to_dict())
