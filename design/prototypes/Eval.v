From Coq Require Import List ZArith String Bool Lia Relations.
Import ListNotations.
Open Scope list_scope.

Inductive sexpr :=
| SStep (n : string) | SField (f : string) | SVar (v : string)
| SCollect (l r : sexpr) | SUnion (l r : sexpr) | SInter (l r : sexpr) | SDiff (l r : sexpr)
| STrans (e : sexpr) | SSub (t : string) (e : sexpr).

Record model := { m_assets : list Z; m_type : Z -> string; m_nbrs : Z -> string -> list Z }.

Definition mem (x : Z) (l : list Z) := existsb (Z.eqb x) l.
Lemma mem_In x l : mem x l = true <-> In x l.
Proof. unfold mem. rewrite existsb_exists. split.
 - intros [y [H1 H2]]. apply Z.eqb_eq in H2. subst; auto.
 - intros H. exists x. split; auto. apply Z.eqb_refl. Qed.
Lemma mem_nIn x l : mem x l = false <-> ~ In x l.
Proof. rewrite <- mem_In. destruct (mem x l); intuition congruence. Qed.

(* option-monadic flat_map *)
Fixpoint fmo {A B} (f : A -> option (list B)) (l : list A) : option (list B) :=
  match l with
  | [] => Some []
  | a :: t => match f a, fmo f t with Some r, Some rs => Some (r ++ rs) | _, _ => None end
  end.
Lemma fmo_spec {A B} (f : A -> option (list B)) l out :
  fmo f l = Some out ->
  (forall a, In a l -> exists r, f a = Some r) /\
  (forall b, In b out <-> exists a r, In a l /\ f a = Some r /\ In b r).
Proof.
  revert out; induction l as [|a t IH]; simpl; intros out H.
  - inversion H; subst. split; [intros ? []|]. intros b; split; [intros []|intros (?&?&[]&_)].
  - destruct (f a) as [r|] eqn:Ea; [|discriminate]. destruct (fmo f t) as [rs|] eqn:Et; [|discriminate].
    inversion H; subst; clear H. destruct (IH rs eq_refl) as [I1 I2]. split.
    + intros a' [<-|Hin]; eauto.
    + intros b. rewrite in_app_iff, I2. split.
      * intros [Hb|(a'&r'&Hin&Hf&Hb)]; [exists a, r; auto| exists a', r'; auto].
      * intros (a'&r'&[<-|Hin]&Hf&Hb); [left; congruence| right; eauto].
Qed.

Section Sem.
Variable subtype : string -> string -> bool.
Variable lookup_var : string -> string -> option sexpr.
Variable M : model.

Section OneLevel.
Variable venvD : string -> Z -> Z -> Prop.
Variable venvE : string -> Z -> option (list Z).
Hypothesis venv_ok : forall v x ys, venvE v x = Some ys -> forall y, In y ys <-> venvD v x y.

Fixpoint den1 (e : sexpr) : Z -> Z -> Prop :=
  match e with
  | SStep _ => fun x y => x = y
  | SField f => fun x y => In y (m_nbrs M x f)
  | SVar v => venvD v
  | SCollect l r => fun x z => exists y, den1 l x y /\ den1 r y z
  | SUnion l r => fun x y => den1 l x y \/ den1 r x y
  | SInter l r => fun x y => den1 l x y /\ den1 r x y
  | SDiff l r => fun x y => den1 l x y /\ ~ den1 r x y
  | STrans e => fun x y => clos_trans Z (den1 e) x y
  | SSub t e => fun x y => den1 e x y /\ subtype (m_type M y) t = true
  end.

Fixpoint ev1 (e : sexpr) (x : Z) : option (list Z) :=
  match e with
  | SStep _ => Some [x]
  | SField f => Some (m_nbrs M x f)
  | SVar v => venvE v x
  | SCollect l r => match ev1 l x with Some ys => fmo (ev1 r) ys | None => None end
  | SUnion l r => match ev1 l x, ev1 r x with Some a, Some b => Some (a ++ filter (fun y => negb (mem y a)) b) | _, _ => None end
  | SInter l r => match ev1 l x, ev1 r x with Some a, Some b => Some (filter (fun y => mem y a) b) | _, _ => None end
  | SDiff l r => match ev1 l x, ev1 r x with Some a, Some b => Some (filter (fun y => negb (mem y b)) a) | _, _ => None end
  | STrans e => None
  | SSub t e => match ev1 e x with Some ys => Some (filter (fun y => subtype (m_type M y) t) ys) | None => None end
  end.

Lemma ev1_den1 : forall e x ys, ev1 e x = Some ys -> forall y, In y ys <-> den1 e x y.
Proof.
  induction e as [s|f|v|l IHl r IHr|l IHl r IHr|l IHl r IHr|l IHl r IHr|e IHe|t e IHe];
    intros x ys H y; cbn [ev1 den1] in H |- *.
  - inversion H; subst; cbn; intuition congruence.
  - inversion H; subst; tauto.
  - apply venv_ok; auto.
  - destruct (ev1 l x) as [a|] eqn:El; [|discriminate].
    destruct (fmo_spec _ _ _ H) as [H1 H2]; rewrite H2; split.
    + intros (a'&r'&Hin&Hf&Hb); exists a'; split; [apply (IHl _ _ El); auto | apply (IHr _ _ Hf); auto].
    + intros (y0&Hl&Hr); apply (IHl _ _ El) in Hl. destruct (H1 _ Hl) as [r' Hr'].
      exists y0, r'; repeat split; auto; apply (IHr _ _ Hr'); auto.
  - destruct (ev1 l x) as [a|] eqn:El; [|discriminate]. destruct (ev1 r x) as [b|] eqn:Er; [|discriminate].
    inversion H; subst; clear H.
    rewrite in_app_iff, filter_In, negb_true_iff, mem_nIn, <- (IHl _ _ El), <- (IHr _ _ Er).
    destruct (in_dec Z.eq_dec y a); tauto.
  - destruct (ev1 l x) as [a|] eqn:El; [|discriminate]. destruct (ev1 r x) as [b|] eqn:Er; [|discriminate].
    inversion H; subst; clear H.
    rewrite filter_In, mem_In, <- (IHl _ _ El), <- (IHr _ _ Er). tauto.
  - destruct (ev1 l x) as [a|] eqn:El; [|discriminate]. destruct (ev1 r x) as [b|] eqn:Er; [|discriminate].
    inversion H; subst; clear H.
    rewrite filter_In, negb_true_iff, mem_nIn, <- (IHl _ _ El), <- (IHr _ _ Er). tauto.
  - discriminate.
  - destruct (ev1 e x) as [a|] eqn:Ee; [|discriminate]. inversion H; subst; clear H.
    rewrite filter_In, <- (IHe _ _ Ee). tauto.
Qed.
End OneLevel.

Fixpoint den (n : nat) : sexpr -> Z -> Z -> Prop :=
  den1 (fun v x y => match n with O => False | S n' =>
          match lookup_var (m_type M x) v with Some e' => den n' e' x y | None => False end end).
Fixpoint ev (n : nat) : sexpr -> Z -> option (list Z) :=
  ev1 (fun v x => match n with O => None | S n' =>
          match lookup_var (m_type M x) v with Some e' => ev n' e' x | None => None end end).

Theorem ev_den : forall n e x ys, ev n e x = Some ys -> forall y, In y ys <-> den n e x y.
Proof.
  induction n as [|n IHn]; intros e x ys H y.
  - revert e x ys H y; cbn [ev den]; apply ev1_den1; discriminate.
  - revert e x ys H y. cbn [ev den]. apply ev1_den1.
    intros v x ys H y. destruct (lookup_var (m_type M x) v); [|discriminate]. apply IHn; auto.
Qed.
End Sem.
Print Assumptions ev_den.
